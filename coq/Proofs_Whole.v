(* Proofs_Whole.v — C01 / C12 over the whole model: from the bytes of a unified patch, as diff tools write it, to the bytes of the
   patched file.  (1) the header scan on "--- old<TAB>stamp" / "+++ new<TAB>stamp" (with text, an "Index:" line in front) is
   computed: the HEADER hypotheses of Proofs_Sections_Unified.v are discharged; (2) process_patch / run_patch on such a patch
   whose hunks are a conforming diff of A to B, in a world where the file named holds A, leaves exactly B there and touches
   nothing else, exit status 0, no message; (3) instances. *)
From PatchV Require Import Base Lines Hunk Locator Formatter Options Applier LineParser Parser World Driver
     Spec_Locate Spec_Apply Spec_Names Proofs_Base Proofs_Lines Proofs_Fuel Proofs_Unified Proofs_Filler Proofs_Progress
     Proofs_Names Proofs_Conf Proofs_World Proofs_Crash Proofs_EndToEnd Proofs_Reverse Proofs_Sections Proofs_Sections_Unified.

Definition hs_at (p : patch) (n : nat) : hstate := mkHS p LKUnknown n false true empty_hunk 0.

Lemma step_minus strip p n r x :
  parse_file_line strip r = Ok x ->
  header_step strip (hs_at p n) (bs "--- " ++ r) =
  Ok (inl (hs_at (set_paths p (old_path p) (fst x) (old_time p) (opt_or (snd x) (new_time p))) (S n))).
Proof.
  intros H. unfold header_step, hs_at. cbn [h_looks h_patch h_lines h_git h_body h_hunk h_first looks_eqb andb negb].
  change (consume_str (bs "*** ") (bs "--- " ++ r)) with (@None (list N)).
  change (consume_str (bs "+++ ") (bs "--- " ++ r)) with (@None (list N)).
  rewrite consume_str_app. rewrite H. reflexivity.
Qed.

Lemma step_plus strip p n r x :
  parse_file_line strip r = Ok x ->
  header_step strip (hs_at p n) (bs "+++ " ++ r) =
  Ok (inl (hs_at (set_paths p (fst x) (new_path p) (opt_or (snd x) (old_time p)) (new_time p)) (S n))).
Proof.
  intros H. unfold header_step, hs_at. cbn [h_looks h_patch h_lines h_git h_body h_hunk h_first looks_eqb andb negb].
  change (consume_str (bs "*** ") (bs "+++ " ++ r)) with (@None (list N)).
  rewrite consume_str_app. rewrite H. reflexivity.
Qed.

Lemma step_index strip p n r x :
  parse_file_line strip r = Ok x ->
  header_step strip (hs_at p n) (bs "Index: " ++ r) = Ok (inl (hs_at (set_index p (fst x)) (S n))).
Proof.
  intros H. unfold header_step, hs_at. cbn [h_looks h_patch h_lines h_git h_body h_hunk h_first looks_eqb andb negb].
  change (consume_str (bs "*** ") (bs "Index: " ++ r)) with (@None (list N)).
  change (consume_str (bs "+++ ") (bs "Index: " ++ r)) with (@None (list N)).
  change (consume_str (bs "--- ") (bs "Index: " ++ r)) with (@None (list N)).
  rewrite consume_str_app. rewrite H. reflexivity.
Qed.

Lemma hs_at_shift p n : hs_at p n = shift n (st0 p).
Proof. reflexivity. Qed.

Lemma step_filler strip p n line :
  Filler strip p line -> header_step strip (hs_at p n) line = Ok (inl (hs_at p (S n))).
Proof.
  intros H. rewrite hs_at_shift, header_step_shift. unfold Filler in H. rewrite H. cbn [shift_r]. rewrite shift_shift.
  reflexivity.
Qed.

Lemma step_range_gen strip p n L x hk :
  L = bs "@@ -" ++ x -> parse_unified_range empty_hunk L = (true, hk) -> fmt_unknown_or p FUnified = true ->
  header_step strip (hs_at p n) L = Ok (inl (mkHS p LKUnified (S n) false true hk (S n))).
Proof.
  intros HL HP Hf. unfold header_step, hs_at. cbn [h_looks h_patch h_lines h_git h_body h_hunk h_first looks_eqb andb negb].
  rewrite HP. subst L.
  change (consume_str (bs "*** ") (bs "@@ -" ++ x)) with (@None (list N)).
  change (consume_str (bs "+++ ") (bs "@@ -" ++ x)) with (@None (list N)).
  change (consume_str (bs "--- ") (bs "@@ -" ++ x)) with (@None (list N)).
  change (consume_str (bs "Index: ") (bs "@@ -" ++ x)) with (@None (list N)).
  change (consume_str (bs "Prereq: ") (bs "@@ -" ++ x)) with (@None (list N)).
  change (consume_str (bs "diff --git ") (bs "@@ -" ++ x)) with (@None (list N)).
  cbn [rbind fst snd]. rewrite Hf. reflexivity.
Qed.

Lemma step_range strip p n o nr :
  fmt_unknown_or p FUnified = true -> wf_range o -> wf_range nr ->
  header_step strip (hs_at p n) (unified_header o nr) =
  Ok (inl (mkHS p LKUnified (S n) false true (mkHunk o nr []) (S n))).
Proof.
  intros Hf Ho Hn. eapply step_range_gen; [unfold unified_header; reflexivity| |exact Hf].
  apply (parse_unified_header empty_hunk o nr Ho Hn).
Qed.

Lemma starts_with_nil t : starts_with t [] = true.
Proof. destruct t; reflexivity. Qed.

Lemma step_first strip p k hk first o t :
  fmt_unknown_or p FUnified = true ->
  header_step strip (mkHS p LKUnified k false true hk first) (op_char o :: t) =
  Ok (inr (mkHS (set_fmt (set_paths p (new_path p) (old_path p) (new_time p) (old_time p)) FUnified) LKUnknown (S k) false true hk first)).
Proof.
  intros Hf.
  assert (S1 : (starts_with (op_char o :: t) [43%N] || starts_with (op_char o :: t) [45%N] || starts_with (op_char o :: t) [32%N]) = true)
    by (destruct o; cbn [op_char starts_with]; rewrite starts_with_nil; reflexivity).
  assert (C1 : consume_str (bs "Index: ") (op_char o :: t) = None) by (destruct o; reflexivity).
  assert (C2 : consume_str (bs "Prereq: ") (op_char o :: t) = None) by (destruct o; reflexivity).
  assert (C3 : consume_str (bs "diff --git ") (op_char o :: t) = None) by (destruct o; reflexivity).
  unfold header_step. cbn [h_looks h_patch h_lines h_git h_body h_hunk h_first looks_eqb andb negb].
  rewrite Hf, S1, C1, C2, C3. cbn [andb rbind fst snd]. rewrite Hf. cbn [is_nil andb orb]. rewrite S1. reflexivity.
Qed.

(* ---------- header file lines as diff tools write them ---------- *)
Definition tab_time (ts : option (list N)) : list N := match ts with None => [] | Some t => 9%N :: t end.
(* what parse_file_line stores as the time stamp: nothing for a missing or empty one *)
Definition time_read (ts : option (list N)) : option (list N) := match ts with Some (c :: r) => Some (c :: r) | _ => None end.

Definition plain_name (name : list N) : Prop :=
  name <> [] /\ ~ In 9%N name /\ ~ In 32%N name /\ hd 0%N name <> 34%N.

Lemma pfl_scan_plain : forall name acc, ~ In 9%N name -> ~ In 32%N name -> pfl_scan name acc = (rev acc ++ name, []).
Proof.
  induction name as [|c name IH]; intros acc H9 H32; cbn [pfl_scan].
  - rewrite app_nil_r. reflexivity.
  - destruct (N.eqb_spec c 9) as [->|_]; [exfalso; apply H9; left; reflexivity|].
    destruct (N.eqb_spec c 32) as [->|_]; [exfalso; apply H32; left; reflexivity|].
    rewrite IH; [cbn [rev]; rewrite <- app_assoc; reflexivity| |]; intros I; [apply H9|apply H32]; right; exact I.
Qed.

Lemma file_line_name name ts strip :
  plain_name name ->
  parse_file_line strip (name ++ tab_time ts) = Ok (stripped name strip, time_read ts).
Proof.
  intros (Hne & H9 & H32 & Hq). destruct ts as [t|]; cbn [tab_time time_read].
  - rewrite (file_line_plain name t strip Hne H9 Hq). destruct t; reflexivity.
  - rewrite app_nil_r. unfold parse_file_line. destruct name as [|c name]; [contradiction|]. cbn [hd] in Hq.
    destruct (N.eqb_spec c 34); [contradiction|]. cbn [rbind]. rewrite (pfl_scan_plain (c :: name) [] H9 H32). cbn [rev app].
    reflexivity.
Qed.

(* ---------- the scan over a list of lines ---------- *)
Lemma scan_inl strip st l ls st1 : header_step strip st l = Ok (inl st1) -> scan strip st (l :: ls) = scan strip st1 ls.
Proof. intros H. cbn [scan]. rewrite H. reflexivity. Qed.

Lemma scan_fillers strip p : forall fl n ls, Forall (Filler strip p) fl ->
  scan strip (hs_at p n) (fl ++ ls) = scan strip (hs_at p (length fl + n)) ls.
Proof.
  induction fl as [|l fl IH]; intros n ls HF; [reflexivity|]. inversion HF as [|? ? F1 F2]; subst.
  cbn [app]. rewrite (scan_inl _ _ _ _ _ (step_filler strip p n l F1)). rewrite (IH (S n) ls F2). cbn [length].
  replace (length fl + S n) with (S (length fl) + n) by lia. reflexivity.
Qed.

(* the patch record after "--- old", "+++ new", the first range line and the first line of the first hunk *)
Definition named (p0 : patch) (oldp newp : list N) (t1 t2 : option (list N)) : patch :=
  mkPatch FUnified (poper p0) (index_path p0) (prereq p0) oldp newp
          (opt_or (time_read t1) (new_time p0)) (opt_or (time_read t2) (old_time p0)) (old_mode p0) (new_mode p0) (hunks p0).

Lemma scan_core strip p0 n oldname t1 newname t2 o nr opc t :
  plain_name oldname -> plain_name newname -> fmt_unknown_or p0 FUnified = true -> wf_range o -> wf_range nr ->
  scan strip (hs_at p0 n)
       [bs "--- " ++ oldname ++ tab_time t1; bs "+++ " ++ newname ++ tab_time t2; unified_header o nr; op_char opc :: t] =
  Some (mkHS (named p0 (stripped oldname strip) (stripped newname strip) t1 t2) LKUnknown (S (S (S (S n)))) false true
             (mkHunk o nr []) (S (S (S n)))).
Proof.
  intros Ho Hn Hf Wo Wn.
  rewrite (scan_inl _ _ _ _ _ (step_minus strip p0 n _ _ (file_line_name oldname t1 strip Ho))). cbn [fst snd].
  rewrite (scan_inl _ _ _ _ _ (step_plus strip _ (S n) _ _ (file_line_name newname t2 strip Hn))). cbn [fst snd].
  match goal with |- scan _ (hs_at ?q _) _ = _ => set (p2 := q) end.
  assert (Hf2 : fmt_unknown_or p2 FUnified = true) by (destruct p0; exact Hf).
  rewrite (scan_inl _ _ _ _ _ (step_range strip p2 (S (S n)) o nr Hf2 Wo Wn)).
  cbn [scan]. rewrite (step_first strip p2 _ _ _ opc t Hf2). cbn [is_nil].
  destruct p0; reflexivity.
Qed.
Lemma mbind_ext {A B} (m : M A) (k k' : A -> M B) w :
  (forall a w', k a w' = k' a w') -> mbind m k w = mbind m k' w.
Proof. intros H. unfold mbind. destruct (m w) as [[a|e] w']; [apply H|reflexivity]. Qed.

(* a section whose body is still to be parsed does what the section with the parsed hunks does *)
Lemma process_section_parsed o st p s hs s2 :
  hunks p = [] ->
  (forall p1, pfmt p1 = pfmt p -> hunks p1 = [] -> parse_patch_body p1 s = Ok (set_hunks p1 hs, s2)) ->
  forall w, process_section o st true p s w = process_section o st false (set_hunks p hs) s2 w.
Proof.
  intros Hh Hb w. destruct p as [fm opn ip pr op np ot nt om nm hk]. cbn [hunks] in Hh. subst hk.
  unfold process_section. cbn [set_hunks pfmt poper index_path prereq old_path new_path old_time new_time old_mode new_mode hunks].
  apply mbind_ext. intros m w1.
  set (p := mkPatch fm opn ip pr op np ot nt om nm []).
  set (p' := mkPatch fm opn ip pr op np ot nt om nm hs).
  assert (G : forall pend, guess_filepath m pend p' o = guess_filepath m pend p o) by reflexivity.
  rewrite G.
  set (ftp := if is_nil (file_to_patch o) then guess_filepath m (map d_dest (deferred_writes st)) p o else file_to_patch o).
  destruct (is_nil ftp); [reflexivity|].
  change (set_hunks p hs) with p'.
  change (output_path o p' ftp) with (output_path o p ftp).
  change (is_adding_file p' o) with (is_adding_file p o).
  assert (B1 : forall q, pfmt q = fm -> hunks q = [] -> body_if true q s w1 = (Ok (set_hunks q hs, s2), w1)).
  { intros q Q1 Q2. unfold body_if, mlift. rewrite (Hb q Q1 Q2). reflexivity. }
  destruct (exists_ m ftp && negb (is_regular_file m ftp)).
  { rewrite !mbind_eq. rewrite (B1 p eq_refl eq_refl). reflexivity. }
  destruct (N.eqb (N.land (effective_perms st m (output_path o p ftp)) write_mask) 0 && match read_only o with ROFail => true | _ => false end).
  { rewrite !mbind_eq. rewrite (B1 p eq_refl eq_refl). reflexivity. }
  apply mbind_ext. intros input_lines w2.
  apply mbind_ext. intros _ w3.
  rewrite !mbind_eq.
  assert (B2 : forall q, pfmt q = fm -> hunks q = [] -> body_if true q s w3 = (Ok (set_hunks q hs, s2), w3)).
  { intros q Q1 Q2. unfold body_if, mlift. rewrite (Hb q Q1 Q2). reflexivity. }
  set (q1 := match opn with OpRename => if str_eqb ftp (output_path o p ftp) then set_oper p OpChange else p | _ => p end).
  set (q2 := match opn with OpRename => if str_eqb ftp (output_path o p ftp) then set_oper p' OpChange else p' | _ => p' end).
  assert (Q : pfmt q1 = fm /\ hunks q1 = [] /\ q2 = set_hunks q1 hs).
  { unfold q1, q2. destruct opn; try (repeat split; reflexivity). destruct (str_eqb ftp (output_path o p ftp)); repeat split; reflexivity. }
  destruct Q as (Q1 & Q2 & Q3). rewrite (B2 q1 Q1 Q2), Q3. reflexivity.
Qed.

(* ---------- lines in front of the two file lines ---------- *)
(* the scan, started on the lines ls with the patch record p and nothing found yet, goes through them and is then in the
   same kind of state with the record p0 *)
Definition leads (strip : Z) (p : patch) (ls : list (list N)) (p0 : patch) : Prop :=
  forall n more, scan strip (hs_at p n) (ls ++ more) = scan strip (hs_at p0 (length ls + n)) more.

Lemma leads_fillers strip p fl : Forall (Filler strip p) fl -> leads strip p fl p.
Proof. intros H n more. apply scan_fillers. exact H. Qed.

Lemma leads_nil strip p : leads strip p [] p.
Proof. intros n more. reflexivity. Qed.

Lemma leads_app strip p a p1 b p2 : leads strip p a p1 -> leads strip p1 b p2 -> leads strip p (a ++ b) p2.
Proof.
  intros H1 H2 n more. rewrite <- app_assoc, H1, H2, app_length. replace (length b + (length a + n)) with (length a + length b + n) by lia.
  reflexivity.
Qed.

Lemma leads_index strip p name ts :
  plain_name name -> leads strip p [bs "Index: " ++ name ++ tab_time ts] (set_index p (stripped name strip)).
Proof.
  intros Hn n more. cbn [app length Nat.add].
  rewrite (scan_inl _ _ _ _ _ (step_index strip p n _ _ (file_line_name name ts strip Hn))). reflexivity.
Qed.

(* ---------- the patch record the scan hands over ---------- *)
Definition decide_oper (h1 : hunk) (oldp newp : list N) : operation :=
  if Z.eqb (rstart (newr h1)) 0 || str_eqb newp devnull_path then OpDelete
  else if Z.eqb (rstart (oldr h1)) 0 || str_eqb oldp devnull_path then OpAdd
  else OpChange.

Lemma header_patch_named p0 oldp newp t1 t2 k o nr first h1 :
  poper p0 = OpChange -> oldr h1 = o -> newr h1 = nr ->
  header_patch (mkHS (named p0 oldp newp t1 t2) LKUnknown k false true (mkHunk o nr []) first) =
  set_oper (named p0 oldp newp t1 t2) (decide_oper h1 oldp newp).
Proof.
  intros Hop <- <-. unfold header_patch, decide_oper. cbn [h_git h_patch h_hunk named poper newr oldr new_path old_path].
  rewrite Hop. destruct (_ || _); [reflexivity|]. destruct (_ || _); [reflexivity|].
  destruct p0. cbn in Hop. subst. reflexivity.
Qed.

Definition with_strip (strip : Z) : options :=
  mkOptions false false [] [] false [] false false false [] strip 2%Z false [] []
            false false false false false false false false OBUnset OBUnset MNative RFDefault ROWarn QSUnset [] [].

Lemma clean_prefixed pre x : ~ In 10%N pre -> x <> [] -> clean x -> clean (pre ++ x).
Proof.
  intros Hp Hx [C1 C2]. split.
  - intros I. apply in_app_or in I. tauto.
  - rewrite last_opt_app_ne by exact Hx. exact C2.
Qed.

Lemma file_line_clean pfx name ts : ~ In 10%N pfx -> name <> [] -> clean (name ++ tab_time ts) -> clean (pfx ++ name ++ tab_time ts).
Proof. intros Hp Hn Hc. apply clean_prefixed; [exact Hp| |exact Hc]. destruct name; [contradiction|discriminate]. Qed.

Lemma first_line_op h : body h <> [] -> exists opc t, first_line h = op_char opc :: t.
Proof. intros H. unfold first_line. destruct (body h) as [|pl1 b]; [contradiction|]. eexists. eexists. reflexivity. Qed.

Section Header.
Variables (strip : Z) (f : format) (pre0 : list (list N)) (p0 : patch).
Variables (oldname newname : list N) (t1 t2 : option (list N)) (h1 : hunk) (hs : list hunk).
Let minus := bs "--- " ++ oldname ++ tab_time t1.
Let plus := bs "+++ " ++ newname ++ tab_time t2.
Let pre := pre0 ++ [minus; plus].
Let st' := mkHS (named p0 (stripped oldname strip) (stripped newname strip) t1 t2) LKUnknown (S (S (S (S (length pre0))))) false true
                (mkHunk (oldr h1) (newr h1) []) (S (S (S (length pre0)))).

Hypothesis Hlead : leads strip (empty_patch f) pre0 p0.
Hypothesis Hclean0 : Forall clean pre0.
Hypothesis Hop0 : poper p0 = OpChange.
Hypothesis Hfmt0 : fmt_unknown_or p0 FUnified = true.
Hypothesis Hold : plain_name oldname.
Hypothesis Hnew : plain_name newname.
Hypothesis Holdc : clean (oldname ++ tab_time t1).
Hypothesis Hnewc : clean (newname ++ tab_time t2).
Hypothesis Hwf : Forall wf_hunk (h1 :: hs).

Lemma pre_clean : Forall clean pre.
Proof.
  apply Forall_app. split; [exact Hclean0|]. destruct Hold as (N1 & _). destruct Hnew as (N2 & _).
  constructor; [|constructor; [|constructor]]; apply file_line_clean; try assumption; vm_compute; intuition discriminate.
Qed.

Lemma pre_length : length pre = S (S (length pre0)).
Proof. unfold pre. rewrite app_length. cbn [length]. lia. Qed.

Lemma scan_whole :
  scan strip (st0 (empty_patch f)) (pre ++ [unified_header (oldr h1) (newr h1); first_line h1]) = Some st'.
Proof.
  inversion Hwf as [|? ? Hw1 _]; subst. destruct Hw1 as (Hne & _ & Wo & Wn & _).
  destruct (first_line_op h1 Hne) as (opc & t & ->).
  unfold pre. rewrite <- app_assoc. change (st0 (empty_patch f)) with (hs_at (empty_patch f) 0). rewrite Hlead. rewrite Nat.add_0_r.
  cbn [app]. apply scan_core; assumption.
Qed.

Theorem header_scan_gen tail :
  parse_patch_header_full (empty_patch f) strip (strm (join_lines pre ++ emit_hunks (h1 :: hs) ++ tail)) =
  Ok (true,
      set_oper (named p0 (stripped oldname strip) (stripped newname strip) t1 t2)
               (decide_oper h1 (stripped oldname strip) (stripped newname strip)),
      strm (emit_hunks (h1 :: hs) ++ tail), true).
Proof.
  pose proof (header_of_section (with_strip strip) f pre h1 hs st' pre_clean Hwf scan_whole) as X.
  cbn [strip_size with_strip] in X. rewrite app_assoc.
  rewrite X; [|unfold st'; cbn [h_first]; rewrite pre_length; reflexivity|reflexivity].
  unfold st'. rewrite (header_patch_named p0 _ _ t1 t2 _ _ _ _ h1 Hop0 eq_refl eq_refl). reflexivity.
Qed.
End Header.

Lemma fmt_unknown_or_empty f : f = FUnknown \/ f = FUnified -> fmt_unknown_or (empty_patch f) FUnified = true.
Proof. intros [-> | ->]; reflexivity. Qed.

(* (1) the header diff -u writes: text that is nothing to the scan (the "diff -u a/f b/f" command line, a mail, ...), then
   "--- old<TAB>stamp", "+++ new<TAB>stamp" (the stamps are optional), then the hunks.  The scan stops on the first line of
   the first hunk's body and goes back to the first range line. *)
Theorem unified_header_scan strip f fl oldname t1 newname t2 h1 hs tail :
  f = FUnknown \/ f = FUnified ->
  Forall (Filler strip (empty_patch f)) fl -> Forall clean fl ->
  plain_name oldname -> plain_name newname -> clean (oldname ++ tab_time t1) -> clean (newname ++ tab_time t2) ->
  Forall wf_hunk (h1 :: hs) ->
  parse_patch_header_full (empty_patch f) strip
    (strm (join_lines (fl ++ [bs "--- " ++ oldname ++ tab_time t1; bs "+++ " ++ newname ++ tab_time t2]) ++ emit_hunks (h1 :: hs) ++ tail)) =
  Ok (true,
      mkPatch FUnified (decide_oper h1 (stripped oldname strip) (stripped newname strip)) [] []
              (stripped oldname strip) (stripped newname strip) (opt_or (time_read t1) []) (opt_or (time_read t2) []) 0 0 [],
      strm (emit_hunks (h1 :: hs) ++ tail), true).
Proof.
  intros Hf HF HC Ho Hn Hoc Hnc Hwf.
  rewrite (header_scan_gen strip f fl (empty_patch f) oldname newname t1 t2 h1 hs (leads_fillers _ _ _ HF) HC eq_refl
             (fmt_unknown_or_empty f Hf) Ho Hn Hoc Hnc Hwf tail).
  reflexivity.
Qed.
Print Assumptions unified_header_scan.

(* the same with an "Index: name" line (and text such as the "=====" rule after it) in front of the two file lines *)
Theorem unified_header_scan_index strip f fl ixname ixt fl2 oldname t1 newname t2 h1 hs tail :
  f = FUnknown \/ f = FUnified ->
  Forall (Filler strip (empty_patch f)) fl -> Forall clean fl ->
  plain_name ixname -> clean (ixname ++ tab_time ixt) ->
  Forall (Filler strip (set_index (empty_patch f) (stripped ixname strip))) fl2 -> Forall clean fl2 ->
  plain_name oldname -> plain_name newname -> clean (oldname ++ tab_time t1) -> clean (newname ++ tab_time t2) ->
  Forall wf_hunk (h1 :: hs) ->
  parse_patch_header_full (empty_patch f) strip
    (strm (join_lines ((fl ++ [bs "Index: " ++ ixname ++ tab_time ixt] ++ fl2) ++
                       [bs "--- " ++ oldname ++ tab_time t1; bs "+++ " ++ newname ++ tab_time t2]) ++ emit_hunks (h1 :: hs) ++ tail)) =
  Ok (true,
      mkPatch FUnified (decide_oper h1 (stripped oldname strip) (stripped newname strip)) (stripped ixname strip) []
              (stripped oldname strip) (stripped newname strip) (opt_or (time_read t1) []) (opt_or (time_read t2) []) 0 0 [],
      strm (emit_hunks (h1 :: hs) ++ tail), true).
Proof.
  intros Hf HF HC Hi Hic HF2 HC2 Ho Hn Hoc Hnc Hwf.
  assert (L : leads strip (empty_patch f) (fl ++ [bs "Index: " ++ ixname ++ tab_time ixt] ++ fl2) (set_index (empty_patch f) (stripped ixname strip))).
  { apply (leads_app _ _ _ (empty_patch f)); [apply leads_fillers; exact HF|].
    apply (leads_app _ _ _ (set_index (empty_patch f) (stripped ixname strip))); [apply leads_index; exact Hi|apply leads_fillers; exact HF2]. }
  assert (C : Forall clean (fl ++ [bs "Index: " ++ ixname ++ tab_time ixt] ++ fl2)).
  { apply Forall_app. split; [exact HC|]. apply Forall_app. split; [|exact HC2]. constructor; [|constructor].
    destruct Hi as (N1 & _). apply file_line_clean; [vm_compute; intuition discriminate|exact N1|exact Hic]. }
  assert (F : fmt_unknown_or (set_index (empty_patch f) (stripped ixname strip)) FUnified = true) by (destruct Hf as [-> | ->]; reflexivity).
  rewrite (header_scan_gen strip f _ _ oldname newname t1 t2 h1 hs L C eq_refl F Ho Hn Hoc Hnc Hwf tail).
  reflexivity.
Qed.
Print Assumptions unified_header_scan_index.

(* ---------- what -pN makes of the names diff tools write ---------- *)
Lemma not_devnull_one_slash d f : d <> [] -> ~ In 47%N d -> str_eqb (d ++ 47%N :: f) devnull_path = false.
Proof.
  intros Hd Hs. apply str_eqb_neq. intros E. destruct d as [|c d]; [contradiction|].
  cbn in E. inversion E; subst. apply Hs. left. reflexivity.
Qed.

Lemma skip_slashes_noslash f : ~ In 47%N f -> skip_slashes f = f.
Proof. destruct f as [|c r]; [reflexivity|]. intros H. cbn [skip_slashes]. unfold SLASH. destruct (N.eqb_spec c 47) as [->|_]; [exfalso; apply H; left; reflexivity|reflexivity]. Qed.

Lemma drop_component_one : forall d f, ~ In 47%N d -> ~ In 47%N f -> drop_component (d ++ 47%N :: f) = Some f.
Proof.
  induction d as [|c d IH]; intros f Hd Hf; cbn [app drop_component]; unfold SLASH.
  - change (N.eqb 47 47) with true. cbv iota. rewrite skip_slashes_noslash by exact Hf. reflexivity.
  - destruct (N.eqb_spec c 47) as [->|_]; [exfalso; apply Hd; left; reflexivity|]. apply IH; [|exact Hf]. intros I. apply Hd. right. exact I.
Qed.

(* -p1 on "a/f" *)
Lemma stripped_p1 d f : d <> [] -> ~ In 47%N d -> f <> [] -> ~ In 47%N f -> stripped (d ++ 47%N :: f) 1 = f.
Proof.
  intros Hd Hds Hf Hfs. unfold stripped. rewrite (not_devnull_one_slash d f Hd Hds).
  rewrite strip_path_spec by lia. change (Z.to_nat 1) with 1. unfold strip_spec. cbn [strip_n].
  rewrite (drop_component_one d f Hds Hfs). reflexivity.
Qed.

Lemma not_devnull_noslash f : ~ In 47%N f -> str_eqb f devnull_path = false.
Proof. intros H. apply str_eqb_neq. intros ->. apply H. left. reflexivity. Qed.

(* -p0 on a name of the working directory *)
Lemma stripped_p0 f : ~ In 47%N f -> stripped f 0 = f.
Proof. intros H. unfold stripped. rewrite (not_devnull_noslash f H). rewrite strip_path_spec by lia. reflexivity. Qed.

Lemma basename_aux_noslash : forall f cur, ~ In 47%N f -> basename_aux f cur = rev cur ++ f.
Proof.
  induction f as [|c f IH]; intros cur H; cbn [basename_aux]; [rewrite app_nil_r; reflexivity|].
  destruct (N.eqb_spec c 47) as [->|_]; [exfalso; apply H; left; reflexivity|].
  rewrite IH by (intros I; apply H; right; exact I). cbn [rev]. rewrite <- app_assoc. reflexivity.
Qed.

Lemma basename_aux_dir : forall d f cur, ~ In 47%N f -> basename_aux (d ++ 47%N :: f) cur = f.
Proof.
  induction d as [|c d IH]; intros f cur H; cbn [app basename_aux].
  - change (N.eqb 47 47) with true. cbv iota. apply (basename_aux_noslash f [] H).
  - destruct (N.eqb c 47); apply IH; exact H.
Qed.

(* no -p: the base name, whatever the directories *)
Lemma stripped_basename d f strip : (strip < 0)%Z -> d ++ 47%N :: f <> devnull_path -> ~ In 47%N f -> stripped (d ++ 47%N :: f) strip = f.
Proof.
  intros Hs Hd Hf. unfold stripped. apply str_eqb_neq in Hd. rewrite Hd.
  unfold strip_path. destruct (Z.ltb_spec strip 0); [|lia]. apply basename_aux_dir. exact Hf.
Qed.

(* ---------- a section whose record says Change, Add or Delete, on a file that is there ---------- *)
(* (diff -U0 writes "@@ -0,0 +1 @@" for an insertion at the top and "@@ -1 +0,0 @@" for the removal of the first line: the
   header scan takes the first for the creation and the second for the deletion of the file; the section does the same
   thing as for a change, as long as something is left to write) *)
Lemma tail_write_any o st ftp f operms pm (ar : aresult) s2 w :
  out_file_path o = [] -> dry_run o = false -> save_backup o = false ->
  r_failed ar = 0 -> r_skipped ar = false -> r_perfect ar = true -> r_msgs ar = [] ->
  pfmt (r_patch ar) <> FGit ->
  (poper (r_patch ar) = OpChange \/ poper (r_patch ar) = OpAdd \/ poper (r_patch ar) = OpDelete) ->
  new_mode (r_patch ar) = 0%N -> new_path (r_patch ar) <> Driver.devnull ->
  (remove_empty_files o <> OBYes \/ lines_bytes (newline_output o) (r_out ar) <> []) ->
  f <> [] -> ~ In 47%N f ->
  section_tail o st ftp f operms pm false ar s2 w =
  (let! st' := write_now o (add_event st [])
                 (mkDef (lines_bytes (newline_output o) (r_out ar)) f false false None
                        (if N.eqb pm perms_unknown then None else Some pm)) in mret (st', s2)) w.
Proof.
  intros O2 O3 O4 Rf Rs Rp Rm Pf Pop Pm Pn Nd Hn Hs.
  unfold section_tail. rewrite Rf, Rs, Rp, Rm, Pm, O2, O3, O4.
  assert (Git : match pfmt (r_patch ar) with FGit => true | _ => false end = false) by (destruct (pfmt (r_patch ar)); congruence).
  rewrite Git. cbn [Nat.eqb negb andb orb is_nil].
  change (str_eqb [] (bs "-")) with false. cbv iota.
  rewrite mbind_eq. cbn [mret].
  rewrite (ensure_noslash f Hn Hs).
  apply str_eqb_neq in Pn. rewrite Pn.
  match goal with |- context [if ?c then (if is_nil ?b then ?x else ?y) else ?z] =>
    assert (X : (if c then (if is_nil b then x else y) else z) = z) end.
  { destruct (remove_empty_files o) eqn:Re; try reflexivity.
    destruct Nd as [Nr|Nb]; [congruence|].
    destruct (lines_bytes (newline_output o) (r_out ar)); [congruence|]. cbn [is_nil].
    match goal with |- (if ?c then _ else _) = _ => destruct c; reflexivity end. }
  rewrite X. clear X.
  assert (Rn : match poper (r_patch ar) with OpRename => true | _ => false end = false)
    by (destruct Pop as [Pc|[Pa|Pd]]; [rewrite Pc|rewrite Pa|rewrite Pd]; reflexivity).
  rewrite Rn. change (negb (0 =? 0)%N) with false. cbv iota.
  rewrite mbind_eq. cbn [mret andb]. rewrite mbind_eq. rewrite mbind_eq. cbn [mret].
  rewrite (mbind_eq (write_now _ _ _)).
  match goal with |- context [write_now ?a ?b ?c w] => destruct (write_now a b c w) as [[st'|e] w'] end.
  - rewrite mbind_eq. reflexivity.
  - reflexivity.
Qed.

Lemma section_forward_any o p f A B st s w data mode :
  plain_options o -> reverse_patch_opt o = false ->
  pfmt p <> FGit -> (poper p = OpChange \/ poper p = OpAdd \/ poper p = OpDelete) ->
  prereq p = [] -> old_path p = f -> new_path p = f -> new_mode p = 0%N ->
  f <> Driver.devnull -> f <> [] -> ~ In 47%N f ->
  Conforming A B (hunks p) ->
  (remove_empty_files o <> OBYes \/ lines_bytes (newline_output o) B <> []) ->
  (Z.of_nat (length A) < MAXZ)%Z ->
  fault w = None -> deferred_writes st = [] ->
  lookup (fs w) f = Some (Reg data mode) -> (mode < 4096)%N -> owner_r mode = true -> owner_w mode = true ->
  split_lines data = A ->
  exists st' w',
    process_section o st false p s w = (Ok (st', s), w') /\
    lookup (fs w') f = Some (Reg (lines_bytes (newline_output o) B) mode) /\
    (forall q, q <> f -> lookup (fs w') q = lookup (fs w) q) /\
    same_state st st' /\ fault w' = None /\ umask w' = umask w.
Proof.
  intros (O1 & O2 & O3 & O4 & O5 & O6 & O8) Rv Pf Pop P3 Po Pn Pm Hd Hn Hs HC Ne Hx Fw Dw Lf Hm Hr Hw HX.
  pose proof (owner_w_write_mask _ Hw) as Hw2.
  assert (Ex : exists_ (fs w) f = true) by (unfold exists_; rewrite (stat_reg _ _ _ _ Hs Lf); reflexivity).
  assert (G : guess_filepath (fs w) (map d_dest (deferred_writes st)) p o = f).
  { unfold guess_filepath. rewrite Po. apply str_eqb_neq in Hd. rewrite Hd. cbn [negb andb]. rewrite Ex. reflexivity. }
  assert (Out : output_path o p f = f) by (unfold output_path; rewrite O2; destruct Pop as [E|[E|E]]; rewrite E; reflexivity).
  rewrite (head_existing o st p s w f data mode O1 G Out Dw Fw Lf Hm Hr (or_introl Hw2) P3).
  2:{ destruct Pop as [E|[E|E]]; rewrite E; discriminate. } 2: exact Hn. 2: exact Hs.
  rewrite HX.
  assert (Eff : effective o p = p) by (unfold effective; rewrite Rv; reflexivity).
  assert (Guard : creation_guard (effective o p) A).
  { rewrite Eff. intros E. exfalso. unfold creates_file in E. rewrite Po in E. apply str_eqb_eq in E. contradiction. }
  assert (HC' : Conforming A B (hunks (effective o p))) by (rewrite Eff; exact HC).
  destruct (apply_conforming_gen_full o p A B O5 O6 O8 HC' Hx Guard) as (r & Er & Ro & Rf & Rr & Rs & Rp & Rm & hs & Hp3).
  rewrite Eff in Hp3.
  rewrite mbind_eq. unfold mlift. rewrite Er.
  apply N.eqb_neq in Hw2. rewrite Hw2.
  assert (Q1 : pfmt (r_patch r) <> FGit) by (rewrite Hp3; exact Pf).
  assert (Q2 : poper (r_patch r) = OpChange \/ poper (r_patch r) = OpAdd \/ poper (r_patch r) = OpDelete) by (rewrite Hp3; exact Pop).
  assert (Q3 : new_mode (r_patch r) = 0%N) by (rewrite Hp3; exact Pm).
  assert (Q4 : new_path (r_patch r) <> Driver.devnull) by (rewrite Hp3; cbn [set_hunks new_path]; congruence).
  rewrite (tail_write_any o st f f mode mode r s _ O2 O3 O4 Rf Rs Rp Rm Q1 Q2 Q3 Q4).
  2:{ rewrite Ro. exact Ne. } 2: exact Hn. 2: exact Hs.
  assert (Unk : N.eqb mode perms_unknown = false) by (apply N.eqb_neq; unfold perms_unknown; lia).
  rewrite Unk, Ro.
  set (w1 := mkWorld (fs w) (umask w) (trace w ++ [OOpenRead f]) None (stdout_data w)).
  destruct (write_existing o (add_event st []) f (lines_bytes (newline_output o) B) mode w1 data mode eq_refl Hs Lf Hw)
    as (w' & Ew & Fs' & Fa' & Um').
  rewrite mbind_eq, Ew. cbn [mret].
  eexists. exists w'. split; [reflexivity|]. rewrite Fs'.
  destruct (upd_upd_lookup (fs w) f (Reg (lines_bytes (newline_output o) B) mode) (Reg (lines_bytes (newline_output o) B) mode)) as [L1 L2].
  split; [exact L1|]. split; [exact L2|]. split; [apply same_state_add_event|]. split; [exact Fa'|exact Um'].
Qed.

(* ---------- (2) from the bytes of the patch to the bytes of the file ---------- *)
Lemma unified_body_fresh p1 hs tail :
  (pfmt p1 = FUnified \/ pfmt p1 = FGit) -> hunks p1 = [] -> hs <> [] -> Forall wf_hunk hs -> tail_ok tail ->
  parse_patch_body p1 (strm (emit_hunks hs ++ tail)) = Ok (set_hunks p1 hs, after tail).
Proof. intros Hf Hh Hne Hwf Ht. rewrite (unified_body p1 hs tail Hf Hne Hwf Ht), Hh. reflexivity. Qed.

Lemma ends_here_end o f : ends_here o f (after []) = true.
Proof. reflexivity. Qed.

Lemma decide_oper_cases h1 a b :
  decide_oper h1 a b = OpChange \/ decide_oper h1 a b = OpAdd \/ decide_oper h1 a b = OpDelete.
Proof. unfold decide_oper. destruct (_ || _); [auto|]. destruct (_ || _); auto. Qed.

Section Whole.
Variables (o : options) (f0 : format) (pre0 : list (list N)) (p0 : patch).
Variables (oldname newname : list N) (t1 t2 : option (list N)) (h1 : hunk) (hs : list hunk) (tail : list N).
Variables (fname : list N) (A B : list line).
Let pre := pre0 ++ [bs "--- " ++ oldname ++ tab_time t1; bs "+++ " ++ newname ++ tab_time t2].
Let bytes := join_lines pre ++ emit_hunks (h1 :: hs) ++ tail.

(* options *)
Hypothesis Hplain : plain_options o.
Hypothesis Hfwd : reverse_patch_opt o = false.
Hypothesis Hfo : format_from_options o = Ok f0.
(* header *)
Hypothesis Hlead : leads (strip_size o) (empty_patch f0) pre0 p0.
Hypothesis Hclean0 : Forall clean pre0.
Hypothesis Hp0 : poper p0 = OpChange /\ prereq p0 = [] /\ new_mode p0 = 0%N /\ hunks p0 = [] /\ fmt_unknown_or p0 FUnified = true.
Hypothesis Hold : plain_name oldname.
Hypothesis Hnew : plain_name newname.
Hypothesis Holdc : clean (oldname ++ tab_time t1).
Hypothesis Hnewc : clean (newname ++ tab_time t2).
Hypothesis Holdf : stripped oldname (strip_size o) = fname.
Hypothesis Hnewf : stripped newname (strip_size o) = fname.
Hypothesis Hfname : fname <> [] /\ ~ In 47%N fname.
(* hunks *)
Hypothesis Hwf : Forall wf_hunk (h1 :: hs).
Hypothesis Hconf : Conforming A B (h1 :: hs).
Hypothesis HB : remove_empty_files o <> OBYes \/ lines_bytes (newline_output o) B <> [].
Hypothesis HA : (Z.of_nat (length A) < MAXZ)%Z.
(* what follows the hunks *)
Hypothesis Htail : tail_ok tail.
Hypothesis Hends : ends_here o f0 (after tail) = true.

(* the record the scan hands over: Change -- or Add / Delete when a range of the first hunk starts at 0 (diff -U0) *)
Let p := set_oper (named p0 fname fname t1 t2) (decide_oper h1 fname fname).

Lemma whole_header :
  parse_patch_header_full (empty_patch f0) (strip_size o) (stream_of bytes) = Ok (true, p, strm (emit_hunks (h1 :: hs) ++ tail), true).
Proof.
  destruct Hp0 as (P1 & P2 & P3 & P4 & P5).
  change (stream_of bytes) with (strm bytes). unfold bytes, pre.
  rewrite (header_scan_gen (strip_size o) f0 pre0 p0 oldname newname t1 t2 h1 hs Hlead Hclean0 P1 P5 Hold Hnew Holdc Hnewc Hwf tail).
  rewrite Holdf, Hnewf. reflexivity.
Qed.

(* the state in which the header scan stops *)
Let st' := mkHS (named p0 (stripped oldname (strip_size o)) (stripped newname (strip_size o)) t1 t2) LKUnknown
                (S (S (S (S (length pre0))))) false true (mkHunk (oldr h1) (newr h1) []) (S (S (S (length pre0)))).

Lemma whole_scan :
  scan (strip_size o) (st0 (empty_patch f0)) (pre ++ [unified_header (oldr h1) (newr h1); first_line h1]) = Some st'.
Proof.
  destruct Hp0 as (P1 & P2 & P3 & P4 & P5).
  exact (scan_whole (strip_size o) f0 pre0 p0 oldname newname t1 t2 h1 hs Hlead P5 Hold Hnew Hwf).
Qed.

Lemma whole_pre_clean : Forall clean pre.
Proof. exact (pre_clean pre0 oldname newname t1 t2 Hclean0 Hold Hnew Holdc Hnewc). Qed.

Lemma whole_first : h_first st' = S (length pre).
Proof. unfold st', pre. cbn [h_first]. rewrite app_length. cbn [length]. f_equal. lia. Qed.

Lemma whole_header_patch : header_patch st' = p.
Proof.
  destruct Hp0 as (P1 & P2 & P3 & P4 & P5).
  unfold st'. rewrite (header_patch_named p0 _ _ t1 t2 _ _ _ _ h1 P1 eq_refl eq_refl).
  rewrite Holdf, Hnewf. reflexivity.
Qed.

(* the section: its body is parsed, its hunks applied, the file written *)
Lemma whole_section w data mode :
  fault w = None -> lookup (fs w) fname = Some (Reg data mode) -> (mode < 4096)%N -> owner_r mode = true -> owner_w mode = true ->
  split_lines data = A ->
  exists st1 w',
    process_section o ds0 true p (strm (emit_hunks (h1 :: hs) ++ tail)) w = (Ok (st1, after tail), w') /\
    same_state ds0 st1 /\
    lookup (fs w') fname = Some (Reg (lines_bytes (newline_output o) B) mode) /\
    (forall q, q <> fname -> lookup (fs w') q = lookup (fs w) q) /\
    fault w' = None /\ umask w' = umask w.
Proof.
  intros Fw Lf Hm Hr Hw HS.
  destruct Hp0 as (P1 & P2 & P3 & P4 & P5). destruct Hfname as (F1 & F2).
  assert (Hne : h1 :: hs <> []) by discriminate.
  assert (E1 : process_section o ds0 true p (strm (emit_hunks (h1 :: hs) ++ tail)) w =
               process_section o ds0 false (set_hunks p (h1 :: hs)) (after tail) w).
  { apply process_section_parsed; [exact P4|]. intros q Q1 Q2. apply unified_body_fresh; try assumption. left. rewrite Q1. reflexivity. }
  assert (Dn : fname <> Driver.devnull) by (intros ->; apply F2; left; reflexivity).
  destruct (section_forward_any o (set_hunks p (h1 :: hs)) fname A B ds0 (after tail) w data mode Hplain Hfwd)
    as (st1 & w1 & E2 & L1 & L2 & SS & Fa & Um); try assumption; try reflexivity; try discriminate.
  { exact (decide_oper_cases h1 fname fname). }
  exists st1, w1. rewrite E1. repeat split; try assumption; apply SS.
Qed.

Theorem patch_applies_gen w data mode :
  fault w = None -> lookup (fs w) fname = Some (Reg data mode) -> (mode < 4096)%N -> owner_r mode = true -> owner_w mode = true ->
  split_lines data = A ->
  exists w',
    process_patch o bytes w = (Ok (0, []), w') /\
    lookup (fs w') fname = Some (Reg (lines_bytes (newline_output o) B) mode) /\
    (forall q, q <> fname -> lookup (fs w') q = lookup (fs w) q) /\
    fault w' = None /\ umask w' = umask w.
Proof.
  intros Fw Lf Hm Hr Hw HS.
  destruct (whole_section w data mode Fw Lf Hm Hr Hw HS) as (st1 & w1 & E & SS & L1 & L2 & Fa & Um).
  destruct SS as (S1 & S2 & S3 & S4 & S5).
  exists w1. split; [|repeat split; assumption].
  assert (X : process_patch o bytes w = (Ok (exit_of st1, events st1), w1)).
  { apply (process_patch_single o f0 bytes true p (strm (emit_hunks (h1 :: hs) ++ tail)) true st1 (after tail) w w1 Hfo whole_header).
    - discriminate.
    - unfold p. cbn [set_oper poper]. destruct (decide_oper_cases h1 fname fname) as [E0|[E0|E0]]; rewrite E0; discriminate.
    - exact E.
    - rewrite S3. reflexivity.
    - rewrite S4. reflexivity.
    - exact Hends. }
  rewrite X. unfold exit_of. rewrite S1, S5. reflexivity.
Qed.
End Whole.

Lemma p0_empty f : f = FUnknown \/ f = FUnified ->
  poper (empty_patch f) = OpChange /\ prereq (empty_patch f) = [] /\ new_mode (empty_patch f) = 0%N /\ hunks (empty_patch f) = [] /\
  fmt_unknown_or (empty_patch f) FUnified = true.
Proof. intros H. repeat split; try reflexivity. apply fmt_unknown_or_empty. exact H. Qed.

(* C01 end to end.  The patch: any lines that mean nothing to the header scan (the command line "diff -u a/f b/f", a mail, a
   commit message), "--- old", "+++ new" with or without time stamps, the hunks of a conforming unified diff of A to B as the
   formatter writes them, then nothing or text that holds no further patch.  The options: nothing that redirects, reverses,
   backs up or only pretends; the names, with the components -p removes (or without their directories when there is no -p),
   are a file of the working directory.  The world: that file is a regular file holding A, readable and writable.
   Then the run ends with exit status 0 and no message, the file holds exactly B (terminators as --newline-output asks), with
   its mode, and every other entry is what it was: no reject file, no backup. *)
Theorem patch_applies_end_to_end o f0 fl oldname t1 newname t2 h1 hs tail fname A B w data mode :
  plain_options o -> reverse_patch_opt o = false ->
  format_from_options o = Ok f0 -> f0 = FUnknown \/ f0 = FUnified ->
  Forall (Filler (strip_size o) (empty_patch f0)) fl -> Forall clean fl ->
  plain_name oldname -> plain_name newname -> clean (oldname ++ tab_time t1) -> clean (newname ++ tab_time t2) ->
  stripped oldname (strip_size o) = fname -> stripped newname (strip_size o) = fname ->
  fname <> [] /\ ~ In 47%N fname ->
  Forall wf_hunk (h1 :: hs) -> Conforming A B (h1 :: hs) ->
  remove_empty_files o <> OBYes \/ lines_bytes (newline_output o) B <> [] ->
  (Z.of_nat (length A) < MAXZ)%Z ->
  tail_ok tail -> ends_here o f0 (after tail) = true ->
  fault w = None -> lookup (fs w) fname = Some (Reg data mode) -> (mode < 4096)%N -> owner_r mode = true -> owner_w mode = true ->
  split_lines data = A ->
  exists w',
    process_patch o (join_lines (fl ++ [bs "--- " ++ oldname ++ tab_time t1; bs "+++ " ++ newname ++ tab_time t2]) ++
                     emit_hunks (h1 :: hs) ++ tail) w = (Ok (0, []), w') /\
    lookup (fs w') fname = Some (Reg (lines_bytes (newline_output o) B) mode) /\
    (forall q, q <> fname -> lookup (fs w') q = lookup (fs w) q) /\
    fault w' = None /\ umask w' = umask w.
Proof.
  intros Hplain Hfwd Hfo Hf0 HF HC. intros.
  apply (patch_applies_gen o f0 fl (empty_patch f0) oldname newname t1 t2 h1 hs tail fname A B) with (data := data); try assumption.
  - apply leads_fillers. exact HF.
  - apply p0_empty. exact Hf0.
Qed.
Print Assumptions patch_applies_end_to_end.

(* the same for the patches svn diff and cvs diff write: an "Index: name" line (and the "=====" rule) in front *)
Theorem patch_applies_end_to_end_index o f0 fl ixname ixt fl2 oldname t1 newname t2 h1 hs tail fname A B w data mode :
  plain_options o -> reverse_patch_opt o = false ->
  format_from_options o = Ok f0 -> f0 = FUnknown \/ f0 = FUnified ->
  Forall (Filler (strip_size o) (empty_patch f0)) fl -> Forall clean fl ->
  plain_name ixname -> clean (ixname ++ tab_time ixt) ->
  Forall (Filler (strip_size o) (set_index (empty_patch f0) (stripped ixname (strip_size o)))) fl2 -> Forall clean fl2 ->
  plain_name oldname -> plain_name newname -> clean (oldname ++ tab_time t1) -> clean (newname ++ tab_time t2) ->
  stripped oldname (strip_size o) = fname -> stripped newname (strip_size o) = fname ->
  fname <> [] /\ ~ In 47%N fname ->
  Forall wf_hunk (h1 :: hs) -> Conforming A B (h1 :: hs) ->
  remove_empty_files o <> OBYes \/ lines_bytes (newline_output o) B <> [] ->
  (Z.of_nat (length A) < MAXZ)%Z ->
  tail_ok tail -> ends_here o f0 (after tail) = true ->
  fault w = None -> lookup (fs w) fname = Some (Reg data mode) -> (mode < 4096)%N -> owner_r mode = true -> owner_w mode = true ->
  split_lines data = A ->
  exists w',
    process_patch o (join_lines ((fl ++ [bs "Index: " ++ ixname ++ tab_time ixt] ++ fl2) ++
                                 [bs "--- " ++ oldname ++ tab_time t1; bs "+++ " ++ newname ++ tab_time t2]) ++
                     emit_hunks (h1 :: hs) ++ tail) w = (Ok (0, []), w') /\
    lookup (fs w') fname = Some (Reg (lines_bytes (newline_output o) B) mode) /\
    (forall q, q <> fname -> lookup (fs w') q = lookup (fs w) q) /\
    fault w' = None /\ umask w' = umask w.
Proof.
  intros Hplain Hfwd Hfo Hf0 HF HC Hi Hic HF2 HC2. intros.
  apply (patch_applies_gen o f0 (fl ++ [bs "Index: " ++ ixname ++ tab_time ixt] ++ fl2)
           (set_index (empty_patch f0) (stripped ixname (strip_size o))) oldname newname t1 t2 h1 hs tail fname A B) with (data := data); try assumption.
  - apply (leads_app _ _ _ (empty_patch f0)); [apply leads_fillers; exact HF|].
    apply (leads_app _ _ _ (set_index (empty_patch f0) (stripped ixname (strip_size o)))); [apply leads_index; exact Hi|apply leads_fillers; exact HF2].
  - apply Forall_app. split; [exact HC|]. apply Forall_app. split; [|exact HC2]. constructor; [|constructor].
    destruct Hi as (N1 & _). apply file_line_clean; [vm_compute; intuition discriminate|exact N1|exact Hic].
  - destruct Hf0 as [-> | ->]; repeat split; reflexivity.
Qed.
Print Assumptions patch_applies_end_to_end_index.

(* the usual call: patch -p1 on a diff of a/f against b/f (any two directory names) *)
Corollary patch_p1_applies o f0 fl da db t1 t2 h1 hs tail fname A B w data mode :
  plain_options o -> reverse_patch_opt o = false -> strip_size o = 1%Z ->
  format_from_options o = Ok f0 -> f0 = FUnknown \/ f0 = FUnified ->
  Forall (Filler 1 (empty_patch f0)) fl -> Forall clean fl ->
  plain_name da -> ~ In 47%N da -> ~ In 10%N da -> plain_name db -> ~ In 47%N db -> ~ In 10%N db ->
  plain_name fname -> ~ In 47%N fname ->
  clean (fname ++ tab_time t1) -> clean (fname ++ tab_time t2) ->
  Forall wf_hunk (h1 :: hs) -> Conforming A B (h1 :: hs) ->
  remove_empty_files o <> OBYes \/ lines_bytes (newline_output o) B <> [] ->
  (Z.of_nat (length A) < MAXZ)%Z ->
  tail_ok tail -> ends_here o f0 (after tail) = true ->
  fault w = None -> lookup (fs w) fname = Some (Reg data mode) -> (mode < 4096)%N -> owner_r mode = true -> owner_w mode = true ->
  split_lines data = A ->
  exists w',
    process_patch o (join_lines (fl ++ [bs "--- " ++ (da ++ 47%N :: fname) ++ tab_time t1; bs "+++ " ++ (db ++ 47%N :: fname) ++ tab_time t2]) ++
                     emit_hunks (h1 :: hs) ++ tail) w = (Ok (0, []), w') /\
    lookup (fs w') fname = Some (Reg (lines_bytes (newline_output o) B) mode) /\
    (forall q, q <> fname -> lookup (fs w') q = lookup (fs w) q) /\
    fault w' = None /\ umask w' = umask w.
Proof.
  intros Hplain Hfwd Hs Hfo Hf0 HF HC (A1 & A2 & A3 & A4) A5 A6 (B1 & B2 & B3 & B4) B5 B6 (C1 & C2 & C3 & C4) C5 Hc1 Hc2. intros.
  assert (PN : forall d, d <> [] -> ~ In 9%N d -> ~ In 32%N d -> hd 0%N d <> 34%N -> plain_name (d ++ 47%N :: fname)).
  { intros d D1 D2 D3 D4. repeat split.
    - destruct d; [contradiction|discriminate].
    - intros I. apply in_app_or in I. destruct I as [I|[I|I]]; [tauto|discriminate|tauto].
    - intros I. apply in_app_or in I. destruct I as [I|[I|I]]; [tauto|discriminate|tauto].
    - destruct d; [contradiction|exact D4]. }
  assert (CL : forall d t, ~ In 10%N d -> clean (fname ++ tab_time t) -> clean ((d ++ 47%N :: fname) ++ tab_time t)).
  { intros d t D1 D2. rewrite <- app_assoc. cbn [app]. change (d ++ 47%N :: fname ++ tab_time t) with (d ++ [47%N] ++ fname ++ tab_time t).
    rewrite app_assoc. apply clean_prefixed; [|destruct fname; [contradiction|discriminate]|exact D2].
    intros I. apply in_app_or in I. destruct I as [I|[I|[]]]; [tauto|discriminate]. }
  apply (patch_applies_end_to_end o f0 fl (da ++ 47%N :: fname) t1 (db ++ 47%N :: fname) t2 h1 hs tail fname A B) with (data := data); try assumption;
    try (rewrite Hs); try assumption.
  - apply PN; assumption.
  - apply PN; assumption.
  - apply CL; [exact A6|exact Hc1].
  - apply CL; [exact B6|exact Hc2].
  - apply stripped_p1; assumption.
  - apply stripped_p1; assumption.
  - split; assumption.
Qed.
Print Assumptions patch_p1_applies.

(* ---------- (3) non-vacuity ---------- *)
Local Open Scope string_scope.
Definition tabb : list N := [9%N].
(* the output of "diff -u a/f b/f" for a twelve line file in which line 2 and line 11 change, a line is added and the last
   line loses its newline *)
Definition ex_text : list N :=
  bs "diff -u a/f b/f" ++ nlb ++
  bs "--- a/f" ++ tabb ++ bs "2024-03-01 10:00:00.000000000 +0100" ++ nlb ++
  bs "+++ b/f" ++ tabb ++ bs "2024-03-02 11:30:00.000000000 +0100" ++ nlb ++
  bs "@@ -1,5 +1,5 @@" ++ nlb ++
  bs " a" ++ nlb ++ bs "-b" ++ nlb ++ bs "+B" ++ nlb ++ bs " c" ++ nlb ++ bs " d" ++ nlb ++ bs " e" ++ nlb ++
  bs "@@ -8,5 +8,6 @@" ++ nlb ++
  bs " h" ++ nlb ++ bs " i" ++ nlb ++ bs " j" ++ nlb ++ bs "-k" ++ nlb ++ bs "+K" ++ nlb ++ bs "+k2" ++ nlb ++
  bs "-l" ++ nlb ++ bs "+l" ++ nlb ++ bs "\ No newline at end of file" ++ nlb.

Definition exl (s : String.string) : line := mkLine (bs s) LF.
Definition ex_A : list line := map exl ["a"; "b"; "c"; "d"; "e"; "f"; "g"; "h"; "i"; "j"; "k"; "l"].
Definition ex_B : list line :=
  map exl ["a"; "B"; "c"; "d"; "e"; "f"; "g"; "h"; "i"; "j"; "K"; "k2"] ++ [mkLine (bs "l") NoNL].
Definition ex_hunk1 : hunk :=
  mkHunk (mkRange 1 5) (mkRange 1 5)
         [mkPL Ctx (exl "a"); mkPL Del (exl "b"); mkPL Add (exl "B"); mkPL Ctx (exl "c"); mkPL Ctx (exl "d"); mkPL Ctx (exl "e")].
Definition ex_hunk2 : hunk :=
  mkHunk (mkRange 8 5) (mkRange 8 6)
         [mkPL Ctx (exl "h"); mkPL Ctx (exl "i"); mkPL Ctx (exl "j"); mkPL Del (exl "k"); mkPL Add (exl "K"); mkPL Add (exl "k2");
          mkPL Del (exl "l"); mkPL Add (mkLine (bs "l") NoNL)].
Definition ex_dataA : list N := bs "a" ++ nlb ++ bs "b" ++ nlb ++ bs "c" ++ nlb ++ bs "d" ++ nlb ++ bs "e" ++ nlb ++ bs "f" ++ nlb ++
  bs "g" ++ nlb ++ bs "h" ++ nlb ++ bs "i" ++ nlb ++ bs "j" ++ nlb ++ bs "k" ++ nlb ++ bs "l" ++ nlb.
Definition ex_dataB : list N := bs "a" ++ nlb ++ bs "B" ++ nlb ++ bs "c" ++ nlb ++ bs "d" ++ nlb ++ bs "e" ++ nlb ++ bs "f" ++ nlb ++
  bs "g" ++ nlb ++ bs "h" ++ nlb ++ bs "i" ++ nlb ++ bs "j" ++ nlb ++ bs "K" ++ nlb ++ bs "k2" ++ nlb ++ bs "l".
(* patch -p1 *)
Definition ex_p1 : options := with_strip 1.
Definition ex_world : world :=
  mkWorld [(bs "g", Reg (bs "other" ++ nlb) 384); (bs "f", Reg ex_dataA 420); (bs "sub", Dir 493); (bs "sub/f", Reg ex_dataA 420)] 18 [] None [].

Ltac wf_hunk_tac :=
  unfold wf_hunk, wf_range, wf_body, wf_pline, clean, MAXZ; cbn;
  repeat split; try discriminate; try lia; try tauto; try (intros [E|[]]; discriminate); try (intros H; discriminate H);
  vm_compute; intuition discriminate.

Lemma ex_wf1 : wf_hunk ex_hunk1. Proof. wf_hunk_tac. Qed.
Lemma ex_wf2 : wf_hunk ex_hunk2. Proof. wf_hunk_tac. Qed.

Lemma ex_conf : Conforming ex_A ex_B [ex_hunk1; ex_hunk2].
Proof.
  unfold Conforming.
  apply (Conf_cons 0 0 [] ex_hunk1 [ex_hunk2] (map exl ["f"; "g"; "h"; "i"; "j"; "k"; "l"])
                   (map exl ["f"; "g"; "h"; "i"; "j"; "K"; "k2"] ++ [mkLine (bs "l") NoNL])); try reflexivity; [discriminate|].
  apply (Conf_cons 5 5 (map exl ["f"; "g"]) ex_hunk2 [] [] []); try reflexivity; [discriminate|]. constructor.
Qed.

Example patch_applies_end_to_end_nonvacuous :
  exists w',
    process_patch ex_p1 ex_text ex_world = (Ok (0, []), w') /\
    lookup (fs w') (bs "f") = Some (Reg ex_dataB 420) /\
    (forall q, q <> bs "f" -> lookup (fs w') q = lookup (fs ex_world) q) /\
    fault w' = None /\ umask w' = umask ex_world.
Proof.
  assert (E : ex_text = join_lines ([bs "diff -u a/f b/f"] ++
                                    [bs "--- " ++ bs "a/f" ++ tab_time (Some (bs "2024-03-01 10:00:00.000000000 +0100"));
                                     bs "+++ " ++ bs "b/f" ++ tab_time (Some (bs "2024-03-02 11:30:00.000000000 +0100"))]) ++
                         emit_hunks [ex_hunk1; ex_hunk2] ++ []) by (vm_compute; reflexivity).
  assert (EB : ex_dataB = lines_bytes (newline_output ex_p1) ex_B) by (vm_compute; reflexivity).
  rewrite E, EB.
  apply (patch_applies_end_to_end ex_p1 FUnknown [bs "diff -u a/f b/f"] (bs "a/f") _ (bs "b/f") _ ex_hunk1 [ex_hunk2] [] (bs "f") ex_A ex_B
                                  ex_world ex_dataA 420).
  - repeat split; try reflexivity. vm_compute. discriminate.
  - reflexivity.
  - reflexivity.
  - left. reflexivity.
  - repeat constructor; vm_compute; reflexivity.
  - repeat constructor; vm_compute; intuition discriminate.
  - repeat split; vm_compute; intuition discriminate.
  - repeat split; vm_compute; intuition discriminate.
  - split; vm_compute; intuition discriminate.
  - split; vm_compute; intuition discriminate.
  - vm_compute. reflexivity.
  - vm_compute. reflexivity.
  - split; vm_compute; intuition discriminate.
  - constructor; [exact ex_wf1|constructor; [exact ex_wf2|constructor]].
  - exact ex_conf.
  - left. discriminate.
  - vm_compute. reflexivity.
  - left. reflexivity.
  - reflexivity.
  - reflexivity.
  - reflexivity.
  - reflexivity.
  - reflexivity.
  - reflexivity.
  - vm_compute. reflexivity.
Qed.

(* the whole program on the same data, the patch on standard input: same result, by computation *)
Example run_patch_same :
  let r := run_patch ex_p1 ex_text ex_world in
  rr_exit r = 0 /\ rr_events r = [] /\ rr_world r = snd (process_patch ex_p1 ex_text ex_world) /\
  fs (rr_world r) = [(bs "f", Reg ex_dataB 420); (bs "g", Reg (bs "other" ++ nlb) 384); (bs "sub", Dir 493); (bs "sub/f", Reg ex_dataA 420)] /\
  trace (rr_world r) = [OOpenRead (bs "f"); OWrite (bs "f") ex_dataB; OChmod (bs "f") 420].
Proof. vm_compute. repeat split; reflexivity. Qed.

(* ---------- the whole program: where the patch comes from ---------- *)
(* the patch on standard input (no -i, or -i -) *)
Lemma run_patch_stdin o stdin w c ev w' :
  (patch_file_path o = [] \/ patch_file_path o = bs "-") ->
  process_patch o stdin w = (Ok (c, ev), w') -> run_patch o stdin w = mkRR c ev w'.
Proof.
  intros H E. unfold run_patch, patch_file_bytes.
  assert (X : is_nil (patch_file_path o) || str_eqb (patch_file_path o) (bs "-") = true) by (destruct H as [-> | ->]; reflexivity).
  rewrite X. rewrite mbind_eq. cbn [mret]. rewrite E. reflexivity.
Qed.

(* the patch in a readable file of the working directory named with -i: one more open, then the same run *)
Lemma run_patch_file o stdin w pf bytes pm c ev w' :
  patch_file_path o = pf -> pf <> [] -> pf <> bs "-" -> ~ In 47%N pf ->
  fault w = None -> lookup (fs w) pf = Some (Reg bytes pm) -> owner_r pm = true ->
  process_patch o bytes (mkWorld (fs w) (umask w) (trace w ++ [OOpenRead pf]) None (stdout_data w)) = (Ok (c, ev), w') ->
  run_patch o stdin w = mkRR c ev w'.
Proof.
  intros Hp Hn Hd Hs Fw Lf Hr E. unfold run_patch, patch_file_bytes. rewrite Hp.
  assert (X : is_nil pf || str_eqb pf (bs "-") = false).
  { apply orb_false_iff. split; [destruct pf; [contradiction|reflexivity]|apply str_eqb_neq; exact Hd]. }
  rewrite X. pose proof (stat_reg _ _ _ _ Hs Lf) as St.
  rewrite mbind_eq, mbind_eq.
  rewrite (perform_ok_run (OOpenRead pf) w (fs w) Fw) by (cbn [exec_op]; rewrite St, Hr; reflexivity).
  rewrite mbind_eq. cbn [get_fs fs]. rewrite St. cbn [mret]. rewrite E. reflexivity.
Qed.

(* C01 for the whole program, patch on standard input *)
Theorem run_patch_end_to_end o f0 fl oldname t1 newname t2 h1 hs tail fname A B w data mode :
  (patch_file_path o = [] \/ patch_file_path o = bs "-") ->
  plain_options o -> reverse_patch_opt o = false ->
  format_from_options o = Ok f0 -> f0 = FUnknown \/ f0 = FUnified ->
  Forall (Filler (strip_size o) (empty_patch f0)) fl -> Forall clean fl ->
  plain_name oldname -> plain_name newname -> clean (oldname ++ tab_time t1) -> clean (newname ++ tab_time t2) ->
  stripped oldname (strip_size o) = fname -> stripped newname (strip_size o) = fname ->
  fname <> [] /\ ~ In 47%N fname ->
  Forall wf_hunk (h1 :: hs) -> Conforming A B (h1 :: hs) ->
  remove_empty_files o <> OBYes \/ lines_bytes (newline_output o) B <> [] ->
  (Z.of_nat (length A) < MAXZ)%Z ->
  tail_ok tail -> ends_here o f0 (after tail) = true ->
  fault w = None -> lookup (fs w) fname = Some (Reg data mode) -> (mode < 4096)%N -> owner_r mode = true -> owner_w mode = true ->
  split_lines data = A ->
  exists w',
    run_patch o (join_lines (fl ++ [bs "--- " ++ oldname ++ tab_time t1; bs "+++ " ++ newname ++ tab_time t2]) ++
                 emit_hunks (h1 :: hs) ++ tail) w = mkRR 0 [] w' /\
    lookup (fs w') fname = Some (Reg (lines_bytes (newline_output o) B) mode) /\
    (forall q, q <> fname -> lookup (fs w') q = lookup (fs w) q).
Proof.
  intros Hin. intros.
  destruct (patch_applies_end_to_end o f0 fl oldname t1 newname t2 h1 hs tail fname A B w data mode) as (w' & E & L1 & L2 & _);
    try assumption.
  exists w'. split; [apply run_patch_stdin; assumption|]. split; assumption.
Qed.
Print Assumptions run_patch_end_to_end.

(* ... and patch in a file named with -i (a file of the working directory other than the one patched) *)
Theorem run_patch_file_end_to_end o f0 fl oldname t1 newname t2 h1 hs tail fname A B w data mode pf pm stdin :
  patch_file_path o = pf -> pf <> [] -> pf <> bs "-" -> ~ In 47%N pf -> pf <> fname ->
  lookup (fs w) pf = Some (Reg (join_lines (fl ++ [bs "--- " ++ oldname ++ tab_time t1; bs "+++ " ++ newname ++ tab_time t2]) ++
                                emit_hunks (h1 :: hs) ++ tail) pm) -> owner_r pm = true ->
  plain_options o -> reverse_patch_opt o = false ->
  format_from_options o = Ok f0 -> f0 = FUnknown \/ f0 = FUnified ->
  Forall (Filler (strip_size o) (empty_patch f0)) fl -> Forall clean fl ->
  plain_name oldname -> plain_name newname -> clean (oldname ++ tab_time t1) -> clean (newname ++ tab_time t2) ->
  stripped oldname (strip_size o) = fname -> stripped newname (strip_size o) = fname ->
  fname <> [] /\ ~ In 47%N fname ->
  Forall wf_hunk (h1 :: hs) -> Conforming A B (h1 :: hs) ->
  remove_empty_files o <> OBYes \/ lines_bytes (newline_output o) B <> [] ->
  (Z.of_nat (length A) < MAXZ)%Z ->
  tail_ok tail -> ends_here o f0 (after tail) = true ->
  fault w = None -> lookup (fs w) fname = Some (Reg data mode) -> (mode < 4096)%N -> owner_r mode = true -> owner_w mode = true ->
  split_lines data = A ->
  exists w',
    run_patch o stdin w = mkRR 0 [] w' /\
    lookup (fs w') fname = Some (Reg (lines_bytes (newline_output o) B) mode) /\
    (forall q, q <> fname -> lookup (fs w') q = lookup (fs w) q).
Proof.
  intros Hp Hn Hd Hs Hne Lp Hr. intros.
  set (w0 := mkWorld (fs w) (umask w) (trace w ++ [OOpenRead pf]) None (stdout_data w)).
  destruct (patch_applies_end_to_end o f0 fl oldname t1 newname t2 h1 hs tail fname A B w0 data mode) as (w' & E & L1 & L2 & _);
    try assumption; try reflexivity.
  exists w'. split; [|split; assumption].
  eapply (run_patch_file o stdin w pf); eassumption.
Qed.
Print Assumptions run_patch_file_end_to_end.

(* a second instance: what svn diff writes (an Index line and a rule in front, names without directories, text in place of
   time stamps), sent by mail (text before and after), given with -i to "patch -p0" *)
Definition ex2_front : list (list N) := [bs "From: someone"; bs "Subject: fix"; []].
Definition ex2_rule : list N := bs "===================================================================".
Definition ex2_sig : list N := bs "-- " ++ nlb ++ bs "someone" ++ nlb.
Definition ex2_text : list N :=
  join_lines ((ex2_front ++ [bs "Index: " ++ bs "f" ++ tab_time None] ++ [ex2_rule]) ++
              [bs "--- " ++ bs "f" ++ tab_time (Some (bs "(revision 41)")); bs "+++ " ++ bs "f" ++ tab_time (Some (bs "(working copy)"))]) ++
  emit_hunks [ex_hunk1; ex_hunk2] ++ ex2_sig.
Definition ex2_o : options :=
  mkOptions false false [] [] false (bs "fix.diff") false false false [] 0%Z 2%Z false [] []
            false false false false false false false false OBUnset OBUnset MNative RFDefault ROWarn QSUnset [] [].
Definition ex2_world : world :=
  mkWorld [(bs "fix.diff", Reg ex2_text 420); (bs "f", Reg ex_dataA 384)] 18 [] None [].

Example ex2_text_shown :
  ex2_text =
  bs "From: someone" ++ nlb ++ bs "Subject: fix" ++ nlb ++ nlb ++
  bs "Index: f" ++ nlb ++ ex2_rule ++ nlb ++
  bs "--- f" ++ tabb ++ bs "(revision 41)" ++ nlb ++ bs "+++ f" ++ tabb ++ bs "(working copy)" ++ nlb ++
  bs "@@ -1,5 +1,5 @@" ++ nlb ++
  bs " a" ++ nlb ++ bs "-b" ++ nlb ++ bs "+B" ++ nlb ++ bs " c" ++ nlb ++ bs " d" ++ nlb ++ bs " e" ++ nlb ++
  bs "@@ -8,5 +8,6 @@" ++ nlb ++
  bs " h" ++ nlb ++ bs " i" ++ nlb ++ bs " j" ++ nlb ++ bs "-k" ++ nlb ++ bs "+K" ++ nlb ++ bs "+k2" ++ nlb ++
  bs "-l" ++ nlb ++ bs "+l" ++ nlb ++ bs "\ No newline at end of file" ++ nlb ++
  bs "-- " ++ nlb ++ bs "someone" ++ nlb.
Proof. vm_compute. reflexivity. Qed.

Example patch_applies_index_nonvacuous :
  exists w',
    process_patch ex2_o ex2_text ex2_world = (Ok (0, []), w') /\
    lookup (fs w') (bs "f") = Some (Reg ex_dataB 384) /\
    (forall q, q <> bs "f" -> lookup (fs w') q = lookup (fs ex2_world) q) /\
    fault w' = None /\ umask w' = umask ex2_world.
Proof.
  assert (EB : ex_dataB = lines_bytes (newline_output ex2_o) ex_B) by (vm_compute; reflexivity).
  rewrite EB. unfold ex2_text.
  apply (patch_applies_end_to_end_index ex2_o FUnknown ex2_front (bs "f") None [ex2_rule] (bs "f") _ (bs "f") _ ex_hunk1 [ex_hunk2] ex2_sig
                                        (bs "f") ex_A ex_B ex2_world ex_dataA 384).
  - repeat split; try reflexivity. vm_compute. discriminate.
  - reflexivity.
  - reflexivity.
  - left. reflexivity.
  - repeat constructor; vm_compute; reflexivity.
  - repeat constructor; vm_compute; intuition discriminate.
  - repeat split; vm_compute; intuition discriminate.
  - split; vm_compute; intuition discriminate.
  - repeat constructor; vm_compute; reflexivity.
  - repeat constructor; vm_compute; intuition discriminate.
  - repeat split; vm_compute; intuition discriminate.
  - repeat split; vm_compute; intuition discriminate.
  - split; vm_compute; intuition discriminate.
  - split; vm_compute; intuition discriminate.
  - vm_compute. reflexivity.
  - vm_compute. reflexivity.
  - split; vm_compute; intuition discriminate.
  - constructor; [exact ex_wf1|constructor; [exact ex_wf2|constructor]].
  - exact ex_conf.
  - left. discriminate.
  - vm_compute. reflexivity.
  - right. exists (bs "-- "), (bs "someone" ++ nlb). split; [reflexivity|].
    split; [split; [vm_compute; intuition discriminate|vm_compute; discriminate]|]. split; [reflexivity|]. intros h0. reflexivity.
  - vm_compute. reflexivity.
  - reflexivity.
  - reflexivity.
  - reflexivity.
  - reflexivity.
  - reflexivity.
  - vm_compute. reflexivity.
Qed.

(* the whole program reading that file *)
Example run_patch_file_same :
  let r := run_patch ex2_o [] ex2_world in
  rr_exit r = 0 /\ rr_events r = [] /\
  fs (rr_world r) = [(bs "f", Reg ex_dataB 384); (bs "fix.diff", Reg ex2_text 420)] /\
  trace (rr_world r) = [OOpenRead (bs "fix.diff"); OOpenRead (bs "f"); OWrite (bs "f") ex_dataB; OChmod (bs "f") 384].
Proof. vm_compute. repeat split; reflexivity. Qed.

(* when the first hunk has a line on each side (any context line will do), neither of its ranges starts at 0 *)
Lemma conforming_starts A B h1 hs :
  Conforming A B (h1 :: hs) -> rcount (oldr h1) <> 0%Z -> rcount (newr h1) <> 0%Z ->
  rstart (oldr h1) <> 0%Z /\ rstart (newr h1) <> 0%Z.
Proof.
  intros H Ho Hn. unfold Conforming in H. inversion H as [|a b gap h hs' A' B' _ _ _ E1 E2 _]; subst.
  apply Z.eqb_neq in Ho, Hn. rewrite Ho in E1. rewrite Hn in E2. lia.
Qed.

(* a third instance, for the ranges that start at 0: what "diff -U0" writes for a line put in front of the first line and
   for the removal of the first line.  The header scan takes the first for the creation of the file and the second for its
   deletion (decide_oper); the file is there and something is left to write, so the result is still exactly the new version. *)
Definition ex3_ins : hunk := mkHunk (mkRange 0 0) (mkRange 1 1) [mkPL Add (exl "n")].
Definition ex3_del : hunk := mkHunk (mkRange 1 1) (mkRange 0 0) [mkPL Del (exl "x")].
Definition ex3_world : world := mkWorld [(bs "f", Reg (bs "x" ++ nlb ++ bs "y" ++ nlb) 420)] 18 [] None [].
Lemma ex3_wf_ins : wf_hunk ex3_ins. Proof. wf_hunk_tac. Qed.
Lemma ex3_wf_del : wf_hunk ex3_del. Proof. wf_hunk_tac. Qed.

Example top_insertion_end_to_end :
  exists w',
    process_patch ex_p1 (bs "--- a/f" ++ nlb ++ bs "+++ b/f" ++ nlb ++ bs "@@ -0,0 +1 @@" ++ nlb ++ bs "+n" ++ nlb) ex3_world = (Ok (0, []), w') /\
    lookup (fs w') (bs "f") = Some (Reg (bs "n" ++ nlb ++ bs "x" ++ nlb ++ bs "y" ++ nlb) 420).
Proof.
  destruct (patch_applies_end_to_end ex_p1 FUnknown [] (bs "a/f") None (bs "b/f") None ex3_ins [] [] (bs "f") [exl "x"; exl "y"]
              [exl "n"; exl "x"; exl "y"] ex3_world (bs "x" ++ nlb ++ bs "y" ++ nlb) 420) as (w' & E & L & _).
  - repeat split; try reflexivity. vm_compute. discriminate.
  - reflexivity.
  - reflexivity.
  - left. reflexivity.
  - constructor.
  - constructor.
  - repeat split; vm_compute; intuition discriminate.
  - repeat split; vm_compute; intuition discriminate.
  - split; vm_compute; intuition discriminate.
  - split; vm_compute; intuition discriminate.
  - vm_compute. reflexivity.
  - vm_compute. reflexivity.
  - split; vm_compute; intuition discriminate.
  - constructor; [exact ex3_wf_ins|constructor].
  - apply (Conf_cons 0 0 [] ex3_ins [] [exl "x"; exl "y"] [exl "x"; exl "y"]); try reflexivity; [discriminate|constructor].
  - left. discriminate.
  - vm_compute. reflexivity.
  - left. reflexivity.
  - reflexivity.
  - reflexivity.
  - reflexivity.
  - reflexivity.
  - reflexivity.
  - reflexivity.
  - reflexivity.
  - exists w'. split; [exact E|exact L].
Qed.

Example first_line_removal_end_to_end :
  exists w',
    process_patch ex_p1 (bs "--- a/f" ++ nlb ++ bs "+++ b/f" ++ nlb ++ bs "@@ -1 +0,0 @@" ++ nlb ++ bs "-x" ++ nlb) ex3_world = (Ok (0, []), w') /\
    lookup (fs w') (bs "f") = Some (Reg (bs "y" ++ nlb) 420).
Proof.
  destruct (patch_applies_end_to_end ex_p1 FUnknown [] (bs "a/f") None (bs "b/f") None ex3_del [] [] (bs "f") [exl "x"; exl "y"]
              [exl "y"] ex3_world (bs "x" ++ nlb ++ bs "y" ++ nlb) 420) as (w' & E & L & _).
  - repeat split; try reflexivity. vm_compute. discriminate.
  - reflexivity.
  - reflexivity.
  - left. reflexivity.
  - constructor.
  - constructor.
  - repeat split; vm_compute; intuition discriminate.
  - repeat split; vm_compute; intuition discriminate.
  - split; vm_compute; intuition discriminate.
  - split; vm_compute; intuition discriminate.
  - vm_compute. reflexivity.
  - vm_compute. reflexivity.
  - split; vm_compute; intuition discriminate.
  - constructor; [exact ex3_wf_del|constructor].
  - apply (Conf_cons 0 0 [] ex3_del [] [exl "y"] [exl "y"]); try reflexivity; [discriminate|constructor].
  - left. discriminate.
  - vm_compute. reflexivity.
  - left. reflexivity.
  - reflexivity.
  - reflexivity.
  - reflexivity.
  - reflexivity.
  - reflexivity.
  - reflexivity.
  - reflexivity.
  - exists w'. split; [exact E|exact L].
Qed.

(* the operation the scan infers is Change unless a range of the first hunk starts at 0 or a name is /dev/null *)
Lemma decide_oper_change h1 a b :
  rstart (oldr h1) <> 0%Z -> rstart (newr h1) <> 0%Z -> a <> devnull_path -> b <> devnull_path -> decide_oper h1 a b = OpChange.
Proof.
  intros H1 H2 H3 H4. unfold decide_oper. apply Z.eqb_neq in H1, H2. apply str_eqb_neq in H3, H4. rewrite H1, H2, H3, H4. reflexivity.
Qed.

(* the names are those of Spec_Names.strip_spec *)
Lemma stripped_spec name k : name <> devnull_path -> (0 <= k)%Z -> stripped name k = strip_spec name (Z.to_nat k).
Proof. intros H Hk. unfold stripped. apply str_eqb_neq in H. rewrite H. apply strip_path_spec. exact Hk. Qed.

(* ---------- an empty line for an empty line of context (diff -u --suppress-blank-empty) ---------- *)
(* the step on an EMPTY line right after the range line, when both file names are known: it counts as the first line of the
   hunk (an empty context line that has lost its leading space), and the scan stops there *)
Lemma step_first_blank strip p k hk first :
  fmt_unknown_or p FUnified = true -> old_path p <> [] -> new_path p <> [] ->
  header_step strip (mkHS p LKUnified k false true hk first) [] =
  Ok (inr (mkHS (set_fmt (set_paths p (new_path p) (old_path p) (new_time p) (old_time p)) FUnified) LKUnknown (S k) false true hk first)).
Proof.
  intros Hf Ho Hn. unfold header_step. cbn [h_looks h_patch h_lines h_git h_body h_hunk h_first looks_eqb andb negb].
  rewrite Hf. cbn [starts_with orb andb consume_str consume_char bs rbind fst snd is_nil]. rewrite Hf.
  destruct (old_path p); [contradiction|]. destruct (new_path p); [contradiction|]. reflexivity.
Qed.

(* the header scan finds a section whose first hunk begins with such an empty line: the same record as unified_header_scan,
   the stream back on the range line.  (Only the scan: the body-level round trip, Proofs_Unified.unified_roundtrip, is
   about hunks as the formatter writes them, and it never drops the leading space.) *)
Theorem unified_header_scan_blank strip f fl oldname t1 newname t2 o nr more :
  f = FUnknown \/ f = FUnified ->
  Forall (Filler strip (empty_patch f)) fl -> Forall clean fl ->
  plain_name oldname -> plain_name newname -> clean (oldname ++ tab_time t1) -> clean (newname ++ tab_time t2) ->
  stripped oldname strip <> [] -> stripped newname strip <> [] ->
  wf_range o -> wf_range nr ->
  parse_patch_header_full (empty_patch f) strip
    (strm (join_lines (fl ++ [bs "--- " ++ oldname ++ tab_time t1; bs "+++ " ++ newname ++ tab_time t2]) ++
           unified_header o nr ++ 10%N :: 10%N :: more)) =
  Ok (true,
      mkPatch FUnified (decide_oper (mkHunk o nr []) (stripped oldname strip) (stripped newname strip)) [] []
              (stripped oldname strip) (stripped newname strip) (opt_or (time_read t1) []) (opt_or (time_read t2) []) 0 0 [],
      strm (unified_header o nr ++ 10%N :: 10%N :: more), true).
Proof.
  intros Hf HF HC Ho Hn Hoc Hnc So Sn Wo Wn.
  set (minus := bs "--- " ++ oldname ++ tab_time t1). set (plus := bs "+++ " ++ newname ++ tab_time t2).
  set (ls := fl ++ [minus; plus; unified_header o nr; []]).
  set (p2 := named (empty_patch f) (stripped oldname strip) (stripped newname strip) t1 t2).
  set (st' := mkHS p2 LKUnknown (S (S (S (S (length fl + 0))))) false true (mkHunk o nr []) (S (S (S (length fl + 0))))).
  assert (T : join_lines (fl ++ [minus; plus]) ++ unified_header o nr ++ 10%N :: 10%N :: more = join_lines ls ++ more).
  { unfold ls. rewrite !join_lines_app. cbn [join_lines flat_map app]. rewrite app_nil_r. repeat (rewrite <- ?app_assoc; cbn [app]). reflexivity. }
  assert (Sc : scan strip (st0 (empty_patch f)) ls = Some st').
  { unfold ls. change (st0 (empty_patch f)) with (hs_at (empty_patch f) 0). rewrite (scan_fillers _ _ fl 0 _ HF).
    set (n := length fl + 0).
    unfold minus, plus.
    rewrite (scan_inl _ _ _ _ _ (step_minus strip _ n _ _ (file_line_name oldname t1 strip Ho))). cbn [fst snd].
    rewrite (scan_inl _ _ _ _ _ (step_plus strip _ (S n) _ _ (file_line_name newname t2 strip Hn))). cbn [fst snd].
    match goal with |- scan _ (hs_at ?q _) _ = _ => set (q2 := q) end.
    assert (Hf2 : fmt_unknown_or q2 FUnified = true) by (destruct Hf as [-> | ->]; reflexivity).
    rewrite (scan_inl _ _ _ _ _ (step_range strip q2 (S (S n)) o nr Hf2 Wo Wn)).
    cbn [scan]. rewrite (step_first_blank strip q2 _ _ _ Hf2); [|exact Sn|exact So]. reflexivity. }
  assert (Cl : Forall clean ls).
  { unfold ls. apply Forall_app. split; [exact HC|]. destruct Ho as (N1 & _). destruct Hn as (N2 & _).
    constructor; [apply file_line_clean; try assumption; vm_compute; intuition discriminate|].
    constructor; [apply file_line_clean; try assumption; vm_compute; intuition discriminate|].
    constructor; [apply header_clean; assumption|]. constructor; [|constructor]. split; [intros []|discriminate]. }
  rewrite T. rewrite (header_suffix strip (empty_patch f) ls more st' Cl Sc).
  2:{ unfold st', ls. cbn [h_first]. rewrite app_length. cbn [length]. lia. }
  unfold st' at 1 2 3 4. cbn [h_body h_first Nat.sub Nat.eqb negb].
  assert (Sk : skipn (S (S (length fl + 0))) ls = [unified_header o nr; []]).
  { unfold ls. replace (S (S (length fl + 0))) with (length (fl ++ [minus; plus])) by (rewrite app_length; cbn [length]; lia).
    change (fl ++ [minus; plus; unified_header o nr; []]) with (fl ++ [minus; plus] ++ [unified_header o nr; []]).
    rewrite app_assoc, skipn_app, skipn_all, Nat.sub_diag. reflexivity. }
  rewrite Sk. cbn [join_lines flat_map app]. rewrite ?app_nil_r. repeat (rewrite <- ?app_assoc; cbn [app]).
  unfold p2. rewrite (header_patch_named (empty_patch f) _ _ t1 t2 _ _ _ _ (mkHunk o nr []) eq_refl eq_refl eq_refl).
  reflexivity.
Qed.
Print Assumptions unified_header_scan_blank.

Example unified_header_scan_blank_nonvacuous :
  match parse_patch_header_full (empty_patch FUnknown) 1
          (strm (bs "--- a/f" ++ nlb ++ bs "+++ b/f" ++ nlb ++ bs "@@ -1,2 +1,3 @@" ++ nlb ++ nlb ++ bs " x" ++ nlb ++ bs "+y" ++ nlb)) with
  | Ok (should, p, s, found) =>
      should = true /\ found = true /\ pfmt p = FUnified /\ poper p = OpChange /\ old_path p = bs "f" /\ new_path p = bs "f" /\
      rest s = bs "@@ -1,2 +1,3 @@" ++ nlb ++ nlb ++ bs " x" ++ nlb ++ bs "+y" ++ nlb
  | Throw _ => False
  end.
Proof.
  pose proof (unified_header_scan_blank 1 FUnknown [] (bs "a/f") None (bs "b/f") None (mkRange 1 2) (mkRange 1 3)
                (bs " x" ++ nlb ++ bs "+y" ++ nlb)) as X.
  assert (E : bs "--- a/f" ++ nlb ++ bs "+++ b/f" ++ nlb ++ bs "@@ -1,2 +1,3 @@" ++ nlb ++ nlb ++ bs " x" ++ nlb ++ bs "+y" ++ nlb =
              join_lines ([] ++ [bs "--- " ++ bs "a/f" ++ tab_time None; bs "+++ " ++ bs "b/f" ++ tab_time None]) ++
              unified_header (mkRange 1 2) (mkRange 1 3) ++ 10%N :: 10%N :: (bs " x" ++ nlb ++ bs "+y" ++ nlb)) by (vm_compute; reflexivity).
  rewrite E, X.
  - vm_compute. repeat split; reflexivity.
  - left. reflexivity.
  - constructor.
  - constructor.
  - repeat split; vm_compute; intuition discriminate.
  - repeat split; vm_compute; intuition discriminate.
  - split; vm_compute; intuition discriminate.
  - split; vm_compute; intuition discriminate.
  - vm_compute. discriminate.
  - vm_compute. discriminate.
  - unfold wf_range, MAXZ. cbn. lia.
  - unfold wf_range, MAXZ. cbn. lia.
Qed.
