(* Proofs_RejectFile.v — C13 end to end: the reject file that apply_patch writes (formatter.cpp) is read back by this tool's
   own parse_patch (parser.cpp: header scan + body parser) as a patch whose hunks are exactly the rejected hunks (unified
   form) or their normalised forms (context form), under the names of the patch record. *)
From PatchV Require Import Base Lines Hunk Locator Formatter Options Applier LineParser Parser World Driver
     Spec_Locate Spec_Apply Spec_Names Proofs_Base Proofs_Apply Proofs_Lines Proofs_Decimal Proofs_Fuel Proofs_Unified
     Proofs_Filler Proofs_Names Proofs_Rejects Proofs_CtxLines Proofs_CtxMerge Proofs_Context
     Proofs_Sections_Unified Proofs_Whole.

(* ---------- the header lines of a reject file ---------- *)
(* the time stamp that fmt_header_line prints after the name: none when the record has none, none after /dev/null *)
Definition hdr_time (path time : list N) : option (list N) :=
  if negb (is_nil time) && negb (str_eqb path Formatter.devnull) then Some time else None.

(* the time stamp the reader ends up with *)
Definition time_kept (path time : list N) : list N :=
  if str_eqb path Formatter.devnull then [] else time.

Lemma fmt_header_line_eq prefix path time :
  fmt_header_line prefix path time = (prefix ++ path ++ tab_time (hdr_time path time)) ++ [10%N].
Proof.
  unfold fmt_header_line, hdr_time. destruct (negb (is_nil time) && negb (str_eqb path Formatter.devnull));
    cbn [tab_time]; rewrite <- !app_assoc; reflexivity.
Qed.

Lemma time_read_hdr path time : opt_or (time_read (hdr_time path time)) [] = time_kept path time.
Proof.
  unfold hdr_time, time_kept. destruct time as [|c t]; cbn [is_nil negb andb time_read opt_or].
  - destruct (str_eqb path Formatter.devnull); reflexivity.
  - destruct (str_eqb path Formatter.devnull); reflexivity.
Qed.

(* A name that the writer puts on a header line as it is (formatter.cpp never quotes) and that parse_file_line gives back:
   not empty, no tab inside, not starting with a double quote, and — when no "<TAB>time" follows — no blank inside (without
   a tab on the line the reader ends the name at the first blank). *)
Definition name_reads (name : list N) (t : option (list N)) : Prop :=
  name <> [] /\ ~ In 9%N name /\ hd 0%N name <> 34%N /\ (t = None -> ~ In 32%N name).

Lemma plain_name_reads name t : plain_name name -> name_reads name t.
Proof. intros (A & B & C & D). repeat split; auto. Qed.

Lemma file_line_name' name ts strip :
  name_reads name ts ->
  parse_file_line strip (name ++ tab_time ts) = Ok (stripped name strip, time_read ts).
Proof.
  intros (Hne & H9 & Hq & H32). destruct ts as [t|]; cbn [tab_time time_read].
  - rewrite (file_line_plain name t strip Hne H9 Hq). destruct t; reflexivity.
  - specialize (H32 eq_refl). rewrite app_nil_r. unfold parse_file_line. destruct name as [|c name]; [contradiction|]. cbn [hd] in Hq.
    destruct (N.eqb_spec c 34); [contradiction|]. cbn [rbind]. rewrite (pfl_scan_plain (c :: name) [] H9 H32). cbn [rev app].
    reflexivity.
Qed.

(* a header line can be written and read back: the name is read as itself and the line "name<TAB>time" has no line feed
   inside and no carriage return at its end *)
Definition hdr_ok (path time : list N) : Prop :=
  name_reads path (hdr_time path time) /\ clean (path ++ tab_time (hdr_time path time)).

(* the simple sufficient condition *)
Lemma hdr_ok_simple path time : plain_name path -> clean path -> clean time -> hdr_ok path time.
Proof.
  intros Hp [P1 P2] [T1 T2]. split; [apply plain_name_reads; exact Hp|]. unfold hdr_time.
  destruct time as [|c t]; cbn [is_nil negb andb tab_time].
  - rewrite app_nil_r. split; assumption.
  - destruct (str_eqb path Formatter.devnull); cbn [negb tab_time].
    + rewrite app_nil_r. split; assumption.
    + split.
      * intros I. apply in_app_or in I. destruct I as [I|[E|I]]; [exact (P1 I)|discriminate|exact (T1 I)].
      * change (path ++ 9%N :: c :: t) with (path ++ [9%N] ++ c :: t). rewrite app_assoc.
        rewrite last_opt_app_ne by discriminate. exact T2.
Qed.

Lemma unified_header_lines p :
  write_patch_header_as_unified p =
  join_lines ([] ++ [bs "--- " ++ old_path p ++ tab_time (hdr_time (old_path p) (old_time p));
                     bs "+++ " ++ new_path p ++ tab_time (hdr_time (new_path p) (new_time p))]).
Proof.
  unfold write_patch_header_as_unified. rewrite !fmt_header_line_eq. cbn [app join_lines flat_map].
  rewrite app_nil_r. reflexivity.
Qed.

(* ---------- what write_reject produces, hunk after hunk, in unified form ---------- *)
Lemma reject_stream_later_u o p : should_write_as_unified o p = true ->
  forall hs k, reject_stream o p (S k) hs = Ok (emit_hunks hs).
Proof.
  intros Hu. induction hs as [|h hs IH]; intros k; [reflexivity|].
  cbn [reject_stream]. unfold write_reject. rewrite Hu. cbn [rbind Nat.eqb app]. rewrite (IH (S k)). reflexivity.
Qed.

(* a unified reject file is its two header lines followed by the hunks *)
Theorem reject_unified_file o p h hs :
  should_write_as_unified o p = true ->
  reject_stream o p 0 (h :: hs) = Ok (write_patch_header_as_unified p ++ emit_hunks (h :: hs)).
Proof.
  intros Hu. cbn [reject_stream]. unfold write_reject. rewrite Hu. cbn [rbind Nat.eqb].
  rewrite (reject_stream_later_u o p Hu hs 0). cbn [rbind emit_hunks flat_map]. rewrite <- app_assoc. reflexivity.
Qed.

(* ---------- the header scan on "--- name" / "+++ name" with names that may hold blanks ---------- *)
Lemma scan_core_u strip p0 n oldname t1 newname t2 o nr opc t :
  name_reads oldname t1 -> name_reads newname t2 -> fmt_unknown_or p0 FUnified = true -> wf_range o -> wf_range nr ->
  scan strip (hs_at p0 n)
       [bs "--- " ++ oldname ++ tab_time t1; bs "+++ " ++ newname ++ tab_time t2; unified_header o nr; op_char opc :: t] =
  Some (mkHS (named p0 (stripped oldname strip) (stripped newname strip) t1 t2) LKUnknown (S (S (S (S n)))) false true
             (mkHunk o nr []) (S (S (S n)))).
Proof.
  intros Ho Hn Hf Wo Wn.
  rewrite (scan_inl _ _ _ _ _ (step_minus strip p0 n _ _ (file_line_name' oldname t1 strip Ho))). cbn [fst snd].
  rewrite (scan_inl _ _ _ _ _ (step_plus strip _ (S n) _ _ (file_line_name' newname t2 strip Hn))). cbn [fst snd].
  match goal with |- scan _ (hs_at ?q _) _ = _ => set (p2 := q) end.
  assert (Hf2 : fmt_unknown_or p2 FUnified = true) by (destruct p0; exact Hf).
  rewrite (scan_inl _ _ _ _ _ (step_range strip p2 (S (S n)) o nr Hf2 Wo Wn)).
  cbn [scan]. rewrite (step_first strip p2 _ _ _ opc t Hf2). cbn [is_nil].
  destruct p0; reflexivity.
Qed.

(* unified_header_scan of Proofs_Whole.v with the weaker condition on the names *)
Theorem unified_header_scan_names strip f fl oldname t1 newname t2 h1 hs tail :
  f = FUnknown \/ f = FUnified ->
  Forall (Filler strip (empty_patch f)) fl -> Forall clean fl ->
  name_reads oldname t1 -> name_reads newname t2 -> clean (oldname ++ tab_time t1) -> clean (newname ++ tab_time t2) ->
  Forall wf_hunk (h1 :: hs) ->
  parse_patch_header_full (empty_patch f) strip
    (strm (join_lines (fl ++ [bs "--- " ++ oldname ++ tab_time t1; bs "+++ " ++ newname ++ tab_time t2]) ++ emit_hunks (h1 :: hs) ++ tail)) =
  Ok (true,
      mkPatch FUnified (decide_oper h1 (stripped oldname strip) (stripped newname strip)) [] []
              (stripped oldname strip) (stripped newname strip) (opt_or (time_read t1) []) (opt_or (time_read t2) []) 0 0 [],
      strm (emit_hunks (h1 :: hs) ++ tail), true).
Proof.
  intros Hf HF HC Ho Hn Hoc Hnc Hwf.
  set (minus := bs "--- " ++ oldname ++ tab_time t1). set (plus := bs "+++ " ++ newname ++ tab_time t2).
  set (pre := fl ++ [minus; plus]).
  set (st' := mkHS (named (empty_patch f) (stripped oldname strip) (stripped newname strip) t1 t2) LKUnknown
                   (S (S (S (S (length fl))))) false true (mkHunk (oldr h1) (newr h1) []) (S (S (S (length fl))))).
  assert (PC : Forall clean pre).
  { unfold pre. apply Forall_app. split; [exact HC|]. destruct Ho as (N1 & _). destruct Hn as (N2 & _).
    constructor; [|constructor; [|constructor]]; apply file_line_clean; try assumption; vm_compute; intuition discriminate. }
  assert (SC : scan strip (st0 (empty_patch f)) (pre ++ [unified_header (oldr h1) (newr h1); first_line h1]) = Some st').
  { inversion Hwf as [|? ? Hw1 _]; subst. destruct Hw1 as (Hne & _ & Wo & Wn & _).
    destruct (first_line_op h1 Hne) as (opc & t & ->).
    unfold pre. rewrite <- app_assoc. change (st0 (empty_patch f)) with (hs_at (empty_patch f) 0).
    rewrite (leads_fillers strip (empty_patch f) fl HF 0). rewrite Nat.add_0_r.
    cbn [app]. apply scan_core_u; try assumption. destruct Hf as [-> | ->]; reflexivity. }
  pose proof (header_of_section (with_strip strip) f pre h1 hs st' PC Hwf SC) as X.
  cbn [strip_size with_strip] in X. rewrite app_assoc.
  rewrite X; [|unfold st', pre; cbn [h_first]; rewrite app_length; cbn [length]; f_equal; lia|reflexivity].
  unfold st'. rewrite (header_patch_named (empty_patch f) _ _ t1 t2 _ _ _ _ h1 eq_refl eq_refl eq_refl). reflexivity.
Qed.

(* ---------- (1) the unified reject file is read back ---------- *)
Definition reparsed (f : format) (h1 : hunk) (p : patch) (strip : Z) (hs : list hunk) : patch :=
  mkPatch f (decide_oper h1 (stripped (old_path p) strip) (stripped (new_path p) strip)) [] []
          (stripped (old_path p) strip) (stripped (new_path p) strip)
          (time_kept (old_path p) (old_time p)) (time_kept (new_path p) (new_time p)) 0 0 hs.

Lemma parse_patch_unfold b f strip should p s :
  parse_patch_header_full (empty_patch f) strip (strm b) = Ok (should, p, s, true) ->
  parse_patch b f strip = if should then do y <- parse_patch_body p s; Ok (fst y) else Ok p.
Proof.
  intros H. unfold parse_patch, parse_patch_header. change (stream_of b) with (strm b). rewrite H. reflexivity.
Qed.

Theorem unified_reject_file_reparses p h hs strip :
  hdr_ok (old_path p) (old_time p) -> hdr_ok (new_path p) (new_time p) -> Forall wf_hunk (h :: hs) ->
  parse_patch (write_patch_header_as_unified p ++ emit_hunks (h :: hs)) FUnknown strip =
  Ok (reparsed FUnified h p strip (h :: hs)).
Proof.
  intros [Ho Hoc] [Hn Hnc] Hwf.
  pose proof (unified_header_scan_names strip FUnknown [] (old_path p) (hdr_time (old_path p) (old_time p))
                (new_path p) (hdr_time (new_path p) (new_time p)) h hs []
                (or_introl eq_refl) (Forall_nil _) (Forall_nil _) Ho Hn Hoc Hnc Hwf) as X.
  rewrite <- unified_header_lines in X. rewrite !time_read_hdr in X.
  rewrite <- (app_nil_r (emit_hunks (h :: hs))) at 1.
  rewrite (parse_patch_unfold _ _ _ _ _ _ X).
  rewrite unified_body_fresh; [reflexivity|left; reflexivity|reflexivity|discriminate|exact Hwf|left; reflexivity].
Qed.

(* ---------- (2) the header scan on a context header ---------- *)
Lemma step_star strip p n r x :
  parse_file_line strip r = Ok x ->
  header_step strip (hs_at p n) (bs "*** " ++ r) =
  Ok (inl (hs_at (set_paths p (fst x) (new_path p) (opt_or (snd x) (old_time p)) (new_time p)) (S n))).
Proof.
  intros H. unfold header_step, hs_at. cbn [h_looks h_patch h_lines h_git h_body h_hunk h_first looks_eqb andb negb].
  rewrite consume_str_app. rewrite H. reflexivity.
Qed.

(* the row of stars: nothing is known yet, the next line is looked at as the old range of a context hunk *)
Lemma step_stars strip p n :
  fmt_unknown_or p FContext = true ->
  header_step strip (hs_at p n) stars = Ok (inl (mkHS p LKContext (S n) false true empty_hunk (S n))).
Proof.
  intros Hf. unfold header_step, hs_at. cbn [h_looks h_patch h_lines h_git h_body h_hunk h_first looks_eqb andb negb].
  change (consume_str (bs "*** ") stars) with (@None (list N)).
  change (consume_str (bs "+++ ") stars) with (@None (list N)).
  change (consume_str (bs "--- ") stars) with (@None (list N)).
  change (consume_str (bs "Index: ") stars) with (@None (list N)).
  change (consume_str (bs "Prereq: ") stars) with (@None (list N)).
  change (consume_str (bs "diff --git ") stars) with (@None (list N)).
  cbn [rbind fst snd].
  change (parse_unified_range empty_hunk stars) with (false, empty_hunk).
  change (parse_normal_range empty_hunk stars) with (false, empty_hunk).
  change (starts_with stars (bs "***************")) with true.
  destruct (fmt_unknown_or p FUnified); destruct (fmt_unknown_or p FNormal); rewrite Hf; reflexivity.
Qed.

(* the old range line of the first hunk after the row of stars: the scan ends, the format is context *)
Definition first_old (r : range) : hunk := mkHunk (mkRange (rstart r) (-1)) empty_range [].

Lemma step_orange strip p k first r :
  fmt_unknown_or p FContext = true -> wf_crange0 r ->
  header_step strip (mkHS p LKContext k false true empty_hunk first) (orange_line r) =
  Ok (inr (mkHS (set_fmt p FContext) LKUnknown (S k) false true (first_old r) first)).
Proof.
  intros Hf W.
  assert (C1 : consume_str (bs "+++ ") (orange_line r) = None) by reflexivity.
  assert (C2 : consume_str (bs "--- ") (orange_line r) = None) by reflexivity.
  assert (C3 : consume_str (bs "Index: ") (orange_line r) = None) by reflexivity.
  assert (C4 : consume_str (bs "Prereq: ") (orange_line r) = None) by reflexivity.
  assert (C5 : consume_str (bs "diff --git ") (orange_line r) = None) by reflexivity.
  assert (U : parse_unified_range empty_hunk (orange_line r) = (false, empty_hunk)) by reflexivity.
  assert (Nm : parse_normal_range empty_hunk (orange_line r) = (false, empty_hunk)) by reflexivity.
  assert (S1 : starts_with (orange_line r) (bs "*** ") = true) by (unfold orange_line; apply starts_with_app).
  assert (E1 : ends_with (orange_line r) (bs " ****") = true).
  { unfold orange_line. rewrite app_assoc. apply ends_with_app. }
  unfold header_step. cbn [h_looks h_patch h_lines h_git h_body h_hunk h_first looks_eqb andb negb].
  rewrite C1, C2, C3, C4, C5. cbn [rbind fst snd]. rewrite U, Nm, S1, E1, Hf.
  destruct (fmt_unknown_or p FUnified); destruct (fmt_unknown_or p FNormal);
    rewrite range_substr_orange, (parse_context_range_fmt _ 0 r W); reflexivity.
Qed.

(* the patch record after "*** old", "--- new", the row of stars and the first old range line *)
Definition named_c (p0 : patch) (oldp newp : list N) (t1 t2 : option (list N)) : patch :=
  mkPatch FContext (poper p0) (index_path p0) (prereq p0) oldp newp
          (opt_or (time_read t1) (old_time p0)) (opt_or (time_read t2) (new_time p0)) (old_mode p0) (new_mode p0) (hunks p0).

Lemma scan_core_c strip p0 n oldname t1 newname t2 r :
  name_reads oldname t1 -> name_reads newname t2 -> fmt_unknown_or p0 FContext = true -> wf_crange0 r ->
  scan strip (hs_at p0 n)
       [bs "*** " ++ oldname ++ tab_time t1; bs "--- " ++ newname ++ tab_time t2; stars; orange_line r] =
  Some (mkHS (named_c p0 (stripped oldname strip) (stripped newname strip) t1 t2) LKUnknown (S (S (S (S n)))) false true
             (first_old r) (S (S (S n)))).
Proof.
  intros Ho Hn Hf W.
  rewrite (scan_inl _ _ _ _ _ (step_star strip p0 n _ _ (file_line_name' oldname t1 strip Ho))). cbn [fst snd].
  rewrite (scan_inl _ _ _ _ _ (step_minus strip _ (S n) _ _ (file_line_name' newname t2 strip Hn))). cbn [fst snd].
  match goal with |- scan _ (hs_at ?q _) _ = _ => set (p2 := q) end.
  assert (Hf2 : fmt_unknown_or p2 FContext = true) by (destruct p0; exact Hf).
  rewrite (scan_inl _ _ _ _ _ (step_stars strip p2 (S (S n)) Hf2)).
  cbn [scan]. rewrite (step_orange strip p2 _ _ r Hf2 W). cbn [is_nil].
  destruct p0; reflexivity.
Qed.

(* The header a context diff (or a context reject file) starts with: text that is nothing to the scan, then
   "*** old<TAB>stamp", "--- new<TAB>stamp" (the stamps are optional), then the hunks, each after a row of stars.  The scan
   stops on the old range line of the first hunk and the stream is put back on the row of stars in front of it. *)
Theorem context_header_scan strip f fl oldname t1 newname t2 h1 hs tail :
  f = FUnknown \/ f = FContext ->
  Forall (Filler strip (empty_patch f)) fl -> Forall clean fl ->
  name_reads oldname t1 -> name_reads newname t2 -> clean (oldname ++ tab_time t1) -> clean (newname ++ tab_time t2) ->
  wf_crange0 (oldr h1) ->
  parse_patch_header_full (empty_patch f) strip
    (strm (join_lines (fl ++ [bs "*** " ++ oldname ++ tab_time t1; bs "--- " ++ newname ++ tab_time t2]) ++ emit_c (h1 :: hs) ++ tail)) =
  Ok (true,
      mkPatch FContext (decide_oper (first_old (oldr h1)) (stripped oldname strip) (stripped newname strip)) [] []
              (stripped oldname strip) (stripped newname strip) (opt_or (time_read t1) []) (opt_or (time_read t2) []) 0 0 [],
      strm (emit_c (h1 :: hs) ++ tail), true).
Proof.
  intros Hf HF HC Ho Hn Hoc Hnc W.
  set (l1 := bs "*** " ++ oldname ++ tab_time t1). set (l2 := bs "--- " ++ newname ++ tab_time t2).
  set (rr := fmt_cside (ol_p (body h1)) ++ nrange_line (newr h1) ++ 10%N :: (fmt_cside (nl_p (body h1)) ++ emit_c hs ++ tail)).
  assert (E : emit_c (h1 :: hs) ++ tail = join_lines [stars; orange_line (oldr h1)] ++ rr).
  { cbn [emit_c flat_map]. fold (emit_c hs). rewrite <- !app_assoc. rewrite ctext_shape. unfold sep, rr.
    cbn [join_lines flat_map]. rewrite <- !app_assoc. cbn [app]. reflexivity. }
  set (ls := fl ++ [l1; l2; stars; orange_line (oldr h1)]).
  assert (T : join_lines (fl ++ [l1; l2]) ++ emit_c (h1 :: hs) ++ tail = join_lines ls ++ rr).
  { rewrite E. unfold ls. rewrite app_assoc, <- join_lines_app, <- app_assoc. reflexivity. }
  rewrite T.
  set (st' := mkHS (named_c (empty_patch f) (stripped oldname strip) (stripped newname strip) t1 t2) LKUnknown
                   (S (S (S (S (length fl))))) false true (first_old (oldr h1)) (S (S (S (length fl))))).
  assert (Hfc : fmt_unknown_or (empty_patch f) FContext = true) by (destruct Hf as [-> | ->]; reflexivity).
  assert (SC : scan strip (st0 (empty_patch f)) ls = Some st').
  { unfold ls. change (st0 (empty_patch f)) with (hs_at (empty_patch f) 0).
    rewrite (leads_fillers strip (empty_patch f) fl HF 0). rewrite Nat.add_0_r. apply scan_core_c; assumption. }
  assert (CL : Forall clean ls).
  { unfold ls. apply Forall_app. split; [exact HC|]. destruct Ho as (N1 & _). destruct Hn as (N2 & _).
    constructor; [|constructor; [|constructor; [|constructor; [|constructor]]]].
    - apply file_line_clean; try assumption. vm_compute; intuition discriminate.
    - apply file_line_clean; try assumption. vm_compute; intuition discriminate.
    - exact stars_clean.
    - apply orange_clean. exact W. }
  rewrite (header_suffix strip (empty_patch f) ls rr st' CL SC).
  2:{ unfold st', ls. cbn [h_first]. rewrite app_length. cbn [length]. lia. }
  unfold st'. cbn [h_first h_body Nat.sub Nat.eqb negb].
  unfold ls. rewrite skipn_app. rewrite skipn_all2 by lia. replace (S (S (length fl)) - length fl) with 2 by lia.
  cbn [skipn app]. rewrite <- E.
  unfold header_patch, decide_oper, named_c. cbn [h_git h_patch h_hunk poper empty_patch newr oldr new_path old_path first_old empty_range rstart].
  destruct (_ || _); [reflexivity|]. destruct (_ || _); reflexivity.
Qed.

Lemma context_header_lines p :
  ctx_header_lines p =
  join_lines ([] ++ [bs "*** " ++ old_path p ++ tab_time (hdr_time (old_path p) (old_time p));
                     bs "--- " ++ new_path p ++ tab_time (hdr_time (new_path p) (new_time p))]).
Proof.
  unfold ctx_header_lines. rewrite !fmt_header_line_eq. cbn [app join_lines flat_map].
  rewrite app_nil_r. reflexivity.
Qed.

Lemma context_body_fresh p1 h hs :
  pfmt p1 = FContext -> hunks p1 = [] -> Forall wf_hunk_c (h :: hs) ->
  exists s', parse_patch_body p1 (strm (emit_c (h :: hs) ++ [])) = Ok (set_hunks p1 (map norm_hunk (h :: hs)), s').
Proof.
  intros Hf Hh Hwf. unfold parse_patch_body. rewrite Hf.
  rewrite (context_roundtrip_hunks h hs [] Hwf (or_introl eq_refl)). cbn [rbind fst snd]. rewrite Hh. eexists. reflexivity.
Qed.

(* (2) the context reject file is read back: same names, the hunks normalised (same ranges, same old and new sides) *)
Theorem context_reject_file_reparses p h hs strip :
  hdr_ok (old_path p) (old_time p) -> hdr_ok (new_path p) (new_time p) -> Forall wf_hunk_c (h :: hs) ->
  parse_patch (ctx_header_lines p ++ emit_c (h :: hs)) FUnknown strip =
  Ok (reparsed FContext (first_old (oldr h)) p strip (map norm_hunk (h :: hs))).
Proof.
  intros [Ho Hoc] [Hn Hnc] Hwf.
  assert (W : wf_crange0 (oldr h)) by (inversion Hwf as [|? ? (_ & Wo & _) _]; exact Wo).
  pose proof (context_header_scan strip FUnknown [] (old_path p) (hdr_time (old_path p) (old_time p))
                (new_path p) (hdr_time (new_path p) (new_time p)) h hs []
                (or_introl eq_refl) (Forall_nil _) (Forall_nil _) Ho Hn Hoc Hnc W) as X.
  rewrite <- context_header_lines in X. rewrite !time_read_hdr in X.
  rewrite <- (app_nil_r (emit_c (h :: hs))) at 1.
  rewrite (parse_patch_unfold _ _ _ _ _ _ X).
  match goal with |- context [parse_patch_body ?q _] =>
    destruct (context_body_fresh q h hs eq_refl eq_refl Hwf) as (s' & B) end.
  rewrite B. reflexivity.
Qed.

(* ---------- (3) which bytes apply_patch puts into the reject file, in either form ---------- *)
(* the hunks as the run leaves them in the patch record: an applied hunk as it is, a rejected hunk shifted *)
Fixpoint hunks_left (vs : list verdict) (hs : list hunk) (o2n : Z) : list hunk :=
  match hs, vs with
  | h :: hs', VApplied _ _ :: vs' => h :: hunks_left vs' hs' (o2n + (rcount (newr h) - rcount (oldr h)))%Z
  | h :: hs', VRejected :: vs' => shift_hunk h o2n :: hunks_left vs' hs' o2n
  | _, _ => []
  end.

Lemma rejects_in_left : forall hs vs d h, In h (expected_rejects vs hs d) -> In h (hunks_left vs hs d).
Proof.
  induction hs as [|h0 hs IH]; intros [|[pos fz|] vs] d h; cbn [expected_rejects hunks_left]; try tauto.
  - intros I. right. apply IH. exact I.
  - intros [E|I]; [left; exact E|right; apply IH; exact I].
Qed.

Lemma apply_one_rej_gen o p f k s h loc s' :
  define_macro o = [] ->
  apply_one o p f k s h loc = Ok s' ->
  (exists l, loc = Some l /\ a_skip s = false /\ a_rej s' = a_rej s /\ a_rejected s' = a_rejected s /\
             a_o2n s' = (a_o2n s + (rcount (newr h) - rcount (oldr h)))%Z /\ a_skip s' = false /\
             a_ln s' = lline l + length (old_side (body h)) /\ a_offerr s' = sadd (a_offerr s) (loffset l) /\
             a_hunks s' = a_hunks s ++ [h]) \/
  ((loc = None \/ a_skip s = true) /\
   exists t, write_reject o p (a_rejected s) (shift_hunk h (a_o2n s)) = Ok t /\ a_rej s' = a_rej s ++ t /\
   a_rejected s' = S (a_rejected s) /\ a_o2n s' = a_o2n s /\ a_skip s' = a_skip s /\ a_ln s' = a_ln s /\ a_offerr s' = a_offerr s /\
   a_hunks s' = a_hunks s ++ [shift_hunk h (a_o2n s)]).
Proof.
  intros Hd. unfold apply_one. rewrite Hd. cbn [is_nil].
  destruct loc as [l|].
  - destruct (a_skip s) eqn:Hs; cbn [negb].
    + destruct (write_reject o p (a_rejected s) (shift_hunk h (a_o2n s))) as [t|e] eqn:W; cbn [rbind]; [|discriminate].
      intros [= <-]. right. split; [right; reflexivity|]. exists t. cbn. repeat split; auto.
    + rewrite write_hunk_splice. cbn [rbind fst snd]. intros [= <-]. left. exists l. cbn. repeat split; auto.
  - destruct (write_reject o p (a_rejected s) (shift_hunk h (a_o2n s))) as [t|e] eqn:W; cbn [rbind]; [|discriminate].
    intros [= <-]. right. split; [left; reflexivity|]. exists t. cbn. rewrite andb_false_r. repeat split; auto.
Qed.

Lemma reject_stream_cons o p k h hs t u :
  write_reject o p k h = Ok t -> reject_stream o p (S k) hs = Ok u -> reject_stream o p k (h :: hs) = Ok (t ++ u).
Proof. intros H1 H2. cbn [reject_stream]. rewrite H1. cbn [rbind]. rewrite H2. reflexivity. Qed.

(* The loop of apply_patch from a state that is not skipping, whatever the reject format: the bytes appended to the reject
   file are what write_reject gives, one after the other, for exactly the hunks whose verdict is "rejected", shifted. *)
Theorem rejects_loop_gen o p f :
  define_macro o = [] ->
  forall hs k s s', a_skip s = false -> apply_rest o p f k s hs = Ok s' ->
  exists vs t, verdicts_from_locate o p f (a_ln s) (a_offerr s) hs vs /\
               reject_stream o p (a_rejected s) (expected_rejects vs hs (a_o2n s)) = Ok t /\
               a_rej s' = a_rej s ++ t /\
               a_rejected s' = a_rejected s + length (expected_rejects vs hs (a_o2n s)) /\
               a_hunks s' = a_hunks s ++ hunks_left vs hs (a_o2n s) /\ a_skip s' = false.
Proof.
  intros Hd. induction hs as [|h hs IH]; intros k s s' Hs; cbn [apply_rest].
  - intros [= <-]. exists [], []. cbn. rewrite !app_nil_r. auto 10.
  - set (loc := locate_for p f h (ignore_whitespace o) (a_offerr s) (max_fuzz o) (a_ln s)).
    destruct (apply_one o p f k s h loc) as [s1|e] eqn:E1; cbn [rbind]; [|discriminate]. intros E2.
    destruct (apply_one_rej_gen _ _ _ _ _ _ _ _ Hd E1)
      as [(l & El & _ & Rj & Rn & Ro & Rs & Rl & Rf & Rh)|([En|Hk] & t1 & W1 & Rj & Rn & Ro & Rs & Rl & Rf & Rh)]; [| |congruence].
    + destruct (IH _ _ _ Rs E2) as (vs & t & Hv & Hr & Hj & Hc & Hh & Hsk).
      exists (VApplied (lline l) (lfuzz l) :: vs), t. cbn [verdicts_from_locate expected_rejects hunks_left].
      split; [|split; [|split; [|split; [|split; [|exact Hsk]]]]].
      * exists l. fold loc. rewrite Rl, Rf in Hv. auto.
      * rewrite Rn, Ro in Hr. exact Hr.
      * rewrite Hj, Rj. reflexivity.
      * rewrite Hc, Rn, Ro. reflexivity.
      * rewrite Hh, Rh, Ro, <- app_assoc. reflexivity.
    + assert (Hs1 : a_skip s1 = false) by congruence.
      destruct (IH _ _ _ Hs1 E2) as (vs & t & Hv & Hr & Hj & Hc & Hh & Hsk).
      exists (VRejected :: vs), (t1 ++ t). cbn [verdicts_from_locate expected_rejects hunks_left].
      split; [|split; [|split; [|split; [|split; [|exact Hsk]]]]].
      * fold loc. rewrite Rl, Rf in Hv. auto.
      * rewrite Rn, Ro in Hr. apply reject_stream_cons; assumption.
      * rewrite Hj, Rj, app_assoc. reflexivity.
      * rewrite Hc, Rn, Ro. cbn [length]. lia.
      * rewrite Hh, Rh, Ro, <- app_assoc. reflexivity.
Qed.

(* skipped as already applied (-N): every hunk goes to the reject file *)
Theorem rejects_skipped_gen o p f :
  define_macro o = [] ->
  forall hs k s s', a_skip s = true -> apply_rest o p f k s hs = Ok s' ->
  exists t, reject_stream o p (a_rejected s) (map (fun h => shift_hunk h (a_o2n s)) hs) = Ok t /\
            a_rej s' = a_rej s ++ t /\ a_rejected s' = a_rejected s + length hs /\
            a_hunks s' = a_hunks s ++ map (fun h => shift_hunk h (a_o2n s)) hs /\ a_skip s' = true.
Proof.
  intros Hd. induction hs as [|h hs IH]; intros k s s' Hs; cbn [apply_rest].
  - intros [= <-]. exists []. cbn. rewrite !app_nil_r. auto.
  - destruct (apply_one o p f k s h _) as [s1|e] eqn:E1; cbn [rbind]; [|discriminate]. intros E2.
    destruct (apply_one_rej_gen _ _ _ _ _ _ _ _ Hd E1) as [(l & _ & Hk & _)|(_ & t1 & W1 & Rj & Rn & Ro & Rs & Rl & Rf & Rh)]; [congruence|].
    assert (Hs1 : a_skip s1 = true) by congruence.
    destruct (IH _ _ _ Hs1 E2) as (t & Hr & Hj & Hc & Hh & Hsk). exists (t1 ++ t). cbn [map]. split; [|split; [|split; [|split; [|exact Hsk]]]].
    + rewrite Rn, Ro in Hr. apply reject_stream_cons; assumption.
    + rewrite Hj, Rj, app_assoc. reflexivity.
    + rewrite Hc, Rn. cbn [length]. lia.
    + rewrite Hh, Rh, Ro, <- app_assoc. reflexivity.
Qed.

Lemma verdicts_length o p f : forall hs vs c e, verdicts_from_locate o p f c e hs vs -> length vs = length hs.
Proof.
  induction hs as [|h hs IH]; intros [|[pos fz|] vs] c e; cbn [verdicts_from_locate length]; try tauto.
  - intros (l & _ & _ & _ & Hv). f_equal. eapply IH; exact Hv.
  - intros [_ Hv]. f_equal. eapply IH; exact Hv.
Qed.

Lemma expected_rejects_all d : forall hs, expected_rejects (repeat VRejected (length hs)) hs d = map (fun h => shift_hunk h d) hs.
Proof. induction hs as [|h hs IH]; [reflexivity|]. cbn [length repeat expected_rejects map]. rewrite IH. reflexivity. Qed.

Lemma hunks_left_all d : forall hs, hunks_left (repeat VRejected (length hs)) hs d = map (fun h => shift_hunk h d) hs.
Proof. induction hs as [|h hs IH]; [reflexivity|]. cbn [length repeat hunks_left map]. rewrite IH. reflexivity. Qed.

(* one hunk with any answer of the locator, then the loop *)
Lemma one_then_rest o p f k s0 h loc hs s :
  define_macro o = [] -> a_skip s0 = false ->
  (do s' <- apply_one o p f k s0 h loc; apply_rest o p f (S k) s' hs) = Ok s ->
  exists vs t, length vs = S (length hs) /\
               reject_stream o p (a_rejected s0) (expected_rejects vs (h :: hs) (a_o2n s0)) = Ok t /\
               a_rej s = a_rej s0 ++ t /\
               a_rejected s = a_rejected s0 + length (expected_rejects vs (h :: hs) (a_o2n s0)) /\
               a_hunks s = a_hunks s0 ++ hunks_left vs (h :: hs) (a_o2n s0) /\ a_skip s = false.
Proof.
  intros Hd Hs. destruct (apply_one o p f k s0 h loc) as [s1|e] eqn:E1; cbn [rbind]; [|discriminate]. intros E2.
  destruct (apply_one_rej_gen _ _ _ _ _ _ _ _ Hd E1)
    as [(l & El & _ & Rj & Rn & Ro & Rs & Rl & Rf & Rh)|(_ & t1 & W1 & Rj & Rn & Ro & Rs & Rl & Rf & Rh)].
  - destruct (rejects_loop_gen o p f Hd _ _ _ _ Rs E2) as (vs & t & Hv & Hr & Hj & Hc & Hh & Hsk).
    exists (VApplied (lline l) (lfuzz l) :: vs), t. cbn [expected_rejects hunks_left length]. rewrite (verdicts_length _ _ _ _ _ _ _ Hv).
    split; [reflexivity|]. rewrite Rn, Ro in Hr, Hc. rewrite Rj in Hj. rewrite Rh, Ro, <- app_assoc in Hh. auto 10.
  - assert (Hs1 : a_skip s1 = false) by congruence.
    destruct (rejects_loop_gen o p f Hd _ _ _ _ Hs1 E2) as (vs & t & Hv & Hr & Hj & Hc & Hh & Hsk).
    exists (VRejected :: vs), (t1 ++ t). cbn [expected_rejects hunks_left length]. rewrite (verdicts_length _ _ _ _ _ _ _ Hv).
    split; [reflexivity|]. rewrite Rn, Ro in Hr, Hc. split; [apply reject_stream_cons; assumption|].
    split; [rewrite Hj, Rj, app_assoc; reflexivity|]. split; [lia|]. split; [|exact Hsk]. rewrite Hh, Rh, Ro, <- app_assoc. reflexivity.
Qed.

(* how the run went: normally (the verdicts are the locator's answers), skipped as a whole (the reversed-patch question
   answered "skip": every hunk rejected), or with the patch taken as reversed *)
Definition run_kind (o : options) (f : list line) (p1 q : patch) (skipped : bool) (vs : list verdict) : Prop :=
  (q = p1 /\ skipped = false /\ verdicts_from_locate o p1 f 0 0 (hunks p1) vs) \/
  (q = p1 /\ skipped = true /\ force o = false /\ vs = repeat VRejected (length (hunks p1))) \/
  (q = reverse_patch p1 /\ skipped = false /\ force o = false).

Lemma run_kind_force o f p1 q sk vs : run_kind o f p1 q sk vs -> force o = true ->
  q = p1 /\ verdicts_from_locate o p1 f 0 0 (hunks p1) vs.
Proof. intros [(A & B & C)|[(A & B & C & D)|(A & B & C)]] Hf; [auto|congruence|congruence]. Qed.

(* the first hunk with its reversed-patch question, then the loop: the state and the patch record the run goes on with *)
Lemma apply_first_rejects o p1 f s q :
  define_macro o = [] -> apply_first o p1 f init_state (hunks p1) = Ok (s, q) ->
  exists vs t, (q = p1 \/ q = reverse_patch p1) /\ length vs = length (hunks q) /\
               reject_stream o q 0 (expected_rejects vs (hunks q) 0) = Ok t /\ a_rej s = t /\
               a_rejected s = length (expected_rejects vs (hunks q) 0) /\
               a_hunks s = hunks_left vs (hunks q) 0 /\
               run_kind o f p1 q (a_skip s) vs /\
               (force o = true -> q = p1 /\ verdicts_from_locate o p1 f 0 0 (hunks p1) vs).
Proof.
  intros Hd. destruct (hunks p1) as [|h hs] eqn:Hh.
  { cbn [apply_first]. intros [= <- <-]. exists [], []. unfold run_kind. rewrite Hh. cbn. repeat split; auto; try (left; repeat split; auto). }
  cbn [apply_first].
  set (loc := locate_for p1 f h (ignore_whitespace o) (a_offerr init_state) (max_fuzz o) (a_ln init_state)).
  assert (Plain : forall s0, a_skip s0 = false -> a_rej s0 = [] -> a_rejected s0 = 0 -> a_o2n s0 = 0%Z -> a_ln s0 = 0 -> a_offerr s0 = 0%Z ->
            a_hunks s0 = [] ->
            apply_rest o p1 f 0 s0 (h :: hs) = Ok s ->
            exists vs t, length vs = length (h :: hs) /\ reject_stream o p1 0 (expected_rejects vs (h :: hs) 0) = Ok t /\ a_rej s = t /\
                         a_rejected s = length (expected_rejects vs (h :: hs) 0) /\
                         a_hunks s = hunks_left vs (h :: hs) 0 /\ a_skip s = false /\ verdicts_from_locate o p1 f 0 0 (h :: hs) vs).
  { intros s0 A1 A2 A3 A4 A5 A6 A7 E. destruct (rejects_loop_gen o p1 f Hd _ _ _ _ A1 E) as (vs & t & Hv & Hr & Hj & Hc & Hl & Hsk).
    rewrite A2 in Hj. rewrite A3, A4 in Hr, Hc. rewrite A5, A6 in Hv. rewrite A7, A4 in Hl. exists vs, t.
    rewrite (verdicts_length _ _ _ _ _ _ _ Hv). auto 10. }
  destruct (should_check_if_patch_is_reversed loc o) eqn:SC.
  - assert (NF : force o = false).
    { unfold should_check_if_patch_is_reversed in SC. destruct (force o); [|reflexivity]. destruct (loc_perfect loc); discriminate. }
    match goal with |- rbind ?m _ = _ -> _ => destruct m as [d|e] eqn:Ed end; cbn [rbind]; [|discriminate].
    destruct (snd d); intros E; apply with_patch_ok in E; destruct E as [E ->].
    + (* taken as reversed *)
      pose proof (fun a => one_then_rest o (reverse_patch p1) f 0 _ _ _ _ s Hd a E) as G.
      destruct (G eq_refl) as (vs & t & Hl & Hr & Hj & Hc & Hk & Hsk). clear G.
      cbn [a_rejected a_o2n a_rej a_hunks init_state app Nat.add] in Hr, Hj, Hc, Hk.
      exists vs, t. cbn [reverse_patch hunks]. rewrite Hh. cbn [map].
      split; [right; reflexivity|]. split; [exact Hl|]. split; [exact Hr|]. split; [exact Hj|]. split; [exact Hc|].
      split; [exact Hk|]. split; [right; right; auto|]. intros Hf. congruence.
    + (* skipped *)
      match type of E with rbind (apply_one _ _ _ _ ?s0 _ _) _ = _ =>
        change (apply_rest o p1 f 0 s0 (h :: hs) = Ok s) in E;
        destruct (rejects_skipped_gen o p1 f Hd _ _ s0 s eq_refl E) as (t & Hr & Hj & Hc & Hk & Hsk) end.
      cbn [a_rejected a_o2n a_rej a_hunks init_state app Nat.add] in Hr, Hj, Hc, Hk.
      exists (repeat VRejected (length (h :: hs))), t. unfold run_kind.
      rewrite Hh, expected_rejects_all, hunks_left_all, repeat_length, map_length.
      split; [left; reflexivity|]. split; [reflexivity|]. split; [exact Hr|]. split; [exact Hj|]. split; [exact Hc|].
      split; [exact Hk|]. split; [right; left; auto|]. intros Hf. congruence.
    + match type of E with rbind (apply_one _ _ _ _ ?s0 _ _) _ = _ =>
        change (apply_rest o p1 f 0 s0 (h :: hs) = Ok s) in E;
        destruct (Plain s0 eq_refl eq_refl eq_refl eq_refl eq_refl eq_refl eq_refl E) as (vs & t & Hl & Hr & Hj & Hc & Hk & Hsk & Hv) end.
      exists vs, t. unfold run_kind. rewrite Hh. split; [left; reflexivity|]. repeat (split; [assumption|]).
      split; [left; auto|]. intros Hf. congruence.
  - intros E. apply with_patch_ok in E. destruct E as [E ->].
    change (apply_rest o p1 f 0 init_state (h :: hs) = Ok s) in E.
    destruct (Plain init_state eq_refl eq_refl eq_refl eq_refl eq_refl eq_refl eq_refl E) as (vs & t & Hl & Hr & Hj & Hc & Hk & Hsk & Hv).
    exists vs, t. unfold run_kind. rewrite Hh. split; [left; reflexivity|]. repeat (split; [assumption|]).
    split; [left; auto|]. intros _. split; [reflexivity|exact Hv].
Qed.

Lemma reject_stream_set_hunks o q hs' : forall rj k, reject_stream o (set_hunks q hs') k rj = reject_stream o q k rj.
Proof. induction rj as [|h rj IH]; intros k; [reflexivity|]. cbn [reject_stream]. rewrite IH. reflexivity. Qed.

(* rj is the list of the hunks that the run of apply_patch rejected, as it wrote them: the hunks of the patch record the
   run worked with (the record given, reversed under -R, reversed once more when the reversed-patch question was answered
   "yes"), those with verdict "rejected", each shifted by the net growth of the hunks applied before it; the record the
   run returns holds these shifted hunks in the places of the rejected ones; with -f the verdicts are the locator's answers. *)
Definition rejected_by (o : options) (f : list line) (p : patch) (r : aresult) (rj : list hunk) : Prop :=
  let p1 := if reverse_patch_opt o then reverse_patch p else p in
  exists q vs, (q = p1 \/ q = reverse_patch p1) /\ r_patch r = set_hunks q (hunks_left vs (hunks q) 0) /\
               length vs = length (hunks q) /\ rj = expected_rejects vs (hunks q) 0 /\
               run_kind o f p1 q (r_skipped r) vs.

Lemma rejected_by_incl o f p r rj : rejected_by o f p r rj -> forall h, In h rj -> In h (hunks (r_patch r)).
Proof.
  intros (q & vs & _ & Hp & _ & -> & _) h I. rewrite Hp. cbn [set_hunks hunks]. apply rejects_in_left. exact I.
Qed.

(* what apply_patch leaves in r_rej: write_reject on the rejected hunks, one after the other, counter starting at 0 *)
Theorem apply_patch_reject_stream o f p r :
  define_macro o = [] -> apply_patch o f p = Ok r ->
  exists rj, rejected_by o f p r rj /\ length rj = r_failed r /\ reject_stream o (r_patch r) 0 rj = Ok (r_rej r).
Proof.
  intros Hd. unfold apply_patch.
  set (p1 := if reverse_patch_opt o then reverse_patch p else p). fold init_state.
  destruct (apply_first o p1 f init_state (hunks p1)) as [[s q]|e] eqn:E; cbn [rbind]; [|discriminate].
  intros [= <-]. cbn [r_rej r_failed r_patch fst snd].
  destruct (apply_first_rejects o p1 f s q Hd E) as (vs & t & Hq & Hl & Hr & Hj & Hc & Hk & Hrk & Hf).
  exists (expected_rejects vs (hunks q) 0). split; [|split].
  - unfold rejected_by. fold p1. exists q, vs. cbn [r_patch r_skipped]. rewrite Hk. repeat split; auto.
  - symmetry. exact Hc.
  - rewrite reject_stream_set_hunks, Hj. exact Hr.
Qed.

Lemma length_nonzero {A} (l : list A) : length l <> 0 -> exists x r, l = x :: r.
Proof. destruct l as [|x r]; [cbn; congruence|]. intros _. eauto. Qed.

(* what is read back from a reject file, compared with the record of the run *)
Definition read_back (r : aresult) (strip : Z) (f : format) (hs : list hunk) (p' : patch) : Prop :=
  pfmt p' = f /\ hunks p' = hs /\
  old_path p' = stripped (old_path (r_patch r)) strip /\ new_path p' = stripped (new_path (r_patch r)) strip /\
  old_time p' = time_kept (old_path (r_patch r)) (old_time (r_patch r)) /\
  new_time p' = time_kept (new_path (r_patch r)) (new_time (r_patch r)).

(* (3), unified form: the reject file is read back as the rejected hunks *)
Theorem apply_patch_unified_reject_reparses o f p r strip :
  define_macro o = [] -> apply_patch o f p = Ok r -> r_failed r <> 0 ->
  should_write_as_unified o (r_patch r) = true ->
  hdr_ok (old_path (r_patch r)) (old_time (r_patch r)) -> hdr_ok (new_path (r_patch r)) (new_time (r_patch r)) ->
  exists rj, rejected_by o f p r rj /\ length rj = r_failed r /\
    (Forall wf_hunk rj -> exists p', parse_patch (r_rej r) FUnknown strip = Ok p' /\ read_back r strip FUnified rj p').
Proof.
  intros Hd Ha Hn Hu Ho Hnw.
  destruct (apply_patch_reject_stream o f p r Hd Ha) as (rj & Hb & Hl & Hs).
  exists rj. split; [exact Hb|]. split; [exact Hl|]. intros Hwf.
  rewrite <- Hl in Hn. destruct (length_nonzero rj Hn) as (h & hs & ->).
  rewrite (reject_unified_file o (r_patch r) h hs Hu) in Hs.
  assert (Er : r_rej r = write_patch_header_as_unified (r_patch r) ++ emit_hunks (h :: hs)) by congruence. rewrite Er.
  rewrite (unified_reject_file_reparses (r_patch r) h hs strip Ho Hnw Hwf).
  eexists. split; [reflexivity|]. unfold read_back, reparsed. cbn [pfmt hunks old_path new_path old_time new_time]. repeat split; reflexivity.
Qed.

(* (3), context form: the reject file is read back as the rejected hunks, normalised (same ranges, same sides) *)
Theorem apply_patch_context_reject_reparses o f p r strip :
  define_macro o = [] -> apply_patch o f p = Ok r -> r_failed r <> 0 ->
  should_write_as_unified o (r_patch r) = false ->
  hdr_ok (old_path (r_patch r)) (old_time (r_patch r)) -> hdr_ok (new_path (r_patch r)) (new_time (r_patch r)) ->
  exists rj, rejected_by o f p r rj /\ length rj = r_failed r /\
    (Forall wf_hunk_c rj ->
     exists p', parse_patch (r_rej r) FUnknown strip = Ok p' /\ read_back r strip FContext (map norm_hunk rj) p').
Proof.
  intros Hd Ha Hn Hu Ho Hnw.
  destruct (apply_patch_reject_stream o f p r Hd Ha) as (rj & Hb & Hl & Hs).
  exists rj. split; [exact Hb|]. split; [exact Hl|]. intros Hwf.
  rewrite <- Hl in Hn. destruct (length_nonzero rj Hn) as (h & hs & ->).
  rewrite (reject_context_file o (r_patch r) h hs Hu Hwf) in Hs.
  assert (Er : r_rej r = ctx_header_lines (r_patch r) ++ emit_c (h :: hs)) by congruence. rewrite Er.
  rewrite (context_reject_file_reparses (r_patch r) h hs strip Ho Hnw Hwf).
  eexists. split; [reflexivity|]. unfold read_back, reparsed. cbn [pfmt hunks old_path new_path old_time new_time]. repeat split; reflexivity.
Qed.

(* the same with hypotheses that can be checked on the result of the run: every hunk left in the returned record (applied
   hunks as they were, rejected hunks shifted) is fit for the form of the reject file *)
Corollary apply_patch_unified_reject_reparses_checked o f p r strip :
  define_macro o = [] -> apply_patch o f p = Ok r -> r_failed r <> 0 ->
  should_write_as_unified o (r_patch r) = true ->
  hdr_ok (old_path (r_patch r)) (old_time (r_patch r)) -> hdr_ok (new_path (r_patch r)) (new_time (r_patch r)) ->
  Forall wf_hunk (hunks (r_patch r)) ->
  exists rj p', rejected_by o f p r rj /\ length rj = r_failed r /\
                parse_patch (r_rej r) FUnknown strip = Ok p' /\ read_back r strip FUnified rj p'.
Proof.
  intros Hd Ha Hn Hu Ho Hnw Hwf.
  destruct (apply_patch_unified_reject_reparses o f p r strip Hd Ha Hn Hu Ho Hnw) as (rj & Hb & Hl & Hp).
  destruct Hp as (p' & P1 & P2).
  { apply Forall_forall. intros h I. rewrite Forall_forall in Hwf. apply Hwf. eapply rejected_by_incl; eassumption. }
  exists rj, p'. auto.
Qed.

Corollary apply_patch_context_reject_reparses_checked o f p r strip :
  define_macro o = [] -> apply_patch o f p = Ok r -> r_failed r <> 0 ->
  should_write_as_unified o (r_patch r) = false ->
  hdr_ok (old_path (r_patch r)) (old_time (r_patch r)) -> hdr_ok (new_path (r_patch r)) (new_time (r_patch r)) ->
  Forall wf_hunk_c (hunks (r_patch r)) ->
  exists rj p', rejected_by o f p r rj /\ length rj = r_failed r /\
                parse_patch (r_rej r) FUnknown strip = Ok p' /\ read_back r strip FContext (map norm_hunk rj) p'.
Proof.
  intros Hd Ha Hn Hu Ho Hnw Hwf.
  destruct (apply_patch_context_reject_reparses o f p r strip Hd Ha Hn Hu Ho Hnw) as (rj & Hb & Hl & Hp).
  destruct Hp as (p' & P1 & P2).
  { apply Forall_forall. intros h I. rewrite Forall_forall in Hwf. apply Hwf. eapply rejected_by_incl; eassumption. }
  exists rj, p'. auto.
Qed.

(* ---------- side lemmas: names, shifted hunks, checks by computation ---------- *)
(* without -p (strip < 0) or with -p0, a name without a slash is kept as it is *)
Lemma stripped_noslash name strip : (strip <= 0)%Z -> ~ In 47%N name -> stripped name strip = name.
Proof.
  intros Hs H. destruct (Z.eq_dec strip 0) as [->|Hn]; [apply stripped_p0; exact H|].
  unfold stripped. rewrite (not_devnull_noslash name H). unfold strip_path.
  destruct (Z.ltb_spec strip 0); [|lia]. unfold basename. rewrite (basename_aux_noslash name [] H). reflexivity.
Qed.

(* a rejected hunk is written with both starts moved by the net growth d of the hunks applied before it (saturating): it
   stays fit for the unified form as long as the starts do not become negative *)
Lemma wf_hunk_shift h d :
  wf_hunk h -> (0 <= rstart (oldr h) + d)%Z -> (0 <= rstart (newr h) + d)%Z -> wf_hunk (shift_hunk h d).
Proof.
  intros (A & B & (Co & Cc) & (Do & Dc) & E & F) Ho Hn. unfold wf_hunk, shift_hunk, shift_start, wf_range. cbn [body oldr newr rstart rcount].
  pose proof MAXZ_val as MX. pose proof MINZ_val as MN.
  repeat split; auto; unfold sadd, sat64; lia.
Qed.

(* ... and for the context form as long as, besides, the ends stay inside int64 *)
Lemma wf_hunk_c_shift h d :
  wf_hunk_c h ->
  (0 <= rstart (oldr h) + d)%Z -> (rstart (oldr h) + d + rcount (oldr h) <= MAXZ)%Z ->
  (0 <= rstart (newr h) + d)%Z -> (rstart (newr h) + d + rcount (newr h) <= MAXZ)%Z ->
  wf_hunk_c (shift_hunk h d).
Proof.
  intros (A & ((Bs & Bm) & Bc) & ((Cs & Cm) & Cc) & E & F & G & H) Ho Ho2 Hn Hn2.
  pose proof MAXZ_val as MX. pose proof MINZ_val as MN.
  assert (So : sadd (rstart (oldr h)) d = (rstart (oldr h) + d)%Z) by (unfold sadd; apply sat64_id; lia).
  assert (Sn : sadd (rstart (newr h)) d = (rstart (newr h) + d)%Z) by (unfold sadd; apply sat64_id; lia).
  unfold wf_hunk_c, shift_hunk, shift_start, wf_crange0, range_fits. cbn [body oldr newr rstart rcount]. rewrite So, Sn.
  rewrite !Z.max_r by lia.
  split; [exact A|]. split; [lia|]. split; [lia|]. split; [exact E|]. split; [exact F|]. split.
  - intros P. split; [apply G; exact P|lia].
  - intros P. split; [apply H; exact P|intros _; lia].
Qed.

Definition plain_nameb (name : list N) : bool :=
  negb (is_nil name) && negb (existsb (N.eqb 9) name) && negb (existsb (N.eqb 32) name) && negb (N.eqb (hd 0%N name) 34).

Lemma existsb_false_notin c l : existsb (N.eqb c) l = false -> ~ In c l.
Proof.
  intros H I. assert (E : existsb (N.eqb c) l = true) by (apply existsb_exists; exists c; split; [exact I|apply N.eqb_refl]).
  congruence.
Qed.

Lemma plain_nameb_ok name : plain_nameb name = true -> plain_name name.
Proof.
  unfold plain_nameb, plain_name. intros H.
  apply andb_true_iff in H. destruct H as [H H4]. apply andb_true_iff in H. destruct H as [H H3].
  apply andb_true_iff in H. destruct H as [H1 H2]. apply negb_true_iff in H1, H2, H3, H4.
  split; [intros ->; discriminate|]. split; [apply existsb_false_notin; exact H2|].
  split; [apply existsb_false_notin; exact H3|]. apply N.eqb_neq. exact H4.
Qed.

Definition hdr_okb (path time : list N) : bool := plain_nameb path && cleanb path && cleanb time.

Lemma hdr_okb_ok path time : hdr_okb path time = true -> hdr_ok path time.
Proof.
  unfold hdr_okb. intros H. apply andb_true_iff in H. destruct H as [H H3]. apply andb_true_iff in H. destruct H as [H1 H2].
  apply hdr_ok_simple; [apply plain_nameb_ok; exact H1|apply cleanb_ok; exact H2|apply cleanb_ok; exact H3].
Qed.

(* a hunk fit for both forms *)
Definition wf_hunk_bothb (h : hunk) : bool := wf_hunk_cb h && range_fitsb (oldr h) && range_fitsb (newr h).

Lemma wf_hunk_bothb_ok h : wf_hunk_bothb h = true -> wf_hunk h /\ wf_hunk_c h.
Proof.
  unfold wf_hunk_bothb. intros H. apply andb_true_iff in H. destruct H as [H H3]. apply andb_true_iff in H. destruct H as [H1 H2].
  pose proof (wf_hunk_cb_ok h H1) as C. split; [|exact C].
  apply wf_hunk_c_unified; [exact C|apply range_fitsb_ok; exact H2|apply range_fitsb_ok; exact H3].
Qed.

Lemma forallb_Forall {A} (P : A -> Prop) (b : A -> bool) (l : list A) :
  (forall x, b x = true -> P x) -> forallb b l = true -> Forall P l.
Proof.
  intros Hb. induction l as [|x l IH]; cbn [forallb]; intros H; [constructor|].
  apply andb_true_iff in H. destruct H as [H1 H2]. constructor; [apply Hb; exact H1|apply IH; exact H2].
Qed.

(* ---------- examples ---------- *)
Module RejectFileExamples.
Local Open Scope string_scope.
Definition xl (s : String.string) : line := mkLine (bs s) LF.
(* the file: eight lines a..h; the patch: two hunks, the first one fits (and adds a line), the second one does not *)
Definition ex_lines : list line := [xl "a"; xl "b"; xl "c"; xl "d"; xl "e"; xl "f"; xl "g"; xl "h"].
Definition ex_h1 : hunk :=
  mkHunk (mkRange 1 3) (mkRange 1 4) [mkPL Ctx (xl "a"); mkPL Del (xl "b"); mkPL Add (xl "B"); mkPL Add (xl "B2"); mkPL Ctx (xl "c")].
Definition ex_h2 : hunk :=
  mkHunk (mkRange 6 3) (mkRange 7 3) [mkPL Ctx (xl "f"); mkPL Del (xl "X"); mkPL Add (xl "Y"); mkPL Ctx (xl "h")].
Definition ex_p : patch :=
  mkPatch FUnified OpChange [] [] (bs "f.txt") (bs "f.txt") (bs "2024-01-01 10:00:00") (bs "2024-01-02 11:00:00") 0 0 [ex_h1; ex_h2].
(* --reject-format=context *)
Definition ex_oc : options :=
  mkOptions false false [] [] false [] false false false [] (-1)%Z 2%Z false [] []
            false false false false false false false false OBUnset OBUnset MNative RFContext ROWarn QSUnset [] [].

Example ex_runs :
  (exists r, apply_patch default_options ex_lines ex_p = Ok r /\ r_failed r = 1) /\
  (exists r, apply_patch ex_oc ex_lines ex_p = Ok r /\ r_failed r = 1).
Proof. split; eexists; (split; [vm_compute; reflexivity|reflexivity]). Qed.

(* the unified reject file, through the theorem, every hypothesis discharged: the file holds "--- f.txt<TAB>stamp",
   "+++ f.txt<TAB>stamp", "@@ -7,3 +8,3 @@" and the four lines of the second hunk, and is read back as that hunk *)
Example ex_unified_reject r :
  apply_patch default_options ex_lines ex_p = Ok r ->
  exists rj p', rejected_by default_options ex_lines ex_p r rj /\
                parse_patch (r_rej r) FUnknown (-1) = Ok p' /\ read_back r (-1) FUnified rj p' /\
                rj = [shift_hunk ex_h2 1] /\ old_path p' = bs "f.txt" /\ new_path p' = bs "f.txt" /\
                old_time p' = bs "2024-01-01 10:00:00" /\ new_time p' = bs "2024-01-02 11:00:00".
Proof.
  intros Hr. pose proof Hr as Hc. vm_compute in Hc. injection Hc as Er.
  destruct (apply_patch_unified_reject_reparses_checked default_options ex_lines ex_p r (-1) eq_refl Hr)
    as (rj & p' & Hb & Hl & Hp & Hrb).
  - rewrite <- Er. discriminate.
  - rewrite <- Er. reflexivity.
  - apply hdr_okb_ok. rewrite <- Er. vm_compute. reflexivity.
  - apply hdr_okb_ok. rewrite <- Er. vm_compute. reflexivity.
  - apply (forallb_Forall _ wf_hunk_bothb); [intros x Hx; apply (wf_hunk_bothb_ok x Hx)|]. rewrite <- Er. vm_compute. reflexivity.
  - exists rj, p'. split; [exact Hb|]. split; [exact Hp|]. split; [exact Hrb|].
    rewrite <- Er in Hp. vm_compute in Hp. injection Hp as Ep.
    destruct Hrb as (_ & Hh & _). rewrite <- Hh, <- Ep. repeat split; reflexivity.
Qed.

(* the context reject file: "*** f.txt<TAB>stamp", "--- f.txt<TAB>stamp", the row of stars, "*** 7,9 ****" ... *)
Example ex_context_reject r :
  apply_patch ex_oc ex_lines ex_p = Ok r ->
  exists rj p', rejected_by ex_oc ex_lines ex_p r rj /\ length rj = 1 /\
                parse_patch (r_rej r) FUnknown (-1) = Ok p' /\ read_back r (-1) FContext (map norm_hunk rj) p' /\
                hunks p' = [shift_hunk ex_h2 1] /\ old_path p' = bs "f.txt" /\ new_path p' = bs "f.txt".
Proof.
  intros Hr. pose proof Hr as Hc. vm_compute in Hc. injection Hc as Er.
  destruct (apply_patch_context_reject_reparses_checked ex_oc ex_lines ex_p r (-1) eq_refl Hr)
    as (rj & p' & Hb & Hl & Hp & Hrb).
  - rewrite <- Er. discriminate.
  - rewrite <- Er. reflexivity.
  - apply hdr_okb_ok. rewrite <- Er. vm_compute. reflexivity.
  - apply hdr_okb_ok. rewrite <- Er. vm_compute. reflexivity.
  - apply (forallb_Forall _ wf_hunk_cb); [exact wf_hunk_cb_ok|]. rewrite <- Er. vm_compute. reflexivity.
  - exists rj, p'. split; [exact Hb|]. split; [rewrite Hl, <- Er; reflexivity|]. split; [exact Hp|]. split; [exact Hrb|].
    rewrite <- Er in Hp. vm_compute in Hp. injection Hp as Ep. rewrite <- Ep. repeat split; reflexivity.
Qed.

(* (1) and (2) directly on a two-hunk file, the result computed as well *)
Example ex_both_files :
  parse_patch (write_patch_header_as_unified ex_p ++ emit_hunks [ex_h1; ex_h2]) FUnknown (-1)
  = Ok (mkPatch FUnified OpChange [] [] (bs "f.txt") (bs "f.txt") (bs "2024-01-01 10:00:00") (bs "2024-01-02 11:00:00") 0 0 [ex_h1; ex_h2]) /\
  parse_patch (ctx_header_lines ex_p ++ emit_c [ex_h1; ex_h2]) FUnknown (-1)
  = Ok (mkPatch FContext OpChange [] [] (bs "f.txt") (bs "f.txt") (bs "2024-01-01 10:00:00") (bs "2024-01-02 11:00:00") 0 0 [ex_h1; ex_h2]).
Proof.
  assert (H1 : hdr_ok (old_path ex_p) (old_time ex_p)) by (apply hdr_okb_ok; vm_compute; reflexivity).
  assert (H2 : hdr_ok (new_path ex_p) (new_time ex_p)) by (apply hdr_okb_ok; vm_compute; reflexivity).
  assert (W : Forall (fun h => wf_hunk h /\ wf_hunk_c h) [ex_h1; ex_h2])
    by (apply (forallb_Forall _ wf_hunk_bothb); [exact wf_hunk_bothb_ok|vm_compute; reflexivity]).
  split.
  - rewrite (unified_reject_file_reparses ex_p ex_h1 [ex_h2] (-1) H1 H2).
    + vm_compute. reflexivity.
    + eapply Forall_impl; [|exact W]. intros h Hh. apply Hh.
  - rewrite (context_reject_file_reparses ex_p ex_h1 [ex_h2] (-1) H1 H2).
    + vm_compute. reflexivity.
    + eapply Forall_impl; [|exact W]. intros h Hh. apply Hh.
Qed.

(* ---- the side conditions are needed ---- *)
(* a name with a blank and no time stamp: the writer does not quote it, the reader ends it at the blank *)
Definition ex_p_blank : patch := mkPatch FUnified OpChange [] [] (bs "my file.txt") (bs "my file.txt") [] [] 0 0 [ex_h2].
Example blank_name_not_read_back :
  exists p', parse_patch (write_patch_header_as_unified ex_p_blank ++ emit_hunks [ex_h2]) FUnknown (-1) = Ok p' /\
             old_path p' = bs "my" /\ new_path p' = bs "my" /\ old_time p' = bs "file.txt".
Proof. eexists. split; [vm_compute; reflexivity|repeat split; reflexivity]. Qed.

(* ... with a time stamp the same name is read back *)
Definition ex_p_blank_t : patch := mkPatch FUnified OpChange [] [] (bs "my file.txt") (bs "my file.txt") (bs "t1") (bs "t2") 0 0 [ex_h2].
Example blank_name_with_stamp : hdr_ok (old_path ex_p_blank_t) (old_time ex_p_blank_t) /\ hdr_ok (new_path ex_p_blank_t) (new_time ex_p_blank_t).
Proof.
  split; (split; [repeat split; try discriminate; try (vm_compute; intuition discriminate)|apply cleanb_ok; vm_compute; reflexivity]).
Qed.

(* hunks that overlap: the first one removes five lines, the second one claims line 3 and is rejected; its starts are
   moved by -5 and would be negative: the reject file holds "@@ -0 +0 @@" (a negative number is read back by nobody; before
   the repair e07e11a of the program the file said "@@ --2 +-2 @@") and is read back *)
Definition ex_g1 : hunk :=
  mkHunk (mkRange 1 5) (mkRange 0 0) [mkPL Del (xl "a"); mkPL Del (xl "b"); mkPL Del (xl "c"); mkPL Del (xl "d"); mkPL Del (xl "e")].
Definition ex_g2 : hunk := mkHunk (mkRange 3 1) (mkRange 3 1) [mkPL Del (xl "X"); mkPL Add (xl "Y")].
Definition ex_p_neg : patch := mkPatch FUnified OpChange [] [] (bs "f.txt") (bs "f.txt") [] [] 0 0 [ex_g1; ex_g2].
Example negative_start_stops_at_zero :
  exists r, apply_patch default_options ex_lines ex_p_neg = Ok r /\ r_failed r = 1 /\
            r_rej r = bs "--- f.txt" ++ [10%N] ++ bs "+++ f.txt" ++ [10%N] ++ bs "@@ -0 +0 @@" ++ [10%N] ++ bs "-X" ++ [10%N] ++ bs "+Y" ++ [10%N] /\
            exists p', parse_patch (r_rej r) FUnknown (-1) = Ok p' /\ map body (hunks p') = [body ex_g2].
Proof.
  eexists. split; [vm_compute; reflexivity|]. split; [vm_compute; reflexivity|]. split; [vm_compute; reflexivity|].
  eexists. split; vm_compute; reflexivity.
Qed.
End RejectFileExamples.

(* with no -p or -p0 and names without a slash, the names read back are the names of the record *)
Lemma read_back_names r strip f hs p' :
  (strip <= 0)%Z -> ~ In 47%N (old_path (r_patch r)) -> ~ In 47%N (new_path (r_patch r)) ->
  read_back r strip f hs p' -> old_path p' = old_path (r_patch r) /\ new_path p' = new_path (r_patch r).
Proof.
  intros Hs Ho Hn (_ & _ & A & B & _). rewrite A, B, !stripped_noslash by assumption. auto.
Qed.

(* with -f (no reversed-patch question) the rejected hunks are those the locator did not place, as in rejects_loop *)
Lemma rejected_by_force o f p r rj :
  rejected_by o f p r rj -> force o = true ->
  let p1 := if reverse_patch_opt o then reverse_patch p else p in
  exists vs, verdicts_from_locate o p1 f 0 0 (hunks p1) vs /\ rj = expected_rejects vs (hunks p1) 0 /\
             hunks (r_patch r) = hunks_left vs (hunks p1) 0.
Proof.
  intros (q & vs & _ & Hp & _ & Hr & Hk) Hf p1. fold p1 in Hk.
  destruct (run_kind_force _ _ _ _ _ _ Hk Hf) as [-> Hv]. exists vs. rewrite Hp. auto.
Qed.
