(* Proofs_CtxMerge.v — C13, context format, list level: what write_hunk_as_context's state machine (ctx_fold) produces
   for a hunk body, and what hunk_from_context_parts (from_context_parts) makes of these two sides. *)
From PatchV Require Import Base Lines Hunk Formatter LineParser Parser Proofs_Base Proofs_Apply Proofs_Lines Proofs_Unified
     Proofs_CtxLines.

(* ---------- the sides the writer builds, as a function of the body ---------- *)
Definition has_del (b : list pline) : bool := existsb is_del b.
Definition has_add (b : list pline) : bool := existsb is_add b.

(* the pending lines of a change group: deletions ds, additions ads; '!' as soon as both kinds are present *)
Definition mark_o (ds ads : list line) : list (cop * line) := map (fun l => (if is_nil ads then CMinus else CBang, l)) ds.
Definition mark_n (ds ads : list line) : list (cop * line) := map (fun l => (if is_nil ds then CPlus else CBang, l)) ads.
Definition gop (ds ads : list line) : cop :=
  match ds, ads with [], [] => CSp | [], _ => CPlus | _, [] => CMinus | _, _ => CBang end.

Fixpoint W (ds ads : list line) (b : list pline) : list (cop * line) * list (cop * line) :=
  match b with
  | [] => (mark_o ds ads, mark_n ds ads)
  | p :: r =>
      match pop p with
      | Ctx => (mark_o ds ads ++ (CSp, pl p) :: fst (W [] [] r), mark_n ds ads ++ (CSp, pl p) :: snd (W [] [] r))
      | Add => W ds (ads ++ [pl p]) r
      | Del => W (ds ++ [pl p]) ads r
      end
  end.

(* the hunk body as it is read back: inside each change group the deletions come first *)
Fixpoint norm (ds ads : list line) (b : list pline) : list pline :=
  match b with
  | [] => map (mkPL Del) ds ++ map (mkPL Add) ads
  | p :: r =>
      match pop p with
      | Ctx => map (mkPL Del) ds ++ map (mkPL Add) ads ++ mkPL Ctx (pl p) :: norm [] [] r
      | Add => norm ds (ads ++ [pl p]) r
      | Del => norm (ds ++ [pl p]) ads r
      end
  end.
Definition normalise (b : list pline) : list pline := norm [] [] b.

(* ---------- ctx_fold ---------- *)
Definition cstate_of (od nd : list (cop * line)) (ds ads : list line) (ai ad : bool) : cstate :=
  mkCS od (mark_o ds ads) nd (mark_n ds ads) (gop ds ads) ai ad.

Lemma bang_const c xs : bang (map (fun l : line => (c, l)) xs) = map (fun l => (CBang, l)) xs.
Proof. unfold bang. rewrite map_map. reflexivity. Qed.

Lemma old_size_of od nd ds ads ai ad : cs_old_size (cstate_of od nd ds ads ai ad) = length od + length ds.
Proof. unfold cs_old_size, cstate_of, mark_o. cbn [cs_old_done cs_old_pend]. rewrite map_length. reflexivity. Qed.
Lemma new_size_of od nd ds ads ai ad : cs_new_size (cstate_of od nd ds ads ai ad) = length nd + length ads.
Proof. unfold cs_new_size, cstate_of, mark_n. cbn [cs_new_done cs_new_pend]. rewrite map_length. reflexivity. Qed.

Lemma step_add oc nc od nd ds ads ai ad p :
  pop p = Add -> Z.of_nat (length nd + length ads) <> nc ->
  ctx_step oc nc (cstate_of od nd ds ads ai ad) p = Ok (cstate_of od nd ds (ads ++ [pl p]) ai false).
Proof.
  intros Hp Hn. unfold ctx_step. rewrite Hp, new_size_of.
  destruct (Z.eqb_spec (Z.of_nat (length nd + length ads)) nc) as [E|_]; [contradiction|].
  destruct ds as [|d ds']; destruct ads as [|a ads'];
    unfold cstate_of, mark_o, mark_n, gop, make_change, bang; cbn; rewrite ?map_app, ?map_map; cbn; reflexivity.
Qed.

Lemma step_del oc nc od nd ds ads ai ad p :
  pop p = Del -> Z.of_nat (length od + length ds) <> oc ->
  ctx_step oc nc (cstate_of od nd ds ads ai ad) p = Ok (cstate_of od nd (ds ++ [pl p]) ads false ad).
Proof.
  intros Hp Hn. unfold ctx_step. rewrite Hp, old_size_of.
  destruct (Z.eqb_spec (Z.of_nat (length od + length ds)) oc) as [E|_]; [contradiction|].
  destruct ds as [|d ds']; destruct ads as [|a ads'];
    unfold cstate_of, mark_o, mark_n, gop, make_change, bang; cbn; rewrite ?map_app, ?map_map; cbn; reflexivity.
Qed.

Lemma step_ctx oc nc od nd ds ads ai ad p :
  pop p = Ctx -> Z.of_nat (length od + length ds) <> oc -> Z.of_nat (length nd + length ads) <> nc ->
  ctx_step oc nc (cstate_of od nd ds ads ai ad) p
  = Ok (cstate_of (od ++ mark_o ds ads ++ [(CSp, pl p)]) (nd ++ mark_n ds ads ++ [(CSp, pl p)]) [] [] ai ad).
Proof.
  intros Hp Ho Hn. unfold ctx_step. rewrite Hp, old_size_of, new_size_of.
  destruct (Z.eqb_spec (Z.of_nat (length od + length ds)) oc) as [E|_]; [contradiction|].
  destruct (Z.eqb_spec (Z.of_nat (length nd + length ads)) nc) as [E|_]; [contradiction|].
  reflexivity.
Qed.

Lemma is_old_ctx p : pop p = Ctx -> is_old p = true /\ is_new p = true /\ is_del p = false /\ is_add p = false.
Proof. intros H. unfold is_old, is_new, is_del, is_add. rewrite H. auto. Qed.
Lemma is_old_add p : pop p = Add -> is_old p = false /\ is_new p = true /\ is_del p = false /\ is_add p = true.
Proof. intros H. unfold is_old, is_new, is_del, is_add. rewrite H. auto. Qed.
Lemma is_old_del p : pop p = Del -> is_old p = true /\ is_new p = false /\ is_del p = true /\ is_add p = false.
Proof. intros H. unfold is_old, is_new, is_del, is_add. rewrite H. auto. Qed.

Lemma fold_W : forall b od nd ds ads ai ad oc nc,
  (Z.of_nat (length od + length ds) + n_old b)%Z = oc ->
  (Z.of_nat (length nd + length ads) + n_new b)%Z = nc ->
  exists s', ctx_fold oc nc (cstate_of od nd ds ads ai ad) b = Ok s' /\
             cs_old_done s' ++ cs_old_pend s' = od ++ fst (W ds ads b) /\
             cs_new_done s' ++ cs_new_pend s' = nd ++ snd (W ds ads b) /\
             cs_all_ins s' = ai && negb (has_del b) /\
             cs_all_del s' = ad && negb (has_add b).
Proof.
  induction b as [|p r IH]; intros od nd ds ads ai ad oc nc Ho Hn.
  - exists (cstate_of od nd ds ads ai ad). cbn [ctx_fold W fst snd has_del has_add existsb negb]. rewrite !andb_true_r.
    repeat split; reflexivity.
  - pose proof (n_old_nonneg r) as P1. pose proof (n_new_nonneg r) as P2.
    rewrite n_old_cons in Ho. rewrite n_new_cons in Hn. cbn [ctx_fold W].
    unfold has_del, has_add. cbn [existsb]. fold (has_del r). fold (has_add r).
    destruct (pop p) eqn:Hp.
    + destruct (is_old_ctx p Hp) as (E1 & E2 & E3 & E4). rewrite E1 in Ho. rewrite E2 in Hn. rewrite E3, E4.
      rewrite step_ctx; [|exact Hp|lia|lia]. cbn [rbind].
      destruct (IH (od ++ mark_o ds ads ++ [(CSp, pl p)]) (nd ++ mark_n ds ads ++ [(CSp, pl p)]) [] [] ai ad oc nc) as (s' & F & A & B & C & D).
      * rewrite !app_length. unfold mark_o. rewrite map_length. cbn [length]. lia.
      * rewrite !app_length. unfold mark_n. rewrite map_length. cbn [length]. lia.
      * exists s'. split; [exact F|]. cbn [fst snd orb]. rewrite A, B. rewrite <- !app_assoc. cbn [app]. auto.
    + destruct (is_old_add p Hp) as (E1 & E2 & E3 & E4). rewrite E1 in Ho. rewrite E2 in Hn. rewrite E3, E4.
      rewrite step_add; [|exact Hp|lia]. cbn [rbind].
      destruct (IH od nd ds (ads ++ [pl p]) ai false oc nc) as (s' & F & A & B & C & D).
      * lia.
      * rewrite app_length. cbn [length]. lia.
      * exists s'. split; [exact F|]. cbn [orb negb]. rewrite andb_false_r. auto.
    + destruct (is_old_del p Hp) as (E1 & E2 & E3 & E4). rewrite E1 in Ho. rewrite E2 in Hn. rewrite E3, E4.
      rewrite step_del; [|exact Hp|lia]. cbn [rbind].
      destruct (IH od nd (ds ++ [pl p]) ads false ad oc nc) as (s' & F & A & B & C & D).
      * rewrite app_length. cbn [length]. lia.
      * lia.
      * exists s'. split; [exact F|]. cbn [orb negb]. rewrite andb_false_r. auto.
Qed.

(* ---------- what the sides contain ---------- *)
Lemma W_lines : forall b ds ads,
  map snd (fst (W ds ads b)) = ds ++ old_side b /\ map snd (snd (W ds ads b)) = ads ++ new_side b.
Proof.
  induction b as [|p r IH]; intros ds ads; cbn [W].
  - unfold mark_o, mark_n. cbn [fst snd]. rewrite !map_map. cbn [snd]. rewrite !map_id.
    change (old_side []) with (@nil line). change (new_side []) with (@nil line). rewrite !app_nil_r. auto.
  - rewrite old_side_cons, new_side_cons. destruct (pop p) eqn:Hp.
    + destruct (is_old_ctx p Hp) as (_ & _ & E3 & E4). rewrite E3, E4. cbn [fst snd]. rewrite !map_app. cbn [map snd].
      destruct (IH [] []) as [A B]. rewrite A, B. unfold mark_o, mark_n. rewrite !map_map. cbn [snd]. rewrite !map_id. auto.
    + destruct (is_old_add p Hp) as (_ & _ & E3 & E4). rewrite E3, E4. destruct (IH ds (ads ++ [pl p])) as [A B].
      rewrite A, B. rewrite <- app_assoc. auto.
    + destruct (is_old_del p Hp) as (_ & _ & E3 & E4). rewrite E3, E4. destruct (IH (ds ++ [pl p]) ads) as [A B].
      rewrite A, B. rewrite <- app_assoc. auto.
Qed.

Lemma old_side_length b : Z.of_nat (length (old_side b)) = n_old b.
Proof.
  induction b as [|p r IH]; [reflexivity|]. rewrite old_side_cons, n_old_cons. unfold is_add, is_old.
  destruct (pop p); cbn [length]; lia.
Qed.
Lemma new_side_length b : Z.of_nat (length (new_side b)) = n_new b.
Proof.
  induction b as [|p r IH]; [reflexivity|]. rewrite new_side_cons, n_new_cons. unfold is_del, is_new.
  destruct (pop p); cbn [length]; lia.
Qed.

Lemma W_length_old ds ads b : length (fst (W ds ads b)) = length ds + length (old_side b).
Proof. rewrite <- (map_length snd). rewrite (proj1 (W_lines b ds ads)). apply app_length. Qed.
Lemma W_length_new ds ads b : length (snd (W ds ads b)) = length ads + length (new_side b).
Proof. rewrite <- (map_length snd). rewrite (proj2 (W_lines b ds ads)). apply app_length. Qed.

Lemma norm_sides : forall b ds ads,
  old_side (norm ds ads b) = ds ++ old_side b /\ new_side (norm ds ads b) = ads ++ new_side b.
Proof.
  assert (Od : forall ds, old_side (map (mkPL Del) ds) = ds).
  { induction ds as [|d ds IH]; [reflexivity|]. cbn [map]. rewrite old_side_cons. cbn. rewrite IH. reflexivity. }
  assert (Oa : forall ads, old_side (map (mkPL Add) ads) = []).
  { induction ads as [|d ads IH]; [reflexivity|]. cbn [map]. rewrite old_side_cons. cbn. exact IH. }
  assert (Nd : forall ds, new_side (map (mkPL Del) ds) = []).
  { induction ds as [|d ds IH]; [reflexivity|]. cbn [map]. rewrite new_side_cons. cbn. exact IH. }
  assert (Na : forall ads, new_side (map (mkPL Add) ads) = ads).
  { induction ads as [|d ads IH]; [reflexivity|]. cbn [map]. rewrite new_side_cons. cbn. rewrite IH. reflexivity. }
  assert (Oapp : forall x y, old_side (x ++ y) = old_side x ++ old_side y).
  { intros x y. unfold old_side. rewrite filter_app, map_app. reflexivity. }
  assert (Napp : forall x y, new_side (x ++ y) = new_side x ++ new_side y).
  { intros x y. unfold new_side. rewrite filter_app, map_app. reflexivity. }
  induction b as [|p r IH]; intros ds ads; cbn [norm].
  - rewrite Oapp, Napp, Od, Oa, Nd, Na. change (old_side []) with (@nil line). change (new_side []) with (@nil line).
    rewrite !app_nil_r. auto.
  - rewrite (old_side_cons p r), (new_side_cons p r). destruct (pop p) eqn:Hp.
    + destruct (is_old_ctx p Hp) as (_ & _ & E3 & E4). rewrite E3, E4.
      rewrite !Oapp, !Napp, Od, Oa, Nd, Na. rewrite old_side_cons, new_side_cons. cbn [is_add is_del pop pl].
      destruct (IH [] []) as [A B]. rewrite A, B. cbn [app]. auto.
    + destruct (is_old_add p Hp) as (_ & _ & E3 & E4). rewrite E3, E4. destruct (IH ds (ads ++ [pl p])) as [A B].
      rewrite A, B, <- app_assoc. auto.
    + destruct (is_old_del p Hp) as (_ & _ & E3 & E4). rewrite E3, E4. destruct (IH (ds ++ [pl p]) ads) as [A B].
      rewrite A, B, <- app_assoc. auto.
Qed.

(* the change a hunk denotes is not touched by the normalisation *)
Theorem normalise_sides b : old_side (normalise b) = old_side b /\ new_side (normalise b) = new_side b.
Proof. exact (norm_sides b [] []). Qed.

(* ---------- from_context_parts, one step at a time ---------- *)
Definition hd_op (l : list (cxop * line)) : option cxop := match l with [] => None | x :: _ => Some (fst x) end.
Definition sp_start (l : list (cxop * line)) : Prop := hd_op l = None \/ hd_op l = Some XSp.

Lemma fcp_nil f acc oc nc : from_context_parts (S f) [] [] acc oc nc = Ok (acc, oc, nc).
Proof. reflexivity. Qed.

Lemma fcp_minus f l O N acc oc nc :
  from_context_parts (S f) ((XMinus, l) :: O) N acc oc nc = from_context_parts f O N (acc ++ [mkPL Del l]) (oc + 1)%Z nc.
Proof. destruct N as [|[[] ?] ?]; reflexivity. Qed.

Lemma fcp_plus f l O N acc oc nc : hd_op O <> Some XMinus ->
  from_context_parts (S f) O ((XPlus, l) :: N) acc oc nc = from_context_parts f O N (acc ++ [mkPL Add l]) oc (nc + 1)%Z.
Proof. intros H. destruct O as [|[[] ?] ?]; try reflexivity. exfalso. apply H. reflexivity. Qed.

Lemma fcp_bang_old f l O N acc oc nc : hd_op N <> Some XPlus ->
  from_context_parts (S f) ((XBang, l) :: O) N acc oc nc = from_context_parts f O N (acc ++ [mkPL Del l]) (oc + 1)%Z nc.
Proof. intros H. destruct N as [|[[] ?] ?]; try reflexivity. exfalso. apply H. reflexivity. Qed.

Lemma fcp_bang_new f l O N acc oc nc : sp_start O ->
  from_context_parts (S f) O ((XBang, l) :: N) acc oc nc = from_context_parts f O N (acc ++ [mkPL Add l]) oc (nc + 1)%Z.
Proof. intros [H|H]; destruct O as [|[[] ?] ?]; try reflexivity; discriminate. Qed.

Lemma fcp_sp_sp f l O N acc oc nc :
  from_context_parts (S f) ((XSp, l) :: O) ((XSp, l) :: N) acc oc nc
  = from_context_parts f O N (acc ++ [mkPL Ctx l]) (oc + 1)%Z (nc + 1)%Z.
Proof. cbn [from_context_parts tl]. rewrite str_eqb_refl. reflexivity. Qed.

Lemma fcp_sp_old f l O acc oc nc :
  from_context_parts (S f) ((XSp, l) :: O) [] acc oc nc = from_context_parts f O [] (acc ++ [mkPL Ctx l]) (oc + 1)%Z (nc + 1)%Z.
Proof. reflexivity. Qed.

Lemma fcp_sp_new f l N acc oc nc :
  from_context_parts (S f) [] ((XSp, l) :: N) acc oc nc = from_context_parts f [] N (acc ++ [mkPL Ctx l]) (oc + 1)%Z (nc + 1)%Z.
Proof. reflexivity. Qed.

(* runs of deletions / additions *)
Lemma fcp_dels m : forall ds O N f acc oc nc,
  (m = XMinus \/ (m = XBang /\ hd_op N <> Some XPlus)) ->
  from_context_parts (length ds + f) (map (fun l => (m, l)) ds ++ O) N acc oc nc
  = from_context_parts f O N (acc ++ map (mkPL Del) ds) (oc + Z.of_nat (length ds))%Z nc.
Proof.
  induction ds as [|d ds IH]; intros O N f acc oc nc Hm.
  - cbn [length map app Nat.add]. rewrite app_nil_r. replace (oc + Z.of_nat 0)%Z with oc by lia. reflexivity.
  - cbn [length map app Nat.add]. destruct Hm as [->|[-> HN]].
    + rewrite fcp_minus. rewrite IH by (left; reflexivity). rewrite <- app_assoc. cbn [app]. f_equal. lia.
    + rewrite fcp_bang_old by exact HN. rewrite IH by (right; split; [reflexivity|exact HN]). rewrite <- app_assoc. cbn [app]. f_equal. lia.
Qed.

Lemma sp_start_not_minus O : sp_start O -> hd_op O <> Some XMinus.
Proof. intros [H|H]; rewrite H; discriminate. Qed.

Lemma fcp_adds m : forall ads O N f acc oc nc,
  (m = XPlus \/ m = XBang) -> sp_start O ->
  from_context_parts (length ads + f) O (map (fun l => (m, l)) ads ++ N) acc oc nc
  = from_context_parts f O N (acc ++ map (mkPL Add) ads) oc (nc + Z.of_nat (length ads))%Z.
Proof.
  induction ads as [|d ads IH]; intros O N f acc oc nc Hm HO.
  - cbn [length map app Nat.add]. rewrite app_nil_r. replace (nc + Z.of_nat 0)%Z with nc by lia. reflexivity.
  - cbn [length map app Nat.add]. destruct Hm as [->| ->].
    + rewrite fcp_plus by (apply sp_start_not_minus; exact HO). rewrite IH by (auto). rewrite <- app_assoc. cbn [app]. f_equal. lia.
    + rewrite fcp_bang_new by exact HO. rewrite IH by (auto). rewrite <- app_assoc. cbn [app]. f_equal. lia.
Qed.

Lemma cxs_app a b : cxs (a ++ b) = cxs a ++ cxs b. Proof. apply map_app. Qed.
Lemma cxs_mark_o ds ads : cxs (mark_o ds ads) = map (fun l => (if is_nil ads then XMinus else XBang, l)) ds.
Proof. unfold cxs, mark_o. rewrite map_map. cbn [fst snd]. destruct (is_nil ads); reflexivity. Qed.
Lemma cxs_mark_n ds ads : cxs (mark_n ds ads) = map (fun l => (if is_nil ds then XPlus else XBang, l)) ads.
Proof. unfold cxs, mark_n. rewrite map_map. cbn [fst snd]. destruct (is_nil ds); reflexivity. Qed.

(* one change group followed by context (or by nothing) on both sides *)
Lemma fcp_group ds ads O N f acc oc nc : sp_start O -> sp_start N ->
  from_context_parts (length ds + (length ads + f)) (cxs (mark_o ds ads) ++ O) (cxs (mark_n ds ads) ++ N) acc oc nc
  = from_context_parts f O N (acc ++ map (mkPL Del) ds ++ map (mkPL Add) ads)
      (oc + Z.of_nat (length ds))%Z (nc + Z.of_nat (length ads))%Z.
Proof.
  intros HO HN. rewrite cxs_mark_o, cxs_mark_n. destruct ds as [|d ds'].
  - cbn [length map app Nat.add is_nil]. rewrite fcp_adds; [|left; reflexivity|exact HO].
    replace (oc + Z.of_nat 0)%Z with oc by lia. reflexivity.
  - rewrite fcp_dels.
    + rewrite fcp_adds; [|right; reflexivity|exact HO]. rewrite <- app_assoc. reflexivity.
    + destruct ads as [|a ads']; [left; reflexivity|]. right. split; [reflexivity|].
      cbn [is_nil map app hd_op fst]. discriminate.
Qed.

(* ---------- the merge of both sides ---------- *)
Ltac res3 := apply f_equal; apply f_equal2; [apply f_equal2; [try reflexivity|lia]|lia].
Lemma sp_start_nil : sp_start []. Proof. left; reflexivity. Qed.
Lemma sp_start_sp l r : sp_start ((XSp, l) :: r). Proof. right; reflexivity. Qed.

Lemma merge_W : forall b ds ads f acc oc nc,
  length (fst (W ds ads b)) + length (snd (W ds ads b)) < f ->
  from_context_parts f (cxs (fst (W ds ads b))) (cxs (snd (W ds ads b))) acc oc nc
  = Ok (acc ++ norm ds ads b, (oc + Z.of_nat (length ds) + n_old b)%Z, (nc + Z.of_nat (length ads) + n_new b)%Z).
Proof.
  induction b as [|p r IH]; intros ds ads f acc oc nc Hf.
  - cbn [W fst snd norm] in *. unfold mark_o, mark_n in Hf. rewrite !map_length in Hf.
    replace f with (length ds + (length ads + S (f - length ds - length ads - 1))) by lia.
    rewrite <- (app_nil_r (cxs (mark_o ds ads))), <- (app_nil_r (cxs (mark_n ds ads))).
    rewrite fcp_group by apply sp_start_nil. rewrite fcp_nil. change (n_old []) with 0%Z. change (n_new []) with 0%Z.
    res3.
  - rewrite n_old_cons, n_new_cons. cbn [W norm] in *. destruct (pop p) eqn:Hp.
    + destruct (is_old_ctx p Hp) as (E1 & E2 & _ & _). rewrite E1, E2. cbn [fst snd] in *.
      rewrite !app_length in Hf. unfold mark_o, mark_n in Hf. rewrite !map_length in Hf. cbn [length] in Hf.
      rewrite !cxs_app. change (cxs ((CSp, pl p) :: ?x)) with ((XSp, pl p) :: cxs x).
      replace f with (length ds + (length ads + S (f - length ds - length ads - 1))) by lia.
      rewrite fcp_group by apply sp_start_sp. rewrite fcp_sp_sp. rewrite IH by lia.
      rewrite <- !app_assoc. cbn [app length]. res3.
    + destruct (is_old_add p Hp) as (E1 & E2 & _ & _). rewrite E1, E2. rewrite IH by exact Hf.
      rewrite app_length. cbn [length]. res3.
    + destruct (is_old_del p Hp) as (E1 & E2 & _ & _). rewrite E1, E2. rewrite IH by exact Hf.
      rewrite app_length. cbn [length]. res3.
Qed.

(* only the new side was printed (the body has no deletion) *)
Lemma merge_new_only : forall b ads f acc oc nc,
  has_del b = false -> length (snd (W [] ads b)) < f ->
  from_context_parts f [] (cxs (snd (W [] ads b))) acc oc nc
  = Ok (acc ++ norm [] ads b, (oc + n_old b)%Z, (nc + Z.of_nat (length ads) + n_new b)%Z).
Proof.
  induction b as [|p r IH]; intros ads f acc oc nc Hd Hf.
  - cbn [W fst snd norm map app] in *. unfold mark_n in Hf. rewrite map_length in Hf.
    replace f with (length ads + S (f - length ads - 1)) by lia.
    rewrite cxs_mark_n. cbn [is_nil]. rewrite <- (app_nil_r (map _ ads)).
    rewrite fcp_adds; [|left; reflexivity|apply sp_start_nil]. rewrite fcp_nil.
    change (n_old []) with 0%Z. change (n_new []) with 0%Z. res3.
  - unfold has_del in Hd. cbn [existsb] in Hd. apply orb_false_iff in Hd. destruct Hd as [Hd1 Hd2]. fold (has_del r) in Hd2.
    rewrite n_old_cons, n_new_cons. cbn [W norm] in *. destruct (pop p) eqn:Hp.
    + destruct (is_old_ctx p Hp) as (E1 & E2 & _ & _). rewrite E1, E2. cbn [fst snd map app] in *.
      rewrite !app_length in Hf. unfold mark_n in Hf. rewrite !map_length in Hf. cbn [length] in Hf.
      rewrite !cxs_app. change (cxs ((CSp, pl p) :: ?x)) with ((XSp, pl p) :: cxs x).
      replace f with (length ads + S (f - length ads - 1)) by lia. rewrite cxs_mark_n. cbn [is_nil].
      rewrite fcp_adds; [|left; reflexivity|apply sp_start_nil]. rewrite fcp_sp_new. rewrite IH; [|exact Hd2|lia].
      rewrite <- !app_assoc. cbn [app length]. res3.
    + destruct (is_old_add p Hp) as (E1 & E2 & _ & _). rewrite E1, E2. rewrite IH; [|exact Hd2|exact Hf].
      rewrite app_length. cbn [length]. res3.
    + destruct (is_old_del p Hp) as (_ & _ & E3 & _). congruence.
Qed.

(* only the old side was printed (deletions, no addition) *)
Lemma merge_old_only : forall b ds f acc oc nc,
  has_add b = false -> length (fst (W ds [] b)) < f ->
  from_context_parts f (cxs (fst (W ds [] b))) [] acc oc nc
  = Ok (acc ++ norm ds [] b, (oc + Z.of_nat (length ds) + n_old b)%Z, (nc + n_new b)%Z).
Proof.
  induction b as [|p r IH]; intros ds f acc oc nc Hd Hf.
  - cbn [W fst snd norm map app] in *. unfold mark_o in Hf. rewrite map_length in Hf.
    replace f with (length ds + S (f - length ds - 1)) by lia.
    rewrite cxs_mark_o. cbn [is_nil]. rewrite <- (app_nil_r (map _ ds)) at 1.
    rewrite fcp_dels by (left; reflexivity). rewrite fcp_nil. rewrite app_nil_r.
    change (n_old []) with 0%Z. change (n_new []) with 0%Z. res3.
  - unfold has_add in Hd. cbn [existsb] in Hd. apply orb_false_iff in Hd. destruct Hd as [Hd1 Hd2]. fold (has_add r) in Hd2.
    rewrite n_old_cons, n_new_cons. cbn [W norm] in *. destruct (pop p) eqn:Hp.
    + destruct (is_old_ctx p Hp) as (E1 & E2 & _ & _). rewrite E1, E2. cbn [fst snd map app] in *.
      rewrite !app_length in Hf. unfold mark_o in Hf. rewrite !map_length in Hf. cbn [length] in Hf.
      rewrite !cxs_app. change (cxs ((CSp, pl p) :: ?x)) with ((XSp, pl p) :: cxs x).
      replace f with (length ds + S (f - length ds - 1)) by lia. rewrite cxs_mark_o. cbn [is_nil].
      rewrite fcp_dels by (left; reflexivity). rewrite fcp_sp_old. rewrite IH; [|exact Hd2|lia].
      rewrite <- !app_assoc. cbn [app length]. res3.
    + destruct (is_old_add p Hp) as (_ & _ & _ & E4). congruence.
    + destruct (is_old_del p Hp) as (E1 & E2 & _ & _). rewrite E1, E2. rewrite IH; [|exact Hd2|exact Hf].
      rewrite app_length. cbn [length]. res3.
Qed.

(* no '!' on a side that is printed alone *)
Lemma has_bang_app a b : has_bang (a ++ b) = has_bang a || has_bang b.
Proof. apply existsb_app. Qed.

Lemma no_bang_new : forall b ads, has_del b = false -> has_bang (cxs (snd (W [] ads b))) = false.
Proof.
  assert (M : forall ads, has_bang (cxs (mark_n [] ads)) = false).
  { intros ads. rewrite cxs_mark_n. cbn [is_nil]. induction ads as [|a ads IH]; [reflexivity|exact IH]. }
  induction b as [|p r IH]; intros ads Hd; cbn [W snd].
  - apply M.
  - unfold has_del in Hd. cbn [existsb] in Hd. apply orb_false_iff in Hd. destruct Hd as [Hd1 Hd2]. fold (has_del r) in Hd2.
    destruct (pop p) eqn:Hp.
    + cbn [snd]. rewrite cxs_app, has_bang_app, M. cbn [orb]. change (has_bang (cxs ((CSp, pl p) :: ?x))) with (has_bang (cxs x)).
      apply IH. exact Hd2.
    + apply IH. exact Hd2.
    + destruct (is_old_del p Hp) as (_ & _ & E3 & _). congruence.
Qed.

Lemma no_bang_old : forall b ds, has_add b = false -> has_bang (cxs (fst (W ds [] b))) = false.
Proof.
  assert (M : forall ds, has_bang (cxs (mark_o ds [])) = false).
  { intros ds. rewrite cxs_mark_o. cbn [is_nil]. induction ds as [|a ds IH]; [reflexivity|exact IH]. }
  induction b as [|p r IH]; intros ds Hd; cbn [W fst].
  - apply M.
  - unfold has_add in Hd. cbn [existsb] in Hd. apply orb_false_iff in Hd. destruct Hd as [Hd1 Hd2]. fold (has_add r) in Hd2.
    destruct (pop p) eqn:Hp.
    + cbn [fst]. rewrite cxs_app, has_bang_app, M. cbn [orb]. change (has_bang (cxs ((CSp, pl p) :: ?x))) with (has_bang (cxs x)).
      apply IH. exact Hd2.
    + destruct (is_old_add p Hp) as (_ & _ & _ & E4). congruence.
    + apply IH. exact Hd2.
Qed.

(* the new side never carries a '-' line, the old side never a '+' line *)
Lemma W_new_no_minus : forall b ds ads, Forall (fun x => fst x <> CMinus) (snd (W ds ads b)).
Proof.
  assert (M : forall ds ads, Forall (fun x : cop * line => fst x <> CMinus) (mark_n ds ads)).
  { intros ds ads. unfold mark_n. apply Forall_forall. intros x I. apply in_map_iff in I. destruct I as (l & <- & _).
    cbn [fst]. destruct (is_nil ds); discriminate. }
  induction b as [|p r IH]; intros ds ads; cbn [W].
  - apply M.
  - destruct (pop p); [|apply IH|apply IH]. cbn [snd]. apply Forall_app. split; [apply M|]. constructor; [discriminate|apply IH].
Qed.

(* how many lines a printed side has *)
Lemma has_del_count b : has_del b = true -> (1 <= n_old b)%Z.
Proof.
  induction b as [|p r IH]; [discriminate|]. unfold has_del. cbn [existsb]. fold (has_del r). rewrite n_old_cons.
  pose proof (n_old_nonneg r) as P. intros H. apply orb_true_iff in H. destruct H as [H|H].
  - unfold is_del in H. unfold is_old. destruct (pop p); try discriminate. lia.
  - specialize (IH H). destruct (is_old p); lia.
Qed.
Lemma has_add_count b : has_add b = true -> (1 <= n_new b)%Z.
Proof.
  induction b as [|p r IH]; [discriminate|]. unfold has_add. cbn [existsb]. fold (has_add r). rewrite n_new_cons.
  pose proof (n_new_nonneg r) as P. intros H. apply orb_true_iff in H. destruct H as [H|H].
  - unfold is_add in H. unfold is_new. destruct (pop p); try discriminate. lia.
  - specialize (IH H). destruct (is_new p); lia.
Qed.
Lemma no_del_count b : b <> [] -> has_del b = false -> (1 <= n_new b)%Z.
Proof.
  destruct b as [|p r]; [congruence|]. intros _. unfold has_del. cbn [existsb]. rewrite n_new_cons.
  pose proof (n_new_nonneg r) as P. intros H. apply orb_false_iff in H. destruct H as [H _].
  unfold is_del in H. unfold is_new. destruct (pop p); try discriminate; lia.
Qed.

(* ---------- the merge when the new side was read with other newline classes on its context lines ---------- *)
Lemma fcp_sp_sp' f l l' O N acc oc nc : txt l = txt l' ->
  from_context_parts (S f) ((XSp, l) :: O) ((XSp, l') :: N) acc oc nc
  = from_context_parts f O N (acc ++ [mkPL Ctx l]) (oc + 1)%Z (nc + 1)%Z.
Proof. intros E. cbn [from_context_parts tl]. rewrite E, str_eqb_refl. reflexivity. Qed.

Lemma sp_equiv_const m : m <> XSp -> forall (ads : list line) N',
  sp_equiv (map (fun l => (m, l)) ads) N' -> N' = map (fun l => (m, l)) ads.
Proof.
  intros Hm. induction ads as [|a ads IH]; intros N' H; inversion H as [|x y l1 l2 Hxy Hr]; subst; [reflexivity|].
  cbn [map]. rewrite <- (IH l2 Hr). destruct Hxy as (E1 & E2 & E3). cbn [fst snd] in *.
  destruct y as [o l]. cbn [fst snd] in *. subst o. rewrite <- (E3 Hm). reflexivity.
Qed.

Lemma sp_equiv_marks ds ads N' : sp_equiv (cxs (mark_n ds ads)) N' -> N' = cxs (mark_n ds ads).
Proof.
  rewrite cxs_mark_n. apply sp_equiv_const. destruct (is_nil ds); discriminate.
Qed.

Lemma merge_W' : forall b ds ads N' f acc oc nc,
  sp_equiv (cxs (snd (W ds ads b))) N' ->
  length (fst (W ds ads b)) + length (snd (W ds ads b)) < f ->
  from_context_parts f (cxs (fst (W ds ads b))) N' acc oc nc
  = Ok (acc ++ norm ds ads b, (oc + Z.of_nat (length ds) + n_old b)%Z, (nc + Z.of_nat (length ads) + n_new b)%Z).
Proof.
  induction b as [|p r IH]; intros ds ads N' f acc oc nc Hq Hf.
  - cbn [W snd] in Hq. rewrite (sp_equiv_marks _ _ _ Hq). apply (merge_W [] ds ads). exact Hf.
  - rewrite n_old_cons, n_new_cons. cbn [W norm] in *. destruct (pop p) eqn:Hp.
    + destruct (is_old_ctx p Hp) as (E1 & E2 & _ & _). rewrite E1, E2. cbn [fst snd] in *.
      rewrite cxs_app in Hq. apply Forall2_app_inv_l in Hq. destruct Hq as (M' & R' & HM & HR & ->).
      rewrite (sp_equiv_marks _ _ _ HM). change (cxs ((CSp, pl p) :: ?x)) with ((XSp, pl p) :: cxs x) in HR.
      inversion HR as [|x y l1 R'' Hxy Hrr]; subst. destruct y as [o' l']. destruct Hxy as (F1 & F2 & _). cbn [fst snd] in F1, F2. subst o'.
      rewrite !app_length in Hf. unfold mark_o, mark_n in Hf. rewrite !map_length in Hf. cbn [length] in Hf.
      rewrite !cxs_app. change (cxs ((CSp, pl p) :: ?x)) with ((XSp, pl p) :: cxs x).
      replace f with (length ds + (length ads + S (f - length ds - length ads - 1))) by lia.
      rewrite fcp_group by apply sp_start_sp. rewrite (fcp_sp_sp' _ _ _ _ _ _ _ _ F2). rewrite (IH [] [] R'') by (try exact Hrr; lia).
      rewrite <- !app_assoc. cbn [app length]. res3.
    + destruct (is_old_add p Hp) as (E1 & E2 & _ & _). rewrite E1, E2. rewrite (IH _ _ N') by assumption.
      rewrite app_length. cbn [length]. res3.
    + destruct (is_old_del p Hp) as (E1 & E2 & _ & _). rewrite E1, E2. rewrite (IH _ _ N') by assumption.
      rewrite app_length. cbn [length]. res3.
Qed.

(* ---------- the new side with its context lines tagged ---------- *)
Definition new_tagged (b : list pline) : list (bool * line) :=
  map (fun p => (is_ctx p, pl p)) (filter (fun p => negb (is_del p)) b).

Lemma new_tagged_cons p r : new_tagged (p :: r) = if is_del p then new_tagged r else (is_ctx p, pl p) :: new_tagged r.
Proof. unfold new_tagged. cbn [filter]. destruct (is_del p); reflexivity. Qed.

Lemma new_tagged_lines b : map snd (new_tagged b) = new_side b.
Proof. unfold new_tagged, new_side. rewrite map_map. reflexivity. Qed.

Definition tag_of (x : cop * line) : bool * line := (cop_eqb (fst x) CSp, snd x).

Lemma W_new_tags : forall b ds ads, map tag_of (snd (W ds ads b)) = map (fun l => (false, l)) ads ++ new_tagged b.
Proof.
  assert (M : forall ds ads, map tag_of (mark_n ds ads) = map (fun l => (false, l)) ads).
  { intros ds ads. unfold mark_n. rewrite map_map. unfold tag_of. cbn [fst snd]. destruct (is_nil ds); reflexivity. }
  induction b as [|p r IH]; intros ds ads; cbn [W].
  - cbn [snd]. rewrite M. change (new_tagged []) with (@nil (bool * line)). rewrite app_nil_r. reflexivity.
  - rewrite new_tagged_cons. destruct (pop p) eqn:Hp.
    + destruct (is_old_ctx p Hp) as (_ & _ & E3 & _). rewrite E3. cbn [snd]. rewrite map_app, M. cbn [map]. rewrite (IH [] []).
      unfold tag_of at 1. cbn [fst snd cop_eqb app map]. unfold is_ctx. rewrite Hp. reflexivity.
    + destruct (is_old_add p Hp) as (_ & _ & E3 & _). rewrite E3. rewrite IH, map_app, <- app_assoc. cbn [map app].
      unfold is_ctx. rewrite Hp. reflexivity.
    + destruct (is_old_del p Hp) as (_ & _ & E3 & _). rewrite E3. apply IH.
Qed.

(* the condition on the new side, on the body: a line without newline is the last line of the side; when [relax] (the old
   side is printed too, and the reader takes context lines from there) a context line is free *)
Fixpoint side_ok_ctx (relax : bool) (ls : list (bool * line)) : Prop :=
  match ls with
  | [] => True
  | x :: r => clean (txt (snd x)) /\
              (nl (snd x) = LF \/ (nl (snd x) = NoNL /\ (r = [] \/ (relax = true /\ fst x = true)))) /\
              side_ok_ctx relax r
  end.

Lemma side_ok_ctx_okr : forall ls, side_ok_ctx true (map tag_of ls) -> side_okr ls.
Proof.
  induction ls as [|x r IH]; intros H; [exact I|]. cbn [map side_ok_ctx side_okr] in *. destruct H as (A & B & C).
  unfold tag_of in A, B. cbn [fst snd] in A, B. split; [exact A|]. split; [|apply IH; exact C].
  destruct B as [E|[E [E2|[_ E2]]]]; [left; exact E| |].
  - right. split; [exact E|]. left. destruct r; [reflexivity|discriminate].
  - right. split; [exact E|]. right. destruct (fst x); try discriminate. reflexivity.
Qed.

Lemma side_ok_ctx_strict : forall ls, side_ok_ctx false ls -> side_ok (map snd ls).
Proof.
  induction ls as [|x r IH]; intros H; [exact I|]. cbn [map side_ok_ctx side_ok] in *. destruct H as (A & B & C).
  split; [exact A|]. split; [|apply IH; exact C].
  destruct B as [E|[E [E2|[E2 _]]]]; [left; exact E| |discriminate].
  right. split; [exact E|]. rewrite E2. reflexivity.
Qed.

Lemma side_ok_ctx_of_side_ok relax : forall ls, side_ok (map snd ls) -> side_ok_ctx relax ls.
Proof.
  induction ls as [|x r IH]; intros H; [exact I|]. cbn [map side_ok_ctx side_ok] in *. destruct H as (A & B & C).
  split; [exact A|]. split; [|apply IH; exact C].
  destruct B as [E|[E E2]]; [left; exact E|]. right. split; [exact E|]. left. destruct r; [reflexivity|discriminate].
Qed.

Lemma norm_new_tagged : forall b ds ads,
  new_tagged (norm ds ads b) = map (fun l => (false, l)) ads ++ new_tagged b.
Proof.
  assert (Nd : forall ds, new_tagged (map (mkPL Del) ds) = []).
  { induction ds as [|d ds IH]; [reflexivity|]. cbn [map]. rewrite new_tagged_cons. cbn. exact IH. }
  assert (Na : forall ads, new_tagged (map (mkPL Add) ads) = map (fun l => (false, l)) ads).
  { induction ads as [|d ads IH]; [reflexivity|]. cbn [map]. rewrite new_tagged_cons. cbn. rewrite IH. reflexivity. }
  assert (Napp : forall x y, new_tagged (x ++ y) = new_tagged x ++ new_tagged y).
  { intros x y. unfold new_tagged. rewrite filter_app, map_app. reflexivity. }
  induction b as [|p r IH]; intros ds ads; cbn [norm].
  - rewrite Napp, Nd, Na. change (new_tagged []) with (@nil (bool * line)). rewrite app_nil_r. reflexivity.
  - rewrite (new_tagged_cons p r). destruct (pop p) eqn:Hp.
    + destruct (is_old_ctx p Hp) as (_ & _ & E3 & _). rewrite E3.
      rewrite !Napp, Nd, Na. rewrite new_tagged_cons. cbn [is_del is_ctx pop pl]. rewrite (IH [] []). cbn [map app].
      unfold is_ctx. rewrite Hp. reflexivity.
    + destruct (is_old_add p Hp) as (_ & _ & E3 & _). rewrite E3. rewrite IH, map_app, <- app_assoc. cbn [map app].
      unfold is_ctx. rewrite Hp. reflexivity.
    + destruct (is_old_del p Hp) as (_ & _ & E3 & _). rewrite E3. apply IH.
Qed.
