(* World.v — the file system world the driver runs in, the system operations it performs and their
   POSIX semantics for an unprivileged owner of all files (the correspondence runs execute as `nobody` on
   a tree chown'ed to nobody).  Paths are byte strings relative to one working directory, canonical
   (no "..", no "."), as the code itself assumes in ensure_parent_directories.  Definitions only. *)
From PatchV Require Import Base Lines.

Inductive node :=
| Reg (data : list N) (mode : N)     (* regular file: bytes, permission bits 07777 *)
| Dir (mode : N)
| Sym (target : list N)
| Other (mode : N).                  (* FIFO, socket, device *)

Definition fsmap := list (list N * node).

Fixpoint lookup (m : fsmap) (p : list N) : option node :=
  match m with
  | [] => None
  | (q, n) :: r => if str_eqb q p then Some n else lookup r p
  end.

Fixpoint remove_key (m : fsmap) (p : list N) : fsmap :=
  match m with
  | [] => []
  | (q, n) :: r => if str_eqb q p then remove_key r p else (q, n) :: remove_key r p
  end.

Definition upd (m : fsmap) (p : list N) (n : node) : fsmap := (p, n) :: remove_key m p.

(* everything before the last '/', or None when there is no '/' *)
Fixpoint parent_aux (s : list N) (cur : list N) (best : option (list N)) : option (list N) :=
  match s with
  | [] => best
  | c :: r => if N.eqb c 47 then parent_aux r (cur ++ [c]) (Some cur) else parent_aux r (cur ++ [c]) best
  end.
Definition parent (p : list N) : option (list N) := parent_aux p [] None.

(* system operations that change the tree (recorded in the trace), plus the fallible non-mutating ones *)
Inductive sysop :=
| OChmod (p : list N) (m : N)
| ORename (a b : list N)
| OUnlink (p : list N)
| ORmdir (p : list N)
| OMkdir (p : list N)
| OWrite (p : list N) (data : list N)      (* fopen(p, "w") + all writes + fflush *)
| OSymlink (target p : list N)
| OOpenRead (p : list N).

Definition is_mutating (o : sysop) : bool := match o with OOpenRead _ => false | _ => true end.

Definition op_paths (o : sysop) : list (list N) :=
  match o with
  | OChmod p _ | OUnlink p | ORmdir p | OMkdir p | OWrite p _ | OSymlink _ p | OOpenRead p => [p]
  | ORename a b => [a; b]
  end.

Record world := mkWorld {
  fs : fsmap;
  umask : N;
  trace : list sysop;            (* operations performed so far, oldest first *)
  fault : option nat;            (* Some k: the k-th fallible operation from now fails (0 = the next one) *)
  stdout_data : list N }.        (* what -o - wrote to standard output *)

(* permission bits as seen by the owner *)
Definition owner_r (mode : N) : bool := negb (N.eqb (N.land mode 256) 0).
Definition owner_w (mode : N) : bool := negb (N.eqb (N.land mode 128) 0).
Definition owner_x (mode : N) : bool := negb (N.eqb (N.land mode 64) 0).

(* a path can be reached when every directory on the way exists and is searchable *)
Definition parent_ok (m : fsmap) (p : list N) (need_write : bool) : bool :=
  match parent p with
  | None => true                                   (* directly in the working directory (writable, searchable) *)
  | Some [] => true                                (* "/x": the root; not used by scenarios *)
  | Some d => match lookup m d with
              | Some (Dir mode) => owner_x mode && (negb need_write || owner_w mode)
              | _ => false
              end
  end.

(* a relative link target is relative to the directory the link is in *)
Definition link_target (p t : list N) : list N :=
  match parent p with
  | Some (c :: d) => (c :: d) ++ [47%N] ++ t
  | _ => t
  end.

(* stat(2) following one level of symlink in the same name space *)
Definition stat (m : fsmap) (p : list N) : option node :=
  if negb (parent_ok m p false) then None
  else match lookup m p with
       | Some (Sym t) => (match lookup m (link_target p t) with Some (Sym _) => None | x => x end)
       | x => x
       end.

Definition exists_ (m : fsmap) (p : list N) : bool := match stat m p with Some _ => true | None => false end.
Definition is_regular_file (m : fsmap) (p : list N) : bool := match stat m p with Some (Reg _ _) => true | _ => false end.
Definition perms_unknown : N := 65535.
Definition get_permissions (m : fsmap) (p : list N) : N :=
  match stat m p with
  | Some (Reg _ mode) | Some (Dir mode) | Some (Other mode) => N.land mode 4095
  | _ => perms_unknown
  end.

Definition has_children (m : fsmap) (d : list N) : bool :=
  existsb (fun e => starts_with (fst e) (d ++ [47%N])) m.

Inductive errno := ENOENT | EACCES | EEXIST | ENOTEMPTY | EISDIR | ENOTDIR | EIO | EOTHER.

(* semantic of one operation on the tree: new tree or errno *)
Definition exec_op (m : fsmap) (um : N) (o : sysop) : fsmap + errno :=
  match o with
  | OChmod p mode =>
      if negb (parent_ok m p false) then inr ENOENT
      else match lookup m p with
           | Some (Reg d _) => inl (upd m p (Reg d mode))
           | Some (Dir _) => inl (upd m p (Dir mode))
           | Some (Other _) => inl (upd m p (Other mode))
           | Some (Sym t) => (match lookup m (link_target p t) with
                              | Some (Reg d _) => inl (upd m (link_target p t) (Reg d mode))
                              | _ => inr ENOENT
                              end)
           | None => inr ENOENT
           end
  | ORename a b =>
      if negb (parent_ok m a true && parent_ok m b true) then inr EACCES
      else match lookup m a with
           | None => inr ENOENT
           | Some n =>
               match lookup m b with
               | Some (Dir _) => inr EISDIR
               | _ => inl (upd (remove_key m a) b n)
               end
           end
  | OUnlink p =>
      if negb (parent_ok m p true) then inr EACCES
      else match lookup m p with
           | None => inr ENOENT
           | Some (Dir _) => if has_children m p then inr ENOTEMPTY else inl (remove_key m p)   (* remove(3) = rmdir for directories *)
           | Some _ => inl (remove_key m p)
           end
  | ORmdir p =>
      if negb (parent_ok m p true) then inr EACCES
      else match lookup m p with
           | Some (Dir _) => if has_children m p then inr ENOTEMPTY else inl (remove_key m p)
           | Some _ => inr ENOTDIR
           | None => inr ENOENT
           end
  | OMkdir p =>
      match lookup m p with
      | Some _ => inr EEXIST
      | None => if parent_ok m p true then inl (upd m p (Dir (N.land 511 (N.lxor 4095 (N.land um 4095))))) else inr EACCES
      end
  | OWrite p data =>
      match lookup m p with
      | Some (Reg _ mode) => if parent_ok m p false && owner_w mode then inl (upd m p (Reg data mode)) else inr EACCES
      | Some (Dir _) => inr EISDIR
      | Some (Sym t) => (match lookup m (link_target p t) with
                         | Some (Reg _ mode) => if owner_w mode then inl (upd m (link_target p t) (Reg data mode)) else inr EACCES
                         | None => inl (upd m (link_target p t) (Reg data (N.land 438 (N.lxor 4095 (N.land um 4095)))))
                         | _ => inr EACCES
                         end)
      | Some (Other _) => inr EOTHER
      | None => if parent_ok m p true then inl (upd m p (Reg data (N.land 438 (N.lxor 4095 (N.land um 4095))))) else inr EACCES
      end
  | OSymlink t p =>
      match lookup m p with
      | Some _ => inr EEXIST
      | None => if parent_ok m p true then inl (upd m p (Sym t)) else inr EACCES
      end
  | OOpenRead p =>
      match stat m p with
      | Some (Reg _ mode) => if owner_r mode then inl m else inr EACCES
      | Some (Dir _) => inl m            (* fopen(dir, "r") succeeds; reading it fails: handled by the caller *)
      | Some _ => inr EOTHER
      | None => inr ENOENT
      end
  end.
