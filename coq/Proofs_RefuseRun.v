(* Proofs_RefuseRun.v — C17 at the level of the run: a refusal (read-only target under --read-only=fail; target that is
   not a regular file) leaves the target untouched: the only operation is the creation of the reject file, exit status 1. *)
From PatchV Require Import Base Lines Hunk Locator Formatter Options Applier LineParser Parser World Driver
     Spec_Locate Spec_Apply Proofs_Base Proofs_Locate Proofs_Apply Proofs_Conf Proofs_World Proofs_Crash Proofs_Lines
     Proofs_EndToEnd Proofs_Reverse Proofs_Reapply Proofs_Rejects Proofs_Touch Proofs_Progress Proofs_DriverMore
     Spec_Names Proofs_Names Proofs_Fuel Proofs_Unified Proofs_Filler Proofs_Sections Proofs_Sections_Unified Proofs_Whole
     Proofs_DriverBatch.

(* the options of the statements: the file is chosen from the patch (no operand), no -o, no -r, no --dry-run.  Nothing
   else matters to a refusal (-b, -R, -N, -f, fuzz ...: the hunks are never applied) *)
Definition refusing_options (o : options) : Prop :=
  file_to_patch o = [] /\ out_file_path o = [] /\ reject_file_path o = [] /\ dry_run o = false.

(* ---------- the reject file of a refusal: the header, then every hunk as it stands in the patch ---------- *)
Lemma reject_all_later o p : should_write_as_unified o p = true ->
  forall hs n, reject_all o p hs (S n) = Ok (flat_map write_hunk_as_unified hs).
Proof.
  intros Hu. induction hs as [|h r IH]; intros n; cbn [reject_all flat_map]; [reflexivity|].
  unfold write_reject. rewrite Hu. cbn [Nat.eqb rbind app]. rewrite IH. cbn [rbind]. reflexivity.
Qed.

Lemma reject_all_unified o p h hs : should_write_as_unified o p = true ->
  reject_all o p (h :: hs) 0 = Ok (write_patch_header_as_unified p ++ emit_hunks (h :: hs)).
Proof.
  intros Hu. cbn [reject_all]. unfold write_reject. rewrite Hu. cbn [Nat.eqb rbind].
  rewrite (reject_all_later o p Hu hs 0). cbn [rbind]. unfold emit_hunks. cbn [flat_map]. rewrite <- app_assoc. reflexivity.
Qed.

(* the state a refusal leaves: "n out of n hunks ignored", failure *)
Definition refused_state (st : dstate) (n : nat) : dstate :=
  set_failure (add_event st (inform_hunks_failed (bs "ignored") n n ++ [10%N])).

(* refuse_to_patch where no reject file is in the way *)
Lemma refuse_run o st f p h hs w :
  dry_run o = false -> reject_file_path o = [] -> should_write_as_unified o p = true -> hunks p = h :: hs ->
  fault w = None -> f <> [] -> ~ In 47%N f -> lookup (fs w) (f ++ bs ".rej") = None ->
  let rej := write_patch_header_as_unified p ++ emit_hunks (h :: hs) in
  refuse_to_patch o st f p w =
  (Ok (refused_state st (S (length hs))),
   wstep w (upd (fs w) (f ++ bs ".rej") (Reg rej (created_mode (umask w)))) (OWrite (f ++ bs ".rej") rej)).
Proof.
  intros Hd Hr Hu Hh Fw Hn Hs Lr. cbv zeta. unfold refuse_to_patch. rewrite Hd, Hh.
  rewrite mbind_eq. unfold mlift. rewrite (reject_all_unified o p h hs Hu).
  assert (Rp : reject_path o f = f ++ bs ".rej") by (unfold reject_path; rewrite Hr; reflexivity).
  rewrite Rp, mbind_eq.
  rewrite (chk_write_absent (f ++ bs ".rej") _ w Fw (noslash_app _ _ Hs noslash_rej) Lr). cbn [mret length]. reflexivity.
Qed.

(* ---------- the section ---------- *)
(* the two refusals of process_section, from what stat says of the file chosen *)
Definition refused_node (o : options) (n : node) : Prop :=
  match n with
  | Reg _ mode => N.land mode write_mask = 0%N /\ read_only o = ROFail
  | Dir _ => True
  | Other _ => True
  | Sym _ => False
  end.

Lemma land_perm_mask mode : N.land (N.land mode 4095) write_mask = N.land mode write_mask.
Proof. rewrite <- N.land_assoc. reflexivity. Qed.

Lemma section_refused_gen o p f h hs st s w n :
  refusing_options o -> should_write_as_unified o p = true ->
  (poper p = OpChange \/ poper p = OpAdd \/ poper p = OpDelete) ->
  old_path p = f -> f <> Driver.devnull -> f <> [] -> ~ In 47%N f ->
  hunks p = h :: hs ->
  fault w = None -> deferred_writes st = [] ->
  lookup (fs w) f = Some n -> refused_node o n ->
  lookup (fs w) (f ++ bs ".rej") = None ->
  let rej := write_patch_header_as_unified p ++ emit_hunks (h :: hs) in
  process_section o st false p s w =
  (Ok (refused_state st (S (length hs)), s),
   wstep w (upd (fs w) (f ++ bs ".rej") (Reg rej (created_mode (umask w)))) (OWrite (f ++ bs ".rej") rej)).
Proof.
  intros (O1 & O2 & O3 & O4) Hu Pop Po Hd Hn Hs Hh Fw Dw Lf Rn Lr. cbv zeta.
  assert (St : stat (fs w) f = Some n).
  { rewrite (stat_noslash _ f Hs), Lf. destruct n; try reflexivity. destruct Rn. }
  assert (Ex : exists_ (fs w) f = true) by (unfold exists_; rewrite St; reflexivity).
  assert (G : guess_filepath (fs w) (map d_dest (deferred_writes st)) p o = f).
  { unfold guess_filepath. rewrite Po. apply str_eqb_neq in Hd. rewrite Hd. cbn [negb andb]. rewrite Ex. reflexivity. }
  assert (Out : output_path o p f = f) by (unfold output_path; rewrite O2; destruct Pop as [E|[E|E]]; rewrite E; reflexivity).
  unfold process_section. rewrite mbind_eq. cbn [get_fs]. rewrite O1. cbn [is_nil]. rewrite G.
  assert (Nn : is_nil f = false) by (destruct f; [congruence|reflexivity]). rewrite Nn.
  rewrite Ex, Out.
  assert (Fin : (let! ps := body_if false p s in let! st' := refuse_to_patch o st f (fst ps) in mret (st', snd ps)) w =
          (Ok (refused_state st (S (length hs)), s),
           wstep w (upd (fs w) (f ++ bs ".rej") (Reg (write_patch_header_as_unified p ++ emit_hunks (h :: hs)) (created_mode (umask w))))
                 (OWrite (f ++ bs ".rej") (write_patch_header_as_unified p ++ emit_hunks (h :: hs))))).
  { unfold body_if. rewrite mbind_eq. cbn [mret fst snd]. rewrite mbind_eq.
    rewrite (refuse_run o st f p h hs w O4 O3 Hu Hh Fw Hn Hs Lr). reflexivity. }
  destruct n as [data mode|mode|t|mode].
  - assert (Rg : is_regular_file (fs w) f = true) by (unfold is_regular_file; rewrite St; reflexivity).
    rewrite Rg. cbn [negb andb].
    assert (EP : effective_perms st (fs w) f = N.land mode 4095).
    { unfold effective_perms. rewrite Dw. cbn [rev find]. unfold get_permissions. rewrite St. reflexivity. }
    rewrite EP, land_perm_mask. destruct Rn as [Rw Ro]. rewrite Rw, Ro. cbn [N.eqb andb]. exact Fin.
  - assert (Rg : is_regular_file (fs w) f = false) by (unfold is_regular_file; rewrite St; reflexivity).
    rewrite Rg. cbn [negb andb]. exact Fin.
  - destruct Rn.
  - assert (Rg : is_regular_file (fs w) f = false) by (unfold is_regular_file; rewrite St; reflexivity).
    rewrite Rg. cbn [negb andb]. exact Fin.
Qed.

(* ---------- the run ---------- *)
(* the report of a refused patch with n hunks *)
Definition refused_report (n : nat) : list N := inform_hunks_failed (bs "ignored") n n ++ [10%N].

(* the world after the refusal: one more file, one more operation *)
Definition refused_world (w : world) (fname rej : list N) : world :=
  mkWorld (upd (fs w) (fname ++ bs ".rej") (Reg rej (created_mode (umask w)))) (umask w)
          (trace w ++ [OWrite (fname ++ bs ".rej") rej]) None (stdout_data w).

(* process_patch on the text of a unified patch for one file that is refused (either refusal): exit status 1, the report is
   "n out of n hunks ignored", the one operation is the creation of f.rej with the header and all hunks *)
Theorem process_patch_refused o f0 fl oldname t1 newname t2 h1 hs tail fname w n :
  refusing_options o -> reject_format_opt o <> RFContext ->
  format_from_options o = Ok f0 -> f0 = FUnknown \/ f0 = FUnified ->
  Forall (Filler (strip_size o) (empty_patch f0)) fl -> Forall clean fl ->
  plain_name oldname -> plain_name newname -> clean (oldname ++ tab_time t1) -> clean (newname ++ tab_time t2) ->
  stripped oldname (strip_size o) = fname -> stripped newname (strip_size o) = fname ->
  fname <> [] /\ ~ In 47%N fname ->
  Forall wf_hunk (h1 :: hs) ->
  tail_ok tail -> ends_here o f0 (after tail) = true ->
  fault w = None -> lookup (fs w) fname = Some n -> refused_node o n ->
  lookup (fs w) (fname ++ bs ".rej") = None ->
  process_patch o (unified_text fl oldname t1 newname t2 (h1 :: hs) tail) w =
  (Ok (1, refused_report (S (length hs))), refused_world w fname (unified_rejects fname t1 t2 (h1 :: hs))).
Proof.
  intros Op Rf Hfo Hf0 HF HCl Ho Hn Hoc Hnc Hof Hnf (F1 & F2) Hwf Ht He Fw Lf Rn Lr.
  pose proof (leads_fillers _ _ _ HF) as Hl. pose proof (p0_empty_both f0 Hf0) as Hp0.
  destruct (run_record_fields (empty_patch f0) t1 t2 h1 hs fname Hp0) as (R1 & R2 & R3 & R4 & R5 & R6 & R7 & R8).
  set (P := run_patch_record (empty_patch f0) t1 t2 h1 hs fname) in *.
  assert (Hu : should_write_as_unified o P = true).
  { unfold should_write_as_unified. rewrite R1. destruct (reject_format_opt o); try reflexivity. congruence. }
  pose proof (noslash_not_devnull _ F2) as Hd.
  pose proof (section_refused_gen o P fname h1 hs ds0 (after tail) w n Op Hu R2 R4 Hd F1 F2 R8 Fw eq_refl Lf Rn Lr) as E.
  cbv zeta in E.
  assert (Rj : write_patch_header_as_unified P ++ emit_hunks (h1 :: hs) = unified_rejects fname t1 t2 (h1 :: hs)).
  { unfold unified_rejects, write_patch_header_as_unified. rewrite R4, R5. rewrite <- app_assoc. reflexivity. }
  rewrite Rj in E.
  unfold unified_text.
  rewrite (run_of_section o f0 fl (empty_patch f0) oldname newname t1 t2 h1 hs tail fname Hfo Hl HCl Hp0 Ho Hn Hoc Hnc Hof Hnf Hwf Ht He _ w _ E);
    reflexivity.
Qed.

(* what the refused world holds *)
Lemma refused_world_facts w fname rej :
  lookup (fs (refused_world w fname rej)) fname = lookup (fs w) fname /\
  lookup (fs (refused_world w fname rej)) (fname ++ bs ".rej") = Some (Reg rej (created_mode (umask w))) /\
  (forall q, q <> fname ++ bs ".rej" -> lookup (fs (refused_world w fname rej)) q = lookup (fs w) q) /\
  trace (refused_world w fname rej) = trace w ++ [OWrite (fname ++ bs ".rej") rej] /\
  fault (refused_world w fname rej) = None /\ umask (refused_world w fname rej) = umask w /\
  stdout_data (refused_world w fname rej) = stdout_data w.
Proof.
  unfold refused_world. cbn [fs trace fault umask stdout_data].
  destruct (upd_lookup (fs w) (fname ++ bs ".rej") (Reg rej (created_mode (umask w)))) as [L1 L2].
  split; [apply L2; apply rej_name_longer|]. split; [exact L1|]. split; [exact L2|]. repeat split; reflexivity.
Qed.

(* a file without any write permission bit has no owner write permission; the converse does not hold: the program looks at
   the three write bits (0222), so a file that only its group or others may write is NOT refused under --read-only=fail *)
Lemma no_write_bits_owner mode : N.land mode write_mask = 0%N -> owner_w mode = false.
Proof.
  intros H. unfold owner_w. assert (E : N.land mode 128 = 0%N).
  { change 128%N with (N.land write_mask 128). rewrite N.land_assoc, H. reflexivity. }
  rewrite E. reflexivity.
Qed.

(* C17, --read-only=fail: the target is a regular file without write permission *)
Theorem read_only_refused_run o f0 fl oldname t1 newname t2 h1 hs tail fname w data mode :
  refusing_options o -> read_only o = ROFail -> reject_format_opt o <> RFContext ->
  format_from_options o = Ok f0 -> f0 = FUnknown \/ f0 = FUnified ->
  Forall (Filler (strip_size o) (empty_patch f0)) fl -> Forall clean fl ->
  plain_name oldname -> plain_name newname -> clean (oldname ++ tab_time t1) -> clean (newname ++ tab_time t2) ->
  stripped oldname (strip_size o) = fname -> stripped newname (strip_size o) = fname ->
  fname <> [] /\ ~ In 47%N fname ->
  Forall wf_hunk (h1 :: hs) ->
  tail_ok tail -> ends_here o f0 (after tail) = true ->
  fault w = None -> lookup (fs w) fname = Some (Reg data mode) -> N.land mode write_mask = 0%N ->
  lookup (fs w) (fname ++ bs ".rej") = None ->
  let rej := unified_rejects fname t1 t2 (h1 :: hs) in
  exists w',
    process_patch o (unified_text fl oldname t1 newname t2 (h1 :: hs) tail) w = (Ok (1, refused_report (S (length hs))), w') /\
    lookup (fs w') fname = Some (Reg data mode) /\
    lookup (fs w') (fname ++ bs ".rej") = Some (Reg rej (created_mode (umask w))) /\
    (forall q, q <> fname ++ bs ".rej" -> lookup (fs w') q = lookup (fs w) q) /\
    trace w' = trace w ++ [OWrite (fname ++ bs ".rej") rej] /\
    fault w' = None /\ umask w' = umask w /\ stdout_data w' = stdout_data w.
Proof.
  intros Op Ro Rf Hfo Hf0 HF HCl Ho Hn Hoc Hnc Hof Hnf Hfn Hwf Ht He Fw Lf Hw Lr. cbv zeta.
  exists (refused_world w fname (unified_rejects fname t1 t2 (h1 :: hs))).
  split.
  - apply (process_patch_refused o f0 fl oldname t1 newname t2 h1 hs tail fname w (Reg data mode)); try assumption.
    cbn [refused_node]. split; assumption.
  - destruct (refused_world_facts w fname (unified_rejects fname t1 t2 (h1 :: hs))) as (A & B). rewrite A. split; [exact Lf|exact B].
Qed.

(* C17, the target is not a regular file (a directory, a device ...): refused whatever --read-only says; the model does not
   throw: exit status 1 *)
Theorem not_regular_refused_run o f0 fl oldname t1 newname t2 h1 hs tail fname w n :
  refusing_options o -> reject_format_opt o <> RFContext ->
  format_from_options o = Ok f0 -> f0 = FUnknown \/ f0 = FUnified ->
  Forall (Filler (strip_size o) (empty_patch f0)) fl -> Forall clean fl ->
  plain_name oldname -> plain_name newname -> clean (oldname ++ tab_time t1) -> clean (newname ++ tab_time t2) ->
  stripped oldname (strip_size o) = fname -> stripped newname (strip_size o) = fname ->
  fname <> [] /\ ~ In 47%N fname ->
  Forall wf_hunk (h1 :: hs) ->
  tail_ok tail -> ends_here o f0 (after tail) = true ->
  fault w = None -> lookup (fs w) fname = Some n -> (exists m, n = Dir m \/ n = Other m) ->
  lookup (fs w) (fname ++ bs ".rej") = None ->
  let rej := unified_rejects fname t1 t2 (h1 :: hs) in
  exists w',
    process_patch o (unified_text fl oldname t1 newname t2 (h1 :: hs) tail) w = (Ok (1, refused_report (S (length hs))), w') /\
    lookup (fs w') fname = Some n /\
    lookup (fs w') (fname ++ bs ".rej") = Some (Reg rej (created_mode (umask w))) /\
    (forall q, q <> fname ++ bs ".rej" -> lookup (fs w') q = lookup (fs w) q) /\
    trace w' = trace w ++ [OWrite (fname ++ bs ".rej") rej] /\
    fault w' = None /\ umask w' = umask w /\ stdout_data w' = stdout_data w.
Proof.
  intros Op Rf Hfo Hf0 HF HCl Ho Hn Hoc Hnc Hof Hnf Hfn Hwf Ht He Fw Lf (m & Hm) Lr. cbv zeta.
  exists (refused_world w fname (unified_rejects fname t1 t2 (h1 :: hs))).
  split.
  - apply (process_patch_refused o f0 fl oldname t1 newname t2 h1 hs tail fname w n); try assumption.
    destruct Hm as [-> | ->]; exact I.
  - destruct (refused_world_facts w fname (unified_rejects fname t1 t2 (h1 :: hs))) as (A & B). rewrite A. split; [exact Lf|exact B].
Qed.

(* ---------- the whole program ---------- *)
(* patch on standard input *)
Theorem run_patch_refused o f0 fl oldname t1 newname t2 h1 hs tail fname w n :
  (patch_file_path o = [] \/ patch_file_path o = bs "-") ->
  refusing_options o -> reject_format_opt o <> RFContext ->
  format_from_options o = Ok f0 -> f0 = FUnknown \/ f0 = FUnified ->
  Forall (Filler (strip_size o) (empty_patch f0)) fl -> Forall clean fl ->
  plain_name oldname -> plain_name newname -> clean (oldname ++ tab_time t1) -> clean (newname ++ tab_time t2) ->
  stripped oldname (strip_size o) = fname -> stripped newname (strip_size o) = fname ->
  fname <> [] /\ ~ In 47%N fname ->
  Forall wf_hunk (h1 :: hs) ->
  tail_ok tail -> ends_here o f0 (after tail) = true ->
  fault w = None -> lookup (fs w) fname = Some n -> refused_node o n ->
  lookup (fs w) (fname ++ bs ".rej") = None ->
  run_patch o (unified_text fl oldname t1 newname t2 (h1 :: hs) tail) w =
  mkRR 1 (refused_report (S (length hs))) (refused_world w fname (unified_rejects fname t1 t2 (h1 :: hs))).
Proof.
  intros Hin. intros. apply run_patch_stdin; [exact Hin|].
  apply (process_patch_refused o f0 fl oldname t1 newname t2 h1 hs tail fname w n); assumption.
Qed.

(* patch in a readable file of the working directory named with -i *)
Theorem run_patch_file_refused o f0 fl oldname t1 newname t2 h1 hs tail fname w n pf pm stdin :
  patch_file_path o = pf -> pf <> [] -> pf <> bs "-" -> ~ In 47%N pf ->
  lookup (fs w) pf = Some (Reg (unified_text fl oldname t1 newname t2 (h1 :: hs) tail) pm) -> owner_r pm = true ->
  refusing_options o -> reject_format_opt o <> RFContext ->
  format_from_options o = Ok f0 -> f0 = FUnknown \/ f0 = FUnified ->
  Forall (Filler (strip_size o) (empty_patch f0)) fl -> Forall clean fl ->
  plain_name oldname -> plain_name newname -> clean (oldname ++ tab_time t1) -> clean (newname ++ tab_time t2) ->
  stripped oldname (strip_size o) = fname -> stripped newname (strip_size o) = fname ->
  fname <> [] /\ ~ In 47%N fname ->
  Forall wf_hunk (h1 :: hs) ->
  tail_ok tail -> ends_here o f0 (after tail) = true ->
  fault w = None -> lookup (fs w) fname = Some n -> refused_node o n ->
  lookup (fs w) (fname ++ bs ".rej") = None ->
  let rej := unified_rejects fname t1 t2 (h1 :: hs) in
  run_patch o stdin w =
  mkRR 1 (refused_report (S (length hs)))
       (mkWorld (upd (fs w) (fname ++ bs ".rej") (Reg rej (created_mode (umask w)))) (umask w)
                (trace w ++ [OOpenRead pf; OWrite (fname ++ bs ".rej") rej]) None (stdout_data w)).
Proof.
  intros Hp Hn Hd Hs Lp Hrp. intros. cbv zeta.
  set (w0 := mkWorld (fs w) (umask w) (trace w ++ [OOpenRead pf]) None (stdout_data w)).
  eapply (run_patch_file o stdin w pf); try eassumption.
  fold w0.
  rewrite (process_patch_refused o f0 fl oldname t1 newname t2 h1 hs tail fname w0 n); try assumption; try reflexivity.
  unfold refused_world, w0. cbn [fs umask trace stdout_data]. rewrite <- app_assoc. reflexivity.
Qed.
