(* Proofs_Decimal.v — printing a line number and reading it back (used by C13). *)
From PatchV Require Import Base Lines Hunk LineParser Proofs_Base.
Local Open Scope N_scope.

Fixpoint readv (fuel : nat) (v n : N) : N :=
  match fuel with
  | O => v
  | S f => if N.ltb n 10 then v * 10 + n else readv f v (n / 10) * 10 + n mod 10
  end.

Lemma is_digit_of d : d < 10 -> is_digit (digit_of d) = true /\ digit_val (digit_of d) = d.
Proof.
  intros H. unfold is_digit, digit_of, digit_val. split.
  - apply andb_true_intro. split; apply N.leb_le; lia.
  - lia.
Qed.

Lemma MAXLN_val : MAXLN = 9223372036854775807. Proof. reflexivity. Qed.

Lemma s2n_step d r v : d < 10 -> v * 10 + d <= MAXLN ->
  s2n_out (digit_of d :: r) v = s2n_out r (v * 10 + d).
Proof.
  intros Hd Hv. cbn [s2n_out]. destruct (is_digit_of d Hd) as [D1 D2]. rewrite D1, D2. cbn [negb].
  assert (G1 : N.ltb (MAXLN / 10) v = false).
  { apply N.ltb_ge. apply N.div_le_lower_bound; lia. }
  rewrite G1. assert (G2 : N.ltb (MAXLN - d) (v * 10) = false) by (apply N.ltb_ge; lia). rewrite G2. reflexivity.
Qed.

Lemma s2n_print_loop : forall fuel n acc v,
  n < 10 ^ N.of_nat fuel -> readv fuel v n <= MAXLN ->
  s2n_out (print_loop fuel n acc) v = s2n_out acc (readv fuel v n).
Proof.
  induction fuel as [|f IH]; intros n acc v Hn Hr; [reflexivity|].
  cbn [print_loop readv] in *. destruct (N.ltb_spec n 10) as [L|L].
  - rewrite (N.mod_small n 10 L). rewrite s2n_step; [reflexivity|exact L|exact Hr].
  - assert (Hm : n mod 10 < 10) by (apply N.mod_lt; lia).
    rewrite IH.
    + rewrite s2n_step; [reflexivity|exact Hm|exact Hr].
    + rewrite Nat2N.inj_succ, N.pow_succ_r' in Hn. apply N.div_lt_upper_bound; lia.
    + revert Hr. generalize (readv f v (n / 10)) (n mod 10). intros x y Hxy. lia.
Qed.

Lemma readv_zero : forall fuel n, n < 10 ^ N.of_nat fuel -> (0 < N.of_nat fuel) -> readv fuel 0 n = n.
Proof.
  induction fuel as [|f IH]; intros n Hn Hf; [lia|]. cbn [readv]. destruct (N.ltb_spec n 10) as [L|L]; [lia|].
  rewrite Nat2N.inj_succ, N.pow_succ_r' in Hn.
  assert (Hd : n / 10 < 10 ^ N.of_nat f) by (apply N.div_lt_upper_bound; lia).
  destruct f as [|f'].
  - cbn in Hn. lia.
  - rewrite IH; [|exact Hd|lia]. pose proof (N.div_mod n 10 ltac:(lia)). lia.
Qed.

Lemma pow_fuel n : n < 10 ^ N.of_nat (S (N.to_nat (N.log2 n))).
Proof.
  rewrite Nat2N.inj_succ, N2Nat.id.
  destruct (N.eq_dec n 0) as [->|Hn]; [cbn; lia|].
  destruct (N.log2_spec n ltac:(lia)) as [_ H]. eapply N.lt_le_trans; [exact H|].
  apply N.pow_le_mono_l. lia.
Qed.

(* reading back what was printed *)
Theorem s2n_print_N n : n <= MAXLN -> s2n_out (print_N n) 0 = (true, n).
Proof.
  intros H. unfold print_N. rewrite s2n_print_loop.
  - rewrite readv_zero; [reflexivity|apply pow_fuel|lia].
  - apply pow_fuel.
  - rewrite readv_zero; [exact H|apply pow_fuel|lia].
Qed.

Lemma print_loop_digits : forall fuel n acc,
  Forall (fun c => is_digit c = true) acc -> Forall (fun c => is_digit c = true) (print_loop fuel n acc).
Proof.
  induction fuel as [|f IH]; intros n acc H; [exact H|]. cbn [print_loop].
  assert (D : is_digit (digit_of (n mod 10)) = true) by (apply is_digit_of; apply N.mod_lt; lia).
  destruct (N.ltb n 10); [constructor; assumption|]. apply IH. constructor; assumption.
Qed.

Lemma print_loop_nonempty : forall fuel n acc, print_loop (S fuel) n acc <> [].
Proof.
  intros fuel. induction fuel as [|f IH]; intros n acc; cbn [print_loop].
  - destruct (N.ltb n 10); discriminate.
  - destruct (N.ltb n 10); [discriminate|]. apply IH.
Qed.

Lemma print_N_digits n : Forall (fun c => is_digit c = true) (print_N n) /\ print_N n <> [].
Proof. unfold print_N. split; [apply print_loop_digits; constructor|apply print_loop_nonempty]. Qed.

Lemma span_digits_app : forall ds rest,
  Forall (fun c => is_digit c = true) ds -> (match rest with c :: _ => is_digit c = false | [] => True end) ->
  span_digits (ds ++ rest) = (ds, rest).
Proof.
  induction ds as [|d ds IH]; intros rest H R; cbn [app].
  - destruct rest as [|c r]; [reflexivity|]. cbn [span_digits]. rewrite R. reflexivity.
  - inversion H; subst. cbn [span_digits]. match goal with X : is_digit d = true |- _ => rewrite X end.
    rewrite IH by assumption. reflexivity.
Qed.

Definition not_digit_start (rest : list N) : Prop := match rest with c :: _ => is_digit c = false | [] => True end.

(* consume_line_number on a printed number followed by something that is not a digit *)
Theorem consume_printed n rest :
  n <= MAXLN -> not_digit_start rest ->
  consume_line_number (print_N n ++ rest) = Some (true, Z.of_N n, rest).
Proof.
  intros Hn Hr. unfold consume_line_number. destruct (print_N_digits n) as [D NE].
  rewrite span_digits_app by assumption. destruct (print_N n) as [|c r] eqn:E; [contradiction|].
  rewrite <- E, s2n_print_N by exact Hn. reflexivity.
Qed.
