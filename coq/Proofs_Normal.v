(* Proofs_Normal.v — C01/C13 for the NORMAL diff format: a list of change groups written as a normal diff
   (Spec_Normal.emit_normal) is read back by Parser.parse_normal_patch as exactly these hunks. *)
From PatchV Require Import Base Lines Hunk Formatter LineParser Parser Proofs_Base Proofs_Decimal Proofs_Lines
     Proofs_Unified Spec_Normal.

(* ---------- the command line ---------- *)
(* a range that can be printed as a span: start, count and LAST line within 0..2^63-1 *)
Definition wf_range_n (r : range) : Prop :=
  (0 <= rstart r <= MAXZ)%Z /\ (0 <= rcount r <= MAXZ)%Z /\ (rstart r + rcount r - 1 <= MAXZ)%Z.

(* the general shape of a command line: os[,oe] cmd ns[,ne] *)
Definition cmd_line (os : Z) (c1 : bool) (oe : Z) (cmd : N) (ns : Z) (c2 : bool) (ne : Z) : list N :=
  print_Z os ++ (if c1 then 44%N :: print_Z oe else []) ++ cmd :: print_Z ns ++ (if c2 then 44%N :: print_Z ne else []).

Definition in63 (z : Z) : Prop := (0 <= z <= MAXZ)%Z.

Lemma nds_nil : not_digit_start []. Proof. exact I. Qed.
Lemma nds_cons c r : is_digit c = false -> not_digit_start (c :: r). Proof. intros H; exact H. Qed.

Lemma parse_cmd_line h0 os c1 oe cmd ns c2 ne :
  in63 os -> in63 oe -> in63 ns -> in63 ne ->
  (cmd = 97 \/ cmd = 99 \/ cmd = 100)%N ->
  (c1 && negb (N.eqb cmd 99) && c2 = false) ->
  parse_normal_range h0 (cmd_line os c1 oe cmd ns c2 ne) =
  (true, mkHunk (mkRange os (Z.max (if negb c1 && N.eqb cmd 97 then 0%Z else sadd ((if c1 then oe else os) - os) 1) 0))
                (mkRange ns (Z.max (let nc0 := sadd ((if c2 then ne else ns) - ns) 1 in if N.eqb cmd 100 then (nc0 - 1)%Z else nc0) 0))
                (body h0)).
Proof.
  intros Hos Hoe Hns Hne Hcmd Hex. unfold parse_normal_range, cmd_line.
  assert (Dc : is_digit cmd = false) by (destruct Hcmd as [->|[->| ->]]; reflexivity).
  assert (Kc : N.eqb cmd 44 = false) by (destruct Hcmd as [->|[->| ->]]; reflexivity).
  assert (Cc : negb (N.eqb cmd 99 || N.eqb cmd 97 || N.eqb cmd 100) = false) by (destruct Hcmd as [->|[->| ->]]; reflexivity).
  destruct c1.
  - (* os,oe *)
    rewrite consume_printed_Z; [|exact Hos|apply nds_cons; reflexivity]. cbn [negb app consume_char].
    change (N.eqb 44 44) with true. cbv iota.
    rewrite consume_printed_Z; [|exact Hoe|apply nds_cons; exact Dc]. cbv iota. rewrite Cc. cbv iota.
    destruct c2.
    + rewrite consume_printed_Z; [|exact Hns|apply nds_cons; reflexivity]. cbn [negb consume_char].
      change (N.eqb 44 44) with true. cbv iota.
      cbn [andb negb] in Hex. rewrite andb_true_r in Hex. cbn [andb]. rewrite Hex.
      rewrite <- (app_nil_r (print_Z ne)).
      rewrite consume_printed_Z; [|exact Hne|apply nds_nil]. reflexivity.
    + rewrite app_nil_r. rewrite <- (app_nil_r (print_Z ns)).
      rewrite consume_printed_Z; [|exact Hns|apply nds_nil]. reflexivity.
  - cbn [app].
    rewrite consume_printed_Z; [|exact Hos|apply nds_cons; exact Dc]. cbn [negb consume_char]. rewrite Kc. cbv iota.
    rewrite Cc. cbv iota.
    destruct c2.
    + rewrite consume_printed_Z; [|exact Hns|apply nds_cons; reflexivity]. cbn [negb consume_char].
      change (N.eqb 44 44) with true. cbv iota. cbn [andb].
      rewrite <- (app_nil_r (print_Z ne)).
      rewrite consume_printed_Z; [|exact Hne|apply nds_nil]. reflexivity.
    + rewrite app_nil_r. rewrite <- (app_nil_r (print_Z ns)).
      rewrite consume_printed_Z; [|exact Hns|apply nds_nil]. reflexivity.
Qed.

(* ---------- well-formed change groups ---------- *)
(* the lines of one side: texts without line feed and without trailing carriage return, every line but the last
   terminated by a line feed, the last one terminated by a line feed or not at all *)
Fixpoint side_ok (ls : list line) : Prop :=
  match ls with
  | [] => True
  | l :: r => clean (txt l) /\ (match r with [] => nl l <> CRLF | _ => nl l = LF end) /\ side_ok r
  end.

(* One change group without context: a non-empty body that is its deletions followed by its additions (hence no
   context line), both sides readable, both ranges printable, the counts equal to the numbers of lines. *)
Definition wf_hunk_n (h : hunk) : Prop :=
  body h <> [] /\
  body h = map (mkPL Del) (old_side (body h)) ++ map (mkPL Add) (new_side (body h)) /\
  side_ok (old_side (body h)) /\ side_ok (new_side (body h)) /\
  wf_range_n (oldr h) /\ wf_range_n (newr h) /\
  rcount (oldr h) = Z.of_nat (length (old_side (body h))) /\
  rcount (newr h) = Z.of_nat (length (new_side (body h))).

Lemma fmt_nspan_cmd r : fmt_nspan r =
  print_Z (rstart r) ++ (if negb (Z.eqb (rcount r) 1) then 44%N :: print_Z (rstart r + rcount r - 1) else []).
Proof. unfold fmt_nspan. destruct (Z.eqb (rcount r) 1); reflexivity. Qed.

Lemma span_count s c : (0 <= c <= MAXZ)%Z ->
  sadd ((if negb (Z.eqb c 1) then s + c - 1 else s) - s) 1 = c.
Proof.
  intros H. unfold sadd, sat64, MINZ, MAXZ in *. destruct (Z.eqb_spec c 1) as [->|E]; cbn [negb]; lia.
Qed.

Lemma span_end_in63 r : wf_range_n r -> (1 <= rcount r)%Z -> in63 (rstart r + rcount r - 1).
Proof. intros (Hs & Hc & He) H1. unfold in63. lia. Qed.

Lemma in63_0 : in63 0. Proof. unfold in63, MAXZ. lia. Qed.

Lemma parse_normal_header h h0 : wf_hunk_n h ->
  parse_normal_range h0 (normal_header h) = (true, mkHunk (oldr h) (newr h) (body h0)).
Proof.
  intros (Hne & Hshape & _ & _ & Ho & Hn & Eo & En).
  unfold normal_header, ncmd_of.
  destruct (old_side (body h)) as [|ol os'] eqn:Eos; cbn [is_nil].
  - (* a *)
    destruct (new_side (body h)) as [|nl0 ns'] eqn:Ens.
    { exfalso. apply Hne. rewrite Hshape. reflexivity. }
    cbn [length] in Eo, En.
    assert (H1 : (1 <= rcount (newr h))%Z) by lia.
    rewrite fmt_nspan_cmd.
    change (print_Z (rstart (oldr h)) ++ [97%N] ++ print_Z (rstart (newr h)) ++
            (if negb (Z.eqb (rcount (newr h)) 1) then 44%N :: print_Z (rstart (newr h) + rcount (newr h) - 1) else []))
      with (cmd_line (rstart (oldr h)) false 0 97 (rstart (newr h)) (negb (Z.eqb (rcount (newr h)) 1)) (rstart (newr h) + rcount (newr h) - 1)).
    rewrite parse_cmd_line.
    + cbn [negb andb]. change (N.eqb 97 97) with true. change (N.eqb 97 100) with false. cbv iota zeta.
      rewrite span_count by (destruct Hn as (_ & Hc & _); exact Hc).
      rewrite (Z.max_l (rcount (newr h)) 0) by lia. change (Z.max 0 0) with 0%Z.
      change (Z.of_nat 0) with 0%Z in Eo. rewrite <- Eo. destruct (oldr h), (newr h); reflexivity.
    + destruct Ho as (Hs & _); exact Hs.
    + exact in63_0.
    + destruct Hn as (Hs & _); exact Hs.
    + apply span_end_in63; assumption.
    + left; reflexivity.
    + reflexivity.
  - destruct (new_side (body h)) as [|nl0 ns'] eqn:Ens; cbn [is_nil].
    + (* d *)
      cbn [length] in Eo, En.
      assert (H1 : (1 <= rcount (oldr h))%Z) by lia.
      rewrite fmt_nspan_cmd.
      replace ((print_Z (rstart (oldr h)) ++
            (if negb (Z.eqb (rcount (oldr h)) 1) then 44%N :: print_Z (rstart (oldr h) + rcount (oldr h) - 1) else [])) ++ [100%N] ++ print_Z (rstart (newr h)))
        with (cmd_line (rstart (oldr h)) (negb (Z.eqb (rcount (oldr h)) 1)) (rstart (oldr h) + rcount (oldr h) - 1) 100 (rstart (newr h)) false 0)
        by (unfold cmd_line; rewrite <- app_assoc, app_nil_r; reflexivity).
      rewrite parse_cmd_line.
      * change (N.eqb 100 97) with false. change (N.eqb 100 100) with true. rewrite andb_false_r. cbv iota zeta.
        rewrite span_count by (destruct Ho as (_ & Hc & _); exact Hc).
        replace (sadd (rstart (newr h) - rstart (newr h)) 1 - 1)%Z with (rcount (newr h)).
        -- rewrite (Z.max_l (rcount (oldr h)) 0) by lia. rewrite (Z.max_l (rcount (newr h)) 0) by (rewrite En; cbn [length]; lia).
           destruct (oldr h), (newr h); reflexivity.
        -- rewrite En. unfold sadd, sat64, MINZ, MAXZ. cbn [length]. lia.
      * destruct Ho as (Hs & _); exact Hs.
      * apply span_end_in63; assumption.
      * destruct Hn as (Hs & _); exact Hs.
      * exact in63_0.
      * right; right; reflexivity.
      * apply andb_false_r.
    + (* c *)
      cbn [length] in Eo, En.
      assert (H1 : (1 <= rcount (oldr h))%Z) by lia.
      assert (H2 : (1 <= rcount (newr h))%Z) by lia.
      rewrite !fmt_nspan_cmd.
      replace ((print_Z (rstart (oldr h)) ++
            (if negb (Z.eqb (rcount (oldr h)) 1) then 44%N :: print_Z (rstart (oldr h) + rcount (oldr h) - 1) else [])) ++ [99%N] ++
             print_Z (rstart (newr h)) ++
            (if negb (Z.eqb (rcount (newr h)) 1) then 44%N :: print_Z (rstart (newr h) + rcount (newr h) - 1) else []))
        with (cmd_line (rstart (oldr h)) (negb (Z.eqb (rcount (oldr h)) 1)) (rstart (oldr h) + rcount (oldr h) - 1) 99 (rstart (newr h))
                       (negb (Z.eqb (rcount (newr h)) 1)) (rstart (newr h) + rcount (newr h) - 1))
        by (unfold cmd_line; rewrite <- app_assoc; reflexivity).
      rewrite parse_cmd_line.
      * change (N.eqb 99 97) with false. change (N.eqb 99 100) with false. rewrite andb_false_r. cbv iota zeta.
        rewrite !span_count by (try (destruct Ho as (_ & Hc & _); exact Hc); destruct Hn as (_ & Hc & _); exact Hc).
        rewrite (Z.max_l (rcount (oldr h)) 0) by lia. rewrite (Z.max_l (rcount (newr h)) 0) by lia.
        destruct (oldr h), (newr h); reflexivity.
      * destruct Ho as (Hs & _); exact Hs.
      * apply span_end_in63; assumption.
      * destruct Hn as (Hs & _); exact Hs.
      * apply span_end_in63; assumption.
      * right; left; reflexivity.
      * change (N.eqb 99 99) with true. cbn [negb]. rewrite andb_false_r. reflexivity.
Qed.

(* ---------- the command line is one clean line that starts with a digit ---------- *)
Definition hdr_char (c : N) : bool :=
  is_digit c || N.eqb c 44 || N.eqb c 45 || N.eqb c 97 || N.eqb c 99 || N.eqb c 100.
Definition hdr_chars (t : list N) : Prop := Forall (fun c => hdr_char c = true) t.

Lemma hdr_char_digit c : is_digit c = true -> hdr_char c = true.
Proof. intros H. unfold hdr_char. rewrite H. reflexivity. Qed.

Lemma print_N_hdr n : hdr_chars (print_N n).
Proof.
  destruct (print_N_digits n) as [D _]. unfold hdr_chars. rewrite Forall_forall in *. intros c I. apply hdr_char_digit. apply D. exact I.
Qed.

Lemma print_Z_hdr z : hdr_chars (print_Z z).
Proof. destruct z as [|p|p]; cbn [print_Z]; try apply print_N_hdr. constructor; [reflexivity|apply print_N_hdr]. Qed.

Lemma hdr_chars_app a b : hdr_chars a -> hdr_chars b -> hdr_chars (a ++ b).
Proof. intros Ha Hb. apply Forall_app. split; assumption. Qed.

Lemma fmt_nspan_hdr r : hdr_chars (fmt_nspan r).
Proof.
  unfold fmt_nspan. apply hdr_chars_app; [apply print_Z_hdr|]. destruct (Z.eqb (rcount r) 1); [constructor|].
  constructor; [reflexivity|apply print_Z_hdr].
Qed.

Lemma normal_header_hdr h : hdr_chars (normal_header h).
Proof.
  unfold normal_header. destruct (ncmd_of h).
  - apply hdr_chars_app; [apply print_Z_hdr|]. apply hdr_chars_app; [constructor; [reflexivity|constructor]|apply fmt_nspan_hdr].
  - apply hdr_chars_app; [apply fmt_nspan_hdr|]. apply hdr_chars_app; [constructor; [reflexivity|constructor]|apply print_Z_hdr].
  - apply hdr_chars_app; [apply fmt_nspan_hdr|]. apply hdr_chars_app; [constructor; [reflexivity|constructor]|apply fmt_nspan_hdr].
Qed.

Lemma last_opt_In {A} (t : list A) x : last_opt t = Some x -> In x t.
Proof. intros H. apply last_opt_decomp in H. destruct H as (a & ->). apply in_or_app. right. left. reflexivity. Qed.

Lemma hdr_chars_clean t : hdr_chars t -> clean t.
Proof.
  intros H. unfold hdr_chars in H. rewrite Forall_forall in H. split.
  - intros I. apply H in I. vm_compute in I. discriminate.
  - intros E. apply last_opt_In in E. apply H in E. vm_compute in E. discriminate.
Qed.

Lemma normal_header_clean h : clean (normal_header h).
Proof. apply hdr_chars_clean. apply normal_header_hdr. Qed.

Lemma print_Z_head z : (0 <= z)%Z -> exists d x, print_Z z = d :: x /\ is_digit d = true.
Proof.
  intros H. rewrite print_Z_nonneg by exact H. destruct (print_N_digits (Z.to_N z)) as [D NE].
  destruct (print_N (Z.to_N z)) as [|d x]; [contradiction|]. exists d, x. split; [reflexivity|]. inversion D; assumption.
Qed.

Lemma normal_header_prefix h : exists y, normal_header h = print_Z (rstart (oldr h)) ++ y.
Proof.
  unfold normal_header, fmt_nspan. destruct (ncmd_of h); try rewrite <- app_assoc; eexists; reflexivity.
Qed.

Lemma normal_header_head h : (0 <= rstart (oldr h))%Z -> exists d x, normal_header h = d :: x /\ is_digit d = true.
Proof.
  intros H. destruct (normal_header_prefix h) as (y & E). destruct (print_Z_head _ H) as (d & x & Ep & Hd).
  exists d, (x ++ y). rewrite E, Ep. split; [reflexivity|exact Hd].
Qed.

Definition starts45 (s : list N) : bool := match s with c :: _ => N.eqb c 45 | [] => false end.

Lemma digit_not92 d : is_digit d = true -> N.eqb d 92 = false.
Proof. unfold is_digit. intros H. apply andb_true_iff in H. destruct H as [_ H]. apply N.leb_le in H. apply N.eqb_neq. lia. Qed.
Lemma digit_not45 d : is_digit d = true -> N.eqb d 45 = false.
Proof. unfold is_digit. intros H. apply andb_true_iff in H. destruct H as [H _]. apply N.leb_le in H. apply N.eqb_neq. lia. Qed.

Lemma emit_hunk_head h x : (0 <= rstart (oldr h))%Z ->
  starts92 (emit_normal_hunk h ++ x) = false /\ starts45 (emit_normal_hunk h ++ x) = false.
Proof.
  intros H. destruct (normal_header_head h H) as (d & y & E & Hd). unfold emit_normal_hunk. rewrite E. cbn [app starts92 starts45].
  split; [apply digit_not92|apply digit_not45]; exact Hd.
Qed.

(* ---------- reading the lines of one side ---------- *)
Lemma clean_marked m t : m <> 10%N -> clean t -> clean (m :: 32%N :: t).
Proof.
  intros Hm [H1 H2]. split.
  - intros [E|[E|I]]; [congruence|discriminate|exact (H1 I)].
  - destruct t as [|c t']; [discriminate|exact H2].
Qed.

Lemma normal_read_done f n m o s acc : (n <= 0)%Z -> normal_read (S f) n m o s acc = Ok (acc, s).
Proof. intros H. cbn [normal_read]. apply Z.leb_le in H. rewrite H. reflexivity. Qed.

Lemma normal_read_step f n m o t bytes acc : m <> 10%N -> clean t -> (0 < n)%Z ->
  normal_read (S f) n m o (strm ((m :: 32%N :: t) ++ 10%N :: bytes)) acc =
  normal_read f (n - 1) m o (strm bytes) (acc ++ [mkPL o (mkLine t LF)]).
Proof.
  intros Hm Hc Hn. cbn [normal_read]. assert (E : Z.leb n 0 = false) by (apply Z.leb_gt; exact Hn). rewrite E.
  unfold strm. rewrite (sget_line_lf _ _ (clean_marked m t Hm Hc)). rewrite N.eqb_refl. reflexivity.
Qed.

Lemma fmt_nline_lf m l : nl l = LF -> fmt_nline m l = (m :: 32%N :: txt l) ++ [10%N].
Proof. intros H. unfold fmt_nline, is_nonl. rewrite H. reflexivity. Qed.

Lemma fmt_nline_nonl m l : nl l = NoNL -> fmt_nline m l = (m :: 32%N :: txt l) ++ 10%N :: nonl_marker.
Proof. intros H. unfold fmt_nline, is_nonl. rewrite H. reflexivity. Qed.

Lemma line_eta_lf l : nl l = LF -> mkLine (txt l) LF = l.
Proof. destruct l as [t n]; cbn. intros ->. reflexivity. Qed.
Lemma line_eta_nonl l : nl l = NoNL -> mkLine (txt l) NoNL = l.
Proof. destruct l as [t n]; cbn. intros ->. reflexivity. Qed.

Lemma check_nonl_miss ls bytes : starts92 bytes = false -> normal_check_nonl ls (strm bytes) = (ls, strm bytes).
Proof. intros H. unfold normal_check_nonl. rewrite peek_is_strm, H, andb_false_r. reflexivity. Qed.

Lemma check_nonl_hit ls p bytes :
  normal_check_nonl (ls ++ [p]) (strm (nonl_marker ++ bytes)) = (ls ++ [mkPL (pop p) (mkLine (txt (pl p)) NoNL)], strm bytes).
Proof.
  unfold normal_check_nonl. rewrite peek_is_strm. change (starts92 (nonl_marker ++ bytes)) with true.
  assert (E : is_nil (ls ++ [p]) = false) by (destruct ls; reflexivity). rewrite E. cbn [negb andb].
  unfold set_last_nonl. rewrite rev_app_distr. cbn [rev app]. rewrite rev_involutive.
  rewrite nonl_marker_eq, <- app_assoc. cbn [app]. unfold strm. rewrite (sget_line_lf _ _ marker_clean). reflexivity.
Qed.

(* reading the n lines of a side and looking for the marker line afterwards gives back the lines as they were *)
Lemma read_side : forall ls m o fuel bytes pre,
  m <> 10%N -> side_ok ls -> length ls < fuel -> starts92 bytes = false ->
  exists ls' s', normal_read fuel (Z.of_nat (length ls)) m o (strm (emit_side m ls ++ bytes)) pre = Ok (ls', s') /\
                 normal_check_nonl ls' s' = (pre ++ map (mkPL o) ls, strm bytes).
Proof.
  induction ls as [|l r IH]; intros m o fuel bytes pre Hm Hok Hf Hb.
  - destruct fuel as [|f]; [cbn in Hf; lia|]. cbn [length emit_side flat_map app map]. change (Z.of_nat 0) with 0%Z.
    rewrite normal_read_done by lia. exists pre, (strm bytes). split; [reflexivity|].
    rewrite app_nil_r. apply check_nonl_miss. exact Hb.
  - destruct fuel as [|f]; [cbn in Hf; lia|]. cbn [length] in Hf.
    destruct Hok as (Hc & Hnl & Hr). unfold emit_side. cbn [flat_map]. fold (emit_side m r).
    assert (Hn : (0 < Z.of_nat (length (l :: r)))%Z) by (cbn [length]; lia).
    assert (En : (Z.of_nat (length (l :: r)) - 1)%Z = Z.of_nat (length r)) by (cbn [length]; lia).
    destruct r as [|l2 r'].
    + (* the last line *)
      cbn [emit_side flat_map app]. destruct f as [|f']; [lia|].
      destruct (nl l) eqn:El; [|congruence|].
      * rewrite (fmt_nline_lf m l El), <- !app_assoc. cbn [app].
        change (m :: 32%N :: txt l ++ 10%N :: bytes) with ((m :: 32%N :: txt l) ++ 10%N :: bytes).
        rewrite normal_read_step by assumption. rewrite En. cbn [length]. change (Z.of_nat 0) with 0%Z.
        rewrite normal_read_done by lia. eexists. eexists. split; [reflexivity|].
        rewrite check_nonl_miss by exact Hb. rewrite (line_eta_lf l El). reflexivity.
      * rewrite (fmt_nline_nonl m l El), <- !app_assoc. cbn [app].
        change (m :: 32%N :: txt l ++ 10%N :: nonl_marker ++ bytes) with ((m :: 32%N :: txt l) ++ 10%N :: nonl_marker ++ bytes).
        rewrite normal_read_step by assumption. rewrite En. cbn [length]. change (Z.of_nat 0) with 0%Z.
        rewrite normal_read_done by lia. eexists. eexists. split; [reflexivity|].
        rewrite check_nonl_hit. cbn [pop pl txt map]. rewrite (line_eta_nonl l El). reflexivity.
    + rewrite (fmt_nline_lf m l Hnl), <- !app_assoc. cbn [app].
      change (m :: 32%N :: txt l ++ 10%N :: emit_side m (l2 :: r') ++ bytes)
        with ((m :: 32%N :: txt l) ++ 10%N :: emit_side m (l2 :: r') ++ bytes).
      rewrite normal_read_step by assumption. rewrite En.
      destruct (IH m o f bytes (pre ++ [mkPL o (mkLine (txt l) LF)]) Hm Hr ltac:(lia) Hb) as (ls' & s' & E1 & E2).
      exists ls', s'. split; [exact E1|]. rewrite E2. rewrite (line_eta_lf l Hnl), <- app_assoc. reflexivity.
Qed.

(* ---------- one change group ---------- *)
Lemma peek_is_strm45 bytes : peek_is (strm bytes) 45 = starts45 bytes.
Proof. destruct bytes; reflexivity. Qed.

Lemma emit_side_len m ls : length ls <= length (emit_side m ls).
Proof.
  induction ls as [|l r IH]; [cbn; lia|]. unfold emit_side in *. cbn [flat_map length]. rewrite app_length.
  unfold fmt_nline at 1. cbn [length]. lia.
Qed.

Lemma starts92_side ls bytes : starts92 bytes = false -> starts92 (emit_side 62 ls ++ bytes) = false.
Proof. destruct ls as [|l r]; [auto|]. intros _. reflexivity. Qed.
Lemma starts45_side ls bytes : starts45 bytes = false -> starts45 (emit_side 62 ls ++ bytes) = false.
Proof. destruct ls as [|l r]; [auto|]. intros _. reflexivity. Qed.

Lemma sep_clean : clean (bs "---"). Proof. split; [vm_compute; intuition discriminate|vm_compute; discriminate]. Qed.

(* the optional "---" line: present between the sides of a change, absent otherwise *)
Definition dash (s1 : stream) : stream :=
  if peek_is s1 45 then
    match sget_line s1 with
    | (Some (l, _), s') => if str_eqb l (bs "---") then s' else sseek s' (rest s1)
    | (None, s') => s'
    end
  else s1.

Lemma dash_sep Y : dash (strm (nsep ++ Y)) = strm Y.
Proof.
  unfold dash. rewrite peek_is_strm45. change (starts45 (nsep ++ Y)) with true. cbv iota.
  change (nsep ++ Y) with (bs "---" ++ 10%N :: Y). unfold strm. rewrite (sget_line_lf _ _ sep_clean).
  change (str_eqb (bs "---") (bs "---")) with true. reflexivity.
Qed.

Lemma dash_none Y : starts45 Y = false -> dash (strm Y) = strm Y.
Proof. intros H. unfold dash. rewrite peek_is_strm45, H. reflexivity. Qed.

Lemma hunk_step f h bytes acc :
  wf_hunk_n h -> starts92 bytes = false -> starts45 bytes = false ->
  normal_loop (S f) (strm (emit_normal_hunk h ++ bytes)) acc = normal_loop f (strm bytes) (acc ++ [h]).
Proof.
  intros Hwf H92 H45. pose proof Hwf as (Hne & Hshape & Hso & Hsn & Ho & Hn & Eo & En).
  unfold emit_normal_hunk. rewrite <- !app_assoc. cbn [app].
  set (sepb := match ncmd_of h with NC => nsep | _ => [] end).
  set (X := emit_side 60 (old_side (body h)) ++ sepb ++ emit_side 62 (new_side (body h)) ++ bytes).
  cbn [normal_loop]. unfold strm at 1. rewrite (sget_line_lf _ _ (normal_header_clean h)). cbn [seof orb].
  assert (Hnil : is_nil (normal_header h) = false).
  { destruct (normal_header_head h) as (d & x & E & _); [destruct Ho as (Hs & _); lia|]. rewrite E. reflexivity. }
  rewrite Hnil. cbv iota. rewrite (parse_normal_header h empty_hunk Hwf). cbn [negb body empty_hunk]. cbv iota.
  cbn [oldr newr rest].
  change (mkStream X false false) with (strm X).
  (* the old side *)
  assert (S92 : starts92 (sepb ++ emit_side 62 (new_side (body h)) ++ bytes) = false).
  { unfold sepb. destruct (ncmd_of h); try reflexivity; cbn [app]; apply starts92_side; exact H92. }
  destruct (read_side (old_side (body h)) 60 Del (S (length X)) (sepb ++ emit_side 62 (new_side (body h)) ++ bytes) [])
    as (ls1 & s1 & R1 & C1).
  { discriminate. } { exact Hso. }
  { unfold X. rewrite app_length. pose proof (emit_side_len 60 (old_side (body h))). lia. }
  { exact S92. }
  rewrite Eo. fold X in R1. rewrite R1. cbn [rbind fst snd]. rewrite C1. cbv iota. cbn [app].
  (* the separator *)
  match goal with |- context [if peek_is ?s 45 then _ else _] => change (if peek_is s 45 then _ else _) with (dash s) end.
  assert (D : dash (strm (sepb ++ emit_side 62 (new_side (body h)) ++ bytes)) = strm (emit_side 62 (new_side (body h)) ++ bytes)).
  { unfold sepb. destruct (ncmd_of h); [| |apply dash_sep]; cbn [app]; apply dash_none; apply starts45_side; exact H45. }
  rewrite D.
  (* the new side *)
  destruct (read_side (new_side (body h)) 62 Add (S (length X)) bytes (map (mkPL Del) (old_side (body h))))
    as (ls2 & s2 & R2 & C2).
  { discriminate. } { exact Hsn. }
  { unfold X. rewrite !app_length. pose proof (emit_side_len 62 (new_side (body h))). lia. }
  { exact H92. }
  rewrite En, R2. cbn [rbind fst snd]. rewrite C2. cbv iota.
  rewrite <- Hshape, hunk_eta. reflexivity.
Qed.

(* ---------- what may follow the diff ---------- *)
(* The text after the last change group: it does not begin with '\' (it would be taken for the marker line) or with
   '-' (after a deletion it would be taken for, or looked at as, the separator), and its first line — as File::get_line
   reads it — is empty, or is the unterminated last line of the input, or is not a command line. *)
Definition tail_ok_n (tail : list N) : Prop :=
  starts92 tail = false /\ starts45 tail = false /\
  match get_line tail with
  | Some (t, _, _, false) => t = [] \/ fst (parse_normal_range empty_hunk t) = false
  | _ => True
  end.

(* where the reader stops: in front of the tail — except that an empty line, or an unterminated last line, is consumed *)
Definition after_n (tail : list N) : stream :=
  match get_line tail with
  | None => mkStream [] true false
  | Some (t, _, r, eof) => if eof || is_nil t then mkStream r eof false else strm tail
  end.

Lemma loop_tail f acc tail : acc <> [] -> tail_ok_n tail -> normal_loop (S f) (strm tail) acc = Ok (acc, after_n tail).
Proof.
  intros Hacc (_ & _ & Ht). cbn [normal_loop]. unfold after_n, strm, sget_line. cbn [seof sbad rest].
  destruct (get_line tail) as [[[[t n] r] eof]|]; [|reflexivity]. cbn [seof].
  destruct eof; [reflexivity|]. cbn [orb]. destruct t as [|c t']; [reflexivity|]. cbn [is_nil].
  destruct Ht as [Ht|Ht]; [discriminate|].
  destruct (parse_normal_range empty_hunk (c :: t')) as [ok h]. cbn [fst] in Ht. subst ok. cbn [negb].
  destruct acc; [contradiction|]. reflexivity.
Qed.

Lemma tail_heads tail : tail_ok_n tail -> starts92 tail = false /\ starts45 tail = false.
Proof. intros (H1 & H2 & _). split; assumption. Qed.

Lemma emit_normal_cons h hs : emit_normal (h :: hs) = emit_normal_hunk h ++ emit_normal hs.
Proof. reflexivity. Qed.

Lemma emit_normal_heads hs tail : Forall wf_hunk_n hs -> tail_ok_n tail ->
  starts92 (emit_normal hs ++ tail) = false /\ starts45 (emit_normal hs ++ tail) = false.
Proof.
  intros Hwf Ht. destruct hs as [|h hs]; [apply tail_heads; exact Ht|].
  rewrite emit_normal_cons, <- app_assoc. apply emit_hunk_head.
  inversion Hwf as [|? ? Hh _]; subst. destruct Hh as (_ & _ & _ & _ & (Hs & _) & _). lia.
Qed.

Lemma normal_chain : forall hs acc f tail,
  Forall wf_hunk_n hs -> tail_ok_n tail -> acc ++ hs <> [] ->
  normal_loop (length hs + S f) (strm (emit_normal hs ++ tail)) acc = Ok (acc ++ hs, after_n tail).
Proof.
  induction hs as [|h hs IH]; intros acc f tail Hwf Ht Hne.
  - rewrite app_nil_r in *. cbn [length Nat.add emit_normal flat_map app]. apply loop_tail; assumption.
  - inversion Hwf as [|? ? Hh Hrest]; subst. rewrite emit_normal_cons, <- app_assoc. cbn [length Nat.add].
    destruct (emit_normal_heads hs tail Hrest Ht) as [H92 H45].
    rewrite hunk_step by assumption.
    rewrite IH; [rewrite <- app_assoc; reflexivity|exact Hrest|exact Ht|].
    rewrite <- app_assoc. cbn [app]. destruct acc; discriminate.
Qed.

Lemma emit_hunk_nonempty h : (0 <= rstart (oldr h))%Z -> 1 <= length (emit_normal_hunk h).
Proof.
  intros H. destruct (normal_header_head h H) as (d & x & E & _). unfold emit_normal_hunk. rewrite E. cbn [app length]. lia.
Qed.

Lemma emit_normal_len hs : Forall wf_hunk_n hs -> length hs <= length (emit_normal hs).
Proof.
  induction 1 as [|h hs Hh _ IH]; [cbn; lia|]. rewrite emit_normal_cons, app_length. cbn [length].
  assert (1 <= length (emit_normal_hunk h)); [|lia].
  apply emit_hunk_nonempty. destruct Hh as (_ & _ & _ & _ & (Hs & _) & _). lia.
Qed.

(* A non-empty list of well-formed change groups written as a normal diff and followed by nothing, or by text whose
   first line cannot be taken for a part of the diff, is read back as exactly these hunks — same ranges, same lines
   with the same missing-newline class, deletions before additions — and the stream is left at what follows. *)
Theorem normal_roundtrip hs tail :
  hs <> [] -> Forall wf_hunk_n hs -> tail_ok_n tail ->
  parse_normal_patch (strm (emit_normal hs ++ tail)) = Ok (hs, after_n tail).
Proof.
  intros Hne Hwf Ht. unfold parse_normal_patch. cbn [rest strm].
  pose proof (emit_normal_len hs Hwf) as L.
  replace (S (length (emit_normal hs ++ tail))) with (length hs + S (length (emit_normal hs ++ tail) - length hs))
    by (rewrite app_length; lia).
  change (mkStream (emit_normal hs ++ tail) false false) with (strm (emit_normal hs ++ tail)).
  rewrite normal_chain; [reflexivity|exact Hwf|exact Ht|exact Hne].
Qed.
Print Assumptions normal_roundtrip.

(* the parsed hunks state the same lines and carry the same old and new line sequences as the emitted ones *)
Corollary normal_roundtrip_sides hs tail :
  hs <> [] -> Forall wf_hunk_n hs -> tail_ok_n tail ->
  exists hs', parse_normal_patch (strm (emit_normal hs ++ tail)) = Ok (hs', after_n tail) /\
              map oldr hs' = map oldr hs /\ map newr hs' = map newr hs /\
              map (fun h => old_side (body h)) hs' = map (fun h => old_side (body h)) hs /\
              map (fun h => new_side (body h)) hs' = map (fun h => new_side (body h)) hs.
Proof. intros H1 H2 H3. exists hs. rewrite normal_roundtrip by assumption. repeat split; reflexivity. Qed.

(* the same through parse_patch_body, for a patch record whose header said "normal" *)
Corollary normal_body_roundtrip p hs tail :
  pfmt p = FNormal -> hs <> [] -> Forall wf_hunk_n hs -> tail_ok_n tail ->
  parse_patch_body p (strm (emit_normal hs ++ tail)) = Ok (set_hunks p (hunks p ++ hs), after_n tail).
Proof. intros Hf H1 H2 H3. unfold parse_patch_body. rewrite Hf, normal_roundtrip by assumption. reflexivity. Qed.

(* ---------- the hypotheses in everyday terms ---------- *)
Lemma get_line_lf t r : clean t -> get_line (t ++ 10%N :: r) = Some (t, LF, r, false).
Proof.
  intros [H1 H2]. unfold get_line. rewrite get_line_aux_lf.
  - rewrite app_nil_r, rev_involutive. reflexivity.
  - exact H1.
  - rewrite app_nil_r. rewrite last_opt_rev_hd in H2. destruct (rev t) as [|a x]; [exact I|].
    destruct a as [|p]; [exact I|]. do 4 (destruct p as [p|p|]; try exact I). apply H2. reflexivity.
Qed.

Lemma tail_ok_n_nil : tail_ok_n [].
Proof. repeat split. Qed.

(* a tail that starts with a terminated line which is empty or not a command line, and not a '\' or '-' line *)
Lemma tail_ok_n_line l2 more :
  clean l2 -> starts92 (l2 ++ 10%N :: more) = false -> starts45 (l2 ++ 10%N :: more) = false ->
  (l2 = [] \/ fst (parse_normal_range empty_hunk l2) = false) ->
  tail_ok_n (l2 ++ 10%N :: more).
Proof. intros Hc H1 H2 H3. split; [exact H1|]. split; [exact H2|]. rewrite (get_line_lf _ _ Hc). exact H3. Qed.

(* in particular any line that does not start with a digit, '\' or '-' *)
Lemma parse_normal_range_nodigit h0 l :
  match l with c :: _ => is_digit c = false | [] => True end -> parse_normal_range h0 l = (false, h0).
Proof.
  intros H. unfold parse_normal_range, consume_line_number. destruct l as [|c r]; [reflexivity|]. cbn [span_digits]. rewrite H. reflexivity.
Qed.

Lemma tail_ok_n_text c l2 more :
  clean (c :: l2) -> is_digit c = false -> c <> 92%N -> c <> 45%N -> tail_ok_n ((c :: l2) ++ 10%N :: more).
Proof.
  intros Hc Hd H92 H45. apply tail_ok_n_line; [exact Hc|cbn; apply N.eqb_neq; exact H92|cbn; apply N.eqb_neq; exact H45|].
  right. rewrite parse_normal_range_nodigit; [reflexivity|exact Hd].
Qed.

Lemma after_n_nil : after_n [] = mkStream [] true false. Proof. reflexivity. Qed.
Lemma after_n_line l2 more : clean l2 -> l2 <> [] -> after_n (l2 ++ 10%N :: more) = strm (l2 ++ 10%N :: more).
Proof. intros Hc Hne. unfold after_n. rewrite (get_line_lf _ _ Hc). destruct l2; [contradiction|reflexivity]. Qed.
Lemma after_n_empty_line more : after_n (10%N :: more) = strm more.
Proof. reflexivity. Qed.

(* building a well-formed change group from its two sides *)
Definition mk_change (os ns : Z) (ds as_ : list line) : hunk :=
  mkHunk (mkRange os (Z.of_nat (length ds))) (mkRange ns (Z.of_nat (length as_)))
         (map (mkPL Del) ds ++ map (mkPL Add) as_).

Lemma old_side_app_n x y : old_side (x ++ y) = old_side x ++ old_side y.
Proof. unfold old_side. rewrite filter_app, map_app. reflexivity. Qed.
Lemma new_side_app_n x y : new_side (x ++ y) = new_side x ++ new_side y.
Proof. unfold new_side. rewrite filter_app, map_app. reflexivity. Qed.
Lemma old_side_dels ds : old_side (map (mkPL Del) ds) = ds.
Proof. induction ds as [|l r IH]; [reflexivity|]. unfold old_side in *. cbn [map filter is_add pop negb pl]. rewrite IH. reflexivity. Qed.
Lemma new_side_dels ds : new_side (map (mkPL Del) ds) = [].
Proof. induction ds as [|l r IH]; [reflexivity|]. unfold new_side in *. cbn [map filter is_del pop negb]. exact IH. Qed.
Lemma old_side_adds ls : old_side (map (mkPL Add) ls) = [].
Proof. induction ls as [|l r IH]; [reflexivity|]. unfold old_side in *. cbn [map filter is_add pop negb]. exact IH. Qed.
Lemma new_side_adds ls : new_side (map (mkPL Add) ls) = ls.
Proof. induction ls as [|l r IH]; [reflexivity|]. unfold new_side in *. cbn [map filter is_del pop negb pl]. rewrite IH. reflexivity. Qed.

Lemma mk_change_old os ns ds as_ : old_side (body (mk_change os ns ds as_)) = ds.
Proof. cbn [mk_change body]. rewrite old_side_app_n, old_side_dels, old_side_adds. apply app_nil_r. Qed.
Lemma mk_change_new os ns ds as_ : new_side (body (mk_change os ns ds as_)) = as_.
Proof. cbn [mk_change body]. rewrite new_side_app_n, new_side_dels, new_side_adds. reflexivity. Qed.

Lemma wf_mk_change os ns ds as_ :
  (ds <> [] \/ as_ <> []) -> side_ok ds -> side_ok as_ ->
  wf_range_n (mkRange os (Z.of_nat (length ds))) -> wf_range_n (mkRange ns (Z.of_nat (length as_))) ->
  wf_hunk_n (mk_change os ns ds as_).
Proof.
  intros Hne Hd Ha Ho Hn. unfold wf_hunk_n. rewrite mk_change_old, mk_change_new. cbn [mk_change body oldr newr rcount].
  repeat split; try assumption; try apply Ho; try apply Hn.
  intros E. apply app_eq_nil in E. destruct E as [E1 E2]. destruct Hne as [H|H]; apply H.
  - destruct ds; [reflexivity|discriminate].
  - destruct as_; [reflexivity|discriminate].
Qed.

(* every well-formed change group is of this form *)
Lemma wf_hunk_n_shape h : wf_hunk_n h ->
  h = mk_change (rstart (oldr h)) (rstart (newr h)) (old_side (body h)) (new_side (body h)).
Proof.
  intros (_ & Hshape & _ & _ & _ & _ & Eo & En). unfold mk_change. rewrite <- Eo, <- En, <- Hshape.
  destruct h as [[a b] [c d] e]; reflexivity.
Qed.

(* ---------- examples ---------- *)
Module NormalExamples.
Definition L (s : String.string) : line := mkLine (bs s) LF.
Definition LN (s : String.string) : line := mkLine (bs s) NoNL.
Arguments L s%string.
Arguments LN s%string.

Ltac concrete := vm_compute; intuition (try discriminate; try congruence).

(* what GNU diff prints for  a,b,c,d,e,f  ->  x,a,b,d,e,F,G(no newline) : an "a", a "d" and a "c" whose new side ends
   without newline, here followed by the command line of the next file's diff *)
Definition hA : hunk := mk_change 0 1 [] [L "x"].
Definition hD : hunk := mk_change 3 3 [L "c"] [].
Definition hC : hunk := mk_change 6 6 [L "f"] [L "F"; LN "G"].
Definition ex_tail : list N := bs "diff -r old/g new/g
1c1
< u
---
> v
".
Definition ex_text : list N := bs "0a1
> x
3d3
< c
6c6,7
< f
---
> F
> G
\ No newline at end of file
".

Example ex_emit : emit_normal [hA; hD; hC] = ex_text.
Proof. vm_compute. reflexivity. Qed.

Example ex_wf : Forall wf_hunk_n [hA; hD; hC].
Proof. constructor; [concrete|constructor; [concrete|constructor; [concrete|constructor]]]. Qed.

Example ex_tail_ok : tail_ok_n ex_tail.
Proof. concrete. Qed.

Example ex_roundtrip : parse_normal_patch (strm (ex_text ++ ex_tail)) = Ok ([hA; hD; hC], strm ex_tail).
Proof. rewrite <- ex_emit. rewrite normal_roundtrip; [reflexivity|discriminate|exact ex_wf|exact ex_tail_ok]. Qed.

(* both sides without final newline, large line numbers, several lines on each side, nothing after the diff *)
Definition hBig : hunk := mk_change 9223372036854775800 41 [L "p"; L ""; LN "q"] [L "< r"; LN "---"].
Example ex_big_wf : wf_hunk_n hBig.
Proof. concrete. Qed.
Example ex_big : parse_normal_patch (strm (emit_normal [hBig] ++ [])) = Ok ([hBig], mkStream [] true false).
Proof. rewrite normal_roundtrip; [reflexivity|discriminate|constructor; [exact ex_big_wf|constructor]|exact tail_ok_n_nil]. Qed.

(* --- each hypothesis is needed --- *)
Definition differs (hs : list hunk) (tail : list N) : Prop :=
  parse_normal_patch (strm (emit_normal hs ++ tail)) <> Ok (hs, after_n tail).
Ltac differ := unfold differs; vm_compute; discriminate.

(* hs <> [] : with no hunk at all, a first line that is not a command line makes the reader throw *)
Example need_nonempty : tail_ok_n (bs "text
") /\ parse_normal_patch (strm (emit_normal [] ++ bs "text
")) = Throw EInvalidArgument.
Proof. split; [concrete|reflexivity]. Qed.

(* body <> [] : "0a0,-1" is not read *)
Example need_body : differs [mk_change 0 0 [] []] [].
Proof. differ. Qed.
(* ranges within 0..2^63-1 : the start, and the last line of a span *)
Example need_start_range : differs [mk_change 9223372036854775808 1 [L "a"] []] [].
Proof. differ. Qed.
Example need_end_range : differs [mk_change 9223372036854775807 1 [L "a"; L "b"] []] [].
Proof. differ. Qed.
(* counts equal to the numbers of lines *)
Example need_counts : differs [mkHunk (mkRange 1 2) (mkRange 1 1) [mkPL Del (L "a"); mkPL Add (L "b")]] [].
Proof. differ. Qed.
(* clean texts: a line feed inside, a trailing carriage return *)
Example need_no_lf : differs [mk_change 1 1 [mkLine [97; 10; 98]%N LF] [L "b"]] [].
Proof. differ. Qed.
Example need_no_trailing_cr : differs [mk_change 1 1 [mkLine [97; 13]%N LF] [L "b"]] [].
Proof. differ. Qed.
(* terminator class LF or none *)
Example need_no_crlf : differs [mk_change 1 1 [mkLine [97]%N CRLF] [L "b"]] [].
Proof. differ. Qed.
(* a missing newline only on the last line of a side *)
Example need_nonl_last : differs [mk_change 1 1 [LN "a"; L "b"] [L "c"]] [].
Proof. differ. Qed.
(* no context lines *)
Example need_no_context : differs [mkHunk (mkRange 1 2) (mkRange 1 2) [mkPL Ctx (L "k"); mkPL Del (L "a"); mkPL Add (L "b")]] [].
Proof. differ. Qed.
(* deletions before additions *)
Example need_order : differs [mkHunk (mkRange 1 1) (mkRange 1 1) [mkPL Add (L "b"); mkPL Del (L "a")]] [].
Proof. differ. Qed.
(* the tail: a '\' line is taken for the marker, "---" after a deletion for the separator, a command line for a further hunk *)
Example need_tail_92 : differs [hA] (bs "\ text
").
Proof. differ. Qed.
Example need_tail_45 : differs [hD] (bs "---
").
Proof. differ. Qed.
Example need_tail_45_unterminated : differs [hD] (bs "-").
Proof. differ. Qed.
Example need_tail_cmd : differs [hA] (bs "7d6
< z
").
Proof. differ. Qed.
End NormalExamples.
