(* Proofs_DriverBatch.v — C06 at the driver level: an already applied patch run again with -t (batch) is applied in
   reverse and restores the original bytes; with -N the file is left alone (lifted to the run); with -f no guess is made.
   Same cut of Driver.process_section as in Proofs_Reverse.v / Proofs_DriverMore.v: head (choice of the file, reading it),
   apply_patch, section_tail. *)
From PatchV Require Import Base Lines Hunk Locator Formatter Options Applier LineParser Parser World Driver
     Spec_Locate Spec_Apply Proofs_Base Proofs_Locate Proofs_Apply Proofs_Conf Proofs_World Proofs_Crash Proofs_Lines
     Proofs_EndToEnd Proofs_Reverse Proofs_Reapply Proofs_Rejects Proofs_Touch Proofs_Progress Proofs_DriverMore
     Spec_Names Proofs_Names Proofs_Fuel Proofs_Unified Proofs_Filler Proofs_Sections Proofs_Sections_Unified Proofs_Whole.

(* ================================================================================================================== *)
(* (0) apply level: -t on an already applied patch, everything section_tail looks at                                  *)
(* ================================================================================================================== *)

(* what -t says when it decides to go on in reverse *)
Definition assuming_msg (o : options) : list N :=
  (if reverse_patch_opt o then bs "Unreversed" else bs "Reversed (or previously applied)")
  ++ bs " patch detected!  " ++ bs "Assuming -R." ++ [10%N].

(* Proofs_Reapply.reapply_reversed with the two fields it leaves out: the run counts as perfect (every reversed hunk at its
   stated place, no fuzz), and the only message is the announcement *)
Lemma apply_reversed_total o p A B h hs :
  define_macro o = [] -> verbose o = false -> force o = false -> ignore_reversed o = false -> batch o = true ->
  (0 <= max_fuzz o)%Z ->
  hunks (effective o p) = h :: hs ->
  Conforming A B (hunks (effective o p)) -> (Z.of_nat (length B) < MAXZ)%Z ->
  creation_guard (reverse_patch (effective o p)) B ->
  loc_perfect (first_loc o (effective o p) B h) = false ->
  exists r, apply_patch o B p = Ok r /\ r_out r = A /\ r_failed r = 0 /\ r_rej r = [] /\ r_skipped r = false /\
            r_perfect r = true /\ r_msgs r = assuming_msg o /\
            exists hs', r_patch r = set_hunks (reverse_patch (effective o p)) hs'.
Proof.
  intros Hd Hv Hf Hi Hb HF Hh HC Hmax Hk L1. unfold apply_patch. fold (effective o p). set (p1 := effective o p) in *.
  set (rp := reverse_patch p1) in *.
  rewrite Hh in HC. apply conforming_reverse in HC. cbn [map] in HC.
  rewrite Hh. cbn [apply_first a_offerr a_ln].
  fold (first_loc o p1 B h). fold (first_rloc o B h).
  unfold should_check_if_patch_is_reversed. rewrite L1, Hf.
  inversion HC as [|a0 b0 gap h0 hs0 A0 B0 Hbd Hoc Hnc Hos Hns HC' Ea0 Eb0 Ea Eb]; subst a0 b0 h0 hs0.
  cbn [Nat.add] in Hos, Hns, HC'.
  set (Bv := gap ++ old_side (body (reverse_hunk h)) ++ A0) in *.
  set (Av := gap ++ new_side (body (reverse_hunk h)) ++ B0) in *.
  subst A B.
  assert (Er : first_rloc o Bv h = Some (mkLoc (length gap) 0 0)).
  { unfold first_rloc.
    apply (locate_conf (ignore_whitespace o) (max_fuzz o) 0 Bv gap A0 (reverse_hunk h) eq_refl Hbd Hoc Hos); [lia|exact HF|exact Hmax]. }
  rewrite Er. cbn [loc_perfect lfuzz loffset Nat.eqb Z.eqb andb orb].
  unfold handle_probably_reversed_patch, check_how_to_handle_reversed_patch. rewrite Hi, Hb. cbn [negb rbind fst snd].
  set (s0 := mkAS _ _ _ _ _ _ _ _ _ _).
  assert (Eq : (do s' <- apply_one o rp Bv 0 s0 (reverse_hunk h) (Some (mkLoc (length gap) 0 0)); apply_rest o rp Bv 1 s' (map reverse_hunk hs))
               = apply_rest o rp Bv 0 s0 (reverse_hunk h :: map reverse_hunk hs)).
  { cbn [apply_rest].
    replace (locate_for rp Bv (reverse_hunk h) (ignore_whitespace o) (a_offerr s0) (max_fuzz o) (a_ln s0)) with (Some (mkLoc (length gap) 0 0)); [reflexivity|].
    rewrite (locate_for_guard rp Bv _ _ _ _ _ Hk). symmetry. exact Er. }
  fold rp. rewrite Eq.
  destruct (apply_rest_conf o rp Hd Hv HF _ 0 0 Bv Av [] s0 0 Bv HC eq_refl eq_refl Hmax Hk eq_refl eq_refl eq_refl)
    as (s' & Es & Ho & H1 & H2 & H3 & H4 & H5).
  unfold with_patch. rewrite Es. cbn [rbind]. eexists. split; [reflexivity|].
  cbn [r_out r_failed r_rej r_skipped r_perfect r_msgs r_patch fst snd].
  unfold s0 in *. cbn [a_out a_rejected a_rej a_perfect a_msgs app] in Ho, H1, H2, H4, H5.
  split; [exact Ho|]. split; [exact H1|]. split; [exact H2|]. split; [exact H3|]. split; [exact H4|].
  split; [rewrite H5; unfold assuming_msg; rewrite <- ?app_assoc; reflexivity|]. eexists. reflexivity.
Qed.

(* ================================================================================================================== *)
(* (1) the section under -t                                                                                            *)
(* ================================================================================================================== *)

(* section_tail for a run that applied perfectly and neither deletes nor renames: exactly one write_now; whatever apply_patch
   said goes to the report, and a backup is asked for exactly when -b is given (--backup-if-mismatch does not count: the
   run was perfect) *)
Lemma tail_write_msgs o st ftp f operms pm (ar : aresult) s2 w :
  out_file_path o = [] -> dry_run o = false ->
  r_failed ar = 0 -> r_skipped ar = false -> r_perfect ar = true ->
  pfmt (r_patch ar) <> FGit ->
  (poper (r_patch ar) = OpChange \/ poper (r_patch ar) = OpAdd \/ poper (r_patch ar) = OpDelete) ->
  new_mode (r_patch ar) = 0%N -> new_path (r_patch ar) <> Driver.devnull ->
  (remove_empty_files o <> OBYes \/ lines_bytes (newline_output o) (r_out ar) <> []) ->
  f <> [] -> ~ In 47%N f ->
  section_tail o st ftp f operms pm false ar s2 w =
  (let! st' := write_now o (add_event st (r_msgs ar))
                 (mkDef (lines_bytes (newline_output o) (r_out ar)) f false (save_backup o) None
                        (if N.eqb pm perms_unknown then None else Some pm)) in mret (st', s2)) w.
Proof.
  intros O2 O3 Rf Rs Rp Pf Pop Pm Pn Nd Hn Hs.
  unfold section_tail. rewrite Rf, Rs, Rp, Pm, O2, O3.
  assert (Git : match pfmt (r_patch ar) with FGit => true | _ => false end = false) by (destruct (pfmt (r_patch ar)); congruence).
  rewrite Git. cbn [Nat.eqb negb andb orb is_nil].
  change (str_eqb [] (bs "-")) with false. cbv iota.
  rewrite mbind_eq. cbn [mret].
  rewrite (ensure_noslash f Hn Hs).
  apply str_eqb_neq in Pn. rewrite Pn.
  match goal with |- context [if ?c then (if is_nil ?b then ?x else ?y) else ?z] =>
    assert (X : (if c then (if is_nil b then x else y) else z) = z) end.
  { destruct (remove_empty_files o) eqn:Re; try reflexivity.
    destruct Nd as [Nr|Nb]; [congruence|].
    destruct (lines_bytes (newline_output o) (r_out ar)); [congruence|]. cbn [is_nil].
    match goal with |- (if ?c then _ else _) = _ => destruct c; reflexivity end. }
  rewrite X. clear X.
  assert (Rn : match poper (r_patch ar) with OpRename => true | _ => false end = false)
    by (destruct Pop as [Pc|[Pa|Pd]]; [rewrite Pc|rewrite Pa|rewrite Pd]; reflexivity).
  rewrite Rn. change (negb (0 =? 0)%N) with false. cbv iota. rewrite orb_false_r.
  rewrite mbind_eq. cbn [mret andb]. rewrite mbind_eq. rewrite mbind_eq. cbn [mret].
  rewrite (mbind_eq (write_now _ _ _)).
  match goal with |- context [write_now ?a ?b ?c w] => destruct (write_now a b c w) as [[st'|e] w'] end.
  - rewrite mbind_eq. reflexivity.
  - reflexivity.
Qed.

(* write_now without backup on a writable file of the working directory, the exact world: write, then chmod *)
Lemma write_existing_exact o st f bytes pm w data mode :
  fault w = None -> ~ In 47%N f -> lookup (fs w) f = Some (Reg data mode) -> owner_w mode = true ->
  write_now o st (mkDef bytes f false false None (Some pm)) w =
  (Ok st, mkWorld (upd (upd (fs w) f (Reg bytes mode)) f (Reg bytes pm)) (umask w)
                  (trace w ++ [OWrite f bytes; OChmod f pm]) None (stdout_data w)).
Proof.
  intros Fw Hs Lf Hw.
  unfold write_now. cbn [d_backup d_dest d_chmod_first d_data d_perm_after].
  rewrite mbind_eq. cbn [mret]. rewrite mbind_eq. cbn [get_fs]. rewrite mbind_eq. cbn [mret].
  rewrite mbind_eq, (chk_write_reg f bytes w data mode Fw Hs Lf Hw).
  set (w2 := wstep w (upd (fs w) f (Reg bytes mode)) (OWrite f bytes)).
  assert (L2 : lookup (fs w2) f = Some (Reg bytes mode)) by (cbn [w2 wstep fs]; apply lookup_upd_same).
  rewrite mbind_eq, (chk_chmod_reg f pm w2 bytes mode eq_refl Hs L2). cbn [mret].
  unfold wstep, w2. cbn [fs umask trace stdout_data wstep]. rewrite <- app_assoc. reflexivity.
Qed.

(* the options under which (1) is stated: the file is chosen from the patch, no -o, no --dry-run, no -D, not --verbose,
   -F >= 0, no -R, no -f, no -N, and -t.  -b, --backup-if-mismatch, -r, --reject-format, -E, --read-only, the newline mode are free. *)
Definition batch_options (o : options) : Prop :=
  file_to_patch o = [] /\ out_file_path o = [] /\ dry_run o = false /\ define_macro o = [] /\ verbose o = false /\
  (0 <= max_fuzz o)%Z /\ reverse_patch_opt o = false /\ force o = false /\ ignore_reversed o = false /\ batch o = true.

(* the first hunk, as the patch states it, no longer fits the lines exactly at its place (this is all the program looks at
   before it tries the reversed hunk) *)
Definition first_misfits (o : options) (lines : list line) (h : hunk) : Prop :=
  loc_perfect (locate_hunk lines h (ignore_whitespace o) 0 (max_fuzz o) 0) = false.

Lemma not_creating p f : old_path p = f -> f <> Driver.devnull -> creates_file p = false.
Proof. intros Po Hd. unfold creates_file. rewrite Po. apply str_eqb_neq. exact Hd. Qed.

Lemma first_loc_plain o p lines h : creates_file p = false -> first_loc o p lines h = locate_hunk lines h (ignore_whitespace o) 0 (max_fuzz o) 0.
Proof. intros C. unfold first_loc, locate_for. rewrite C. reflexivity. Qed.

(* everything up to the one write_now: the section is the reading of f and one write_now of the original lines, with the
   announcement added to the report and a backup asked for exactly when -b is given *)
Lemma section_reapplied_gen o p f A B h hs st s w data mode :
  batch_options o ->
  pfmt p <> FGit -> (poper p = OpChange \/ poper p = OpAdd \/ poper p = OpDelete) -> prereq p = [] ->
  old_path p = f -> new_path p = f -> old_mode p = 0%N ->
  f <> Driver.devnull -> f <> [] -> ~ In 47%N f ->
  hunks p = h :: hs -> Conforming A B (h :: hs) -> (Z.of_nat (length B) < MAXZ)%Z ->
  first_misfits o B h ->
  (remove_empty_files o <> OBYes \/ lines_bytes (newline_output o) A <> []) ->
  fault w = None -> deferred_writes st = [] ->
  lookup (fs w) f = Some (Reg data mode) -> (mode < 4096)%N -> owner_r mode = true -> owner_w mode = true ->
  split_lines data = B ->
  process_section o st false p s w =
  (let! st' := write_now o (add_event st (assuming_msg o))
                 (mkDef (lines_bytes (newline_output o) A) f false (save_backup o) None (Some mode)) in mret (st', s))
    (wstep w (fs w) (OOpenRead f)).
Proof.
  intros (O1 & O2 & O3 & O5 & O6 & O8 & Rv & Of & On & Ot) Pf Pop P3 Po Pn Pm Hd Hn Hs Hh HC Hx Mis Ne Fw Dw Lf Hm Hr Hw HX.
  pose proof (owner_w_write_mask _ Hw) as Hw2.
  assert (Ex : exists_ (fs w) f = true) by (unfold exists_; rewrite (stat_reg _ _ _ _ Hs Lf); reflexivity).
  assert (G : guess_filepath (fs w) (map d_dest (deferred_writes st)) p o = f).
  { unfold guess_filepath. rewrite Po. apply str_eqb_neq in Hd. rewrite Hd. cbn [negb andb]. rewrite Ex. reflexivity. }
  assert (Out : output_path o p f = f) by (unfold output_path; rewrite O2; destruct Pop as [E|[E|E]]; rewrite E; reflexivity).
  rewrite (head_existing o st p s w f data mode O1 G Out Dw Fw Lf Hm Hr (or_introl Hw2) P3).
  2:{ destruct Pop as [E|[E|E]]; rewrite E; discriminate. } 2: exact Hn. 2: exact Hs.
  rewrite HX.
  assert (Eff : effective o p = p) by (unfold effective; rewrite Rv; reflexivity).
  assert (Guard : creation_guard (reverse_patch (effective o p)) B).
  { rewrite Eff. intros E. exfalso. unfold creates_file in E. cbn [reverse_patch old_path] in E. rewrite Pn in E.
    apply str_eqb_eq in E. contradiction. }
  assert (Hh' : hunks (effective o p) = h :: hs) by (rewrite Eff; exact Hh).
  assert (HC' : Conforming A B (hunks (effective o p))) by (rewrite Hh'; exact HC).
  assert (L1 : loc_perfect (first_loc o (effective o p) B h) = false).
  { rewrite Eff, (first_loc_plain o p B h (not_creating p f Po Hd)). exact Mis. }
  destruct (apply_reversed_total o p A B h hs O5 O6 Of On Ot O8 Hh' HC' Hx Guard L1)
    as (r & Er & Ro & Rf & Rr & Rs & Rp & Rm & hs' & Hp3).
  rewrite Eff in Hp3.
  rewrite mbind_eq. unfold mlift. rewrite Er.
  apply N.eqb_neq in Hw2. rewrite Hw2.
  assert (Q1 : pfmt (r_patch r) <> FGit) by (rewrite Hp3; exact Pf).
  assert (Q2 : poper (r_patch r) = OpChange \/ poper (r_patch r) = OpAdd \/ poper (r_patch r) = OpDelete).
  { rewrite Hp3. cbn [set_hunks reverse_patch poper]. destruct Pop as [E|[E|E]]; rewrite E; cbn [reverse_operation]; auto. }
  assert (Q3 : new_mode (r_patch r) = 0%N) by (rewrite Hp3; exact Pm).
  assert (Q4 : new_path (r_patch r) <> Driver.devnull) by (rewrite Hp3; cbn [set_hunks reverse_patch new_path]; congruence).
  rewrite (tail_write_msgs o st f f mode mode r s _ O2 O3 Rf Rs Rp Q1 Q2 Q3 Q4).
  2:{ rewrite Ro. exact Ne. } 2: exact Hn. 2: exact Hs.
  assert (Unk : N.eqb mode perms_unknown = false) by (apply N.eqb_neq; unfold perms_unknown; lia).
  rewrite Unk, Ro, Rm. reflexivity.
Qed.

(* (1), without -b: the section performs exactly three operations, the opening of f for reading, the writing of the original
   bytes, and the chmod that gives f the mode it had; the state is the state before with the announcement added to the report:
   the failure flag is not touched, no backup is recorded, nothing is deferred; no reject file is written.  This holds whatever
   --backup-if-mismatch says (it is in force by default): the reversed hunks fit exactly, so no backup is taken. *)
Theorem section_reapplied_t o p f A B h hs st s w data mode :
  batch_options o -> save_backup o = false ->
  pfmt p <> FGit -> (poper p = OpChange \/ poper p = OpAdd \/ poper p = OpDelete) -> prereq p = [] ->
  old_path p = f -> new_path p = f -> old_mode p = 0%N ->
  f <> Driver.devnull -> f <> [] -> ~ In 47%N f ->
  hunks p = h :: hs -> Conforming A B (h :: hs) -> (Z.of_nat (length B) < MAXZ)%Z ->
  first_misfits o B h ->
  (remove_empty_files o <> OBYes \/ lines_bytes (newline_output o) A <> []) ->
  fault w = None -> deferred_writes st = [] ->
  lookup (fs w) f = Some (Reg data mode) -> (mode < 4096)%N -> owner_r mode = true -> owner_w mode = true ->
  split_lines data = B ->
  let bytes := lines_bytes (newline_output o) A in
  process_section o st false p s w =
  (Ok (add_event st (assuming_msg o), s),
   mkWorld (upd (upd (fs w) f (Reg bytes mode)) f (Reg bytes mode)) (umask w)
           (trace w ++ [OOpenRead f; OWrite f bytes; OChmod f mode]) None (stdout_data w)).
Proof.
  intros Op Sb Pf Pop P3 Po Pn Pm Hd Hn Hs Hh HC Hx Mis Ne Fw Dw Lf Hm Hr Hw HX. cbv zeta.
  rewrite (section_reapplied_gen o p f A B h hs st s w data mode Op Pf Pop P3 Po Pn Pm Hd Hn Hs Hh HC Hx Mis Ne Fw Dw Lf Hm Hr Hw HX).
  rewrite Sb.
  set (w1 := wstep w (fs w) (OOpenRead f)).
  rewrite mbind_eq.
  rewrite (write_existing_exact o _ f (lines_bytes (newline_output o) A) mode w1 data mode eq_refl Hs Lf Hw). cbn [mret].
  unfold w1, wstep. cbn [fs umask trace stdout_data]. rewrite <- app_assoc. reflexivity.
Qed.

(* in the words of the claim: f holds the original again and keeps its mode; every other entry of the tree is what it was, in
   particular nothing appears at the reject name or at the backup name; the report gets the announcement and nothing else;
   the failure flag (exit status) is what it was *)
Theorem section_reapplied_t_frame o p f A B h hs st s w data mode :
  batch_options o -> save_backup o = false ->
  pfmt p <> FGit -> (poper p = OpChange \/ poper p = OpAdd \/ poper p = OpDelete) -> prereq p = [] ->
  old_path p = f -> new_path p = f -> old_mode p = 0%N ->
  f <> Driver.devnull -> f <> [] -> ~ In 47%N f ->
  hunks p = h :: hs -> Conforming A B (h :: hs) -> (Z.of_nat (length B) < MAXZ)%Z ->
  first_misfits o B h ->
  (remove_empty_files o <> OBYes \/ lines_bytes (newline_output o) A <> []) ->
  fault w = None -> deferred_writes st = [] ->
  lookup (fs w) f = Some (Reg data mode) -> (mode < 4096)%N -> owner_r mode = true -> owner_w mode = true ->
  split_lines data = B ->
  exists st' w',
    process_section o st false p s w = (Ok (st', s), w') /\
    lookup (fs w') f = Some (Reg (lines_bytes (newline_output o) A) mode) /\
    (forall q, q <> f -> lookup (fs w') q = lookup (fs w) q) /\
    lookup (fs w') (f ++ bs ".rej") = lookup (fs w) (f ++ bs ".rej") /\
    lookup (fs w') (backup_name o f) = lookup (fs w) (backup_name o f) /\
    trace w' = trace w ++ [OOpenRead f; OWrite f (lines_bytes (newline_output o) A); OChmod f mode] /\
    had_failure st' = had_failure st /\ backed_up st' = backed_up st /\ deferred_writes st' = [] /\
    deferred_removals st' = deferred_removals st /\
    events st' = events st ++ assuming_msg o /\
    fault w' = None /\ umask w' = umask w /\ stdout_data w' = stdout_data w.
Proof.
  intros Op Sb Pf Pop P3 Po Pn Pm Hd Hn Hs Hh HC Hx Mis Ne Fw Dw Lf Hm Hr Hw HX.
  pose proof (section_reapplied_t o p f A B h hs st s w data mode Op Sb Pf Pop P3 Po Pn Pm Hd Hn Hs Hh HC Hx Mis Ne Fw Dw Lf Hm Hr Hw HX) as E.
  cbv zeta in E. eexists. eexists. split; [exact E|]. cbn [fs trace fault umask stdout_data].
  set (bytes := lines_bytes (newline_output o) A).
  destruct (upd_upd_lookup (fs w) f (Reg bytes mode) (Reg bytes mode)) as [L1 L2].
  split; [exact L1|]. split; [exact L2|].
  split; [apply L2; intros X; symmetry in X; exact (rej_name_longer f X)|].
  split; [apply L2; apply backup_name_neq|].
  unfold add_event. cbn [had_failure backed_up deferred_writes deferred_removals events].
  repeat split; try reflexivity. exact Dw.
Qed.

(* (1), with -b: the one case in which a backup is taken.  f goes to its backup name as it is (the patched bytes, its mode),
   the name comes into being again with the original bytes and is given the mode f had *)
Theorem section_reapplied_t_backup o p f A B h hs st s w data mode :
  batch_options o -> save_backup o = true ->
  pfmt p <> FGit -> (poper p = OpChange \/ poper p = OpAdd \/ poper p = OpDelete) -> prereq p = [] ->
  old_path p = f -> new_path p = f -> old_mode p = 0%N ->
  f <> Driver.devnull -> f <> [] -> ~ In 47%N f -> ~ In 47%N (backup_name o f) ->
  hunks p = h :: hs -> Conforming A B (h :: hs) -> (Z.of_nat (length B) < MAXZ)%Z ->
  first_misfits o B h ->
  (remove_empty_files o <> OBYes \/ lines_bytes (newline_output o) A <> []) ->
  fault w = None -> deferred_writes st = [] ->
  existsb (str_eqb (backup_name o f)) (backed_up st) = false ->
  lookup (fs w) f = Some (Reg data mode) -> (mode < 4096)%N -> owner_r mode = true -> owner_w mode = true ->
  lookup (fs w) (backup_name o f) = None ->
  split_lines data = B ->
  exists w',
    process_section o st false p s w = (Ok (with_backed_up (add_event st (assuming_msg o)) (backup_name o f), s), w') /\
    lookup (fs w') (backup_name o f) = Some (Reg data mode) /\
    lookup (fs w') f = Some (Reg (lines_bytes (newline_output o) A) mode) /\
    (forall q, q <> f -> q <> backup_name o f -> lookup (fs w') q = lookup (fs w) q) /\
    fault w' = None /\ umask w' = umask w.
Proof.
  intros Op Sb Pf Pop P3 Po Pn Pm Hd Hn Hs Hsb Hh HC Hx Mis Ne Fw Dw Hbk Lf Hm Hr Hw Lb HX.
  rewrite (section_reapplied_gen o p f A B h hs st s w data mode Op Pf Pop P3 Po Pn Pm Hd Hn Hs Hh HC Hx Mis Ne Fw Dw Lf Hm Hr Hw HX).
  rewrite Sb.
  set (w1 := wstep w (fs w) (OOpenRead f)).
  destruct (write_now_backup_reg o (add_event st (assuming_msg o)) (lines_bytes (newline_output o) A) f false None (Some mode)
              w1 data mode Hbk eq_refl Hn Hs Hsb Lf Lb) as (w' & E & L1 & L2 & L3 & Fa & Um).
  rewrite mbind_eq, E. cbn [mret]. exists w'. split; [reflexivity|].
  cbn [mode_after_write] in L2. repeat split; assumption.
Qed.

(* byte for byte: f holds dataB, the patch is a diff of dataA to dataB (as lines), terminators survive the writing: the
   section leaves exactly dataA in f *)
Theorem section_reapplied_t_bytes o p f dataA dataB h hs st s w mode :
  batch_options o -> save_backup o = false ->
  pfmt p <> FGit -> (poper p = OpChange \/ poper p = OpAdd \/ poper p = OpDelete) -> prereq p = [] ->
  old_path p = f -> new_path p = f -> old_mode p = 0%N ->
  f <> Driver.devnull -> f <> [] -> ~ In 47%N f ->
  hunks p = h :: hs -> Conforming (split_lines dataA) (split_lines dataB) (h :: hs) ->
  (Z.of_nat (length (split_lines dataB)) < MAXZ)%Z ->
  first_misfits o (split_lines dataB) h ->
  (newline_output o = MKeep \/ newline_output o <> MCRLF /\ no_crlf (split_lines dataA)) ->
  (remove_empty_files o <> OBYes \/ dataA <> []) ->
  fault w = None -> deferred_writes st = [] ->
  lookup (fs w) f = Some (Reg dataB mode) -> (mode < 4096)%N -> owner_r mode = true -> owner_w mode = true ->
  process_section o st false p s w =
  (Ok (add_event st (assuming_msg o), s),
   mkWorld (upd (upd (fs w) f (Reg dataA mode)) f (Reg dataA mode)) (umask w)
           (trace w ++ [OOpenRead f; OWrite f dataA; OChmod f mode]) None (stdout_data w)).
Proof.
  intros Op Sb Pf Pop P3 Po Pn Pm Hd Hn Hs Hh HC Hx Mis Nl Ne Fw Dw Lf Hm Hr Hw.
  assert (WA : lines_bytes (newline_output o) (split_lines dataA) = dataA).
  { destruct Nl as [E|[E1 E2]]; [rewrite E|rewrite (lines_bytes_no_crlf _ _ E1 E2)]; apply split_lines_roundtrip. }
  assert (Ne' : remove_empty_files o <> OBYes \/ lines_bytes (newline_output o) (split_lines dataA) <> []) by (rewrite WA; exact Ne).
  pose proof (section_reapplied_t o p f _ _ h hs st s w dataB mode Op Sb Pf Pop P3 Po Pn Pm Hd Hn Hs Hh HC Hx Mis Ne' Fw Dw Lf Hm Hr Hw eq_refl) as E.
  cbv zeta in E. rewrite WA in E. exact E.
Qed.

(* ================================================================================================================== *)
(* (2) the run: from the text of the patch to the exit status                                                          *)
(* ================================================================================================================== *)

(* the -N side: the decision, stated on the lines alone *)
Definition looks_reversed_lines (o : options) (lines : list line) (h : hunk) : Prop :=
  first_misfits o lines h /\
  (loc_perfect (first_rloc o lines h) = true \/
   (loc_found (locate_hunk lines h (ignore_whitespace o) 0 (max_fuzz o) 0) = false /\ loc_found (first_rloc o lines h) = true)).

Lemma looks_reversed_plain o p lines h : creates_file p = false -> looks_reversed_lines o lines h -> looks_reversed o p lines h.
Proof. intros C [H1 H2]. unfold looks_reversed. rewrite (first_loc_plain o p lines h C). split; [exact H1|exact H2]. Qed.

(* the patch that made B out of A looks reversed on B as soon as its first hunk no longer fits B exactly at its place *)
Lemma conforming_looks_reversed o A B h hs :
  Conforming A B (h :: hs) -> (Z.of_nat (length B) < MAXZ)%Z -> (0 <= max_fuzz o)%Z ->
  first_misfits o B h -> looks_reversed_lines o B h.
Proof.
  intros HC Hmax HF Mis. split; [exact Mis|]. left.
  apply conforming_reverse in HC. cbn [map] in HC.
  inversion HC as [|a0 b0 gap h0 hs0 A0 B0 Hbd Hoc Hnc Hos Hns HC' Ea0 Eb0 Ea Eb]; subst a0 b0 h0 hs0.
  cbn [Nat.add] in Hos. unfold first_rloc. rewrite Ea.
  rewrite (locate_conf (ignore_whitespace o) (max_fuzz o) 0 B gap A0 (reverse_hunk h) (eq_sym Ea) Hbd Hoc Hos); [reflexivity|lia|exact HF|].
  exact Hmax.
Qed.

(* a well formed hunk is not changed by the shift by 0 that the reject writer applies *)
Lemma shift_hunk_0 h : wf_hunk h -> shift_hunk h 0 = h.
Proof.
  intros (_ & _ & [Ho _] & [Hn _] & _). unfold shift_hunk, shift_start, sadd, sat64, MINZ. destruct h as [[os oc] [ns nc] b].
  cbn [oldr newr rstart rcount body] in *. unfold MAXZ in *. f_equal; f_equal; lia.
Qed.

Lemma map_shift_0 hs : Forall wf_hunk hs -> map (fun h => shift_hunk h 0) hs = hs.
Proof. induction 1 as [|h r Hh Hr IH]; [reflexivity|]. cbn [map]. rewrite IH, (shift_hunk_0 h Hh). reflexivity. Qed.

(* section_ignored_gen of Proofs_DriverMore for a record that says Change, Add or Delete (diff -U0 hunks at the top of a file
   make the header scan say Add or Delete) *)
Lemma section_ignored_gen3 o p f h hs st s w data mode :
  ignoring_options o -> should_write_as_unified o p = true ->
  (poper p = OpChange \/ poper p = OpAdd \/ poper p = OpDelete) ->
  prereq p = [] -> old_path p = f -> new_path p = f -> f <> Driver.devnull -> f <> [] -> ~ In 47%N f ->
  hunks (effective o p) = h :: hs -> looks_reversed o (effective o p) (split_lines data) h ->
  fault w = None -> deferred_writes st = [] ->
  lookup (fs w) f = Some (Reg data mode) -> (mode < 4096)%N -> owner_r mode = true ->
  (N.land mode write_mask <> 0%N \/ read_only o <> ROFail) ->
  process_section o st false p s w =
  (let! _ := checked (OWrite (f ++ bs ".rej") (skipped_rejects (effective o p) (h :: hs))) in
   mret (ignored_state st (skipping_msg o) (length (hunks p)) (length (hunks p)), s))
    (wstep w (fs w) (OOpenRead f)).
Proof.
  intros (O1 & O2 & O3 & O4 & O5 & O6 & O7 & O8) Hu Pop P3 Po Pn Hd Hn Hs Hh L Fw Dw Lf Hm Hr Hw.
  assert (Ex : exists_ (fs w) f = true) by (unfold exists_; rewrite (stat_reg _ _ _ _ Hs Lf); reflexivity).
  assert (G : guess_filepath (fs w) (map d_dest (deferred_writes st)) p o = f).
  { unfold guess_filepath. rewrite Po. apply str_eqb_neq in Hd. rewrite Hd. cbn [negb andb]. rewrite Ex. reflexivity. }
  assert (Out : output_path o p f = f) by (unfold output_path; rewrite O2; destruct Pop as [E|[E|E]]; rewrite E; reflexivity).
  rewrite (head_existing o st p s w f data mode O1 G Out Dw Fw Lf Hm Hr Hw P3).
  2:{ destruct Pop as [E|[E|E]]; rewrite E; discriminate. } 2: exact Hn. 2: exact Hs.
  destruct (apply_ignored_total o (split_lines data) p h hs O5 O6 O7 O8 Hu Hh L) as (r & Er & Ro & Rf & Rs & Rm & Rj & Rl).
  rewrite mbind_eq. unfold mlift. rewrite Er.
  assert (Nz : r_failed r <> 0).
  { rewrite Rf. intros E. assert (X : length (hunks (effective o p)) = 0).
    { unfold effective. destruct (reverse_patch_opt o); [cbn [reverse_patch hunks]; rewrite map_length|]; exact E. }
    rewrite Hh in X. discriminate X. }
  rewrite (tail_skipped o st f f mode mode _ r s _ O2 O4 Rs Nz).
  assert (Rp : reject_path o f = f ++ bs ".rej") by (unfold reject_path; rewrite O3; reflexivity).
  rewrite Rp, Rm, Rj, Rl, Rf.
  rewrite (ensure_noslash (f ++ bs ".rej") (app_nonnil _ _ Hn) (noslash_app _ _ Hs noslash_rej)).
  rewrite (mbind_eq (mret tt)). cbn [mret]. reflexivity.
Qed.

Lemma section_ignored_N3 o p f h hs st s w data mode :
  ignoring_options o -> should_write_as_unified o p = true ->
  (poper p = OpChange \/ poper p = OpAdd \/ poper p = OpDelete) ->
  prereq p = [] -> old_path p = f -> new_path p = f -> f <> Driver.devnull -> f <> [] -> ~ In 47%N f ->
  hunks (effective o p) = h :: hs -> looks_reversed o (effective o p) (split_lines data) h ->
  fault w = None -> deferred_writes st = [] ->
  lookup (fs w) f = Some (Reg data mode) -> (mode < 4096)%N -> owner_r mode = true ->
  (N.land mode write_mask <> 0%N \/ read_only o <> ROFail) ->
  lookup (fs w) (f ++ bs ".rej") = None ->
  let rej := skipped_rejects (effective o p) (h :: hs) in
  process_section o st false p s w =
  (Ok (ignored_state st (skipping_msg o) (length (hunks p)) (length (hunks p)), s),
   mkWorld (upd (fs w) (f ++ bs ".rej") (Reg rej (created_mode (umask w)))) (umask w)
           (trace w ++ [OOpenRead f; OWrite (f ++ bs ".rej") rej]) None (stdout_data w)).
Proof.
  intros Op Hu Pop P3 Po Pn Hd Hn Hs Hh L Fw Dw Lf Hm Hr Hw Lr. cbv zeta.
  rewrite (section_ignored_gen3 o p f h hs st s w data mode Op Hu Pop P3 Po Pn Hd Hn Hs Hh L Fw Dw Lf Hm Hr Hw).
  set (w1 := wstep w (fs w) (OOpenRead f)).
  rewrite mbind_eq.
  rewrite (chk_write_absent (f ++ bs ".rej") _ w1 eq_refl (noslash_app _ _ Hs noslash_rej) Lr). cbn [mret].
  unfold wstep, w1. cbn [fs trace fault umask stdout_data wstep].
  rewrite <- app_assoc. reflexivity.
Qed.

(* ---------- from a statement about the one section to a statement about process_patch ---------- *)
Section Run.
Variables (o : options) (f0 : format) (pre0 : list (list N)) (p0 : patch).
Variables (oldname newname : list N) (t1 t2 : option (list N)) (h1 : hunk) (hs : list hunk) (tail : list N).
Variables (fname : list N).
Let pre := pre0 ++ [bs "--- " ++ oldname ++ tab_time t1; bs "+++ " ++ newname ++ tab_time t2].
Let bytes := join_lines pre ++ emit_hunks (h1 :: hs) ++ tail.

Hypothesis Hfo : format_from_options o = Ok f0.
(* header *)
Hypothesis Hlead : leads (strip_size o) (empty_patch f0) pre0 p0.
Hypothesis Hclean0 : Forall clean pre0.
Hypothesis Hp0 : poper p0 = OpChange /\ prereq p0 = [] /\ old_mode p0 = 0%N /\ new_mode p0 = 0%N /\ hunks p0 = [] /\
                 fmt_unknown_or p0 FUnified = true.
Hypothesis Hold : plain_name oldname.
Hypothesis Hnew : plain_name newname.
Hypothesis Holdc : clean (oldname ++ tab_time t1).
Hypothesis Hnewc : clean (newname ++ tab_time t2).
Hypothesis Holdf : stripped oldname (strip_size o) = fname.
Hypothesis Hnewf : stripped newname (strip_size o) = fname.
(* hunks, and what follows them *)
Hypothesis Hwf : Forall wf_hunk (h1 :: hs).
Hypothesis Htail : tail_ok tail.
Hypothesis Hends : ends_here o f0 (after tail) = true.

(* the record the scan hands over, with the hunks the body parser reads *)
Definition run_patch_record : patch := set_hunks (set_oper (named p0 fname fname t1 t2) (decide_oper h1 fname fname)) (h1 :: hs).
Let p := set_oper (named p0 fname fname t1 t2) (decide_oper h1 fname fname).

Lemma run_header :
  parse_patch_header_full (empty_patch f0) (strip_size o) (stream_of bytes) = Ok (true, p, strm (emit_hunks (h1 :: hs) ++ tail), true).
Proof.
  destruct Hp0 as (P1 & P2 & P2' & P3 & P4 & P5).
  change (stream_of bytes) with (strm bytes). unfold bytes, pre.
  rewrite (header_scan_gen (strip_size o) f0 pre0 p0 oldname newname t1 t2 h1 hs Hlead Hclean0 P1 P5 Hold Hnew Holdc Hnewc Hwf tail).
  rewrite Holdf, Hnewf. reflexivity.
Qed.

Lemma run_parsed w :
  process_section o ds0 true p (strm (emit_hunks (h1 :: hs) ++ tail)) w =
  process_section o ds0 false run_patch_record (after tail) w.
Proof.
  destruct Hp0 as (P1 & P2 & P2' & P3 & P4 & P5).
  assert (Hne : h1 :: hs <> []) by discriminate.
  apply process_section_parsed; [exact P4|]. intros q Q1 Q2. apply unified_body_fresh; try assumption. left. rewrite Q1. reflexivity.
Qed.

(* a section that ends normally, leaves the stream where the body parser left it and defers nothing is the whole run *)
Lemma run_of_section st1 w w1 :
  process_section o ds0 false run_patch_record (after tail) w = (Ok (st1, after tail), w1) ->
  deferred_writes st1 = [] -> deferred_removals st1 = [] ->
  process_patch o bytes w = (Ok (exit_of st1, events st1), w1).
Proof.
  intros E Dw Dr.
  apply (process_patch_single o f0 bytes true p (strm (emit_hunks (h1 :: hs) ++ tail)) true st1 (after tail) w w1 Hfo run_header).
  - discriminate.
  - unfold p. cbn [set_oper poper]. destruct (decide_oper_cases h1 fname fname) as [E0|[E0|E0]]; rewrite E0; discriminate.
  - rewrite run_parsed. exact E.
  - exact Dw.
  - exact Dr.
  - exact Hends.
Qed.

(* the fields of the record *)
Lemma run_record_fields :
  pfmt run_patch_record = FUnified /\
  (poper run_patch_record = OpChange \/ poper run_patch_record = OpAdd \/ poper run_patch_record = OpDelete) /\
  prereq run_patch_record = [] /\ old_path run_patch_record = fname /\ new_path run_patch_record = fname /\
  old_mode run_patch_record = 0%N /\ new_mode run_patch_record = 0%N /\ hunks run_patch_record = h1 :: hs.
Proof.
  destruct Hp0 as (P1 & P2 & P2' & P3 & P4 & P5). unfold run_patch_record.
  cbn [set_hunks set_oper named pfmt poper prereq old_path new_path old_mode new_mode hunks].
  repeat split; try assumption. exact (decide_oper_cases h1 fname fname).
Qed.
End Run.

(* the text of a unified patch for one file: lines that mean nothing to the header scan, the two file lines, the hunks as the
   formatter writes them, then nothing or text that holds no further patch *)
Definition unified_text (fl : list (list N)) (oldname : list N) (t1 : option (list N)) (newname : list N) (t2 : option (list N))
           (hs : list hunk) (tail : list N) : list N :=
  join_lines (fl ++ [bs "--- " ++ oldname ++ tab_time t1; bs "+++ " ++ newname ++ tab_time t2]) ++ emit_hunks hs ++ tail.

Lemma p0_empty_both f : f = FUnknown \/ f = FUnified ->
  poper (empty_patch f) = OpChange /\ prereq (empty_patch f) = [] /\ old_mode (empty_patch f) = 0%N /\ new_mode (empty_patch f) = 0%N /\
  hunks (empty_patch f) = [] /\ fmt_unknown_or (empty_patch f) FUnified = true.
Proof. intros H. repeat split; try reflexivity. apply fmt_unknown_or_empty. exact H. Qed.

Lemma noslash_not_devnull f : ~ In 47%N f -> f <> Driver.devnull.
Proof. intros H ->. apply H. left. reflexivity. Qed.

(* (2) under -t: the run on the text of the patch that made B out of A, in a world where f holds B: exit status 0, the report
   is the announcement, f holds A again with its mode, nothing else is touched (no reject file, no backup), the operations
   are the reading of f, the writing of f and the chmod *)
Theorem process_patch_reapplied_t o f0 fl oldname t1 newname t2 h1 hs tail fname A B w data mode :
  batch_options o -> save_backup o = false ->
  format_from_options o = Ok f0 -> f0 = FUnknown \/ f0 = FUnified ->
  Forall (Filler (strip_size o) (empty_patch f0)) fl -> Forall clean fl ->
  plain_name oldname -> plain_name newname -> clean (oldname ++ tab_time t1) -> clean (newname ++ tab_time t2) ->
  stripped oldname (strip_size o) = fname -> stripped newname (strip_size o) = fname ->
  fname <> [] /\ ~ In 47%N fname ->
  Forall wf_hunk (h1 :: hs) -> Conforming A B (h1 :: hs) -> (Z.of_nat (length B) < MAXZ)%Z ->
  first_misfits o B h1 ->
  remove_empty_files o <> OBYes \/ lines_bytes (newline_output o) A <> [] ->
  tail_ok tail -> ends_here o f0 (after tail) = true ->
  fault w = None -> lookup (fs w) fname = Some (Reg data mode) -> (mode < 4096)%N -> owner_r mode = true -> owner_w mode = true ->
  split_lines data = B ->
  let bytes := lines_bytes (newline_output o) A in
  process_patch o (unified_text fl oldname t1 newname t2 (h1 :: hs) tail) w =
  (Ok (0, assuming_msg o),
   mkWorld (upd (upd (fs w) fname (Reg bytes mode)) fname (Reg bytes mode)) (umask w)
           (trace w ++ [OOpenRead fname; OWrite fname bytes; OChmod fname mode]) None (stdout_data w)).
Proof.
  intros Op Sb Hfo Hf0 HF HCl Ho Hn Hoc Hnc Hof Hnf (F1 & F2) Hwf HC Hx Mis Ne Ht He Fw Lf Hm Hr Hw HS. cbv zeta.
  pose proof (leads_fillers _ _ _ HF) as Hl. pose proof (p0_empty_both f0 Hf0) as Hp0.
  destruct (run_record_fields (empty_patch f0) t1 t2 h1 hs fname Hp0) as (R1 & R2 & R3 & R4 & R5 & R6 & R7 & R8).
  pose proof (section_reapplied_t o (run_patch_record (empty_patch f0) t1 t2 h1 hs fname) fname A B h1 hs ds0 (after tail) w data mode Op Sb) as E.
  cbv zeta in E. rewrite R1 in E. specialize (E ltac:(discriminate) R2 R3 R4 R5 R6 (noslash_not_devnull _ F2) F1 F2 R8 HC Hx Mis Ne Fw eq_refl Lf Hm Hr Hw HS).
  unfold unified_text.
  rewrite (run_of_section o f0 fl (empty_patch f0) oldname newname t1 t2 h1 hs tail fname Hfo Hl HCl Hp0 Ho Hn Hoc Hnc Hof Hnf Hwf Ht He _ w _ E);
    reflexivity.
Qed.

(* what -N writes to f.rej for a patch read from such a text: the two header lines with the name the file was found under,
   then the hunks as they stand in the patch *)
Definition unified_rejects (fname : list N) (t1 t2 : option (list N)) (hs : list hunk) : list N :=
  fmt_header_line (bs "--- ") fname (opt_or (time_read t1) []) ++ fmt_header_line (bs "+++ ") fname (opt_or (time_read t2) []) ++ emit_hunks hs.

(* (2) under -N, the decision stated on the lines of the file (first hunk does not fit exactly; its reverse does, or fits
   somehow while the hunk does not fit at all): exit status 1, the report is the announcement and "n out of n hunks ignored",
   f is not written (the only operations are the reading of f and the creation of f.rej), f.rej holds the header and all hunks *)
Theorem process_patch_ignored_N o f0 fl oldname t1 newname t2 h1 hs tail fname w data mode :
  ignoring_options o -> reverse_patch_opt o = false -> reject_format_opt o <> RFContext ->
  format_from_options o = Ok f0 -> f0 = FUnknown \/ f0 = FUnified ->
  Forall (Filler (strip_size o) (empty_patch f0)) fl -> Forall clean fl ->
  plain_name oldname -> plain_name newname -> clean (oldname ++ tab_time t1) -> clean (newname ++ tab_time t2) ->
  stripped oldname (strip_size o) = fname -> stripped newname (strip_size o) = fname ->
  fname <> [] /\ ~ In 47%N fname ->
  Forall wf_hunk (h1 :: hs) ->
  looks_reversed_lines o (split_lines data) h1 ->
  tail_ok tail -> ends_here o f0 (after tail) = true ->
  fault w = None -> lookup (fs w) fname = Some (Reg data mode) -> (mode < 4096)%N -> owner_r mode = true ->
  (N.land mode write_mask <> 0%N \/ read_only o <> ROFail) ->
  lookup (fs w) (fname ++ bs ".rej") = None ->
  let rej := unified_rejects fname t1 t2 (h1 :: hs) in
  let n := S (length hs) in
  process_patch o (unified_text fl oldname t1 newname t2 (h1 :: hs) tail) w =
  (Ok (1, skipping_msg o ++ inform_hunks_failed (bs "ignored") n n ++ [10%N]),
   mkWorld (upd (fs w) (fname ++ bs ".rej") (Reg rej (created_mode (umask w)))) (umask w)
           (trace w ++ [OOpenRead fname; OWrite (fname ++ bs ".rej") rej]) None (stdout_data w)).
Proof.
  intros Op Rv Rf Hfo Hf0 HF HCl Ho Hn Hoc Hnc Hof Hnf (F1 & F2) Hwf L Ht He Fw Lf Hm Hr Hw Lr. cbv zeta.
  pose proof (leads_fillers _ _ _ HF) as Hl. pose proof (p0_empty_both f0 Hf0) as Hp0.
  destruct (run_record_fields (empty_patch f0) t1 t2 h1 hs fname Hp0) as (R1 & R2 & R3 & R4 & R5 & R6 & R7 & R8).
  set (P := run_patch_record (empty_patch f0) t1 t2 h1 hs fname) in *.
  assert (Eff : effective o P = P) by (unfold effective; rewrite Rv; reflexivity).
  assert (Hu : should_write_as_unified o P = true).
  { unfold should_write_as_unified. rewrite R1. destruct (reject_format_opt o); try reflexivity. congruence. }
  pose proof (noslash_not_devnull _ F2) as Hd.
  assert (Hh : hunks (effective o P) = h1 :: hs) by (rewrite Eff; exact R8).
  assert (L' : looks_reversed o (effective o P) (split_lines data) h1).
  { rewrite Eff. apply looks_reversed_plain; [exact (not_creating P fname R4 Hd)|exact L]. }
  pose proof (section_ignored_N3 o P fname h1 hs ds0 (after tail) w data mode Op Hu R2 R3 R4 R5 Hd F1 F2 Hh L' Fw eq_refl Lf Hm Hr Hw Lr) as E.
  cbv zeta in E.
  assert (Rj : skipped_rejects (effective o P) (h1 :: hs) = unified_rejects fname t1 t2 (h1 :: hs)).
  { rewrite Eff. unfold skipped_rejects, unified_rejects. rewrite (map_shift_0 _ Hwf). unfold emit_hunks.
    unfold write_patch_header_as_unified. rewrite R4, R5. rewrite <- app_assoc. reflexivity. }
  rewrite Rj, R8 in E.
  unfold unified_text.
  rewrite (run_of_section o f0 fl (empty_patch f0) oldname newname t1 t2 h1 hs tail fname Hfo Hl HCl Hp0 Ho Hn Hoc Hnc Hof Hnf Hwf Ht He _ w _ E);
    reflexivity.
Qed.

(* (2) under -N for the patch that made B out of A *)
Theorem process_patch_reapplied_N o f0 fl oldname t1 newname t2 h1 hs tail fname A B w data mode :
  ignoring_options o -> reverse_patch_opt o = false -> reject_format_opt o <> RFContext -> (0 <= max_fuzz o)%Z ->
  format_from_options o = Ok f0 -> f0 = FUnknown \/ f0 = FUnified ->
  Forall (Filler (strip_size o) (empty_patch f0)) fl -> Forall clean fl ->
  plain_name oldname -> plain_name newname -> clean (oldname ++ tab_time t1) -> clean (newname ++ tab_time t2) ->
  stripped oldname (strip_size o) = fname -> stripped newname (strip_size o) = fname ->
  fname <> [] /\ ~ In 47%N fname ->
  Forall wf_hunk (h1 :: hs) -> Conforming A B (h1 :: hs) -> (Z.of_nat (length B) < MAXZ)%Z ->
  first_misfits o B h1 ->
  tail_ok tail -> ends_here o f0 (after tail) = true ->
  fault w = None -> lookup (fs w) fname = Some (Reg data mode) -> (mode < 4096)%N -> owner_r mode = true ->
  (N.land mode write_mask <> 0%N \/ read_only o <> ROFail) ->
  lookup (fs w) (fname ++ bs ".rej") = None ->
  split_lines data = B ->
  let rej := unified_rejects fname t1 t2 (h1 :: hs) in
  let n := S (length hs) in
  process_patch o (unified_text fl oldname t1 newname t2 (h1 :: hs) tail) w =
  (Ok (1, skipping_msg o ++ inform_hunks_failed (bs "ignored") n n ++ [10%N]),
   mkWorld (upd (fs w) (fname ++ bs ".rej") (Reg rej (created_mode (umask w)))) (umask w)
           (trace w ++ [OOpenRead fname; OWrite (fname ++ bs ".rej") rej]) None (stdout_data w)).
Proof.
  intros Op Rv Rf HFz Hfo Hf0 HF HCl Ho Hn Hoc Hnc Hof Hnf Hfn Hwf HC Hx Mis Ht He Fw Lf Hm Hr Hw Lr HS.
  apply (process_patch_ignored_N o f0 fl oldname t1 newname t2 h1 hs tail fname w data mode); try assumption.
  rewrite HS. exact (conforming_looks_reversed o A B h1 hs HC Hx HFz Mis).
Qed.

(* ---------- the whole program ---------- *)
(* patch on standard input *)
Theorem run_patch_reapplied_t o f0 fl oldname t1 newname t2 h1 hs tail fname A B w data mode :
  (patch_file_path o = [] \/ patch_file_path o = bs "-") ->
  batch_options o -> save_backup o = false ->
  format_from_options o = Ok f0 -> f0 = FUnknown \/ f0 = FUnified ->
  Forall (Filler (strip_size o) (empty_patch f0)) fl -> Forall clean fl ->
  plain_name oldname -> plain_name newname -> clean (oldname ++ tab_time t1) -> clean (newname ++ tab_time t2) ->
  stripped oldname (strip_size o) = fname -> stripped newname (strip_size o) = fname ->
  fname <> [] /\ ~ In 47%N fname ->
  Forall wf_hunk (h1 :: hs) -> Conforming A B (h1 :: hs) -> (Z.of_nat (length B) < MAXZ)%Z ->
  first_misfits o B h1 ->
  remove_empty_files o <> OBYes \/ lines_bytes (newline_output o) A <> [] ->
  tail_ok tail -> ends_here o f0 (after tail) = true ->
  fault w = None -> lookup (fs w) fname = Some (Reg data mode) -> (mode < 4096)%N -> owner_r mode = true -> owner_w mode = true ->
  split_lines data = B ->
  let bytes := lines_bytes (newline_output o) A in
  run_patch o (unified_text fl oldname t1 newname t2 (h1 :: hs) tail) w =
  mkRR 0 (assuming_msg o)
       (mkWorld (upd (upd (fs w) fname (Reg bytes mode)) fname (Reg bytes mode)) (umask w)
                (trace w ++ [OOpenRead fname; OWrite fname bytes; OChmod fname mode]) None (stdout_data w)).
Proof.
  intros Hin. intros. cbv zeta. apply run_patch_stdin; [exact Hin|].
  apply (process_patch_reapplied_t o f0 fl oldname t1 newname t2 h1 hs tail fname A B w data mode); assumption.
Qed.

(* patch in a readable file of the working directory named with -i *)
Theorem run_patch_file_reapplied_t o f0 fl oldname t1 newname t2 h1 hs tail fname A B w data mode pf pm stdin :
  patch_file_path o = pf -> pf <> [] -> pf <> bs "-" -> ~ In 47%N pf ->
  lookup (fs w) pf = Some (Reg (unified_text fl oldname t1 newname t2 (h1 :: hs) tail) pm) -> owner_r pm = true ->
  batch_options o -> save_backup o = false ->
  format_from_options o = Ok f0 -> f0 = FUnknown \/ f0 = FUnified ->
  Forall (Filler (strip_size o) (empty_patch f0)) fl -> Forall clean fl ->
  plain_name oldname -> plain_name newname -> clean (oldname ++ tab_time t1) -> clean (newname ++ tab_time t2) ->
  stripped oldname (strip_size o) = fname -> stripped newname (strip_size o) = fname ->
  fname <> [] /\ ~ In 47%N fname ->
  Forall wf_hunk (h1 :: hs) -> Conforming A B (h1 :: hs) -> (Z.of_nat (length B) < MAXZ)%Z ->
  first_misfits o B h1 ->
  remove_empty_files o <> OBYes \/ lines_bytes (newline_output o) A <> [] ->
  tail_ok tail -> ends_here o f0 (after tail) = true ->
  fault w = None -> lookup (fs w) fname = Some (Reg data mode) -> (mode < 4096)%N -> owner_r mode = true -> owner_w mode = true ->
  split_lines data = B ->
  let bytes := lines_bytes (newline_output o) A in
  run_patch o stdin w =
  mkRR 0 (assuming_msg o)
       (mkWorld (upd (upd (fs w) fname (Reg bytes mode)) fname (Reg bytes mode)) (umask w)
                (trace w ++ [OOpenRead pf; OOpenRead fname; OWrite fname bytes; OChmod fname mode]) None (stdout_data w)).
Proof.
  intros Hp Hn Hd Hs Lp Hrp. intros. cbv zeta.
  set (w0 := mkWorld (fs w) (umask w) (trace w ++ [OOpenRead pf]) None (stdout_data w)).
  eapply (run_patch_file o stdin w pf); try eassumption.
  fold w0.
  rewrite (process_patch_reapplied_t o f0 fl oldname t1 newname t2 h1 hs tail fname A B w0 data mode); try assumption; try reflexivity.
  unfold w0. cbn [fs umask trace stdout_data]. rewrite <- app_assoc. reflexivity.
Qed.

Theorem run_patch_reapplied_N o f0 fl oldname t1 newname t2 h1 hs tail fname A B w data mode :
  (patch_file_path o = [] \/ patch_file_path o = bs "-") ->
  ignoring_options o -> reverse_patch_opt o = false -> reject_format_opt o <> RFContext -> (0 <= max_fuzz o)%Z ->
  format_from_options o = Ok f0 -> f0 = FUnknown \/ f0 = FUnified ->
  Forall (Filler (strip_size o) (empty_patch f0)) fl -> Forall clean fl ->
  plain_name oldname -> plain_name newname -> clean (oldname ++ tab_time t1) -> clean (newname ++ tab_time t2) ->
  stripped oldname (strip_size o) = fname -> stripped newname (strip_size o) = fname ->
  fname <> [] /\ ~ In 47%N fname ->
  Forall wf_hunk (h1 :: hs) -> Conforming A B (h1 :: hs) -> (Z.of_nat (length B) < MAXZ)%Z ->
  first_misfits o B h1 ->
  tail_ok tail -> ends_here o f0 (after tail) = true ->
  fault w = None -> lookup (fs w) fname = Some (Reg data mode) -> (mode < 4096)%N -> owner_r mode = true ->
  (N.land mode write_mask <> 0%N \/ read_only o <> ROFail) ->
  lookup (fs w) (fname ++ bs ".rej") = None ->
  split_lines data = B ->
  let rej := unified_rejects fname t1 t2 (h1 :: hs) in
  let n := S (length hs) in
  run_patch o (unified_text fl oldname t1 newname t2 (h1 :: hs) tail) w =
  mkRR 1 (skipping_msg o ++ inform_hunks_failed (bs "ignored") n n ++ [10%N])
       (mkWorld (upd (fs w) (fname ++ bs ".rej") (Reg rej (created_mode (umask w)))) (umask w)
                (trace w ++ [OOpenRead fname; OWrite (fname ++ bs ".rej") rej]) None (stdout_data w)).
Proof.
  intros Hin. intros. cbv zeta. apply run_patch_stdin; [exact Hin|].
  apply (process_patch_reapplied_N o f0 fl oldname t1 newname t2 h1 hs tail fname A B w data mode); assumption.
Qed.

Theorem run_patch_file_reapplied_N o f0 fl oldname t1 newname t2 h1 hs tail fname A B w data mode pf pm stdin :
  patch_file_path o = pf -> pf <> [] -> pf <> bs "-" -> ~ In 47%N pf ->
  lookup (fs w) pf = Some (Reg (unified_text fl oldname t1 newname t2 (h1 :: hs) tail) pm) -> owner_r pm = true ->
  ignoring_options o -> reverse_patch_opt o = false -> reject_format_opt o <> RFContext -> (0 <= max_fuzz o)%Z ->
  format_from_options o = Ok f0 -> f0 = FUnknown \/ f0 = FUnified ->
  Forall (Filler (strip_size o) (empty_patch f0)) fl -> Forall clean fl ->
  plain_name oldname -> plain_name newname -> clean (oldname ++ tab_time t1) -> clean (newname ++ tab_time t2) ->
  stripped oldname (strip_size o) = fname -> stripped newname (strip_size o) = fname ->
  fname <> [] /\ ~ In 47%N fname ->
  Forall wf_hunk (h1 :: hs) -> Conforming A B (h1 :: hs) -> (Z.of_nat (length B) < MAXZ)%Z ->
  first_misfits o B h1 ->
  tail_ok tail -> ends_here o f0 (after tail) = true ->
  fault w = None -> lookup (fs w) fname = Some (Reg data mode) -> (mode < 4096)%N -> owner_r mode = true ->
  (N.land mode write_mask <> 0%N \/ read_only o <> ROFail) ->
  lookup (fs w) (fname ++ bs ".rej") = None ->
  split_lines data = B ->
  let rej := unified_rejects fname t1 t2 (h1 :: hs) in
  let n := S (length hs) in
  run_patch o stdin w =
  mkRR 1 (skipping_msg o ++ inform_hunks_failed (bs "ignored") n n ++ [10%N])
       (mkWorld (upd (fs w) (fname ++ bs ".rej") (Reg rej (created_mode (umask w)))) (umask w)
                (trace w ++ [OOpenRead pf; OOpenRead fname; OWrite (fname ++ bs ".rej") rej]) None (stdout_data w)).
Proof.
  intros Hp Hn Hd Hs Lp Hrp. intros. cbv zeta.
  set (w0 := mkWorld (fs w) (umask w) (trace w ++ [OOpenRead pf]) None (stdout_data w)).
  eapply (run_patch_file o stdin w pf); try eassumption.
  fold w0.
  rewrite (process_patch_reapplied_N o f0 fl oldname t1 newname t2 h1 hs tail fname A B w0 data mode); try assumption; try reflexivity.
  unfold w0. cbn [fs umask trace stdout_data]. rewrite <- app_assoc. reflexivity.
Qed.

(* ================================================================================================================== *)
(* (3) -f: no guess is made                                                                                            *)
(* ================================================================================================================== *)

(* apply_patch without the look at the reversed first hunk: the plain loop over all hunks, each one placed by locate_for
   (locate_hunk, except that a patch which creates a file never fits a file with content) and applied or rejected *)
Definition apply_patch_plain (o : options) (lines : list line) (p0 : patch) : res aresult :=
  let p := if reverse_patch_opt o then reverse_patch p0 else p0 in
  do s <- apply_rest o p lines 0 (mkAS [] [] 0 0 0%Z 0%Z false true [] []) (hunks p);
  Ok (mkAR (a_out s ++ skipn (a_ln s) lines) (a_rej s) (a_rejected s) (a_skip s) (a_perfect s) (a_msgs s)
           (set_hunks p (a_hunks s))).

Lemma apply_patch_force o lines p : force o = true -> apply_patch o lines p = apply_patch_plain o lines p.
Proof.
  intros Hf. unfold apply_patch, apply_patch_plain. cbv zeta. rewrite (apply_first_force _ _ _ _ _ Hf). unfold with_patch.
  destruct (apply_rest _ _ _ _ _ _) as [s|e]; reflexivity.
Qed.

(* Driver.process_section with the applier as a parameter (the same text; the first lemma below says so) *)
Definition process_section_with (ap : list line -> patch -> res aresult)
           (o : options) (st : Driver.dstate) (should : bool) (p : patch) (s : stream) : M (Driver.dstate * stream) :=
  let! m := get_fs in
  let file_to_patch := if is_nil (file_to_patch o) then guess_filepath m (map d_dest (deferred_writes st)) p o else file_to_patch o in
  if is_nil file_to_patch then mthrow ESystem
  else
  let output_file := output_path o p file_to_patch in
  if exists_ m file_to_patch && negb (is_regular_file m file_to_patch) then
    let! ps := body_if should p s in
    let! st' := refuse_to_patch o st output_file (fst ps) in mret (st', snd ps)
  else
  let old_perms := effective_perms st m output_file in
  let needed := N.eqb (N.land old_perms write_mask) 0 in
  if needed && match read_only o with ROFail => true | _ => false end then
    let! ps := body_if should p s in
    let! st' := refuse_to_patch o st output_file (fst ps) in mret (st', snd ps)
  else
  let old_perms1 :=
    if N.eqb old_perms perms_unknown && match poper p with OpRename | OpCopy => true | _ => false end
    then get_permissions m file_to_patch else old_perms in
  let pending := pending_content st m file_to_patch output_file in
  let! input_lines :=
    (match pending with
     | Some data => mret (split_lines data)
     | None =>
         let! r := perform (OOpenRead file_to_patch) in
         match r with
         | None => match stat m file_to_patch with
                   | Some (Reg d _) => mret (split_lines d)
                   | _ => mthrow ESystem
                   end
         | Some ENOENT => if is_adding_file p o then mret [] else mthrow ESystem
         | Some _ => mthrow ESystem
         end
     end) in
  let! _ := (if negb (is_nil (prereq p)) && negb (has_prerequisite input_lines (prereq p)) then
               if batch o then mthrow ERuntime else if force o then mret tt else mthrow ESystem
             else mret tt) in
  let p1 := match poper p with
            | OpRename => if str_eqb file_to_patch output_file then set_oper p OpChange else p
            | _ => p
            end in
  let! ps := body_if should p1 s in
  let '(p2, s2) := ps in
  let! ar := mlift (ap input_lines p2) in
  section_tail o st file_to_patch output_file old_perms old_perms1 needed ar s2.

Lemma process_section_with_apply o st should p s :
  process_section o st should p s = process_section_with (apply_patch o) o st should p s.
Proof. reflexivity. Qed.

(* the section looks at the applier only through its results *)
Lemma process_section_with_ext ap ap' o st should p s :
  (forall lines q, ap lines q = ap' lines q) ->
  forall w, process_section_with ap o st should p s w = process_section_with ap' o st should p s w.
Proof.
  intros H w. unfold process_section_with. apply mbind_ext. intros m w1. cbv zeta.
  destruct (is_nil _); [reflexivity|].
  destruct (exists_ m _ && _); [reflexivity|].
  destruct (N.eqb _ 0 && _); [reflexivity|].
  apply mbind_ext. intros input_lines w2.
  apply mbind_ext. intros _ w3.
  apply mbind_ext. intros [p2 s2] w4. rewrite H. reflexivity.
Qed.

(* (3): with -f the section is the section run with the plain loop in place of apply_patch: the reversed first hunk is never
   looked at, neither "Reversed (or previously applied) patch detected!" nor "Unreversed patch detected!" can be part of the
   report, nothing is skipped or reversed on a guess; whatever -N or -t say *)
Theorem section_force_no_guess o st should p s w :
  force o = true ->
  process_section o st should p s w = process_section_with (apply_patch_plain o) o st should p s w.
Proof.
  intros Hf. rewrite process_section_with_apply. apply process_section_with_ext. intros lines q. apply apply_patch_force. exact Hf.
Qed.

(* what the plain loop can say: hunk reports ("Hunk #k succeeded at ... / FAILED at ... / skipped at ..."), one after another *)
Inductive stats_only : list N -> Prop :=
| stats_nil : stats_only []
| stats_cons k sk loc h o2n oe rest : stats_only rest -> stats_only (print_hunk_statistics k sk loc h o2n oe ++ rest).

Lemma stats_only_app a b : stats_only a -> stats_only b -> stats_only (a ++ b).
Proof. induction 1 as [|k sk loc h o2n oe rest Hr IH]; intros Hb; [exact Hb|]. rewrite <- app_assoc. constructor. apply IH. exact Hb. Qed.

Lemma apply_one_msgs o p f k s h loc s' :
  apply_one o p f k s h loc = Ok s' -> exists m, a_msgs s' = a_msgs s ++ m /\ stats_only m.
Proof.
  unfold apply_one.
  match goal with |- (do s1 <- ?X; _) = _ -> _ => destruct X as [[s2 hcur]|e] eqn:E1 end; cbn [rbind]; [|discriminate].
  assert (Hm : a_msgs s2 = a_msgs s).
  { destruct loc as [l|].
    - destruct (negb (a_skip s)).
      + destruct (if is_nil (define_macro o) then _ else _) as [wr|e]; cbn [rbind] in E1; [|discriminate].
        inversion E1; subst. reflexivity.
      + destruct (write_reject _ _ _ _) as [t|e]; cbn [rbind] in E1; [|discriminate]. inversion E1; subst. reflexivity.
    - destruct (write_reject _ _ _ _) as [t|e]; cbn [rbind] in E1; [|discriminate]. inversion E1; subst. reflexivity. }
  intros [= <-]. cbn [a_msgs]. rewrite Hm.
  destruct (verbose o || negb (loc_perfect loc) && negb (a_skip s2)).
  - eexists. split; [reflexivity|]. rewrite <- (app_nil_r (print_hunk_statistics _ _ _ _ _ _)). constructor. constructor.
  - exists []. rewrite app_nil_r. split; [reflexivity|constructor].
Qed.

Lemma apply_rest_msgs o p f : forall hs k s s',
  apply_rest o p f k s hs = Ok s' -> exists m, a_msgs s' = a_msgs s ++ m /\ stats_only m.
Proof.
  induction hs as [|h hs IH]; intros k s s'; cbn [apply_rest].
  - intros [= <-]. exists []. rewrite app_nil_r. split; [reflexivity|constructor].
  - destruct (apply_one _ _ _ _ _ _ _) as [s1|e] eqn:E1; cbn [rbind]; [|discriminate]. intros E2.
    destruct (apply_one_msgs _ _ _ _ _ _ _ _ E1) as (m1 & M1 & S1). destruct (IH _ _ _ E2) as (m2 & M2 & S2).
    exists (m1 ++ m2). rewrite M2, M1, app_assoc. split; [reflexivity|apply stats_only_app; assumption].
Qed.

(* with -f everything apply_patch says is hunk reports *)
Theorem force_messages o lines p r : force o = true -> apply_patch o lines p = Ok r -> stats_only (r_msgs r).
Proof.
  intros Hf. rewrite (apply_patch_force o lines p Hf). unfold apply_patch_plain. cbv zeta.
  destruct (apply_rest _ _ _ _ _ _) as [s|e] eqn:E; cbn [rbind]; [|discriminate]. intros [= <-]. cbn [r_msgs].
  destruct (apply_rest_msgs _ _ _ _ _ _ _ E) as (m & M & S). rewrite M. exact S.
Qed.

(* ... so the report of the section cannot begin with (nor, being made of "Hunk #..." lines, contain) the announcement *)
Lemma starts_with_prefix : forall p x, starts_with (p ++ x) p = true.
Proof. induction p as [|c p IH]; intros x; [destruct x; reflexivity|]. cbn [app starts_with]. rewrite N.eqb_refl, IH. reflexivity. Qed.

Lemma stats_only_head m : stats_only m -> m = [] \/ starts_with m (bs "Hunk #") = true.
Proof. intros [|k sk loc h o2n oe rest _]; [left; reflexivity|right]. unfold print_hunk_statistics. rewrite <- !app_assoc. apply starts_with_prefix. Qed.

(* the announcement as text, without -R *)
Lemma assuming_msg_plain o : reverse_patch_opt o = false ->
  assuming_msg o = bs "Reversed (or previously applied) patch detected!  Assuming -R." ++ [10%N].
Proof. intros H. unfold assuming_msg. rewrite H. reflexivity. Qed.
