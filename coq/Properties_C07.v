(* Properties_C07.v — C07, the part a model can carry: the run always ends with exit status 0, 1 or 2, and the model's
   parsers are total (they answer on every byte string; see Properties_C08.v for "never out of fuel").
   Memory safety, signed overflow and aborts of the C++ are observed with sanitizers on generated inputs, not proved. *)
From PatchV Require Import Base Lines Hunk Options World Driver.

Theorem exit_status_range : forall o stdin w, rr_exit (run_patch o stdin w) <= 2.
Proof.
  intros o stdin w. unfold run_patch.
  destruct ((let! b := patch_file_bytes o stdin in process_patch o b) w) as [[[code ev]|e] w'] eqn:E; cbn [rr_exit]; [|lia].
  unfold mbind in E. destruct (patch_file_bytes o stdin w) as [[b|e] w1]; [|discriminate].
  unfold process_patch, mbind in E.
  destruct (mlift (format_from_options o) w1) as [[f|e] w2]; [|discriminate].
  destruct (section_loop (S (S (length b))) o f (mkDS false [] [] [] []) (Parser.stream_of b) true w2) as [[st|e] w3]; [|discriminate].
  destruct (finalize_writes o st (deferred_writes st) w3) as [[st1|e] w4]; [|discriminate].
  destruct (finalize_removals (deferred_writes st) (deferred_removals st) w4) as [[[]|e] w5]; [|discriminate].
  cbn [mret] in E. inversion E. destruct (had_failure st1); lia.
Qed.
Print Assumptions exit_status_range.
