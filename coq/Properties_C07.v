(* Properties_C07.v — C07, the part a model can carry: the run always ends with exit status 0, 1 or 2, and the model's
   parsers are total (they answer on every byte string; see Properties_C08.v for "never out of fuel").
   Memory safety, signed overflow and aborts of the C++ are observed with sanitizers on generated inputs, not proved. *)
From PatchV Require Import Base Lines Hunk Options World Driver Locator Formatter Applier LineParser Parser Spec_Locate Proofs_Unified Proofs_Apply Proofs_ArithParse Proofs_ArithHeader Proofs_ArithSize Proofs_Arith.

Theorem exit_status_range : forall o stdin w, rr_exit (run_patch o stdin w) <= 2.
Proof.
  intros o stdin w. unfold run_patch.
  destruct ((let! b := patch_file_bytes o stdin in process_patch o b) w) as [[[code ev]|e] w'] eqn:E; cbn [rr_exit]; [|lia].
  unfold mbind in E. destruct (patch_file_bytes o stdin w) as [[b|e] w1]; [|discriminate].
  unfold process_patch, mbind in E.
  destruct (mlift (format_from_options o) w1) as [[f|e] w2]; [|discriminate].
  destruct (section_loop (S (S (length b))) o f (mkDS false [] [] [] []) (Parser.stream_of b) true w2) as [[st|e] w3]; [|discriminate].
  destruct (finalize_writes o st (deferred_writes st) w3) as [[st1|e] w4]; [|discriminate].
  destruct (finalize_removals (deferred_writes st) (deferred_removals st) w4) as [[[]|e] w5]; [|discriminate].
  cbn [mret] in E. inversion E. destruct (had_failure st1); lia.
Qed.
Print Assumptions exit_status_range.

(* ---------------------------------------------------------------------------------------------------------------
   C07, signed arithmetic: every integer the model computes at a site where the C++ uses plain (non-saturating) int64
   arithmetic lies in [-2^63, 2^63-1], for every patch the parser accepts and every target (proofs in Proofs_ArithParse.v,
   Proofs_ArithHeader.v, Proofs_ArithSize.v, Proofs_Arith.v; the table of sites is the comment at the top of Proofs_Arith.v). *)
Local Open Scope Z_scope.

(* ---- saturating sites ---- *)
Theorem sat64_in64 : forall z, in64 (sat64 z).
Proof. exact Proofs_ArithParse.sat64_in64. Qed.
Print Assumptions sat64_in64.

(* ---- numbers read from the patch ---- *)
Theorem string_to_line_number_range : forall s v, string_to_line_number s = Some v -> 0 <= Z.of_N v <= MAXZ.
Proof. exact Proofs_ArithParse.string_to_line_number_range. Qed.
Print Assumptions string_to_line_number_range.

Theorem consume_line_number_range : forall s ok v r, consume_line_number s = Some (ok, v, r) -> 0 <= v <= MAXZ.
Proof. exact Proofs_ArithParse.consume_line_number_range. Qed.
Print Assumptions consume_line_number_range.

(* output *= 10 and output += c of string_to_line_number, after their guards *)
Theorem s2n_sites : forall acc c,
  is_digit c = true -> N.ltb (MAXLN / 10) acc = false ->
  (acc * 10 <= MAXLN)%N /\
  (N.ltb (MAXLN - digit_val c) (acc * 10) = false -> (acc * 10 + digit_val c <= MAXLN)%N).
Proof. exact Proofs_ArithParse.s2n_sites. Qed.
Print Assumptions s2n_sites.

(* ---- the range grammars ---- *)
Theorem parse_unified_range_ok : forall h line h',
  parse_unified_range h line = (true, h') -> wf_range (oldr h') /\ wf_range (newr h') /\ body h' = body h.
Proof. exact Proofs_ArithParse.parse_unified_range_ok. Qed.
Print Assumptions parse_unified_range_ok.

Theorem normal_count_sites : forall a b,
  0 <= a <= MAXZ -> 0 <= b <= MAXZ ->
  in64 (b - a) /\ - (MAXZ - 1) <= sadd (b - a) 1 <= MAXZ /\ in64 (sadd (b - a) 1 - 1).
Proof. exact Proofs_ArithParse.normal_count_sites. Qed.
Print Assumptions normal_count_sites.

Theorem parse_normal_range_shape : forall h line h',
  parse_normal_range h line = (true, h') ->
  body h' = body h /\
  0 <= rstart (oldr h') <= MAXZ /\ 0 <= rstart (newr h') <= MAXZ /\
  exists oend nend, 0 <= oend <= MAXZ /\ 0 <= nend <= MAXZ /\
    (rcount (oldr h') = 0 \/ rcount (oldr h') = Z.max (sadd (oend - rstart (oldr h')) 1) 0) /\
    (rcount (newr h') = Z.max (sadd (nend - rstart (newr h')) 1) 0 \/
     rcount (newr h') = Z.max (sadd (nend - rstart (newr h')) 1 - 1) 0).
Proof. exact Proofs_ArithParse.parse_normal_range_shape. Qed.
Print Assumptions parse_normal_range_shape.

Theorem parse_normal_range_ok : forall h line h',
  parse_normal_range h line = (true, h') -> normal_range_ok h' /\ body h' = body h.
Proof. exact Proofs_ArithParse.parse_normal_range_ok. Qed.
Print Assumptions parse_normal_range_ok.

Theorem parse_context_range_ok : forall st en s ok st' en',
  parse_context_range st en s = (ok, st', en') -> 0 <= st <= MAXZ -> 0 <= en <= MAXZ ->
  0 <= st' <= MAXZ /\ 0 <= en' <= MAXZ.
Proof. exact Proofs_ArithParse.parse_context_range_ok. Qed.
Print Assumptions parse_context_range_ok.

(* ---- the body parsers ---- *)
Theorem unified_counter_sites : forall h oe ne,
  ucur_ok (Some (h, oe, ne)) ->
  - Z.of_nat (length (body h)) - 1 <= oe - 1 <= MAXZ /\ - Z.of_nat (length (body h)) - 1 <= ne - 1 <= MAXZ.
Proof. exact Proofs_ArithParse.unified_counter_sites. Qed.
Print Assumptions unified_counter_sites.

Theorem unified_loop_good : forall fuel s acc cur le hs s',
  unified_loop fuel s acc cur le = Ok (hs, s') -> Forall good_hunk acc -> ucur_ok cur -> Forall good_hunk hs.
Proof. exact Proofs_ArithParse.unified_loop_good. Qed.
Print Assumptions unified_loop_good.

Theorem parse_unified_patch_good : forall s hs s', parse_unified_patch s = Ok (hs, s') -> Forall good_hunk hs.
Proof. exact Proofs_ArithParse.parse_unified_patch_good. Qed.
Print Assumptions parse_unified_patch_good.

Theorem ctx_append_content_site : forall i en,
  in64 i -> en <= MAXZ -> Z.ltb en i = false -> Z.eqb i en = false -> in64 (i + 1) /\ i + 1 <= en.
Proof. exact Proofs_ArithParse.ctx_append_content_site. Qed.
Print Assumptions ctx_append_content_site.

Theorem parse_context_patch_good : forall s hs s', parse_context_patch s = Ok (hs, s') -> Forall good_hunk hs.
Proof. exact Proofs_ArithParse.parse_context_patch_good. Qed.
Print Assumptions parse_context_patch_good.

Theorem parse_normal_patch_ok : forall s hs s', parse_normal_patch s = Ok (hs, s') -> Forall normal_hunk_ok hs.
Proof. exact Proofs_ArithParse.parse_normal_patch_ok. Qed.
Print Assumptions parse_normal_patch_ok.

Theorem normal_hunk_good : forall h, normal_hunk_ok h -> good_hunk h.
Proof. exact Proofs_ArithParse.normal_hunk_good. Qed.
Print Assumptions normal_hunk_good.

Theorem parse_normal_patch_good : forall s hs s', parse_normal_patch s = Ok (hs, s') -> Forall good_hunk hs.
Proof. exact Proofs_ArithParse.parse_normal_patch_good. Qed.
Print Assumptions parse_normal_patch_good.

Theorem parse_patch_body_good : forall p s p' s',
  parse_patch_body p s = Ok (p', s') -> Forall good_hunk (hunks p) -> Forall good_hunk (hunks p').
Proof. exact Proofs_ArithParse.parse_patch_body_good. Qed.
Print Assumptions parse_patch_body_good.

Theorem normal_hunk_counts_le : forall h, normal_hunk_ok h ->
  rcount (oldr h) <= Z.of_nat (length (body h)) /\ rcount (newr h) <= Z.of_nat (length (body h)).
Proof. exact Proofs_ArithParse.normal_hunk_counts_le. Qed.
Print Assumptions normal_hunk_counts_le.

Theorem good_hunk_counts : forall h, good_hunk h ->
  0 <= rcount (oldr h) <= Z.of_nat (length (body h)) /\ 0 <= rcount (newr h) <= Z.of_nat (length (body h)).
Proof. exact Proofs_ArithParse.good_hunk_counts. Qed.
Print Assumptions good_hunk_counts.

Theorem parse_patch_good : forall b f strip p, parse_patch b f strip = Ok p -> Forall good_hunk (hunks p).
Proof. exact Proofs_ArithHeader.parse_patch_good. Qed.
Print Assumptions parse_patch_good.

Theorem parse_all_good : forall b f strip ps,
  parse_all b f strip = Ok ps -> Forall (fun p => Forall good_hunk (hunks p)) ps.
Proof. exact Proofs_ArithHeader.parse_all_good. Qed.
Print Assumptions parse_all_good.

Theorem parse_patch_size : forall b f strip p, parse_patch b f strip = Ok p -> (blen (hunks p) <= length b)%nat.
Proof. exact Proofs_ArithSize.parse_patch_size. Qed.
Print Assumptions parse_patch_size.

Theorem parse_all_size : forall b f strip ps,
  parse_all b f strip = Ok ps -> Forall (fun p => (blen (hunks p) <= length b)%nat) ps.
Proof. exact Proofs_ArithSize.parse_all_size. Qed.
Print Assumptions parse_all_size.

Theorem split_lines_length : forall s, (length (split_lines s) <= length s)%nat.
Proof. exact Proofs_ArithSize.split_lines_length. Qed.
Print Assumptions split_lines_length.

(* ---- strip_path ---- *)
Theorem strip_loop_rem : forall fuel s b rem b' rem',
  strip_loop fuel s b rem = (b', rem') -> rem - Z.of_nat fuel <= rem' <= rem.
Proof. exact Proofs_Arith.strip_loop_rem. Qed.
Print Assumptions strip_loop_rem.

(* ---- locate_hunk ---- *)
Theorem stated_pos_range : forall h off,
  0 <= rstart (oldr h) <= MAXZ -> off_ok off -> MINZ + 1 <= stated_pos h off <= MAXZ.
Proof. exact Proofs_Arith.stated_pos_range. Qed.
Print Assumptions stated_pos_range.

Theorem locate_offset_ok : forall f h ws off F lo l,
  locate_hunk f h ws off F lo = Some l -> 0 <= rstart (oldr h) <= MAXZ -> off_ok off -> off_ok (sadd off (loffset l)).
Proof. exact Proofs_Arith.locate_offset_ok. Qed.
Print Assumptions locate_offset_ok.

Theorem locate_line_le : forall f h ws off F lo l, locate_hunk f h ws off F lo = Some l -> (lline l <= length f)%nat.
Proof. exact Proofs_Arith.locate_line_le. Qed.
Print Assumptions locate_line_le.

Theorem locate_sites_in64 : forall f h off max_fuzz,
  0 <= rstart (oldr h) <= MAXZ -> off_ok off ->
  Z.of_nat (length f) + 2 * Z.of_nat (length (body h)) + 1 <= MAXZ ->
  Forall in64 (locate_sites f h off max_fuzz).
Proof. exact Proofs_Arith.locate_sites_in64. Qed.
Print Assumptions locate_sites_in64.

(* ---- apply_patch ---- *)
Theorem write_any_cursor : forall (o : options) f ln b w,
  (if is_nil (define_macro o) then Ok (write_hunk f ln b) else write_define_hunk f (define_macro o) ln b) = Ok w ->
  Z.of_nat (snd w) = Z.of_nat ln + n_old b.
Proof. exact Proofs_Arith.write_any_cursor. Qed.
Print Assumptions write_any_cursor.

Theorem apply_one_inv : forall w o p f k s h loc s' L u,
  apply_one o p f k s h loc = Ok s' -> Inv w L u s -> 0 <= u -> hunk_ok w h -> loc_ok L (a_offerr s) loc ->
  Inv w L (u + Z.of_nat (length (body h))) s'.
Proof. exact Proofs_Arith.apply_one_inv. Qed.
Print Assumptions apply_one_inv.

Theorem step_sites_in64 : forall w L u s h loc,
  Inv w L u s -> 0 <= u -> 0 <= L -> hunk_ok w h -> loc_ok L (a_offerr s) loc ->
  L + u + Z.of_nat (length (body h)) + 1 <= MAXZ ->
  Forall in64 (step_sites w s h loc).
Proof. exact Proofs_Arith.step_sites_in64. Qed.
Print Assumptions step_sites_in64.

Theorem apply_rest_inv : forall w o p f hs k s s' u,
  apply_rest o p f k s hs = Ok s' -> Inv w (Z.of_nat (length f)) u s -> 0 <= u -> Forall (hunk_ok w) hs ->
  Inv w (Z.of_nat (length f)) (u + Z.of_nat (blen hs)) s'.
Proof. exact Proofs_Arith.apply_rest_inv. Qed.
Print Assumptions apply_rest_inv.

Theorem apply_first_inv : forall w o p f s hs s' q,
  apply_first o p f s hs = Ok (s', q) -> Inv w (Z.of_nat (length f)) 0 s -> Forall (hunk_ok w) hs ->
  Inv w (Z.of_nat (length f)) (Z.of_nat (blen hs)) s'.
Proof. exact Proofs_Arith.apply_first_inv. Qed.
Print Assumptions apply_first_inv.

Theorem apply_patch_sites_in64 : forall o f p0,
  Forall good_hunk (hunks p0) ->
  Z.of_nat (length f) + 2 * Z.of_nat (blen (hunks p0)) + 1 <= MAXZ ->
  Forall in64 (patch_sites o f p0).
Proof. exact Proofs_Arith.apply_patch_sites_in64. Qed.
Print Assumptions apply_patch_sites_in64.

Theorem apply_patch_sites_but_o2n_in64 : forall o f p0,
  Forall starts_ok (hunks p0) ->
  Z.of_nat (length f) + 2 * Z.of_nat (blen (hunks p0)) + 1 <= MAXZ ->
  Forall in64 (patch_sites_but_o2n o f p0).
Proof. exact Proofs_Arith.apply_patch_sites_but_o2n_in64. Qed.
Print Assumptions apply_patch_sites_but_o2n_in64.

Theorem parse_patch_starts : forall b f strip p, parse_patch b f strip = Ok p -> Forall starts_ok (hunks p).
Proof. exact Proofs_ArithHeader.parse_patch_starts. Qed.
Print Assumptions parse_patch_starts.

Theorem parse_all_starts : forall b f strip ps,
  parse_all b f strip = Ok ps -> Forall (fun p => Forall starts_ok (hunks p)) ps.
Proof. exact Proofs_ArithHeader.parse_all_starts. Qed.
Print Assumptions parse_all_starts.

Theorem parsed_patch_sites_but_o2n_in64 : forall b fmt strip p o t,
  parse_patch b fmt strip = Ok p ->
  Z.of_nat (length t) + 2 * Z.of_nat (length b) + 1 <= MAXZ ->
  Forall in64 (patch_sites_but_o2n o (split_lines t) p).
Proof. exact Proofs_Arith.parsed_patch_sites_but_o2n_in64. Qed.
Print Assumptions parsed_patch_sites_but_o2n_in64.

Theorem parsed_patch_sites_in64 : forall b fmt strip p o t,
  parse_patch b fmt strip = Ok p ->
  Z.of_nat (length t) + 2 * Z.of_nat (length b) + 1 <= MAXZ ->
  Forall in64 (patch_sites o (split_lines t) p).
Proof. exact Proofs_Arith.parsed_patch_sites_in64. Qed.
Print Assumptions parsed_patch_sites_in64.

Theorem parsed_patch_apply_first_inv : forall b fmt strip p o f s' q,
  parse_patch b fmt strip = Ok p ->
  apply_first o p f init_state (hunks p) = Ok (s', q) ->
  AInv (Z.of_nat (length f)) (Z.of_nat (blen (hunks p))) s'.
Proof. exact Proofs_Arith.parsed_patch_apply_first_inv. Qed.
Print Assumptions parsed_patch_apply_first_inv.

Theorem parsed_sections_sites_in64 : forall b fmt strip ps o t,
  parse_all b fmt strip = Ok ps ->
  Z.of_nat (length t) + 2 * Z.of_nat (length b) + 1 <= MAXZ ->
  Forall (fun p => Forall in64 (patch_sites o (split_lines t) p)) ps.
Proof. exact Proofs_Arith.parsed_sections_sites_in64. Qed.
Print Assumptions parsed_sections_sites_in64.

(* ---- SUMMARY ---- *)
(* For a patch file b and a target file t whose sizes satisfy |t| + 2|b| + 1 <= 2^63 - 1 bytes, any options o, any format
   option fmt and any strip count: when the model's parser returns p (resp. the sections ps),
     (1) every number the parser read is a line number in [0, MAXZ];
     (2) the hunks of p are good hunks (counts = numbers of body lines) and p has at most |b| body lines;
     (3) every value at a plain-arithmetic site of locate_hunk / apply_patch is in int64 -- the two sites which involve
         offset_old_lines_to_new (applier.cpp:195 and :377) included -- for p and for every section of ps;
     (4) the loop of apply_patch keeps |offset_old_lines_to_new| <= number of body lines processed, line_number <= lines of
         the file + that number, offset_error in [-(MAXZ-1), MAXZ];
     (5) the saturating sites are in int64 by construction.
   No hypothesis on the patch is left: whatever bytes the parser accepts. *)
Theorem plain_arith_in_range :
  (forall s ok v r, consume_line_number s = Some (ok, v, r) -> 0 <= v <= MAXZ) /\
  (forall z, in64 (sat64 z)) /\
  (forall b fmt strip p, parse_patch b fmt strip = Ok p ->
     (blen (hunks p) <= length b)%nat /\ Forall good_hunk (hunks p)) /\
  (forall b fmt strip p o t, parse_patch b fmt strip = Ok p ->
     Z.of_nat (length t) + 2 * Z.of_nat (length b) + 1 <= MAXZ ->
     Forall in64 (patch_sites o (split_lines t) p)) /\
  (forall b fmt strip ps o t, parse_all b fmt strip = Ok ps ->
     Z.of_nat (length t) + 2 * Z.of_nat (length b) + 1 <= MAXZ ->
     Forall (fun p => Forall in64 (patch_sites o (split_lines t) p)) ps) /\
  (forall b fmt strip p o f s' q, parse_patch b fmt strip = Ok p ->
     apply_first o p f init_state (hunks p) = Ok (s', q) ->
     AInv (Z.of_nat (length f)) (Z.of_nat (blen (hunks p))) s').
Proof.
  split; [exact Proofs_ArithParse.consume_line_number_range|].
  split; [exact Proofs_ArithParse.sat64_in64|].
  split; [intros b fmt strip p H; split; [exact (Proofs_ArithSize.parse_patch_size _ _ _ _ H)|exact (Proofs_ArithHeader.parse_patch_good _ _ _ _ H)]|].
  split; [exact Proofs_Arith.parsed_patch_sites_in64|].
  split; [exact Proofs_Arith.parsed_sections_sites_in64|exact Proofs_Arith.parsed_patch_apply_first_inv].
Qed.
Print Assumptions plain_arith_in_range.

(* ---- the hypotheses are satisfiable: a two-hunk unified patch parsed by the model, a five line file ---- *)
Example ok_instance :
  parse_patch ok_patch FUnknown (-1) = Ok ok_parsed /\ length (hunks ok_parsed) = 2%nat /\
  Forall good_hunk (hunks ok_parsed) /\
  Z.of_nat (length ok_file) + 2 * Z.of_nat (blen (hunks ok_parsed)) + 1 <= MAXZ /\
  forall o, Forall in64 (patch_sites o ok_file ok_parsed).
Proof.
  split; [exact ok_parsed_eq|]. split; [apply ok_parsed_two_hunks|]. split; [exact ok_parsed_good|].
  split; [exact ok_parsed_fits|exact ok_sites_in64].
Qed.
Print Assumptions ok_instance.

(* ---- the former witness of the overflow at applier.cpp:377 is harmless now ---- *)
(* patch file "9223372036854775807,1c5,7\n> a\n> b\n> c\n", target file "x\n".  Before the repair of parse_normal_range the
   model parsed one hunk with old count -(2^63-3), applied it, and 'new.number_of_lines - old.number_of_lines' was 2^63.
   Now: old count 0, the hunk is rejected, and every site value is in int64 (for all options by the theorem; listed for the
   default options) *)
Example former_witness_harmless :
  parse_patch bad_patch FUnknown (-1) = Ok bad_parsed /\
  map (fun h => (rcount (oldr h), rcount (newr h), length (body h))) (hunks bad_parsed) = [(0, 3, 3%nat)] /\
  (forall o, Forall in64 (patch_sites o one_line_file bad_parsed)) /\
  patch_sites default_options one_line_file bad_parsed = [0; 0; 0; 2; 0; 0; 1; 1; 0; 0; 0; 2; 0; 0; 1; 1; 3; 3].
Proof.
  split; [exact bad_parsed_eq|]. split; [exact bad_parsed_counts|].
  split; [exact Proofs_Arith.former_witness_harmless|exact former_witness_sites].
Qed.
Print Assumptions former_witness_harmless.
