(* Proofs_ArithHeader.v — C07 (arithmetic part): the parser guarantee at the level of parse_patch / parse_all.
   The header scan never touches the hunk list, so the hunks of a parsed patch are exactly those of its body parser,
   and the per-format results of Proofs_ArithParse.v carry over. *)
From PatchV Require Import Base Lines Hunk LineParser Parser Proofs_Base Proofs_Fuel Proofs_Progress Proofs_Unified Proofs_ArithParse.
Local Open Scope Z_scope.

Lemma pgei_hunks p strip line b p' : parse_git_extended_info p strip line = Ok (b, p') -> hunks p' = hunks p.
Proof. unfold parse_git_extended_info. intros H. hs_crunch; reflexivity. Qed.

Lemma header_step_hunks strip st line r :
  header_step strip st line = Ok r ->
  match r with inl st' => hunks (h_patch st') = hunks (h_patch st) | inr st' => hunks (h_patch st') = hunks (h_patch st) end.
Proof.
  intros H. unfold header_step in H.
  hs_crunch;
    repeat match goal with X : parse_git_extended_info _ _ _ = Ok ?g |- _ => destruct g; apply pgei_hunks in X end;
    cbn [h_patch hunks set_paths set_index set_prereq set_fmt set_oper fst snd] in *; congruence.
Qed.

Lemma header_loop_hunks : forall fuel strip st s st' s',
  header_loop fuel strip st s = Ok (st', s') -> hunks (h_patch st') = hunks (h_patch st).
Proof.
  induction fuel as [|f IH]; intros strip st s st' s' H; [discriminate|]. cbn [header_loop] in H.
  destruct (sget_line s) as [[[line n]|] s1]; [|inversion H; subst; reflexivity].
  destruct (header_step strip st line) as [r|e] eqn:E; cbn [rbind] in H; [|discriminate].
  apply header_step_hunks in E. destruct r as [st1|st1]; [apply IH in H; congruence|inversion H; subst; exact E].
Qed.

Lemma header_full_hunks p0 strip s should p s1 found :
  parse_patch_header_full p0 strip s = Ok (should, p, s1, found) -> hunks p = hunks p0.
Proof.
  unfold parse_patch_header_full.
  destruct (header_loop (S (length (rest s))) strip (mkHS p0 LKUnknown 0 false true empty_hunk 0) s) as [[st s0]|e] eqn:HL; cbn [rbind]; [|discriminate].
  apply header_loop_hunks in HL. cbn [h_patch] in HL.
  destruct (skip_lines _ _) as [s3|e]; cbn [rbind]; [|discriminate].
  intros [= _ <- _ _]. rewrite <- HL.
  destruct (h_git st); cbn [poper set_fmt]; destruct (poper (h_patch st));
    repeat match goal with |- context [if ?c then _ else _] => destruct c end; reflexivity.
Qed.

Lemma parse_patch_body_fmt p s p' s' : parse_patch_body p s = Ok (p', s') -> pfmt p' = pfmt p.
Proof.
  unfold parse_patch_body. destruct (pfmt p) eqn:F; try discriminate;
    match goal with |- context [rbind ?m _] => destruct m as [[hs s1]|e]; cbn [rbind]; [|discriminate] end;
    intros [= <- _]; cbn [pfmt set_hunks]; exact F.
Qed.

(* the patch parse_patch returns: its hunks are good hunks, whatever the format *)
Theorem parse_patch_good b f strip p : parse_patch b f strip = Ok p -> Forall good_hunk (hunks p).
Proof.
  unfold parse_patch, parse_patch_header.
  destruct (parse_patch_header_full (empty_patch f) strip (stream_of b)) as [[[[should p1] s1] found]|e] eqn:H; cbn [rbind fst]; [|discriminate].
  apply header_full_hunks in H. cbn [empty_patch hunks] in H.
  destruct should.
  - destruct (parse_patch_body p1 s1) as [[p2 s2]|e] eqn:B; cbn [rbind fst]; [|discriminate].
    intros [= <-]. eapply parse_patch_body_good; [exact B|rewrite H; constructor].
  - intros [= <-]. rewrite H. constructor.
Qed.

(* whatever the format: the start lines of every hunk are line numbers *)
Theorem parse_patch_starts b f strip p : parse_patch b f strip = Ok p -> Forall starts_ok (hunks p).
Proof.
  unfold parse_patch, parse_patch_header.
  destruct (parse_patch_header_full (empty_patch f) strip (stream_of b)) as [[[[should p1] s1] found]|e] eqn:H; cbn [rbind fst]; [|discriminate].
  apply header_full_hunks in H. cbn [empty_patch hunks] in H.
  destruct should.
  - destruct (parse_patch_body p1 s1) as [[p2 s2]|e] eqn:B; cbn [rbind fst]; [|discriminate].
    intros [= <-]. eapply parse_patch_body_starts; [exact B|rewrite H; constructor].
  - intros [= <-]. rewrite H. constructor.
Qed.

(* every section of a patch file *)
Lemma parse_all_loop_good : forall fuel f strip s first acc ps,
  parse_all_loop fuel f strip s first acc = Ok ps ->
  Forall (fun p => Forall good_hunk (hunks p)) acc -> Forall (fun p => Forall good_hunk (hunks p)) ps.
Proof.
  induction fuel as [|k IH]; intros f strip s first acc ps H Ha; [discriminate|]. cbn [parse_all_loop] in H.
  destruct (seof s); [inversion H; subst; exact Ha|].
  destruct (parse_patch_header_full (empty_patch f) strip s) as [[[[should p] s1] found]|e] eqn:HF; cbn [rbind] in H; [|discriminate].
  apply header_full_hunks in HF. cbn [empty_patch hunks] in HF.
  assert (Ha' : Forall (fun p => Forall good_hunk (hunks p)) (acc ++ [p])).
  { apply Forall_app; split; [exact Ha|constructor; [rewrite HF; constructor|constructor]]. }
  assert (C : match poper p with
              | OpBinary => parse_all_loop k f strip s1 false (acc ++ [p])
              | _ => if should then (do y <- parse_patch_body p s1; parse_all_loop k f strip (snd y) false (acc ++ [fst y]))
                     else parse_all_loop k f strip s1 false (acc ++ [p])
              end = Ok ps -> Forall (fun p => Forall good_hunk (hunks p)) ps).
  { intros C. destruct (poper p).
    6: (eapply IH; [exact C|exact Ha']).
    all: destruct should; [|eapply IH; [exact C|exact Ha']].
    all: destruct (parse_patch_body p s1) as [[p2 s2]|e] eqn:B; cbn [rbind] in C; [|discriminate].
    all: eapply IH; [exact C|]; cbn [fst]; apply Forall_app; split; [exact Ha|]; constructor; [|constructor].
    all: eapply parse_patch_body_good; [exact B|rewrite HF; constructor]. }
  destruct (if negb found && should then FUnknown else pfmt p).
  6: (destruct first; [discriminate|inversion H; subst; exact Ha]).
  all: apply C; exact H.
Qed.

Theorem parse_all_good b f strip ps : parse_all b f strip = Ok ps -> Forall (fun p => Forall good_hunk (hunks p)) ps.
Proof. intros H. eapply parse_all_loop_good; [exact H|constructor]. Qed.

Lemma parse_all_loop_starts : forall fuel f strip s first acc ps,
  parse_all_loop fuel f strip s first acc = Ok ps ->
  Forall (fun p => Forall starts_ok (hunks p)) acc -> Forall (fun p => Forall starts_ok (hunks p)) ps.
Proof.
  induction fuel as [|k IH]; intros f strip s first acc ps H Ha; [discriminate|]. cbn [parse_all_loop] in H.
  destruct (seof s); [inversion H; subst; exact Ha|].
  destruct (parse_patch_header_full (empty_patch f) strip s) as [[[[should p] s1] found]|e] eqn:HF; cbn [rbind] in H; [|discriminate].
  apply header_full_hunks in HF. cbn [empty_patch hunks] in HF.
  assert (Ha' : Forall (fun p => Forall starts_ok (hunks p)) (acc ++ [p])).
  { apply Forall_app; split; [exact Ha|constructor; [rewrite HF; constructor|constructor]]. }
  assert (C : match poper p with
              | OpBinary => parse_all_loop k f strip s1 false (acc ++ [p])
              | _ => if should then (do y <- parse_patch_body p s1; parse_all_loop k f strip (snd y) false (acc ++ [fst y]))
                     else parse_all_loop k f strip s1 false (acc ++ [p])
              end = Ok ps -> Forall (fun p => Forall starts_ok (hunks p)) ps).
  { intros C. destruct (poper p).
    6: (eapply IH; [exact C|exact Ha']).
    all: destruct should; [|eapply IH; [exact C|exact Ha']].
    all: destruct (parse_patch_body p s1) as [[p2 s2]|e] eqn:B; cbn [rbind] in C; [|discriminate].
    all: eapply IH; [exact C|]; cbn [fst]; apply Forall_app; split; [exact Ha|]; constructor; [|constructor].
    all: eapply parse_patch_body_starts; [exact B|rewrite HF; constructor]. }
  destruct (if negb found && should then FUnknown else pfmt p).
  6: (destruct first; [discriminate|inversion H; subst; exact Ha]).
  all: apply C; exact H.
Qed.

Theorem parse_all_starts b f strip ps : parse_all b f strip = Ok ps -> Forall (fun p => Forall starts_ok (hunks p)) ps.
Proof. intros H. eapply parse_all_loop_starts; [exact H|constructor]. Qed.
