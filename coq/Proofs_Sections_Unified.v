(* Proofs_Sections_Unified.v — C11 for unified sections: the hypotheses of the sum theorem of Proofs_Sections.v that speak
   about the parser are discharged with the parser-level theorems (the header scan does not look past the first hunk
   header; the body parser stops where the hunks end). *)
From PatchV Require Import Base Lines Hunk Locator Formatter Options Applier LineParser Parser World Driver
     Proofs_Base Proofs_Lines Proofs_Fuel Proofs_Unified Proofs_Filler Proofs_Progress Proofs_Sections.

(* ---------- the header scan, as a fold over the lines it reads ---------- *)
(* Some st': the scan reads exactly the lines ls and stops on the last one (a hunk start) in state st' *)
Fixpoint scan (strip : Z) (st : hstate) (ls : list (list N)) : option hstate :=
  match ls with
  | [] => None
  | l :: r => match header_step strip st l with
              | Ok (inl st') => scan strip st' r
              | Ok (inr st') => if is_nil r then Some st' else None
              | Throw _ => None
              end
  end.

Lemma header_loop_scan strip : forall ls st fuel r st',
  Forall clean ls -> scan strip st ls = Some st' -> length ls <= fuel ->
  header_loop fuel strip st (strm (join_lines ls ++ r)) = Ok (st', strm r).
Proof.
  induction ls as [|l ls IH]; intros st fuel r st' HC HS L; [discriminate|].
  inversion HC as [|? ? C1 C2]; subst. destruct fuel as [|fuel]; [cbn in L; lia|].
  cbn [join_lines flat_map]. rewrite <- !app_assoc. cbn [app header_loop]. unfold strm at 1. rewrite (sget_line_lf _ _ C1).
  cbn [scan] in HS. destruct (header_step strip st l) as [[st1|st1]|e]; cbn [rbind]; [| |discriminate].
  - fold (join_lines ls). change (mkStream (join_lines ls ++ r) false false) with (strm (join_lines ls ++ r)).
    apply IH; [exact C2|exact HS|cbn [length] in L; lia].
  - destruct ls as [|l2 ls]; [|discriminate]. cbn [is_nil] in HS. inversion HS; subst. reflexivity.
Qed.

Lemma join_lines_app a b : join_lines (a ++ b) = join_lines a ++ join_lines b.
Proof. unfold join_lines. apply flat_map_app. Qed.

Lemma join_lines_length ls : length ls <= length (join_lines ls).
Proof.
  induction ls as [|l ls IH]; [cbn; lia|]. cbn [join_lines flat_map length]. rewrite !app_length. cbn [length].
  unfold join_lines in IH. lia.
Qed.

(* the patch record the header scan hands to the driver *)
Definition header_patch (st : hstate) : patch :=
  let p1 := if h_git st then set_fmt (h_patch st) FGit else h_patch st in
  match poper p1 with
  | OpChange =>
      if Z.eqb (rstart (newr (h_hunk st))) 0 || str_eqb (new_path p1) devnull_path then set_oper p1 OpDelete
      else if Z.eqb (rstart (oldr (h_hunk st))) 0 || str_eqb (old_path p1) devnull_path then set_oper p1 OpAdd
      else p1
  | _ => p1
  end.

(* The header scan does not look past the line on which it stops: whatever follows the lines it reads, it finds the same
   patch record, takes the same decision about the body, and leaves the stream on the same line (the first line of the
   first hunk, h_first - 1 lines down). *)
Theorem header_suffix strip p ls r st' :
  Forall clean ls -> scan strip (st0 p) ls = Some st' -> h_first st' - 1 <= length ls ->
  parse_patch_header_full p strip (strm (join_lines ls ++ r)) =
  Ok (h_body st', header_patch st', strm (join_lines (skipn (h_first st' - 1) ls) ++ r), negb (Nat.eqb (h_first st') 0)).
Proof.
  intros HC HS L. unfold parse_patch_header_full. cbn [rest strm]. fold (st0 p).
  rewrite (header_loop_scan strip ls (st0 p) _ r st' HC HS).
  2:{ pose proof (join_lines_length ls). rewrite app_length. lia. }
  cbn [rbind]. change (sseek (sclear (strm r)) (join_lines ls ++ r)) with (strm (join_lines ls ++ r)).
  set (k := h_first st' - 1) in *.
  assert (Sk : skip_lines k (strm (join_lines ls ++ r)) = Ok (strm (join_lines (skipn k ls) ++ r))).
  { rewrite <- (firstn_skipn k ls) at 1. rewrite join_lines_app, <- app_assoc.
    assert (Lk : length (firstn k ls) = k) by (apply firstn_length_le; exact L).
    pose proof (skip_lines_filler (firstn k ls) 0 (join_lines (skipn k ls) ++ r)) as X.
    rewrite Nat.add_0_r, Lk in X. rewrite X; [reflexivity|].
    rewrite <- (firstn_skipn k ls) in HC. apply Forall_app in HC. apply HC. }
  rewrite Sk. cbn [rbind]. reflexivity.
Qed.
Print Assumptions header_suffix.

(* ---------- the body ---------- *)
Lemma unified_body p1 hs tail :
  (pfmt p1 = FUnified \/ pfmt p1 = FGit) -> hs <> [] -> Forall wf_hunk hs -> tail_ok tail ->
  parse_patch_body p1 (strm (emit_hunks hs ++ tail)) = Ok (set_hunks p1 (hunks p1 ++ hs), after tail).
Proof.
  intros Hf Hne Hwf Ht. unfold parse_patch_body. rewrite (unified_roundtrip hs tail Hne Hwf Ht).
  destruct Hf as [-> | ->]; reflexivity.
Qed.

Lemma Sim_unified_body p1 hs tail :
  (pfmt p1 = FUnified \/ pfmt p1 = FGit) -> hs <> [] -> Forall wf_hunk hs -> tail_ok tail ->
  Sim (fun ps => (fst ps, after tail)) (body_if true p1 (strm (emit_hunks hs))) (body_if true p1 (strm (emit_hunks hs ++ tail))).
Proof.
  intros Hf Hne Hwf Ht w. unfold map_result, body_if, mlift.
  rewrite (unified_body p1 hs tail Hf Hne Hwf Ht).
  rewrite <- (app_nil_r (emit_hunks hs)) at 1. rewrite (unified_body p1 hs [] Hf Hne Hwf (or_introl eq_refl)). reflexivity.
Qed.

(* the first line of the body of a hunk, as the formatter writes it (without its terminator) *)
Definition first_line (h : hunk) : list N :=
  match body h with pl1 :: _ => op_char (pop pl1) :: txt (pl pl1) | [] => [] end.

Lemma first_line_clean h : wf_hunk h -> clean (first_line h).
Proof.
  intros (Hne & Hb & _). unfold first_line. destruct (body h) as [|pl1 b]; [congruence|].
  destruct Hb as [[[C1 C2] _] _]. split.
  - intros [E|I]; [destruct (pop pl1); discriminate E|contradiction].
  - destruct (txt (pl pl1)) as [|c r] eqn:T; [destruct (pop pl1); cbn; discriminate|].
    change (last_opt (op_char (pop pl1) :: c :: r)) with (last_opt (c :: r)). exact C2.
Qed.

Lemma first_line_shape h : body h <> [] ->
  exists rb, flat_map fmt_pline_unified (body h) = first_line h ++ 10%N :: rb.
Proof.
  intros Hne. unfold first_line. destruct (body h) as [|pl1 b]; [congruence|].
  cbn [flat_map]. unfold fmt_pline_unified. eexists. cbn [app]. rewrite <- !app_assoc. cbn [app]. reflexivity.
Qed.

Section UnifiedSections.
Variables (o : options) (f : format) (pre : list (list N)) (h1 : hunk) (hs' : list hunk) (st' : hstate).
Let hs := h1 :: hs'.
Let p := header_patch st'.
(* the text of the section: lines in front (text, "--- old", "+++ new", ...) and the hunks *)
Let t1 := join_lines pre ++ emit_hunks hs.

Hypothesis Hfo : format_from_options o = Ok f.
Hypothesis Hpre : Forall clean pre.
Hypothesis Hwf : Forall wf_hunk hs.
(* the header scan reads the lines in front, the first hunk header and the first line of its body, on which it stops; the
   first hunk header is the line it hands to the body parser *)
Hypothesis Hscan : scan (strip_size o) (st0 (empty_patch f)) (pre ++ [unified_header (oldr h1) (newr h1); first_line h1]) = Some st'.
Hypothesis Hfirst : h_first st' = S (length pre).
Hypothesis Hbody : h_body st' = true.
Hypothesis Hfmt : pfmt p = FUnified \/ pfmt p = FGit.
Hypothesis Hop : poper p <> OpBinary.

Lemma header_of_section tail :
  parse_patch_header_full (empty_patch f) (strip_size o) (strm (t1 ++ tail)) = Ok (true, p, strm (emit_hunks hs ++ tail), true).
Proof.
  inversion Hwf as [|? ? Hw1 _]; subst. pose proof (first_line_clean h1 Hw1) as Cl.
  destruct Hw1 as (Hne & _ & Ho & Hn & _).
  destruct (first_line_shape h1 Hne) as (rb1 & Eb).
  set (hdr := unified_header (oldr h1) (newr h1)) in *.
  set (l1 := first_line h1) in *.
  set (rb := rb1 ++ emit_hunks hs' ++ tail).
  assert (E : emit_hunks hs ++ tail = hdr ++ 10%N :: l1 ++ 10%N :: rb).
  { unfold hs, rb, hdr. cbn [emit_hunks flat_map]. fold (emit_hunks hs'). rewrite <- app_assoc, write_hunk_shape. rewrite Eb.
    rewrite <- !app_assoc. cbn [app]. reflexivity. }
  assert (T : t1 ++ tail = join_lines (pre ++ [hdr; l1]) ++ rb).
  { unfold t1. rewrite <- app_assoc, E, join_lines_app. cbn [join_lines flat_map]. rewrite app_nil_r. repeat (rewrite <- ?app_assoc; cbn [app]). reflexivity. }
  rewrite T.
  rewrite (header_suffix (strip_size o) (empty_patch f) (pre ++ [hdr; l1]) rb st').
  - rewrite Hfirst, Hbody. cbn [Nat.sub Nat.eqb negb]. rewrite Nat.sub_0_r.
    rewrite skipn_app, skipn_all, Nat.sub_diag. cbn [skipn app join_lines flat_map]. rewrite app_nil_r. repeat (rewrite <- ?app_assoc; cbn [app]).
    rewrite E. reflexivity.
  - apply Forall_app. split; [exact Hpre|]. constructor; [apply header_clean; assumption|]. constructor; [exact Cl|constructor].
  - exact Hscan.
  - rewrite Hfirst, app_length. cbn. lia.
Qed.

Lemma body_hyp tail : tail_ok tail ->
  forall p1, pfmt p1 = pfmt p -> hunks p1 = hunks p ->
  Sim (fun ps => (fst ps, after tail)) (body_if true p1 (strm (emit_hunks hs))) (body_if true p1 (strm (emit_hunks hs ++ tail))).
Proof.
  intros Ht p1 E _. apply Sim_unified_body; [rewrite E; exact Hfmt|discriminate|exact Hwf|exact Ht].
Qed.

(* C11 for unified sections, whole runs.  t1 is a section for one file (text in front, header, hunks as the formatter
   writes them); t2 is whatever follows it: more text, further sections.  Suppose the run on t1 alone, in the world w,
   processes the section normally (state st1, world w1, nothing left pending).  Then
   - that run ends with exit status and report read off st1, in w1;
   - the run on t1 ++ t2 in w is: that, followed by the run on t2 alone in w1 (same final world, same exception if the
     second run throws, exit status the larger of the two, report the concatenation). *)
Theorem unified_sections_sum t2 st1 sA w w1 :
  tail_ok t2 -> t2 <> [] ->
  process_section o ds0 true p (strm (emit_hunks hs)) w = (Ok (st1, sA), w1) ->
  deferred_writes st1 = [] -> deferred_removals st1 = [] ->
  has_patch o f (stream_of t2) = true ->
  (may_backup o = true -> forall q, In q (targets_met (S (S (length t2))) o f ds0 (stream_of t2) w1) -> fresh_backup o st1 q) ->
  process_patch o t1 w = (Ok (exit_of st1, events st1), w1) /\
  process_patch o (t1 ++ t2) w = map_result (after_run st1) (process_patch o t2) w1.
Proof.
  intros Ht Hne Hps Hdw Hdr Hhp Hb.
  assert (Fm : (if negb true && true then FUnknown else pfmt p) <> FUnknown).
  { cbn [negb andb]. destruct Hfmt as [-> | ->]; discriminate. }
  assert (PA : process_section o ds0 true p (strm (emit_hunks hs)) w = (Ok (st1, after []), w1)).
  { pose proof (process_section_stream o ds0 true p (strm (emit_hunks hs)) (strm (emit_hunks hs ++ [])) (after [])
                  (body_hyp [] (or_introl eq_refl)) w) as X.
    rewrite app_nil_r in X. unfold map_result in X. rewrite Hps in X. cbn [fst] in X. rewrite Hps. exact X. }
  assert (PB : process_section o ds0 true p (strm (emit_hunks hs ++ t2)) w = (Ok (st1, stream_of t2), w1)).
  { pose proof (process_section_stream o ds0 true p (strm (emit_hunks hs)) (strm (emit_hunks hs ++ t2)) (after t2)
                  (body_hyp t2 Ht) w) as X.
    unfold map_result in X. rewrite Hps in X. cbn [fst] in X. rewrite X.
    destruct t2 as [|c r]; [congruence|reflexivity]. }
  split.
  - pose proof (header_of_section []) as H0. rewrite !app_nil_r in H0.
    apply (process_patch_single o f t1 true p (strm (emit_hunks hs)) true st1 (after []) w w1 Hfo H0 Fm Hop PA Hdw Hdr).
    reflexivity.
  - apply (process_patch_sum o f (t1 ++ t2) t2 true p (strm (emit_hunks hs ++ t2)) true st1 w w1 Hfo (header_of_section t2) Fm Hop PB Hdw Hdr Hhp Hb).
Qed.

(* text after the (last) section: when what follows the hunks holds nothing that looks like a patch, the run is the run on
   the section alone *)
Theorem unified_section_text_after t2 st1 sA w w1 :
  tail_ok t2 -> t2 <> [] ->
  process_section o ds0 true p (strm (emit_hunks hs)) w = (Ok (st1, sA), w1) ->
  deferred_writes st1 = [] -> deferred_removals st1 = [] ->
  ends_here o f (stream_of t2) = true ->
  process_patch o (t1 ++ t2) w = (Ok (exit_of st1, events st1), w1) /\
  process_patch o (t1 ++ t2) w = process_patch o t1 w.
Proof.
  intros Ht Hne Hps Hdw Hdr He.
  assert (Fm : (if negb true && true then FUnknown else pfmt p) <> FUnknown).
  { cbn [negb andb]. destruct Hfmt as [-> | ->]; discriminate. }
  assert (PA : process_section o ds0 true p (strm (emit_hunks hs)) w = (Ok (st1, after []), w1)).
  { pose proof (process_section_stream o ds0 true p (strm (emit_hunks hs)) (strm (emit_hunks hs ++ [])) (after [])
                  (body_hyp [] (or_introl eq_refl)) w) as X.
    rewrite app_nil_r in X. unfold map_result in X. rewrite Hps in X. cbn [fst] in X. rewrite Hps. exact X. }
  assert (PB : process_section o ds0 true p (strm (emit_hunks hs ++ t2)) w = (Ok (st1, stream_of t2), w1)).
  { pose proof (process_section_stream o ds0 true p (strm (emit_hunks hs)) (strm (emit_hunks hs ++ t2)) (after t2)
                  (body_hyp t2 Ht) w) as X.
    unfold map_result in X. rewrite Hps in X. cbn [fst] in X. rewrite X.
    destruct t2 as [|c r]; [congruence|reflexivity]. }
  assert (E1 : process_patch o (t1 ++ t2) w = (Ok (exit_of st1, events st1), w1)).
  { apply (process_patch_single o f (t1 ++ t2) true p (strm (emit_hunks hs ++ t2)) true st1 (stream_of t2) w w1 Hfo (header_of_section t2) Fm Hop PB Hdw Hdr He). }
  split; [exact E1|]. rewrite E1. symmetry.
  pose proof (header_of_section []) as H0. rewrite !app_nil_r in H0.
  apply (process_patch_single o f t1 true p (strm (emit_hunks hs)) true st1 (after []) w w1 Hfo H0 Fm Hop PA Hdw Hdr).
  reflexivity.
Qed.

(* when the section throws (the file to patch cannot be read, a write fails, ...), both runs end there *)
Theorem unified_section_throws t2 e w w1 :
  tail_ok t2 ->
  process_section o ds0 true p (strm (emit_hunks hs)) w = (Throw e, w1) ->
  process_patch o t1 w = (Throw e, w1) /\ process_patch o (t1 ++ t2) w = (Throw e, w1).
Proof.
  intros Ht Hps.
  assert (Fm : (if negb true && true then FUnknown else pfmt p) <> FUnknown).
  { cbn [negb andb]. destruct Hfmt as [-> | ->]; discriminate. }
  assert (PB : process_section o ds0 true p (strm (emit_hunks hs ++ t2)) w = (Throw e, w1)).
  { pose proof (process_section_stream o ds0 true p (strm (emit_hunks hs)) (strm (emit_hunks hs ++ t2)) (after t2)
                  (body_hyp t2 Ht) w) as X.
    unfold map_result in X. rewrite Hps in X. exact X. }
  split.
  - pose proof (header_of_section []) as H0. rewrite !app_nil_r in H0.
    apply (process_patch_first_throws o f t1 true p (strm (emit_hunks hs)) true e w w1 Hfo H0 Fm Hop Hps).
  - apply (process_patch_first_throws o f (t1 ++ t2) true p (strm (emit_hunks hs ++ t2)) true e w w1 Hfo (header_of_section t2) Fm Hop PB).
Qed.

End UnifiedSections.
Print Assumptions unified_sections_sum.
Print Assumptions unified_section_text_after.
Print Assumptions unified_section_throws.

(* ---------- text in front of the patch, at the level of the whole run ---------- *)
(* Lines in front of the first section on which the header scan does nothing but count (mail headers, a commit message,
   blank lines) change nothing: same operations, same final world, same exit status and report, same exception. *)
Theorem text_before o f fl t should p' s1 w :
  format_from_options o = Ok f ->
  Forall (Filler (strip_size o) (empty_patch f)) fl -> Forall clean fl ->
  parse_patch_header_full (empty_patch f) (strip_size o) (strm t) = Ok (should, p', s1, true) ->
  process_patch o (join_lines fl ++ t) w = process_patch o t w.
Proof.
  intros Hfo HF HC Hh.
  pose proof (filler_prefix _ _ fl t _ _ _ HF HC Hh) as Hh2.
  rewrite !process_patch_unfold, !bind_lift, Hfo. unfold mbind.
  assert (L : section_loop (S (S (length (join_lines fl ++ t)))) o f ds0 (stream_of (join_lines fl ++ t)) true w =
              section_loop (S (S (length t))) o f ds0 (stream_of t) true w).
  { rewrite !section_loop_S. unfold loop_step. change (seof (stream_of (join_lines fl ++ t))) with false. change (seof (stream_of t)) with false. cbv iota.
    rewrite !bind_lift. change (stream_of (join_lines fl ++ t)) with (strm (join_lines fl ++ t)). change (stream_of t) with (strm t).
    rewrite Hh, Hh2. cbn [negb andb].
    destruct (header_full_spec _ _ _ _ _ _ _ Hh) as (L1 & _ & _ & _ & F3). cbn [rest strm] in L1, F3.
    assert (Len : length t <= length (join_lines fl ++ t)) by (rewrite app_length; lia).
    assert (A : pfmt p' <> FUnknown ->
                (let! y := process_section o ds0 should p' s1 in section_loop (S (length (join_lines fl ++ t))) o f (fst y) (snd y) false) w =
                (let! y := process_section o ds0 should p' s1 in section_loop (S (length t)) o f (fst y) (snd y) false) w).
    { intros Hk. unfold mbind. destruct (process_section o ds0 should p' s1 w) as [[[st1 s2]|e] w1] eqn:P; [|reflexivity]. cbn [fst snd].
      assert (Lt : length (rest s2) < length (rest (strm t))).
      { eapply (section_progress o f ds0 (strm t) should p' s1 true); [exact Hh|cbn [negb andb]; exact Hk|exact P]. }
      cbn [rest strm] in Lt. apply section_loop_fuel; lia. }
    destruct (pfmt p') eqn:Ef; try reflexivity;
      (destruct (poper p') eqn:Eo; try (apply A; discriminate); specialize (F3 eq_refl eq_refl); apply section_loop_fuel; lia). }
  rewrite L. reflexivity.
Qed.
Print Assumptions text_before.

(* ---------- several sections: the run on the concatenation is the sequence of the runs ---------- *)
Definition join_run (a r : nat * list N) : nat * list N := (Nat.max (fst a) (fst r), snd a ++ snd r).

(* one run of its own per text, each in the world the previous one left; exit status the largest, report the concatenation;
   an exception ends the sequence *)
Fixpoint runs (o : options) (ts : list (list N)) : M (nat * list N) :=
  match ts with
  | [] => mret (0, [])
  | t :: r => match r with
              | [] => process_patch o t
              | _ :: _ => let! a := process_patch o t in map_result (join_run a) (runs o r)
              end
  end.

(* ts = [t1; ...; tn]: every text but the last is a unified section for which the hypotheses of unified_sections_sum
   hold in the world the sections before it have left, with "what follows" = the concatenation of the texts after it;
   the last text is arbitrary *)
Inductive sections_ok (o : options) (f : format) : list (list N) -> world -> Prop :=
| SO_last t w : sections_ok o f [t] w
| SO_cons pre h1 hs' st' t2s st1 sA w w1 :
    Forall clean pre ->
    Forall wf_hunk (h1 :: hs') ->
    scan (strip_size o) (st0 (empty_patch f)) (pre ++ [unified_header (oldr h1) (newr h1); first_line h1]) = Some st' ->
    h_first st' = S (length pre) ->
    h_body st' = true ->
    pfmt (header_patch st') = FUnified \/ pfmt (header_patch st') = FGit ->
    poper (header_patch st') <> OpBinary ->
    tail_ok (concat t2s) -> concat t2s <> [] ->
    process_section o ds0 true (header_patch st') (strm (emit_hunks (h1 :: hs'))) w = (Ok (st1, sA), w1) ->
    deferred_writes st1 = [] -> deferred_removals st1 = [] ->
    has_patch o f (stream_of (concat t2s)) = true ->
    (may_backup o = true -> forall q,
       In q (targets_met (S (S (length (concat t2s)))) o f ds0 (stream_of (concat t2s)) w1) -> fresh_backup o st1 q) ->
    sections_ok o f t2s w1 ->
    sections_ok o f ((join_lines pre ++ emit_hunks (h1 :: hs')) :: t2s) w.

Theorem sections_sum o f ts w :
  format_from_options o = Ok f -> sections_ok o f ts w ->
  process_patch o (concat ts) w = runs o ts w.
Proof.
  intros Hfo H. induction H as [t w|pre h1 hs' st' t2s st1 sA w w1 Hpre Hwf Hscan Hfirst Hbody Hfmt Hop Ht Hne Hps Hdw Hdr Hhp Hb Hrest IH].
  - cbn [concat runs]. rewrite app_nil_r. reflexivity.
  - destruct (unified_sections_sum o f pre h1 hs' st' Hfo Hpre Hwf Hscan Hfirst Hbody Hfmt Hop (concat t2s) st1 sA w w1 Ht Hne Hps Hdw Hdr Hhp Hb)
      as [A B].
    cbn [concat]. rewrite B. cbn [runs]. destruct t2s as [|t2 r]; [cbn [concat] in Hne; congruence|].
    unfold mbind. rewrite A. unfold map_result. rewrite IH. reflexivity.
Qed.
Print Assumptions sections_sum.

(* ---------- non-vacuity ---------- *)
Local Open Scope string_scope.
Definition exu_pre : list (list N) := [bs "--- f"; bs "+++ f"].
Definition exu_h1 : hunk := mkHunk (mkRange 1 1) (mkRange 1 1) [mkPL Del (mkLine (bs "a") LF); mkPL Add (mkLine (bs "b") LF)].
Definition exu_st' : hstate :=
  match scan (strip_size ex_o) (st0 (empty_patch FUnknown)) (exu_pre ++ [unified_header (oldr exu_h1) (newr exu_h1); first_line exu_h1]) with
  | Some x => x
  | None => st0 (empty_patch FUnknown)
  end.
Definition exu_run1 := process_section ex_o ds0 true (header_patch exu_st') (strm (emit_hunks [exu_h1])) ex_w.
Definition exu_st1 : dstate := match fst exu_run1 with Ok y => fst y | Throw _ => ds0 end.
Definition exu_sA : stream := match fst exu_run1 with Ok y => snd y | Throw _ => strm [] end.
Definition exu_w1 : world := snd exu_run1.

Lemma exu_wf : wf_hunk exu_h1.
Proof.
  unfold wf_hunk, wf_range, wf_body, wf_pline, clean, MAXZ. cbn.
  repeat split; try discriminate; try lia; try tauto; try (intros [E|[]]; discriminate); try (intros H; discriminate H);
    vm_compute; intuition discriminate.
Qed.

Lemma exu_tail_ok : tail_ok ex_t2.
Proof.
  right. exists (bs "Some text between the two."), (nlb ++ ex_sec_g ++ bs "trailing text" ++ nlb).
  split; [reflexivity|]. split; [split; [vm_compute; intuition discriminate|vm_compute; discriminate]|].
  split; [reflexivity|]. intros h0. reflexivity.
Qed.

(* the section for f followed by "text, section for g, text" (the patch ex_t of Proofs_Sections.v): the run on the whole is
   the run on the section for f alone (exit status 1: its hunk fails) followed by the run on the rest (exit status 0) *)
Example unified_sections_sum_nonvacuous :
  join_lines exu_pre ++ emit_hunks [exu_h1] = ex_sec_f /\
  process_patch ex_o ex_sec_f ex_w = (Ok (1, events exu_st1), exu_w1) /\
  process_patch ex_o (ex_sec_f ++ ex_t2) ex_w = map_result (after_run exu_st1) (process_patch ex_o ex_t2) exu_w1 /\
  lookup (fs exu_w1) (bs "f.rej") <> None /\
  lookup (fs (snd (process_patch ex_o (ex_sec_f ++ ex_t2) ex_w))) (bs "g") = Some (Reg (bs "d" ++ nlb) 420).
Proof.
  assert (E : join_lines exu_pre ++ emit_hunks [exu_h1] = ex_sec_f) by (vm_compute; reflexivity).
  split; [exact E|].
  assert (T : targets_met (S (S (length ex_t2))) ex_o FUnknown ds0 (stream_of ex_t2) exu_w1 = [bs "g"]) by (vm_compute; reflexivity).
  destruct (unified_sections_sum ex_o FUnknown exu_pre exu_h1 [] exu_st') with (t2 := ex_t2) (st1 := exu_st1) (sA := exu_sA) (w := ex_w) (w1 := exu_w1)
    as [A B].
  - reflexivity.
  - repeat constructor; vm_compute; intuition discriminate.
  - constructor; [exact exu_wf|constructor].
  - vm_compute. reflexivity.
  - vm_compute. reflexivity.
  - vm_compute. reflexivity.
  - left. vm_compute. reflexivity.
  - vm_compute. discriminate.
  - exact exu_tail_ok.
  - discriminate.
  - vm_compute. reflexivity.
  - vm_compute. reflexivity.
  - vm_compute. reflexivity.
  - vm_compute. reflexivity.
  - intros _ q Hq. rewrite T in Hq. destruct Hq as [<-|[]]. vm_compute. reflexivity.
  - rewrite E in A, B. split; [exact A|]. split; [exact B|]. split; [vm_compute; discriminate|vm_compute; reflexivity].
Qed.

(* text after the last section *)
Definition exu_trailing := bs "-- " ++ nlb ++ bs "2.39.0" ++ nlb.
Example unified_section_text_after_nonvacuous :
  process_patch ex_o (ex_sec_f ++ exu_trailing) ex_w = process_patch ex_o ex_sec_f ex_w.
Proof.
  assert (E : join_lines exu_pre ++ emit_hunks [exu_h1] = ex_sec_f) by (vm_compute; reflexivity).
  destruct (unified_section_text_after ex_o FUnknown exu_pre exu_h1 [] exu_st') with (t2 := exu_trailing) (st1 := exu_st1) (sA := exu_sA) (w := ex_w) (w1 := exu_w1)
    as [_ B].
  - reflexivity.
  - repeat constructor; vm_compute; intuition discriminate.
  - constructor; [exact exu_wf|constructor].
  - vm_compute. reflexivity.
  - vm_compute. reflexivity.
  - vm_compute. reflexivity.
  - left. vm_compute. reflexivity.
  - vm_compute. discriminate.
  - right. exists (bs "-- "), (bs "2.39.0" ++ nlb). split; [reflexivity|]. split; [split; [vm_compute; intuition discriminate|vm_compute; discriminate]|].
    split; [reflexivity|]. intros h0. reflexivity.
  - discriminate.
  - vm_compute. reflexivity.
  - vm_compute. reflexivity.
  - vm_compute. reflexivity.
  - vm_compute. reflexivity.
  - rewrite E in B. exact B.
Qed.

(* text in front of the patch *)
Definition exu_front := [bs "From: someone"; bs "Subject: [PATCH] fix"; []; bs "Some text, and more."; bs "diff -ruN a/f b/f"].
Example text_before_nonvacuous :
  process_patch ex_o (join_lines exu_front ++ ex_t) ex_w = process_patch ex_o ex_t ex_w /\
  match fst (process_patch ex_o ex_t ex_w) with Ok (c, _) => c = 1 | Throw _ => False end.
Proof.
  split; [|vm_compute; reflexivity].
  apply (text_before ex_o FUnknown exu_front ex_t (ex_should ex_t) (ex_p ex_t) (ex_s1 ex_t) ex_w).
  - reflexivity.
  - repeat constructor; vm_compute; reflexivity.
  - repeat constructor; vm_compute; intuition discriminate.
  - vm_compute. reflexivity.
Qed.

(* three texts: the section for f, "text + the section for g", "a section for h + trailing text" *)
Definition ex3_w := mkWorld [(bs "f", Reg (bs "x" ++ nlb) 420); (bs "g", Reg (bs "c" ++ nlb) 420); (bs "h", Reg (bs "e" ++ nlb) 420)] 18 [] None [].
Definition ex3_pre_g : list (list N) := [bs "Some text between the two."; []; bs "--- g"; bs "+++ g"].
Definition ex3_hg : hunk := mkHunk (mkRange 1 1) (mkRange 1 1) [mkPL Del (mkLine (bs "c") LF); mkPL Add (mkLine (bs "d") LF)].
Definition ex3_tg := join_lines ex3_pre_g ++ emit_hunks [ex3_hg].
Definition ex3_th := bs "--- h" ++ nlb ++ bs "+++ h" ++ nlb ++ bs "@@ -1 +1 @@" ++ nlb ++ bs "-e" ++ nlb ++ bs "+E" ++ nlb ++ bs "trailing text" ++ nlb.
Definition ex3_scan pre h :=
  match scan (strip_size ex_o) (st0 (empty_patch FUnknown)) (pre ++ [unified_header (oldr h) (newr h); first_line h]) with
  | Some x => x
  | None => st0 (empty_patch FUnknown)
  end.
Definition ex3_run pre h w := process_section ex_o ds0 true (header_patch (ex3_scan pre h)) (strm (emit_hunks [h])) w.
Definition ex3_st pre h w : dstate := match fst (ex3_run pre h w) with Ok y => fst y | Throw _ => ds0 end.
Definition ex3_s pre h w : stream := match fst (ex3_run pre h w) with Ok y => snd y | Throw _ => strm [] end.
Definition ex3_w1 := snd (ex3_run exu_pre exu_h1 ex3_w).
Definition ex3_w2 := snd (ex3_run ex3_pre_g ex3_hg ex3_w1).

Lemma ex3_wf : wf_hunk ex3_hg.
Proof.
  unfold wf_hunk, wf_range, wf_body, wf_pline, clean, MAXZ. cbn.
  repeat split; try discriminate; try lia; try tauto; try (intros [E|[]]; discriminate); try (intros H; discriminate H);
    vm_compute; intuition discriminate.
Qed.

Example sections_sum_nonvacuous :
  process_patch ex_o (ex_sec_f ++ ex3_tg ++ ex3_th) ex3_w = runs ex_o [ex_sec_f; ex3_tg; ex3_th] ex3_w /\
  match fst (process_patch ex_o (ex_sec_f ++ ex3_tg ++ ex3_th) ex3_w) with Ok (c, _) => c = 1 | Throw _ => False end /\
  lookup (fs (snd (process_patch ex_o (ex_sec_f ++ ex3_tg ++ ex3_th) ex3_w))) (bs "h") = Some (Reg (bs "E" ++ nlb) 420) /\
  lookup (fs (snd (process_patch ex_o (ex_sec_f ++ ex3_tg ++ ex3_th) ex3_w))) (bs "g.orig") = Some (Reg (bs "c" ++ nlb) 420).
Proof.
  split; [|vm_compute; repeat split; reflexivity].
  assert (E : ex_sec_f ++ ex3_tg ++ ex3_th = concat [ex_sec_f; ex3_tg; ex3_th]) by (cbn [concat]; rewrite app_nil_r; reflexivity).
  rewrite E. apply (sections_sum ex_o FUnknown); [reflexivity|].
  assert (Ef : ex_sec_f = join_lines exu_pre ++ emit_hunks [exu_h1]) by (vm_compute; reflexivity).
  rewrite Ef.
  apply (SO_cons ex_o FUnknown exu_pre exu_h1 [] (ex3_scan exu_pre exu_h1) [ex3_tg; ex3_th]
                 (ex3_st exu_pre exu_h1 ex3_w) (ex3_s exu_pre exu_h1 ex3_w) ex3_w ex3_w1).
  - repeat constructor; vm_compute; intuition discriminate.
  - constructor; [exact exu_wf|constructor].
  - vm_compute. reflexivity.
  - vm_compute. reflexivity.
  - vm_compute. reflexivity.
  - left. vm_compute. reflexivity.
  - vm_compute. discriminate.
  - right. exists (bs "Some text between the two."). eexists. split; [vm_compute; reflexivity|].
    split; [split; [vm_compute; intuition discriminate|vm_compute; discriminate]|]. split; [reflexivity|]. intros h0. reflexivity.
  - vm_compute. discriminate.
  - vm_compute. reflexivity.
  - vm_compute. reflexivity.
  - vm_compute. reflexivity.
  - vm_compute. reflexivity.
  - intros _ q Hq.
    assert (T : targets_met (S (S (length (concat [ex3_tg; ex3_th])))) ex_o FUnknown ds0 (stream_of (concat [ex3_tg; ex3_th])) ex3_w1 = [bs "g"; bs "h"])
      by (vm_compute; reflexivity).
    rewrite T in Hq. destruct Hq as [<-|[<-|[]]]; vm_compute; reflexivity.
  - apply (SO_cons ex_o FUnknown ex3_pre_g ex3_hg [] (ex3_scan ex3_pre_g ex3_hg) [ex3_th]
                   (ex3_st ex3_pre_g ex3_hg ex3_w1) (ex3_s ex3_pre_g ex3_hg ex3_w1) ex3_w1 ex3_w2).
    + repeat constructor; vm_compute; intuition discriminate.
    + constructor; [exact ex3_wf|constructor].
    + vm_compute. reflexivity.
    + vm_compute. reflexivity.
    + vm_compute. reflexivity.
    + left. vm_compute. reflexivity.
    + vm_compute. discriminate.
    + right. exists (bs "--- h"). eexists. split; [vm_compute; reflexivity|].
      split; [split; [vm_compute; intuition discriminate|vm_compute; discriminate]|]. split; [reflexivity|]. intros h0. reflexivity.
    + vm_compute. discriminate.
    + vm_compute. reflexivity.
    + vm_compute. reflexivity.
    + vm_compute. reflexivity.
    + vm_compute. reflexivity.
    + intros _ q Hq.
      assert (T : targets_met (S (S (length (concat [ex3_th])))) ex_o FUnknown ds0 (stream_of (concat [ex3_th])) ex3_w2 = [bs "h"])
        by (vm_compute; reflexivity).
      rewrite T in Hq. destruct Hq as [<-|[]]; vm_compute; reflexivity.
    + apply SO_last.
Qed.
