(* Proofs_Arith.v — C07, "never overflows a signed integer", over the model.

   LineNumber = int64_t.  The C++ uses saturating_add / saturating_sub (include/patch/hunk.h) at most sites; the model
   mirrors those with sadd / ssub (always inside [MINZ, MAXZ], lemma sat64_in64).  At the remaining sites the C++ uses
   plain +, -, ++, --, += ; the model uses unbounded Z (or nat) arithmetic there, so an overflow of the C++ would show
   up as a model value outside [MINZ, MAXZ] = [-2^63, 2^63-1].  This file proves that it does not, site by site.

   TABLE OF THE PLAIN SITES  (C++ file:line | expression | model | bound proved, lemma)
   ---- src/parser.cpp ----
   237,241  output *= 10; output += c           Base.s2n_loop / LineParser.s2n_out   <= MAXLN after the guards:
                                                                                       s2n_sites, s2n_out_le, consume_line_number_range
   316,336  end_line - start_line               parse_normal_range (oend - ostart)   both in [0,MAXZ]: in64, normal_count_sites
                                                                                       (the '+ 1' is saturating_add)
   338      --new.number_of_lines ('d')         parse_normal_range (nc0 - 1)         in64, normal_count_sites
   341,342  std::max(number_of_lines, 0)        parse_normal_range (Z.max oc 0, Z.max nc 0)   no arithmetic; makes the counts >= 0:
                                                                                       parse_normal_range_shape, parse_normal_range_ok
   369      strip - 1 (int)                     git_ext_filename (strip - 1)         guarded by strip > 0 in the C++ (int, not LineNumber)
   693-723  number_of_lines++ , *_line_number++ from_context_parts (oc+1, nc+1)      = number of lines appended: from_context_parts_counts
   779      ++i (append_content)                ctx_append_content (i + 1)           only while i < end_line <= MAXZ: ctx_append_content_site
                                                                                       (start: saturating_add)
   936,945  --new_lines_expected, --old_...     unified_loop (ne - 1, oe - 1)        = count - lines read, in [-(lines read)-1, MAXZ]:
                                                                                       unified_counter_sites (they DO go negative)
   1021,1046 ++i (normal hunk lines)            normal_read (n - 1 downwards)        exactly max(0,n) rounds: normal_read_counts
   467,516,844 ++m_line_number, ++lines (size_t) not LineNumber; unsigned; counts lines of the input
   1094     --remaining_to_strip (int)          strip_loop (rem - 1)                 >= amount - (bytes of the path): strip_loop_rem
                                                                                       (an int: needs a path of 2^31 separators to wrap)
   ---- src/locator.cpp ----
   113,120  ++patch_prefix/suffix_content       prefix_ctx, suffix_ctx (nat)         <= |body|: prefix_ctx_le, suffix_ctx_le
   128      ++fuzz                              fuzz_loop (S fz)                     <= context + 1 <= |body| + 1: locate_sites_in64
   130,131  fuzz + patch_suffix_content - context   fz + sc - ctx (nat, truncated = max(.,0))   in [-|body|, 2|body|]: locate_sites_in64
   140      line += prefix_fuzz                 pos + pf (nat)                       <= |file| + |body|: locate_sites_in64
   157,164  ++line                              list walk / scan_fwd (nat)           only while line < content.size()
   171      min(offset_guess, size) - 1         search_level (Z.min guess size - lo) >= MINZ because offset_guess >= MINZ + 1:
                                                                                       stated_pos_range, locate_sites_in64; needs the invariant
                                                                                       -(MAXZ-1) <= offset_error (off_ok, apply_one_inv); holds for hunks of every format
   171      --line                              scan_bwd (nat)                       >= min_line - 1 >= -1
   94,166,173 saturating                         sadd / ssub                          sat64_in64
   ---- src/applier.cpp ----
   108,112,135,172,176 ++line_number (size_t)   write_hunk / write_define_loop (S ln) = location + old lines of the hunk:
                                                                                       write_hunk_cursor, write_define_loop_cursor
   157,180  static_cast<LineNumber>(size_t)     a_ln                                 <= |file| + |body|: apply_one_inv (Inv), cursor_sites
   195      line_number + offset_old_lines_to_new + 1   print_hunk_statistics        o2n_sites, needs good hunks: holds of every parsed hunk
   354,381  ++line_number                       copy_range                           only while < location resp. < lines.size()
   377      offset_old_lines_to_new += new.number_of_lines - old.number_of_lines   apply_one (a_o2n)   o2n_sites, needs good hunks: holds of every parsed hunk
   351,362,363,206 saturating                    sadd                                 sat64_in64
   277      ++m_rejected_hunks (int)            a_rejected (nat)                     <= number of hunks
   ---- src/formatter.cpp ----
   36,49    saturating                          fmt_crange (ssub (sadd ..) 1)        sat64_in64; no plain LineNumber arithmetic in this file
   88-130   static_cast<size_t>(number_of_lines)  Z.eqb (Z.of_nat size) oc           conversion to unsigned, defined for negative values

   HISTORY OF A FINDING.  The two sites applier.cpp:195,377 need [good_hunk]: the counts of a hunk are the numbers of
   old / new lines of its body.  Before its repair parse_normal_range returned a NEGATIVE count for a range whose end is
   smaller than its start ("9223372036854775807,1c5,7": count -(2^63-3)); no old lines were read, the hunk (three '+'
   lines) matched anywhere, and line 377 computed 3 - (-(2^63-3)) = 2^63 (UBSan: "applier.cpp:377: signed integer
   overflow: 3 - -9223372036854775805"; with --verbose and two such hunks also applier.cpp:195).  The program now clamps
   both counts at zero ("a range which ends before it starts holds no lines", parser.cpp:341,342), the model follows, and
   [good_hunk] is PROVED for every hunk of every format (parse_unified_patch_good, parse_context_patch_good,
   parse_normal_patch_good in Proofs_ArithParse.v), so the theorems from the bytes of the inputs carry no hypothesis on
   the patch any more.  Example former_witness_harmless: the old witness now parses to a hunk with old count 0, which the
   model rejects ("Hunk #1 FAILED at 9223372036854775807."), and all its site values are in range.

   MAIN RESULTS: apply_patch_sites_in64, apply_first_inv, parsed_patch_sites_in64, parsed_sections_sites_in64 (and the
   weaker apply_patch_sites_but_o2n_in64, which needs start lines in range only); Examples ok_sites_in64 (hypotheses
   satisfiable) and former_witness_harmless.  Restated with Print Assumptions in Properties_Arith.v. *)
From PatchV Require Import Base Lines Hunk Locator Formatter Options Applier LineParser Parser
     Spec_Locate Proofs_Base Proofs_Locate Proofs_Apply Proofs_Unified Proofs_ArithParse Proofs_ArithHeader Proofs_ArithSize.
Local Open Scope Z_scope.

(* ---------- strip_path: --remaining_to_strip ---------- *)
Lemma strip_loop_rem : forall fuel s b rem b' rem',
  strip_loop fuel s b rem = (b', rem') -> rem - Z.of_nat fuel <= rem' <= rem.
Proof.
  induction fuel as [|f IH]; intros s b rem b' rem' H; cbn [strip_loop] in H; [inversion H; subst; lia|].
  destruct s as [|c r]; [inversion H; subst; lia|].
  destruct (N.eqb c 47); apply IH in H; lia.
Qed.

(* ---------- reversing a hunk ---------- *)
Lemma n_old_reverse b : n_old (map reverse_pline b) = n_new b.
Proof.
  induction b as [|p r IH]; [reflexivity|]. cbn [map]. rewrite n_old_cons, n_new_cons, IH.
  unfold is_old, is_new, reverse_pline. cbn [pop]. destruct (pop p); reflexivity.
Qed.
Lemma n_new_reverse b : n_new (map reverse_pline b) = n_old b.
Proof.
  induction b as [|p r IH]; [reflexivity|]. cbn [map]. rewrite n_old_cons, n_new_cons, IH.
  unfold is_old, is_new, reverse_pline. cbn [pop]. destruct (pop p); reflexivity.
Qed.

Lemma good_hunk_reverse h : good_hunk h -> good_hunk (reverse_hunk h).
Proof.
  intros (Bo & Bn & Co & Cn). unfold good_hunk, reverse_hunk. cbn [oldr newr body].
  rewrite n_old_reverse, n_new_reverse. tauto.
Qed.

Lemma body_reverse_length h : length (body (reverse_hunk h)) = length (body h).
Proof. unfold reverse_hunk. cbn [body]. apply map_length. Qed.

Lemma blen_reverse hs : blen (map reverse_hunk hs) = blen hs.
Proof. induction hs as [|h r IH]; [reflexivity|]. cbn [map blen]. rewrite IH, body_reverse_length. reflexivity. Qed.

Lemma Forall_good_reverse hs : Forall good_hunk hs -> Forall good_hunk (map reverse_hunk hs).
Proof. induction 1; cbn [map]; constructor; [apply good_hunk_reverse|]; assumption. Qed.

(* ---------- locate_hunk ---------- *)
Lemma prefix_ctx_le b : (prefix_ctx b <= length b)%nat.
Proof. induction b as [|p r IH]; cbn [prefix_ctx length]; [lia|]. destruct (is_ctx p); lia. Qed.
Lemma suffix_ctx_le b : (suffix_ctx b <= length b)%nat.
Proof. unfold suffix_ctx. rewrite <- (rev_length b). apply prefix_ctx_le. Qed.

(* the accumulated offset (offset_error) stays in this interval; the lower end is what keeps line 171 in range *)
Definition off_ok (z : Z) : Prop := - (MAXZ - 1) <= z <= MAXZ.

Lemma off_ok_zero : off_ok 0. Proof. unfold off_ok. rewrite MAXZ_val. lia. Qed.

Lemma expected_line_number_range h : 0 <= rstart (oldr h) <= MAXZ -> 0 <= expected_line_number h <= MAXZ.
Proof.
  intros B. unfold expected_line_number. destruct (Z.eqb (rcount (oldr h)) 0); [|exact B].
  unfold sadd, sat64. rewrite MAXZ_val, MINZ_val in *. lia.
Qed.

Lemma stated_pos_eq h off : stated_pos h off = sadd (ssub (expected_line_number h) 1) off.
Proof. reflexivity. Qed.

(* offset_guess (locator.cpp:94) *)
Lemma stated_pos_range h off : 0 <= rstart (oldr h) <= MAXZ -> off_ok off -> MINZ + 1 <= stated_pos h off <= MAXZ.
Proof.
  intros B O. rewrite stated_pos_eq. pose proof (expected_line_number_range h B) as E.
  revert E O. generalize (expected_line_number h). intros e E O.
  unfold off_ok, sadd, ssub, sat64 in *. rewrite MAXZ_val, MINZ_val in *. lia.
Qed.

(* offset_error = saturating_add(offset_error, saturating_sub(line, offset_guess)) (applier.cpp:351, locator.cpp:166,173) *)
Lemma offset_step h off p : 0 <= rstart (oldr h) <= MAXZ -> off_ok off ->
  off_ok (sadd off (ssub (Z.of_nat p) (stated_pos h off))).
Proof.
  intros B O. rewrite stated_pos_eq. pose proof (expected_line_number_range h B) as E.
  revert E O. generalize (expected_line_number h). intros e E O.
  assert (P : 0 <= Z.of_nat p) by lia. revert P. generalize (Z.of_nat p). intros z P.
  unfold off_ok, sadd, ssub, sat64 in *. rewrite MAXZ_val, MINZ_val in *. lia.
Qed.

Lemma locate_line_le f h ws off F lo l : locate_hunk f h ws off F lo = Some l -> (lline l <= length f)%nat.
Proof.
  intros E. destruct (Z.eq_dec (rcount (oldr h)) 0) as [Hc|Hc].
  - destruct (locate_insertion _ _ _ _ _ _ _ E Hc) as [H _]. lia.
  - destruct (locate_sound _ _ _ _ _ _ _ E Hc) as (_ & _ & H & _). lia.
Qed.

Lemma locate_offset_ok f h ws off F lo l :
  locate_hunk f h ws off F lo = Some l -> 0 <= rstart (oldr h) <= MAXZ -> off_ok off -> off_ok (sadd off (loffset l)).
Proof.
  intros E B O. destruct (Z.eq_dec (rcount (oldr h)) 0) as [Hc|Hc].
  - destruct (locate_insertion _ _ _ _ _ _ _ E Hc) as (_ & _ & -> & _).
    unfold off_ok, sadd, sat64 in *. rewrite MAXZ_val, MINZ_val in *. lia.
  - destruct (locate_sound _ _ _ _ _ _ _ E Hc) as (_ & _ & _ & ->). apply offset_step; assumption.
Qed.

(* the values of the plain sites of one call of locate_hunk(content = f, hunk = h, offset = off, max_fuzz) *)
Definition fuzz_sites (size pc sc ctx : Z) (fz : nat) : list Z :=
  [ Z.of_nat fz + sc - ctx;                          (* locator.cpp:130 *)
    Z.of_nat fz + pc - ctx;                          (* locator.cpp:131 *)
    size + Z.max (Z.of_nat fz + pc - ctx) 0;         (* locator.cpp:140  line += prefix_fuzz, line <= content.size() *)
    Z.of_nat fz + 1 ].                               (* locator.cpp:128  ++fuzz *)

Definition locate_sites (f : list line) (h : hunk) (off max_fuzz : Z) : list Z :=
  let pc := Z.of_nat (prefix_ctx (body h)) in
  let sc := Z.of_nat (suffix_ctx (body h)) in
  let ctx := Z.max pc sc in
  [ pc; sc;                                                          (* locator.cpp:113,120 *)
    Z.min (stated_pos h off) (Z.of_nat (length f)) - 1;              (* locator.cpp:171, start of the backward scan *)
    Z.of_nat (length f) + 1 ]                                        (* locator.cpp:157,164  ++line while line < size *)
  ++ flat_map (fuzz_sites (Z.of_nat (length f)) pc sc ctx) (seq 0 (Z.to_nat (Z.min max_fuzz ctx + 1))).

Lemma locate_sites_in64 f h off max_fuzz :
  0 <= rstart (oldr h) <= MAXZ -> off_ok off ->
  Z.of_nat (length f) + 2 * Z.of_nat (length (body h)) + 1 <= MAXZ ->
  Forall in64 (locate_sites f h off max_fuzz).
Proof.
  intros B O L. unfold locate_sites.
  pose proof (prefix_ctx_le (body h)) as Hp. pose proof (suffix_ctx_le (body h)) as Hs.
  pose proof (stated_pos_range h off B O) as G.
  set (pc := Z.of_nat (prefix_ctx (body h))) in *. set (sc := Z.of_nat (suffix_ctx (body h))) in *.
  assert (Bp : 0 <= pc <= Z.of_nat (length (body h))) by (unfold pc; lia).
  assert (Bs : 0 <= sc <= Z.of_nat (length (body h))) by (unfold sc; lia).
  clearbody pc sc. unfold in64. rewrite MAXZ_val, MINZ_val in *.
  apply Forall_app. split.
  - repeat constructor; lia.
  - apply Forall_forall. intros z Hz. apply in_flat_map in Hz. destruct Hz as (fz & Hfz & Hz).
    apply in_seq in Hfz. unfold fuzz_sites in Hz. cbn [In] in Hz.
    assert (Fz : 0 <= Z.of_nat fz <= Z.max pc sc) by lia.
    destruct Hz as [<-|[<-|[<-|[<-|[]]]]]; lia.
Qed.

(* ---------- write_hunk / write_define_hunk: the cursor ---------- *)
Lemma write_hunk_cursor f : forall b ln, Z.of_nat (snd (write_hunk f ln b)) = Z.of_nat ln + n_old b.
Proof.
  induction b as [|p r IH]; intros ln; cbn [write_hunk]; [cbn; lia|].
  rewrite n_old_cons. unfold is_old. destruct (pop p).
  - destruct (write_hunk f (S ln) r) as [o e] eqn:W. cbn [snd]. specialize (IH (S ln)). rewrite W in IH. cbn [snd] in IH. lia.
  - destruct (write_hunk f ln r) as [o e] eqn:W. cbn [snd]. specialize (IH ln). rewrite W in IH. cbn [snd] in IH. lia.
  - rewrite IH. lia.
Qed.

Lemma write_define_loop_cursor f define : forall b ln st last o e st' last',
  write_define_loop f define b ln st last = Ok (o, e, st', last') -> Z.of_nat e = Z.of_nat ln + n_old b.
Proof.
  induction b as [|p r IH]; intros ln st last o e st' last' H; cbn [write_define_loop] in H.
  - inversion H; subst. cbn. lia.
  - rewrite n_old_cons. unfold is_old. destruct (pop p).
    + destruct (nth_opt f ln) as [l|].
      * destruct (write_define_loop f define r (S ln) DOutside (nl l)) as [[[[o1 e1] st1] l1]|ex] eqn:R; cbn [rbind] in H; [|discriminate].
        inversion H; subst. apply IH in R. lia.
      * apply IH in H. lia.
    + destruct st; cbn [rbind] in H;
        match type of H with context [write_define_loop ?a ?b ?c ?d ?e ?g] =>
          destruct (write_define_loop a b c d e g) as [[[[o1 e1] st1] l1]|ex] eqn:R end;
        cbn [rbind] in H; try discriminate; inversion H; subst; apply IH in R; lia.
    + destruct (nth_opt f ln) as [l|]; [|discriminate].
      destruct st; cbn [rbind] in H;
        match type of H with context [write_define_loop ?a ?b ?c ?d ?e ?g] =>
          destruct (write_define_loop a b c d e g) as [[[[o1 e1] st1] l1]|ex] eqn:R end;
        cbn [rbind] in H; try discriminate; inversion H; subst; apply IH in R; lia.
Qed.

Lemma write_define_hunk_cursor f define ln b w :
  write_define_hunk f define ln b = Ok w -> Z.of_nat (snd w) = Z.of_nat ln + n_old b.
Proof.
  unfold write_define_hunk.
  destruct (write_define_loop f define b ln DOutside LF) as [[[[o e] st] last]|ex] eqn:R; cbn [rbind]; [|discriminate].
  apply write_define_loop_cursor in R. destruct (dstate_outside st); intros [= <-]; cbn [snd]; exact R.
Qed.

Lemma write_any_cursor (o : options) f ln b w :
  (if is_nil (define_macro o) then Ok (write_hunk f ln b) else write_define_hunk f (define_macro o) ln b) = Ok w ->
  Z.of_nat (snd w) = Z.of_nat ln + n_old b.
Proof.
  destruct (is_nil (define_macro o)); [intros [= <-]; apply write_hunk_cursor|apply write_define_hunk_cursor].
Qed.

(* ---------- apply_patch: one hunk ---------- *)
Lemma apply_one_arith o p f k s h loc s' :
  apply_one o p f k s h loc = Ok s' ->
  (exists l, loc = Some l /\ a_skip s = false /\ a_skip s' = false /\
             Z.of_nat (a_ln s') = Z.of_nat (lline l) + n_old (body h) /\
             a_offerr s' = sadd (a_offerr s) (loffset l) /\
             a_o2n s' = a_o2n s + (rcount (newr h) - rcount (oldr h))) \/
  ((loc = None \/ a_skip s = true) /\
   a_ln s' = a_ln s /\ a_offerr s' = a_offerr s /\ a_o2n s' = a_o2n s /\ a_skip s' = a_skip s).
Proof.
  unfold apply_one. destruct loc as [l|].
  - destruct (a_skip s) eqn:Hs; cbn [negb].
    + destruct (write_reject o p (a_rejected s) (shift_hunk h (a_o2n s))) as [t|e]; cbn [rbind]; [|discriminate].
      intros [= <-]. right. cbn [a_ln a_offerr a_o2n a_skip negb andb]. auto.
    + destruct (if is_nil (define_macro o) then Ok (write_hunk f (lline l) (body h))
                else write_define_hunk f (define_macro o) (lline l) (body h)) as [w|e] eqn:W; cbn [rbind]; [|discriminate].
      apply write_any_cursor in W.
      intros [= <-]. left. exists l. cbn [a_ln a_offerr a_o2n a_skip negb andb loc_found].
      repeat split; try reflexivity. exact W.
  - destruct (write_reject o p (a_rejected s) (shift_hunk h (a_o2n s))) as [t|e]; cbn [rbind]; [|discriminate].
    intros [= <-]. right. cbn [a_ln a_offerr a_o2n a_skip loc_found]. rewrite andb_false_r. auto.
Qed.

(* the invariant of the loop over the hunks.  L = number of lines of the file, u = number of body lines of the hunks
   processed so far.  The flag w selects the sites looked at: w = true, all of them (this needs good hunks); w = false,
   all but the two sites of applier.cpp:195,377 which involve offset_old_lines_to_new (this needs nothing but start
   lines that are line numbers, which holds of every hunk of every format) *)
Definition hunk_ok (w : bool) (h : hunk) : Prop := if w then good_hunk h else starts_ok h.

Definition Inv (w : bool) (L u : Z) (s : astate) : Prop :=
  (if w then - u <= a_o2n s <= u else True) /\ Z.of_nat (a_ln s) <= L + u /\ off_ok (a_offerr s).
Notation AInv := (Inv true).

Definition loc_ok (L : Z) (off : Z) (loc : option location) : Prop :=
  match loc with
  | Some l => Z.of_nat (lline l) <= L /\ off_ok (sadd off (loffset l))
  | None => True
  end.

Lemma hunk_ok_starts w h : hunk_ok w h -> starts_ok h.
Proof. destruct w; cbn [hunk_ok]; [apply good_hunk_starts|auto]. Qed.

Lemma starts_ok_reverse h : starts_ok h -> starts_ok (reverse_hunk h).
Proof. intros [A B]. unfold starts_ok, reverse_hunk. cbn [oldr newr]. tauto. Qed.

Lemma hunk_ok_reverse w h : hunk_ok w h -> hunk_ok w (reverse_hunk h).
Proof. destruct w; cbn [hunk_ok]; [apply good_hunk_reverse|apply starts_ok_reverse]. Qed.

Lemma Forall_hunk_ok_reverse w hs : Forall (hunk_ok w) hs -> Forall (hunk_ok w) (map reverse_hunk hs).
Proof. induction 1; cbn [map]; constructor; [apply hunk_ok_reverse|]; assumption. Qed.

Lemma apply_one_inv w o p f k s h loc s' L u :
  apply_one o p f k s h loc = Ok s' -> Inv w L u s -> 0 <= u -> hunk_ok w h -> loc_ok L (a_offerr s) loc ->
  Inv w L (u + Z.of_nat (length (body h))) s'.
Proof.
  intros H (Ho & Hl & Hf) Hu Hg Hloc.
  pose proof (n_old_le (body h)) as No. pose proof (n_old_nonneg (body h)) as No0.
  apply apply_one_arith in H. destruct H as [(l & -> & _ & _ & Eln & Eoff & Eo2n)|(_ & Eln & Eoff & Eo2n & _)].
  - destruct Hloc as [Hl1 Hl2]. unfold Inv. rewrite Eo2n, Eoff, Eln. split; [|split; [lia|exact Hl2]].
    destruct w; [|exact I]. cbn [hunk_ok] in Hg. pose proof (good_hunk_counts h Hg) as [Co Cn]. lia.
  - unfold Inv. rewrite Eln, Eoff, Eo2n. split; [destruct w; [lia|exact I]|]. split; [lia|exact Hf].
Qed.

Lemma locate_hunk_loc_ok f h ws off F lo :
  0 <= rstart (oldr h) <= MAXZ -> off_ok off -> loc_ok (Z.of_nat (length f)) off (locate_hunk f h ws off F lo).
Proof.
  intros B O. destruct (locate_hunk f h ws off F lo) as [l|] eqn:E; cbn [loc_ok]; [|exact I].
  split; [pose proof (locate_line_le _ _ _ _ _ _ _ E); lia|exact (locate_offset_ok _ _ _ _ _ _ _ E B O)].
Qed.

Lemma locate_for_loc_ok p f h ws off F lo :
  0 <= rstart (oldr h) <= MAXZ -> off_ok off -> loc_ok (Z.of_nat (length f)) off (locate_for p f h ws off F lo).
Proof.
  intros B O. unfold locate_for. destruct (_ && _); [exact I|apply locate_hunk_loc_ok; assumption].
Qed.

(* the values of the plain sites of one pass of the loop of apply_patch *)
Definition o2n_sites (s : astate) (h : hunk) (loc : option location) : list Z :=
  [ rcount (newr h) - rcount (oldr h);                               (* applier.cpp:377, right hand side *)
    a_o2n s + (rcount (newr h) - rcount (oldr h)) ]                  (* applier.cpp:377, += *)
  ++ match loc with
     | Some l => [ Z.of_nat (lline l) + a_o2n s;                     (* applier.cpp:195 *)
                   Z.of_nat (lline l) + a_o2n s + 1 ]                (* applier.cpp:195 *)
     | None => []
     end.

Definition cursor_sites (h : hunk) (loc : option location) : list Z :=
  match loc with
  | Some l => [ Z.of_nat (lline l) + n_old (body h) ]                (* applier.cpp:157,180: the new line_number *)
  | None => []
  end.

Definition step_sites (w : bool) (s : astate) (h : hunk) (loc : option location) : list Z :=
  (if w then o2n_sites s h loc else []) ++ cursor_sites h loc.

Lemma step_sites_in64 w L u s h loc :
  Inv w L u s -> 0 <= u -> 0 <= L -> hunk_ok w h -> loc_ok L (a_offerr s) loc ->
  L + u + Z.of_nat (length (body h)) + 1 <= MAXZ ->
  Forall in64 (step_sites w s h loc).
Proof.
  intros (Ho & Hl & Hf) Hu HL Hg Hloc Fit.
  pose proof (n_old_le (body h)) as No. pose proof (n_old_nonneg (body h)) as No0.
  unfold step_sites, in64. rewrite MAXZ_val, MINZ_val in *. apply Forall_app. split.
  - destruct w; [|constructor]. cbn [hunk_ok] in Hg. pose proof (good_hunk_counts h Hg) as [Co Cn].
    unfold o2n_sites. apply Forall_app. split; [repeat constructor; lia|].
    destruct loc as [l|]; [|constructor]. destruct Hloc as [Hl1 _]. repeat constructor; lia.
  - unfold cursor_sites. destruct loc as [l|]; [|constructor]. destruct Hloc as [Hl1 _]. repeat constructor; lia.
Qed.

(* ---------- apply_patch: the loop ---------- *)
(* all plain-site values of the passes of apply_rest, in order; collected until the model throws *)
Fixpoint rest_sites (w : bool) (o : options) (p : patch) (f : list line) (k : nat) (s : astate) (hs : list hunk) : list Z :=
  match hs with
  | [] => []
  | h :: r =>
      let loc := locate_for p f h (ignore_whitespace o) (a_offerr s) (max_fuzz o) (a_ln s) in
      locate_sites f h (a_offerr s) (max_fuzz o) ++ step_sites w s h loc ++
      match apply_one o p f k s h loc with
      | Ok s' => rest_sites w o p f (S k) s' r
      | Throw _ => []
      end
  end.

Lemma Zlen_nonneg {A} (l : list A) : 0 <= Z.of_nat (length l). Proof. lia. Qed.

Lemma rest_sites_in64 w o p f : forall hs k s u,
  Inv w (Z.of_nat (length f)) u s -> 0 <= u -> Forall (hunk_ok w) hs ->
  Z.of_nat (length f) + 2 * (u + Z.of_nat (blen hs)) + 1 <= MAXZ ->
  Forall in64 (rest_sites w o p f k s hs).
Proof.
  induction hs as [|h r IH]; intros k s u Hi Hu Hg Fit; cbn [rest_sites]; [constructor|].
  inversion Hg as [|? ? Hh Hr]; subst. cbn [blen] in Fit. rewrite Nat2Z.inj_add in Fit.
  pose proof (Zlen_nonneg (body h)) as Lb. pose proof (Zlen_nonneg f) as Lf.
  assert (Lr : 0 <= Z.of_nat (blen r)) by lia.
  destruct (hunk_ok_starts w h Hh) as [Bo Bn].
  assert (Hoff : off_ok (a_offerr s)) by apply Hi.
  pose proof (locate_for_loc_ok p f h (ignore_whitespace o) (a_offerr s) (max_fuzz o) (a_ln s) Bo Hoff) as Hloc.
  apply Forall_app. split; [apply locate_sites_in64; [exact Bo|exact Hoff|lia]|].
  apply Forall_app. split; [eapply step_sites_in64; [exact Hi|exact Hu|exact Lf|exact Hh|exact Hloc|lia]|].
  destruct (apply_one o p f k s h _) as [s'|e] eqn:A; [|constructor].
  eapply IH; [eapply apply_one_inv; [exact A|exact Hi|exact Hu|exact Hh|exact Hloc]|lia|exact Hr|lia].
Qed.

Lemma apply_rest_inv w o p f : forall hs k s s' u,
  apply_rest o p f k s hs = Ok s' -> Inv w (Z.of_nat (length f)) u s -> 0 <= u -> Forall (hunk_ok w) hs ->
  Inv w (Z.of_nat (length f)) (u + Z.of_nat (blen hs)) s'.
Proof.
  induction hs as [|h r IH]; intros k s s' u H Hi Hu Hg; cbn [apply_rest] in H.
  - inversion H; subst. cbn [blen]. replace (u + Z.of_nat 0) with u by lia. exact Hi.
  - inversion Hg as [|? ? Hh Hr]; subst.
    destruct (apply_one o p f k s h _) as [s1|e] eqn:A; cbn [rbind] in H; [|discriminate].
    assert (Hoff : off_ok (a_offerr s)) by apply Hi.
    destruct (hunk_ok_starts w h Hh) as [Bo Bn].
    pose proof (locate_for_loc_ok p f h (ignore_whitespace o) (a_offerr s) (max_fuzz o) (a_ln s) Bo Hoff) as Hloc.
    pose proof (apply_one_inv _ _ _ _ _ _ _ _ _ _ _ A Hi Hu Hh Hloc) as Hi1.
    eapply IH in H; [|exact Hi1|lia|exact Hr]. cbn [blen]. rewrite Nat2Z.inj_add.
    replace (u + (Z.of_nat (length (body h)) + Z.of_nat (blen r))) with (u + Z.of_nat (length (body h)) + Z.of_nat (blen r)) by lia.
    exact H.
Qed.

(* first pass plus the rest *)
Definition run_sites (w : bool) (o : options) (p : patch) (f : list line) (s : astate) (h : hunk) (loc : option location) (r : list hunk) : list Z :=
  step_sites w s h loc ++
  match apply_one o p f 0 s h loc with
  | Ok s' => rest_sites w o p f 1 s' r
  | Throw _ => []
  end.

Lemma run_sites_in64 w o p f s h loc r u :
  Inv w (Z.of_nat (length f)) u s -> 0 <= u -> hunk_ok w h -> Forall (hunk_ok w) r ->
  loc_ok (Z.of_nat (length f)) (a_offerr s) loc ->
  Z.of_nat (length f) + 2 * (u + Z.of_nat (blen (h :: r))) + 1 <= MAXZ ->
  Forall in64 (run_sites w o p f s h loc r).
Proof.
  intros Hi Hu Hh Hr Hloc Fit. cbn [blen] in Fit. rewrite Nat2Z.inj_add in Fit.
  pose proof (Zlen_nonneg (body h)) as Lb. pose proof (Zlen_nonneg f) as Lf.
  assert (Lr : 0 <= Z.of_nat (blen r)) by lia.
  unfold run_sites. apply Forall_app. split; [eapply step_sites_in64; [exact Hi|exact Hu|exact Lf|exact Hh|exact Hloc|lia]|].
  destruct (apply_one o p f 0 s h loc) as [s'|e] eqn:A; [|constructor].
  eapply rest_sites_in64; [eapply apply_one_inv; [exact A|exact Hi|exact Hu|exact Hh|exact Hloc]|lia|exact Hr|lia].
Qed.

(* the sites of apply_first (applier.cpp:305-378 with hunk_num == 0: the hunk is also located reversed) *)
Definition first_sites (w : bool) (o : options) (p : patch) (f : list line) (s : astate) (hs : list hunk) : list Z :=
  match hs with
  | [] => []
  | h :: r =>
      let loc := locate_for p f h (ignore_whitespace o) (a_offerr s) (max_fuzz o) (a_ln s) in
      locate_sites f h (a_offerr s) (max_fuzz o) ++
      if should_check_if_patch_is_reversed loc o then
        let rh := reverse_hunk h in
        let rloc := locate_hunk f rh (ignore_whitespace o) (a_offerr s) (max_fuzz o) (a_ln s) in
        locate_sites f rh (a_offerr s) (max_fuzz o) ++
        match (if loc_perfect rloc || (negb (loc_found loc) && loc_found rloc)
               then handle_probably_reversed_patch o else Ok ([], RHApplyAnyway)) with
        | Throw _ => []
        | Ok d =>
            let s0 := mkAS (a_out s) (a_rej s) (a_rejected s) (a_ln s) (a_o2n s) (a_offerr s) (a_skip s) (a_perfect s)
                           (a_msgs s ++ fst d) (a_hunks s) in
            match snd d with
            | RHReverse => run_sites w o (reverse_patch p) f s0 rh rloc (map reverse_hunk r)
            | RHIgnore =>
                let s0' := mkAS (a_out s0) (a_rej s0) (a_rejected s0) (a_ln s0) (a_o2n s0) (a_offerr s0) true (a_perfect s0)
                                (a_msgs s0) (a_hunks s0) in
                run_sites w o p f s0' h loc r
            | RHApplyAnyway => run_sites w o p f s0 h loc r
            end
        end
      else run_sites w o p f s h loc r
  end.

Lemma Inv_ext w L u s s' :
  a_o2n s' = a_o2n s -> a_ln s' = a_ln s -> a_offerr s' = a_offerr s -> Inv w L u s -> Inv w L u s'.
Proof. unfold Inv. intros -> -> ->. auto. Qed.

Lemma first_sites_in64 w o p f s hs :
  Inv w (Z.of_nat (length f)) 0 s -> Forall (hunk_ok w) hs ->
  Z.of_nat (length f) + 2 * Z.of_nat (blen hs) + 1 <= MAXZ ->
  Forall in64 (first_sites w o p f s hs).
Proof.
  intros Hi Hg Fit. destruct hs as [|h r]; cbn [first_sites]; [constructor|].
  inversion Hg as [|? ? Hh Hr]; subst.
  assert (Hoff : off_ok (a_offerr s)) by apply Hi.
  destruct (hunk_ok_starts w h Hh) as [Bo Bn].
  pose proof (locate_for_loc_ok p f h (ignore_whitespace o) (a_offerr s) (max_fuzz o) (a_ln s) Bo Hoff) as Hloc.
  pose proof (hunk_ok_reverse w h Hh) as Hrh.
  destruct (hunk_ok_starts w _ Hrh) as [Bro _].
  pose proof (locate_hunk_loc_ok f (reverse_hunk h) (ignore_whitespace o) (a_offerr s) (max_fuzz o) (a_ln s) Bro Hoff) as Hrloc.
  assert (Fit0 : Z.of_nat (length f) + 2 * (0 + Z.of_nat (blen (h :: r))) + 1 <= MAXZ) by lia.
  assert (Fit1 : Z.of_nat (length f) + 2 * Z.of_nat (length (body h)) + 1 <= MAXZ) by (cbn [blen] in Fit; lia).
  apply Forall_app. split; [apply locate_sites_in64; assumption|].
  destruct (should_check_if_patch_is_reversed _ o).
  - apply Forall_app. split; [apply locate_sites_in64; [exact Bro|exact Hoff|rewrite body_reverse_length; exact Fit1]|].
    destruct (if (_ : bool) then handle_probably_reversed_patch o else Ok (@nil N, RHApplyAnyway)) as [d|e]; [|constructor].
    destruct (snd d).
    + apply run_sites_in64 with (u := 0); [eapply Inv_ext; [| | |exact Hi]; reflexivity|lia|exact Hrh|apply Forall_hunk_ok_reverse; exact Hr|exact Hrloc|].
      cbn [blen]. rewrite blen_reverse, body_reverse_length. exact Fit0.
    + apply run_sites_in64 with (u := 0); [eapply Inv_ext; [| | |exact Hi]; reflexivity|lia|exact Hh|exact Hr|exact Hloc|exact Fit0].
    + apply run_sites_in64 with (u := 0); [eapply Inv_ext; [| | |exact Hi]; reflexivity|lia|exact Hh|exact Hr|exact Hloc|exact Fit0].
  - apply run_sites_in64 with (u := 0); [exact Hi|lia|exact Hh|exact Hr|exact Hloc|exact Fit0].
Qed.

(* all plain sites of locate_hunk and apply_patch for one patch ... *)
Definition patch_sites (o : options) (f : list line) (p0 : patch) : list Z :=
  let p := if reverse_patch_opt o then reverse_patch p0 else p0 in
  first_sites true o p f init_state (hunks p).
(* ... and all of them but the two of applier.cpp:195,377 *)
Definition patch_sites_but_o2n (o : options) (f : list line) (p0 : patch) : list Z :=
  let p := if reverse_patch_opt o then reverse_patch p0 else p0 in
  first_sites false o p f init_state (hunks p).

Lemma Inv_init w L : 0 <= L -> Inv w L 0 init_state.
Proof.
  intros HL. unfold Inv, init_state. cbn [a_o2n a_ln a_offerr].
  split; [destruct w; [lia|exact I]|]. split; [cbn; lia|apply off_ok_zero].
Qed.

Lemma patch_sites_gen w o f p0 :
  Forall (hunk_ok w) (hunks p0) ->
  Z.of_nat (length f) + 2 * Z.of_nat (blen (hunks p0)) + 1 <= MAXZ ->
  Forall in64 (first_sites w o (if reverse_patch_opt o then reverse_patch p0 else p0) f init_state
                           (hunks (if reverse_patch_opt o then reverse_patch p0 else p0))).
Proof.
  intros Hg Fit. apply first_sites_in64.
  - apply Inv_init. lia.
  - destruct (reverse_patch_opt o); [|exact Hg]. cbn [reverse_patch hunks]. apply Forall_hunk_ok_reverse. exact Hg.
  - destruct (reverse_patch_opt o); [|exact Fit]. cbn [reverse_patch hunks]. rewrite blen_reverse. exact Fit.
Qed.

(* MAIN THEOREM for apply_patch: whatever the options and the file, when every hunk of the patch is a good hunk and the
   file and the patch "fit in memory" (lines of the file + twice the body lines of the patch stay below 2^63), every value
   computed at a plain-arithmetic site of locate_hunk and apply_patch lies in int64 *)
Theorem apply_patch_sites_in64 o f p0 :
  Forall good_hunk (hunks p0) ->
  Z.of_nat (length f) + 2 * Z.of_nat (blen (hunks p0)) + 1 <= MAXZ ->
  Forall in64 (patch_sites o f p0).
Proof. exact (patch_sites_gen true o f p0). Qed.

(* and without any hypothesis on the counts: every site except the two which involve offset_old_lines_to_new *)
Theorem apply_patch_sites_but_o2n_in64 o f p0 :
  Forall starts_ok (hunks p0) ->
  Z.of_nat (length f) + 2 * Z.of_nat (blen (hunks p0)) + 1 <= MAXZ ->
  Forall in64 (patch_sites_but_o2n o f p0).
Proof. exact (patch_sites_gen false o f p0). Qed.

(* ---------- the same invariant on the model's own apply_first / apply_patch (not on the site lists) ---------- *)
Lemma run_inv w o p f s h loc r s' u :
  (do s1 <- apply_one o p f 0 s h loc; apply_rest o p f 1 s1 r) = Ok s' ->
  Inv w (Z.of_nat (length f)) u s -> 0 <= u -> hunk_ok w h -> Forall (hunk_ok w) r ->
  loc_ok (Z.of_nat (length f)) (a_offerr s) loc ->
  Inv w (Z.of_nat (length f)) (u + Z.of_nat (blen (h :: r))) s'.
Proof.
  intros H Hi Hu Hh Hr Hloc.
  destruct (apply_one o p f 0 s h loc) as [s1|e] eqn:A; cbn [rbind] in H; [|discriminate].
  pose proof (apply_one_inv _ _ _ _ _ _ _ _ _ _ _ A Hi Hu Hh Hloc) as Hi1.
  eapply apply_rest_inv in H; [|exact Hi1|lia|exact Hr]. cbn [blen]. rewrite Nat2Z.inj_add.
  replace (u + (Z.of_nat (length (body h)) + Z.of_nat (blen r))) with (u + Z.of_nat (length (body h)) + Z.of_nat (blen r)) by lia.
  exact H.
Qed.

Theorem apply_first_inv w o p f s hs s' q :
  apply_first o p f s hs = Ok (s', q) -> Inv w (Z.of_nat (length f)) 0 s -> Forall (hunk_ok w) hs ->
  Inv w (Z.of_nat (length f)) (Z.of_nat (blen hs)) s'.
Proof.
  intros H Hi Hg. destruct hs as [|h r]; cbn [apply_first] in H; [inversion H; subst; exact Hi|].
  inversion Hg as [|? ? Hh Hr]; subst.
  assert (Hoff : off_ok (a_offerr s)) by apply Hi.
  destruct (hunk_ok_starts w h Hh) as [Bo Bn].
  pose proof (locate_for_loc_ok p f h (ignore_whitespace o) (a_offerr s) (max_fuzz o) (a_ln s) Bo Hoff) as Hloc.
  pose proof (hunk_ok_reverse w h Hh) as Hrh.
  destruct (hunk_ok_starts w _ Hrh) as [Bro _].
  pose proof (locate_hunk_loc_ok f (reverse_hunk h) (ignore_whitespace o) (a_offerr s) (max_fuzz o) (a_ln s) Bro Hoff) as Hrloc.
  replace (Z.of_nat (blen (h :: r))) with (0 + Z.of_nat (blen (h :: r))) by lia.
  destruct (should_check_if_patch_is_reversed _ o).
  - destruct (if (_ : bool) then handle_probably_reversed_patch o else Ok (@nil N, RHApplyAnyway)) as [d|e]; cbn [rbind] in H; [|discriminate].
    destruct (snd d); apply with_patch_ok in H; destruct H as [H _].
    + eapply run_inv in H; [|eapply Inv_ext; [| | |exact Hi]; reflexivity|lia|exact Hrh|apply Forall_hunk_ok_reverse; exact Hr|exact Hrloc].
      cbn [blen] in H. rewrite blen_reverse, body_reverse_length in H. exact H.
    + eapply run_inv in H; [exact H|eapply Inv_ext; [| | |exact Hi]; reflexivity|lia|exact Hh|exact Hr|exact Hloc].
    + eapply run_inv in H; [exact H|eapply Inv_ext; [| | |exact Hi]; reflexivity|lia|exact Hh|exact Hr|exact Hloc].
  - apply with_patch_ok in H. destruct H as [H _].
    eapply run_inv in H; [exact H|exact Hi|lia|exact Hh|exact Hr|exact Hloc].
Qed.

(* ---------- from the bytes of the two inputs ---------- *)
(* END TO END: patch file bytes b, target file bytes t, any options.  If the model's parser accepts the patch and the two
   inputs together stay (far) below 2^63 bytes, then every value computed at a plain-arithmetic site of locate_hunk /
   apply_patch lies in int64 -- the two sites which involve offset_old_lines_to_new included. *)
Theorem parsed_patch_sites_in64 b fmt strip p o t :
  parse_patch b fmt strip = Ok p ->
  Z.of_nat (length t) + 2 * Z.of_nat (length b) + 1 <= MAXZ ->
  Forall in64 (patch_sites o (split_lines t) p).
Proof.
  intros H Fit. apply apply_patch_sites_in64; [exact (parse_patch_good _ _ _ _ H)|].
  pose proof (parse_patch_size _ _ _ _ H). pose proof (split_lines_length t). lia.
Qed.

(* the same for every section of a patch file with several patches *)
Theorem parsed_sections_sites_in64 b fmt strip ps o t :
  parse_all b fmt strip = Ok ps ->
  Z.of_nat (length t) + 2 * Z.of_nat (length b) + 1 <= MAXZ ->
  Forall (fun p => Forall in64 (patch_sites o (split_lines t) p)) ps.
Proof.
  intros H Fit. pose proof (parse_all_good _ _ _ _ H) as G. pose proof (parse_all_size _ _ _ _ H) as S.
  rewrite Forall_forall in *. intros p Hp. apply apply_patch_sites_in64; [exact (G p Hp)|].
  specialize (S p Hp). cbv beta in S. pose proof (split_lines_length t). lia.
Qed.

(* the loop invariant of apply_patch on the model's own apply_first, for a parsed patch: at the end
   |offset_old_lines_to_new| <= body lines of the patch, line_number <= lines of the file + body lines,
   -(MAXZ-1) <= offset_error <= MAXZ *)
Theorem parsed_patch_apply_first_inv b fmt strip p o f s' q :
  parse_patch b fmt strip = Ok p ->
  apply_first o p f init_state (hunks p) = Ok (s', q) ->
  AInv (Z.of_nat (length f)) (Z.of_nat (blen (hunks p))) s'.
Proof.
  intros H A. eapply (apply_first_inv true); [exact A|apply Inv_init; lia|exact (parse_patch_good _ _ _ _ H)].
Qed.

(* (subsumed by parsed_patch_sites_in64 since the repair of parse_normal_range; kept because it only needs start lines) *)
Theorem parsed_patch_sites_but_o2n_in64 b fmt strip p o t :
  parse_patch b fmt strip = Ok p ->
  Z.of_nat (length t) + 2 * Z.of_nat (length b) + 1 <= MAXZ ->
  Forall in64 (patch_sites_but_o2n o (split_lines t) p).
Proof.
  intros H Fit. apply apply_patch_sites_but_o2n_in64; [exact (parse_patch_starts _ _ _ _ H)|].
  pose proof (parse_patch_size _ _ _ _ H). pose proof (split_lines_length t). lia.
Qed.

(* ---------- examples ---------- *)
Definition nlc : list N := [10%N].

(* (1) the hypotheses are satisfiable: a unified patch with two hunks, parsed by the model, against a five line file *)
Definition ok_patch : list N :=
  bs "--- a" ++ nlc ++ bs "+++ b" ++ nlc ++
  bs "@@ -1,2 +1,3 @@" ++ nlc ++ bs " one" ++ nlc ++ bs "+one and a half" ++ nlc ++ bs " two" ++ nlc ++
  bs "@@ -4,2 +5 @@" ++ nlc ++ bs "-four" ++ nlc ++ bs " five" ++ nlc.
Definition ok_file : list line :=
  split_lines (bs "one" ++ nlc ++ bs "two" ++ nlc ++ bs "three" ++ nlc ++ bs "four" ++ nlc ++ bs "five" ++ nlc).
Definition ok_parsed : patch :=
  match parse_patch ok_patch FUnknown (-1) with Ok p => p | Throw _ => empty_patch FUnknown end.

Lemma ok_parsed_eq : parse_patch ok_patch FUnknown (-1) = Ok ok_parsed.
Proof. vm_compute. reflexivity. Qed.

Example ok_parsed_two_hunks : length (hunks ok_parsed) = 2%nat /\ blen (hunks ok_parsed) = 5%nat.
Proof. vm_compute. split; reflexivity. Qed.

Example ok_parsed_good : Forall good_hunk (hunks ok_parsed).
Proof. exact (parse_patch_good _ _ _ _ ok_parsed_eq). Qed.

Example ok_parsed_fits : Z.of_nat (length ok_file) + 2 * Z.of_nat (blen (hunks ok_parsed)) + 1 <= MAXZ.
Proof. vm_compute. discriminate. Qed.

Example ok_sites_in64 : forall o, Forall in64 (patch_sites o ok_file ok_parsed).
Proof. intros o. apply apply_patch_sites_in64; [exact ok_parsed_good|exact ok_parsed_fits]. Qed.

(* (2) the former witness of the overflow at applier.cpp:377: a normal diff whose old range ends before it starts *)
Definition bad_patch : list N :=
  bs "9223372036854775807,1c5,7" ++ nlc ++ bs "> a" ++ nlc ++ bs "> b" ++ nlc ++ bs "> c" ++ nlc.
Definition one_line_target : list N := bs "x" ++ nlc.
Definition one_line_file : list line := split_lines one_line_target.
Definition bad_parsed : patch :=
  match parse_patch bad_patch FUnknown (-1) with Ok p => p | Throw _ => empty_patch FUnknown end.

Lemma bad_parsed_eq : parse_patch bad_patch FUnknown (-1) = Ok bad_parsed.
Proof. vm_compute. reflexivity. Qed.

(* the old count, formerly -(2^63-3), is now 0 *)
Example bad_parsed_counts :
  map (fun h => (rcount (oldr h), rcount (newr h), length (body h))) (hunks bad_parsed) = [(0, 3, 3%nat)].
Proof. vm_compute. reflexivity. Qed.

(* the hunk (an insertion after line 2^63-1 of a one line file) is rejected, the file is left as it is *)
Example bad_patch_is_rejected :
  match apply_patch default_options one_line_file bad_parsed with
  | Ok r => r_failed r = 1%nat /\ r_out r = one_line_file /\
            r_msgs r = bs "Hunk #1 FAILED at 9223372036854775807." ++ nlc
  | Throw _ => False
  end.
Proof. vm_compute. repeat split; reflexivity. Qed.

(* every plain-site value of that run is in int64: by the theorem (for any options) ... *)
Example former_witness_harmless : forall o, Forall in64 (patch_sites o one_line_file bad_parsed).
Proof.
  intros o. apply (parsed_patch_sites_in64 _ _ _ _ o one_line_target bad_parsed_eq). vm_compute. discriminate.
Qed.

(* ... and by computation (default options): the values, with new - old = 3 - 0 where 2^63 used to be *)
Example former_witness_sites :
  patch_sites default_options one_line_file bad_parsed =
  [0; 0; 0; 2; 0; 0; 1; 1; 0; 0; 0; 2; 0; 0; 1; 1; 3; 3].
Proof. vm_compute. reflexivity. Qed.
