(* Cost_Locate.v — an instrumented copy of the hunk locator (Locator.v) and of the loop of apply_patch over the hunks
   (Applier.v) that returns, next to the result, the cost of the line comparisons performed: each call of
   [Locator.matches] on a (file line c, hunk line p) pair is charged [w c p].  With [w = fun _ _ => 1] (the functions
   without the final w in their name: [locate_hunk_cost], [apply_patch_cost]) the cost is the number of line
   comparisons; Cost_Matches.v takes for w the number of character steps of that call of [matches].
   Locator.v and Applier.v are not changed.

   Part 1: the instrumented functions.
   Part 2: they compute the same results as the model ([fst (..._cost ..) = ..]).
   Part 3: the bounds.  The number of positions tested at one fuzz level is at most [length content - lo]
           (the forward scan covers [max(guess,lo) capped, size), the backward scan covers [lo, min(guess,size)):
           the two ranges are disjoint), each test makes at most as many comparisons as the trimmed body has old-side
           lines, and the number of levels is [fuzz_levels h max_fuzz <= min(max_fuzz, context of h) + 1].  Neither the
           stated line of the hunk nor the accumulated offset occurs in the bound.
   Part 4: the loop of apply_patch over the hunks. *)
From PatchV Require Import Base Lines Hunk Locator Options Applier.

(* ================================================================================================================ *)
(* Part 1: instrumented copies                                                                                      *)
(* ================================================================================================================ *)

(* ---- the scans, over a test that reports its own cost ---- *)
Fixpoint scan_fwd_cost (test : nat -> bool * nat) (pos fuel : nat) : option nat * nat :=
  match fuel with
  | O => (None, 0)
  | S f => if fst (test pos) then (Some pos, snd (test pos))
           else (fst (scan_fwd_cost test (S pos) f), snd (test pos) + snd (scan_fwd_cost test (S pos) f))
  end.

Fixpoint scan_bwd_cost (test : nat -> bool * nat) (lo cnt : nat) : option nat * nat :=
  match cnt with
  | O => (None, 0)
  | S c => if fst (test (lo + c)) then (Some (lo + c), snd (test (lo + c)))
           else (fst (scan_bwd_cost test lo c), snd (test (lo + c)) + snd (scan_bwd_cost test lo c))
  end.

(* the two ranges of one fuzz level *)
Definition fwd_start (size : nat) (guess : Z) (lo : nat) : nat :=
  Z.to_nat (Z.min (Z.max guess (Z.of_nat lo)) (Z.of_nat size)).
Definition bwd_count (size : nat) (guess : Z) (lo : nat) : nat :=
  Z.to_nat (Z.min guess (Z.of_nat size) - Z.of_nat lo)%Z.

Definition search_level_cost (test : nat -> bool * nat) (size : nat) (guess : Z) (lo : nat) : option nat * nat :=
  let s := fwd_start size guess lo in
  match fst (scan_fwd_cost test s (size - s)) with
  | Some p => (Some p, snd (scan_fwd_cost test s (size - s)))
  | None => (fst (scan_bwd_cost test lo (bwd_count size guess lo)),
             snd (scan_fwd_cost test s (size - s)) + snd (scan_bwd_cost test lo (bwd_count size guess lo)))
  end.

(* the number of passes of the fuzz loop that locate_hunk allows *)
Definition ctx_lines (h : hunk) : nat := Nat.max (prefix_ctx (body h)) (suffix_ctx (body h)).
Definition fuzz_levels (h : hunk) (max_fuzz : Z) : nat :=
  Z.to_nat (Z.min max_fuzz (Z.of_nat (ctx_lines h)) + 1)%Z.

Section Instrumented.
Variable w : line -> line -> nat.     (* the charge for one call of [matches c p ws] *)

(* match_from: one charge per call of [matches] *)
Fixpoint match_from_costw (ws : bool) (content : list line) (hl : list pline) : bool * nat :=
  match hl with
  | [] => (true, 0)
  | p :: r =>
      if is_add p then match_from_costw ws content r
      else match content with
           | [] => (false, 0)
           | c :: cr => if matches c (pl p) ws
                        then (fst (match_from_costw ws cr r), w c (pl p) + snd (match_from_costw ws cr r))
                        else (false, w c (pl p))
           end
  end.

Definition hunk_matches_at_costw (ws : bool) (content : list line) (h : hunk) (pf sf : nat) (pos : nat) : bool * nat :=
  match_from_costw ws (skipn (pos + pf) content) (trim pf sf (body h)).

Fixpoint fuzz_loop_costw (ws : bool) (content : list line) (h : hunk) (guess : Z) (lo : nat)
                         (pc sc ctx : nat) (n : nat) (fz : nat) : option location * nat :=
  match n with
  | O => (None, 0)
  | S n' =>
      let sf := fz + sc - ctx in
      let pf := fz + pc - ctx in
      if Nat.leb (length (body h)) (sf + pf) then (None, 0)
      else let r := search_level_cost (hunk_matches_at_costw ws content h pf sf) (length content) guess lo in
           match fst r with
           | Some p => (Some (mkLoc p fz (ssub (Z.of_nat p) guess)), snd r)
           | None => (fst (fuzz_loop_costw ws content h guess lo pc sc ctx n' (S fz)),
                      snd r + snd (fuzz_loop_costw ws content h guess lo pc sc ctx n' (S fz)))
           end
  end.

Definition locate_hunk_costw (content : list line) (h : hunk) (ws : bool) (offset : Z) (max_fuzz : Z) (lo : nat)
  : option location * nat :=
  let guess := sadd (ssub (expected_line_number h) 1) offset in
  if Z.eqb (rcount (oldr h)) 0 then
    (if Z.ltb guess (Z.of_nat lo) || Z.ltb (Z.of_nat (length content)) guess then None
     else Some (mkLoc (Z.to_nat guess) 0 0), 0)
  else
    let pc := prefix_ctx (body h) in
    let sc := suffix_ctx (body h) in
    let ctx := Nat.max pc sc in
    let mf := Z.min max_fuzz (Z.of_nat ctx) in
    fuzz_loop_costw ws content h guess lo pc sc ctx (Z.to_nat (mf + 1)%Z) 0.

(* ---- the loop of apply_patch over the hunks ---- *)
Definition locate_for_costw (p : patch) (lines : list line) (h : hunk) (ws : bool) (offset max_fuzz : Z) (ln : nat)
  : option location * nat :=
  if creates_file p && negb (is_nil lines) && Z.eqb (rstart (oldr h)) 0 && Z.eqb (rcount (oldr h)) 0 then (None, 0)
  else locate_hunk_costw lines h ws offset max_fuzz ln.

Fixpoint apply_rest_costw (o : options) (p : patch) (lines : list line) (hunk_num : nat) (s : astate) (hs : list hunk)
  : res astate * nat :=
  match hs with
  | [] => (Ok s, 0)
  | h :: r =>
      let lc := locate_for_costw p lines h (ignore_whitespace o) (a_offerr s) (max_fuzz o) (a_ln s) in
      match apply_one o p lines hunk_num s h (fst lc) with
      | Ok s' => (fst (apply_rest_costw o p lines (S hunk_num) s' r),
                  snd lc + snd (apply_rest_costw o p lines (S hunk_num) s' r))
      | Throw e => (Throw e, snd lc)
      end
  end.

(* [do s' <- m; apply_rest ... s' hs] with its cost *)
Definition then_rest_costw (o : options) (p : patch) (lines : list line) (n : nat) (m : res astate) (hs : list hunk)
  : res astate * nat :=
  match m with
  | Ok s' => apply_rest_costw o p lines n s' hs
  | Throw e => (Throw e, 0)
  end.

Definition with_patch_cost (q : patch) (x : res astate * nat) : res (astate * patch) * nat :=
  (with_patch q (fst x), snd x).

Definition apply_first_costw (o : options) (p : patch) (lines : list line) (s : astate) (hs : list hunk)
  : res (astate * patch) * nat :=
  match hs with
  | [] => (Ok (s, p), 0)
  | h :: r =>
      let lc := locate_for_costw p lines h (ignore_whitespace o) (a_offerr s) (max_fuzz o) (a_ln s) in
      let loc := fst lc in
      if should_check_if_patch_is_reversed loc o then
        let rh := reverse_hunk h in
        let rlc := locate_hunk_costw lines rh (ignore_whitespace o) (a_offerr s) (max_fuzz o) (a_ln s) in
        let rloc := fst rlc in
        match (if loc_perfect rloc || (negb (loc_found loc) && loc_found rloc)
               then handle_probably_reversed_patch o
               else Ok ([], RHApplyAnyway)) with
        | Throw e => (Throw e, snd lc + snd rlc)
        | Ok d =>
            let s0 := mkAS (a_out s) (a_rej s) (a_rejected s) (a_ln s) (a_o2n s) (a_offerr s) (a_skip s) (a_perfect s)
                           (a_msgs s ++ fst d) (a_hunks s) in
            let x :=
              match snd d with
              | RHReverse =>
                  let rp := reverse_patch p in
                  with_patch_cost rp (then_rest_costw o rp lines 1 (apply_one o rp lines 0 s0 rh rloc) (map reverse_hunk r))
              | RHIgnore =>
                  let s0' := mkAS (a_out s0) (a_rej s0) (a_rejected s0) (a_ln s0) (a_o2n s0) (a_offerr s0) true (a_perfect s0)
                                  (a_msgs s0) (a_hunks s0) in
                  with_patch_cost p (then_rest_costw o p lines 1 (apply_one o p lines 0 s0' h loc) r)
              | RHApplyAnyway =>
                  with_patch_cost p (then_rest_costw o p lines 1 (apply_one o p lines 0 s0 h loc) r)
              end in
            (fst x, snd lc + snd rlc + snd x)
        end
      else
        let x := with_patch_cost p (then_rest_costw o p lines 1 (apply_one o p lines 0 s h loc) r) in
        (fst x, snd lc + snd x)
  end.

Definition apply_patch_costw (o : options) (lines : list line) (p0 : patch) : res aresult * nat :=
  let p := if reverse_patch_opt o then reverse_patch p0 else p0 in
  let x := apply_first_costw o p lines (mkAS [] [] 0 0 0%Z 0%Z false true [] []) (hunks p) in
  (do sp <- fst x;
   let s := fst sp in
   Ok (mkAR (a_out s ++ skipn (a_ln s) lines) (a_rej s) (a_rejected s) (a_skip s) (a_perfect s) (a_msgs s)
            (set_hunks (snd sp) (a_hunks s))),
   snd x).

(* ================================================================================================================ *)
(* Part 2: same results as the model                                                                                *)
(* ================================================================================================================ *)

Lemma match_from_costw_fst ws : forall hl content,
  fst (match_from_costw ws content hl) = match_from ws content hl.
Proof.
  induction hl as [|p r IH]; intros content; cbn [match_from_costw match_from]; [reflexivity|].
  destruct (is_add p); [apply IH|].
  destruct content as [|c cr]; [reflexivity|].
  destruct (matches c (pl p) ws); [cbn [fst]; apply IH|reflexivity].
Qed.

Lemma hunk_matches_at_costw_fst ws content h pf sf pos :
  fst (hunk_matches_at_costw ws content h pf sf pos) = hunk_matches_at ws content h pf sf pos.
Proof. unfold hunk_matches_at_costw, hunk_matches_at. apply match_from_costw_fst. Qed.

Lemma scan_fwd_cost_fst testc test :
  (forall pos, fst (testc pos) = test pos) ->
  forall fuel pos, fst (scan_fwd_cost testc pos fuel) = scan_fwd test pos fuel.
Proof.
  intros Ht. induction fuel as [|f IH]; intros pos; cbn [scan_fwd_cost scan_fwd]; [reflexivity|].
  rewrite Ht. destruct (test pos); [reflexivity|]. cbn [fst]. apply IH.
Qed.

Lemma scan_bwd_cost_fst testc test :
  (forall pos, fst (testc pos) = test pos) ->
  forall lo cnt, fst (scan_bwd_cost testc lo cnt) = scan_bwd test lo cnt.
Proof.
  intros Ht lo. induction cnt as [|c IH]; cbn [scan_bwd_cost scan_bwd]; [reflexivity|].
  rewrite Ht. destruct (test (lo + c)); [reflexivity|]. cbn [fst]. apply IH.
Qed.

Lemma search_level_cost_fst testc test size guess lo :
  (forall pos, fst (testc pos) = test pos) ->
  fst (search_level_cost testc size guess lo) = search_level test size guess lo.
Proof.
  intros Ht. unfold search_level_cost, search_level, fwd_start, bwd_count.
  rewrite (scan_fwd_cost_fst testc test Ht).
  destruct (scan_fwd test _ _) as [p|]; [reflexivity|].
  cbn [fst]. apply scan_bwd_cost_fst. exact Ht.
Qed.

Lemma fuzz_loop_costw_fst ws content h guess lo pc sc ctx : forall n fz,
  fst (fuzz_loop_costw ws content h guess lo pc sc ctx n fz) = fuzz_loop ws content h guess lo pc sc ctx n fz.
Proof.
  induction n as [|n IH]; intros fz; cbn [fuzz_loop_costw fuzz_loop]; [reflexivity|].
  destruct (Nat.leb (length (body h)) (fz + sc - ctx + (fz + pc - ctx))); [reflexivity|].
  rewrite (search_level_cost_fst _ (hunk_matches_at ws content h (fz + pc - ctx) (fz + sc - ctx)))
    by (intros pos; apply hunk_matches_at_costw_fst).
  destruct (search_level _ _ _ _) as [p|]; [reflexivity|]. cbn [fst]. apply IH.
Qed.

Theorem locate_hunk_costw_fst content h ws offset max_fuzz lo :
  fst (locate_hunk_costw content h ws offset max_fuzz lo) = locate_hunk content h ws offset max_fuzz lo.
Proof.
  unfold locate_hunk_costw, locate_hunk.
  destruct (Z.eqb (rcount (oldr h)) 0); [reflexivity|]. apply fuzz_loop_costw_fst.
Qed.

Lemma locate_for_costw_fst p lines h ws offset max_fuzz ln :
  fst (locate_for_costw p lines h ws offset max_fuzz ln) = locate_for p lines h ws offset max_fuzz ln.
Proof.
  unfold locate_for_costw, locate_for.
  destruct (creates_file p && negb (is_nil lines) && Z.eqb (rstart (oldr h)) 0 && Z.eqb (rcount (oldr h)) 0);
    [reflexivity|]. apply locate_hunk_costw_fst.
Qed.

Lemma apply_rest_costw_fst o p lines : forall hs hunk_num s,
  fst (apply_rest_costw o p lines hunk_num s hs) = apply_rest o p lines hunk_num s hs.
Proof.
  induction hs as [|h r IH]; intros hunk_num s; cbn [apply_rest_costw apply_rest]; [reflexivity|].
  rewrite locate_for_costw_fst.
  destruct (apply_one o p lines hunk_num s h _) as [s'|e]; cbn [rbind fst]; [apply IH|reflexivity].
Qed.

Lemma then_rest_costw_fst o p lines n m hs :
  fst (then_rest_costw o p lines n m hs) = (do s' <- m; apply_rest o p lines n s' hs).
Proof. destruct m as [s'|e]; cbn [then_rest_costw rbind]; [apply apply_rest_costw_fst|reflexivity]. Qed.

Lemma with_patch_cost_fst o p lines q n m hs :
  fst (with_patch_cost q (then_rest_costw o p lines n m hs)) = with_patch q (do s' <- m; apply_rest o p lines n s' hs).
Proof. unfold with_patch_cost. cbn [fst]. rewrite then_rest_costw_fst. reflexivity. Qed.

Lemma apply_first_costw_fst o p lines s hs :
  fst (apply_first_costw o p lines s hs) = apply_first o p lines s hs.
Proof.
  destruct hs as [|h r]; cbn [apply_first_costw apply_first]; [reflexivity|].
  rewrite locate_for_costw_fst, locate_hunk_costw_fst.
  destruct (should_check_if_patch_is_reversed _ o).
  - destruct (if loc_perfect _ || _ then handle_probably_reversed_patch o else Ok ([], RHApplyAnyway)) as [d|e];
      cbn [rbind fst]; [|reflexivity].
    destruct (snd d); apply with_patch_cost_fst.
  - cbn [fst]. apply with_patch_cost_fst.
Qed.

Theorem apply_patch_costw_fst o lines p0 :
  fst (apply_patch_costw o lines p0) = apply_patch o lines p0.
Proof. unfold apply_patch_costw, apply_patch. cbn [fst]. rewrite apply_first_costw_fst. reflexivity. Qed.

End Instrumented.

(* ---- counting comparisons: every call of [matches] is charged 1 ---- *)
Definition unit_charge (c p : line) : nat := 1.
Definition match_from_cost := match_from_costw unit_charge.
Definition hunk_matches_at_cost := hunk_matches_at_costw unit_charge.
Definition fuzz_loop_cost := fuzz_loop_costw unit_charge.
Definition locate_hunk_cost := locate_hunk_costw unit_charge.
Definition locate_for_cost := locate_for_costw unit_charge.
Definition apply_rest_cost := apply_rest_costw unit_charge.
Definition apply_first_cost := apply_first_costw unit_charge.
Definition apply_patch_cost := apply_patch_costw unit_charge.

Theorem locate_hunk_cost_fst content h ws offset max_fuzz lo :
  fst (locate_hunk_cost content h ws offset max_fuzz lo) = locate_hunk content h ws offset max_fuzz lo.
Proof. apply locate_hunk_costw_fst. Qed.

Theorem apply_patch_cost_fst o lines p0 :
  fst (apply_patch_cost o lines p0) = apply_patch o lines p0.
Proof. apply apply_patch_costw_fst. Qed.

(* ================================================================================================================ *)
(* Part 3: the bounds for the locator                                                                               *)
(* ================================================================================================================ *)

(* ---- lists ---- *)
Lemma In_skipn_In {A} (x : A) : forall n l, In x (skipn n l) -> In x l.
Proof.
  induction n as [|n IH]; intros l H; [exact H|].
  destruct l as [|y r]; [exact H|]. right. apply IH. exact H.
Qed.

Lemma In_firstn_In {A} (x : A) : forall n l, In x (firstn n l) -> In x l.
Proof.
  induction n as [|n IH]; intros l H; [destruct H|].
  destruct l as [|y r]; [destruct H|]. destruct H as [H|H]; [left; exact H|right; apply IH; exact H].
Qed.

Lemma In_trim_In pf sf (b : list pline) x : In x (trim pf sf b) -> In x b.
Proof. unfold trim. intros H. apply In_firstn_In in H. apply In_skipn_In in H. exact H. Qed.

Lemma old_side_length_le (b : list pline) : length (old_side b) <= length b.
Proof.
  unfold old_side. rewrite map_length.
  induction b as [|p r IH]; cbn [filter length]; [lia|].
  destruct (negb (is_add p)); cbn [length]; lia.
Qed.

Lemma old_side_app (a b : list pline) : old_side (a ++ b) = old_side a ++ old_side b.
Proof. unfold old_side. rewrite filter_app, map_app. reflexivity. Qed.

Lemma old_side_firstn_le n (b : list pline) : length (old_side (firstn n b)) <= length (old_side b).
Proof. rewrite <- (firstn_skipn n b) at 2. rewrite old_side_app, app_length. lia. Qed.

Lemma old_side_skipn_le n (b : list pline) : length (old_side (skipn n b)) <= length (old_side b).
Proof. rewrite <- (firstn_skipn n b) at 2. rewrite old_side_app, app_length. lia. Qed.

Lemma old_side_trim_le pf sf (b : list pline) : length (old_side (trim pf sf b)) <= length (old_side b).
Proof. unfold trim. eapply Nat.le_trans; [apply old_side_firstn_le|apply old_side_skipn_le]. Qed.

Lemma trim_length pf sf (b : list pline) : length (trim pf sf b) = length b - pf - sf.
Proof. unfold trim. rewrite firstn_length, skipn_length. lia. Qed.

(* ---- the scans: (number of positions) * (bound of one test) ---- *)
Lemma scan_fwd_cost_le testc B :
  (forall pos, snd (testc pos) <= B) ->
  forall fuel pos, snd (scan_fwd_cost testc pos fuel) <= fuel * B.
Proof.
  intros Hb. induction fuel as [|f IH]; intros pos; cbn [scan_fwd_cost]; [cbn; lia|].
  specialize (Hb pos). specialize (IH (S pos)).
  destruct (fst (testc pos)); cbn [snd]; lia.
Qed.

Lemma scan_bwd_cost_le testc B :
  (forall pos, snd (testc pos) <= B) ->
  forall lo cnt, snd (scan_bwd_cost testc lo cnt) <= cnt * B.
Proof.
  intros Hb lo. induction cnt as [|c IH]; cbn [scan_bwd_cost]; [cbn; lia|].
  specialize (Hb (lo + c)).
  destruct (fst (testc (lo + c))); cbn [snd]; lia.
Qed.

(* the two ranges of one level are disjoint parts of [lo, size): whatever the guess, at most size - lo positions *)
Lemma level_positions size guess lo :
  (size - fwd_start size guess lo) + bwd_count size guess lo <= size - lo.
Proof. unfold fwd_start, bwd_count. lia. Qed.

Lemma search_level_cost_le testc B size guess lo :
  (forall pos, snd (testc pos) <= B) ->
  snd (search_level_cost testc size guess lo) <= (size - lo) * B.
Proof.
  intros Hb. unfold search_level_cost.
  pose proof (scan_fwd_cost_le testc B Hb (size - fwd_start size guess lo) (fwd_start size guess lo)) as Hf.
  pose proof (scan_bwd_cost_le testc B Hb lo (bwd_count size guess lo)) as Hw.
  pose proof (level_positions size guess lo) as Hp.
  assert (Hm : (size - fwd_start size guess lo) * B + bwd_count size guess lo * B <= (size - lo) * B).
  { rewrite <- Nat.mul_add_distr_r. apply Nat.mul_le_mono_r. exact Hp. }
  assert (Hm1 : (size - fwd_start size guess lo) * B <= (size - lo) * B).
  { apply Nat.mul_le_mono_r. lia. }
  destruct (fst (scan_fwd_cost testc (fwd_start size guess lo) (size - fwd_start size guess lo))); cbn [snd]; lia.
Qed.

(* ---- the number of passes: at most min(max_fuzz, context) + 1, and none at all for a negative max_fuzz ---- *)
Lemma fuzz_levels_le h max_fuzz :
  fuzz_levels h max_fuzz <= Nat.min (Z.to_nat max_fuzz) (ctx_lines h) + 1.
Proof. unfold fuzz_levels. lia. Qed.

Lemma fuzz_levels_le_F h max_fuzz : fuzz_levels h max_fuzz <= Z.to_nat (max_fuzz + 1)%Z.
Proof. unfold fuzz_levels. lia. Qed.

Lemma fuzz_levels_le_ctx h max_fuzz : fuzz_levels h max_fuzz <= ctx_lines h + 1.
Proof. unfold fuzz_levels. lia. Qed.

Lemma fuzz_levels_neg h max_fuzz : (max_fuzz < 0)%Z -> fuzz_levels h max_fuzz = 0.
Proof. unfold fuzz_levels. lia. Qed.

Lemma prefix_ctx_le (b : list pline) : prefix_ctx b <= length b.
Proof. induction b as [|p r IH]; cbn [prefix_ctx length]; [lia|]. destruct (is_ctx p); lia. Qed.

Lemma ctx_lines_le h : ctx_lines h <= length (body h).
Proof.
  unfold ctx_lines, suffix_ctx.
  pose proof (prefix_ctx_le (body h)) as H1. pose proof (prefix_ctx_le (rev (body h))) as H2.
  rewrite rev_length in H2. lia.
Qed.

(* ---- one test, then the loop, for a charge bounded by M on the lines of this file and of this hunk ---- *)
Section Weighted.
  Variable w : line -> line -> nat.
  Variable M : nat.

  Lemma match_from_costw_le_old ws : forall hl content,
    (forall c p, In c content -> In p hl -> w c (pl p) <= M) ->
    snd (match_from_costw w ws content hl) <= length (old_side hl) * M.
  Proof.
    induction hl as [|p r IH]; intros content HM; cbn [match_from_costw]; [cbn; lia|].
    unfold old_side. cbn [filter]. fold (old_side r).
    destruct (is_add p); cbn [negb].
    - fold (old_side r). apply IH. intros c q Hc Hq. apply HM; [exact Hc|right; exact Hq].
    - cbn [map length]. fold (old_side r).
      destruct content as [|c cr]; [cbn [snd]; apply Nat.le_0_l|].
      assert (Hw : w c (pl p) <= M) by (apply HM; left; reflexivity).
      destruct (matches c (pl p) ws); cbn [snd].
      + assert (Hr : snd (match_from_costw w ws cr r) <= length (old_side r) * M).
        { apply IH. intros c' q Hc Hq. apply HM; right; assumption. }
        lia.
      + lia.
  Qed.

  Lemma match_from_costw_le_content ws : forall hl content,
    (forall c p, In c content -> In p hl -> w c (pl p) <= M) ->
    snd (match_from_costw w ws content hl) <= length content * M.
  Proof.
    induction hl as [|p r IH]; intros content HM; cbn [match_from_costw]; [cbn [snd]; apply Nat.le_0_l|].
    destruct (is_add p).
    - apply IH. intros c q Hc Hq. apply HM; [exact Hc|right; exact Hq].
    - destruct content as [|c cr]; [cbn [snd]; apply Nat.le_0_l|].
      assert (Hw : w c (pl p) <= M) by (apply HM; left; reflexivity).
      destruct (matches c (pl p) ws); cbn [snd length].
      + assert (Hr : snd (match_from_costw w ws cr r) <= length cr * M).
        { apply IH. intros c' q Hc Hq. apply HM; right; assumption. }
        lia.
      + lia.
  Qed.

  Variable content : list line.
  Variable h : hunk.
  Hypothesis HM : forall c p, In c content -> In p (body h) -> w c (pl p) <= M.

  Lemma HM_at pf sf pos :
    forall c p, In c (skipn (pos + pf) content) -> In p (trim pf sf (body h)) -> w c (pl p) <= M.
  Proof. intros c p Hc Hp. apply HM; [eapply In_skipn_In; exact Hc|eapply In_trim_In; exact Hp]. Qed.

  Lemma hunk_matches_at_costw_le ws pf sf pos :
    snd (hunk_matches_at_costw w ws content h pf sf pos) <= length (old_side (body h)) * M.
  Proof.
    unfold hunk_matches_at_costw.
    eapply Nat.le_trans; [apply match_from_costw_le_old; apply HM_at|].
    apply Nat.mul_le_mono_r. apply old_side_trim_le.
  Qed.

  (* with fuzz the test is cheaper: the ignored lines are not compared *)
  Lemma hunk_matches_at_costw_le_trim ws pf sf pos :
    snd (hunk_matches_at_costw w ws content h pf sf pos) <= (length (body h) - pf - sf) * M.
  Proof.
    unfold hunk_matches_at_costw.
    eapply Nat.le_trans; [apply match_from_costw_le_old; apply HM_at|].
    apply Nat.mul_le_mono_r. eapply Nat.le_trans; [apply old_side_length_le|]. rewrite trim_length. lia.
  Qed.

  Lemma hunk_matches_at_costw_le_content ws pf sf pos :
    snd (hunk_matches_at_costw w ws content h pf sf pos) <= (length content - (pos + pf)) * M.
  Proof.
    unfold hunk_matches_at_costw. rewrite <- skipn_length.
    apply match_from_costw_le_content. apply HM_at.
  Qed.

  Lemma fuzz_loop_costw_le ws guess lo pc sc ctx : forall n fz,
    snd (fuzz_loop_costw w ws content h guess lo pc sc ctx n fz)
    <= n * ((length content - lo) * (length (old_side (body h)) * M)).
  Proof.
    induction n as [|n IH]; intros fz; cbn [fuzz_loop_costw]; [cbn; lia|].
    destruct (Nat.leb (length (body h)) (fz + sc - ctx + (fz + pc - ctx))); [cbn [snd]; apply Nat.le_0_l|].
    pose proof (search_level_cost_le (hunk_matches_at_costw w ws content h (fz + pc - ctx) (fz + sc - ctx))
                  (length (old_side (body h)) * M) (length content) guess lo
                  (fun pos => hunk_matches_at_costw_le ws _ _ pos)) as Hl.
    specialize (IH (S fz)).
    destruct (fst (search_level_cost _ _ _ _)); cbn [snd]; lia.
  Qed.

  Theorem locate_hunk_costw_le_sharp ws offset max_fuzz lo :
    snd (locate_hunk_costw w content h ws offset max_fuzz lo)
    <= fuzz_levels h max_fuzz * ((length content - lo) * (length (old_side (body h)) * M)).
  Proof.
    unfold locate_hunk_costw.
    destruct (Z.eqb (rcount (oldr h)) 0); [cbn [snd]; apply Nat.le_0_l|].
    apply fuzz_loop_costw_le.
  Qed.
End Weighted.

(* a hunk with an empty old range is placed without any comparison *)
Theorem locate_hunk_costw_insertion w content h ws offset max_fuzz lo :
  rcount (oldr h) = 0%Z -> snd (locate_hunk_costw w content h ws offset max_fuzz lo) = 0.
Proof. intros H. unfold locate_hunk_costw. rewrite H. reflexivity. Qed.

(* What one hunk can cost per line of the file: (number of passes it can get) * (its number of lines).  The number of
   passes is at most F+1 and at most (lines of the hunk)+1, whichever is smaller. *)
Definition hunk_weight (F : Z) (h : hunk) : nat :=
  Nat.min (Z.to_nat (F + 1)%Z) (length (body h) + 1) * length (body h).

Lemma locate_hunk_costw_le_weight w M content h ws offset max_fuzz lo :
  (forall c p, In c content -> In p (body h) -> w c (pl p) <= M) ->
  snd (locate_hunk_costw w content h ws offset max_fuzz lo) <= M * (length content * hunk_weight max_fuzz h).
Proof.
  intros HM. eapply Nat.le_trans; [apply (locate_hunk_costw_le_sharp w M content h HM)|].
  unfold hunk_weight.
  pose proof (old_side_length_le (body h)) as Ho.
  pose proof (fuzz_levels_le_F h max_fuzz) as H1.
  pose proof (fuzz_levels_le_ctx h max_fuzz) as H2. pose proof (ctx_lines_le h) as H3.
  assert (Hlv : fuzz_levels h max_fuzz <= Nat.min (Z.to_nat (max_fuzz + 1)) (length (body h) + 1)) by lia.
  eapply Nat.le_trans with
    (m := Nat.min (Z.to_nat (max_fuzz + 1)) (length (body h) + 1) * (length content * (length (body h) * M))).
  - apply Nat.mul_le_mono; [exact Hlv|]. apply Nat.mul_le_mono; [lia|]. apply Nat.mul_le_mono_r. exact Ho.
  - apply Nat.eq_le_incl. ring.
Qed.

(* ---- the comparison count ---- *)
Lemma unit_charge_le (content : list line) (h : hunk) :
  forall c p, In c content -> In p (body h) -> unit_charge c (pl p) <= 1.
Proof. intros c p _ _. apply Nat.le_refl. Qed.

Theorem locate_hunk_cost_le_sharp content h ws offset max_fuzz lo :
  snd (locate_hunk_cost content h ws offset max_fuzz lo)
  <= fuzz_levels h max_fuzz * ((length content - lo) * length (old_side (body h))).
Proof.
  pose proof (locate_hunk_costw_le_sharp unit_charge 1 content h (unit_charge_le content h) ws offset max_fuzz lo) as H.
  rewrite Nat.mul_1_r in H. exact H.
Qed.

Theorem locate_hunk_cost_insertion content h ws offset max_fuzz lo :
  rcount (oldr h) = 0%Z -> snd (locate_hunk_cost content h ws offset max_fuzz lo) = 0.
Proof. apply locate_hunk_costw_insertion. Qed.

(* the bound in the form asked for *)
Theorem locate_hunk_cost_le content h ws offset max_fuzz lo :
  snd (locate_hunk_cost content h ws offset max_fuzz lo)
  <= fuzz_levels h max_fuzz * (2 * length content + 2) * length (body h).
Proof.
  eapply Nat.le_trans; [apply locate_hunk_cost_le_sharp|].
  rewrite <- Nat.mul_assoc. apply Nat.mul_le_mono_l.
  pose proof (old_side_length_le (body h)) as Ho.
  apply Nat.mul_le_mono; lia.
Qed.

(* in terms of the option value F alone *)
Theorem locate_hunk_cost_le_F content h ws offset max_fuzz lo :
  snd (locate_hunk_cost content h ws offset max_fuzz lo)
  <= Z.to_nat (max_fuzz + 1)%Z * (length content * length (body h)).
Proof.
  eapply Nat.le_trans; [apply locate_hunk_cost_le_sharp|].
  pose proof (old_side_length_le (body h)) as Ho.
  apply Nat.mul_le_mono; [apply fuzz_levels_le_F|]. apply Nat.mul_le_mono; lia.
Qed.

(* whatever -F says: cubic in the sizes at worst (the hunk's own context bounds the number of passes) *)
Theorem locate_hunk_cost_le_anyF content h ws offset max_fuzz lo :
  snd (locate_hunk_cost content h ws offset max_fuzz lo)
  <= (length (body h) + 1) * (length content * length (body h)).
Proof.
  eapply Nat.le_trans; [apply locate_hunk_cost_le_sharp|].
  pose proof (old_side_length_le (body h)) as Ho.
  pose proof (fuzz_levels_le_ctx h max_fuzz) as Hl. pose proof (ctx_lines_le h) as Hc.
  apply Nat.mul_le_mono; [lia|]. apply Nat.mul_le_mono; lia.
Qed.

Lemma hunk_matches_at_cost_le_trim ws content h pf sf pos :
  snd (hunk_matches_at_cost ws content h pf sf pos) <= length (body h) - pf - sf.
Proof.
  pose proof (hunk_matches_at_costw_le_trim unit_charge 1 content h (unit_charge_le content h) ws pf sf pos) as H.
  rewrite Nat.mul_1_r in H. exact H.
Qed.

Lemma hunk_matches_at_cost_le_content ws content h pf sf pos :
  snd (hunk_matches_at_cost ws content h pf sf pos) <= length content - (pos + pf).
Proof.
  pose proof (hunk_matches_at_costw_le_content unit_charge 1 content h (unit_charge_le content h) ws pf sf pos) as H.
  rewrite Nat.mul_1_r in H. exact H.
Qed.

(* ================================================================================================================ *)
(* Part 4: the loop of apply_patch over the hunks                                                                   *)
(* ================================================================================================================ *)

Definition total_weight (F : Z) (hs : list hunk) : nat := list_sum (map (hunk_weight F) hs).
Definition first_weight (F : Z) (hs : list hunk) : nat := match hs with [] => 0 | h :: _ => hunk_weight F h end.

Definition total_lines (hs : list hunk) : nat := list_sum (map (fun h => length (body h)) hs).
Definition first_lines (hs : list hunk) : nat := match hs with [] => 0 | h :: _ => length (body h) end.

Lemma total_lines_cons h hs : total_lines (h :: hs) = length (body h) + total_lines hs.
Proof. reflexivity. Qed.

Lemma total_weight_cons F h hs : total_weight F (h :: hs) = hunk_weight F h + total_weight F hs.
Proof. reflexivity. Qed.

Lemma reverse_hunk_body_length h : length (body (reverse_hunk h)) = length (body h).
Proof. unfold reverse_hunk. cbn [body]. apply map_length. Qed.

Lemma hunk_weight_reverse F h : hunk_weight F (reverse_hunk h) = hunk_weight F h.
Proof. unfold hunk_weight. rewrite reverse_hunk_body_length. reflexivity. Qed.

Lemma total_weight_reverse F hs : total_weight F (map reverse_hunk hs) = total_weight F hs.
Proof.
  induction hs as [|h r IH]; [reflexivity|].
  cbn [map]. rewrite !total_weight_cons, hunk_weight_reverse, IH. reflexivity.
Qed.

Lemma first_weight_reverse F hs : first_weight F (map reverse_hunk hs) = first_weight F hs.
Proof. destruct hs as [|h r]; [reflexivity|]. cbn [map first_weight]. apply hunk_weight_reverse. Qed.

Lemma first_le_total hs : first_lines hs <= total_lines hs.
Proof. destruct hs as [|h r]; [cbn; lia|]. rewrite total_lines_cons. cbn [first_lines]. lia. Qed.

Lemma first_weight_le_total F hs : first_weight F hs <= total_weight F hs.
Proof. destruct hs as [|h r]; [cbn; lia|]. rewrite total_weight_cons. cbn [first_weight]. lia. Qed.

(* the weight against F *)
Lemma hunk_weight_le_F F h : hunk_weight F h <= Z.to_nat (F + 1)%Z * length (body h).
Proof. unfold hunk_weight. apply Nat.mul_le_mono_r. lia. Qed.

Lemma total_weight_le_F F hs : total_weight F hs <= Z.to_nat (F + 1)%Z * total_lines hs.
Proof.
  induction hs as [|h r IH]; [cbn; lia|].
  rewrite total_weight_cons, total_lines_cons, Nat.mul_add_distr_l.
  pose proof (hunk_weight_le_F F h). lia.
Qed.

Lemma first_weight_le_F F hs : first_weight F hs <= Z.to_nat (F + 1)%Z * first_lines hs.
Proof. destruct hs as [|h r]; [cbn; lia|]. cbn [first_weight first_lines]. apply hunk_weight_le_F. Qed.

(* the weight against the hunks alone, whatever F *)
Lemma hunk_weight_le_sq F h : hunk_weight F h <= (length (body h) + 1) * length (body h).
Proof. unfold hunk_weight. apply Nat.mul_le_mono_r. lia. Qed.

Lemma total_weight_le_sq F hs : total_weight F hs <= (total_lines hs + 1) * total_lines hs.
Proof.
  induction hs as [|h r IH]; [cbn; lia|].
  rewrite total_weight_cons, total_lines_cons.
  pose proof (hunk_weight_le_sq F h) as Hh. nia.
Qed.

(* the charge is bounded by M on every (line of the file, line of a hunk of the list) pair *)
Definition charge_le (w : line -> line -> nat) (M : nat) (lines : list line) (hs : list hunk) : Prop :=
  forall c h p, In c lines -> In h hs -> In p (body h) -> w c (pl p) <= M.

Lemma charge_le_reverse w M lines hs : charge_le w M lines hs -> charge_le w M lines (map reverse_hunk hs).
Proof.
  intros H c h p Hc Hh Hp. apply in_map_iff in Hh. destruct Hh as [h0 [<- Hh0]].
  unfold reverse_hunk in Hp. cbn [body] in Hp. apply in_map_iff in Hp. destruct Hp as [p0 [<- Hp0]].
  unfold reverse_pline. cbn [pl]. apply (H c h0 p0); assumption.
Qed.

Lemma charge_le_tail w M lines h hs : charge_le w M lines (h :: hs) -> charge_le w M lines hs.
Proof. intros H c h' p Hc Hh Hp. apply (H c h' p); [exact Hc|right; exact Hh|exact Hp]. Qed.

Lemma charge_le_head w M lines h hs : charge_le w M lines (h :: hs) ->
  forall c p, In c lines -> In p (body h) -> w c (pl p) <= M.
Proof. intros H c p Hc Hp. apply (H c h p); [exact Hc|left; reflexivity|exact Hp]. Qed.

Lemma charge_le_unit lines hs : charge_le unit_charge 1 lines hs.
Proof. intros c h p _ _ _. apply Nat.le_refl. Qed.

Section Apply.
  Variable w : line -> line -> nat.
  Variable M : nat.
  Variable o : options.
  Variable lines : list line.
  Let F : Z := max_fuzz o.

  Lemma locate_W h ws offset lo :
    (forall c p, In c lines -> In p (body h) -> w c (pl p) <= M) ->
    snd (locate_hunk_costw w lines h ws offset (max_fuzz o) lo) <= M * (length lines * hunk_weight F h).
  Proof. intros HM. apply locate_hunk_costw_le_weight. exact HM. Qed.

  Lemma locate_for_W p h ws offset lo :
    (forall c p, In c lines -> In p (body h) -> w c (pl p) <= M) ->
    snd (locate_for_costw w p lines h ws offset (max_fuzz o) lo) <= M * (length lines * hunk_weight F h).
  Proof.
    intros HM. unfold locate_for_costw.
    destruct (creates_file p && negb (is_nil lines) && Z.eqb (rstart (oldr h)) 0 && Z.eqb (rcount (oldr h)) 0);
      [cbn [snd]; apply Nat.le_0_l|]. apply locate_W. exact HM.
  Qed.

  Lemma apply_rest_costw_le p : forall hs hunk_num s,
    charge_le w M lines hs ->
    snd (apply_rest_costw w o p lines hunk_num s hs) <= M * (length lines * total_weight F hs).
  Proof.
    induction hs as [|h r IH]; intros hunk_num s HM; cbn [apply_rest_costw]; [cbn [snd]; apply Nat.le_0_l|].
    rewrite total_weight_cons, !Nat.mul_add_distr_l.
    pose proof (locate_for_W p h (ignore_whitespace o) (a_offerr s) (a_ln s) (charge_le_head _ _ _ _ _ HM)) as Hl.
    destruct (apply_one o p lines hunk_num s h _) as [s'|e]; cbn [snd]; [|lia].
    specialize (IH (S hunk_num) s' (charge_le_tail _ _ _ _ _ HM)). lia.
  Qed.

  Lemma then_rest_costw_le p n m hs :
    charge_le w M lines hs ->
    snd (then_rest_costw w o p lines n m hs) <= M * (length lines * total_weight F hs).
  Proof.
    intros HM. destruct m as [s'|e]; cbn [then_rest_costw]; [apply apply_rest_costw_le; exact HM|cbn [snd]; apply Nat.le_0_l].
  Qed.

  Lemma with_patch_costw_le q p n m hs :
    charge_le w M lines hs ->
    snd (with_patch_cost q (then_rest_costw w o p lines n m hs)) <= M * (length lines * total_weight F hs).
  Proof. intros HM. unfold with_patch_cost. cbn [snd]. apply then_rest_costw_le. exact HM. Qed.

  (* the first hunk may be located twice: as written and reversed *)
  Lemma apply_first_costw_le p s hs :
    charge_le w M lines hs ->
    snd (apply_first_costw w o p lines s hs) <= M * (length lines * (first_weight F hs + total_weight F hs)).
  Proof.
    intros HM. destruct hs as [|h r]; cbn [apply_first_costw]; [cbn [snd]; apply Nat.le_0_l|].
    cbn [first_weight]. rewrite total_weight_cons, !Nat.mul_add_distr_l.
    pose proof (locate_for_W p h (ignore_whitespace o) (a_offerr s) (a_ln s) (charge_le_head _ _ _ _ _ HM)) as Hl.
    pose proof (charge_le_reverse _ _ _ _ HM) as HMr. cbn [map] in HMr.
    pose proof (locate_W (reverse_hunk h) (ignore_whitespace o) (a_offerr s) (a_ln s) (charge_le_head _ _ _ _ _ HMr)) as Hr.
    rewrite hunk_weight_reverse in Hr.
    pose proof (charge_le_tail _ _ _ _ _ HM) as HMt. pose proof (charge_le_tail _ _ _ _ _ HMr) as HMrt.
    destruct (should_check_if_patch_is_reversed _ o).
    - destruct (if loc_perfect _ || _ then handle_probably_reversed_patch o else Ok ([], RHApplyAnyway)) as [d|e];
        cbn [snd]; [|lia].
      destruct (snd d).
      + match goal with |- context [with_patch_cost ?q (then_rest_costw w o ?p' lines ?n ?m ?hs')] =>
          pose proof (with_patch_costw_le q p' n m hs' HMrt) as Hx end.
        rewrite total_weight_reverse in Hx. lia.
      + match goal with |- context [with_patch_cost ?q (then_rest_costw w o ?p' lines ?n ?m ?hs')] =>
          pose proof (with_patch_costw_le q p' n m hs' HMt) as Hx end. lia.
      + match goal with |- context [with_patch_cost ?q (then_rest_costw w o ?p' lines ?n ?m ?hs')] =>
          pose proof (with_patch_costw_le q p' n m hs' HMt) as Hx end. lia.
    - cbn [snd].
      match goal with |- context [with_patch_cost ?q (then_rest_costw w o ?p' lines ?n ?m ?hs')] =>
        pose proof (with_patch_costw_le q p' n m hs' HMt) as Hx end. lia.
  Qed.

  Lemma hunks_of_run p0 :
    first_weight F (hunks (if reverse_patch_opt o then reverse_patch p0 else p0)) = first_weight F (hunks p0) /\
    total_weight F (hunks (if reverse_patch_opt o then reverse_patch p0 else p0)) = total_weight F (hunks p0).
  Proof.
    destruct (reverse_patch_opt o); [|split; reflexivity].
    unfold reverse_patch. cbn [hunks]. split; [apply first_weight_reverse|apply total_weight_reverse].
  Qed.

  Lemma charge_le_run p0 :
    charge_le w M lines (hunks p0) ->
    charge_le w M lines (hunks (if reverse_patch_opt o then reverse_patch p0 else p0)).
  Proof.
    intros HM. destruct (reverse_patch_opt o); [|exact HM].
    unfold reverse_patch. cbn [hunks]. apply charge_le_reverse. exact HM.
  Qed.

  (* the sharpest form: per line of the file, the weight of every hunk once and of the first hunk twice *)
  Theorem apply_patch_costw_le_weight p0 :
    charge_le w M lines (hunks p0) ->
    snd (apply_patch_costw w o lines p0)
    <= M * (length lines * (first_weight (max_fuzz o) (hunks p0) + total_weight (max_fuzz o) (hunks p0))).
  Proof.
    intros HM. unfold apply_patch_costw. cbn [snd].
    eapply Nat.le_trans; [apply apply_first_costw_le; apply charge_le_run; exact HM|].
    destruct (hunks_of_run p0) as [H1 H2]. rewrite H1, H2. apply Nat.le_refl.
  Qed.

  Theorem apply_patch_costw_le p0 :
    charge_le w M lines (hunks p0) ->
    snd (apply_patch_costw w o lines p0)
    <= M * (Z.to_nat (max_fuzz o + 1)%Z * (2 * length lines + 2) * total_lines (hunks p0)).
  Proof.
    intros HM. eapply Nat.le_trans; [apply apply_patch_costw_le_weight; exact HM|].
    apply Nat.mul_le_mono_l.
    pose proof (first_weight_le_F (max_fuzz o) (hunks p0)) as H1.
    pose proof (total_weight_le_F (max_fuzz o) (hunks p0)) as H2.
    pose proof (first_le_total (hunks p0)) as Hf.
    assert (H3 : Z.to_nat (max_fuzz o + 1) * first_lines (hunks p0)
                 <= Z.to_nat (max_fuzz o + 1) * total_lines (hunks p0)) by (apply Nat.mul_le_mono_l; exact Hf).
    eapply Nat.le_trans with (m := length lines * (Z.to_nat (max_fuzz o + 1) * (2 * total_lines (hunks p0)))).
    - apply Nat.mul_le_mono_l. lia.
    - eapply Nat.le_trans with (m := Z.to_nat (max_fuzz o + 1) * (2 * length lines) * total_lines (hunks p0));
        [apply Nat.eq_le_incl; ring|].
      apply Nat.mul_le_mono_r. apply Nat.mul_le_mono_l. lia.
  Qed.

  (* whatever -F says: cubic in the sizes *)
  Theorem apply_patch_costw_le_anyF p0 :
    charge_le w M lines (hunks p0) ->
    snd (apply_patch_costw w o lines p0)
    <= M * (length lines * (2 * ((total_lines (hunks p0) + 1) * total_lines (hunks p0)))).
  Proof.
    intros HM. eapply Nat.le_trans; [apply apply_patch_costw_le_weight; exact HM|].
    apply Nat.mul_le_mono_l. apply Nat.mul_le_mono_l.
    pose proof (first_weight_le_total (max_fuzz o) (hunks p0)) as H1.
    pose proof (total_weight_le_sq (max_fuzz o) (hunks p0)) as H2. lia.
  Qed.
End Apply.

(* ---- the comparison count ---- *)
Theorem apply_patch_cost_le_weight o lines p0 :
  snd (apply_patch_cost o lines p0)
  <= length lines * (first_weight (max_fuzz o) (hunks p0) + total_weight (max_fuzz o) (hunks p0)).
Proof.
  pose proof (apply_patch_costw_le_weight unit_charge 1 o lines p0 (charge_le_unit _ _)) as H.
  rewrite Nat.mul_1_l in H. exact H.
Qed.

Theorem apply_patch_cost_le_sharp o lines p0 :
  snd (apply_patch_cost o lines p0)
  <= Z.to_nat (max_fuzz o + 1)%Z * length lines * (first_lines (hunks p0) + total_lines (hunks p0)).
Proof.
  eapply Nat.le_trans; [apply apply_patch_cost_le_weight|].
  pose proof (first_weight_le_F (max_fuzz o) (hunks p0)) as H1.
  pose proof (total_weight_le_F (max_fuzz o) (hunks p0)) as H2.
  rewrite (Nat.mul_comm (Z.to_nat _) (length lines)), <- Nat.mul_assoc.
  apply Nat.mul_le_mono_l. rewrite Nat.mul_add_distr_l. lia.
Qed.

(* the form asked for *)
Theorem apply_patch_cost_le o lines p0 :
  snd (apply_patch_cost o lines p0)
  <= Z.to_nat (max_fuzz o + 1)%Z * (2 * length lines + 2) * total_lines (hunks p0).
Proof.
  pose proof (apply_patch_costw_le unit_charge 1 o lines p0 (charge_le_unit _ _)) as H.
  rewrite Nat.mul_1_l in H. exact H.
Qed.

(* with number of hunks and longest hunk *)
Lemma total_lines_le_max hs m :
  (forall h, In h hs -> length (body h) <= m) -> total_lines hs <= length hs * m.
Proof.
  induction hs as [|h r IH]; intros Hm; [cbn; lia|].
  rewrite total_lines_cons. cbn [length].
  assert (H1 : length (body h) <= m) by (apply Hm; left; reflexivity).
  assert (H2 : total_lines r <= length r * m) by (apply IH; intros x Hx; apply Hm; right; exact Hx).
  lia.
Qed.

Theorem apply_patch_cost_le_max o lines p0 m :
  (forall h, In h (hunks p0) -> length (body h) <= m) ->
  snd (apply_patch_cost o lines p0)
  <= length (hunks p0) * Z.to_nat (max_fuzz o + 1)%Z * (2 * length lines + 2) * m.
Proof.
  intros Hm. eapply Nat.le_trans; [apply apply_patch_cost_le|].
  pose proof (total_lines_le_max (hunks p0) m Hm) as Ht.
  rewrite <- !Nat.mul_assoc, (Nat.mul_comm (length (hunks p0))), <- !Nat.mul_assoc.
  apply Nat.mul_le_mono_l. apply Nat.mul_le_mono_l. rewrite Nat.mul_comm. exact Ht.
Qed.

(* whatever -F says: cubic in the sizes *)
Theorem apply_patch_cost_le_anyF o lines p0 :
  snd (apply_patch_cost o lines p0)
  <= length lines * (2 * ((total_lines (hunks p0) + 1) * total_lines (hunks p0))).
Proof.
  pose proof (apply_patch_costw_le_anyF unit_charge 1 o lines p0 (charge_le_unit _ _)) as H.
  rewrite Nat.mul_1_l in H. exact H.
Qed.
