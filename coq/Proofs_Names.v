(* Proofs_Names.v — C12: component stripping, base name, C-style unquoting, header file lines, candidate order. *)
From PatchV Require Import Base Lines Hunk Options LineParser World Driver Spec_Names Proofs_Base.

(* ---------- strip_path ---------- *)
Lemma drop_slashes_skip s : drop_slashes s = skip_slashes s.
Proof. induction s as [|c r IH]; [reflexivity|]. cbn. unfold SLASH. destruct (N.eqb c 47); [exact IH|reflexivity]. Qed.

Lemma skip_slashes_length s : length (skip_slashes s) <= length s.
Proof. induction s as [|c r IH]; cbn; [lia|]. destruct (N.eqb c SLASH); cbn; lia. Qed.

Lemma strip_loop_done : forall fuel s b rem, (rem <= 0)%Z -> exists rem', strip_loop fuel s b rem = (b, rem') /\ (rem' <= 0)%Z.
Proof.
  induction fuel as [|f IH]; intros s b rem H; cbn [strip_loop]; [eauto|].
  destruct s as [|c r]; [eauto|]. destruct (N.eqb c 47).
  - destruct (Z.leb_spec 0 (rem - 1)); [lia|]. apply IH. lia.
  - apply IH. exact H.
Qed.

Lemma strip_n_succ k c r : strip_n (S k) (c :: r) = if N.eqb c SLASH then strip_n k (skip_slashes r) else strip_n (S k) r.
Proof. cbn [strip_n drop_component]. destruct (N.eqb c SLASH); reflexivity. Qed.

Lemma strip_loop_spec : forall fuel s b rem, length s <= fuel -> (0 < rem)%Z ->
  match strip_n (Z.to_nat rem) s with
  | Some r => exists rem', strip_loop fuel s b rem = (r, rem') /\ (rem' <= 0)%Z
  | None => exists b' rem', strip_loop fuel s b rem = (b', rem') /\ (0 < rem')%Z
  end.
Proof.
  induction fuel as [|f IH]; intros s b rem L R.
  - destruct s; [|cbn in L; lia]. destruct (Z.to_nat rem) eqn:E; [lia|]. cbn. eauto.
  - destruct s as [|c r].
    + destruct (Z.to_nat rem) eqn:E; [lia|]. cbn. eauto.
    + assert (E : Z.to_nat rem = S (Z.to_nat (rem - 1))) by lia. rewrite E, strip_n_succ. cbn [strip_loop]. unfold SLASH.
      destruct (N.eqb c 47).
      * change (drop_slashes r) with (skip_slashes r). destruct (Z.leb_spec 0 (rem - 1)); [|lia].
        destruct (Z.eq_dec (rem - 1) 0) as [Z0|Z0].
        -- rewrite Z0. cbn [Z.to_nat strip_n]. apply strip_loop_done. lia.
        -- apply IH; [|lia]. pose proof (skip_slashes_length r). cbn in L. lia.
      * rewrite <- E. apply IH; [cbn in L; lia|exact R].
Qed.

(* -pN, N >= 0: exactly N leading components are removed, runs of slashes counting once; too few components or nothing
   left: the empty name, which is never used *)
Theorem strip_path_spec path amount : (0 <= amount)%Z -> strip_path path amount = strip_spec path (Z.to_nat amount).
Proof.
  intros H. unfold strip_path, strip_spec. destruct (Z.ltb_spec amount 0); [lia|].
  destruct (Z.eq_dec amount 0) as [->|Hn].
  - destruct (strip_loop_done (length path) path path 0 ltac:(lia)) as (rem' & E & Hr). rewrite E. cbn [Z.to_nat strip_n].
    destruct (Z.ltb_spec 0 rem'); [lia|]. destruct path; reflexivity.
  - pose proof (strip_loop_spec (length path) path path amount (le_n _) ltac:(lia)) as S.
    destruct (strip_n (Z.to_nat amount) path) as [r|].
    + destruct S as (rem' & E & Hr). rewrite E. destruct (Z.ltb_spec 0 rem'); [lia|]. destruct r; reflexivity.
    + destruct S as (b' & rem' & E & Hr). rewrite E. destruct (Z.ltb_spec 0 rem'); [|lia]. rewrite orb_true_r. reflexivity.
Qed.

(* -p absent (negative count): the base name *)
Lemma basename_aux_spec : forall s cur, ~ In SLASH cur ->
  ~ In SLASH (basename_aux s cur) /\
  exists pre, rev cur ++ s = pre ++ basename_aux s cur /\ (pre = [] \/ exists q, pre = q ++ [SLASH]).
Proof.
  induction s as [|c r IH]; intros cur H; cbn [basename_aux].
  - split; [intro I; apply in_rev in I; exact (H I)|]. exists []. rewrite app_nil_r. auto.
  - destruct (N.eqb_spec c 47) as [->|Hc].
    + destruct (IH [] (fun x => x)) as (A & pre & E & P). split; [exact A|].
      exists (rev cur ++ SLASH :: pre). cbn [rev app] in E. split.
      * rewrite <- app_assoc. cbn [app]. rewrite <- E. reflexivity.
      * right. destruct P as [->|(q & ->)]; [exists (rev cur); reflexivity|].
        exists (rev cur ++ SLASH :: q). rewrite <- app_assoc. reflexivity.
    + destruct (IH (c :: cur)) as (A & pre & E & P).
      * intros [I|I]; [apply Hc; exact I|exact (H I)].
      * split; [exact A|]. exists pre. split; [|exact P]. cbn [rev] in E. rewrite <- app_assoc in E. exact E.
Qed.

Theorem strip_path_basename path amount : (amount < 0)%Z ->
  strip_path path amount = basename path /\ is_basename path (basename path).
Proof.
  intros H. unfold strip_path. destruct (Z.ltb_spec amount 0); [|lia]. split; [reflexivity|].
  unfold is_basename, basename. destruct (basename_aux_spec path [] (fun x => x)) as (A & pre & E & P).
  split; [exact A|]. exists pre. auto.
Qed.

(* ---------- C-style unquoting ---------- *)
Definition oct_facts (c : N) : bool :=
  let d1 := (48 + c / 64)%N in let d2 := (48 + (c / 8) mod 8)%N in let d3 := (48 + c mod 8)%N in
  negb (N.eqb d1 0) && negb (N.eqb d1 92) && negb (N.eqb d1 34) && negb (N.eqb d1 110) && negb (N.eqb d1 116)
  && is_octal d1 && is_octal d2 && is_octal d3
  && N.eqb ((((d1 - 48) * 8 + (d2 - 48)) mod 256 * 8 + (d3 - 48)) mod 256) c.

Definition bytes256 : list N := map N.of_nat (seq 0 256).

Lemma oct_facts_sweep : forallb oct_facts bytes256 = true.
Proof. vm_compute. reflexivity. Qed.

Lemma oct_facts_all c : (c < 256)%N -> oct_facts c = true.
Proof.
  intros H. pose proof oct_facts_sweep as S. rewrite forallb_forall in S. apply S.
  unfold bytes256. apply in_map_iff. exists (N.to_nat c). split; [apply N2Nat.id|]. apply in_seq. lia.
Qed.

Lemma pqs_octal_step c f rest out : (c < 256)%N ->
  pqs_loop (S f) (92%N :: octal3 c ++ rest) out = pqs_loop f rest (c :: out).
Proof.
  intros H. pose proof (oct_facts_all c H) as F. unfold oct_facts in F. cbv zeta in F.
  repeat (apply andb_prop in F; destruct F as [F ?]).
  repeat match goal with X : negb _ = true |- _ => apply negb_true_iff in X end.
  match goal with X : N.eqb _ c = true |- _ => apply N.eqb_eq in X; rename X into V end.
  unfold octal3. cbn [app pqs_loop].
  change (N.eqb 92 34) with false. change (N.eqb 92 92) with true. cbv iota.
  repeat match goal with X : _ = false |- _ => rewrite X end.
  repeat match goal with X : is_octal _ = true |- _ => rewrite X end.
  cbv iota. rewrite V. reflexivity.
Qed.

Lemma pqs_loop_cquote : forall name fuel out tail,
  Forall (fun c => (c < 256)%N) name ->
  length (cquote_body name ++ 34%N :: tail) < fuel ->
  pqs_loop fuel (cquote_body name ++ 34%N :: tail) out = Ok (rev out ++ name, 34%N :: tail).
Proof.
  induction name as [|c name IH]; intros fuel out tail Hb L.
  - cbn [cquote_body flat_map app] in *. destruct fuel as [|f]; [cbn in L; lia|]. cbn [pqs_loop].
    change (N.eqb 34 34) with true. cbv iota. rewrite app_nil_r. reflexivity.
  - inversion Hb as [|? ? Hc Hr]; subst.
    unfold cquote_body in *. cbn [flat_map] in *. rewrite <- app_assoc in *.
    assert (Res : forall f, length (flat_map cquote_char name ++ 34%N :: tail) < f ->
                  pqs_loop f (flat_map cquote_char name ++ 34%N :: tail) (c :: out) = Ok (rev out ++ c :: name, 34%N :: tail)).
    { intros f Lf. rewrite (IH f (c :: out) tail Hr Lf). cbn [rev]. rewrite <- app_assoc. reflexivity. }
    rewrite app_length in L. unfold cquote_char in *.
    destruct (N.eqb_spec c 92) as [->|N92].
    { cbn [app length] in *. destruct fuel as [|f]; [lia|]. cbn [pqs_loop].
      change (N.eqb 92 34) with false. change (N.eqb 92 92) with true. change (N.eqb 92 0) with false. cbv iota. apply Res. lia. }
    destruct (N.eqb_spec c 34) as [->|N34].
    { cbn [app length] in *. destruct fuel as [|f]; [lia|]. cbn [pqs_loop].
      change (N.eqb 92 34) with false. change (N.eqb 92 92) with true. change (N.eqb 34 0) with false.
      change (N.eqb 34 92) with false. change (N.eqb 34 34) with true. cbv iota. apply Res. lia. }
    destruct (N.eqb_spec c 10) as [->|N10].
    { cbn [app length] in *. destruct fuel as [|f]; [lia|]. cbn [pqs_loop].
      change (N.eqb 92 34) with false. change (N.eqb 92 92) with true. change (N.eqb 110 0) with false.
      change (N.eqb 110 92) with false. change (N.eqb 110 34) with false. change (N.eqb 110 110) with true. cbv iota. apply Res. lia. }
    destruct (N.eqb_spec c 9) as [->|N9].
    { cbn [app length] in *. destruct fuel as [|f]; [lia|]. cbn [pqs_loop].
      change (N.eqb 92 34) with false. change (N.eqb 92 92) with true. change (N.eqb 116 0) with false.
      change (N.eqb 116 92) with false. change (N.eqb 116 34) with false. change (N.eqb 116 110) with false.
      change (N.eqb 116 116) with true. cbv iota. apply Res. lia. }
    destruct (N.ltb c 32 || N.leb 127 c).
    { destruct fuel as [|f]; [lia|]. cbn [app]. rewrite (pqs_octal_step c f _ out Hc). apply Res. cbn [length octal3] in L. lia. }
    cbn [app length] in *. destruct fuel as [|f]; [lia|]. cbn [pqs_loop].
    destruct (N.eqb_spec c 34); [contradiction|]. destruct (N.eqb_spec c 92); [contradiction|]. apply Res. lia.
Qed.

(* a C-quoted name, whatever bytes it has, decodes to exactly that name; the cursor is left on the closing quote *)
Theorem unquote_quote name tail :
  Forall (fun c => (c < 256)%N) name ->
  parse_quoted_string (cquote name ++ tail) = Ok (name, 34%N :: tail).
Proof.
  intros H. unfold parse_quoted_string, cquote. cbn [app consume_char]. change (N.eqb 34 34) with true. cbv iota.
  rewrite <- app_assoc. cbn [app]. rewrite pqs_loop_cquote; [reflexivity|exact H|lia].
Qed.

(* ---------- header file lines ---------- *)
Lemma find_tab_spec : forall a ts, ~ In 9%N a -> find_tab (a ++ 9%N :: ts) = Some (a, 9%N :: ts).
Proof.
  induction a as [|c a IH]; intros ts H; cbn [app find_tab].
  - reflexivity.
  - destruct (N.eqb_spec c 9) as [->|Hc]; [exfalso; apply H; left; reflexivity|].
    rewrite IH; [reflexivity|]. intros I. apply H. right. exact I.
Qed.

Lemma pfl_scan_spec : forall name acc ts, ~ In 9%N name -> pfl_scan (name ++ 9%N :: ts) acc = (rev acc ++ name, 9%N :: ts).
Proof.
  induction name as [|c name IH]; intros acc ts H; cbn [app pfl_scan].
  - rewrite app_nil_r. reflexivity.
  - destruct (N.eqb_spec c 9) as [->|Hc]; [exfalso; apply H; left; reflexivity|].
    assert (H' : ~ In 9%N name) by (intros I; apply H; right; exact I).
    destruct (N.eqb_spec c 32) as [->|Hs].
    + change (32%N :: name ++ 9%N :: ts) with ((32%N :: name) ++ 9%N :: ts). rewrite find_tab_spec; [reflexivity|exact H].
    + rewrite IH by exact H'. cbn [rev]. rewrite <- app_assoc. reflexivity.
Qed.

Definition stripped (name : list N) (strip : Z) : list N :=
  if str_eqb name devnull_path then name else strip_path name strip.

(* a plain name ended by a tab: the name is everything before the tab (blanks included), with the components stripped;
   /dev/null is taken as it is *)
Theorem file_line_plain name ts strip :
  name <> [] -> ~ In 9%N name -> hd 0%N name <> 34%N ->
  parse_file_line strip (name ++ 9%N :: ts) = Ok (stripped name strip, match ts with [] => None | _ => Some ts end).
Proof.
  intros Hne Ht Hq. unfold parse_file_line. destruct name as [|c name]; [contradiction|]. cbn [app hd] in *.
  destruct (N.eqb_spec c 34); [contradiction|]. cbn [rbind].
  change (c :: name ++ 9%N :: ts) with ((c :: name) ++ 9%N :: ts). rewrite pfl_scan_spec by exact Ht. cbn [rev app].
  unfold stripped. destruct ts; reflexivity.
Qed.

(* a C-quoted name: decoded, then stripped *)
Theorem file_line_quoted name tail strip :
  Forall (fun c => (c < 256)%N) name ->
  parse_file_line strip (cquote name ++ tail) = Ok (stripped name strip, match tail with [] => None | _ => Some tail end).
Proof.
  intros H. unfold parse_file_line. pose proof (unquote_quote name tail H) as U.
  unfold cquote in *. cbn [app] in *. change (N.eqb 34 34) with true. cbv iota. rewrite U. cbn [rbind].
  unfold stripped. destruct tail; reflexivity.
Qed.

(* ---------- which file is patched ---------- *)
Definition usable (m : fsmap) (x : list N) : bool := negb (str_eqb x devnull) && exists_ m x.

Theorem guess_order m p o :
  (usable m (old_path p) = true -> guess_filepath m [] p o = old_path p) /\
  (usable m (old_path p) = false -> usable m (new_path p) = true -> guess_filepath m [] p o = new_path p) /\
  (usable m (old_path p) = false -> usable m (new_path p) = false -> usable m (index_path p) = true ->
   guess_filepath m [] p o = index_path p).
Proof.
  unfold usable, guess_filepath. cbn [existsb]. rewrite !orb_false_r.
  repeat split; intros; repeat match goal with X : _ = _ |- _ => rewrite X end; reflexivity.
Qed.

Theorem guess_never_devnull m pending p o : guess_filepath m pending p o <> devnull.
Proof.
  unfold guess_filepath.
  destruct (str_eqb (old_path p) devnull) eqn:E1; cbn [negb andb].
  2: destruct (_ || _); [apply str_eqb_neq; exact E1|].
  all: destruct (str_eqb (new_path p) devnull) eqn:E2; cbn [negb andb].
  all: try (destruct (exists_ m (new_path p) || existsb (str_eqb (new_path p)) pending); [apply str_eqb_neq; exact E2|]).
  all: destruct (str_eqb (index_path p) devnull) eqn:E3; cbn [negb andb].
  all: try (destruct (exists_ m (index_path p) || existsb (str_eqb (index_path p)) pending); [apply str_eqb_neq; exact E3|]).
  all: destruct (is_adding_file p o); try discriminate.
  all: destruct (reverse_patch_opt o); rewrite ?E1, ?E2; try discriminate; try (apply str_eqb_neq; assumption).
Qed.
