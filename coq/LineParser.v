(* LineParser.v — the per-line parsing functions of src/parser.cpp: LineParser cursor primitives,
   parse_quoted_string, parse_file_line, the range grammars, parse_mode, git header lines, strip_path,
   basename (system.cpp).  Definitions only.  A LineParser is its remaining characters. *)
From PatchV Require Import Base Lines Hunk.

(* ---- cursor primitives ---- *)
Definition consume_char (c : N) (s : list N) : option (list N) :=
  match s with x :: r => if N.eqb x c then Some r else None | [] => None end.

(* consume_specific with a C string: all or nothing *)
Fixpoint consume_str (p : list N) (s : list N) : option (list N) :=
  match p with
  | [] => Some s
  | c :: p' => match consume_char c s with Some r => consume_str p' r | None => None end
  end.

Fixpoint span_digits (s : list N) : list N * list N :=
  match s with
  | c :: r => if is_digit c then let '(d, t) := span_digits r in (c :: d, t) else ([], s)
  | [] => ([], [])
  end.

(* string_to_line_number with its by-reference output: (ok, value left in output) *)
Fixpoint s2n_out (s : list N) (acc : N) : bool * N :=
  match s with
  | [] => (true, acc)
  | c :: r =>
      if negb (is_digit c) then (false, acc)
      else if N.ltb (MAXLN / 10) acc then (false, acc)
      else let acc10 := (acc * 10)%N in
           let d := digit_val c in
           if N.ltb (MAXLN - d) acc10 then (false, acc10)
           else s2n_out r (acc10 + d)%N
  end.

(* consume_line_number: None = no digit at the cursor (output untouched);
   Some (ok, value, rest) = digits consumed, output overwritten with value (partial when not ok) *)
Definition consume_line_number (s : list N) : option (bool * Z * list N) :=
  match span_digits s with
  | ([], _) => None
  | (d, r) => let '(ok, v) := s2n_out d 0 in Some (ok, Z.of_N v, r)
  end.

(* ---- parse_quoted_string (parser.cpp:87-153) ---- *)
(* after the optional opening quote; fuel = length of the input *)
Fixpoint pqs_loop (fuel : nat) (s : list N) (out : list N) : res (list N * list N) :=
  match fuel with
  | O => Throw EOutOfFuel
  | S f =>
      match s with
      | [] => Throw EInvalidArgument                      (* no terminating quote *)
      | c :: r =>
          if N.eqb c 34 then Ok (rev out, s)              (* peek() is the closing quote: returned, NOT consumed *)
          else if N.eqb c 92 then
            match r with
            | [] => Throw EInvalidArgument                (* consume() gives '\0' *)
            | e :: r2 =>
                if N.eqb e 0 then Throw EInvalidArgument
                else if N.eqb e 92 then pqs_loop f r2 (92%N :: out)
                else if N.eqb e 34 then pqs_loop f r2 (34%N :: out)
                else if N.eqb e 110 then pqs_loop f r2 (10%N :: out)
                else if N.eqb e 116 then pqs_loop f r2 (9%N :: out)
                else if is_octal e then
                  (* up to two more octal digits; unsigned char arithmetic wraps mod 256 *)
                  let v1 := (e - 48)%N in
                  match r2 with
                  | d2 :: r3 =>
                      if is_octal d2 then
                        let v2 := ((v1 * 8 + (d2 - 48)) mod 256)%N in
                        match r3 with
                        | d3 :: r4 =>
                            if is_octal d3 then pqs_loop f r4 (((v2 * 8 + (d3 - 48)) mod 256)%N :: out)
                            else pqs_loop f r3 (v2 :: out)
                        | [] => pqs_loop f r3 (v2 :: out)
                        end
                      else pqs_loop f r2 (v1 :: out)
                  | [] => pqs_loop f r2 (v1 :: out)
                  end
                else Throw EInvalidArgument
            end
          else pqs_loop f r (c :: out)
      end
  end.

Definition parse_quoted_string (s : list N) : res (list N * list N) :=
  let s1 := match consume_char 34 s with Some r => r | None => s end in
  pqs_loop (S (length s1)) s1 [].

(* ---- basename / strip_path ---- *)
Fixpoint basename_aux (s : list N) (cur : list N) : list N :=   (* cur = reversed chars since the last '/' *)
  match s with
  | [] => rev cur
  | c :: r => if N.eqb c 47 then basename_aux r [] else basename_aux r (c :: cur)
  end.
Definition basename (s : list N) : list N := basename_aux s [].

Fixpoint drop_slashes (s : list N) : list N :=
  match s with c :: r => if N.eqb c 47 then drop_slashes r else s | [] => [] end.

(* the loop of strip_path: [begin] = current stripped_begin (as a suffix of the path), [rem] = remaining_to_strip.
   fuel = length of the path. *)
Fixpoint strip_loop (fuel : nat) (s : list N) (begin : list N) (rem : Z) : list N * Z :=
  match fuel with
  | O => (begin, rem)
  | S f =>
      match s with
      | [] => (begin, rem)
      | c :: r =>
          if N.eqb c 47 then
            let s' := drop_slashes r in
            let rem' := (rem - 1)%Z in
            strip_loop f s' (if Z.leb 0 rem' then s' else begin) rem'
          else strip_loop f r begin rem
      end
  end.

Definition strip_path (path : list N) (amount : Z) : list N :=
  if Z.ltb amount 0 then basename path
  else let '(b, rem) := strip_loop (length path) path path amount in
       if is_nil b || Z.ltb 0 rem then [] else b.

(* ---- parse_file_line (parser.cpp:155-220): returns (path, Some timestamp when it is assigned, else None) ---- *)
Fixpoint find_tab (s : list N) : option (list N * list N) :=   (* (before tab, from tab on) *)
  match s with
  | [] => None
  | c :: r => if N.eqb c 9 then Some ([], s)
              else match find_tab r with Some (a, b) => Some (c :: a, b) | None => None end
  end.

(* unquoted name: returns (name, rest starting at the separator character or empty) *)
Fixpoint pfl_scan (s : list N) (acc : list N) : list N * list N :=
  match s with
  | [] => (rev acc, [])
  | c :: r =>
      if N.eqb c 9 then (rev acc, s)
      else if N.eqb c 32 then
        match find_tab s with
        | None => (rev acc, s)
        | Some (a, b) => (rev acc ++ a, b)
        end
      else pfl_scan r (c :: acc)
  end.

Definition devnull_path : list N := bs "/dev/null".

(* ts = None : timestamp left untouched;  Some t : *timestamp = t  (or cleared when the line is empty) *)
Definition parse_file_line (strip : Z) (s : list N) : res (list N * option (list N)) :=
  match s with
  | [] => Ok ([], Some [])
  | c :: _ =>
      do pr <- (if N.eqb c 34 then parse_quoted_string s else Ok (pfl_scan s []));
      let '(path, it) := pr in
      (* if (timestamp && it != end && it + 1 != end) *timestamp = string(it + 1, end) *)
      let ts := match it with _ :: ((_ :: _) as t) => Some t | _ => None end in
      Ok ((if str_eqb path devnull_path then path else strip_path path strip), ts)
  end.

(* ---- ranges ---- *)
(* consume_range of parse_unified_range: Some (range', rest) on success; on failure the partially written range *)
Definition consume_urange (rg : range) (s : list N) : (option (list N)) * range :=
  match consume_line_number s with
  | None => (None, rg)
  | Some (ok, v, r) =>
      let rg1 := mkRange v (rcount rg) in
      if negb ok then (None, rg1)
      else match consume_char 44 r with
           | Some r2 =>
               match consume_line_number r2 with
               | None => (None, rg1)
               | Some (ok2, v2, r3) => if ok2 then (Some r3, mkRange v v2) else (None, mkRange v v2)
               end
           | None => (Some r, mkRange v 1)
           end
  end.

(* parse_unified_range(hunk, line): (result, hunk with the fields written so far) *)
Definition parse_unified_range (h : hunk) (line : list N) : bool * hunk :=
  match consume_str (bs "@@ -") line with
  | None => (false, h)
  | Some s1 =>
      let '(r1, o) := consume_urange (oldr h) s1 in
      let h1 := mkHunk o (newr h) (body h) in
      match r1 with
      | None => (false, h1)
      | Some s2 =>
          match consume_str (bs " +") s2 with
          | None => (false, h1)
          | Some s3 =>
              let '(r2, n) := consume_urange (newr h1) s3 in
              let h2 := mkHunk o n (body h) in
              match r2 with
              | None => (false, h2)
              | Some s4 => (match consume_str (bs " @@") s4 with Some _ => true | None => false end, h2)
              end
          end
      end
  end.

(* parse_normal_range(hunk, line) *)
Definition parse_normal_range (h : hunk) (line : list N) : bool * hunk :=
  match consume_line_number line with
  | None => (false, h)
  | Some (ok, ostart, s1) =>
      let h1 := mkHunk (mkRange ostart (rcount (oldr h))) (newr h) (body h) in
      if negb ok then (false, h1)
      else
        let first := match consume_char 44 s1 with
                     | Some s2 => match consume_line_number s2 with
                                  | None => inl tt                     (* has comma, no number: return false *)
                                  | Some (ok2, e, s3) => if ok2 then inr (true, e, s3) else inl tt
                                  end
                     | None => inr (false, ostart, s1)
                     end in
        match first with
        | inl _ => (false, h1)
        | inr (has_comma, oend, s4) =>
            match s4 with
            | [] => (false, h1)                                       (* consume() gives '\0' *)
            | cmd :: s5 =>
                if negb (N.eqb cmd 99 || N.eqb cmd 97 || N.eqb cmd 100) then (false, h1)
                else
                  let oc := if negb has_comma && N.eqb cmd 97 then 0%Z else sadd (oend - ostart) 1 in
                  let h2 := mkHunk (mkRange ostart oc) (newr h) (body h) in
                  match consume_line_number s5 with
                  | None => (false, h2)
                  | Some (ok3, nstart, s6) =>
                      let h3 := mkHunk (mkRange ostart oc) (mkRange nstart (rcount (newr h))) (body h) in
                      if negb ok3 then (false, h3)
                      else
                        let second := match consume_char 44 s6 with
                                      | Some s7 =>
                                          if has_comma && negb (N.eqb cmd 99) then inl tt
                                          else match consume_line_number s7 with
                                               | None => inl tt
                                               | Some (ok4, e, s8) => if ok4 then inr (e, s8) else inl tt
                                               end
                                      | None => inr (nstart, s6)
                                      end in
                        match second with
                        | inl _ => (false, h3)
                        | inr (nend, s9) =>
                            let nc0 := sadd (nend - nstart) 1 in
                            let nc := if N.eqb cmd 100 then (nc0 - 1)%Z else nc0 in
                            (* a range which ends before it starts holds no lines *)
                            (is_nil s9, mkHunk (mkRange ostart (Z.max oc 0)) (mkRange nstart (Z.max nc 0)) (body h))
                        end
                  end
            end
        end
  end.

(* parse_context_range(start, end, string): by-reference outputs; returns (ok, start', end') given the old values *)
Definition parse_context_range (st en : Z) (s : list N) : bool * Z * Z :=
  match consume_line_number s with
  | None => (false, st, en)
  | Some (ok, v, r) =>
      if negb ok then (false, v, en)
      else match consume_char 44 r with
           | None => (true, v, v)
           | Some r2 => match consume_line_number r2 with
                        | None => (false, v, en)
                        | Some (ok2, e, _) => (ok2, v, e)
                        end
           end
  end.

(* ---- parse_mode (parser.cpp:339-358): std::stoul(str, &pos, 8) on a 6 character string ---- *)
Definition is_space (c : N) : bool := N.eqb c 32 || (N.leb 9 c && N.leb c 13).
Fixpoint drop_spaces (s : list N) : list N :=
  match s with c :: r => if is_space c then drop_spaces r else s | [] => [] end.
Fixpoint octal_value (s : list N) (acc : N) : option N :=   (* all characters must be octal digits *)
  match s with
  | [] => Some acc
  | c :: r => if is_octal c then octal_value r (acc * 8 + (c - 48))%N else None
  end.
Definition parse_mode (s : list N) : N :=
  if negb (Nat.eqb (length s) 6) then 0%N
  else
    let s1 := drop_spaces s in
    let '(neg, s2) := match s1 with
                      | 43%N :: r => (false, r)
                      | 45%N :: r => (true, r)
                      | _ => (false, s1)
                      end in
    match s2 with
    | [] => 0%N
    | _ => match octal_value s2 0 with
           | None => 0%N
           | Some v => if neg then ((65536 - v mod 65536) mod 65536)%N else (v mod 65536)%N
           end
    end.

(* ---- git header lines ---- *)
(* parse_git_header_name: the name after "diff --git " *)
Fixpoint git_name_loop (s : list N) (acc : list N) : list N :=
  match s with
  | [] => rev acc
  | c :: r => match consume_str (bs " b/") s with
              | Some _ => rev acc
              | None => git_name_loop r (c :: acc)
              end
  end.

Definition parse_git_header_name (strip : Z) (s : list N) : res (list N) :=
  do name <- (match s with
              | 34%N :: _ => do x <- parse_quoted_string s; Ok (fst x)
              | _ => Ok (git_name_loop s [])
              end);
  Ok (strip_path name strip).

(* parse_filename lambda of parse_git_extended_info *)
Definition ext_strip (strip : Z) : Z := if Z.ltb 0 strip then strip - 1 else strip.
Definition git_ext_filename (strip : Z) (prefix : list N) (s : list N) : res (list N) :=
  do out <- (match s with
             | 34%N :: _ => do x <- parse_quoted_string s; Ok (strip_path (fst x) (ext_strip strip))
             | _ => Ok (strip_path s (ext_strip strip))
             end);
  Ok (if Z.eqb strip 0 then prefix ++ out else out).
