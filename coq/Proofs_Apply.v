(* Proofs_Apply.v — apply_patch is a replay of its verdicts (nothing lost, duplicated or half-applied),
   placements never precede the cursor, rejects are counted. *)
From PatchV Require Import Base Lines Hunk Locator Formatter Options Applier Spec_Locate Spec_Apply
     Proofs_Base Proofs_Ws Proofs_Locate.

(* ---------- write_hunk is the specification's splice ---------- *)
Lemma old_side_cons p r : old_side (p :: r) = if is_add p then old_side r else pl p :: old_side r.
Proof. unfold old_side. cbn [filter]. destruct (is_add p); reflexivity. Qed.

Lemma new_side_cons p r : new_side (p :: r) = if is_del p then new_side r else pl p :: new_side r.
Proof. unfold new_side. cbn [filter]. destruct (is_del p); reflexivity. Qed.

Lemma write_hunk_splice f : forall b pos,
  write_hunk f pos b = (splice f pos b, pos + length (old_side b)).
Proof.
  induction b as [|p r IH]; intros pos; cbn [write_hunk splice].
  - cbn. f_equal. lia.
  - rewrite old_side_cons. unfold is_add. destruct (pop p) eqn:E; cbn [length].
    + rewrite IH. rewrite nth_opt_nth_error.
      destruct (nth_error f pos); cbn [app]; f_equal; try reflexivity; lia.
    + rewrite IH. reflexivity.
    + rewrite IH. f_equal. lia.
Qed.

(* ---------- one hunk ---------- *)
Definition applied_step (f : list line) (s s' : astate) (h : hunk) (l : location) : Prop :=
  a_out s' = a_out s ++ copy_range f (a_ln s) (lline l) ++ splice f (lline l) (body h) /\
  a_ln s' = lline l + length (old_side (body h)) /\
  a_rejected s' = a_rejected s /\ a_rej s' = a_rej s /\ a_skip s' = false /\
  a_hunks s' = a_hunks s ++ [h] /\ a_offerr s' = sadd (a_offerr s) (loffset l).

Definition rejected_step (s s' : astate) (h : hunk) : Prop :=
  a_out s' = a_out s /\ a_ln s' = a_ln s /\ a_rejected s' = S (a_rejected s) /\ a_skip s' = a_skip s /\
  a_offerr s' = a_offerr s /\
  exists h', a_hunks s' = a_hunks s ++ [h'] /\ body h' = body h.

Lemma apply_one_cases o p f k s h loc s' :
  define_macro o = [] ->
  apply_one o p f k s h loc = Ok s' ->
  (exists l, loc = Some l /\ a_skip s = false /\ applied_step f s s' h l) \/
  ((loc = None \/ a_skip s = true) /\ rejected_step s s' h).
Proof.
  intros Hd. unfold apply_one. rewrite Hd. cbn [is_nil].
  destruct loc as [l|].
  - destruct (a_skip s) eqn:Hs; cbn [negb].
    + (* skipped: reject *)
      destruct (write_reject o p (a_rejected s) (shift_hunk h (a_o2n s))) as [t|e] eqn:W; cbn [rbind]; [|discriminate].
      intros [= <-]. right. split; [right; reflexivity|].
      unfold rejected_step. cbn. repeat split; auto. eexists. split; reflexivity.
    + rewrite write_hunk_splice. cbn [rbind fst snd].
      intros [= <-]. left. exists l. split; [reflexivity|]. split; [reflexivity|].
      unfold applied_step. cbn. repeat split; reflexivity.
  - destruct (write_reject o p (a_rejected s) (shift_hunk h (a_o2n s))) as [t|e] eqn:W; cbn [rbind]; [|discriminate].
    intros [= <-]. right. split; [left; reflexivity|].
    unfold rejected_step. cbn. repeat split; auto. eexists. split; reflexivity.
Qed.

(* ---------- the loop ---------- *)
(* what the verdicts say about the locator: an applied verdict is exactly what locate_hunk answered for
   that hunk with the cursor and accumulated offset of that moment *)
Fixpoint verdicts_from_locate (o : options) (p : patch) (f : list line) (cursor : nat) (offerr : Z)
         (hs : list hunk) (vs : list verdict) : Prop :=
  match hs, vs with
  | [], [] => True
  | h :: hs', VApplied pos fz :: vs' =>
      exists l, locate_for p f h (ignore_whitespace o) offerr (max_fuzz o) cursor = Some l /\
                lline l = pos /\ lfuzz l = fz /\
                verdicts_from_locate o p f (pos + length (old_side (body h))) (sadd offerr (loffset l)) hs' vs'
  | h :: hs', VRejected :: vs' =>
      locate_for p f h (ignore_whitespace o) offerr (max_fuzz o) cursor = None /\
      verdicts_from_locate o p f cursor offerr hs' vs'
  | _, _ => False
  end.

Lemma locate_for_some p f h ws off F lo l : locate_for p f h ws off F lo = Some l -> locate_hunk f h ws off F lo = Some l.
Proof. unfold locate_for. destruct (_ && _); [discriminate|auto]. Qed.

Lemma locate_cursor_le f h ws off F lo l : locate_hunk f h ws off F lo = Some l -> lo <= lline l.
Proof.
  intros E. destruct (Z.eq_dec (rcount (oldr h)) 0) as [Hc|Hc].
  - destruct (locate_insertion _ _ _ _ _ _ _ E Hc) as [H _]. lia.
  - destruct (locate_sound _ _ _ _ _ _ _ E Hc) as [[H _] _]. exact H.
Qed.

Lemma apply_rest_replay o p f : define_macro o = [] ->
  forall hs k s s', a_skip s = false -> apply_rest o p f k s hs = Ok s' ->
  exists vs hs' r,
    replay f (a_ln s) hs' vs = Some r /\
    a_out s' ++ skipn (a_ln s') f = a_out s ++ r /\
    a_hunks s' = a_hunks s ++ hs' /\ map body hs' = map body hs /\
    a_rejected s' = a_rejected s + count_rejected vs /\
    a_skip s' = false /\
    verdicts_from_locate o p f (a_ln s) (a_offerr s) hs vs.
Proof.
  intros Hd. induction hs as [|h hs IH]; intros k s s' Hs; cbn [apply_rest].
  - intros [= <-]. exists [], [], (skipn (a_ln s) f). cbn. rewrite app_nil_r. repeat split; auto.
  - destruct (apply_one o p f k s h _) as [s1|e] eqn:E1; cbn [rbind]; [|discriminate].
    intros E2. apply (apply_one_cases _ _ _ _ _ _ _ _ Hd) in E1.
    destruct E1 as [(l & El & _ & A)|[[En|Hk] R]]; [| |congruence].
    + destruct A as (Ao & Aln & Arj & Arej & Ask & Ah & Aoff).
      destruct (IH _ _ _ Ask E2) as (vs & hs' & r & Hr & Ho & Hh & Hb & Hc & Hk & Hv).
      exists (VApplied (lline l) (lfuzz l) :: vs), (h :: hs'), (copy_range f (a_ln s) (lline l) ++ splice f (lline l) (body h) ++ r).
      pose proof (locate_cursor_le _ _ _ _ _ _ _ (locate_for_some _ _ _ _ _ _ _ _ El)) as Hle.
      split; [|split; [|split; [|split; [|split; [|split]]]]].
      * cbn [replay]. apply Nat.leb_le in Hle. rewrite Hle. rewrite <- Aln. rewrite Hr. reflexivity.
      * rewrite Ho, Ao. rewrite <- !app_assoc. reflexivity.
      * rewrite Hh, Ah. rewrite <- app_assoc. reflexivity.
      * cbn [map]. rewrite Hb. reflexivity.
      * rewrite Hc, Arj. cbn. reflexivity.
      * exact Hk.
      * cbn [verdicts_from_locate]. exists l. rewrite Aln, Aoff in Hv. repeat split; auto.
    + destruct R as (Ro & Rln & Rrj & Rsk & Roff & h' & Rh & Rb).
      assert (Hs1 : a_skip s1 = false) by congruence.
      destruct (IH _ _ _ Hs1 E2) as (vs & hs' & r & Hr & Ho & Hh & Hb & Hc & Hk & Hv).
      exists (VRejected :: vs), (h' :: hs'), r.
      split; [|split; [|split; [|split; [|split; [|split]]]]].
      * cbn [replay]. rewrite <- Rln. exact Hr.
      * rewrite Ho, Ro. reflexivity.
      * rewrite Hh, Rh. rewrite <- app_assoc. reflexivity.
      * cbn [map]. rewrite Hb, Rb. reflexivity.
      * rewrite Hc, Rrj. unfold count_rejected. cbn. lia.
      * exact Hk.
      * cbn [verdicts_from_locate]. rewrite Rln, Roff in Hv. split; assumption.
Qed.

Lemma apply_rest_skipped o p f : define_macro o = [] ->
  forall hs k s s', a_skip s = true -> apply_rest o p f k s hs = Ok s' ->
  exists hs', a_out s' = a_out s /\ a_ln s' = a_ln s /\ a_rejected s' = a_rejected s + length hs /\
              a_hunks s' = a_hunks s ++ hs' /\ map body hs' = map body hs /\ a_skip s' = true.
Proof.
  intros Hd. induction hs as [|h hs IH]; intros k s s' Hs; cbn [apply_rest].
  - intros [= <-]. exists []. rewrite app_nil_r. cbn. repeat split; auto.
  - destruct (apply_one o p f k s h _) as [s1|e] eqn:E1; cbn [rbind]; [|discriminate].
    intros E2. apply (apply_one_cases _ _ _ _ _ _ _ _ Hd) in E1.
    destruct E1 as [(l & _ & Hk & _)|[_ R]]; [congruence|].
    destruct R as (Ro & Rln & Rrj & Rsk & Roff & h' & Rh & Rb).
    assert (Hs1 : a_skip s1 = true) by congruence.
    destruct (IH _ _ _ Hs1 E2) as (hs' & Ho & Hl & Hc & Hh & Hb & Hk).
    exists (h' :: hs'). cbn [map length]. rewrite Ho, Hl, Hc, Hh, Rh, Hb, Rb, Ro, Rln, Rrj.
    rewrite <- app_assoc. repeat split; auto. lia.
Qed.

Lemma replay_all_rejected f c : forall hs, replay f c hs (repeat VRejected (length hs)) = Some (skipn c f).
Proof. induction hs as [|h hs IH]; cbn; auto. Qed.

Lemma count_rejected_repeat n : count_rejected (repeat VRejected n) = n.
Proof. unfold count_rejected. induction n; cbn; auto. Qed.

Lemma with_patch_ok q m s q' : with_patch q m = Ok (s, q') -> m = Ok s /\ q' = q.
Proof. unfold with_patch. destruct m as [x|e]; cbn [rbind]; [|discriminate]. intros [= -> ->]. auto. Qed.

Lemma apply_first_force o p f s hs : force o = true -> apply_first o p f s hs = with_patch p (apply_rest o p f 0 s hs).
Proof.
  intros Hf. destruct hs as [|h r]; [reflexivity|]. cbn [apply_first apply_rest].
  unfold should_check_if_patch_is_reversed. rewrite Hf.
  destruct (loc_perfect _); reflexivity.
Qed.

Definition init_state : astate := mkAS [] [] 0 0 0%Z 0%Z false true [] [].

(* Every hunk is either spliced into the output at a position not before the cursor, or rejected and
   counted; the output is exactly the replay of those verdicts: nothing lost, duplicated or half-applied. *)
Theorem apply_patch_replay o f p r :
  define_macro o = [] -> apply_patch o f p = Ok r ->
  exists vs, replay f 0 (hunks (r_patch r)) vs = Some (r_out r) /\
             r_failed r = count_rejected vs /\
             length (hunks (r_patch r)) = length (hunks p).
Proof.
  intros Hd. unfold apply_patch.
  set (p1 := if reverse_patch_opt o then reverse_patch p else p).
  assert (Hlen : length (hunks p1) = length (hunks p)).
  { unfold p1. destruct (reverse_patch_opt o); [|reflexivity]. cbn. apply map_length. }
  fold init_state.
  destruct (apply_first o p1 f init_state (hunks p1)) as [[s q]|e] eqn:E; cbn [rbind]; [|discriminate].
  intros [= <-]. cbn [r_out r_failed r_patch fst snd]. unfold set_hunks. cbn [hunks].
  revert E. destruct (hunks p1) as [|h hs] eqn:Hh.
  { cbn. intros [= <- <-]. exists []. cbn. rewrite <- Hlen. auto. }
  cbn [apply_first].
  set (loc := locate_for p1 f h (ignore_whitespace o) (a_offerr init_state) (max_fuzz o) (a_ln init_state)).
  assert (Gen : forall p1 s0 h0 loc0 hs0 k, a_skip s0 = false -> a_out s0 = [] -> a_ln s0 = 0 -> a_rejected s0 = 0 -> a_hunks s0 = [] ->
     (do s' <- apply_one o p1 f 0 s0 h0 loc0; apply_rest o p1 f k s' hs0) = Ok s ->
     (loc0 = None \/ exists l, loc0 = Some l) ->
     exists vs, replay f 0 (a_hunks s) vs = Some (a_out s ++ skipn (a_ln s) f) /\ a_rejected s = count_rejected vs /\
                length (a_hunks s) = S (length hs0)).
  { clear loc Hh Hlen p1. intros p1 s0 h0 loc0 hs0 k Hs0 Ho0 Hl0 Hr0 Hh0 E _.
    destruct (apply_one o p1 f 0 s0 h0 loc0) as [s1|e1] eqn:E1; cbn [rbind] in E; [|discriminate].
    apply (apply_one_cases _ _ _ _ _ _ _ _ Hd) in E1.
    destruct E1 as [(l & El & _ & A)|[_ R]].
    - destruct A as (Ao & Aln & Arj & Arej & Ask & Ah & Aoff).
      destruct (apply_rest_replay o p1 f Hd _ _ _ _ Ask E) as (vs & hs' & r0 & Hr & Ho & Hhs & Hb & Hc & Hk & Hv).
      exists (VApplied (lline l) (lfuzz l) :: vs). rewrite Hhs, Ah, Hh0. cbn [app replay].
      change (Nat.leb 0 (lline l)) with true. cbv iota. rewrite <- Aln, Hr. rewrite Ho, Ao, Ho0, Hl0. cbn [app]. unfold copy_range. rewrite Nat.sub_0_r.
      cbn [skipn]. rewrite <- app_assoc. split; [reflexivity|]. split; [rewrite Hc, Arj, Hr0; reflexivity|].
      cbn [length]. f_equal. rewrite <- (map_length body hs'), Hb, map_length. reflexivity.
    - destruct R as (Ro & Rln & Rrj & Rsk & Roff & h' & Rh & Rb).
      assert (Hs1 : a_skip s1 = false) by congruence.
      destruct (apply_rest_replay o p1 f Hd _ _ _ _ Hs1 E) as (vs & hs' & r0 & Hr & Ho & Hhs & Hb & Hc & Hk & Hv).
      exists (VRejected :: vs). rewrite Hhs, Rh, Hh0. cbn [app replay]. rewrite Rln, Hl0 in Hr. rewrite Hr.
      rewrite Ho, Ro, Ho0. cbn [app]. split; [reflexivity|]. split; [rewrite Hc, Rrj, Hr0; unfold count_rejected; cbn; lia|].
      cbn [length]. f_equal. rewrite <- (map_length body hs'), Hb, map_length. reflexivity. }
  assert (Skip : forall p1 s0 h0 loc0 hs0 k, a_skip s0 = true -> a_out s0 = [] -> a_ln s0 = 0 -> a_rejected s0 = 0 -> a_hunks s0 = [] ->
     (do s' <- apply_one o p1 f 0 s0 h0 loc0; apply_rest o p1 f k s' hs0) = Ok s ->
     exists vs, replay f 0 (a_hunks s) vs = Some (a_out s ++ skipn (a_ln s) f) /\ a_rejected s = count_rejected vs /\
                length (a_hunks s) = S (length hs0)).
  { clear loc Hh Hlen Gen p1. intros p1 s0 h0 loc0 hs0 k Hs0 Ho0 Hl0 Hr0 Hh0 E.
    destruct (apply_one o p1 f 0 s0 h0 loc0) as [s1|e1] eqn:E1; cbn [rbind] in E; [|discriminate].
    apply (apply_one_cases _ _ _ _ _ _ _ _ Hd) in E1.
    destruct E1 as [(l & _ & Hk & _)|[_ R]]; [congruence|].
    destruct R as (Ro & Rln & Rrj & Rsk & Roff & h' & Rh & Rb).
    assert (Hs1 : a_skip s1 = true) by congruence.
    destruct (apply_rest_skipped o p1 f Hd _ _ _ _ Hs1 E) as (hs' & Ho & Hl & Hc & Hhs & Hb & Hk).
    exists (repeat VRejected (length (a_hunks s))). rewrite replay_all_rejected, count_rejected_repeat.
    rewrite Ho, Ro, Ho0, Hl, Rln, Hl0. cbn [app]. split; [reflexivity|].
    rewrite Hhs, Rh, Hh0. cbn [app length]. rewrite <- (map_length body hs'), Hb, map_length.
    split; [rewrite Hc, Rrj, Hr0; lia|reflexivity]. }
  assert (Wrap : (exists vs, replay f 0 (a_hunks s) vs = Some (a_out s ++ skipn (a_ln s) f) /\ a_rejected s = count_rejected vs /\
                length (a_hunks s) = S (length hs)) ->
     exists vs, replay f 0 (a_hunks s) vs = Some (a_out s ++ skipn (a_ln s) f) /\ a_rejected s = count_rejected vs /\
                length (a_hunks s) = length (hunks p)).
  { intros (vs & A & B & C). exists vs. rewrite C. rewrite <- Hlen. cbn. auto. }
  destruct (should_check_if_patch_is_reversed loc o).
  - match goal with |- rbind ?m _ = _ -> _ => destruct m as [d|e] eqn:Ed end; cbn [rbind]; [|discriminate].
    destruct (snd d); intros E; apply with_patch_ok in E; destruct E as [E _]; apply Wrap.
    + pose proof (fun a b c d e => Gen _ _ _ _ _ _ a b c d e E) as G.
      specialize (G eq_refl eq_refl eq_refl eq_refl eq_refl). rewrite map_length in G. apply G.
      destruct (locate_hunk f (reverse_hunk h) _ _ _ _); [right; eexists; reflexivity|left; reflexivity].
    + pose proof (fun a b c d e => Skip _ _ _ _ _ _ a b c d e E) as G.
      exact (G eq_refl eq_refl eq_refl eq_refl eq_refl).
    + pose proof (fun a b c d e => Gen _ _ _ _ _ _ a b c d e E) as G.
      apply (G eq_refl eq_refl eq_refl eq_refl eq_refl).
      destruct loc; [right; eexists; reflexivity|left; reflexivity].
  - intros E. apply with_patch_ok in E; destruct E as [E _]. apply Wrap.
    pose proof (fun a b c d e => Gen _ _ _ _ _ _ a b c d e E) as G.
    apply (G eq_refl eq_refl eq_refl eq_refl eq_refl).
    destruct loc; [right; eexists; reflexivity|left; reflexivity].
Qed.

Lemma replay_body_ext f : forall hs1 hs2 vs c, map body hs1 = map body hs2 -> replay f c hs1 vs = replay f c hs2 vs.
Proof.
  induction hs1 as [|h1 hs1 IH]; intros [|h2 hs2] vs c; cbn [map]; try discriminate; [reflexivity|].
  intros [= Hb Hr]. destruct vs as [|[pos fz|] vs]; cbn [replay]; [reflexivity| |].
  - rewrite Hb, (IH hs2 vs _ Hr). reflexivity.
  - apply IH. exact Hr.
Qed.

(* With -f (no reversed-patch guess) every verdict is exactly locate_hunk's answer for that hunk, asked
   with the cursor and the accumulated offset of that moment. *)
Theorem apply_patch_verdicts o f p r :
  define_macro o = [] -> force o = true -> apply_patch o f p = Ok r ->
  let hs := hunks (if reverse_patch_opt o then reverse_patch p else p) in
  exists vs, replay f 0 hs vs = Some (r_out r) /\ r_failed r = count_rejected vs /\
             r_skipped r = false /\ verdicts_from_locate o (if reverse_patch_opt o then reverse_patch p else p) f 0 0 hs vs.
Proof.
  intros Hd Hf. unfold apply_patch.
  set (p1 := if reverse_patch_opt o then reverse_patch p else p). cbv zeta.
  rewrite apply_first_force by exact Hf. fold init_state. unfold with_patch.
  destruct (apply_rest o p1 f 0 init_state (hunks p1)) as [s|e] eqn:E; cbn [rbind]; [|discriminate].
  intros [= <-]. cbn [r_out r_failed r_skipped fst snd].
  destruct (apply_rest_replay o p1 f Hd (hunks p1) 0 init_state s eq_refl E) as (vs & hs' & r0 & Hr & Ho & Hhs & Hb & Hc & Hk & Hv).
  exists vs. cbn in Ho, Hc, Hr, Hv. rewrite Ho. rewrite <- (replay_body_ext f hs' (hunks p1) vs 0 Hb).
  repeat split; auto.
Qed.

(* the admissibility of every applied verdict, and cursor monotonicity, read off the verdicts *)
Fixpoint verdicts_admissible (ws : bool) (F : Z) (f : list line) (cursor : nat) (hs : list hunk) (vs : list verdict) : Prop :=
  match hs, vs with
  | [], [] => True
  | h :: hs', VApplied pos fz :: vs' =>
      cursor <= pos /\ (Z.of_nat fz <= F \/ rcount (oldr h) = 0)%Z /\
      (rcount (oldr h) <> 0%Z -> Admissible ws f (body h) cursor pos fz) /\
      (rcount (oldr h) = 0%Z -> pos <= length f /\ fz = 0) /\
      verdicts_admissible ws F f (pos + length (old_side (body h))) hs' vs'
  | h :: hs', VRejected :: vs' => verdicts_admissible ws F f cursor hs' vs'
  | _, _ => False
  end.

Lemma verdicts_from_locate_admissible o p f : forall hs vs cursor offerr,
  verdicts_from_locate o p f cursor offerr hs vs ->
  verdicts_admissible (ignore_whitespace o) (max_fuzz o) f cursor hs vs.
Proof.
  induction hs as [|h hs IH]; intros [|[pos fz|] vs] cursor offerr; cbn; auto.
  - intros (l & El & <- & <- & Hv). apply locate_for_some in El. pose proof (locate_cursor_le _ _ _ _ _ _ _ El) as Hle.
    split; [exact Hle|]. destruct (Z.eq_dec (rcount (oldr h)) 0) as [Hc|Hc].
    + destruct (locate_insertion _ _ _ _ _ _ _ El Hc) as (H1 & H2 & _).
      split; [right; exact Hc|]. split; [congruence|]. split; [intros _; split; [lia|exact H2]|]. eapply IH; exact Hv.
    + destruct (locate_sound _ _ _ _ _ _ _ El Hc) as (H1 & H2 & _).
      split; [left; exact H2|]. split; [intros _; exact H1|]. split; [congruence|]. eapply IH; exact Hv.
  - intros [_ Hv]. eapply IH; exact Hv.
Qed.
