(* Proofs_Predict.v — C15, second half: what --dry-run reports is what the real run reports. *)
From PatchV Require Import Base Lines Hunk Locator Formatter Options Applier LineParser Parser World Driver
     Proofs_Base Proofs_Crash Proofs_Progress.

Definition set_dry (o : options) : options :=
  mkOptions (save_backup o) (interpret_as_context o) (patch_directory_path o) (define_macro o) (interpret_as_ed o) (patch_file_path o)
            (ignore_whitespace o) (interpret_as_normal o) (ignore_reversed o) (out_file_path o) (strip_size o) (max_fuzz o)
            (reverse_patch_opt o) (file_to_patch o) (reject_file_path o) (force o) (batch o) (show_help o) (show_version o)
            (interpret_as_unified o) (verbose o) true (posix o) (backup_if_mismatch o) (remove_empty_files o)
            (newline_output o) (reject_format_opt o) (read_only o) (quoting o) (backup_suffix o) (backup_prefix o).

(* the hunks are applied the same way *)
Lemma write_reject_dry o p k h : write_reject (set_dry o) p k h = write_reject o p k h. Proof. reflexivity. Qed.
Lemma apply_one_dry o p f k s h loc : apply_one (set_dry o) p f k s h loc = apply_one o p f k s h loc. Proof. reflexivity. Qed.
Lemma apply_rest_dry o p f : forall hs k s, apply_rest (set_dry o) p f k s hs = apply_rest o p f k s hs.
Proof.
  induction hs as [|h r IH]; intros k s; cbn [apply_rest]; [reflexivity|].
  change (locate_for p f h (ignore_whitespace (set_dry o)) (a_offerr s) (max_fuzz (set_dry o)) (a_ln s)) with
         (locate_for p f h (ignore_whitespace o) (a_offerr s) (max_fuzz o) (a_ln s)).
  rewrite apply_one_dry. destruct (apply_one o p f k s h _); cbn [rbind]; [apply IH|reflexivity].
Qed.
Lemma apply_first_dry o p f s hs : apply_first (set_dry o) p f s hs = apply_first o p f s hs.
Proof.
  destruct hs as [|h r]; [reflexivity|]. unfold apply_first.
  change (ignore_whitespace (set_dry o)) with (ignore_whitespace o). change (max_fuzz (set_dry o)) with (max_fuzz o).
  set (loc := locate_for p f h (ignore_whitespace o) (a_offerr s) (max_fuzz o) (a_ln s)).
  change (should_check_if_patch_is_reversed loc (set_dry o)) with (should_check_if_patch_is_reversed loc o).
  change (handle_probably_reversed_patch (set_dry o)) with (handle_probably_reversed_patch o).
  destruct (should_check_if_patch_is_reversed loc o).
  - match goal with |- rbind ?m _ = _ => destruct m as [d|e]; cbn [rbind]; [|reflexivity] end.
    destruct (snd d); unfold with_patch; rewrite apply_one_dry; (match goal with |- rbind (rbind ?m _) _ = _ => destruct m; cbn [rbind]; [rewrite apply_rest_dry; reflexivity|reflexivity] end).
  - unfold with_patch. rewrite apply_one_dry. destruct (apply_one o p f 0 s h loc); cbn [rbind]; [rewrite apply_rest_dry; reflexivity|reflexivity].
Qed.
Lemma apply_patch_dry o f p : apply_patch (set_dry o) f p = apply_patch o f p.
Proof. unfold apply_patch. change (reverse_patch_opt (set_dry o)) with (reverse_patch_opt o). rewrite apply_first_dry. reflexivity. Qed.

(* the part of the driver state the user sees: failure flag (exit status) and the per-hunk reports and summaries *)
Definition seen (st : dstate) : bool * list N := (had_failure st, events st).

(* what the tail reports, whichever way it is run *)
Definition tail_report (o : options) (st : dstate) (ar : aresult) : dstate :=
  let p3 := r_patch ar in
  let out_bytes := lines_bytes (newline_output o) (r_out ar) in
  let st1 := add_event st (r_msgs ar) in
  let st2 := if negb (Nat.eqb (r_failed ar) 0)
             then set_failure (add_event st1 (inform_hunks_failed (if r_skipped ar then bs "ignored" else bs "FAILED") (length (hunks p3)) (r_failed ar) ++ [10%N]))
             else st1 in
  if str_eqb (out_file_path o) (bs "-") then st2
  else
  let first_hunk_leaves_nothing :=
    match poper p3 with
    | OpChange => match hunks p3 with h :: _ => Z.eqb (rstart (newr h)) 0 && Z.eqb (rcount (newr h)) 0 | [] => false end
    | _ => false
    end in
  let is_delete := negb (r_skipped ar) && match remove_empty_files o with
                   | OBYes => match poper p3 with OpDelete => true | _ => first_hunk_leaves_nothing end
                   | _ => false
                   end in
  if is_delete && negb (is_nil out_bytes) && str_eqb (new_path p3) devnull then set_failure st2 else st2.

Lemma seen_backup o st p : Post (make_backup_for o st p) (fun st' => seen st' = seen st).
Proof.
  unfold make_backup_for. destruct (existsb _ _); [apply Post_ret; reflexivity|].
  eapply Post_bind; [apply Post_true|intros _ _]. unfold backup_core.
  eapply Post_bind; [apply Post_true|intros m _]. destruct (exists_ m p); (eapply Post_bind; [apply Post_true|intros _ _; apply Post_ret; reflexivity]).
Qed.

Lemma seen_write_now o st d : Post (write_now o st d) (fun st' => seen st' = seen st).
Proof.
  unfold write_now. eapply Post_bind with (Q := fun st1 => seen st1 = seen st).
  - destruct (d_backup d); [apply seen_backup|apply Post_ret; reflexivity].
  - intros st1 H. eapply Post_bind; [apply Post_true|intros m _]. eapply Post_bind; [apply Post_true|intros _ _].
    eapply Post_bind; [apply Post_true|intros _ _]. eapply Post_bind; [apply Post_true|intros _ _]. apply Post_ret. exact H.
Qed.

(* the real tail: whatever it writes, it reports [tail_report] *)
Lemma tail_real o st ftp outf op op1 needed ar s2 :
  Post (section_tail o st ftp outf op op1 needed ar s2) (fun y => seen (fst y) = seen (tail_report o st ar) /\ snd y = s2).
Proof.
  unfold section_tail, tail_report.
  set (st1 := add_event st (r_msgs ar)).
  set (stF := set_failure (add_event st1 (inform_hunks_failed (if r_skipped ar then bs "ignored" else bs "FAILED") (length (hunks (r_patch ar))) (r_failed ar) ++ [10%N]))).
  eapply Post_bind with (Q := fun st2 => st2 = if negb (Nat.eqb (r_failed ar) 0) then stF else st1).
  { destruct (negb (Nat.eqb (r_failed ar) 0)); [|apply Post_ret; reflexivity].
    destruct (dry_run o); [apply Post_ret; reflexivity|].
    eapply Post_bind; [apply Post_true|intros _ _]. eapply Post_bind; [apply Post_true|intros _ _]. apply Post_ret. reflexivity. }
  intros st2 ->. set (st2 := if negb (Nat.eqb (r_failed ar) 0) then stF else st1).
  destruct (str_eqb (out_file_path o) (bs "-")); [apply Post_stdout; split; reflexivity|].
  set (isd := negb (r_skipped ar) && match remove_empty_files o with OBYes => _ | _ => false end).
  eapply Post_bind with (Q := fun x => seen (fst x) = seen (if isd && negb (is_nil (lines_bytes (newline_output o) (r_out ar))) && str_eqb (new_path (r_patch ar)) devnull then set_failure st2 else st2)).
  { destruct isd; cbn [andb].
    - destruct (is_nil (lines_bytes (newline_output o) (r_out ar))); cbn [negb andb].
      + destruct (dry_run o); [apply Post_ret; reflexivity|].
        eapply Post_bind with (Q := fun st3 => seen st3 = seen st2).
        * destruct (_ || _); [apply seen_backup|apply Post_ret; reflexivity].
        * intros st3 H3. eapply Post_bind; [apply Post_true|intros m2 _]. eapply Post_bind; [apply Post_true|intros _ _]. apply Post_ret. exact H3.
      + apply Post_ret. cbn [fst]. destruct (str_eqb (new_path (r_patch ar)) devnull); reflexivity.
    - apply Post_ret. reflexivity. }
  intros [st4 wtf] H4. cbn [fst] in H4.
  eapply Post_bind with (Q := fun st5 => seen st5 = seen st4).
  { destruct wtf; [|apply Post_ret; reflexivity].
    eapply Post_bind; [apply Post_true|intros _ _].
    match goal with |- Post (if ?c then _ else _) _ => destruct c end.
    - destruct (is_symlink_mode (new_mode (r_patch ar))).
      + eapply Post_bind with (Q := fun st' => seen st' = seen st4).
        * destruct (_ || _); [apply seen_backup|apply Post_ret; reflexivity].
        * intros st' H'. eapply Post_bind; [apply Post_true|intros _ _]. apply Post_ret. exact H'.
      + apply Post_ret. reflexivity.
    - apply seen_write_now. }
  intros st5 H5.
  eapply Post_bind with (Q := fun st6 => seen st6 = seen st5).
  { match goal with |- Post (if ?c then _ else _) _ => destruct c end; [|apply Post_ret; reflexivity].
    destruct (existsb _ _); [apply Post_ret; reflexivity|]. eapply Post_bind; [apply Post_true|intros _ _]. apply Post_ret. reflexivity. }
  intros st6 H6. apply Post_ret. cbn [fst snd]. split; [congruence|reflexivity].
Qed.

(* the dry tail performs no operation and reports the same *)
Lemma tail_dry o st ftp outf op op1 needed ar s2 w :
  exists st_d w', section_tail (set_dry o) st ftp outf op op1 needed ar s2 w = (Ok (st_d, s2), w') /\ seen st_d = seen (tail_report o st ar).
Proof.
  unfold section_tail, tail_report.
  change (dry_run (set_dry o)) with true. change (newline_output (set_dry o)) with (newline_output o).
  change (out_file_path (set_dry o)) with (out_file_path o). change (remove_empty_files (set_dry o)) with (remove_empty_files o).
  change (save_backup (set_dry o)) with (save_backup o). change (backup_if_mismatch (set_dry o)) with (backup_if_mismatch o).
  cbn [negb andb].
  set (st1 := add_event st (r_msgs ar)).
  set (stF := set_failure (add_event st1 (inform_hunks_failed (if r_skipped ar then bs "ignored" else bs "FAILED") (length (hunks (r_patch ar))) (r_failed ar) ++ [10%N]))).
  rewrite mbind_eq.
  assert (S2 : (if negb (Nat.eqb (r_failed ar) 0) then mret stF else mret st1) w = (Ok (if negb (Nat.eqb (r_failed ar) 0) then stF else st1), w))
    by (destruct (negb (Nat.eqb (r_failed ar) 0)); reflexivity).
  rewrite S2. set (st2 := if negb (Nat.eqb (r_failed ar) 0) then stF else st1).
  destruct (str_eqb (out_file_path o) (bs "-")); [eexists; eexists; split; reflexivity|].
  set (isd := negb (r_skipped ar) && match remove_empty_files o with OBYes => _ | _ => false end).
  rewrite mbind_eq.
  destruct isd; cbn [andb].
  - destruct (is_nil (lines_bytes (newline_output o) (r_out ar))); cbn [negb andb mret].
    + rewrite mbind_eq. cbn [mret]. rewrite andb_false_r. cbn [andb]. rewrite mbind_eq. cbn [mret]. eexists; eexists; split; reflexivity.
    + rewrite mbind_eq. cbn [mret]. rewrite andb_false_r. cbn [andb]. rewrite mbind_eq. cbn [mret]. eexists; eexists; split; [reflexivity|].
      destruct (str_eqb (new_path (r_patch ar)) devnull); reflexivity.
  - cbn [mret]. rewrite mbind_eq. cbn [mret]. rewrite andb_false_r. cbn [andb]. rewrite mbind_eq. cbn [mret]. eexists; eexists; split; reflexivity.
Qed.

Lemma refuse_real o st outf p' : Post (refuse_to_patch o st outf p')
  (fun st' => st' = set_failure (add_event st (inform_hunks_failed (bs "ignored") (length (hunks p')) (length (hunks p')) ++ [10%N]))).
Proof.
  unfold refuse_to_patch. destruct (dry_run o); [apply Post_ret; reflexivity|].
  eapply Post_bind; [apply Post_true|intros t _]. eapply Post_bind; [apply Post_true|intros _ _]. apply Post_ret. reflexivity.
Qed.

Lemma refuse_dry o st outf p' w :
  refuse_to_patch (set_dry o) st outf p' w =
  (Ok (set_failure (add_event st (inform_hunks_failed (bs "ignored") (length (hunks p')) (length (hunks p')) ++ [10%N]))), w).
Proof. reflexivity. Qed.

(* --dry-run predicts the real run, section by section: when the real run of a section ends normally, the dry run of the same
   section from the same state ends normally too, has consumed the same part of the patch, and reports the same: the same
   failure flag (hence the same contribution to the exit status) and the same per-hunk lines and summaries. *)
Theorem dry_run_predicts o st should p s w st_r s_r w_r :
  process_section o st should p s w = (Ok (st_r, s_r), w_r) ->
  exists st_d w_d, process_section (set_dry o) st should p s w = (Ok (st_d, s_r), w_d) /\ seen st_d = seen st_r.
Proof.
  intros H. unfold process_section in *.
  change (file_to_patch (set_dry o)) with (file_to_patch o). change (read_only (set_dry o)) with (read_only o).
  change (batch (set_dry o)) with (batch o). change (force (set_dry o)) with (force o).
  change (output_path (set_dry o)) with (output_path o).
  change (guess_filepath ?m ?l p (set_dry o)) with (guess_filepath m l p o).
  change (is_adding_file p (set_dry o)) with (is_adding_file p o).
  rewrite mbind_eq in H. rewrite mbind_eq. cbn [get_fs] in *.
  set (ftp := if is_nil (file_to_patch o) then guess_filepath (fs w) (map d_dest (deferred_writes st)) p o else file_to_patch o) in *.
  destruct (is_nil ftp); [discriminate|].
  set (outf := output_path o p ftp) in *.
  assert (Refuse : forall (K : bool),
    (let! ps := body_if should p s in let! st' := refuse_to_patch o st outf (fst ps) in mret (st', snd ps)) w = (Ok (st_r, s_r), w_r) ->
    exists st_d w_d, (let! ps := body_if should p s in let! st' := refuse_to_patch (set_dry o) st outf (fst ps) in mret (st', snd ps)) w = (Ok (st_d, s_r), w_d) /\ seen st_d = seen st_r).
  { intros _ HR. rewrite mbind_eq in HR. rewrite mbind_eq.
    destruct (body_if should p s w) as [[ps|e] w1]; [|discriminate].
    rewrite mbind_eq in HR. rewrite mbind_eq. rewrite refuse_dry.
    destruct (refuse_to_patch o st outf (fst ps) w1) as [[st'|e] w2] eqn:RR; [|discriminate].
    pose proof (refuse_real o st outf (fst ps) _ _ _ RR) as E. cbn [mret] in HR. inversion HR as [[E1 E2 E3]].
    cbn [mret]. eexists. eexists. split; [reflexivity|]. rewrite <- E1, E. reflexivity. }
  destruct (exists_ (fs w) ftp && negb (is_regular_file (fs w) ftp)); [apply (Refuse true); exact H|].
  destruct (N.eqb (N.land (effective_perms st (fs w) outf) write_mask) 0 && match read_only o with ROFail => true | _ => false end);
    [apply (Refuse true); exact H|].
  clear Refuse.
  rewrite mbind_eq in H. rewrite mbind_eq.
  match type of H with (match ?X with _ => _ end) = _ => destruct X as [[input_lines|e] w1]; [|discriminate] end.
  rewrite mbind_eq in H. rewrite mbind_eq.
  match type of H with (match ?X with _ => _ end) = _ => destruct X as [[[]|e] w2]; [|discriminate] end.
  rewrite mbind_eq in H. rewrite mbind_eq.
  match type of H with (match ?X with _ => _ end) = _ => destruct X as [[[p2 s2]|e] w3]; [|discriminate] end.
  rewrite mbind_eq in H. rewrite mbind_eq. rewrite apply_patch_dry.
  destruct (mlift (apply_patch o input_lines p2) w3) as [[ar|e] w4]; [|discriminate].
  destruct (tail_real o st ftp outf _ _ _ ar s2 _ _ _ H) as [Hs Hs2]. cbn [fst snd] in Hs, Hs2. subst s_r.
  destruct (tail_dry o st ftp outf (effective_perms st (fs w) outf)
              (if N.eqb (effective_perms st (fs w) outf) perms_unknown && match poper p with OpRename | OpCopy => true | _ => false end
               then get_permissions (fs w) ftp else effective_perms st (fs w) outf)
              (N.eqb (N.land (effective_perms st (fs w) outf) write_mask) 0) ar s2 w4) as (st_d & w' & E & Hd).
  exists st_d, w'. split; [exact E|congruence].
Qed.

(* ---------- C04: the failure flag tells the truth ---------- *)
(* a patch that deletes its file (or leaves nothing of it) but whose result is not empty, with /dev/null as new name *)
Definition leftover (o : options) (ar : aresult) : bool :=
  let p3 := r_patch ar in
  negb (str_eqb (out_file_path o) (bs "-")) &&
  (negb (r_skipped ar) && match remove_empty_files o with
                          | OBYes => match poper p3 with
                                     | OpDelete => true
                                     | OpChange => match hunks p3 with h :: _ => Z.eqb (rstart (newr h)) 0 && Z.eqb (rcount (newr h)) 0 | [] => false end
                                     | _ => false
                                     end
                          | _ => false
                          end) &&
  negb (is_nil (lines_bytes (newline_output o) (r_out ar))) && str_eqb (new_path p3) devnull.

Lemma tail_report_flag o st ar :
  had_failure (tail_report o st ar) = had_failure st || negb (Nat.eqb (r_failed ar) 0) || leftover o ar.
Proof.
  unfold tail_report, leftover.
  destruct (negb (Nat.eqb (r_failed ar) 0)); destruct (str_eqb (out_file_path o) (bs "-")); cbn [negb andb orb had_failure set_failure add_event];
    rewrite ?orb_true_r, ?orb_false_r; try reflexivity.
  - match goal with |- had_failure (if ?c then _ else _) = _ => destruct c end; reflexivity.
  - destruct (poper (r_patch ar)) eqn:Ep; cbn [andb];
      match goal with |- had_failure (if ?c then _ else _) = _ || ?d => replace d with c; [destruct c; cbn; rewrite ?orb_true_r, ?orb_false_r; reflexivity|] end;
      try reflexivity; destruct (remove_empty_files o); reflexivity.
Qed.

(* After the hunks of a section have been applied (result ar), the failure flag — which becomes exit status 1 — is set
   exactly when it was set before, or some hunk was rejected / the patch was skipped (r_failed counts the rejects, see
   apply_patch_replay), or a deletion left content behind. *)
Theorem section_failure_flag o st ftp outf op op1 needed ar s2 :
  Post (section_tail o st ftp outf op op1 needed ar s2)
       (fun y => had_failure (fst y) = had_failure st || negb (Nat.eqb (r_failed ar) 0) || leftover o ar).
Proof.
  intros w y w' H. destruct (tail_real o st ftp outf op op1 needed ar s2 w y w' H) as [Hs _].
  unfold seen in Hs. inversion Hs as [[Hf He]]. rewrite Hf. apply tail_report_flag.
Qed.
