(* Proofs_FaultsRun.v — C10, second half: an injected failure that was not reached is invisible (the run is the fault-free
   run, except for the countdown), and a run that does not end with status 2 reached none. *)
From PatchV Require Import Base Lines Hunk Locator Formatter Options Applier LineParser Parser World Driver Proofs_Base Proofs_Faults.
From Coq Require Import Lia.

Definition same_but_fault (w1 w2 : world) : Prop :=
  fs w1 = fs w2 /\ umask w1 = umask w2 /\ trace w1 = trace w2 /\ stdout_data w1 = stdout_data w2.

Definition clear_fault (w : world) : world := mkWorld (fs w) (umask w) (trace w) None (stdout_data w).

Lemma same_refl w : same_but_fault w w.
Proof. unfold same_but_fault. auto. Qed.
Lemma same_clear w : same_but_fault w (clear_fault w).
Proof. unfold same_but_fault, clear_fault. cbn. auto. Qed.
Lemma same_clear_eq w1 w2 : same_but_fault w1 w2 -> fault w2 = None -> clear_fault w1 = w2.
Proof.
  intros (H1 & H2 & H3 & H4) H5. destruct w1, w2. unfold clear_fault. cbn in *. subst. reflexivity.
Qed.
Lemma clear_none w : fault w = None -> clear_fault w = w.
Proof. intros H. destruct w. unfold clear_fault. cbn in *. subst. reflexivity. Qed.

(* INV m: (a) without a pending failure none appears; (b) when a failure is still pending after m, m did on the world with
   the pending failure exactly what it does on the same world without one; (c) the countdown counts the operations *)
Definition INV {A} (m : M A) : Prop :=
  forall w1,
    (fault w1 = None -> fault (snd (m w1)) = None) /\
    (forall w2, same_but_fault w1 w2 -> fault w2 = None -> fault (snd (m w1)) <> None ->
                fst (m w1) = fst (m w2) /\ same_but_fault (snd (m w1)) (snd (m w2))) /\
    (forall k k', fault w1 = Some k -> fault (snd (m w1)) = Some k' ->
                  k' + length (trace (snd (m w1))) = k + length (trace w1)).

Lemma INV_pure {A} (r : res A) : INV (fun w => (r, w)).
Proof.
  intros w. cbn [fst snd]. split; [auto|split].
  - intros w2 S12 _ _. split; [reflexivity|exact S12].
  - intros k k' K K'. rewrite K in K'. inversion K'. reflexivity.
Qed.
Lemma INV_ret {A} (a : A) : INV (mret a).
Proof. exact (INV_pure (Ok a)). Qed.
Lemma INV_throw {A} e : INV (@mthrow A e).
Proof. exact (INV_pure (Throw e)). Qed.
Lemma INV_lift {A} (r : res A) : INV (mlift r).
Proof. exact (INV_pure r). Qed.
Lemma INV_getfs : INV get_fs.
Proof.
  intros w. cbn. split; [auto|split].
  - intros w2 (H1 & H2 & H3 & H4) _ _. split; [rewrite H1; reflexivity|unfold same_but_fault; auto].
  - intros k k' K K'. rewrite K in K'. inversion K'. reflexivity.
Qed.
Lemma INV_stdout {A} (a : A) data : INV (fun w => (Ok a, mkWorld (fs w) (umask w) (trace w) (fault w) (stdout_data w ++ data))).
Proof.
  intros w. cbn. split; [auto|split].
  - intros w2 (H1 & H2 & H3 & H4) _ _. split; [reflexivity|]. unfold same_but_fault. cbn. rewrite H4. auto.
  - intros k k' H1 H2. rewrite H1 in H2. inversion H2. reflexivity.
Qed.

Lemma INV_perform op : INV (perform op).
Proof.
  intros w1. unfold perform. split; [|split].
  - intros H. rewrite H. destruct (exec_op (fs w1) (umask w1) op); reflexivity.
  - intros w2 (H1 & H2 & H3 & H4) H5. rewrite H5, <- H1, <- H2, <- H3, <- H4.
    destruct (fault w1) as [[|k]|]; cbn [fst snd fault].
    + intros H; contradiction.
    + intros _. destruct (exec_op (fs w1) (umask w1) op); cbn [fst snd]; unfold same_but_fault; cbn; auto.
    + destruct (exec_op (fs w1) (umask w1) op); cbn [fst snd fault]; intros H; contradiction.
  - intros k k' H. rewrite H. destruct k as [|k]; cbn [fst snd fault].
    + discriminate.
    + destruct (exec_op (fs w1) (umask w1) op); cbn [fst snd fault trace]; intros H2; inversion H2; subst;
        rewrite app_length; cbn [length]; lia.
Qed.

Lemma INV_bind {A B} (m : M A) (f : A -> M B) : INV m -> (forall a, INV (f a)) -> INV (mbind m f).
Proof.
  intros Hm Hf w1. unfold mbind. destruct (Hm w1) as (M1 & M2 & M3).
  destruct (m w1) as [[a|e] w1'] eqn:E1; cbn [fst snd] in *.
  - destruct (Hf a w1') as (F1 & F2 & F3). split; [|split].
    + intros H. apply F1. apply M1. exact H.
    + intros w2 S12 N2 NN.
      assert (NN1 : fault w1' <> None).
      { intros H. apply NN. apply F1. exact H. }
      destruct (M2 w2 S12 N2 NN1) as [R S']. destruct (Hm w2) as (M1' & _ & _). specialize (M1' N2).
      destruct (m w2) as [r2 w2'] eqn:E2. cbn [fst snd] in *. subst r2.
      apply F2; assumption.
    + intros k k' K K'. destruct (fault w1') as [k1|] eqn:E.
      * specialize (M3 k k1 K eq_refl). specialize (F3 k1 k' eq_refl K'). lia.
      * rewrite (F1 eq_refl) in K'. discriminate.
  - split; [exact M1|split].
    + intros w2 S12 N2 NN. destruct (M2 w2 S12 N2 NN) as [R S'].
      destruct (m w2) as [r2 w2'] eqn:E2. cbn [fst snd] in *. subst r2. auto.
    + exact M3.
Qed.

Lemma INV_checked op : INV (checked op).
Proof.
  unfold checked. apply INV_bind; [apply INV_perform|]. intros [e|]; [apply INV_throw|apply INV_ret].
Qed.

Ltac inv :=
  repeat first
    [ apply INV_ret | apply INV_throw | apply INV_lift | apply INV_getfs | apply INV_stdout | apply INV_checked | apply INV_perform
    | assumption
    | match goal with H : context [INV _] |- INV _ => apply H end
    | match goal with
      | |- INV (mbind _ _) => apply INV_bind; [|intros ?]
      | |- INV (if ?c then _ else _) => destruct c
      | |- INV (match ?x with _ => _ end) => destruct x
      | |- INV (let '(_, _) := ?x in _) => destruct x
      end ].

Lemma INV_rmdir_parents : forall fuel p, INV (rmdir_parents fuel p).
Proof. induction fuel as [|f IH]; intros p; cbn [rmdir_parents]; inv. Qed.

Lemma INV_remove p : INV (remove_file_and_empty_parent_folders p).
Proof. unfold remove_file_and_empty_parent_folders. pose proof INV_rmdir_parents. inv. Qed.

Lemma INV_mkdirs : forall ds, INV (mkdirs ds).
Proof. induction ds as [|d r IH]; cbn [mkdirs]; inv. Qed.

Lemma INV_ensure p : INV (ensure_parent_directories p).
Proof. unfold ensure_parent_directories. pose proof INV_mkdirs. inv. Qed.

Lemma INV_backup o st p : INV (make_backup_for o st p).
Proof. unfold make_backup_for, backup_core. pose proof INV_ensure. inv. Qed.

Lemma INV_write_now o st d : INV (write_now o st d).
Proof. unfold write_now. pose proof INV_backup. inv. Qed.

Lemma INV_finalize_writes_from o all : forall ds st, INV (finalize_writes_from o all st ds).
Proof. induction ds as [|d r IH]; intros st; cbn [finalize_writes_from]; pose proof INV_write_now; pose proof INV_ensure; inv. Qed.
Lemma INV_finalize_writes o ds st : INV (finalize_writes o st ds).
Proof. apply INV_finalize_writes_from. Qed.

Lemma INV_finalize_removals ws : forall rs, INV (finalize_removals ws rs).
Proof. induction rs as [|p r IH]; cbn [finalize_removals]; pose proof INV_remove; inv. Qed.

Lemma INV_refuse o st out p : INV (refuse_to_patch o st out p).
Proof. unfold refuse_to_patch. inv. Qed.

Lemma INV_body_if should p s : INV (body_if should p s).
Proof. unfold body_if. inv. Qed.

Lemma INV_process_section o st should p s : INV (process_section o st should p s).
Proof.
  unfold process_section, section_tail.
  pose proof INV_refuse. pose proof INV_body_if. pose proof INV_ensure. pose proof INV_backup. pose proof INV_write_now. pose proof INV_remove.
  inv.
Qed.

Lemma INV_section_loop o f : forall fuel st s first, INV (section_loop fuel o f st s first).
Proof. induction fuel as [|k IH]; intros st s first; cbn [section_loop]; pose proof INV_process_section; inv. Qed.

Lemma INV_process_patch o bytes : INV (process_patch o bytes).
Proof. unfold process_patch. pose proof INV_section_loop. pose proof INV_finalize_writes. pose proof INV_finalize_removals. inv. Qed.

Lemma INV_patch_file_bytes o stdin : INV (patch_file_bytes o stdin).
Proof. unfold patch_file_bytes. inv. Qed.

Lemma INV_run o stdin : INV (let! b := patch_file_bytes o stdin in process_patch o b).
Proof. apply INV_bind; [apply INV_patch_file_bytes|intros b; apply INV_process_patch]. Qed.

(* ---- the run ---- *)
Definition same_result (r1 r2 : run_result) : Prop :=
  rr_exit r1 = rr_exit r2 /\ rr_events r1 = rr_events r2 /\ same_but_fault (rr_world r1) (rr_world r2).

Lemma run_patch_unfold o stdin w :
  run_patch o stdin w =
  match (let! b := patch_file_bytes o stdin in process_patch o b) w with
  | (Ok (code, ev), w') => mkRR code ev w'
  | (Throw _, w') => mkRR 2 [] w'
  end.
Proof. reflexivity. Qed.

Lemma run_world o stdin w : rr_world (run_patch o stdin w) = snd ((let! b := patch_file_bytes o stdin in process_patch o b) w).
Proof.
  rewrite run_patch_unfold.
  destruct ((let! b := patch_file_bytes o stdin in process_patch o b) w) as [[[code ev]|e] w']; reflexivity.
Qed.

(* (1) general form: two starting worlds that differ only in the pending failure *)
Theorem unreached_fault_is_invisible_gen o stdin w1 w2 :
  same_but_fault w1 w2 -> fault w2 = None ->
  fault (rr_world (run_patch o stdin w1)) <> None ->
  same_result (run_patch o stdin w1) (run_patch o stdin w2).
Proof.
  intros S12 N2 NN. rewrite run_world in NN.
  destruct (INV_run o stdin w1) as (_ & I2 & _). destruct (I2 w2 S12 N2 NN) as [R S'].
  rewrite !run_patch_unfold.
  destruct ((let! b := patch_file_bytes o stdin in process_patch o b) w1) as [r1 w1'].
  destruct ((let! b := patch_file_bytes o stdin in process_patch o b) w2) as [r2 w2'].
  cbn [fst snd] in *. subst r2. unfold same_result.
  destruct r1 as [[code ev]|e]; cbn [rr_exit rr_events rr_world]; auto.
Qed.

(* (1) as asked: fault w = Some k, and still Some k' at the end: k' = k - number of operations performed, and the run is
   the run started without the failure, except for the fault field *)
Theorem unreached_fault_is_invisible o stdin w k k' :
  fault w = Some k -> fault (rr_world (run_patch o stdin w)) = Some k' ->
  rr_exit (run_patch o stdin w) = rr_exit (run_patch o stdin (clear_fault w)) /\
  rr_events (run_patch o stdin w) = rr_events (run_patch o stdin (clear_fault w)) /\
  clear_fault (rr_world (run_patch o stdin w)) = rr_world (run_patch o stdin (clear_fault w)) /\
  k' + length (trace (rr_world (run_patch o stdin w))) = k + length (trace w).
Proof.
  intros K K'.
  assert (NN : fault (rr_world (run_patch o stdin w)) <> None) by (rewrite K'; discriminate).
  destruct (unreached_fault_is_invisible_gen o stdin w (clear_fault w) (same_clear w) eq_refl NN) as (E1 & E2 & E3).
  split; [exact E1|split; [exact E2|split]].
  - apply same_clear_eq; [exact E3|]. apply no_fault_no_fault. reflexivity.
  - rewrite run_world in K' |- *. destruct (INV_run o stdin w) as (_ & _ & I3). exact (I3 k k' K K').
Qed.

(* the countdown alone: the number of operations performed by a run whose failure was not reached *)
Theorem unreached_fault_counts o stdin w k k' :
  fault w = Some k -> fault (rr_world (run_patch o stdin w)) = Some k' ->
  k' + length (trace (rr_world (run_patch o stdin w))) = k + length (trace w).
Proof. intros K K'. apply (unreached_fault_is_invisible o stdin w k k' K K'). Qed.

(* (2) a run that does not end with status 2 did not reach the injected failure ... *)
Theorem success_means_no_failure_hit o stdin w :
  rr_exit (run_patch o stdin w) <> 2 ->
  (fault w = None -> fault (rr_world (run_patch o stdin w)) = None) /\
  (forall k, fault w = Some k ->
     exists k', fault (rr_world (run_patch o stdin w)) = Some k' /\
                k' + length (trace (rr_world (run_patch o stdin w))) = k + length (trace w)).
Proof.
  intros X. split; [apply no_fault_no_fault|].
  intros k K. destruct (fault (rr_world (run_patch o stdin w))) as [k'|] eqn:E.
  - exists k'. split; [reflexivity|]. exact (unreached_fault_counts o stdin w k k' K E).
  - exfalso. apply X. apply fault_is_fatal; [rewrite K; discriminate|exact E].
Qed.

(* ... and hence what it reports and leaves behind is what the fault-free run reports and leaves behind:
   exit 0 or 1 never comes with content that differs from the fault-free run's *)
Theorem success_is_the_fault_free_run o stdin w :
  rr_exit (run_patch o stdin w) <> 2 ->
  rr_exit (run_patch o stdin w) = rr_exit (run_patch o stdin (clear_fault w)) /\
  rr_events (run_patch o stdin w) = rr_events (run_patch o stdin (clear_fault w)) /\
  clear_fault (rr_world (run_patch o stdin w)) = rr_world (run_patch o stdin (clear_fault w)).
Proof.
  intros X. destruct (fault w) as [k|] eqn:K.
  - destruct (success_means_no_failure_hit o stdin w X) as [_ H]. destruct (H k K) as (k' & K' & _).
    destruct (unreached_fault_is_invisible o stdin w k k' K K') as (E1 & E2 & E3 & _). auto.
  - rewrite (clear_none w K). split; [reflexivity|split; [reflexivity|]].
    apply clear_none. apply no_fault_no_fault. exact K.
Qed.

(* in terms of the tree only *)
Corollary success_tree_is_fault_free_tree o stdin w :
  rr_exit (run_patch o stdin w) <> 2 ->
  fs (rr_world (run_patch o stdin w)) = fs (rr_world (run_patch o stdin (clear_fault w))) /\
  trace (rr_world (run_patch o stdin w)) = trace (rr_world (run_patch o stdin (clear_fault w))) /\
  stdout_data (rr_world (run_patch o stdin w)) = stdout_data (rr_world (run_patch o stdin (clear_fault w))).
Proof.
  intros X. destruct (success_is_the_fault_free_run o stdin w X) as (_ & _ & E). rewrite <- E. cbn. auto.
Qed.
