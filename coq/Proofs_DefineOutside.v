(* Proofs_DefineOutside.v — C20, the clause "lines common to both versions appear outside any conditional":
   every line the -D output carries outside all conditionals is, in order, a line of BOTH versions. *)
From PatchV Require Import Base Lines Hunk Locator Formatter Options Applier World Driver
     Spec_Apply Spec_Define Proofs_Conf Proofs_Define Proofs_Reverse Proofs_DefineRun.

(* order-preserving sub-sequence *)
Inductive subseq {A : Type} : list A -> list A -> Prop :=
| ss_nil : subseq [] []
| ss_skip : forall x l1 l2, subseq l1 l2 -> subseq l1 (x :: l2)
| ss_take : forall x l1 l2, subseq l1 l2 -> subseq (x :: l1) (x :: l2).

(* the text lines of ls that stand at nesting depth 0, tracked by a counter only (no truth values, no symbol state) *)
Fixpoint outside (sym : list N) (depth : nat) (ls : list line) : list line :=
  match ls with
  | [] => []
  | l :: r =>
      match classify sym l with
      | KIfdef | KIfndef => outside sym (S depth) r
      | KElse => outside sym depth r
      | KEndif => outside sym (pred depth) r
      | KText => if Nat.eqb depth 0 then l :: outside sym depth r else outside sym depth r
      end
  end.

Lemma cpp_run_outside sym d : forall ls stack o s,
  cpp_run sym d stack ls = Some (o, s) -> subseq (outside sym (length stack) ls) o.
Proof.
  induction ls as [|l r IH]; intros stack o s H; cbn [cpp_run outside] in *.
  - inversion H; subst. constructor.
  - destruct (classify sym l).
    + apply (IH (d :: stack)) in H. exact H.
    + apply (IH (negb d :: stack)) in H. exact H.
    + destruct stack as [|b st]; [discriminate|]. apply (IH (negb b :: st)) in H. exact H.
    + destruct stack as [|b st]; [discriminate|]. apply IH in H. exact H.
    + destruct (cpp_run sym d stack r) as [[o' s']|] eqn:E; [|discriminate].
      inversion H; subst; clear H. apply IH in E.
      destruct stack as [|b st].
      * cbn [length Nat.eqb all_active forallb]. apply ss_take. exact E.
      * cbn [length Nat.eqb]. destruct (all_active (b :: st)); [apply ss_skip|]; exact E.
Qed.

Lemma cpp_eval_outside sym d ls o :
  cpp_eval sym d ls = Some o -> subseq (outside sym 0 ls) o.
Proof.
  unfold cpp_eval. intros H.
  destruct (cpp_run sym d [] ls) as [[o' [|b s]]|] eqn:E; try discriminate.
  inversion H; subst. apply (cpp_run_outside sym d ls [] o [] E).
Qed.

(* a sub-sequence is never longer, and all its members are members *)
Lemma subseq_length {A} (l1 l2 : list A) : subseq l1 l2 -> length l1 <= length l2.
Proof. induction 1; cbn [length]; lia. Qed.

Lemma subseq_In {A} (l1 l2 : list A) x : subseq l1 l2 -> In x l1 -> In x l2.
Proof.
  induction 1 as [|y l1 l2 _ IH|y l1 l2 _ IH]; intros Hin.
  - exact Hin.
  - right. apply IH. exact Hin.
  - destruct Hin as [->|Hin]; [left; reflexivity|right; apply IH; exact Hin].
Qed.

(* Any run under -D that answers: what stands outside every conditional is, in order, part of the new content
   (the output of the same run without -D) and part of the original file. *)
Lemma outside_lines_common : forall o f p r,
  define_macro o <> [] ->
  Forall (line_ok (define_macro o)) f ->
  Forall (fun h => body_ok (define_macro o) (body h)) (hunks p) ->
  apply_patch o f p = Ok r ->
  exists r', apply_patch (no_define o) f p = Ok r' /\
             subseq (outside (define_macro o) 0 (r_out r)) (r_out r') /\
             subseq (outside (define_macro o) 0 (r_out r)) f.
Proof.
  intros o f p r Hd Hf Hb Ha.
  destruct (Proofs_Define.define_eval o f p r Hd Hf Hb Ha) as (r' & Hr' & Ht & Hfalse & _).
  exists r'. split; [exact Hr'|]. split.
  - apply (cpp_eval_outside _ true). exact Ht.
  - apply (cpp_eval_outside _ false). exact Hfalse.
Qed.

(* On a conforming patch A -> B: the lines outside every conditional form a common sub-sequence of A and B. *)
Lemma outside_lines_common_conforming : forall o p A B,
  define_macro o <> [] -> verbose o = false -> (0 <= max_fuzz o)%Z ->
  Conforming A B (hunks (effective o p)) -> (Z.of_nat (length A) < MAXZ)%Z ->
  creation_guard (effective o p) A ->
  Forall (line_ok (define_macro o)) A ->
  Forall (fun h => body_ok (define_macro o) (body h)) (hunks p) ->
  exists r, apply_patch o A p = Ok r /\
            subseq (outside (define_macro o) 0 (r_out r)) A /\
            subseq (outside (define_macro o) 0 (r_out r)) B.
Proof.
  intros o p A B H1 H2 H3 H4 H5 H6 H7 H8.
  destruct (Proofs_DefineRun.apply_conforming_define o p A B H1 H2 H3 H4 H5 H6 H7 H8) as (r & Hr & Ht & Hf & _).
  exists r. split; [exact Hr|]. split.
  - apply (cpp_eval_outside _ false). exact Hf.
  - apply (cpp_eval_outside _ true). exact Ht.
Qed.
