(* Proofs_NormalConf.v — C01 for the normal format, end to end at hunk level: the normal diff of A to B (an edit script
   split into change groups without context, written by Spec_Normal.emit_normal), read by the parser and applied to A,
   gives exactly B; applied with -R to B it gives A. *)
From PatchV Require Import Base Lines Hunk Locator Formatter Options Applier LineParser Parser Spec_Locate Spec_Apply
     Proofs_Base Proofs_Apply Proofs_Conf Proofs_Unified Spec_Normal Proofs_Normal.

(* the reader gives back the emitted hunks, so whatever tiling property they had is kept *)
Theorem normal_roundtrip_conforming A B hs tail :
  hs <> [] -> Forall wf_hunk_n hs -> tail_ok_n tail -> Conforming A B hs ->
  exists hs', parse_normal_patch (strm (emit_normal hs ++ tail)) = Ok (hs', after_n tail) /\ Conforming A B hs'.
Proof. intros H1 H2 H3 HC. exists hs. split; [apply normal_roundtrip; assumption|exact HC]. Qed.

(* ---------- an edit script and its change groups ---------- *)
(* one step of an edit script: lines kept, then lines deleted and lines inserted in their place *)
Record seg := mkSeg { keep : list line; del : list line; ins : list line }.
Definition seg_ok (s : seg) : Prop := del s <> [] \/ ins s <> [].

Fixpoint script_old (sc : list seg) (fin : list line) : list line :=
  match sc with [] => fin | s :: r => keep s ++ del s ++ script_old r fin end.
Fixpoint script_new (sc : list seg) (fin : list line) : list line :=
  match sc with [] => fin | s :: r => keep s ++ ins s ++ script_new r fin end.

(* the line number diff states for a side: its first line, or the line before when the side is empty *)
Definition stated (before : nat) (ls : list line) : Z :=
  if is_nil ls then Z.of_nat before else (Z.of_nat before + 1)%Z.

(* a, b = number of lines of the old and the new file before this point *)
Fixpoint script_hunks (a b : nat) (sc : list seg) : list hunk :=
  match sc with
  | [] => []
  | s :: r =>
      let a' := a + length (keep s) in
      let b' := b + length (keep s) in
      mk_change (stated a' (del s)) (stated b' (ins s)) (del s) (ins s)
      :: script_hunks (a' + length (del s)) (b' + length (ins s)) r
  end.

Lemma stated_conf before ls :
  stated before ls = (if Z.eqb (Z.of_nat (length ls)) 0 then Z.of_nat before else Z.of_nat before + 1)%Z.
Proof. unfold stated. destruct ls; reflexivity. Qed.

Theorem script_conf : forall sc a b fin,
  Forall seg_ok sc -> Conf a b (script_old sc fin) (script_new sc fin) (script_hunks a b sc).
Proof.
  induction sc as [|s r IH]; intros a b fin Hok; cbn [script_old script_new script_hunks]; [constructor|].
  inversion Hok as [|? ? Hs Hr]; subst.
  set (h := mk_change (stated (a + length (keep s)) (del s)) (stated (b + length (keep s)) (ins s)) (del s) (ins s)).
  pose proof (Conf_cons a b (keep s) h (script_hunks (a + length (keep s) + length (del s)) (b + length (keep s) + length (ins s)) r)
                (script_old r fin) (script_new r fin)) as C.
  unfold h in C. rewrite mk_change_old, mk_change_new in C. apply C; clear C.
  - cbn [mk_change body]. intros E. apply app_eq_nil in E. destruct E as [E1 E2]. destruct Hs as [H|H]; apply H.
    + destruct (del s); [reflexivity|discriminate].
    + destruct (ins s); [reflexivity|discriminate].
  - reflexivity.
  - reflexivity.
  - cbn [mk_change oldr rstart rcount]. apply stated_conf.
  - cbn [mk_change newr rstart rcount]. apply stated_conf.
  - apply IH. exact Hr.
Qed.

(* ---------- the change groups of a script over readable files are well formed ---------- *)
Lemma side_ok_app : forall x y, side_ok (x ++ y) -> side_ok x /\ side_ok y.
Proof.
  induction x as [|l r IH]; intros y H; [split; [exact I|exact H]|].
  cbn [app side_ok] in H. destruct H as (Hc & Hnl & Hr). destruct (IH y Hr) as [Hx Hy]. split; [|exact Hy].
  cbn [side_ok]. split; [exact Hc|]. split; [|exact Hx].
  destruct r as [|l2 r'].
  - cbn [app] in Hnl. destruct y; [exact Hnl|]. rewrite Hnl. discriminate.
  - exact Hnl.
Qed.

Lemma wf_range_stated before ls :
  (Z.of_nat (before + length ls) <= MAXZ)%Z -> wf_range_n (mkRange (stated before ls) (Z.of_nat (length ls))).
Proof.
  intros H. unfold wf_range_n, stated. cbn [rstart rcount]. rewrite Nat2Z.inj_add in H.
  destruct ls as [|l r]; cbn [is_nil length] in *; unfold MAXZ in *; lia.
Qed.

Theorem script_wf : forall sc a b fin,
  Forall seg_ok sc -> side_ok (script_old sc fin) -> side_ok (script_new sc fin) ->
  (Z.of_nat (a + length (script_old sc fin)) <= MAXZ)%Z -> (Z.of_nat (b + length (script_new sc fin)) <= MAXZ)%Z ->
  Forall wf_hunk_n (script_hunks a b sc).
Proof.
  induction sc as [|s r IH]; intros a b fin Hok HA HB La Lb; cbn [script_hunks]; [constructor|].
  inversion Hok as [|? ? Hs Hr]; subst. cbn [script_old script_new] in *.
  destruct (side_ok_app _ _ HA) as [_ HA1]. destruct (side_ok_app _ _ HA1) as [Hd HA2].
  destruct (side_ok_app _ _ HB) as [_ HB1]. destruct (side_ok_app _ _ HB1) as [Hi HB2].
  rewrite !app_length in La, Lb.
  constructor.
  - apply wf_mk_change; [exact Hs|exact Hd|exact Hi| |]; apply wf_range_stated; lia.
  - apply (IH _ _ fin Hr HA2 HB2); lia.
Qed.

Lemma script_hunks_nonempty a b sc : sc <> [] -> script_hunks a b sc <> [].
Proof. destruct sc; [congruence|discriminate]. Qed.

(* ---------- end to end ---------- *)
Lemma creation_guard_set_hunks p hs A : creation_guard p A -> creation_guard (set_hunks p hs) A.
Proof. intros G. exact G. Qed.

(* The normal diff of A to B — any edit script over files whose lines can be written in a diff (side_ok: clean texts,
   LF terminators, only the last line may lack its newline), cut into change groups without context — is read back and,
   applied to A, gives exactly B: no reject, no message, counted as perfect. *)
Theorem normal_diff_applies o p sc fin tail :
  sc <> [] -> Forall seg_ok sc ->
  side_ok (script_old sc fin) -> side_ok (script_new sc fin) ->
  (Z.of_nat (length (script_old sc fin)) < MAXZ)%Z -> (Z.of_nat (length (script_new sc fin)) < MAXZ)%Z ->
  tail_ok_n tail ->
  pfmt p = FNormal -> hunks p = [] -> creation_guard p (script_old sc fin) ->
  define_macro o = [] -> verbose o = false -> reverse_patch_opt o = false -> (0 <= max_fuzz o)%Z ->
  exists p' r,
    parse_patch_body p (strm (emit_normal (script_hunks 0 0 sc) ++ tail)) = Ok (p', after_n tail) /\
    apply_patch o (script_old sc fin) p' = Ok r /\ r_out r = script_new sc fin /\ r_failed r = 0 /\ r_rej r = [] /\
    r_skipped r = false /\ r_perfect r = true /\ r_msgs r = [].
Proof.
  intros Hne Hok HA HB La Lb Ht Hf Hh Hg Hd Hv Hr HF.
  assert (Hwf : Forall wf_hunk_n (script_hunks 0 0 sc)) by (apply (script_wf sc 0 0 fin); try assumption; cbn [Nat.add]; lia).
  exists (set_hunks p (script_hunks 0 0 sc)).
  destruct (apply_conforming o (set_hunks p (script_hunks 0 0 sc)) (script_old sc fin) (script_new sc fin) Hd Hv Hr HF)
    as (r & Hr1 & Hr2); [apply script_conf; exact Hok|exact La|exact Hg|].
  exists r. split; [|split; [exact Hr1|exact Hr2]].
  rewrite normal_body_roundtrip; [rewrite Hh; reflexivity|exact Hf|apply script_hunks_nonempty; exact Hne|exact Hwf|exact Ht].
Qed.
Print Assumptions normal_diff_applies.

(* and applied with -R to B it gives A *)
Theorem normal_diff_reverses o p sc fin tail :
  sc <> [] -> Forall seg_ok sc ->
  side_ok (script_old sc fin) -> side_ok (script_new sc fin) ->
  (Z.of_nat (length (script_old sc fin)) < MAXZ)%Z -> (Z.of_nat (length (script_new sc fin)) < MAXZ)%Z ->
  tail_ok_n tail ->
  pfmt p = FNormal -> hunks p = [] ->
  (str_eqb (new_path p) (bs "/dev/null") = true -> script_new sc fin = []) ->
  define_macro o = [] -> verbose o = false -> reverse_patch_opt o = true -> (0 <= max_fuzz o)%Z ->
  exists p' r,
    parse_patch_body p (strm (emit_normal (script_hunks 0 0 sc) ++ tail)) = Ok (p', after_n tail) /\
    apply_patch o (script_new sc fin) p' = Ok r /\ r_out r = script_old sc fin /\ r_failed r = 0 /\ r_rej r = [] /\
    r_skipped r = false /\ r_perfect r = true /\ r_msgs r = [].
Proof.
  intros Hne Hok HA HB La Lb Ht Hf Hh Hg Hd Hv Hr HF.
  assert (Hwf : Forall wf_hunk_n (script_hunks 0 0 sc)) by (apply (script_wf sc 0 0 fin); try assumption; cbn [Nat.add]; lia).
  exists (set_hunks p (script_hunks 0 0 sc)).
  destruct (apply_reverse o (set_hunks p (script_hunks 0 0 sc)) (script_old sc fin) (script_new sc fin) Hd Hv Hr HF)
    as (r & Hr1 & Hr2); [apply script_conf; exact Hok|exact Lb|exact Hg|].
  exists r. split; [|split; [exact Hr1|exact Hr2]].
  rewrite normal_body_roundtrip; [rewrite Hh; reflexivity|exact Hf|apply script_hunks_nonempty; exact Hne|exact Hwf|exact Ht].
Qed.
Print Assumptions normal_diff_reverses.

(* ---------- example: the script behind Proofs_Normal.NormalExamples ---------- *)
Module ScriptExample.
Import NormalExamples.
Definition sc : list seg :=
  [mkSeg [] [] [L "x"]; mkSeg [L "a"; L "b"] [L "c"] []; mkSeg [L "d"; L "e"] [L "f"] [L "F"; LN "G"]].
Example sc_old : script_old sc [] = [L "a"; L "b"; L "c"; L "d"; L "e"; L "f"]. Proof. reflexivity. Qed.
Example sc_new : script_new sc [] = [L "x"; L "a"; L "b"; L "d"; L "e"; L "F"; LN "G"]. Proof. reflexivity. Qed.
Example sc_hunks : script_hunks 0 0 sc = [hA; hD; hC]. Proof. reflexivity. Qed.
Example sc_hyps : Forall seg_ok sc /\ side_ok (script_old sc []) /\ side_ok (script_new sc []).
Proof. split; [repeat constructor; vm_compute; intuition discriminate|]. split; concrete. Qed.
End ScriptExample.
