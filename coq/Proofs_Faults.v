(* Proofs_Faults.v — C10 over the driver model: an operation failure injected anywhere is never reported as success. *)
From PatchV Require Import Base Lines Hunk Locator Formatter Options Applier LineParser Parser World Driver Proofs_Base.

(* FF m: when the injected failure is consumed while m runs, m ends in an exception; without a pending failure none appears *)
Definition FF {A} (m : M A) : Prop :=
  forall w, (fault w <> None -> fault (snd (m w)) = None -> exists e, fst (m w) = Throw e) /\
            (fault w = None -> fault (snd (m w)) = None).

Lemma FF_ret {A} (a : A) : FF (mret a).
Proof. intros w. cbn. split; [intros H1 H2; contradiction|auto]. Qed.
Lemma FF_throw {A} e : FF (@mthrow A e).
Proof. intros w. cbn. split; eauto. Qed.
Lemma FF_lift {A} (r : res A) : FF (mlift r).
Proof. intros w. cbn. split; [intros H1 H2; contradiction|auto]. Qed.
Lemma FF_getfs : FF get_fs.
Proof. intros w. cbn. split; [intros H1 H2; contradiction|auto]. Qed.
Lemma FF_stdout {A} (a : A) data : FF (fun w => (Ok a, mkWorld (fs w) (umask w) (trace w) (fault w) (stdout_data w ++ data))).
Proof. intros w. cbn. split; [intros H1 H2; contradiction|auto]. Qed.

Lemma FF_bind {A B} (m : M A) (f : A -> M B) : FF m -> (forall a, FF (f a)) -> FF (mbind m f).
Proof.
  intros Hm Hf w. unfold mbind. destruct (Hm w) as [M1 M2]. destruct (m w) as [[a|e] w1] eqn:E; cbn [fst snd] in *.
  - destruct (Hf a w1) as [F1 F2]. destruct (f a w1) as [r w2]. cbn [fst snd] in *. split.
    + intros H1 H2. destruct (fault w1) eqn:E1.
      * apply F1; [discriminate|exact H2].
      * destruct (M1 H1 eq_refl) as [e He]. discriminate.
    + intros H. apply F2. apply M2. exact H.
  - split; [eauto|exact M2].
Qed.

(* one operation: when the failure is consumed by it, it reports EIO *)
Lemma perform_fault op w :
  (fault w <> None -> fault (snd (perform op w)) = None -> fst (perform op w) = Ok (Some EIO)) /\
  (fault w = None -> fault (snd (perform op w)) = None).
Proof.
  unfold perform. destruct (fault w) as [[|k]|]; cbn [fst snd fault].
  - split; [reflexivity|discriminate].
  - destruct (exec_op (fs w) (umask w) op); cbn [fst snd fault]; split; intros; try discriminate.
  - destruct (exec_op (fs w) (umask w) op); cbn [fst snd fault]; split; intros; try contradiction; reflexivity.
Qed.

Lemma FF_perform_bind {B} op (f : option errno -> M B) :
  (forall r, FF (f r)) -> (forall w, exists e, f (Some EIO) w = (Throw e, w)) -> FF (mbind (perform op) f).
Proof.
  intros Hf Hio w. unfold mbind. destruct (perform_fault op w) as [P1 P2].
  assert (Hok : exists r w1, perform op w = (Ok r, w1)).
  { unfold perform. destruct (fault w) as [[|k]|]; [eauto| |]; destruct (exec_op (fs w) (umask w) op); eauto. }
  destruct Hok as (r & w1 & E). rewrite E in *. cbn [fst snd] in *.
  destruct (Hf r w1) as [F1 F2]. split.
  - intros H1 H2. destruct (fault w1) eqn:E1.
    + apply F1; [discriminate|exact H2].
    + specialize (P1 H1 eq_refl). inversion P1; subst. destruct (Hio w1) as [e He]. rewrite He. cbn [fst]. eauto.
  - intros H. apply F2. apply P2. exact H.
Qed.

Lemma FF_checked op : FF (checked op).
Proof.
  unfold checked. apply FF_perform_bind.
  - intros [e|]; [apply FF_throw|apply FF_ret].
  - intros w. eexists. reflexivity.
Qed.

Ltac ff :=
  repeat first
    [ apply FF_ret | apply FF_throw | apply FF_lift | apply FF_getfs | apply FF_stdout | apply FF_checked
    | assumption
    | match goal with H : context [FF _] |- FF _ => apply H end
    | match goal with
      | |- FF (mbind (perform _) _) => apply FF_perform_bind; [intros ?|intros ?; eexists; reflexivity]
      | |- FF (mbind _ _) => apply FF_bind; [|intros ?]
      | |- FF (if ?c then _ else _) => destruct c
      | |- FF (match ?x with _ => _ end) => destruct x
      | |- FF (let '(_, _) := ?x in _) => destruct x
      end ].

Lemma FF_rmdir_parents : forall fuel p, FF (rmdir_parents fuel p).
Proof. induction fuel as [|f IH]; intros p; cbn [rmdir_parents]; ff. Qed.

Lemma FF_remove p : FF (remove_file_and_empty_parent_folders p).
Proof. unfold remove_file_and_empty_parent_folders. pose proof FF_rmdir_parents. ff. Qed.

Lemma FF_mkdirs : forall ds, FF (mkdirs ds).
Proof. induction ds as [|d r IH]; cbn [mkdirs]; ff. Qed.

Lemma FF_ensure p : FF (ensure_parent_directories p).
Proof. unfold ensure_parent_directories. pose proof FF_mkdirs. ff. Qed.

Lemma FF_backup o st p : FF (make_backup_for o st p).
Proof. unfold make_backup_for, backup_core. pose proof FF_ensure. ff. Qed.

Lemma FF_write_now o st d : FF (write_now o st d).
Proof. unfold write_now. pose proof FF_backup. ff. Qed.

Lemma FF_finalize_writes_from o all : forall ds st, FF (finalize_writes_from o all st ds).
Proof. induction ds as [|d r IH]; intros st; cbn [finalize_writes_from]; pose proof FF_write_now; pose proof FF_ensure; ff. Qed.
Lemma FF_finalize_writes o ds st : FF (finalize_writes o st ds).
Proof. apply FF_finalize_writes_from. Qed.

Lemma FF_finalize_removals ws : forall rs, FF (finalize_removals ws rs).
Proof. induction rs as [|p r IH]; cbn [finalize_removals]; pose proof FF_remove; ff. Qed.

Lemma FF_refuse o st out p : FF (refuse_to_patch o st out p).
Proof. unfold refuse_to_patch. ff. Qed.

Lemma FF_body_if should p s : FF (body_if should p s).
Proof. unfold body_if. ff. Qed.

Lemma FF_process_section o st should p s : FF (process_section o st should p s).
Proof.
  unfold process_section, section_tail.
  pose proof FF_refuse. pose proof FF_body_if. pose proof FF_ensure. pose proof FF_backup. pose proof FF_write_now. pose proof FF_remove.
  ff.
Qed.

Lemma FF_section_loop o f : forall fuel st s first, FF (section_loop fuel o f st s first).
Proof. induction fuel as [|k IH]; intros st s first; cbn [section_loop]; pose proof FF_process_section; ff. Qed.

Lemma FF_process_patch o bytes : FF (process_patch o bytes).
Proof. unfold process_patch. pose proof FF_section_loop. pose proof FF_finalize_writes. pose proof FF_finalize_removals. ff. Qed.

Lemma FF_patch_file_bytes o stdin : FF (patch_file_bytes o stdin).
Proof. unfold patch_file_bytes. ff. Qed.

(* Whatever operation the injected failure hits (open, write, rename, unlink, rmdir, mkdir, chmod, symlink on the patch
   file, a target, a backup, a reject file or a directory), the run ends with exit status 2. *)
Theorem fault_is_fatal o stdin w :
  fault w <> None -> fault (rr_world (run_patch o stdin w)) = None -> rr_exit (run_patch o stdin w) = 2.
Proof.
  intros H1 H2. unfold run_patch in *.
  assert (F : FF (let! b := patch_file_bytes o stdin in process_patch o b)).
  { apply FF_bind; [apply FF_patch_file_bytes|intros b; apply FF_process_patch]. }
  destruct (F w) as [F1 _].
  destruct ((let! b := patch_file_bytes o stdin in process_patch o b) w) as [[[code ev]|e] w'] eqn:E; cbn [fst snd rr_world rr_exit] in *; [|reflexivity].
  destruct (F1 H1 H2) as [e He]. discriminate.
Qed.

(* without an injected failure none is invented *)
Theorem no_fault_no_fault o stdin w : fault w = None -> fault (rr_world (run_patch o stdin w)) = None.
Proof.
  intros H. unfold run_patch.
  assert (F : FF (let! b := patch_file_bytes o stdin in process_patch o b)).
  { apply FF_bind; [apply FF_patch_file_bytes|intros b; apply FF_process_patch]. }
  destruct (F w) as [_ F2].
  destruct ((let! b := patch_file_bytes o stdin in process_patch o b) w) as [[[code ev]|e] w']; cbn [fst snd rr_world] in *; auto.
Qed.
