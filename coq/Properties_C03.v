(* Properties_C03.v — C03: hunks that fit are found, with the least fuzz, at the stated place. *)
From PatchV Require Import Base Lines Hunk Locator Spec_Locate Proofs_Locate Oracle Proofs_Oracle.

(* if any admissible placement exists within the -F limit, the hunk is not rejected *)
Theorem locate_complete : forall f h ws off F lo pos fz,
  rcount (oldr h) <> 0%Z -> Admissible ws f (body h) lo pos fz -> (Z.of_nat fz <= F)%Z -> pos < length f ->
  locate_hunk f h ws off F lo <> None.
Proof. exact Proofs_Locate.locate_complete. Qed.
Print Assumptions locate_complete.

(* the fuzz used is the smallest at which any placement exists *)
Theorem locate_min_fuzz : forall f h ws off F lo loc pos fz,
  locate_hunk f h ws off F lo = Some loc -> rcount (oldr h) <> 0%Z ->
  Admissible ws f (body h) lo pos fz -> pos < length f -> lfuzz loc <= fz.
Proof. exact Proofs_Locate.locate_min_fuzz. Qed.
Print Assumptions locate_min_fuzz.

(* text exactly at the stated line (plus accumulated offset): applied exactly there, whatever else matches *)
Theorem locate_exact_at_stated : forall f h ws off F lo g,
  rcount (oldr h) <> 0%Z -> Admissible ws f (body h) lo g 0 -> g < length f -> (0 <= F)%Z ->
  stated_pos h off = Z.of_nat g ->
  locate_hunk f h ws off F lo = Some (mkLoc g 0 0).
Proof. exact Proofs_Locate.locate_exact_at_stated. Qed.
Print Assumptions locate_exact_at_stated.

(* an insertion that carries no context goes exactly to its stated line (when that is inside the
   unconsumed part of the file) *)
Theorem insertion_at_stated : forall f h ws off F lo,
  rcount (oldr h) = 0%Z ->
  (Z.of_nat lo <= stated_pos h off <= Z.of_nat (length f))%Z ->
  locate_hunk f h ws off F lo = Some (mkLoc (Z.to_nat (stated_pos h off)) 0 0).
Proof. exact Proofs_Locate.locate_insertion_complete. Qed.
Print Assumptions insertion_at_stated.

(* the executable oracle that judges the implementation's answers is satisfied by the model on every input *)
Theorem model_meets_spec_C03 : forall ws f h off F lo,
  spec_C03_locate ws f h off F lo (obs_of (locate_hunk f h ws off F lo)) = true.
Proof. exact Proofs_Oracle.model_meets_spec_C03. Qed.
Print Assumptions model_meets_spec_C03.

Local Open Scope string_scope.
(* non-vacuity: the text occurs three times; the occurrence at the stated line wins *)
Example exact_nonvacuous :
  let l s := mkLine (bs s) LF in
  let f := [l "a"; l "b"; l "a"; l "b"; l "a"; l "b"] in
  let h := mkHunk (mkRange 3 2) (mkRange 3 2) [mkPL Ctx (l "a"); mkPL Del (l "b"); mkPL Add (l "B")] in
  Admissible false f (body h) 0 2 0 /\ Admissible false f (body h) 0 0 0 /\
  locate_hunk f h false 0 2 0 = Some (mkLoc 2 0 0).
Proof.
  cbv zeta. split; [|split]; [apply admissibleb_spec; vm_compute; reflexivity ..|vm_compute; reflexivity].
Qed.
