(* Applier.v — src/applier.cpp (write_hunk, write_define_hunk, print_hunk_statistics, reversed-patch
   handling, RejectWriter, apply_patch).  Definitions only. *)
From PatchV Require Import Base Lines Hunk Locator Formatter Options.

(* ---- write_hunk (applier.cpp) : returns lines written and the new cursor ---- *)
Fixpoint write_hunk (lines : list line) (ln : nat) (b : list pline) : list line * nat :=
  match b with
  | [] => ([], ln)
  | p :: r =>
      match pop p with
      | Ctx => let '(o, e) := write_hunk lines (S ln) r in
               (match nth_opt lines ln with Some l => l :: o | None => o end, e)
      | Add => let '(o, e) := write_hunk lines ln r in (pl p :: o, e)
      | Del => write_hunk lines (S ln) r
      end
  end.

(* ---- write_define_hunk ---- *)
Inductive dstate := DOutside | DIfndef | DIfdef | DElseNew (* #else of #ifndef: lines of the new file *) | DElseOld (* #else of #ifdef *).
Definition dstate_outside (d : dstate) := match d with DOutside => true | _ => false end.

Definition nl_or_lf (n : newline) : newline := match n with NoNL => LF | x => x end.

(* write_directive: returns the lines it writes given the terminator of the last line written *)
Definition write_directive (last_nl : newline) (directive symbol : list N) (n : newline) : list line :=
  (match last_nl with NoNL => [mkLine [] LF] | _ => [] end) ++ [mkLine (directive ++ symbol) (nl_or_lf n)].

Fixpoint write_define_loop (lines : list line) (define : list N) (b : list pline)
         (ln : nat) (st : dstate) (last_nl : newline) : res (list line * nat * dstate * newline) :=
  match b with
  | [] => Ok ([], ln, st, last_nl)
  | p :: r =>
      match pop p with
      | Ctx =>
          match nth_opt lines ln with
          | None => write_define_loop lines define r (S ln) st last_nl
          | Some l =>
              let pre := if dstate_outside st then [] else write_directive last_nl (bs "#endif") [] (nl l) in
              do x <- write_define_loop lines define r (S ln) DOutside (nl l);
              let '(o, e, st', ln') := x in Ok (pre ++ l :: o, e, st', ln')
          end
      | Add =>
          (* an added line after the #else of an #ifdef needs a new conditional *)
          let '(pre0, st0, ln0) :=
            match st with
            | DElseOld => (write_directive last_nl (bs "#endif") [] (nl (pl p)), DOutside, LF)
            | s => ([], s, last_nl)
            end in
          let '(pre, st1) :=
            match st0 with
            | DOutside => (write_directive ln0 (bs "#ifdef ") define (nl (pl p)), DIfdef)
            | DIfndef => (write_directive ln0 (bs "#else") [] (nl (pl p)), DElseNew)
            | s => ([], s)
            end in
          do x <- write_define_loop lines define r ln st1 (nl (pl p));
          let '(o, e, st', ln') := x in Ok (pre0 ++ pre ++ pl p :: o, e, st', ln')
      | Del =>
          match nth_opt lines ln with
          | None => Throw EOutOfRange
          | Some l =>
              let '(pre0, st0, ln0) :=
                match st with
                | DElseNew => (write_directive last_nl (bs "#endif") [] (nl l), DOutside, LF)
                | s => ([], s, last_nl)
                end in
              let '(pre, st1) :=
                match st0 with
                | DOutside => (write_directive ln0 (bs "#ifndef ") define (nl l), DIfndef)
                | DIfdef => (write_directive ln0 (bs "#else") [] (nl l), DElseOld)
                | s => ([], s)
                end in
              do x <- write_define_loop lines define r (S ln) st1 (nl l);
              let '(o, e, st', ln') := x in Ok (pre0 ++ pre ++ l :: o, e, st', ln')
          end
      end
  end.

Definition write_define_hunk (lines : list line) (define : list N) (ln : nat) (b : list pline) : res (list line * nat) :=
  do x <- write_define_loop lines define b ln DOutside LF;
  let '(o, e, st, last_nl) := x in
  if dstate_outside st then Ok (o, e)
  else Ok (o ++ write_directive last_nl (bs "#endif") []
                  (match last_opt lines with Some l => nl l | None => LF end), e).

(* ---- print_hunk_statistics ---- *)
Definition loc_perfect (l : option location) : bool :=
  match l with Some x => Nat.eqb (lfuzz x) 0 && Z.eqb (loffset x) 0 | None => false end.
Definition loc_found (l : option location) : bool := match l with Some _ => true | None => false end.

Definition print_hunk_statistics (hunk_num : nat) (skipped : bool) (loc : option location) (h : hunk)
           (off_o2n : Z) (offset_error : Z) : list N :=
  bs "Hunk #" ++ print_nat (S hunk_num)
  ++ (if skipped then bs " skipped" else if loc_found loc then bs " succeeded" else bs " FAILED")
  ++ bs " at "
  ++ match loc with
     | Some l =>
         print_Z (Z.of_nat (lline l) + off_o2n + 1)
         ++ (if Nat.eqb (lfuzz l) 0 then [] else bs " with fuzz " ++ print_nat (lfuzz l))
         ++ (if Z.eqb offset_error 0 then []
             else bs " (offset " ++ print_Z offset_error ++ bs " line" ++ (if Z.ltb 1 offset_error then bs "s" else []) ++ bs ")")
         ++ bs "." ++ [10%N]
     | None => print_Z (sadd (expected_line_number h) off_o2n) ++ bs "." ++ [10%N]
     end.

(* ---- reversed patch handling ---- *)
Inductive reverse_handling := RHReverse | RHIgnore | RHApplyAnyway.

Definition should_check_if_patch_is_reversed (loc : option location) (o : options) : bool :=
  if loc_perfect loc then false else if force o then false else true.

(* check_how_to_handle_reversed_patch: messages and decision; asking the user = reading /dev/tty,
   which does not exist in any run the model is compared with: Throw ESystem. *)
Definition check_how_to_handle_reversed_patch (o : options) : res (list N * reverse_handling) :=
  if negb (ignore_reversed o) then
    if batch o then Ok (bs "Assuming -R." ++ [10%N], RHReverse)
    else Throw ESystem
  else Ok (bs "Skipping patch." ++ [10%N], RHIgnore).

Definition handle_probably_reversed_patch (o : options) : res (list N * reverse_handling) :=
  do x <- check_how_to_handle_reversed_patch o;
  Ok ((if reverse_patch_opt o then bs "Unreversed" else bs "Reversed (or previously applied)")
      ++ bs " patch detected!  " ++ fst x, snd x).

(* ---- RejectWriter ---- *)
Definition should_write_as_unified (o : options) (p : patch) : bool :=
  match reject_format_opt o with
  | RFUnified => true
  | RFDefault => match pfmt p with FUnified => true | _ => false end
  | RFContext => false
  end.

Definition write_reject (o : options) (p : patch) (rejected : nat) (h : hunk) : res (list N) :=
  if should_write_as_unified o p then
    Ok ((if Nat.eqb rejected 0 then write_patch_header_as_unified p else []) ++ write_hunk_as_unified h)
  else
    do t <- write_hunk_as_context h;
    Ok ((if Nat.eqb rejected 0 then write_patch_header_as_context p else bs "***************" ++ [10%N]) ++ t).

(* a rejected hunk: both starts moved by the net growth of the hunks applied before it, never below zero *)
Definition shift_start (s d : Z) : Z := Z.max 0 (sadd s d).
Definition shift_hunk (h : hunk) (d : Z) : hunk :=
  mkHunk (mkRange (shift_start (rstart (oldr h)) d) (rcount (oldr h))) (mkRange (shift_start (rstart (newr h)) d) (rcount (newr h))) (body h).

(* the locate step of apply_patch: a patch which creates a file (old file /dev/null) claims there is nothing
   there yet, which does not fit a file with content *)
Definition creates_file (p : patch) : bool := str_eqb (old_path p) (bs "/dev/null").

Definition locate_for (p : patch) (lines : list line) (h : hunk) (ws : bool) (offset max_fuzz : Z) (ln : nat) : option location :=
  if creates_file p && negb (is_nil lines) && Z.eqb (rstart (oldr h)) 0 && Z.eqb (rcount (oldr h)) 0 then None
  else locate_hunk lines h ws offset max_fuzz ln.

(* ---- apply_patch ---- *)
Record astate := mkAS {
  a_out : list line;        (* lines written to the output so far *)
  a_rej : list N;           (* bytes written to the reject file so far *)
  a_rejected : nat;
  a_ln : nat;               (* line_number: first original line not yet copied *)
  a_o2n : Z;                (* offset_old_lines_to_new *)
  a_offerr : Z;             (* offset_error *)
  a_skip : bool;
  a_perfect : bool;
  a_msgs : list N;
  a_hunks : list hunk }.    (* hunks as left in patch.hunks (reversed / shifted in place) *)

Record aresult := mkAR {
  r_out : list line; r_rej : list N; r_failed : nat; r_skipped : bool; r_perfect : bool;
  r_msgs : list N; r_patch : patch }.

Definition copy_range (lines : list line) (from upto : nat) : list line :=
  firstn (upto - from) (skipn from lines).

(* The body of the for loop for one hunk, after the reversed-patch decision has been taken. *)
Definition apply_one (o : options) (p : patch) (lines : list line) (hunk_num : nat)
           (s : astate) (h : hunk) (loc : option location) : res astate :=
  do s1 <-
    (match loc with
     | Some l =>
         if negb (a_skip s) then
           let offerr := sadd (a_offerr s) (loffset l) in
           let pre := copy_range lines (a_ln s) (lline l) in
           do w <- (if is_nil (define_macro o) then Ok (write_hunk lines (lline l) (body h))
                    else write_define_hunk lines (define_macro o) (lline l) (body h));
           Ok (mkAS (a_out s ++ pre ++ fst w) (a_rej s) (a_rejected s) (snd w) (a_o2n s) offerr
                    (a_skip s) (a_perfect s) (a_msgs s) (a_hunks s ++ [h]), h)
         else
           let h' := shift_hunk h (a_o2n s) in
           do t <- write_reject o p (a_rejected s) h';
           Ok (mkAS (a_out s) (a_rej s ++ t) (S (a_rejected s)) (a_ln s) (a_o2n s) (a_offerr s)
                    (a_skip s) (a_perfect s) (a_msgs s) (a_hunks s ++ [h']), h')
     | None =>
         let h' := shift_hunk h (a_o2n s) in
         do t <- write_reject o p (a_rejected s) h';
         Ok (mkAS (a_out s) (a_rej s ++ t) (S (a_rejected s)) (a_ln s) (a_o2n s) (a_offerr s)
                  (a_skip s) (a_perfect s) (a_msgs s) (a_hunks s ++ [h']), h')
     end);
  let '(s2, hcur) := s1 in
  let perfect_h := loc_perfect loc in
  let msgs := if verbose o || (negb perfect_h && negb (a_skip s2))
              then a_msgs s2 ++ print_hunk_statistics hunk_num (a_skip s2) loc hcur (a_o2n s2) (a_offerr s2)
              else a_msgs s2 in
  let o2n := if negb (a_skip s2) && loc_found loc then (a_o2n s2 + (rcount (newr hcur) - rcount (oldr hcur)))%Z else a_o2n s2 in
  Ok (mkAS (a_out s2) (a_rej s2) (a_rejected s2) (a_ln s2) o2n (a_offerr s2) (a_skip s2)
           (a_perfect s2 && perfect_h) msgs (a_hunks s2)).

Fixpoint apply_rest (o : options) (p : patch) (lines : list line) (hunk_num : nat) (s : astate) (hs : list hunk) : res astate :=
  match hs with
  | [] => Ok s
  | h :: r =>
      let loc := locate_for p lines h (ignore_whitespace o) (a_offerr s) (max_fuzz o) (a_ln s) in
      do s' <- apply_one o p lines hunk_num s h loc;
      apply_rest o p lines (S hunk_num) s' r
  end.

(* first hunk: reversed-patch check (applier.cpp:269-298).  Also returns the patch record as the rest of the run sees it:
   when the user (or -t) decides that the patch is to be applied reversed, the whole record is reversed, just as under -R
   (creation and deletion, names, times and modes change places; creates_file is taken again from the reversed record). *)
Definition with_patch (q : patch) (m : res astate) : res (astate * patch) := do s <- m; Ok (s, q).

Definition apply_first (o : options) (p : patch) (lines : list line) (s : astate) (hs : list hunk) : res (astate * patch) :=
  match hs with
  | [] => Ok (s, p)
  | h :: r =>
      let loc := locate_for p lines h (ignore_whitespace o) (a_offerr s) (max_fuzz o) (a_ln s) in
      if should_check_if_patch_is_reversed loc o then
        let rh := reverse_hunk h in
        let rloc := locate_hunk lines rh (ignore_whitespace o) (a_offerr s) (max_fuzz o) (a_ln s) in
        do d <- (if loc_perfect rloc || (negb (loc_found loc) && loc_found rloc)
                 then handle_probably_reversed_patch o
                 else Ok ([], RHApplyAnyway));
        let s0 := mkAS (a_out s) (a_rej s) (a_rejected s) (a_ln s) (a_o2n s) (a_offerr s) (a_skip s) (a_perfect s)
                       (a_msgs s ++ fst d) (a_hunks s) in
        match snd d with
        | RHReverse =>
            let rp := reverse_patch p in
            with_patch rp (do s' <- apply_one o rp lines 0 s0 rh rloc; apply_rest o rp lines 1 s' (map reverse_hunk r))
        | RHIgnore =>
            let s0' := mkAS (a_out s0) (a_rej s0) (a_rejected s0) (a_ln s0) (a_o2n s0) (a_offerr s0) true (a_perfect s0)
                            (a_msgs s0) (a_hunks s0) in
            with_patch p (do s' <- apply_one o p lines 0 s0' h loc; apply_rest o p lines 1 s' r)
        | RHApplyAnyway =>
            with_patch p (do s' <- apply_one o p lines 0 s0 h loc; apply_rest o p lines 1 s' r)
        end
      else
        with_patch p (do s' <- apply_one o p lines 0 s h loc; apply_rest o p lines 1 s' r)
  end.

Definition apply_patch (o : options) (lines : list line) (p0 : patch) : res aresult :=
  let p := if reverse_patch_opt o then reverse_patch p0 else p0 in
  do sp <- apply_first o p lines (mkAS [] [] 0 0 0%Z 0%Z false true [] []) (hunks p);
  let s := fst sp in
  Ok (mkAR (a_out s ++ skipn (a_ln s) lines) (a_rej s) (a_rejected s) (a_skip s) (a_perfect s) (a_msgs s)
           (set_hunks (snd sp) (a_hunks s))).
