(* Proofs_WholeSections.v — C01 end to end for a patch over several files (what diff -ru, svn diff write): the sections are run
   one after the other, each leaves exactly its new version in its file; exit status 0, no message, nothing else touched. *)
From PatchV Require Import Base Lines Hunk Locator Formatter Options Applier LineParser Parser World Driver
     Spec_Locate Spec_Apply Spec_Names Proofs_Base Proofs_Lines Proofs_Fuel Proofs_Unified Proofs_Filler Proofs_Progress
     Proofs_Names Proofs_Conf Proofs_World Proofs_Crash Proofs_EndToEnd Proofs_Reverse Proofs_Sections Proofs_Sections_Unified
     Proofs_Whole.

(* one section: the lines in front of its two file lines (u_p0: the record the scan has built when it reaches them), the
   two names and their stamps, the hunks, the file meant, its old and new lines *)
Record usec := mkUS {
  u_pre0 : list (list N); u_p0 : patch;
  u_old : list N; u_t1 : option (list N); u_new : list N; u_t2 : option (list N);
  u_h1 : hunk; u_hs : list hunk;
  u_name : list N; u_A : list line; u_B : list line }.

Definition u_pre (s : usec) : list (list N) :=
  u_pre0 s ++ [bs "--- " ++ u_old s ++ tab_time (u_t1 s); bs "+++ " ++ u_new s ++ tab_time (u_t2 s)].
Definition u_text (s : usec) : list N := join_lines (u_pre s) ++ emit_hunks (u_h1 s :: u_hs s).

(* the first line of a section that follows another one: not a range line, not a "\ No newline" marker *)
Definition first_ok (s : usec) : Prop :=
  match u_pre0 s with [] => True | l :: _ => hd 0%N l <> 92%N /\ consume_str (bs "@@ -") l = None end.

Definition u_ok (o : options) (f0 : format) (s : usec) : Prop :=
  leads (strip_size o) (empty_patch f0) (u_pre0 s) (u_p0 s) /\ Forall clean (u_pre0 s) /\
  (poper (u_p0 s) = OpChange /\ prereq (u_p0 s) = [] /\ new_mode (u_p0 s) = 0%N /\ hunks (u_p0 s) = [] /\
   fmt_unknown_or (u_p0 s) FUnified = true) /\
  plain_name (u_old s) /\ plain_name (u_new s) /\ clean (u_old s ++ tab_time (u_t1 s)) /\ clean (u_new s ++ tab_time (u_t2 s)) /\
  stripped (u_old s) (strip_size o) = u_name s /\ stripped (u_new s) (strip_size o) = u_name s /\
  (u_name s <> [] /\ ~ In 47%N (u_name s)) /\
  Forall wf_hunk (u_h1 s :: u_hs s) /\ Conforming (u_A s) (u_B s) (u_h1 s :: u_hs s) /\
  (remove_empty_files o <> OBYes \/ lines_bytes (newline_output o) (u_B s) <> []) /\
  (Z.of_nat (length (u_A s)) < MAXZ)%Z /\
  first_ok s.

(* the file of the section is there, regular, readable, writable, and holds the old lines *)
Definition u_there (w : world) (s : usec) : Prop :=
  exists data mode, lookup (fs w) (u_name s) = Some (Reg data mode) /\ (mode < 4096)%N /\ owner_r mode = true /\ owner_w mode = true /\
                    split_lines data = u_A s.

Definition texts (ss : list usec) : list N := concat (map u_text ss).

Lemma not_range_line l : consume_str (bs "@@ -") l = None -> forall h0, fst (parse_unified_range h0 l) = false.
Proof. intros H h0. unfold parse_unified_range. rewrite H. reflexivity. Qed.

(* what follows a section, when it begins with another section, is something the body parser stops on *)
Lemma tail_ok_section o f0 s more : u_ok o f0 s -> tail_ok (u_text s ++ more) /\ u_text s ++ more <> [].
Proof.
  intros (_ & HC & _ & Ho & _ & Hoc & _ & _ & _ & _ & _ & _ & _ & _ & Hf).
  unfold u_text, u_pre. unfold first_ok in Hf. destruct (u_pre0 s) as [|l r].
  - set (l2 := bs "--- " ++ u_old s ++ tab_time (u_t1 s)).
    cbn [app join_lines flat_map]. fold l2. rewrite <- !app_assoc. cbn [app].
    split; [|destruct l2 eqn:E; [discriminate E|discriminate]]. right. exists l2. eexists. split; [reflexivity|].
    destruct Ho as (N1 & _).
    split; [apply (file_line_clean (bs "--- ")); [vm_compute; intuition discriminate|exact N1|exact Hoc]|].
    split; [reflexivity|]. intros h0. reflexivity.
  - cbn [app join_lines flat_map]. rewrite <- !app_assoc. cbn [app].
    split; [|destruct l; discriminate]. right. exists l. eexists. split; [reflexivity|].
    inversion HC as [|? ? C1 _]; subst. split; [exact C1|]. destruct Hf as (H92 & Hr).
    split; [|apply not_range_line; exact Hr].
    destruct l as [|c l']; [reflexivity|]. cbn [app starts92 hd] in *. apply N.eqb_neq. exact H92.
Qed.

Lemma has_patch_section o f0 s more : u_ok o f0 s -> has_patch o f0 (stream_of (u_text s ++ more)) = true.
Proof.
  intros (H1 & H2 & H3 & H4 & H5 & H6 & H7 & H8 & H9 & H10 & H11 & _).
  unfold has_patch. change (seof (stream_of (u_text s ++ more))) with false. cbn [orb].
  unfold u_text, u_pre. rewrite <- app_assoc.
  rewrite (whole_header o f0 (u_pre0 s) (u_p0 s) (u_old s) (u_new s) (u_t1 s) (u_t2 s) (u_h1 s) (u_hs s) more (u_name s)); try assumption.
  reflexivity.
Qed.

Section Run.
Variables (o : options) (f0 : format).
Hypothesis Hplain : plain_options o.
Hypothesis Hfwd : reverse_patch_opt o = false.
Hypothesis Hfo : format_from_options o = Ok f0.

Theorem sections_apply : forall ss tail w,
  ss <> [] -> Forall (u_ok o f0) ss -> NoDup (map u_name ss) ->
  tail_ok tail -> ends_here o f0 (after tail) = true ->
  fault w = None -> (forall s, In s ss -> u_there w s) ->
  exists w',
    process_patch o (texts ss ++ tail) w = (Ok (0, []), w') /\
    (forall s data mode, In s ss -> lookup (fs w) (u_name s) = Some (Reg data mode) ->
                         lookup (fs w') (u_name s) = Some (Reg (lines_bytes (newline_output o) (u_B s)) mode)) /\
    (forall q, ~ In q (map u_name ss) -> lookup (fs w') q = lookup (fs w) q) /\
    fault w' = None /\ umask w' = umask w.
Proof.
  induction ss as [|s ss IH]; intros tail w Hne Hok Hnd Ht He Fw Hth; [congruence|].
  inversion Hok as [|? ? Hs Hrest]; subst. inversion Hnd as [|? ? Hni Hnd']; subst.
  pose proof Hs as (H1 & H2 & H3 & H4 & H5 & H6 & H7 & H8 & H9 & H10 & H11 & H12 & H14 & H15 & H16).
  destruct (Hth s (or_introl eq_refl)) as (data & mode & Lf & Hm & Hr & Hw & HS).
  destruct ss as [|s2 ss].
  - (* the last section *)
    unfold texts. cbn [map concat]. rewrite app_nil_r. unfold u_text, u_pre. rewrite <- app_assoc.
    destruct (patch_applies_gen o f0 (u_pre0 s) (u_p0 s) (u_old s) (u_new s) (u_t1 s) (u_t2 s) (u_h1 s) (u_hs s) tail (u_name s) (u_A s) (u_B s)
                Hplain Hfwd Hfo H1 H2 H3 H4 H5 H6 H7 H8 H9 H10 H11 H12 H14 H15 Ht He w data mode Fw Lf Hm Hr Hw HS)
      as (w' & E & L1 & L2 & Fa & Um).
    exists w'. split; [exact E|]. split; [|split; [|split; assumption]].
    + intros s' d' m' [<-|[]] L'. rewrite Lf in L'. inversion L'; subst. exact L1.
    + intros q Hq. apply L2. intros ->. apply Hq. left. reflexivity.
  - (* a section followed by others *)
    set (t2 := texts (s2 :: ss) ++ tail).
    assert (T : texts (s :: s2 :: ss) ++ tail = u_text s ++ t2) by (unfold t2, texts; cbn [map concat]; rewrite <- !app_assoc; reflexivity).
    inversion Hrest as [|? ? Hs2 _]; subst.
    assert (T2 : t2 = u_text s2 ++ (texts ss ++ tail)) by (unfold t2, texts; cbn [map concat]; rewrite <- !app_assoc; reflexivity).
    destruct (tail_ok_section o f0 s2 (texts ss ++ tail) Hs2) as (Tok & Tne). rewrite <- T2 in Tok, Tne.
    pose proof (has_patch_section o f0 s2 (texts ss ++ tail) Hs2) as Hhp. rewrite <- T2 in Hhp.
    (* the first section alone *)
    destruct (whole_section o (u_p0 s) (u_old s) (u_new s) (u_t1 s) (u_t2 s) (u_h1 s) (u_hs s) [] (u_name s) (u_A s) (u_B s)
                Hplain Hfwd H3 H8 H9 H10 H11 H12 H14 H15 (or_introl eq_refl) w data mode Fw Lf Hm Hr Hw HS)
      as (st1 & w1 & E & SS & L1 & L2 & Fa & Um).
    rewrite app_nil_r in E. destruct SS as (S1 & S2 & S3 & S4 & S5).
    pose proof (whole_header_patch o (u_pre0 s) (u_p0 s) (u_old s) (u_new s) (u_t1 s) (u_t2 s) (u_h1 s) (u_name s) H3 H8 H9) as HP.
    pose proof (whole_scan o f0 (u_pre0 s) (u_p0 s) (u_old s) (u_new s) (u_t1 s) (u_t2 s) (u_h1 s) (u_hs s) H1 H3 H4 H5 H11) as HSc.
    match type of HSc with _ = Some ?x => set (st' := x) in * end.
    destruct (unified_sections_sum o f0 (u_pre s) (u_h1 s) (u_hs s) st' Hfo) with (t2 := t2) (st1 := st1) (sA := after []) (w := w) (w1 := w1)
      as [_ Sum].
    + apply whole_pre_clean; assumption.
    + exact H11.
    + exact HSc.
    + unfold st', u_pre. cbn [h_first]. rewrite app_length. cbn [length]. f_equal. lia.
    + reflexivity.
    + left. rewrite HP. reflexivity.
    + rewrite HP. cbn [set_oper poper]. destruct (decide_oper_cases (u_h1 s) (u_name s) (u_name s)) as [E0|[E0|E0]]; rewrite E0; discriminate.
    + exact Tok.
    + exact Tne.
    + rewrite HP. exact E.
    + rewrite S3. reflexivity.
    + rewrite S4. reflexivity.
    + exact Hhp.
    + intros _ q _. apply fresh_backup_iff. rewrite S2. intros [].
    + (* the others, in the world the first one has left *)
      destruct (IH tail w1) as (w' & E' & L1' & L2' & Fa' & Um'); try assumption; try discriminate.
      { intros s' I'. destruct (Hth s' (or_intror I')) as (d' & m' & Lf' & Q).
        exists d', m'. split; [|exact Q]. rewrite L2; [exact Lf'|]. intros Eq. apply Hni. rewrite <- Eq. apply in_map. exact I'. }
      exists w'. rewrite T. fold (u_text s) in Sum. change (join_lines (u_pre s) ++ emit_hunks (u_h1 s :: u_hs s)) with (u_text s) in Sum.
      rewrite Sum. unfold map_result. fold t2 in E'. rewrite E'.
      split; [unfold after_run, exit_of; rewrite S1, S5; reflexivity|].
      split; [|split; [|split; [exact Fa'|rewrite Um'; exact Um]]].
      * intros s' d' m' [<-|I'] L'.
        -- rewrite Lf in L'. inversion L'; subst. rewrite L2'; [exact L1|]. exact Hni.
        -- apply (L1' s' d' m' I'). rewrite L2; [exact L'|]. intros Eq. apply Hni. rewrite <- Eq. apply in_map. exact I'.
      * intros q Hq. rewrite L2'; [|intros I; apply Hq; right; exact I]. apply L2. intros ->. apply Hq. left. reflexivity.
Qed.
End Run.
Print Assumptions sections_apply.

(* ---------- non-vacuity: the output of "diff -ru a b" over two files, given to patch -p1 ---------- *)
Local Open Scope string_scope.
Definition exs_hg : hunk := mkHunk (mkRange 1 1) (mkRange 1 1) [mkPL Del (exl "c"); mkPL Add (exl "d")].
Definition exs_f : usec :=
  mkUS [bs "diff -ru a/f b/f"] (empty_patch FUnknown)
       (bs "a/f") (Some (bs "2024-03-01 10:00:00.000000000 +0100")) (bs "b/f") (Some (bs "2024-03-02 11:30:00.000000000 +0100"))
       ex_hunk1 [ex_hunk2] (bs "f") ex_A ex_B.
Definition exs_g : usec :=
  mkUS [bs "diff -ru a/g b/g"] (empty_patch FUnknown)
       (bs "a/g") (Some (bs "2024-03-01 10:00:00.000000000 +0100")) (bs "b/g") (Some (bs "2024-03-02 11:31:00.000000000 +0100"))
       exs_hg [] (bs "g") [exl "c"] [exl "d"].
Definition exs_text : list N :=
  bs "diff -ru a/f b/f" ++ nlb ++
  bs "--- a/f" ++ tabb ++ bs "2024-03-01 10:00:00.000000000 +0100" ++ nlb ++
  bs "+++ b/f" ++ tabb ++ bs "2024-03-02 11:30:00.000000000 +0100" ++ nlb ++
  bs "@@ -1,5 +1,5 @@" ++ nlb ++
  bs " a" ++ nlb ++ bs "-b" ++ nlb ++ bs "+B" ++ nlb ++ bs " c" ++ nlb ++ bs " d" ++ nlb ++ bs " e" ++ nlb ++
  bs "@@ -8,5 +8,6 @@" ++ nlb ++
  bs " h" ++ nlb ++ bs " i" ++ nlb ++ bs " j" ++ nlb ++ bs "-k" ++ nlb ++ bs "+K" ++ nlb ++ bs "+k2" ++ nlb ++
  bs "-l" ++ nlb ++ bs "+l" ++ nlb ++ bs "\ No newline at end of file" ++ nlb ++
  bs "diff -ru a/g b/g" ++ nlb ++
  bs "--- a/g" ++ tabb ++ bs "2024-03-01 10:00:00.000000000 +0100" ++ nlb ++
  bs "+++ b/g" ++ tabb ++ bs "2024-03-02 11:31:00.000000000 +0100" ++ nlb ++
  bs "@@ -1 +1 @@" ++ nlb ++ bs "-c" ++ nlb ++ bs "+d" ++ nlb.
Definition exs_world : world :=
  mkWorld [(bs "g", Reg (bs "c" ++ nlb) 384); (bs "f", Reg ex_dataA 420); (bs "h", Reg (bs "x" ++ nlb) 420)] 18 [] None [].

Lemma exs_wfg : wf_hunk exs_hg. Proof. wf_hunk_tac. Qed.

Lemma exs_ok_f : u_ok ex_p1 FUnknown exs_f.
Proof.
  unfold u_ok. cbn [exs_f u_pre0 u_p0 u_old u_t1 u_new u_t2 u_h1 u_hs u_name u_A u_B].
  split; [apply leads_fillers; repeat constructor; vm_compute; reflexivity|].
  split; [repeat constructor; vm_compute; intuition discriminate|].
  split; [repeat split; reflexivity|].
  split; [repeat split; vm_compute; intuition discriminate|].
  split; [repeat split; vm_compute; intuition discriminate|].
  split; [split; vm_compute; intuition discriminate|].
  split; [split; vm_compute; intuition discriminate|].
  split; [vm_compute; reflexivity|]. split; [vm_compute; reflexivity|].
  split; [split; vm_compute; intuition discriminate|].
  split; [constructor; [exact ex_wf1|constructor; [exact ex_wf2|constructor]]|].
  split; [exact ex_conf|]. split; [left; discriminate|]. split; [vm_compute; reflexivity|].
  split; [vm_compute; discriminate|reflexivity].
Qed.

Lemma exs_ok_g : u_ok ex_p1 FUnknown exs_g.
Proof.
  unfold u_ok. cbn [exs_g u_pre0 u_p0 u_old u_t1 u_new u_t2 u_h1 u_hs u_name u_A u_B].
  split; [apply leads_fillers; repeat constructor; vm_compute; reflexivity|].
  split; [repeat constructor; vm_compute; intuition discriminate|].
  split; [repeat split; reflexivity|].
  split; [repeat split; vm_compute; intuition discriminate|].
  split; [repeat split; vm_compute; intuition discriminate|].
  split; [split; vm_compute; intuition discriminate|].
  split; [split; vm_compute; intuition discriminate|].
  split; [vm_compute; reflexivity|]. split; [vm_compute; reflexivity|].
  split; [split; vm_compute; intuition discriminate|].
  split; [constructor; [exact exs_wfg|constructor]|].
  split; [apply (Conf_cons 0 0 [] exs_hg [] [] []); try reflexivity; [discriminate|constructor]|].
  split; [left; discriminate|]. split; [vm_compute; reflexivity|].
  split; [vm_compute; discriminate|reflexivity].
Qed.

Example sections_apply_nonvacuous :
  exists w',
    process_patch ex_p1 exs_text exs_world = (Ok (0, []), w') /\
    lookup (fs w') (bs "f") = Some (Reg ex_dataB 420) /\
    lookup (fs w') (bs "g") = Some (Reg (bs "d" ++ nlb) 384) /\
    (forall q, q <> bs "f" -> q <> bs "g" -> lookup (fs w') q = lookup (fs exs_world) q).
Proof.
  assert (E : exs_text = texts [exs_f; exs_g] ++ []) by (vm_compute; reflexivity).
  destruct (sections_apply ex_p1 FUnknown) with (ss := [exs_f; exs_g]) (tail := @nil N) (w := exs_world) as (w' & R & L1 & L2 & _).
  - repeat split; try reflexivity. vm_compute. discriminate.
  - reflexivity.
  - reflexivity.
  - discriminate.
  - constructor; [exact exs_ok_f|constructor; [exact exs_ok_g|constructor]].
  - constructor; [intros [H|[]]; discriminate H|constructor; [intros []|constructor]].
  - left. reflexivity.
  - reflexivity.
  - reflexivity.
  - intros s [<-|[<-|[]]].
    + exists ex_dataA, 420%N. repeat split; try reflexivity.
    + exists (bs "c" ++ nlb), 384%N. repeat split; try reflexivity.
  - exists w'. rewrite E. split; [exact R|].
    split; [|split].
    + assert (X : ex_dataB = lines_bytes (newline_output ex_p1) (u_B exs_f)) by (vm_compute; reflexivity). rewrite X.
      apply (L1 exs_f ex_dataA 420%N); [left; reflexivity|reflexivity].
    + assert (X : bs "d" ++ nlb = lines_bytes (newline_output ex_p1) (u_B exs_g)) by (vm_compute; reflexivity). rewrite X.
      apply (L1 exs_g (bs "c" ++ nlb) 384%N); [right; left; reflexivity|reflexivity].
    + intros q Q1 Q2. apply L2. intros [H|[H|[]]]; [apply Q1|apply Q2]; symmetry; exact H.
Qed.

Example sections_run_patch_same :
  let r := run_patch ex_p1 exs_text exs_world in
  rr_exit r = 0 /\ rr_events r = [] /\
  fs (rr_world r) = [(bs "g", Reg (bs "d" ++ nlb) 384); (bs "f", Reg ex_dataB 420); (bs "h", Reg (bs "x" ++ nlb) 420)].
Proof. vm_compute. repeat split; reflexivity. Qed.
