(* Spec_Names.v — specification vocabulary for C12: removing leading path components, C-style quoting.
   Does not mention the model. *)
From PatchV Require Import Base.

Definition SLASH : N := 47.

Fixpoint skip_slashes (s : list N) : list N :=
  match s with c :: r => if N.eqb c SLASH then skip_slashes r else s | [] => [] end.

(* one leading component: everything up to and including the first run of slashes; None when there is no slash *)
Fixpoint drop_component (s : list N) : option (list N) :=
  match s with
  | [] => None
  | c :: r => if N.eqb c SLASH then Some (skip_slashes r) else drop_component r
  end.

Fixpoint strip_n (n : nat) (s : list N) : option (list N) :=
  match n with
  | O => Some s
  | S k => match drop_component s with Some r => strip_n k r | None => None end
  end.

(* the part after the last slash *)
Definition is_basename (s b : list N) : Prop :=
  ~ In SLASH b /\ exists pre, s = pre ++ b /\ (pre = [] \/ exists q, pre = q ++ [SLASH]).

(* -pN: exactly N leading components removed, a run of slashes counting once; a name with fewer components (or of which
   nothing is left) is not used: the empty name *)
Definition strip_spec (path : list N) (n : nat) : list N :=
  match strip_n n path with Some r => r | None => [] end.

(* C-style quoting as diff tools emit it: backslash, quote, \n, \t, three octal digits for other control and 8-bit bytes *)
Definition octal3 (c : N) : list N := [48 + c / 64; 48 + (c / 8) mod 8; 48 + c mod 8]%N.

Definition cquote_char (c : N) : list N :=
  if N.eqb c 92 then [92; 92]%N
  else if N.eqb c 34 then [92; 34]%N
  else if N.eqb c 10 then [92; 110]%N
  else if N.eqb c 9 then [92; 116]%N
  else if N.ltb c 32 || N.leb 127 c then 92%N :: octal3 c
  else [c].

Definition cquote_body (name : list N) : list N := flat_map cquote_char name.
Definition cquote (name : list N) : list N := 34%N :: cquote_body name ++ [34%N].
