(* Proofs_DefineRun.v — C20 through the driver: what a section run with -D SYM writes to the file. *)
From PatchV Require Import Base Lines Hunk Locator Formatter Options Applier LineParser Parser World Driver
     Spec_Locate Spec_Apply Spec_Define Proofs_Base Proofs_Apply Proofs_Conf Proofs_World Proofs_Crash Proofs_Lines
     Proofs_EndToEnd Proofs_Define Proofs_Reverse Proofs_Whole.

(* ---------- (1) write_define_hunk answers when the old side of the hunk lies inside the file ---------- *)
Lemma nth_opt_in_range {A} : forall (l : list A) n, n < length l -> exists x, nth_opt l n = Some x.
Proof.
  induction l as [|a l IH]; intros n H; cbn [length] in H; [lia|].
  destruct n as [|n]; cbn [nth_opt]; [exists a; reflexivity|]. apply IH. lia.
Qed.

Lemma wdl_ok lines d : forall b ln st last,
  ln + length (old_side b) <= length lines ->
  exists out st' last', write_define_loop lines d b ln st last = Ok (out, ln + length (old_side b), st', last').
Proof.
  induction b as [|p r IH]; intros ln st last H; cbn [write_define_loop].
  - exists [], st, last. cbn [old_side length]. rewrite Nat.add_0_r. reflexivity.
  - rewrite old_side_cons in H |- *. unfold is_add in H |- *. destruct (pop p) eqn:E; cbn [length] in H |- *.
    + destruct (nth_opt_in_range lines ln) as [l El]; [lia|]. rewrite El.
      destruct (IH (S ln) DOutside (nl l)) as (o1 & s1 & l1 & E1); [lia|]. rewrite E1. cbn [rbind].
      replace (S ln + length (old_side r)) with (ln + S (length (old_side r))) by lia.
      eexists _, _, _. reflexivity.
    + destruct (match st with DElseOld => _ | s => _ end) as [[pre0 st0] ln0].
      destruct (match st0 with DOutside => _ | DIfndef => _ | s => _ end) as [pre st1].
      destruct (IH ln st1 (nl (pl p))) as (o1 & s1 & l1 & E1); [lia|]. rewrite E1. cbn [rbind].
      eexists _, _, _. reflexivity.
    + destruct (nth_opt_in_range lines ln) as [l El]; [lia|]. rewrite El.
      destruct (match st with DElseNew => _ | s => _ end) as [[pre0 st0] ln0].
      destruct (match st0 with DOutside => _ | DIfdef => _ | s => _ end) as [pre st1].
      destruct (IH (S ln) st1 (nl l)) as (o1 & s1 & l1 & E1); [lia|]. rewrite E1. cbn [rbind].
      replace (S ln + length (old_side r)) with (ln + S (length (old_side r))) by lia.
      eexists _, _, _. reflexivity.
Qed.

Lemma wdh_ok lines d ln b :
  ln + length (old_side b) <= length lines ->
  exists out, write_define_hunk lines d ln b = Ok (out, ln + length (old_side b)).
Proof.
  intros H. unfold write_define_hunk. destruct (wdl_ok lines d b ln DOutside LF H) as (o1 & s1 & l1 & E1).
  rewrite E1. cbn [rbind]. destruct (dstate_outside s1); eexists; reflexivity.
Qed.

(* one perfectly located hunk under -D, --verbose off: only the output differs from the run without -D *)
Lemma apply_one_perfect_def o p f k s h g :
  define_macro o <> [] -> verbose o = false -> a_skip s = false ->
  g + length (old_side (body h)) <= length f ->
  exists wo, apply_one o p f k s h (Some (mkLoc g 0 0)) =
  Ok (mkAS (a_out s ++ copy_range f (a_ln s) g ++ wo) (a_rej s) (a_rejected s)
           (g + length (old_side (body h))) (a_o2n s + (rcount (newr h) - rcount (oldr h)))%Z
           (sadd (a_offerr s) 0) false (a_perfect s && true) (a_msgs s) (a_hunks s ++ [h])).
Proof.
  intros Hd Hv Hs Hr. unfold apply_one. rewrite Hs, Hv.
  assert (Hn : is_nil (define_macro o) = false) by (destruct (define_macro o); [contradiction|reflexivity]).
  rewrite Hn. cbn [negb lline loffset].
  destruct (wdh_ok f (define_macro o) g (body h) Hr) as [wo Ew]. rewrite Ew.
  exists wo. cbn [rbind fst snd]. cbn. reflexivity.
Qed.

(* ---------- (2) the conforming walk under -D: every hunk at its stated line, nothing rejected, no message ---------- *)
Lemma apply_rest_conf_def o p : define_macro o <> [] -> verbose o = false -> (0 <= max_fuzz o)%Z ->
  forall hs a b A' B' done s k f,
  Conf a b A' B' hs -> f = done ++ A' -> length done = a ->
  (Z.of_nat (length f) < MAXZ)%Z ->
  creation_guard p f ->
  a_ln s = a -> a_offerr s = 0%Z -> a_skip s = false ->
  exists s', apply_rest o p f k s hs = Ok s' /\
             a_rejected s' = a_rejected s /\ a_rej s' = a_rej s /\ a_skip s' = false /\
             a_perfect s' = a_perfect s /\ a_msgs s' = a_msgs s.
Proof.
  intros Hd Hv HF. induction hs as [|h hs IH]; intros a b A' B' done s k f HC Ef Hlen Hmax Hk Hln Hoff Hsk.
  - exists s. cbn [apply_rest]. repeat split; auto.
  - inversion HC as [|a0 b0 gap h0 hs0 A0 B0 Hb Hoc Hnc Hos Hns HC']; subst a0 b0 h0 hs0 A' B'.
    cbn [apply_rest]. rewrite Hoff. rewrite (locate_for_guard p f h _ _ _ _ Hk).
    assert (E1 : f = (done ++ gap) ++ old_side (body h) ++ A0) by (rewrite Ef, <- app_assoc; reflexivity).
    assert (E2 : f = (done ++ gap ++ old_side (body h)) ++ A0) by (rewrite Ef, <- !app_assoc; reflexivity).
    assert (Lg : length (done ++ gap) = a + length gap) by (rewrite app_length; lia).
    assert (Lf : length (done ++ gap) + length (old_side (body h)) <= length f).
    { pose proof (f_equal (@length line) E1) as L1. rewrite !app_length in L1. rewrite app_length. lia. }
    rewrite (locate_conf (ignore_whitespace o) (max_fuzz o) (a_ln s) f (done ++ gap) A0 h E1 Hb Hoc).
    + destruct (apply_one_perfect_def o p f k s h _ Hd Hv Hsk Lf) as [wo Ewo]. rewrite Ewo. cbn [rbind].
      set (s1 := mkAS _ _ _ _ _ _ _ _ _ _).
      destruct (IH _ _ A0 B0 (done ++ gap ++ old_side (body h)) s1 (S k) f HC' E2) as (s' & Es & Hr & Hrej & Hs' & Hp & Hm).
      * rewrite !app_length. lia.
      * exact Hmax.
      * exact Hk.
      * unfold s1. cbn [a_ln]. rewrite Lg. lia.
      * unfold s1. cbn [a_offerr]. rewrite Hoff. reflexivity.
      * reflexivity.
      * exists s'. split; [exact Es|].
        unfold s1 in *. cbn [a_rejected a_rej a_skip a_perfect a_msgs] in *. repeat split; auto.
        rewrite Hp. apply andb_true_r.
    + rewrite Lg. rewrite Hos. rewrite Nat2Z.inj_add. reflexivity.
    + rewrite Lg. lia.
    + exact HF.
    + exact Hmax.
Qed.

(* apply_patch under -D on a conforming patch: it answers, nothing fails, and the output read by a preprocessor is B with
   the symbol defined and A without *)
Theorem apply_conforming_define o p A B :
  define_macro o <> [] -> verbose o = false -> (0 <= max_fuzz o)%Z ->
  Conforming A B (hunks (effective o p)) -> (Z.of_nat (length A) < MAXZ)%Z ->
  creation_guard (effective o p) A ->
  Forall (line_ok (define_macro o)) A ->
  Forall (fun h => body_ok (define_macro o) (body h)) (hunks p) ->
  exists r, apply_patch o A p = Ok r /\
            cpp_eval (define_macro o) true (r_out r) = Some B /\
            cpp_eval (define_macro o) false (r_out r) = Some A /\
            r_failed r = 0 /\ r_rej r = [] /\
            r_skipped r = false /\ r_perfect r = true /\ r_msgs r = [] /\
            exists hs', r_patch r = set_hunks (effective o p) hs'.
Proof.
  intros Hd Hv HF HC Hmax Hk HA Hb.
  assert (Ex : exists r, apply_patch o A p = Ok r /\ r_perfect r = true /\ exists hs', r_patch r = set_hunks (effective o p) hs').
  { unfold apply_patch. fold (effective o p). fold init_state. set (p1 := effective o p) in *.
    destruct (apply_rest_conf_def o p1 Hd Hv HF (hunks p1) 0 0 A B [] init_state 0 A HC eq_refl eq_refl Hmax Hk eq_refl eq_refl eq_refl)
      as (s' & Es & H1 & H2 & H3 & H4 & H5).
    assert (Ef : apply_first o p1 A init_state (hunks p1) = Ok (s', p1)).
    { destruct (hunks p1) as [|h hs] eqn:Eh; [cbn in Es |- *; congruence|].
      rewrite apply_first_perfect; [unfold with_patch; rewrite Es; reflexivity|].
      unfold Conforming in HC. inversion HC as [|a0 b0 gap h0 hs0 A0 B0 Hb0 Hoc Hnc Hos Hns HC' Ea Eb]; subst.
      cbn [a_offerr a_ln init_state]. rewrite (locate_for_guard p1 _ h _ _ _ _ Hk).
      rewrite (locate_conf (ignore_whitespace o) (max_fuzz o) 0 (gap ++ old_side (body h) ++ A0) gap A0 h eq_refl Hb0 Hoc Hos).
      - reflexivity.
      - lia.
      - exact HF.
      - exact Hmax. }
    rewrite Ef. cbn [rbind fst snd]. eexists. split; [reflexivity|]. cbn [r_perfect r_patch]. split; [exact H4|].
    eexists. reflexivity. }
  destruct Ex as (r & Er & Rp & Rh).
  destruct (define_eval o A p r Hd HA Hb Er) as (r' & Er' & Et & Ef & F1 & F2 & F3 & F4).
  assert (HC' : Conforming A B (hunks (effective (no_define o) p))) by exact HC.
  assert (Hk' : creation_guard (effective (no_define o) p) A) by exact Hk.
  destruct (apply_conforming_gen_full (no_define o) p A B eq_refl Hv HF HC' Hmax Hk')
    as (r2 & Er2 & Ro & Rf & Rr & Rs & _ & Rm & _).
  rewrite Er' in Er2. injection Er2 as <-.
  exists r. split; [exact Er|]. rewrite <- Ro. split; [exact Et|]. split; [exact Ef|].
  rewrite <- F1, <- F2, <- F4, <- F3. repeat split; try assumption.
Qed.

(* ---------- (3) the section ---------- *)
(* plain options but for -D: the file comes from the patch, no -o, no --dry-run, no -b, no --verbose, -F >= 0 *)
Definition define_options (o : options) : Prop :=
  file_to_patch o = [] /\ out_file_path o = [] /\ dry_run o = false /\ save_backup o = false /\ define_macro o <> [] /\
  verbose o = false /\ (0 <= max_fuzz o)%Z.

Theorem section_define o p f A B st s w data mode :
  define_options o -> reverse_patch_opt o = false ->
  pfmt p <> FGit -> (poper p = OpChange \/ poper p = OpAdd \/ poper p = OpDelete) ->
  prereq p = [] -> old_path p = f -> new_path p = f -> new_mode p = 0%N ->
  f <> Driver.devnull -> f <> [] -> ~ In 47%N f ->
  Conforming A B (hunks p) ->
  Forall (line_ok (define_macro o)) A ->
  Forall (fun h => body_ok (define_macro o) (body h)) (hunks p) ->
  remove_empty_files o <> OBYes ->
  (Z.of_nat (length A) < MAXZ)%Z ->
  fault w = None -> deferred_writes st = [] ->
  lookup (fs w) f = Some (Reg data mode) -> (mode < 4096)%N -> owner_r mode = true -> owner_w mode = true ->
  split_lines data = A ->
  exists st' w' R,
    process_section o st false p s w = (Ok (st', s), w') /\
    lookup (fs w') f = Some (Reg (lines_bytes (newline_output o) R) mode) /\
    cpp_eval (define_macro o) true R = Some B /\
    cpp_eval (define_macro o) false R = Some A /\
    (forall q, q <> f -> lookup (fs w') q = lookup (fs w) q) /\
    same_state st st' /\ fault w' = None /\ umask w' = umask w.
Proof.
  intros (O1 & O2 & O3 & O4 & O5 & O6 & O8) Rv Pf Pop P3 Po Pn Pm Hd Hn Hs HC HA HB Ne Hx Fw Dw Lf Hm Hr Hw HX.
  pose proof (owner_w_write_mask _ Hw) as Hw2.
  assert (Ex : exists_ (fs w) f = true) by (unfold exists_; rewrite (stat_reg _ _ _ _ Hs Lf); reflexivity).
  assert (G : guess_filepath (fs w) (map d_dest (deferred_writes st)) p o = f).
  { unfold guess_filepath. rewrite Po. apply str_eqb_neq in Hd. rewrite Hd. cbn [negb andb]. rewrite Ex. reflexivity. }
  assert (Out : output_path o p f = f) by (unfold output_path; rewrite O2; destruct Pop as [E|[E|E]]; rewrite E; reflexivity).
  rewrite (head_existing o st p s w f data mode O1 G Out Dw Fw Lf Hm Hr (or_introl Hw2) P3).
  2:{ destruct Pop as [E|[E|E]]; rewrite E; discriminate. } 2: exact Hn. 2: exact Hs.
  rewrite HX.
  assert (Eff : effective o p = p) by (unfold effective; rewrite Rv; reflexivity).
  assert (Guard : creation_guard (effective o p) A).
  { rewrite Eff. intros E. exfalso. unfold creates_file in E. rewrite Po in E. apply str_eqb_eq in E. contradiction. }
  assert (HC' : Conforming A B (hunks (effective o p))) by (rewrite Eff; exact HC).
  destruct (apply_conforming_define o p A B O5 O6 O8 HC' Hx Guard HA HB) as (r & Er & Rt & Rff & Rf & Rr & Rs & Rp & Rm & hs & Hp3).
  rewrite Eff in Hp3.
  rewrite mbind_eq. unfold mlift. rewrite Er.
  apply N.eqb_neq in Hw2. rewrite Hw2.
  assert (Q1 : pfmt (r_patch r) <> FGit) by (rewrite Hp3; exact Pf).
  assert (Q2 : poper (r_patch r) = OpChange \/ poper (r_patch r) = OpAdd \/ poper (r_patch r) = OpDelete) by (rewrite Hp3; exact Pop).
  assert (Q3 : new_mode (r_patch r) = 0%N) by (rewrite Hp3; exact Pm).
  assert (Q4 : new_path (r_patch r) <> Driver.devnull) by (rewrite Hp3; cbn [set_hunks new_path]; congruence).
  assert (Nb : remove_empty_files o <> OBYes \/ lines_bytes (newline_output o) (r_out r) <> []) by (left; exact Ne).
  rewrite (tail_write_any o st f f mode mode r s _ O2 O3 O4 Rf Rs Rp Rm Q1 Q2 Q3 Q4 Nb Hn Hs).
  assert (Unk : N.eqb mode perms_unknown = false) by (apply N.eqb_neq; unfold perms_unknown; lia).
  rewrite Unk.
  set (w1 := mkWorld (fs w) (umask w) (trace w ++ [OOpenRead f]) None (stdout_data w)).
  destruct (write_existing o (add_event st []) f (lines_bytes (newline_output o) (r_out r)) mode w1 data mode eq_refl Hs Lf Hw)
    as (w' & Ew & Fs' & Fa' & Um').
  rewrite mbind_eq, Ew. cbn [mret].
  eexists. exists w', (r_out r). split; [reflexivity|]. rewrite Fs'.
  destruct (upd_upd_lookup (fs w) f (Reg (lines_bytes (newline_output o) (r_out r)) mode) (Reg (lines_bytes (newline_output o) (r_out r)) mode)) as [L1 L2].
  split; [exact L1|]. split; [exact Rt|]. split; [exact Rff|]. split; [exact L2|]. split; [apply same_state_add_event|]. split; [exact Fa'|exact Um'].
Qed.
Print Assumptions apply_conforming_define.
Print Assumptions section_define.

(* what is read back: when reading the bytes written gives the lines written back (newline_output = MKeep, or content whose
   terminators are all LF under any mode but MCRLF), the statement is about the file as a later reader sees it *)
Corollary section_define_readback o p f A B st s w data mode :
  define_options o -> reverse_patch_opt o = false ->
  pfmt p <> FGit -> (poper p = OpChange \/ poper p = OpAdd \/ poper p = OpDelete) ->
  prereq p = [] -> old_path p = f -> new_path p = f -> new_mode p = 0%N ->
  f <> Driver.devnull -> f <> [] -> ~ In 47%N f ->
  Conforming A B (hunks p) ->
  Forall (line_ok (define_macro o)) A ->
  Forall (fun h => body_ok (define_macro o) (body h)) (hunks p) ->
  remove_empty_files o <> OBYes ->
  (Z.of_nat (length A) < MAXZ)%Z ->
  fault w = None -> deferred_writes st = [] ->
  lookup (fs w) f = Some (Reg data mode) -> (mode < 4096)%N -> owner_r mode = true -> owner_w mode = true ->
  split_lines data = A ->
  (forall R, cpp_eval (define_macro o) false R = Some A -> split_lines (lines_bytes (newline_output o) R) = R) ->
  exists st' w' out,
    process_section o st false p s w = (Ok (st', s), w') /\
    lookup (fs w') f = Some (Reg out mode) /\
    cpp_eval (define_macro o) true (split_lines out) = Some B /\
    cpp_eval (define_macro o) false (split_lines out) = Some A /\
    (forall q, q <> f -> lookup (fs w') q = lookup (fs w) q) /\
    same_state st st' /\ fault w' = None /\ umask w' = umask w.
Proof.
  intros H1 H2 H3 H4 H5 H6 H7 H8 H9 H10 H11 H12 H13 H14 H15 H16 H17 H18 H19 H20 H21 H22 H23 Hrb.
  destruct (section_define o p f A B st s w data mode H1 H2 H3 H4 H5 H6 H7 H8 H9 H10 H11 H12 H13 H14 H15 H16 H17 H18 H19 H20 H21 H22 H23)
    as (st' & w' & R & E & L & Et & Ef & Fr & Ss & Fa & Um).
  exists st', w', (lines_bytes (newline_output o) R). rewrite (Hrb R Ef). repeat split; try assumption; apply Ss.
Qed.
Print Assumptions section_define_readback.

(* ---------- example: A = a,b,c; B = a,B,c; -D SYM ---------- *)
Local Open Scope string_scope.
Definition dx_l (s : String.string) : line := mkLine (bs s) LF.
Definition dx_A : list line := [dx_l "a"; dx_l "b"; dx_l "c"].
Definition dx_B : list line := [dx_l "a"; dx_l "B"; dx_l "c"].
Definition dx_h : hunk := mkHunk (mkRange 1 3) (mkRange 1 3) [mkPL Ctx (dx_l "a"); mkPL Del (dx_l "b"); mkPL Add (dx_l "B"); mkPL Ctx (dx_l "c")].
Definition dx_o : options :=
  mkOptions false false [] (bs "SYM") false [] false false false [] (-1) 2 false [] [] false false false false false false false false
            OBUnset OBUnset MNative RFDefault ROWarn QSUnset [] [].
Definition dx_p : patch := mkPatch FUnified OpChange [] [] (bs "f") (bs "f") [] [] 0 0 [dx_h].
Definition dx_data : list N := lines_bytes MKeep dx_A.
Definition dx_world : world := mkWorld [(bs "f", Reg dx_data 420); (bs "g", Reg (bs "other") 384)] 18 [] None [].
Definition dx_st : Driver.dstate := mkDS false [] [] [] [].
Definition dx_out : list N :=
  lines_bytes MKeep (map dx_l ["a"; "#ifndef SYM"; "b"; "#else"; "B"; "#endif"; "c"]).
Definition dx_text : list N :=
  lines_bytes MKeep (map dx_l ["--- f"; "+++ f"; "@@ -1,3 +1,3 @@"; " a"; "-b"; "+B"; " c"]).

Example section_define_nonvacuous : forall s,
  exists st' w' R,
    process_section dx_o dx_st false dx_p s dx_world = (Ok (st', s), w') /\
    lookup (fs w') (bs "f") = Some (Reg (lines_bytes (newline_output dx_o) R) 420) /\
    cpp_eval (bs "SYM") true R = Some dx_B /\
    cpp_eval (bs "SYM") false R = Some dx_A /\
    (forall q, q <> bs "f" -> lookup (fs w') q = lookup (fs dx_world) q) /\
    same_state dx_st st' /\ fault w' = None /\ umask w' = umask dx_world.
Proof.
  intros s.
  apply (section_define dx_o dx_p (bs "f") dx_A dx_B dx_st s dx_world dx_data 420).
  - repeat split; try reflexivity; vm_compute; discriminate.
  - reflexivity.
  - discriminate.
  - left. reflexivity.
  - reflexivity.
  - reflexivity.
  - reflexivity.
  - reflexivity.
  - vm_compute. discriminate.
  - discriminate.
  - vm_compute. intuition discriminate.
  - apply (Conf_cons 0 0 [] dx_h [] [] []); try reflexivity; [discriminate|constructor].
  - repeat constructor; vm_compute; discriminate.
  - repeat constructor; vm_compute; discriminate.
  - discriminate.
  - vm_compute. reflexivity.
  - reflexivity.
  - reflexivity.
  - reflexivity.
  - vm_compute. reflexivity.
  - reflexivity.
  - reflexivity.
  - vm_compute. reflexivity.
Qed.

(* the whole program on the same data, by computation: the bytes written, and what a preprocessor makes of them *)
Example run_patch_define_same :
  let r := run_patch dx_o dx_text dx_world in
  rr_exit r = 0 /\ rr_events r = [] /\
  lookup (fs (rr_world r)) (bs "f") = Some (Reg dx_out 420) /\
  lookup (fs (rr_world r)) (bs "g") = Some (Reg (bs "other") 384) /\
  cpp_eval (bs "SYM") true (split_lines dx_out) = Some dx_B /\
  cpp_eval (bs "SYM") false (split_lines dx_out) = Some dx_A /\
  trace (rr_world r) = [OOpenRead (bs "f"); OWrite (bs "f") dx_out; OChmod (bs "f") 420].
Proof. vm_compute. repeat split; reflexivity. Qed.
