(* Proofs_Status.v — C04 at driver level, part 1: failing to place a hunk never throws.
   The only exceptions apply_patch can raise are (a) the reject writer in context format on a hunk whose counts disagree
   with its body, (b) the question "reversed patch?" with no terminal, (c) write_define_hunk under -D. *)
From PatchV Require Import Base Lines Hunk Locator Formatter Options Applier Spec_Locate Spec_Apply
     Proofs_Base Proofs_Locate Proofs_Apply.

(* ---------- when does write_hunk_as_context answer ---------- *)
Definition n_old (b : list pline) : nat := length (old_side b).
Definition n_new (b : list pline) : nat := length (new_side b).

(* the exact condition: no old-side line is met when the old counter has reached the stated old count, the same on the new
   side, and at least one of the two stated counts is the true one *)
Definition ctx_writable (h : hunk) : Prop :=
  (rcount (oldr h) < 0 \/ Z.of_nat (n_old (body h)) <= rcount (oldr h))%Z /\
  (rcount (newr h) < 0 \/ Z.of_nat (n_new (body h)) <= rcount (newr h))%Z /\
  (Z.of_nat (n_new (body h)) = rcount (newr h) \/ Z.of_nat (n_old (body h)) = rcount (oldr h)).

(* the usual, stronger condition: both counts are the numbers of lines of the two sides *)
Definition hunk_counts_ok (h : hunk) : Prop :=
  rcount (oldr h) = Z.of_nat (n_old (body h)) /\ rcount (newr h) = Z.of_nat (n_new (body h)).

Lemma counts_ok_writable h : hunk_counts_ok h -> ctx_writable h.
Proof. unfold hunk_counts_ok, ctx_writable. intros [A B]. lia. Qed.

Lemma n_old_cons p r : n_old (p :: r) = if is_add p then n_old r else S (n_old r).
Proof. unfold n_old. rewrite old_side_cons. destruct (is_add p); reflexivity. Qed.
Lemma n_new_cons p r : n_new (p :: r) = if is_del p then n_new r else S (n_new r).
Proof. unfold n_new. rewrite new_side_cons. destruct (is_del p); reflexivity. Qed.

Lemma bang_length l : length (bang l) = length l.
Proof. unfold bang. apply map_length. Qed.

Lemma make_change_old s c : cs_old_size (make_change s c) = cs_old_size s.
Proof. unfold make_change. destruct (cop_eqb (cs_op s) c); [reflexivity|]. unfold cs_old_size. cbn [cs_old_done cs_old_pend]. rewrite bang_length. reflexivity. Qed.
Lemma make_change_new s c : cs_new_size (make_change s c) = cs_new_size s.
Proof. unfold make_change. destruct (cop_eqb (cs_op s) c); [reflexivity|]. unfold cs_new_size. cbn [cs_new_done cs_new_pend]. rewrite bang_length. reflexivity. Qed.

(* one line *)
Lemma ctx_step_spec oc nc s p :
  match ctx_step oc nc s p with
  | Ok s' =>
      cs_old_size s' = (if is_add p then cs_old_size s else S (cs_old_size s)) /\
      cs_new_size s' = (if is_del p then cs_new_size s else S (cs_new_size s)) /\
      (is_add p = false -> Z.of_nat (cs_old_size s) <> oc) /\
      (is_del p = false -> Z.of_nat (cs_new_size s) <> nc)
  | Throw e =>
      e = ERuntime /\
      ((is_add p = false /\ Z.of_nat (cs_old_size s) = oc) \/ (is_del p = false /\ Z.of_nat (cs_new_size s) = nc))
  end.
Proof.
  unfold ctx_step, is_add, is_del. destruct (pop p).
  - destruct (Z.eqb_spec (Z.of_nat (cs_old_size s)) oc) as [E1|E1]; [split; [reflexivity|left; auto]|].
    destruct (Z.eqb_spec (Z.of_nat (cs_new_size s)) nc) as [E2|E2]; [split; [reflexivity|right; auto]|].
    unfold cs_old_size, cs_new_size. cbn [cs_old_done cs_old_pend cs_new_done cs_new_pend].
    rewrite !app_length. cbn [length]. repeat split; auto; lia.
  - destruct (Z.eqb_spec (Z.of_nat (cs_new_size s)) nc) as [E2|E2]; [split; [reflexivity|right; auto]|].
    destruct (cop_eqb (cs_op s) CSp).
    + unfold cs_old_size, cs_new_size. cbn [cs_old_done cs_old_pend cs_new_done cs_new_pend].
      rewrite !app_length. cbn [length]. repeat split; auto; try lia; discriminate.
    + pose proof (make_change_old s CPlus) as Ho. pose proof (make_change_new s CPlus) as Hn.
      unfold cs_old_size, cs_new_size in *. cbn [cs_old_done cs_old_pend cs_new_done cs_new_pend].
      rewrite !app_length. cbn [length]. repeat split; auto; try lia; discriminate.
  - destruct (Z.eqb_spec (Z.of_nat (cs_old_size s)) oc) as [E1|E1]; [split; [reflexivity|left; auto]|].
    destruct (cop_eqb (cs_op s) CSp).
    + unfold cs_old_size, cs_new_size. cbn [cs_old_done cs_old_pend cs_new_done cs_new_pend].
      rewrite !app_length. cbn [length]. repeat split; auto; try lia; discriminate.
    + pose proof (make_change_old s CMinus) as Ho. pose proof (make_change_new s CMinus) as Hn.
      unfold cs_old_size, cs_new_size in *. cbn [cs_old_done cs_old_pend cs_new_done cs_new_pend].
      rewrite !app_length. cbn [length]. repeat split; auto; try lia; discriminate.
Qed.

(* the whole body, from any state: it goes through exactly when neither stated count lies in the range of values the
   counter takes before a line of that side *)
Definition clear_of (c : Z) (from n : nat) : Prop := (c < Z.of_nat from \/ Z.of_nat (from + n) <= c)%Z.

Lemma ctx_fold_spec oc nc : forall b s,
  match ctx_fold oc nc s b with
  | Ok s' => cs_old_size s' = cs_old_size s + n_old b /\ cs_new_size s' = cs_new_size s + n_new b /\
             clear_of oc (cs_old_size s) (n_old b) /\ clear_of nc (cs_new_size s) (n_new b)
  | Throw e => e = ERuntime /\ ~ (clear_of oc (cs_old_size s) (n_old b) /\ clear_of nc (cs_new_size s) (n_new b))
  end.
Proof.
  induction b as [|p r IH]; intros s; cbn [ctx_fold].
  - unfold n_old, n_new, clear_of. cbn. repeat split; try lia.
  - rewrite n_old_cons, n_new_cons. pose proof (ctx_step_spec oc nc s p) as H1.
    destruct (ctx_step oc nc s p) as [s1|e]; cbn [rbind].
    + destruct H1 as (O1 & N1 & Co & Cn). specialize (IH s1).
      destruct (ctx_fold oc nc s1 r) as [s2|e].
      * destruct IH as (O2 & N2 & Ko & Kn). rewrite O2, N2, O1, N1. unfold clear_of in *. rewrite O1 in Ko. rewrite N1 in Kn.
        destruct (is_add p), (is_del p); repeat split; try lia;
          try (specialize (Co eq_refl)); try (specialize (Cn eq_refl)); lia.
      * destruct IH as (-> & K). split; [reflexivity|]. intros [Ko Kn]. apply K. unfold clear_of in *. rewrite O1, N1.
        destruct (is_add p), (is_del p); split; lia.
    + destruct H1 as (-> & K). split; [reflexivity|]. unfold clear_of. intros [Ko Kn].
      destruct K as [[A E]|[A E]]; rewrite A in *; lia.
Qed.

Lemma write_hunk_as_context_spec h :
  match write_hunk_as_context h with
  | Ok _ => ctx_writable h
  | Throw e => e = ERuntime /\ ~ ctx_writable h
  end.
Proof.
  unfold write_hunk_as_context, ctx_writable.
  pose proof (ctx_fold_spec (rcount (oldr h)) (rcount (newr h)) (body h) (mkCS [] [] [] [] CSp true true)) as H.
  destruct (ctx_fold _ _ _ (body h)) as [s|e0]; cbn [rbind].
  - destruct H as (O & N & Ko & Kn). unfold clear_of, cs_old_size, cs_new_size in O, N, Ko, Kn. cbn in O, N, Ko, Kn.
    rewrite <- app_length in O, N. rewrite O, N.
    destruct (Z.eqb_spec (Z.of_nat (n_new (body h))) (rcount (newr h))) as [E1|E1]; cbn [negb andb].
    + assert (W : (rcount (oldr h) < 0 \/ Z.of_nat (n_old (body h)) <= rcount (oldr h))%Z /\
                  (rcount (newr h) < 0 \/ Z.of_nat (n_new (body h)) <= rcount (newr h))%Z /\
                  (Z.of_nat (n_new (body h)) = rcount (newr h) \/ Z.of_nat (n_old (body h)) = rcount (oldr h))) by (repeat split; auto; lia).
      destruct (cs_all_ins s); [exact W|]. destruct (cs_all_del s); exact W.
    + destruct (Z.eqb_spec (Z.of_nat (n_old (body h))) (rcount (oldr h))) as [E2|E2]; cbn [negb].
      * assert (W : (rcount (oldr h) < 0 \/ Z.of_nat (n_old (body h)) <= rcount (oldr h))%Z /\
                  (rcount (newr h) < 0 \/ Z.of_nat (n_new (body h)) <= rcount (newr h))%Z /\
                  (Z.of_nat (n_new (body h)) = rcount (newr h) \/ Z.of_nat (n_old (body h)) = rcount (oldr h))) by (repeat split; auto; lia).
        destruct (cs_all_ins s); [exact W|]. destruct (cs_all_del s); exact W.
      * split; [reflexivity|]. intros (_ & _ & [F|F]); congruence.
  - destruct H as (-> & K). split; [reflexivity|]. intros (Ho & Hn & _). apply K.
    unfold clear_of, cs_old_size, cs_new_size. cbn. split; lia.
Qed.

(* the exact condition, both ways *)
Theorem write_hunk_as_context_iff h : (exists t, write_hunk_as_context h = Ok t) <-> ctx_writable h.
Proof.
  pose proof (write_hunk_as_context_spec h) as H. destruct (write_hunk_as_context h) as [t|e].
  - split; [intros _; exact H|intros _; eauto].
  - destruct H as [_ H]. split; [intros [t E]; discriminate|intros W; contradiction].
Qed.

Lemma write_hunk_as_context_throw h e : write_hunk_as_context h = Throw e -> e = ERuntime /\ ~ ctx_writable h.
Proof. intros E. pose proof (write_hunk_as_context_spec h) as H. rewrite E in H. exact H. Qed.

(* ---------- the reject writer ---------- *)
Definition rejectable (o : options) (p : patch) (h : hunk) : Prop :=
  should_write_as_unified o p = true \/ ctx_writable h.

Lemma n_old_reverse : forall b, n_old (map reverse_pline b) = n_new b.
Proof.
  induction b as [|p r IH]; [reflexivity|]. cbn [map]. rewrite n_old_cons, n_new_cons, IH.
  unfold is_add, is_del, reverse_pline. cbn [pop]. destruct (pop p); reflexivity.
Qed.
Lemma n_new_reverse : forall b, n_new (map reverse_pline b) = n_old b.
Proof.
  induction b as [|p r IH]; [reflexivity|]. cbn [map]. rewrite n_old_cons, n_new_cons, IH.
  unfold is_add, is_del, reverse_pline. cbn [pop]. destruct (pop p); reflexivity.
Qed.

Lemma ctx_writable_shift h d : ctx_writable (shift_hunk h d) <-> ctx_writable h.
Proof. unfold ctx_writable, shift_hunk. cbn [oldr newr body rcount]. tauto. Qed.

Lemma ctx_writable_shift_eq h d : ctx_writable (shift_hunk h d) = ctx_writable h.
Proof. reflexivity. Qed.

Lemma ctx_writable_reverse h : ctx_writable (reverse_hunk h) <-> ctx_writable h.
Proof. unfold ctx_writable, reverse_hunk. cbn [oldr newr body]. rewrite n_old_reverse, n_new_reverse. tauto. Qed.

Lemma unified_reverse o p : should_write_as_unified o (reverse_patch p) = should_write_as_unified o p.
Proof. reflexivity. Qed.

Lemma rejectable_reverse o p h : rejectable o (reverse_patch p) (reverse_hunk h) <-> rejectable o p h.
Proof. unfold rejectable. rewrite unified_reverse, ctx_writable_reverse. tauto. Qed.

Lemma write_reject_spec o p n h :
  match write_reject o p n h with
  | Ok _ => rejectable o p h
  | Throw e => e = ERuntime /\ should_write_as_unified o p = false /\ ~ ctx_writable h
  end.
Proof.
  unfold write_reject, rejectable. destruct (should_write_as_unified o p); [left; reflexivity|].
  pose proof (write_hunk_as_context_spec h) as H. destruct (write_hunk_as_context h) as [t|e]; cbn [rbind].
  - right; exact H.
  - destruct H as [-> H]. auto.
Qed.

(* what makes a run of hunks unwritable: the reject format is context and some hunk has counts that disagree with its body *)
Definition unwritable (o : options) (p : patch) (hs : list hunk) : Prop :=
  should_write_as_unified o p = false /\ Exists (fun h => ~ ctx_writable h) hs.

Lemma unwritable_not_all o p hs : unwritable o p hs -> Forall (rejectable o p) hs -> False.
Proof.
  intros [U E] F. apply Exists_exists in E. destruct E as (h & I & N). rewrite Forall_forall in F.
  destruct (F h I) as [X|X]; [congruence|contradiction].
Qed.

(* ---------- -D: write_define_hunk throws exactly when a deleted line lies beyond the end of the file ---------- *)
Fixpoint dels_in_range (n : nat) (ln : nat) (b : list pline) : Prop :=
  match b with
  | [] => True
  | p :: r => match pop p with
              | Ctx => dels_in_range n (S ln) r
              | Add => dels_in_range n ln r
              | Del => ln < n /\ dels_in_range n (S ln) r
              end
  end.

Lemma nth_opt_none {A} (l : list A) n : nth_opt l n = None <-> length l <= n.
Proof. rewrite nth_opt_nth_error. apply nth_error_None. Qed.

Lemma write_define_loop_spec lines define : forall b ln st last,
  match write_define_loop lines define b ln st last with
  | Ok _ => dels_in_range (length lines) ln b
  | Throw e => e = EOutOfRange /\ ~ dels_in_range (length lines) ln b
  end.
Proof.
  induction b as [|p r IH]; intros ln st last; cbn [write_define_loop dels_in_range]; [exact I|].
  destruct (pop p).
  - destruct (nth_opt lines ln) as [l|]; [|apply IH].
    specialize (IH (S ln) DOutside (nl l)).
    destruct (write_define_loop lines define r (S ln) DOutside (nl l)) as [[[[o e] st'] ln']|e]; cbn [rbind]; exact IH.
  - destruct st; cbn;
      match goal with |- context [write_define_loop lines define r ?a ?b ?c] =>
        specialize (IH a b c); destruct (write_define_loop lines define r a b c) as [[[[o e] st'] ln']|e] end; cbn [rbind]; exact IH.
  - destruct (nth_opt lines ln) as [l|] eqn:En.
    + assert (L : ln < length lines).
      { destruct (le_lt_dec (length lines) ln) as [G|G]; [|exact G]. apply nth_opt_none in G. congruence. }
      destruct st; cbn;
        match goal with |- context [write_define_loop lines define r ?a ?b ?c] =>
          specialize (IH a b c); destruct (write_define_loop lines define r a b c) as [[[[o e] st'] ln']|e] end; cbn [rbind];
        try (split; [exact L|exact IH]);
        (destruct IH as [-> IH]; split; [reflexivity|]; intros [_ K]; apply IH; exact K).
    + apply nth_opt_none in En. split; [reflexivity|]. intros [K _]. lia.
Qed.

Lemma write_define_hunk_spec lines define ln b :
  match write_define_hunk lines define ln b with
  | Ok _ => dels_in_range (length lines) ln b
  | Throw e => e = EOutOfRange /\ ~ dels_in_range (length lines) ln b
  end.
Proof.
  unfold write_define_hunk. pose proof (write_define_loop_spec lines define b ln DOutside LF) as H.
  destruct (write_define_loop lines define b ln DOutside LF) as [[[[o e] st] last]|e]; cbn [rbind]; [|exact H].
  destruct (dstate_outside st); exact H.
Qed.

(* a hunk the locator has placed has all its old-side lines inside the file, provided its old count is right *)
Lemma dels_app n : forall x y ln, dels_in_range n ln (x ++ y) <-> dels_in_range n ln x /\ dels_in_range n (ln + n_old x) y.
Proof.
  induction x as [|p r IH]; intros y ln; cbn [app dels_in_range].
  - unfold n_old. cbn. rewrite Nat.add_0_r. tauto.
  - rewrite n_old_cons. unfold is_add. destruct (pop p).
    + rewrite IH. replace (S ln + n_old r) with (ln + S (n_old r)) by lia. tauto.
    + rewrite IH. tauto.
    + rewrite IH. replace (S ln + n_old r) with (ln + S (n_old r)) by lia. tauto.
Qed.

Lemma dels_all_ctx n : forall x ln, Forall (fun p => pop p = Ctx) x -> dels_in_range n ln x.
Proof. induction x as [|p r IH]; intros ln F; cbn [dels_in_range]; [exact I|]. inversion F as [|? ? E F']; subst. rewrite E. apply IH. exact F'. Qed.

Lemma dels_fits n : forall x ln, ln + n_old x <= n -> dels_in_range n ln x.
Proof.
  induction x as [|p r IH]; intros ln L; cbn [dels_in_range]; [exact I|].
  rewrite n_old_cons in L. unfold is_add in L. destruct (pop p).
  - apply IH. lia.
  - apply IH. lia.
  - split; [lia|apply IH; lia].
Qed.

Lemma dels_no_old n : forall x ln, n_old x = 0 -> dels_in_range n ln x.
Proof.
  induction x as [|p r IH]; intros ln L; cbn [dels_in_range]; [exact I|].
  rewrite n_old_cons in L. unfold is_add in L. destruct (pop p); try discriminate. apply IH. exact L.
Qed.

Lemma n_old_all_ctx : forall x, Forall (fun p => pop p = Ctx) x -> n_old x = length x.
Proof.
  induction x as [|p r IH]; intros F; [reflexivity|]. inversion F as [|? ? E F']; subst.
  rewrite n_old_cons. unfold is_add. rewrite E. cbn [length]. rewrite (IH F'). reflexivity.
Qed.

Lemma skipn_skipn {A} : forall a b (l : list A), skipn a (skipn b l) = skipn (b + a) l.
Proof. intros a b; induction b as [|b IH]; intros l; [reflexivity|]. destruct l; [destruct a; reflexivity|]. cbn [skipn plus]. apply IH. Qed.

Lemma body_three_parts {A} (b : list A) pf sf : pf + sf < length b ->
  b = firstn pf b ++ middle pf sf b ++ skipn (length b - sf) b.
Proof.
  intros L. unfold middle. rewrite <- (firstn_skipn pf b) at 1. f_equal.
  rewrite <- (firstn_skipn (length b - pf - sf) (skipn pf b)) at 1. f_equal.
  rewrite skipn_skipn. f_equal. lia.
Qed.

Lemma Forall2_same_length {A B} (R : A -> B -> Prop) l m : Forall2 R l m -> length l = length m.
Proof. induction 1; cbn; congruence. Qed.

Lemma located_dels_in_range f h ws off F lo l :
  locate_hunk f h ws off F lo = Some l -> rcount (oldr h) = Z.of_nat (n_old (body h)) ->
  dels_in_range (length f) (lline l) (body h).
Proof.
  intros E Hc. destruct (Z.eq_dec (rcount (oldr h)) 0) as [Z0|NZ].
  - apply dels_fits. destruct (locate_insertion _ _ _ _ _ _ _ E Z0) as [[_ L] _]. lia.
  - destruct (locate_sound _ _ _ _ _ _ _ E NZ) as [(_ & Hfz & Hlt & Hm) _]. cbv zeta in Hm.
    set (b := body h) in *. set (pf := pfz b (lfuzz l)) in *. set (sf := sfz b (lfuzz l)) in *.
    destruct (ignored_lines_are_context b (lfuzz l) Hfz) as [Cp Cs]. fold pf in Cp. fold sf in Cs.
    rewrite firstn_rev in Cs. apply Forall_rev in Cs. rewrite rev_involutive in Cs.
    rewrite (body_three_parts b pf sf Hlt). rewrite !dels_app. split; [apply dels_all_ctx; exact Cp|]. split.
    + destruct (Nat.eq_dec (n_old (middle pf sf b)) 0) as [M0|M0]; [apply dels_no_old; exact M0|].
      apply dels_fits. rewrite (n_old_all_ctx _ Cp). rewrite firstn_length_le by lia.
      apply Forall2_same_length in Hm. rewrite firstn_length, skipn_length in Hm. unfold n_old in *. lia.
    + apply dels_all_ctx. exact Cs.
Qed.

(* ---------- one hunk ---------- *)
(* under -D a hunk whose old count is not the number of its old-side lines may be placed where it does not fit *)
Definition old_count_ok (h : hunk) : Prop := rcount (oldr h) = Z.of_nat (n_old (body h)).

Definition misplaced_define (o : options) (hs : list hunk) : Prop :=
  define_macro o <> [] /\ Exists (fun h => ~ old_count_ok h) hs.

Lemma locate_for_dels p f h ws off F lo l : locate_for p f h ws off F lo = Some l -> old_count_ok h -> dels_in_range (length f) (lline l) (body h).
Proof. intros E C. apply locate_for_some in E. eapply located_dels_in_range; eauto. Qed.

Definition located_by (p : patch) (lines : list line) (h : hunk) (loc : option location) : Prop :=
  forall l, loc = Some l -> exists ws off F lo, locate_hunk lines h ws off F lo = Some l.

Lemma apply_one_spec o p lines k s h loc : located_by p lines h loc ->
  match apply_one o p lines k s h loc with
  | Ok _ => True
  | Throw e => (e = ERuntime /\ should_write_as_unified o p = false /\ ~ ctx_writable h) \/
               (e = EOutOfRange /\ define_macro o <> [] /\ ~ old_count_ok h)
  end.
Proof.
  intros Hl. unfold apply_one.
  pose proof (write_reject_spec o p (a_rejected s) (shift_hunk h (a_o2n s))) as W. rewrite ctx_writable_shift_eq in W.
  destruct loc as [l|].
  - destruct (a_skip s); cbn [negb].
    + destruct (write_reject o p (a_rejected s) (shift_hunk h (a_o2n s))) as [t|e]; cbn [rbind]; [exact I|].
      destruct W as (-> & U & N). left. auto.
    + destruct (define_macro o) as [|c d] eqn:Hd; cbn [is_nil rbind]; [exact I|].
      pose proof (write_define_hunk_spec lines (c :: d) (lline l) (body h)) as D.
      destruct (write_define_hunk lines (c :: d) (lline l) (body h)) as [x|e]; cbn [rbind]; [exact I|].
      destruct D as (-> & D). right. split; [reflexivity|]. split; [discriminate|]. intros C. apply D.
      destruct (Hl l eq_refl) as (ws & off & F & lo & E). eapply located_dels_in_range; eauto.
  - destruct (write_reject o p (a_rejected s) (shift_hunk h (a_o2n s))) as [t|e]; cbn [rbind]; [exact I|].
    destruct W as (-> & U & N). left. auto.
Qed.

Lemma located_by_for p lines h ws off F lo : located_by p lines h (locate_for p lines h ws off F lo).
Proof. intros l E. apply locate_for_some in E. eauto. Qed.

Lemma located_by_hunk p lines h ws off F lo : located_by p lines h (locate_hunk lines h ws off F lo).
Proof. intros l E. eauto. Qed.

Definition throw_causes (o : options) (p : patch) (hs : list hunk) (e : exn) : Prop :=
  (e = ERuntime /\ unwritable o p hs) \/ (e = EOutOfRange /\ misplaced_define o hs).

Lemma throw_causes_hd o p h r e :
  (e = ERuntime /\ should_write_as_unified o p = false /\ ~ ctx_writable h) \/ (e = EOutOfRange /\ define_macro o <> [] /\ ~ old_count_ok h) ->
  throw_causes o p (h :: r) e.
Proof.
  intros [(E & U & N)|(E & D & N)]; [left|right]; (split; [exact E|]); split; auto; apply Exists_cons_hd; exact N.
Qed.

Lemma throw_causes_tl o p h r e : throw_causes o p r e -> throw_causes o p (h :: r) e.
Proof.
  intros [(E & U & N)|(E & D & N)]; [left|right]; (split; [exact E|]); split; auto; apply Exists_cons_tl; exact N.
Qed.

Lemma apply_rest_spec o p lines : forall hs k s,
  match apply_rest o p lines k s hs with
  | Ok _ => True
  | Throw e => throw_causes o p hs e
  end.
Proof.
  induction hs as [|h r IH]; intros k s; cbn [apply_rest]; [exact I|].
  set (loc := locate_for p lines h (ignore_whitespace o) (a_offerr s) (max_fuzz o) (a_ln s)).
  pose proof (apply_one_spec o p lines k s h loc (located_by_for _ _ _ _ _ _ _)) as H1.
  destruct (apply_one o p lines k s h loc) as [s1|e]; cbn [rbind].
  - specialize (IH (S k) s1). destruct (apply_rest o p lines (S k) s1 r) as [s2|e]; [exact I|].
    apply throw_causes_tl. exact IH.
  - apply throw_causes_hd. exact H1.
Qed.

(* one hunk followed by the rest: the shape of all four branches of apply_first *)
Lemma apply_one_rest_spec o p lines s h loc r : located_by p lines h loc ->
  match (do s' <- apply_one o p lines 0 s h loc; apply_rest o p lines 1 s' r) with
  | Ok _ => True
  | Throw e => throw_causes o p (h :: r) e
  end.
Proof.
  intros Hl. pose proof (apply_one_spec o p lines 0 s h loc Hl) as H1.
  destruct (apply_one o p lines 0 s h loc) as [s1|e]; cbn [rbind].
  - pose proof (apply_rest_spec o p lines r 1 s1) as H2. destruct (apply_rest o p lines 1 s1 r) as [s2|e]; [exact I|].
    apply throw_causes_tl. exact H2.
  - apply throw_causes_hd. exact H1.
Qed.

(* reversal swaps the two sides: the causes are to be read on the hunks as given *)
Definition new_count_ok (h : hunk) : Prop := rcount (newr h) = Z.of_nat (n_new (body h)).

Lemma old_count_reverse h : old_count_ok (reverse_hunk h) <-> new_count_ok h.
Proof. unfold old_count_ok, new_count_ok, reverse_hunk. cbn [oldr newr body]. rewrite n_old_reverse. tauto. Qed.

Lemma Exists_map_reverse (P Q : hunk -> Prop) hs : (forall h, P (reverse_hunk h) -> Q h) -> Exists P (map reverse_hunk hs) -> Exists Q hs.
Proof.
  intros Imp E. apply Exists_exists in E. destruct E as (h' & I & N).
  apply in_map_iff in I. destruct I as (h & <- & I). apply Exists_exists. exists h. split; [exact I|]. apply Imp. exact N.
Qed.

Lemma unwritable_reverse o p hs : unwritable o (reverse_patch p) (map reverse_hunk hs) -> unwritable o p hs.
Proof.
  intros [U E]. split; [exact U|]. revert E. apply Exists_map_reverse. intros h N W. apply N. apply ctx_writable_reverse. exact W.
Qed.

(* ---------- the question ---------- *)
(* the first hunk does not fit as it stands (and -f was not given), it fits reversed, and neither -t nor -N says what to do:
   the program has to ask, and there is no terminal *)
Definition asks (o : options) (p : patch) (lines : list line) (s : astate) (hs : list hunk) : Prop :=
  match hs with
  | [] => False
  | h :: _ =>
      let loc := locate_for p lines h (ignore_whitespace o) (a_offerr s) (max_fuzz o) (a_ln s) in
      let rloc := locate_hunk lines (reverse_hunk h) (ignore_whitespace o) (a_offerr s) (max_fuzz o) (a_ln s) in
      should_check_if_patch_is_reversed loc o = true /\
      (loc_perfect rloc || (negb (loc_found loc) && loc_found rloc)) = true /\
      ignore_reversed o = false /\ batch o = false
  end.

Lemma handle_reversed_spec o :
  match handle_probably_reversed_patch o with
  | Ok _ => ignore_reversed o = true \/ batch o = true
  | Throw e => e = ESystem /\ ignore_reversed o = false /\ batch o = false
  end.
Proof.
  unfold handle_probably_reversed_patch, check_how_to_handle_reversed_patch.
  destruct (ignore_reversed o); cbn [negb rbind]; [left; reflexivity|].
  destruct (batch o); cbn [rbind]; auto.
Qed.

(* the causes of an exception in apply_first, read on the hunks it was given: in the branch that reverses the patch the
   reject writer and -D see the reversed hunks, whose old side is the new side of the given ones *)
Definition first_causes (o : options) (p : patch) (hs : list hunk) (e : exn) : Prop :=
  (e = ERuntime /\ unwritable o p hs) \/
  (e = EOutOfRange /\ define_macro o <> [] /\ Exists (fun h => ~ old_count_ok h \/ ~ new_count_ok h) hs).

Lemma apply_first_spec o p lines s hs :
  match apply_first o p lines s hs with
  | Ok _ => True
  | Throw e => first_causes o p hs e \/ (e = ESystem /\ asks o p lines s hs)
  end.
Proof.
  destruct hs as [|h r]; [exact I|]. cbn [apply_first asks].
  set (loc := locate_for p lines h (ignore_whitespace o) (a_offerr s) (max_fuzz o) (a_ln s)).
  set (rloc := locate_hunk lines (reverse_hunk h) (ignore_whitespace o) (a_offerr s) (max_fuzz o) (a_ln s)).
  assert (Same : forall e, throw_causes o p (h :: r) e -> first_causes o p (h :: r) e).
  { intros e [(E & U)|(E & D & X)]; [left; auto|right]. split; [exact E|]. split; [exact D|].
    eapply Exists_impl; [|exact X]. intros a Ha. left. exact Ha. }
  assert (Rev : forall e, throw_causes o (reverse_patch p) (reverse_hunk h :: map reverse_hunk r) e -> first_causes o p (h :: r) e).
  { intros e [(E & U)|(E & D & X)]; [left; split; [exact E|]; apply (unwritable_reverse o p (h :: r)); exact U|right].
    split; [exact E|]. split; [exact D|]. change (reverse_hunk h :: map reverse_hunk r) with (map reverse_hunk (h :: r)) in X.
    revert X. apply Exists_map_reverse. intros a Ha. right. intros C. apply Ha. apply old_count_reverse. exact C. }
  assert (W : forall q s0 h0 loc0 r0, located_by q lines h0 loc0 -> (forall e, throw_causes o q (h0 :: r0) e -> first_causes o p (h :: r) e) ->
     match with_patch q (do s' <- apply_one o q lines 0 s0 h0 loc0; apply_rest o q lines 1 s' r0) with
     | Ok _ => True
     | Throw e => first_causes o p (h :: r) e \/
                  (e = ESystem /\ should_check_if_patch_is_reversed loc o = true /\
                   (loc_perfect rloc || (negb (loc_found loc) && loc_found rloc)) = true /\ ignore_reversed o = false /\ batch o = false)
     end).
  { intros q s0 h0 loc0 r0 Hl Imp. pose proof (apply_one_rest_spec o q lines s0 h0 loc0 r0 Hl) as H.
    unfold with_patch. destruct (do s' <- apply_one o q lines 0 s0 h0 loc0; apply_rest o q lines 1 s' r0) as [s2|e]; cbn [rbind]; [exact I|].
    left. apply Imp. exact H. }
  destruct (should_check_if_patch_is_reversed loc o) eqn:Chk.
  - destruct (loc_perfect rloc || (negb (loc_found loc) && loc_found rloc)) eqn:Rv.
    + pose proof (handle_reversed_spec o) as Hq.
      destruct (handle_probably_reversed_patch o) as [d|e]; cbn [rbind].
      * destruct (snd d).
        -- apply W; [apply located_by_hunk|exact Rev].
        -- apply W; [apply located_by_for|exact Same].
        -- apply W; [apply located_by_for|exact Same].
      * destruct Hq as (-> & Hi & Hb). right. auto.
    + cbn [rbind snd]. apply W; [apply located_by_for|exact Same].
  - apply W; [apply located_by_for|exact Same].
Qed.

(* the converse: when the question has to be asked, apply_first throws, whatever the hunks *)
Lemma asks_throws o p lines s hs : asks o p lines s hs -> apply_first o p lines s hs = Throw ESystem.
Proof.
  destruct hs as [|h r]; [intros []|]. cbn [asks apply_first]. intros (Chk & Rv & Hi & Hb).
  rewrite Chk, Rv. unfold handle_probably_reversed_patch, check_how_to_handle_reversed_patch. rewrite Hi, Hb. reflexivity.
Qed.

(* ---------- apply_patch ---------- *)
Definition eff (o : options) (p : patch) : patch := if reverse_patch_opt o then reverse_patch p else p.

(* the question has to be asked (about the first hunk, on the lines of the target) *)
Definition question_needed (o : options) (lines : list line) (p : patch) : Prop :=
  asks o (eff o p) lines init_state (hunks (eff o p)).

(* the option record never lets the program ask *)
Definition never_asks (o : options) : Prop := force o = true \/ batch o = true \/ ignore_reversed o = true.

Lemma never_asks_no_question o lines p : never_asks o -> ~ question_needed o lines p.
Proof.
  unfold question_needed, asks. intros Hn. destruct (hunks (eff o p)) as [|h r]; [tauto|].
  intros (Chk & _ & Hi & Hb). unfold should_check_if_patch_is_reversed in Chk.
  destruct Hn as [Hf|[Hb'|Hi']]; [|congruence|congruence].
  rewrite Hf in Chk. destruct (loc_perfect _); discriminate.
Qed.

(* every exception of apply_patch has one of three causes, read on the patch as given *)
Definition apply_causes (o : options) (p : patch) (e : exn) : Prop :=
  (e = ERuntime /\ unwritable o p (hunks p)) \/
  (e = EOutOfRange /\ define_macro o <> [] /\ Exists (fun h => ~ old_count_ok h \/ ~ new_count_ok h) (hunks p)).

Lemma first_causes_eff o p e : first_causes o (eff o p) (hunks (eff o p)) e -> apply_causes o p e.
Proof.
  unfold eff. destruct (reverse_patch_opt o); [|exact (fun H => H)].
  cbn [reverse_patch hunks]. intros [(E & U)|(E & D & X)]; [left|right].
  - split; [exact E|]. apply unwritable_reverse. exact U.
  - split; [exact E|]. split; [exact D|]. revert X. apply Exists_map_reverse. intros h [N|N].
    + right. intros C. apply N. apply old_count_reverse. exact C.
    + left. intros C. apply N. unfold new_count_ok, old_count_ok, reverse_hunk in *. cbn [newr oldr body]. rewrite n_new_reverse. exact C.
Qed.

Theorem apply_patch_throws_only_from o lines p e :
  apply_patch o lines p = Throw e -> apply_causes o p e \/ (e = ESystem /\ question_needed o lines p).
Proof.
  unfold apply_patch. fold (eff o p). fold init_state. unfold question_needed.
  pose proof (apply_first_spec o (eff o p) lines init_state (hunks (eff o p))) as H.
  destruct (apply_first o (eff o p) lines init_state (hunks (eff o p))) as [sp|e0]; cbn [rbind]; [discriminate|].
  intros [= <-]. destruct H as [H|H]; [left; apply first_causes_eff; exact H|right; exact H].
Qed.

Theorem question_throws o lines p : question_needed o lines p -> apply_patch o lines p = Throw ESystem.
Proof.
  unfold question_needed, apply_patch. fold (eff o p). fold init_state. intros H. rewrite (asks_throws _ _ _ _ _ H). reflexivity.
Qed.

(* (1) Without -D: when every hunk can be written by the reject writer (always so in unified format; in context format exactly
   when write_hunk_as_context answers, see write_hunk_as_context_iff), apply_patch ends normally unless the question
   "reversed patch?" has to be asked: failing to place a hunk never throws. *)
Theorem apply_never_fatal o lines p :
  define_macro o = [] ->
  (should_write_as_unified o p = true \/ Forall ctx_writable (hunks p)) ->
  ~ question_needed o lines p ->
  exists r, apply_patch o lines p = Ok r.
Proof.
  intros Hd Hw Hq. destruct (apply_patch o lines p) as [r|e] eqn:E; [eauto|exfalso].
  destruct (apply_patch_throws_only_from _ _ _ _ E) as [[(_ & U & X)|(_ & D & _)]|(_ & Q)]; [|contradiction|contradiction].
  destruct Hw as [Hw|Hw]; [congruence|]. apply Exists_exists in X. destruct X as (h & I & N). rewrite Forall_forall in Hw. apply N. apply Hw. exact I.
Qed.

(* with -D the old and the new count of every hunk must in addition be the numbers of lines of its two sides (the new count
   matters when the patch is applied reversed) *)
Theorem apply_never_fatal_define o lines p :
  Forall hunk_counts_ok (hunks p) ->
  ~ question_needed o lines p ->
  exists r, apply_patch o lines p = Ok r.
Proof.
  intros Hc Hq. destruct (apply_patch o lines p) as [r|e] eqn:E; [eauto|exfalso].
  rewrite Forall_forall in Hc.
  destruct (apply_patch_throws_only_from _ _ _ _ E) as [[(_ & U & X)|(_ & D & X)]|(_ & Q)]; [| |contradiction];
    apply Exists_exists in X; destruct X as (h & I & N); specialize (Hc h I).
  - apply N. apply counts_ok_writable. exact Hc.
  - destruct Hc as [A B]. destruct N as [N|N]; apply N; assumption.
Qed.

(* the exact condition for a normal end, without -D *)
Theorem apply_patch_ok_iff o lines p :
  define_macro o = [] ->
  (should_write_as_unified o p = true \/ Forall ctx_writable (hunks p)) ->
  ((exists r, apply_patch o lines p = Ok r) <-> ~ question_needed o lines p).
Proof.
  intros Hd Hw. split.
  - intros [r E] Q. rewrite (question_throws _ _ _ Q) in E. discriminate.
  - apply apply_never_fatal; assumption.
Qed.

(* ---------- a patch skipped as already applied (-N) has all its hunks rejected: it is counted as failed ---------- *)
Lemma reject_branch o p s h s1 hc :
  (do t <- write_reject o p (a_rejected s) (shift_hunk h (a_o2n s));
   Ok (mkAS (a_out s) (a_rej s ++ t) (S (a_rejected s)) (a_ln s) (a_o2n s) (a_offerr s)
            (a_skip s) (a_perfect s) (a_msgs s) (a_hunks s ++ [shift_hunk h (a_o2n s)]), shift_hunk h (a_o2n s))) = Ok (s1, hc) ->
  a_skip s1 = a_skip s /\ a_rejected s1 = S (a_rejected s).
Proof.
  destruct (write_reject o p (a_rejected s) (shift_hunk h (a_o2n s))) as [t|e]; cbn [rbind]; [|discriminate].
  intros [= <- _]. cbn. auto.
Qed.

Lemma apply_one_skip o p lines k s h loc s' :
  apply_one o p lines k s h loc = Ok s' ->
  a_skip s' = a_skip s /\ a_rejected s <= a_rejected s' /\ (a_skip s = true -> a_rejected s' = S (a_rejected s)).
Proof.
  unfold apply_one.
  destruct loc as [l|].
  - destruct (negb (a_skip s)) eqn:Hs.
    + match goal with |- rbind (rbind ?X _) _ = _ -> _ => destruct X as [wr|e]; cbn [rbind]; [|discriminate] end.
      intros [= <-]. cbn. apply negb_true_iff in Hs. repeat split; auto. congruence.
    + match goal with |- rbind ?X _ = _ -> _ => destruct X as [[s1 hc]|e] eqn:E; cbn [rbind]; [|discriminate] end.
      destruct (reject_branch _ _ _ _ _ _ E) as [A B]. intros [= <-]. cbn. rewrite A, B. repeat split; auto.
  - match goal with |- rbind ?X _ = _ -> _ => destruct X as [[s1 hc]|e] eqn:E; cbn [rbind]; [|discriminate] end.
    destruct (reject_branch _ _ _ _ _ _ E) as [A B]. intros [= <-]. cbn. rewrite A, B. repeat split; auto.
Qed.

Lemma apply_rest_skip o p lines : forall hs k s s',
  apply_rest o p lines k s hs = Ok s' -> a_skip s' = a_skip s /\ a_rejected s <= a_rejected s'.
Proof.
  induction hs as [|h r IH]; intros k s s'; cbn [apply_rest]; [intros [= <-]; auto|].
  match goal with |- rbind ?X _ = _ -> _ => destruct X as [s1|e] eqn:E; cbn [rbind]; [|discriminate] end.
  intros H. destruct (apply_one_skip _ _ _ _ _ _ _ _ E) as (A & B & _). destruct (IH _ _ _ H) as [C D]. split; [congruence|lia].
Qed.

Theorem skipped_is_failed o lines p r : apply_patch o lines p = Ok r -> r_skipped r = true -> r_failed r <> 0.
Proof.
  unfold apply_patch. fold (eff o p). fold init_state.
  destruct (apply_first o (eff o p) lines init_state (hunks (eff o p))) as [[s q]|e] eqn:E; cbn [rbind]; [|discriminate].
  intros [= <-]. cbn [r_skipped r_failed fst]. intros Hs.
  assert (W : forall q0 s0 h0 loc0 r0, with_patch q0 (do s' <- apply_one o q0 lines 0 s0 h0 loc0; apply_rest o q0 lines 1 s' r0) = Ok (s, q) ->
              a_skip s0 = true /\ a_rejected s <> 0).
  { intros q0 s0 h0 loc0 r0 H. apply with_patch_ok in H. destruct H as [H _].
    destruct (apply_one o q0 lines 0 s0 h0 loc0) as [s1|e1] eqn:E1; cbn [rbind] in H; [|discriminate].
    destruct (apply_one_skip _ _ _ _ _ _ _ _ E1) as (A & B & C). destruct (apply_rest_skip _ _ _ _ _ _ _ H) as [D F].
    assert (K : a_skip s0 = true) by congruence. split; [exact K|]. specialize (C K). lia. }
  revert E. destruct (hunks (eff o p)) as [|h r0]; [cbn; intros [= <- _]; discriminate|].
  cbn [apply_first].
  destruct (should_check_if_patch_is_reversed _ o).
  - match goal with |- rbind ?X _ = _ -> _ => destruct X as [d|e]; cbn [rbind]; [|discriminate] end.
    destruct (snd d); intros E; destruct (W _ _ _ _ _ E) as [K N]; try exact N; cbn in K; discriminate.
  - intros E. destruct (W _ _ _ _ _ E) as [K N]. cbn in K. discriminate.
Qed.
