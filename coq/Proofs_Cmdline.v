(* Proofs_Cmdline.v — C19: option spellings are interchangeable; bad command lines are rejected.
   Everything is proved for an arbitrary option table; Properties_C19.v instantiates it with the table that is regenerated
   from src/options.cpp on every run, and proves that table well formed. *)
From PatchV Require Import Base Lines Options OptionsVocab Cmdline Proofs_Base.

Section Spellings.
Variable switches : list (Z * list N * bool).
Variable setters : list (Z * setter).

Notation PA := (parse_args switches setters).
Notation PO := (process_option setters).

Definition DASH : N := 45.

Lemma str_eqb_dashdash_short c v : c <> DASH -> str_eqb (DASH :: c :: v) (bs "--") = false.
Proof.
  intros H. apply str_eqb_neq. intros E. inversion E. contradiction.
Qed.

Lemma parse_args_opt a rest p :
  is_operand a = false -> str_eqb a (bs "--") = false ->
  PA (a :: rest) p =
  let is_long := is_long_arg a in
  match rest with
  | [] => do x <- (if is_long then parse_long switches setters a None p else parse_short switches setters (tl a) None p); Ok (fst x)
  | v :: rest' =>
      do x <- (if is_long then parse_long switches setters a (Some v) p else parse_short switches setters (tl a) (Some v) p);
      if snd x then PA rest' (fst x) else PA rest (fst x)
  end.
Proof. intros H1 H2. cbn [parse_args]. rewrite H1, H2. reflexivity. Qed.

Lemma is_long_short c v : c <> DASH -> is_long_arg (DASH :: c :: v) = false.
Proof.
  intros H. unfold is_long_arg. destruct c as [|q]; [reflexivity|]. do 6 (destruct q as [q|q|]; try reflexivity). contradiction.
Qed.

Lemma short_not_operand c v : is_operand (DASH :: c :: v) = false.
Proof. reflexivity. Qed.

(* ---- short option: attached and separate argument ---- *)
Theorem short_attached_eq_separate c id v rest p :
  find_short switches c = Some (id, true) -> c <> DASH -> v <> [] ->
  PA ((DASH :: c :: v) :: rest) p = PA ([DASH; c] :: v :: rest) p.
Proof.
  intros F Hc Hv.
  rewrite (parse_args_opt (DASH :: c :: v) rest p (short_not_operand c v) (str_eqb_dashdash_short c v Hc)).
  rewrite (parse_args_opt [DASH; c] (v :: rest) p (short_not_operand c []) (str_eqb_dashdash_short c [] Hc)).
  assert (L1 : is_long_arg (DASH :: c :: v) = false) by (apply is_long_short; assumption).
  assert (L2 : is_long_arg ([DASH; c]) = false) by (apply is_long_short; assumption).
  cbv zeta. rewrite L1, L2. cbn [tl parse_short]. rewrite F.
  destruct v as [|v0 v']; [contradiction|].
  destruct (PO id (v0 :: v') p) as [p'|e]; cbn [rbind fst snd].
  - destruct rest; reflexivity.
  - destruct rest; reflexivity.
Qed.

(* ---- bundling of flags ---- *)
Theorem short_bundle c id cs rest p :
  find_short switches c = Some (id, false) -> c <> DASH -> cs <> [] -> hd 0%N cs <> DASH ->
  PA ((DASH :: c :: cs) :: rest) p = PA ([DASH; c] :: (DASH :: cs) :: rest) p.
Proof.
  intros F Hc Hcs Hh.
  assert (Lg : forall w, is_long_arg (DASH :: c :: w) = false) by (intros w; apply is_long_short; assumption).
  rewrite (parse_args_opt (DASH :: c :: cs) rest p (short_not_operand c cs) (str_eqb_dashdash_short c cs Hc)).
  rewrite (parse_args_opt [DASH; c] ((DASH :: cs) :: rest) p (short_not_operand c []) (str_eqb_dashdash_short c [] Hc)).
  cbv zeta. rewrite !Lg. cbn [tl parse_short]. rewrite F.
  destruct (PO id [] p) as [p'|e]; cbn [rbind fst snd]; [|destruct rest; reflexivity].
  destruct cs as [|c2 cs']; [contradiction|]. cbn [hd] in Hh.
  rewrite (parse_args_opt (DASH :: c2 :: cs') rest p' (short_not_operand c2 cs') (str_eqb_dashdash_short c2 cs' Hh)).
  cbv zeta.
  assert (L3 : is_long_arg (DASH :: c2 :: cs') = false) by (apply is_long_short; assumption).
  rewrite L3. cbn [tl]. reflexivity.
Qed.

(* ---- long option: '=' and separate argument ---- *)
Lemma split_eq_no_eq : forall s acc, ~ In 61%N s -> split_eq s acc = (rev acc ++ s, None).
Proof.
  induction s as [|c r IH]; intros acc H; cbn [split_eq].
  - rewrite app_nil_r. reflexivity.
  - destruct (N.eqb_spec c 61) as [->|N]; [exfalso; apply H; left; reflexivity|].
    rewrite IH; [cbn [rev]; rewrite <- app_assoc; reflexivity|]. intros I. apply H. right. exact I.
Qed.

Lemma split_eq_at : forall s acc v, ~ In 61%N s -> split_eq (s ++ 61%N :: v) acc = (rev acc ++ s, Some v).
Proof.
  induction s as [|c r IH]; intros acc v H; cbn [app split_eq].
  - change (N.eqb 61 61) with true. cbv iota. rewrite app_nil_r. reflexivity.
  - destruct (N.eqb_spec c 61) as [->|N]; [exfalso; apply H; left; reflexivity|].
    rewrite IH; [cbn [rev]; rewrite <- app_assoc; reflexivity|]. intros I. apply H. right. exact I.
Qed.

Definition long_shape (name : list N) : Prop := exists c r, name = DASH :: DASH :: c :: r.

Lemma long_not_operand name : long_shape name -> is_operand name = false /\ str_eqb name (bs "--") = false /\
  is_long_arg name = true.
Proof. intros (c & r & ->). repeat split; reflexivity. Qed.

Theorem long_eq_eq_separate name id v rest p :
  long_shape name -> ~ In 61%N name ->
  long_exact switches name = Some (id, name, true) ->
  PA ((name ++ 61%N :: v) :: rest) p = PA (name :: v :: rest) p.
Proof.
  intros Sh Hne E.
  destruct (long_not_operand name Sh) as (O1 & O2 & O3).
  assert (Sh2 : long_shape (name ++ 61%N :: v)) by (destruct Sh as (c & r & ->); exists c, (r ++ 61%N :: v); reflexivity).
  destruct (long_not_operand _ Sh2) as (P1 & P2 & P3).
  rewrite (parse_args_opt _ rest p P1 P2), (parse_args_opt _ (v :: rest) p O1 O2). cbv zeta. rewrite O3, P3.
  unfold parse_long. rewrite (split_eq_at name [] v Hne), (split_eq_no_eq name [] Hne). cbn [rev app]. rewrite E. cbn [negb].
  destruct (PO id v p) as [p'|e]; cbn [rbind fst snd]; destruct rest; reflexivity.
Qed.

(* ---- unambiguous prefix of a long name ---- *)
Theorem long_prefix_eq_full key name id a next p :
  long_exact switches key = None -> long_prefixed switches key = [(id, name, a)] ->
  long_exact switches name = Some (id, name, a) ->
  ~ In 61%N key -> ~ In 61%N name ->
  parse_long switches setters key next p = parse_long switches setters name next p.
Proof.
  intros E1 E2 E3 K N. unfold parse_long. rewrite (split_eq_no_eq key [] K), (split_eq_no_eq name [] N). cbn [rev app].
  rewrite E1, E2, E3. reflexivity.
Qed.

Theorem long_prefix_args key name id a rest p :
  long_shape key -> long_shape name ->
  long_exact switches key = None -> long_prefixed switches key = [(id, name, a)] ->
  long_exact switches name = Some (id, name, a) ->
  ~ In 61%N key -> ~ In 61%N name ->
  PA (key :: rest) p = PA (name :: rest) p.
Proof.
  intros S1 S2 E1 E2 E3 K N.
  destruct (long_not_operand key S1) as (O1 & O2 & O3). destruct (long_not_operand name S2) as (P1 & P2 & P3).
  rewrite (parse_args_opt _ rest p O1 O2), (parse_args_opt _ rest p P1 P2). cbv zeta. rewrite O3, P3.
  destruct rest as [|v rest']; rewrite (long_prefix_eq_full key name id a _ p E1 E2 E3 K N); reflexivity.
Qed.

(* ---- short and long form of the same switch ---- *)
Theorem short_eq_long_flag c name id rest p :
  find_short switches c = Some (id, false) -> c <> DASH ->
  long_shape name -> ~ In 61%N name -> long_exact switches name = Some (id, name, false) ->
  PA ([DASH; c] :: rest) p = PA (name :: rest) p.
Proof.
  intros F Hc Sh Hne E.
  destruct (long_not_operand name Sh) as (O1 & O2 & O3).
  rewrite (parse_args_opt [DASH; c] rest p (short_not_operand c []) (str_eqb_dashdash_short c [] Hc)).
  rewrite (parse_args_opt _ rest p O1 O2). cbv zeta. rewrite O3.
  assert (L2 : is_long_arg ([DASH; c]) = false) by (apply is_long_short; assumption).
  rewrite L2. cbn [tl parse_short]. rewrite F. unfold parse_long. rewrite (split_eq_no_eq name [] Hne). cbn [rev app]. rewrite E. cbn [negb].
  destruct (PO id [] p) as [p'|e]; cbn [rbind fst snd]; destruct rest; reflexivity.
Qed.

Theorem short_eq_long_arg c name id v rest p :
  find_short switches c = Some (id, true) -> c <> DASH ->
  long_shape name -> ~ In 61%N name -> long_exact switches name = Some (id, name, true) ->
  PA ([DASH; c] :: v :: rest) p = PA (name :: v :: rest) p.
Proof.
  intros F Hc Sh Hne E.
  destruct (long_not_operand name Sh) as (O1 & O2 & O3).
  rewrite (parse_args_opt [DASH; c] (v :: rest) p (short_not_operand c []) (str_eqb_dashdash_short c [] Hc)).
  rewrite (parse_args_opt _ (v :: rest) p O1 O2). cbv zeta. rewrite O3.
  assert (L2 : is_long_arg ([DASH; c]) = false) by (apply is_long_short; assumption).
  rewrite L2. cbn [tl parse_short]. rewrite F. unfold parse_long. rewrite (split_eq_no_eq name [] Hne). cbn [rev app]. rewrite E. cbn [negb].
  destruct (PO id v p) as [p'|e]; cbn [rbind fst snd]; reflexivity.
Qed.

(* ---- '--' ends option parsing ---- *)
Theorem dashdash_ends_options rest p : PA (bs "--" :: rest) p = operands setters rest p.
Proof. reflexivity. Qed.

Theorem operands_are_operands : forall rest p,
  operands setters rest p = fold_left (fun acc a => do q <- acc; PO 63 a q) rest (Ok p).
Proof.
  induction rest as [|a r IH]; intros p; cbn [operands fold_left rbind]; [reflexivity|].
  destruct (PO 63 a p) as [p'|e]; cbn [rbind].
  - apply IH.
  - clear. induction r as [|b r IH]; [reflexivity|]. cbn [fold_left rbind]. exact IH.
Qed.

(* ---- rejections ---- *)
Theorem third_operand_rejected a b c rest o :
  find_setter setters 63 = None ->
  is_operand a = true -> is_operand b = true -> is_operand c = true ->
  PA (a :: b :: c :: rest) (mkPS o 0) = Throw ECmdline.
Proof.
  intros F A B C. cbn [parse_args]. rewrite A. unfold process_option at 1. rewrite F. cbn [process_operand p_pos p_opts rbind].
  rewrite B. unfold process_option at 1. rewrite F. cbn [process_operand p_pos p_opts rbind upd_str].
  rewrite C. unfold process_option at 1. rewrite F. reflexivity.
Qed.

Theorem unknown_short_rejected c cs rest p :
  find_short switches c = None -> c <> DASH -> PA ((DASH :: c :: cs) :: rest) p = Throw ECmdline.
Proof.
  intros F Hc.
  rewrite (parse_args_opt (DASH :: c :: cs) rest p (short_not_operand c cs) (str_eqb_dashdash_short c cs Hc)). cbv zeta.
  assert (L1 : is_long_arg (DASH :: c :: cs) = false) by (apply is_long_short; assumption).
  rewrite L1. cbn [tl parse_short]. rewrite F. destruct rest; reflexivity.
Qed.

Theorem unknown_or_ambiguous_long_rejected key next p :
  ~ In 61%N key -> long_exact switches key = None ->
  (long_prefixed switches key = [] \/ exists e1 e2 r, long_prefixed switches key = e1 :: e2 :: r) ->
  parse_long switches setters key next p = Throw ECmdline.
Proof.
  intros K E1 E2. unfold parse_long. rewrite (split_eq_no_eq key [] K). cbn [rev app]. rewrite E1.
  destruct E2 as [->|(e1 & e2 & r & ->)]; reflexivity.
Qed.

Theorem missing_argument_rejected c id p :
  find_short switches c = Some (id, true) -> c <> DASH -> PA [[DASH; c]] p = Throw ECmdline.
Proof.
  intros F Hc.
  rewrite (parse_args_opt [DASH; c] [] p (short_not_operand c []) (str_eqb_dashdash_short c [] Hc)). cbv zeta.
  assert (L2 : is_long_arg ([DASH; c]) = false) by (apply is_long_short; assumption).
  rewrite L2. cbn [tl parse_short]. rewrite F. reflexivity.
Qed.

End Spellings.

(* a numeric argument which is not a number is rejected *)
Lemma digits_value_none : forall s acc, (exists c, In c s /\ is_digit c = false) -> digits_value s acc = None.
Proof.
  induction s as [|c r IH]; intros acc (x & I & D); [destruct I|]. cbn [digits_value].
  destruct (is_digit c) eqn:E; [|reflexivity]. apply IH. destruct I as [->|I]; [congruence|eauto].
Qed.

Theorem non_numeric_rejected f v o :
  drop_cspace v = v -> hd 0%N v <> 43%N -> hd 0%N v <> 45%N ->
  (v = [] \/ exists c, In c v /\ is_digit c = false) ->
  apply_setter (SetInt f) v o = Throw ECmdline.
Proof.
  intros Hs Hp Hm H. cbn [apply_setter]. unfold stoi. rewrite Hs.
  assert (M : stoi_sign v = (false, v)).
  { destruct v as [|c r]; [reflexivity|]. cbn [hd] in *. unfold stoi_sign.
    destruct c as [|q]; [reflexivity|]. do 6 (destruct q as [q|q|]; try reflexivity); contradiction. }
  rewrite M. unfold stoi_body. destruct v as [|c r]; [reflexivity|].
  destruct (is_digit c) eqn:D; cbn [negb]; [|reflexivity].
  destruct H as [H|H]; [discriminate|]. rewrite (digits_value_none (c :: r) 0 H). reflexivity.
Qed.
