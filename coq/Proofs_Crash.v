(* Proofs_Crash.v — C09 over the driver model.  Crash points are the injected failures of World.v: a failing operation leaves
   the tree as it was before it and aborts the run (Proofs_Faults.fault_is_fatal), so "for every injected failure, the tree
   the run leaves behind satisfies I" is "every prefix of the run's operations leaves a tree that satisfies I". *)
From PatchV Require Import Base Lines Hunk Locator Formatter Options Applier LineParser Parser World Driver
     Proofs_Base Proofs_World Proofs_Driver.

(* ---------- with --backup the original exists in full at its path or at its backup path, at every point ---------- *)
Lemma perform_lookup op w r w' q :
  perform op w = (r, w') -> ~ In q (op_paths op) ->
  (forall p t, In p (op_paths op) -> lookup (fs w) p = Some (Sym t) -> q <> link_target p t) ->
  lookup (fs w') q = lookup (fs w) q.
Proof.
  intros E Hq Hl. destruct (perform_ok _ _ _ _ E) as [[_ X]|(e & _ & X)]; [|rewrite X; reflexivity].
  eapply exec_op_frame; eauto.
Qed.

Lemma checked_lookup op w r w' q :
  checked op w = (r, w') -> ~ In q (op_paths op) ->
  (forall p t, In p (op_paths op) -> lookup (fs w) p = Some (Sym t) -> q <> link_target p t) ->
  lookup (fs w') q = lookup (fs w) q.
Proof.
  unfold checked, mbind. destruct (perform op w) as [[x|e] w1] eqn:E; intros H Hq Hl.
  - assert (w' = w1) by (destruct x; cbn in H; inversion H; reflexivity). subst. eapply perform_lookup; eauto.
  - inversion H; subst. eapply perform_lookup; eauto.
Qed.

Lemma mbind_eq {A B} (m : M A) (f : A -> M B) w :
  mbind m f w = match m w with (Ok a, w') => f a w' | (Throw e, w') => (Throw e, w') end.
Proof. reflexivity. Qed.

Lemma exists_none m p : lookup m p = None -> exists_ m p = false.
Proof. intros H. unfold exists_, stat. destruct (parent_ok m p false); cbn [negb]; [rewrite H|]; reflexivity. Qed.

(* writing a target with a backup due, whatever fails on the way (any injected failure, any permission problem):
   the original node (bytes and mode) is afterwards at the target's path or at its backup path *)
Theorem write_keeps_original o st d w data mode :
  d_backup d = true ->
  existsb (str_eqb (backup_name o (d_dest d))) (backed_up st) = false ->
  lookup (fs w) (d_dest d) = Some (Reg data mode) -> exists_ (fs w) (d_dest d) = true ->
  d_dest d <> backup_name o (d_dest d) ->
  let w' := snd (write_now o st d w) in
  lookup (fs w') (d_dest d) = Some (Reg data mode) \/ lookup (fs w') (backup_name o (d_dest d)) = Some (Reg data mode).
Proof.
  intros Hb Hn Hl Hex Hne. cbv zeta. unfold write_now. rewrite Hb.
  remember (d_dest d) as dest eqn:Edest. remember (backup_name o dest) as b eqn:Eb.
  assert (Hn' := Hn). rewrite Eb in Hn'. rewrite (make_backup_for_shape o st dest Hn'). rewrite <- Eb.
  set (st0 := mkDS (had_failure st) (b :: backed_up st) (deferred_writes st) (deferred_removals st) (events st)).
  rewrite mbind_eq. rewrite mbind_eq.
  destruct (ensure_parent_directories b w) as [[[]|e0] w0] eqn:En.
  2:{ (* the directory for the backup could not be made: nothing has happened to the target *)
      left. cbn [snd]. apply (ensure_extends _ _ _ _ En). exact Hl. }
  pose proof (ensure_extends _ _ _ _ En) as Ext.
  assert (Hl0 : lookup (fs w0) dest = Some (Reg data mode)) by (apply Ext; exact Hl).
  assert (Hex0 : exists_ (fs w0) dest = true) by (eapply exists_extends; eauto).
  destruct (backup_core st0 dest b w0) as [[st1|e] w1] eqn:B.
  - (* the backup was taken: the original is at b and stays there *)
    destruct (backup_holds_original st0 dest b w0 st1 w1 B) as (_ & Hx & _).
    destruct (Hx Hex0) as (n & L0 & Lb & Ld). rewrite Hl0 in L0. inversion L0; subst n. specialize (Ld Hne).
    right. rewrite mbind_eq. cbn [get_fs]. rewrite (exists_none _ _ Ld).
    assert (Step0 : (match d_chmod_first d with Some _ => mret tt | None => mret tt end) w1 = (Ok tt, w1)) by (destruct (d_chmod_first d); reflexivity).
    rewrite mbind_eq. rewrite Step0.
    rewrite mbind_eq. destruct (checked (OWrite dest (d_data d)) w1) as [[[]|e] w2] eqn:W.
    + assert (L2 : lookup (fs w2) b = Some (Reg data mode)).
      { rewrite (checked_lookup _ _ _ _ b W); [exact Lb| |].
        - cbn. intros [E|[]]. apply Hne. exact E.
        - cbn. intros p t [<-|[]] Hs. rewrite Ld in Hs. discriminate. }
      (* after a successful write the target is a regular file *)
      assert (Reg2 : forall t, lookup (fs w2) dest <> Some (Sym t)).
      { apply checked_ok in W. cbn [exec_op] in W. rewrite Ld in W. destruct (parent_ok (fs w1) dest true); [|discriminate].
        inversion W as [W']. intros t. rewrite lookup_upd_same. discriminate. }
      destruct (d_perm_after d) as [pm|].
      * rewrite mbind_eq. destruct (checked (OChmod dest pm) w2) as [[[]|e] w3] eqn:C; cbn [snd mret];
          (rewrite (checked_lookup _ _ _ _ b C); [exact L2| |]);
          try (cbn; intros [E|[]]; apply Hne; exact E);
          (cbn; intros p t [<-|[]] Hs; exfalso; exact (Reg2 t Hs)).
      * cbn. exact L2.
    + cbn [snd]. rewrite (checked_lookup _ _ _ _ b W); [exact Lb| |].
      * cbn. intros [E|[]]. apply Hne. exact E.
      * cbn. intros p t [<-|[]] Hs. rewrite Ld in Hs. discriminate.
  - (* the backup could not be taken: nothing has happened to the target *)
    left. cbn [snd]. unfold backup_core in B. rewrite mbind_eq in B. cbn [get_fs] in B. rewrite Hex0 in B.
    rewrite mbind_eq in B. destruct (checked (ORename dest b) w0) as [[[]|e2] w2] eqn:C; [cbn in B; discriminate|].
    inversion B as [[Be Bw]]. rewrite <- Bw. clear B Be Bw.
    unfold checked in C. rewrite mbind_eq in C. destruct (perform (ORename dest b) w0) as [[x|e3] w3] eqn:P.
    + destruct (perform_ok _ _ _ _ P) as [[X _]|(e4 & X & F)].
      * inversion X as [X']. rewrite X' in C. cbn in C. discriminate.
      * inversion X as [X']. rewrite X' in C. cbn in C. inversion C as [[C1 C2]]. rewrite <- C2, F. exact Hl0.
    + unfold perform in P. destruct (fault w0) as [[|k]|]; [discriminate| |]; destruct (exec_op (fs w0) (umask w0) (ORename dest b)); discriminate.
Qed.

(* ---------- a section whose text does not parse performs no mutating operation ---------- *)
Lemma RO_bind_throw {A B} (m : M A) (f : A -> M B) (Q : B -> Prop) : RO m (fun _ => False) -> RO (mbind m f) Q.
Proof. intros H. eapply RO_bind; [exact H|]. intros a []. Qed.

Theorem bad_section_writes_nothing o st p s e :
  (forall p', pfmt p' = pfmt p -> hunks p' = hunks p -> parse_patch_body p' s = Throw e) ->
  RO (process_section o st true p s) (fun _ => False).
Proof.
  intros Hbad. unfold process_section.
  eapply RO_bind; [apply RO_getfs; intros; exact I|intros m _].
  set (ftp := if is_nil (file_to_patch o) then guess_filepath m (map d_dest (deferred_writes st)) p o else file_to_patch o).
  destruct (is_nil ftp); [apply RO_throw|].
  set (outf := output_path o p ftp).
  assert (Body : forall p', pfmt p' = pfmt p -> hunks p' = hunks p -> RO (body_if true p' s) (fun _ => False)).
  { intros p' H1 H2. unfold body_if. rewrite (Hbad p' H1 H2). apply RO_lift. intros a Ha. discriminate. }
  destruct (exists_ m ftp && negb (is_regular_file m ftp)); [apply RO_bind_throw; apply Body; reflexivity|].
  destruct (N.eqb (N.land (effective_perms st m outf) write_mask) 0 && match read_only o with ROFail => true | _ => false end);
    [apply RO_bind_throw; apply Body; reflexivity|].
  eapply RO_bind with (Q := fun _ => True).
  { destruct (pending_content st m ftp outf).
    - apply RO_ret; exact I.
    - eapply RO_bind; [apply RO_open_read|intros r _].
      destruct r as [e0|].
      + destruct e0; try apply RO_throw. destruct (is_adding_file p o); [apply RO_ret; exact I|apply RO_throw].
      + destruct (stat m ftp) as [[d md|md|t|md]|]; try apply RO_throw. apply RO_ret; exact I. }
  intros input_lines _.
  eapply RO_bind with (Q := fun _ => True).
  { destruct (negb (is_nil (prereq p)) && negb (has_prerequisite input_lines (prereq p))); [|apply RO_ret; exact I].
    destruct (batch o); [apply RO_throw|]. destruct (force o); [apply RO_ret; exact I|apply RO_throw]. }
  intros _ _.
  apply RO_bind_throw. apply Body; destruct (poper p); try reflexivity; destruct (str_eqb ftp outf); reflexivity.
Qed.

(* ---------- the sources of renames are removed only after every deferred write has succeeded ---------- *)
Theorem failed_write_stops_removals {A} o st ds ws rs (k : dstate -> M A) w e w1 :
  finalize_writes o st ds w = (Throw e, w1) ->
  (let! st1 := finalize_writes o st ds in let! _ := finalize_removals ws rs in k st1) w = (Throw e, w1).
Proof. intros H. rewrite mbind_eq, H. reflexivity. Qed.
