(* Hunk.v — include/patch/hunk.h, reverse (applier.cpp:336-359).  Definitions only. *)
From PatchV Require Import Base Lines.

Inductive op := Ctx | Add | Del.
Definition op_eqb (a b : op) := match a, b with Ctx, Ctx | Add, Add | Del, Del => true | _, _ => false end.
Definition op_char (o : op) : N := match o with Ctx => 32 | Add => 43 | Del => 45 end%N.

Record pline := mkPL { pop : op; pl : line }.
Record range := mkRange { rstart : Z; rcount : Z }.
Record hunk := mkHunk { oldr : range; newr : range; body : list pline }.

Inductive format := FContext | FUnified | FGit | FEd | FNormal | FUnknown.
Inductive operation := OpChange | OpRename | OpCopy | OpDelete | OpAdd | OpBinary.

Record patch := mkPatch {
  pfmt : format; poper : operation;
  index_path : list N; prereq : list N;
  old_path : list N; new_path : list N;
  old_time : list N; new_time : list N;
  old_mode : N; new_mode : N;
  hunks : list hunk }.

Definition is_add (p : pline) := match pop p with Add => true | _ => false end.
Definition is_del (p : pline) := match pop p with Del => true | _ => false end.
Definition is_ctx (p : pline) := match pop p with Ctx => true | _ => false end.

Definition old_side (b : list pline) : list line := map pl (filter (fun p => negb (is_add p)) b).
Definition new_side (b : list pline) : list line := map pl (filter (fun p => negb (is_del p)) b).

Definition reverse_op (o : op) := match o with Add => Del | Del => Add | Ctx => Ctx end.
Definition reverse_pline (p : pline) := mkPL (reverse_op (pop p)) (pl p).
Definition reverse_hunk (h : hunk) : hunk := mkHunk (newr h) (oldr h) (map reverse_pline (body h)).
Definition reverse_operation (o : operation) :=
  match o with OpDelete => OpAdd | OpAdd => OpDelete | x => x end.
Definition reverse_patch (p : patch) : patch :=
  mkPatch (pfmt p) (reverse_operation (poper p)) (index_path p) (prereq p)
          (new_path p) (old_path p) (new_time p) (old_time p) (new_mode p) (old_mode p)
          (map reverse_hunk (hunks p)).
Definition set_hunks (p : patch) (hs : list hunk) : patch :=
  mkPatch (pfmt p) (poper p) (index_path p) (prereq p) (old_path p) (new_path p)
          (old_time p) (new_time p) (old_mode p) (new_mode p) hs.
