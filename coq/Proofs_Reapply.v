(* Proofs_Reapply.v — C06: an already applied patch is detected (-N: everything ignored; -t: applied in reverse; -f: no guess). *)
From PatchV Require Import Base Lines Hunk Locator Formatter Options Applier Spec_Locate Spec_Apply
     Proofs_Base Proofs_Locate Proofs_Apply Proofs_Conf.

(* what apply_patch looks at for its first hunk h (cursor 0, no accumulated offset) *)
Definition first_loc (o : options) (p : patch) (f : list line) (h : hunk) : option location :=
  locate_for p f h (ignore_whitespace o) 0 (max_fuzz o) 0.
Definition first_rloc (o : options) (f : list line) (h : hunk) : option location :=
  locate_hunk f (reverse_hunk h) (ignore_whitespace o) 0 (max_fuzz o) 0.

(* the patch looks reversed / already applied: its first hunk does not apply perfectly, and the reversed first hunk
   applies perfectly, or applies somehow while the hunk itself does not apply at all *)
Definition looks_reversed (o : options) (p : patch) (f : list line) (h : hunk) : Prop :=
  loc_perfect (first_loc o p f h) = false /\
  (loc_perfect (first_rloc o f h) = true \/ (loc_found (first_loc o p f h) = false /\ loc_found (first_rloc o f h) = true)).

Lemma looks_reversed_cond o p f h : looks_reversed o p f h ->
  loc_perfect (first_rloc o f h) || negb (loc_found (first_loc o p f h)) && loc_found (first_rloc o f h) = true.
Proof. intros [_ [H|[H1 H2]]]; [rewrite H; reflexivity|rewrite H1, H2; apply orb_true_r]. Qed.

(* -N : nothing is applied, every hunk is rejected, the file is written back unchanged *)
Theorem reapply_ignored o f p r h hs :
  define_macro o = [] -> force o = false -> ignore_reversed o = true ->
  hunks (effective o p) = h :: hs ->
  looks_reversed o (effective o p) f h ->
  apply_patch o f p = Ok r ->
  r_out r = f /\ r_failed r = length (hunks p) /\ r_skipped r = true.
Proof.
  intros Hd Hf Hi Hh L. unfold apply_patch. fold (effective o p). set (p1 := effective o p) in *.
  assert (Hlen : length (hunks p1) = length (hunks p)).
  { unfold p1, effective. destruct (reverse_patch_opt o); [|reflexivity]. cbn. apply map_length. }
  rewrite Hh. cbn [apply_first a_offerr a_ln].
  fold (first_loc o p1 f h). fold (first_rloc o f h).
  unfold should_check_if_patch_is_reversed. destruct L as [L1 L2]. rewrite L1, Hf.
  rewrite (looks_reversed_cond o p1 f h (conj L1 L2)).
  unfold handle_probably_reversed_patch, check_how_to_handle_reversed_patch. rewrite Hi. cbn [negb rbind fst snd].
  unfold with_patch.
  match goal with |- context [apply_one o p1 f 0 ?s0 h ?loc] => destruct (apply_one o p1 f 0 s0 h loc) as [s1|e] eqn:E1 end; cbn [rbind]; [|discriminate].
  destruct (apply_rest o p1 f 1 s1 hs) as [s2|e] eqn:E2; cbn [rbind]; [|discriminate].
  intros [= <-]. cbn [r_out r_failed r_skipped fst snd].
  apply (apply_one_cases _ _ _ _ _ _ _ _ Hd) in E1. cbn [a_skip] in E1.
  destruct E1 as [(l & _ & Hk & _)|[_ R]]; [discriminate|].
  destruct R as (Ro & Rln & Rrj & Rsk & Roff & h' & Rh & Rb). cbn in Ro, Rln, Rrj, Rsk.
  destruct (apply_rest_skipped o p1 f Hd _ _ _ _ Rsk E2) as (hs' & Ho & Hl & Hc & Hhs & Hb & Hk).
  rewrite Ho, Ro, Hl, Rln, Hc, Rrj, Hk. cbn. rewrite <- Hlen, Hh. cbn. auto.
Qed.

(* -t (batch) : the patch is applied in reverse; when it is the patch that produced the file, the original comes back *)
Theorem reapply_reversed o p A B h hs :
  define_macro o = [] -> verbose o = false -> force o = false -> ignore_reversed o = false -> batch o = true ->
  (0 <= max_fuzz o)%Z ->
  hunks (effective o p) = h :: hs ->
  Conforming A B (hunks (effective o p)) -> (Z.of_nat (length B) < MAXZ)%Z ->
  creation_guard (reverse_patch (effective o p)) B ->
  loc_perfect (first_loc o (effective o p) B h) = false ->
  exists r, apply_patch o B p = Ok r /\ r_out r = A /\ r_failed r = 0 /\ r_rej r = [] /\ r_skipped r = false /\
            exists hs', r_patch r = set_hunks (reverse_patch (effective o p)) hs'.
Proof.
  intros Hd Hv Hf Hi Hb HF Hh HC Hmax Hk L1. unfold apply_patch. fold (effective o p). set (p1 := effective o p) in *.
  set (rp := reverse_patch p1) in *.
  rewrite Hh in HC. apply conforming_reverse in HC. cbn [map] in HC.
  rewrite Hh. cbn [apply_first a_offerr a_ln].
  fold (first_loc o p1 B h). fold (first_rloc o B h).
  unfold should_check_if_patch_is_reversed. rewrite L1, Hf.
  inversion HC as [|a0 b0 gap h0 hs0 A0 B0 Hbd Hoc Hnc Hos Hns HC' Ea0 Eb0 Ea Eb]; subst a0 b0 h0 hs0.
  cbn [Nat.add] in Hos, Hns, HC'.
  set (Bv := gap ++ old_side (body (reverse_hunk h)) ++ A0) in *.
  set (Av := gap ++ new_side (body (reverse_hunk h)) ++ B0) in *.
  subst A B.
  assert (Er : first_rloc o Bv h = Some (mkLoc (length gap) 0 0)).
  { unfold first_rloc.
    apply (locate_conf (ignore_whitespace o) (max_fuzz o) 0 Bv gap A0 (reverse_hunk h) eq_refl Hbd Hoc Hos); [lia|exact HF|exact Hmax]. }
  rewrite Er. cbn [loc_perfect lfuzz loffset Nat.eqb Z.eqb andb orb].
  unfold handle_probably_reversed_patch, check_how_to_handle_reversed_patch. rewrite Hi, Hb. cbn [negb rbind fst snd].
  set (s0 := mkAS _ _ _ _ _ _ _ _ _ _).
  (* the reverse branch is the plain loop over the reversed hunks *)
  assert (Eq : (do s' <- apply_one o rp Bv 0 s0 (reverse_hunk h) (Some (mkLoc (length gap) 0 0)); apply_rest o rp Bv 1 s' (map reverse_hunk hs))
               = apply_rest o rp Bv 0 s0 (reverse_hunk h :: map reverse_hunk hs)).
  { cbn [apply_rest].
    replace (locate_for rp Bv (reverse_hunk h) (ignore_whitespace o) (a_offerr s0) (max_fuzz o) (a_ln s0)) with (Some (mkLoc (length gap) 0 0)); [reflexivity|].
    rewrite (locate_for_guard rp Bv _ _ _ _ _ Hk). symmetry. exact Er. }
  fold rp. rewrite Eq.
  destruct (apply_rest_conf o rp Hd Hv HF _ 0 0 Bv Av [] s0 0 Bv HC eq_refl eq_refl Hmax Hk eq_refl eq_refl eq_refl)
    as (s' & Es & Ho & H1 & H2 & H3 & H4 & H5).
  unfold with_patch. rewrite Es. cbn [rbind]. eexists. split; [reflexivity|]. cbn [r_out r_failed r_rej r_skipped r_patch fst snd].
  unfold s0 in *. cbn in Ho, H1, H2. repeat split; auto. eexists. reflexivity.
Qed.

(* -f : no guess is made; every hunk is located and applied or rejected on its own *)
Theorem force_no_guess o p f s hs : force o = true -> apply_first o p f s hs = with_patch p (apply_rest o p f 0 s hs).
Proof. apply apply_first_force. Qed.
