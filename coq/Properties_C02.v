(* Properties_C02.v — C02: a hunk is applied only where its old lines really are.
   Nothing but statements, closed by [exact], and Print Assumptions. *)
From PatchV Require Import Base Lines Hunk Locator Spec_Locate Proofs_Ws Proofs_Locate Oracle Proofs_Oracle.

(* line equality: text and line-ending class, or, under -l, equality after norm_ws *)
Theorem matches_spec : forall c p ws, matches c p ws = true <-> lmatch ws c p.
Proof. exact Proofs_Ws.matches_spec. Qed.
Print Assumptions matches_spec.

(* the two-cursor loop decides exactly "equal after dropping trailing blanks and collapsing runs" *)
Theorem matches_ws_spec : forall a b, matches_ignoring_whitespace a b = true <-> norm_ws a = norm_ws b.
Proof. exact Proofs_Ws.mws_spec. Qed.
Print Assumptions matches_ws_spec.

(* whenever locate_hunk places a hunk that has old lines, the placement is admissible: not before the
   cursor, fuzz within -F and within the context the hunk carries, every non-ignored old line matches *)
Theorem locate_sound : forall f h ws off F lo loc,
  locate_hunk f h ws off F lo = Some loc -> rcount (oldr h) <> 0%Z ->
  Admissible ws f (body h) lo (lline loc) (lfuzz loc) /\
  (Z.of_nat (lfuzz loc) <= F)%Z /\ lline loc < length f /\
  loffset loc = ssub (Z.of_nat (lline loc)) (stated_pos h off).
Proof. exact Proofs_Locate.locate_sound. Qed.
Print Assumptions locate_sound.

(* a context-free insertion is placed inside the not yet consumed part of the file *)
Theorem locate_insertion_sound : forall f h ws off F lo loc,
  locate_hunk f h ws off F lo = Some loc -> rcount (oldr h) = 0%Z ->
  lo <= lline loc <= length f /\ lfuzz loc = 0 /\ loffset loc = 0%Z /\
  Z.of_nat (lline loc) = stated_pos h off.
Proof. exact Proofs_Locate.locate_insertion. Qed.
Print Assumptions locate_insertion_sound.

(* what fuzz ignores is pure context *)
Theorem ignored_lines_are_context : forall b fz, fz <= ctx_of b ->
  Forall (fun p => pop p = Ctx) (firstn (pfz b fz) b) /\
  Forall (fun p => pop p = Ctx) (firstn (sfz b fz) (rev b)).
Proof. exact Proofs_Locate.ignored_lines_are_context. Qed.
Print Assumptions ignored_lines_are_context.

(* the executable oracle used on the implementation's answers means what the specification says *)
Theorem admissibleb_spec : forall ws f b lo pos fz,
  admissibleb ws f b lo pos fz = true <-> Admissible ws f b lo pos fz.
Proof. exact Proofs_Locate.admissibleb_spec. Qed.
Print Assumptions admissibleb_spec.

(* the executable oracle that judges the implementation's answers is satisfied by the model on every input *)
Theorem model_meets_spec_C02 : forall ws f h off F lo,
  spec_C02_locate ws f h off F lo (obs_of (locate_hunk f h ws off F lo)) = true.
Proof. exact Proofs_Oracle.model_meets_spec_C02. Qed.
Print Assumptions model_meets_spec_C02.

Local Open Scope string_scope.
(* non-vacuity: a concrete drifted file on which a hunk is found with offset and fuzz *)
Example locate_sound_nonvacuous :
  let l s := mkLine (bs s) LF in
  let f := [l "x"; l "y"; l "a"; l "b"; l "c"; l "Z"] in
  let h := mkHunk (mkRange 1 3) (mkRange 1 3)
                  [mkPL Ctx (l "a"); mkPL Del (l "b"); mkPL Add (l "B"); mkPL Ctx (l "c"); mkPL Ctx (l "d")] in
  locate_hunk f h false 0 2 0 = Some (mkLoc 2 1 2).
Proof. vm_compute. reflexivity. Qed.
