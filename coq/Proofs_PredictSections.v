(* Proofs_PredictSections.v — C15 at the level of the run, several sections on different files. *)
From PatchV Require Import Base Lines Hunk Locator Formatter Options Applier LineParser Parser World Driver
     Proofs_Base Proofs_Crash Proofs_Fuel Proofs_Progress Proofs_Driver Proofs_Faults Proofs_Predict Proofs_Sections Proofs_CrashRun
     Proofs_PredictRun.

(* ---------- what is seen of a state ---------- *)
Lemma seen_add_event a b e : seen a = seen b -> seen (add_event a e) = seen (add_event b e).
Proof. unfold seen, add_event. cbn [had_failure events]. intros H. inversion H as [[Hf He]]. rewrite Hf, He. reflexivity. Qed.
Lemma seen_set_failure a b : seen a = seen b -> seen (set_failure a) = seen (set_failure b).
Proof. unfold seen, set_failure. cbn [had_failure events]. intros H. inversion H as [[Hf He]]. rewrite He. reflexivity. Qed.

Lemma seen_tail_report o a b ar : seen a = seen b -> seen (tail_report o a ar) = seen (tail_report o b ar).
Proof.
  intros H. unfold tail_report.
  assert (H1 : seen (add_event a (r_msgs ar)) = seen (add_event b (r_msgs ar))) by (apply seen_add_event; exact H).
  set (a1 := add_event a (r_msgs ar)) in *. set (b1 := add_event b (r_msgs ar)) in *.
  set (e := inform_hunks_failed (if r_skipped ar then bs "ignored" else bs "FAILED") (length (hunks (r_patch ar))) (r_failed ar) ++ [10%N]).
  assert (H2 : seen (if negb (Nat.eqb (r_failed ar) 0) then set_failure (add_event a1 e) else a1) =
               seen (if negb (Nat.eqb (r_failed ar) 0) then set_failure (add_event b1 e) else b1)).
  { destruct (negb (Nat.eqb (r_failed ar) 0)); [apply seen_set_failure; apply seen_add_event; exact H1|exact H1]. }
  set (a2 := if negb (Nat.eqb (r_failed ar) 0) then set_failure (add_event a1 e) else a1) in *.
  set (b2 := if negb (Nat.eqb (r_failed ar) 0) then set_failure (add_event b1 e) else b1) in *.
  destruct (str_eqb (out_file_path o) (bs "-")); [exact H2|].
  match goal with |- seen (if ?c then _ else _) = _ => destruct c end; [apply seen_set_failure; exact H2|exact H2].
Qed.

(* ---------- what a section sees of the tree ---------- *)
Lemma exists_stat m m2 q : stat m2 q = stat m q -> exists_ m2 q = exists_ m q.
Proof. unfold exists_. intros ->. reflexivity. Qed.
Lemma is_regular_file_stat m m2 q : stat m2 q = stat m q -> is_regular_file m2 q = is_regular_file m q.
Proof. unfold is_regular_file. intros ->. reflexivity. Qed.
Lemma get_permissions_stat m m2 q : stat m2 q = stat m q -> get_permissions m2 q = get_permissions m q.
Proof. unfold get_permissions. intros ->. reflexivity. Qed.
Lemma effective_perms_nil st m q : deferred_writes st = [] -> effective_perms st m q = get_permissions m q.
Proof. unfold effective_perms. intros ->. reflexivity. Qed.
Lemma pending_content_nil st m a b : deferred_writes st = [] -> pending_content st m a b = None.
Proof. unfold pending_content. intros ->. cbn [rev find]. destruct (str_eqb a b); reflexivity. Qed.

(* a computation that neither looks at the world nor changes it *)
Definition Pure {A} (m : M A) : Prop := exists r, forall w, m w = (r, w).
Lemma Pure_ret {A} (a : A) : Pure (mret a). Proof. exists (Ok a). reflexivity. Qed.
Lemma Pure_throw {A} e : Pure (@mthrow A e). Proof. exists (Throw e). reflexivity. Qed.
Lemma Pure_lift {A} (r : res A) : Pure (mlift r). Proof. exists r. intros w. destruct r; reflexivity. Qed.
Lemma Pure_body_if should p s : Pure (body_if should p s).
Proof. unfold body_if. destruct should; [apply Pure_lift|apply Pure_ret]. Qed.

(* reading the file to patch: the same lines from two trees in which the file is the same *)
Definition read_input (o : options) (p : patch) (m : fsmap) (ftp : list N) :=
  let! r := perform (OOpenRead ftp) in
  match r with
  | None => match stat m ftp with
            | Some (Reg d _) => mret (split_lines d)
            | _ => mthrow ESystem
            end
  | Some ENOENT => if is_adding_file p o then mret [] else mthrow ESystem
  | Some _ => mthrow ESystem
  end.

Lemma read_input_frame o p ftp w w2 x w1 :
  fault w = None -> fault w2 = None -> stat (fs w2) ftp = stat (fs w) ftp ->
  read_input o p (fs w) ftp w = (Ok x, w1) ->
  exists w21, read_input o p (fs w2) ftp w2 = (Ok x, w21).
Proof.
  intros F1 F2 Hs. unfold read_input, mbind, perform. rewrite F1, F2. cbn [exec_op]. rewrite Hs.
  destruct (stat (fs w) ftp) as [[d mode|mode|t|mode]|]; try destruct (owner_r mode); cbn [mret mthrow];
    try destruct (is_adding_file p o); cbn [mret mthrow]; intros E; try discriminate; inversion E; eexists; reflexivity.
Qed.

(* the file a section patches, as the driver determines it in the tree m when no write is pending *)
Definition target_in (o : options) (p : patch) (m : fsmap) : list N :=
  if is_nil (file_to_patch o) then guess_filepath m [] p o else file_to_patch o.

(* the section described by p finds in the tree m2 what it finds in the tree m: the same file to patch, in the same
   condition, and the same condition of its output file *)
Definition same_view (o : options) (p : patch) (m m2 : fsmap) : Prop :=
  target_in o p m2 = target_in o p m /\
  stat m2 (target_in o p m) = stat m (target_in o p m) /\
  stat m2 (output_path o p (target_in o p m)) = stat m (output_path o p (target_in o p m)).

Lemma bind_pure_ok {A B} (m : M A) (k : A -> M B) w y w' :
  Pure m -> mbind m k w = (Ok y, w') -> exists a, (forall v, m v = (Ok a, v)) /\ k a w = (Ok y, w').
Proof.
  intros [r Hr] H. rewrite mbind_eq, (Hr w) in H. destruct r as [a|e]; [|discriminate]. exists a. split; [exact Hr|exact H].
Qed.

(* the dry run of a section reports the same from two states that show the same and two trees that look the same *)
Lemma dry_section_frame o st st2 should p s w w2 a s' w' :
  seen st2 = seen st -> deferred_writes st = [] -> deferred_writes st2 = [] ->
  fault w = None -> fault w2 = None ->
  same_view o p (fs w) (fs w2) ->
  process_section (set_dry o) st should p s w = (Ok (a, s'), w') ->
  exists a2 w2', process_section (set_dry o) st2 should p s w2 = (Ok (a2, s'), w2') /\ seen a2 = seen a.
Proof.
  intros Hseen Hd Hd2 F1 F2 (V1 & V2 & V3) H. unfold target_in in V1, V2, V3.
  unfold process_section in *.
  change (file_to_patch (set_dry o)) with (file_to_patch o) in *. change (read_only (set_dry o)) with (read_only o) in *.
  change (batch (set_dry o)) with (batch o) in *. change (force (set_dry o)) with (force o) in *.
  change (output_path (set_dry o)) with (output_path o) in *.
  change (guess_filepath ?m ?l p (set_dry o)) with (guess_filepath m l p o) in *.
  change (is_adding_file p (set_dry o)) with (is_adding_file p o) in *.
  rewrite mbind_eq in H. rewrite mbind_eq. cbn [get_fs] in *.
  rewrite Hd in H. rewrite Hd2. cbn [map] in *. rewrite V1.
  set (ftp := if is_nil (file_to_patch o) then guess_filepath (fs w) [] p o else file_to_patch o) in *.
  destruct (is_nil ftp); [discriminate|].
  set (outf := output_path o p ftp) in *.
  rewrite (exists_stat _ _ _ V2), (is_regular_file_stat _ _ _ V2).
  rewrite (effective_perms_nil st2 _ _ Hd2), (get_permissions_stat _ _ _ V3), (get_permissions_stat _ _ _ V2).
  rewrite (effective_perms_nil st _ _ Hd) in H.
  rewrite (pending_content_nil st2 _ _ _ Hd2). rewrite (pending_content_nil st _ _ _ Hd) in H.
  assert (Refuse :
    (let! ps := body_if should p s in let! st' := refuse_to_patch (set_dry o) st outf (fst ps) in mret (st', snd ps)) w = (Ok (a, s'), w') ->
    exists a2 w2', (let! ps := body_if should p s in let! st' := refuse_to_patch (set_dry o) st2 outf (fst ps) in mret (st', snd ps)) w2 = (Ok (a2, s'), w2') /\ seen a2 = seen a).
  { intros HR. destruct (bind_pure_ok _ _ _ _ _ (Pure_body_if should p s) HR) as (ps & Hps & HR1).
    rewrite mbind_eq, (Hps w2). rewrite mbind_eq, refuse_dry in HR1. rewrite mbind_eq, refuse_dry. cbn [mret] in *.
    inversion HR1. eexists. eexists. split; [reflexivity|]. apply seen_set_failure. apply seen_add_event. exact Hseen. }
  destruct (exists_ (fs w) ftp && negb (is_regular_file (fs w) ftp)); [apply Refuse; exact H|].
  destruct (N.eqb (N.land (get_permissions (fs w) outf) write_mask) 0 && match read_only o with ROFail => true | _ => false end);
    [apply Refuse; exact H|].
  clear Refuse.
  change (let! r := perform (OOpenRead ftp) in
          match r with
          | None => match stat (fs w) ftp with Some (Reg d _) => mret (split_lines d) | _ => mthrow ESystem end
          | Some ENOENT => if is_adding_file p o then mret [] else mthrow ESystem
          | Some _ => mthrow ESystem
          end) with (read_input o p (fs w) ftp) in H.
  change (let! r := perform (OOpenRead ftp) in
          match r with
          | None => match stat (fs w2) ftp with Some (Reg d _) => mret (split_lines d) | _ => mthrow ESystem end
          | Some ENOENT => if is_adding_file p o then mret [] else mthrow ESystem
          | Some _ => mthrow ESystem
          end) with (read_input o p (fs w2) ftp).
  rewrite mbind_eq in H. rewrite mbind_eq.
  destruct (read_input o p (fs w) ftp w) as [[input_lines|e] w1] eqn:RI; [|discriminate].
  destruct (read_input_frame o p ftp w w2 input_lines w1 F1 F2 V2 RI) as (w21 & RI2). rewrite RI2.
  match type of H with mbind ?m _ _ = _ =>
    assert (P1 : Pure m) by (destruct (negb (is_nil (prereq p)) && negb (has_prerequisite input_lines (prereq p)));
                             [destruct (batch o); [apply Pure_throw|destruct (force o); [apply Pure_ret|apply Pure_throw]]|apply Pure_ret]) end.
  destruct (bind_pure_ok _ _ _ _ _ P1 H) as ([] & Hu & H1). clear H. rewrite mbind_eq, (Hu w21).
  destruct (bind_pure_ok _ _ _ _ _ (Pure_body_if _ _ _) H1) as ([p2 s2] & Hb & H2). clear H1. rewrite mbind_eq, (Hb w21).
  destruct (bind_pure_ok _ _ _ _ _ (Pure_lift _) H2) as (ar & Ha & H3). clear H2. rewrite mbind_eq, (Ha w21).
  rewrite apply_patch_dry in *.
  match type of H3 with section_tail _ _ _ _ ?x1 ?x2 ?x3 _ _ _ = _ =>
    destruct (tail_dry o st ftp outf x1 x2 x3 ar s2 w1) as (sa & wa & Ea & Sa);
    destruct (tail_dry o st2 ftp outf x1 x2 x3 ar s2 w21) as (sb & wb & Eb & Sb) end.
  rewrite Ea in H3. inversion H3; subst.
  exists sb, wb. split; [exact Eb|]. rewrite Sa, Sb. apply seen_tail_report. exact Hseen.
Qed.
Print Assumptions dry_section_frame.

Lemma same_view_refl o p m : same_view o p m m.
Proof. repeat split. Qed.

(* ---------- sections that do not feel the sections before them ---------- *)
(* The loop of the real run processes zero or more sections completely, from (st, s, w) to (st', s', w'), and each of them
   - starts with no write deferred (deferred writes are those of git-style sections), and
   - finds in the tree it starts from (the tree the sections before it have left) what it would find in the tree m0 the run
     started from: the same file to patch, in the same condition, and the same condition of its output file.  In other
     words: the earlier sections have not written, created, removed or renamed this section's file or output file, nor any
     file that changes the choice among the names of the header. *)
Inductive indep_done (o : options) (f : format) (m0 : fsmap) : dstate -> stream -> world -> dstate -> stream -> world -> Prop :=
| ID_here st s w : indep_done o f m0 st s w st s w
| ID_section st s w should p s1 found st1 s2 w1 st' s' w' :
    seof s = false ->
    parse_patch_header_full (empty_patch f) (strip_size o) s = Ok (should, p, s1, found) ->
    (if negb found && should then FUnknown else pfmt p) <> FUnknown ->
    poper p <> OpBinary ->
    deferred_writes st = [] ->
    same_view o p (fs w) m0 ->
    process_section o st should p s1 w = (Ok (st1, s2), w1) ->
    indep_done o f m0 st1 s2 w1 st' s' w' ->
    indep_done o f m0 st s w st' s' w'
| ID_binary st s w should p s1 found st' s' w' :
    seof s = false ->
    parse_patch_header_full (empty_patch f) (strip_size o) s = Ok (should, p, s1, found) ->
    (if negb found && should then FUnknown else pfmt p) <> FUnknown ->
    poper p = OpBinary ->
    indep_done o f m0 (set_failure st) s1 w st' s' w' ->
    indep_done o f m0 st s w st' s' w'.

Lemma section_keeps_no_fault o st should p s w : fault w = None -> fault (snd (process_section o st should p s w)) = None.
Proof. intros H. destruct (FF_process_section o st should p s w) as [_ F]. apply F. exact H. Qed.

Lemma dry_section_keeps_tree o st should p s w :
  dry_run o = true -> fs (snd (process_section o st should p s w)) = fs w.
Proof. intros Hd. destruct (RO_process_section o Hd st should p s w) as (F & _). exact F. Qed.

Lemma loop_fuel_S s : exists k, loop_fuel s = S k. Proof. eexists. reflexivity. Qed.

(* the dry loop follows the real loop, whatever the state (showing the same) and the world (with the tree m0) it starts from *)
Lemma dry_loop_follows o f m0 st s w st' s' w' :
  indep_done o f m0 st s w st' s' w' -> ends_here o f s' = true ->
  fault w = None ->
  forall sd wd, seen sd = seen st -> deferred_writes sd = [] -> deferred_removals sd = [] -> fs wd = m0 -> fault wd = None ->
  section_loop (loop_fuel s) o f st s false w = (Ok st', w') /\
  exists sd' wd', section_loop (loop_fuel s) (set_dry o) f sd s false wd = (Ok sd', wd') /\
                  seen sd' = seen st' /\ deferred_writes sd' = [] /\ deferred_removals sd' = [].
Proof.
  induction 1 as [st s w|st s w should p s1 found st1 s2 w1 st' s' w' He Hh Hf Hop Hdw Hview Hps _ IH
                 |st s w should p s1 found st' s' w' He Hh Hf Hop _ IH]; intros Hend Fw sd wd Hseen Hd1 Hd2 Hfs Fd.
  - destruct (loop_fuel_S s) as [k ->]. split.
    + apply section_loop_ends. exact Hend.
    + exists sd, wd. split; [apply section_loop_ends; exact Hend|]. repeat split; assumption.
  - (* the real section *)
    assert (Fw1 : fault w1 = None).
    { pose proof (section_keeps_no_fault o st should p s1 w Fw) as X. rewrite Hps in X. exact X. }
    (* the dry section, from the real state and world, then from the dry ones *)
    destruct (dry_run_predicts o st should p s1 w st1 s2 w1 Hps) as (x & wx & Hx & Sx).
    subst m0.
    destruct (dry_section_frame o st sd should p s1 w wd x s2 wx Hseen Hdw Hd1 Fw Fd Hview Hx) as (a2 & wd1 & Ha2 & Sa2).
    destruct (dry_section_defers_nothing (set_dry o) sd should p s1 wd a2 s2 wd1 (set_dry_dry o) Ha2) as [Da Dr].
    assert (Fs1 : fs wd1 = fs wd).
    { pose proof (dry_section_keeps_tree (set_dry o) sd should p s1 wd (set_dry_dry o)) as X. rewrite Ha2 in X. exact X. }
    assert (Fd1 : fault wd1 = None).
    { pose proof (section_keeps_no_fault (set_dry o) sd should p s1 wd Fd) as X. rewrite Ha2 in X. exact X. }
    destruct (IH Hend Fw1 a2 wd1) as (R & sd' & wd' & D & S' & D1 & D2); try congruence.
    split.
    + rewrite (loop_one_section o f st s false should p s1 found st1 s2 w w1 He Hh Hf Hop Hps). exact R.
    + exists sd', wd'. split; [|repeat split; assumption].
      rewrite (loop_one_section (set_dry o) f sd s false should p s1 found a2 s2 wd wd1 He Hh Hf Hop Ha2). exact D.
  - destruct (IH Hend Fw (set_failure sd) wd) as (R & sd' & wd' & D & S' & D1 & D2); try assumption.
    { apply seen_set_failure. exact Hseen. }
    split.
    + rewrite (loop_one_binary o f st s false should p s1 found w He Hh Hf Hop). exact R.
    + exists sd', wd'. split; [|repeat split; assumption].
      rewrite (loop_one_binary (set_dry o) f sd s false should p s1 found wd He Hh Hf Hop). exact D.
Qed.
Print Assumptions dry_loop_follows.

(* ---------- the run ---------- *)
(* The patch t starts with a section that the real run processes normally from the world w; the sections after it are
   processed normally too, each of them independent of the earlier ones in the sense of indep_done (relative to the tree
   of w), until text that ends the run.  No operation failure is pending.  Then, whenever the real run returns an exit
   status and a report, the dry run returns the same exit status and the same report, and leaves the tree as it was. *)
Theorem dry_run_predicts_sections o f t should p s1 found st1 s2 w w1 st' s' w' code ev wf :
  format_from_options o = Ok f ->
  fault w = None ->
  parse_patch_header_full (empty_patch f) (strip_size o) (stream_of t) = Ok (should, p, s1, found) ->
  (if negb found && should then FUnknown else pfmt p) <> FUnknown ->
  poper p <> OpBinary ->
  process_section o ds0 should p s1 w = (Ok (st1, s2), w1) ->
  indep_done o f (fs w) st1 s2 w1 st' s' w' ->
  ends_here o f s' = true ->
  process_patch o t w = (Ok (code, ev), wf) ->
  exists w'', process_patch (set_dry o) t w = (Ok (code, ev), w'') /\
              fs w'' = fs w /\ only_reads (trace w) (trace w'') /\
              code = exit_of st' /\ ev = events st'.
Proof.
  intros Hfo Fw Hh Hf Hop Hps Hind Hend Hreal.
  assert (Fw1 : fault w1 = None).
  { pose proof (section_keeps_no_fault o ds0 should p s1 w Fw) as X. rewrite Hps in X. exact X. }
  destruct (dry_run_predicts o ds0 should p s1 w st1 s2 w1 Hps) as (x & wx & Hx & Sx).
  destruct (dry_section_defers_nothing (set_dry o) ds0 should p s1 w x s2 wx (set_dry_dry o) Hx) as [Da Dr].
  cbn [ds0 deferred_writes deferred_removals] in Da, Dr.
  assert (Fs1 : fs wx = fs w).
  { pose proof (dry_section_keeps_tree (set_dry o) ds0 should p s1 w (set_dry_dry o)) as X. rewrite Hx in X. exact X. }
  assert (Fd1 : fault wx = None).
  { pose proof (section_keeps_no_fault (set_dry o) ds0 should p s1 w Fw) as X. rewrite Hx in X. exact X. }
  destruct (dry_loop_follows o f (fs w) st1 s2 w1 st' s' w' Hind Hend Fw1 x wx Sx Da Dr Fs1 Fd1) as (R & sd' & wd' & D & S' & D1 & D2).
  (* the real run *)
  rewrite process_patch_unfold, bind_lift, Hfo in Hreal. unfold mbind in Hreal.
  change (S (S (length t))) with (loop_fuel (stream_of t)) in Hreal.
  rewrite (loop_one_section o f ds0 (stream_of t) true should p s1 found st1 s2 w w1 eq_refl Hh Hf Hop Hps), R in Hreal.
  destruct (finish_seen o st' w' code ev wf Hreal) as [Hc Hev].
  destruct (exit_of_seen sd' st' S') as [Hxx Hevd].
  assert (Hdry : process_patch (set_dry o) t w = (Ok (code, ev), wd')).
  { rewrite process_patch_unfold, bind_lift, format_from_options_dry, Hfo. unfold mbind.
    change (S (S (length t))) with (loop_fuel (stream_of t)).
    rewrite (loop_one_section (set_dry o) f ds0 (stream_of t) true should p s1 found x s2 w wx eq_refl Hh Hf Hop Hx), D.
    rewrite (finish_dry_state (set_dry o) sd' wd' D1 D2). rewrite Hxx, Hevd, Hc, Hev. reflexivity. }
  exists wd'. split; [exact Hdry|].
  destruct (RO_process_patch (set_dry o) (set_dry_dry o) t w) as (F & _ & T & _). rewrite Hdry in F, T. cbn [snd] in F, T.
  repeat split; assumption.
Qed.
Print Assumptions dry_run_predicts_sections.

(* the same for run_patch *)
Theorem dry_run_predicts_run_sections o f stdin w t w0 should p s1 found st1 s2 w1 st' s' w' code ev wf :
  patch_file_bytes o stdin w = (Ok t, w0) ->
  format_from_options o = Ok f ->
  fault w0 = None ->
  parse_patch_header_full (empty_patch f) (strip_size o) (stream_of t) = Ok (should, p, s1, found) ->
  (if negb found && should then FUnknown else pfmt p) <> FUnknown ->
  poper p <> OpBinary ->
  process_section o ds0 should p s1 w0 = (Ok (st1, s2), w1) ->
  indep_done o f (fs w0) st1 s2 w1 st' s' w' ->
  ends_here o f s' = true ->
  process_patch o t w0 = (Ok (code, ev), wf) ->
  run_patch o stdin w = mkRR code ev wf /\
  exists w'', run_patch (set_dry o) stdin w = mkRR code ev w'' /\ fs w'' = fs w /\
              code = exit_of st' /\ ev = events st'.
Proof.
  intros Hb Hfo Fw Hh Hf Hop Hps Hind Hend Hreal.
  destruct (dry_run_predicts_sections o f t should p s1 found st1 s2 w0 w1 st' s' w' code ev wf Hfo Fw Hh Hf Hop Hps Hind Hend Hreal)
    as (w'' & Hdry & _ & _ & Hc & Hev).
  split.
  - unfold run_patch, mbind. rewrite Hb, Hreal. reflexivity.
  - exists w''.
    assert (R : run_patch (set_dry o) stdin w = mkRR code ev w'').
    { unfold run_patch, mbind. rewrite patch_file_bytes_dry, Hb, Hdry. reflexivity. }
    split; [exact R|]. split; [|split; assumption].
    destruct (dry_run_pure (set_dry o) (set_dry_dry o) stdin w) as [F _]. rewrite R in F. exact F.
Qed.
Print Assumptions dry_run_predicts_run_sections.

(* ---------- example: two sections on two files; the second hunk of the second section fails ---------- *)
Local Open Scope string_scope.
Definition ps_patch :=
  bs "--- f" ++ pr_nl ++ bs "+++ f" ++ pr_nl ++
  bs "@@ -1 +1 @@" ++ pr_nl ++ bs "-a" ++ pr_nl ++ bs "+b" ++ pr_nl ++
  bs "--- g" ++ pr_nl ++ bs "+++ g" ++ pr_nl ++
  bs "@@ -1 +1 @@" ++ pr_nl ++ bs "-a" ++ pr_nl ++ bs "+b" ++ pr_nl ++
  bs "@@ -3 +3 @@" ++ pr_nl ++ bs "-x" ++ pr_nl ++ bs "+y" ++ pr_nl.
Definition ps_world := mkWorld [(bs "f", Reg pr_file 420); (bs "g", Reg pr_file 420); (bs "p.diff", Reg ps_patch 420)] 18 [] None [].

Example ps_predicted :
  exists st' ev w',
    run_patch (pr_opts false) [] ps_world = mkRR 1 ev w' /\
    exists w'', run_patch (set_dry (pr_opts false)) [] ps_world = mkRR 1 ev w'' /\ fs w'' = fs ps_world /\
                1 = exit_of st' /\ ev = events st'.
Proof.
  eexists _, _, _.
  eapply (dry_run_predicts_run_sections (pr_opts false) _ [] ps_world ps_patch).
  - vm_compute; reflexivity.
  - vm_compute; reflexivity.
  - vm_compute; reflexivity.
  - vm_compute; reflexivity.
  - vm_compute; discriminate.
  - vm_compute; discriminate.
  - vm_compute; reflexivity.
  - eapply ID_section.
    + vm_compute; reflexivity.
    + vm_compute; reflexivity.
    + vm_compute; discriminate.
    + vm_compute; discriminate.
    + vm_compute; reflexivity.
    + split; [|split]; vm_compute; reflexivity.
    + vm_compute; reflexivity.
    + apply ID_here.
  - vm_compute; reflexivity.
  - vm_compute; reflexivity.
Qed.

Example ps_cross_check :
  rr_exit (run_patch (pr_opts false) [] ps_world) = 1 /\
  rr_exit (run_patch (pr_opts true) [] ps_world) = 1 /\
  rr_events (run_patch (pr_opts true) [] ps_world) = rr_events (run_patch (pr_opts false) [] ps_world) /\
  lookup (fs (rr_world (run_patch (pr_opts false) [] ps_world))) (bs "f") = Some (Reg (bs "b" ++ pr_nl ++ bs "m" ++ pr_nl ++ bs "c" ++ pr_nl) 420) /\
  lookup (fs (rr_world (run_patch (pr_opts false) [] ps_world))) (bs "g") = Some (Reg (bs "b" ++ pr_nl ++ bs "m" ++ pr_nl ++ bs "c" ++ pr_nl) 420) /\
  lookup (fs (rr_world (run_patch (pr_opts false) [] ps_world))) (bs "g.rej") <> None /\
  fs (rr_world (run_patch (pr_opts true) [] ps_world)) = fs ps_world.
Proof. vm_compute. repeat split; try reflexivity; discriminate. Qed.

(* the independence hypothesis is needed: two sections on the same file, the second of which applies to what the first has
   written.  The real run succeeds (exit 0); the dry run, which writes nothing, fails the second section (exit 1). *)
Definition ps_patch_same :=
  bs "--- f" ++ pr_nl ++ bs "+++ f" ++ pr_nl ++
  bs "@@ -1 +1 @@" ++ pr_nl ++ bs "-a" ++ pr_nl ++ bs "+b" ++ pr_nl ++
  bs "--- f" ++ pr_nl ++ bs "+++ f" ++ pr_nl ++
  bs "@@ -1 +1 @@" ++ pr_nl ++ bs "-b" ++ pr_nl ++ bs "+z" ++ pr_nl.
Definition ps_world_same := mkWorld [(bs "f", Reg pr_file 420); (bs "p.diff", Reg ps_patch_same 420)] 18 [] None [].
Example ps_same_file_not_predicted :
  rr_exit (run_patch (pr_opts false) [] ps_world_same) = 0 /\ rr_exit (run_patch (pr_opts true) [] ps_world_same) = 1.
Proof. vm_compute. split; reflexivity. Qed.
