(* Properties_C09.v — C09: aborts and crashes never destroy data.  Statements only; proofs in Proofs_Crash.v.
   Crash points are modelled by the injected failure of World.v (the failing operation leaves the tree as it was before it
   and aborts the run), so a statement for every world w, whatever its pending failure, is a statement about every prefix
   of the run's operations.  Granularity: one whole-file write is one operation (partial). *)
From PatchV Require Import Base Lines Hunk Options Parser World Driver Proofs_Driver Proofs_Crash.

(* --backup: whatever fails while a target is written, the original (bytes and mode) is afterwards at the target's path
   or at its backup path *)
Theorem write_keeps_original : forall o st d w data mode,
  d_backup d = true ->
  existsb (str_eqb (backup_name o (d_dest d))) (backed_up st) = false ->
  lookup (fs w) (d_dest d) = Some (Reg data mode) -> exists_ (fs w) (d_dest d) = true ->
  d_dest d <> backup_name o (d_dest d) ->
  let w' := snd (write_now o st d w) in
  lookup (fs w') (d_dest d) = Some (Reg data mode) \/ lookup (fs w') (backup_name o (d_dest d)) = Some (Reg data mode).
Proof. exact Proofs_Crash.write_keeps_original. Qed.
Print Assumptions write_keeps_original.

(* a section whose text is malformed performs no mutating operation at all (its files stay in the state the fully
   processed sections before it left them in) *)
Theorem bad_section_writes_nothing : forall o st p s e,
  (forall p', pfmt p' = pfmt p -> hunks p' = hunks p -> parse_patch_body p' s = Throw e) ->
  RO (process_section o st true p s) (fun _ => False).
Proof. exact Proofs_Crash.bad_section_writes_nothing. Qed.
Print Assumptions bad_section_writes_nothing.

(* git-style patches: when one of the deferred writes fails, no source of a rename is removed *)
Theorem failed_write_stops_removals : forall A o st ds ws rs (k : dstate -> M A) w e w1,
  finalize_writes o st ds w = (Throw e, w1) ->
  (let! st1 := finalize_writes o st ds in let! _ := finalize_removals ws rs in k st1) w = (Throw e, w1).
Proof. exact @Proofs_Crash.failed_write_stops_removals. Qed.
Print Assumptions failed_write_stops_removals.

Local Open Scope string_scope.
(* non-vacuity: -b on an existing file, a failure injected at each of its operations *)
Definition ex_o := mkOptions true false [] [] false [] false false false [] (-1) 2 false [] [] false false false false false false false false OBUnset OBUnset MNative RFDefault ROWarn QSUnset [] [].
Definition ex_d := mkDef (bs "new") (bs "f") false true None (Some 420%N).
Definition ex_w k := mkWorld [(bs "f", Reg (bs "old") 420)] 18 [] k [].
Example crash_nonvacuous :
  map (fun k => let w' := snd (write_now ex_o (mkDS false [] [] [] []) ex_d (ex_w k)) in
                (lookup (fs w') (bs "f"), lookup (fs w') (bs "f.orig")))
      [Some 0; Some 1; Some 2; None]
  = [ (Some (Reg (bs "old") 420), None);
      (None, Some (Reg (bs "old") 420));
      (Some (Reg (bs "new") 420), Some (Reg (bs "old") 420));
      (Some (Reg (bs "new") 420), Some (Reg (bs "old") 420)) ].
Proof. vm_compute. reflexivity. Qed.

(* ===== merged from Properties_WholeRename.v (crash points of a pure rename) ===== *)
From PatchV Require Import Base Lines Hunk Locator Formatter Options Applier LineParser Parser World Driver
     Spec_Locate Spec_Apply Spec_Names Proofs_Base Proofs_Lines Proofs_Unified Proofs_Filler Proofs_Conf Proofs_World Proofs_Reverse
     Proofs_Sections Proofs_Sections_Unified Proofs_Touch Proofs_Whole Proofs_WholeGit Proofs_WholeNames Proofs_WholeRename.
Theorem pure_rename_never_lost_gen : forall o f0 fl tl g sim rfrom rto oldn newn w data mode,
  plain_options o -> format_from_options o = Ok f0 ->
  Forall (Filler (strip_size o) (empty_patch f0)) fl -> Forall clean fl -> Forall (Trailing (strip_size o)) tl ->
  rename_text (strip_size o) g sim rfrom rto oldn newn ->
  rename_ready (fs w) (rename_src o oldn newn) (rename_dst o oldn newn) data mode ->
  match process_patch o (join_lines (fl ++ rename_lines g sim rfrom rto ++ tl)) w with
  | (Ok _, w') => lookup (fs w') (rename_src o oldn newn) = None /\
                  lookup (fs w') (rename_dst o oldn newn) = Some (Reg (rewritten o data) mode)
  | (Throw _, w') => lookup (fs w') (rename_src o oldn newn) = Some (Reg data mode) \/
                     lookup (fs w') (rename_dst o oldn newn) = Some (Reg (rewritten o data) mode)
  end.
Proof. exact Proofs_WholeRename.pure_rename_never_lost_gen. Qed.
Print Assumptions pure_rename_never_lost_gen.

Theorem pure_rename_never_lost : forall o f0 fl tl oldn newn sim w data mode,
  plain_options o -> reverse_patch_opt o = false -> format_from_options o = Ok f0 ->
  Forall (Filler (strip_size o) (empty_patch f0)) fl -> Forall clean fl -> Forall (Trailing (strip_size o)) tl ->
  hd 0%N oldn <> 34%N -> hd 0%N newn <> 34%N -> clean oldn -> clean newn -> clean sim ->
  rename_ready (fs w) (ext_name (strip_size o) (bs "a/") oldn) (ext_name (strip_size o) (bs "b/") newn) data mode ->
  rewritten o data = data ->
  forall r w', process_patch o (join_lines (fl ++ rename_lines ((bs "a/" ++ oldn) ++ bs " b/" ++ newn) sim oldn newn ++ tl)) w = (r, w') ->
  lookup (fs w') (ext_name (strip_size o) (bs "a/") oldn) = Some (Reg data mode) \/
  lookup (fs w') (ext_name (strip_size o) (bs "b/") newn) = Some (Reg data mode).
Proof. exact Proofs_WholeRename.pure_rename_never_lost. Qed.
Print Assumptions pure_rename_never_lost.

Theorem pure_rename_fault_at_any_operation : forall o f0 fl tl oldn newn sim w data mode k,
  plain_options o -> reverse_patch_opt o = false -> format_from_options o = Ok f0 ->
  Forall (Filler (strip_size o) (empty_patch f0)) fl -> Forall clean fl -> Forall (Trailing (strip_size o)) tl ->
  hd 0%N oldn <> 34%N -> hd 0%N newn <> 34%N -> clean oldn -> clean newn -> clean sim ->
  fault w = Some k ->
  rename_ready (fs w) (ext_name (strip_size o) (bs "a/") oldn) (ext_name (strip_size o) (bs "b/") newn) data mode ->
  rewritten o data = data ->
  let w' := snd (process_patch o (join_lines (fl ++ rename_lines ((bs "a/" ++ oldn) ++ bs " b/" ++ newn) sim oldn newn ++ tl)) w) in
  lookup (fs w') (ext_name (strip_size o) (bs "a/") oldn) = Some (Reg data mode) \/
  lookup (fs w') (ext_name (strip_size o) (bs "b/") newn) = Some (Reg data mode).
Proof. exact Proofs_WholeRename.pure_rename_fault_at_any_operation. Qed.
Print Assumptions pure_rename_fault_at_any_operation.

Theorem pure_rename_reverse_never_lost : forall o f0 fl tl oldn newn sim w data mode,
  plain_options o -> reverse_patch_opt o = true -> format_from_options o = Ok f0 ->
  Forall (Filler (strip_size o) (empty_patch f0)) fl -> Forall clean fl -> Forall (Trailing (strip_size o)) tl ->
  hd 0%N oldn <> 34%N -> hd 0%N newn <> 34%N -> clean oldn -> clean newn -> clean sim ->
  rename_ready (fs w) (ext_name (strip_size o) (bs "b/") newn) (ext_name (strip_size o) (bs "a/") oldn) data mode ->
  rewritten o data = data ->
  forall r w', process_patch o (join_lines (fl ++ rename_lines ((bs "a/" ++ oldn) ++ bs " b/" ++ newn) sim oldn newn ++ tl)) w = (r, w') ->
  lookup (fs w') (ext_name (strip_size o) (bs "b/") newn) = Some (Reg data mode) \/
  lookup (fs w') (ext_name (strip_size o) (bs "a/") oldn) = Some (Reg data mode).
Proof. exact Proofs_WholeRename.pure_rename_reverse_never_lost. Qed.
Print Assumptions pure_rename_reverse_never_lost.

(* ===== merged from Properties_CrashRun.v ===== *)
From PatchV Require Import Base Lines Hunk Locator Formatter Options Applier LineParser Parser World Driver
     Proofs_Base Proofs_World Proofs_Driver Proofs_Touch Proofs_Sections Proofs_CrashRun.

(* ================= (1) the source of a rename outlives the complete writing of its destination ================= *)

(* The finalisation of a run (deferred writes, then deferred removals), for every state the loop over the sections can leave,
   every world and every pending failure.  [Steps w log w'] : log is the history of the operations performed from w to w'
   with the result of each (None = success).  Every removal in it comes after the successful write of the complete
   content of EVERY deferred write. *)
Theorem finish_unlink_after_writes : forall o st w,
  exists log, Steps w log (snd (finish o st w)) /\
    forall d, In d (deferred_writes st) -> lpreceded (wrote d) is_unlink log.
Proof. exact Proofs_CrashRun.finish_unlink_after_writes. Qed.
Print Assumptions finish_unlink_after_writes.

(* ... and the removals are those of the sources recorded, never of a name that is also written *)
Theorem finish_unlinks_sources_only : forall o st,
  TP (fun op => forall q, op = OUnlink q ->
                  In q (deferred_removals st) /\ existsb (fun d => str_eqb (d_dest d) q) (deferred_writes st) = false) (finish o st).
Proof. exact Proofs_CrashRun.finish_unlinks_sources_only. Qed.
Print Assumptions finish_unlinks_sources_only.

(* an entry (OWrite p data, None) of a history is a moment of the run at which p held the complete data *)
Theorem wrote_moment : forall d w l1 en l2 w',
  Steps w (l1 ++ en :: l2) w' -> wrote d en ->
  exists wa wb, Steps w l1 wa /\ Steps wb l2 w' /\ content (fs wb) (d_dest d) = Some (d_data d).
Proof. exact Proofs_CrashRun.wrote_moment. Qed.
Print Assumptions wrote_moment.

(* the trace of World.v is the history without the results *)
Theorem Steps_trace : forall w l w', Steps w l w' -> trace w' = trace w ++ map fst l.
Proof. exact Proofs_CrashRun.Steps_trace. Qed.
Print Assumptions Steps_trace.

(* the whole run: the loop over the sections, then (only when the loop returns normally) the finalisation *)
Theorem rename_source_outlives_destination : forall o f t w,
  format_from_options o = Ok f ->
  match section_loop (S (S (length t))) o f ds0 (stream_of t) true w with
  | (Throw e, w1) => process_patch o t w = (Throw e, w1)
  | (Ok st, w1) =>
      exists log, Steps w1 log (snd (process_patch o t w)) /\
        (forall d, In d (deferred_writes st) -> lpreceded (wrote d) is_unlink log) /\
        (forall q r, In (OUnlink q, r) log ->
           In q (deferred_removals st) /\ existsb (fun d => str_eqb (d_dest d) q) (deferred_writes st) = false)
  end.
Proof. exact Proofs_CrashRun.rename_source_outlives_destination. Qed.
Print Assumptions rename_source_outlives_destination.

(* a rename that is not deferred (a symbolic link; any format other than git): inside the section, every removal of the
   source comes after the successful complete write (or creation) of the output file *)
Theorem section_tail_unlink_after_write : forall o ftp outf, ftp <> outf ->
  forall st operms operms1 needed ar s2,
  Hist (section_tail o st ftp outf operms operms1 needed ar s2)
       (fun _ l => lpreceded (wrote_out outf (lines_bytes (newline_output o) (r_out ar))) (unlink_of ftp) l).
Proof. exact Proofs_CrashRun.section_tail_unlink_after_write. Qed.
Print Assumptions section_tail_unlink_after_write.

Theorem section_unlink_after_write : forall o st should p s w,
  let ftp := if is_nil (file_to_patch o) then guess_filepath (fs w) (map d_dest (deferred_writes st)) p o else file_to_patch o in
  let outf := output_path o p ftp in
  ftp <> outf ->
  exists log, Steps w log (snd (process_section o st should p s w)) /\
    lpreceded (fun en => exists data, wrote_out outf data en) (unlink_of ftp) log.
Proof. exact Proofs_CrashRun.section_unlink_after_write. Qed.
Print Assumptions section_unlink_after_write.

(* on the tree, every list of deferred writes: as long as they have not ALL succeeded the source holds its original node *)
Theorem source_kept_until_all_written : forall o st w src n,
  let ds := deferred_writes st in
  (forall d, In d ds -> src <> d_dest d /\ src <> backup_name o (d_dest d)) ->
  clear_of o ds src n (fs w) ->
  match finalize_writes o st ds w with
  | (Ok st1, w1) => lookup (fs w1) src = Some n
  | (Throw e, w1) => finish o st w = (Throw e, w1) /\ lookup (fs w1) src = Some n
  end.
Proof. exact Proofs_CrashRun.source_kept_until_all_written. Qed.
Print Assumptions source_kept_until_all_written.

(* on the tree, one deferred rename followed by the finalisation: the source is as it was, or the destination is complete *)
Theorem rename_source_or_destination : forall o st d w src n,
  deferred_writes st = [d] ->
  src <> d_dest d -> src <> backup_name o (d_dest d) ->
  lookup (fs w) src = Some n -> ns (fs w) (d_dest d) -> ns (fs w) (backup_name o (d_dest d)) ->
  let w' := snd (finish o st w) in
  lookup (fs w') src = Some n \/ exists mode, lookup (fs w') (d_dest d) = Some (Reg (d_data d) mode).
Proof. exact Proofs_CrashRun.rename_source_or_destination. Qed.
Print Assumptions rename_source_or_destination.

(* ================= (2) with --backup the original is in full at its path or at its backup path ================= *)
Theorem backup_section_keeps_original : forall o st should p s w data mode,
  let ftp := if is_nil (file_to_patch o) then guess_filepath (fs w) (map d_dest (deferred_writes st)) p o else file_to_patch o in
  let f := output_path o p ftp in
  save_backup o = true ->
  reject_path o f <> f -> (forall t, lookup (fs w) (reject_path o f) <> Some (Sym t)) ->
  ftp <> backup_name o f ->
  lookup (fs w) f = Some (Reg data mode) -> exists_ (fs w) f = true ->
  existsb (str_eqb (backup_name o f)) (backed_up st) = false ->
  let w' := snd (process_section o st should p s w) in
  lookup (fs w') f = Some (Reg data mode) \/ lookup (fs w') (backup_name o f) = Some (Reg data mode).
Proof. exact Proofs_CrashRun.backup_section_keeps_original. Qed.
Print Assumptions backup_section_keeps_original.

Theorem backup_section_then_finish_keeps_original : forall o st should p s w data mode,
  let ftp := if is_nil (file_to_patch o) then guess_filepath (fs w) (map d_dest (deferred_writes st)) p o else file_to_patch o in
  let f := output_path o p ftp in
  save_backup o = true ->
  reject_path o f <> f -> (forall t, lookup (fs w) (reject_path o f) <> Some (Sym t)) ->
  ftp <> backup_name o f ->
  lookup (fs w) f = Some (Reg data mode) -> exists_ (fs w) f = true ->
  existsb (str_eqb (backup_name o f)) (backed_up st) = false ->
  deferred_writes st = [] -> deferred_removals st = [] ->
  let w' := snd ((let! y := process_section o st should p s in finish o (fst y)) w) in
  lookup (fs w') f = Some (Reg data mode) \/ lookup (fs w') (backup_name o f) = Some (Reg data mode).
Proof. exact Proofs_CrashRun.backup_section_then_finish_keeps_original. Qed.
Print Assumptions backup_section_then_finish_keeps_original.

Theorem backup_run_keeps_original : forall o fmt t should p s1 found w data mode,
  let ftp := if is_nil (file_to_patch o) then guess_filepath (fs w) [] p o else file_to_patch o in
  let f := output_path o p ftp in
  format_from_options o = Ok fmt ->
  parse_patch_header_full (empty_patch fmt) (strip_size o) (stream_of t) = Ok (should, p, s1, found) ->
  (if negb found && should then FUnknown else pfmt p) <> FUnknown ->
  poper p <> OpBinary ->
  (forall st1 s2 w1, process_section o ds0 should p s1 w = (Ok (st1, s2), w1) -> ends_here o fmt s2 = true) ->
  save_backup o = true ->
  reject_path o f <> f -> (forall t0, lookup (fs w) (reject_path o f) <> Some (Sym t0)) ->
  ftp <> backup_name o f ->
  lookup (fs w) f = Some (Reg data mode) -> exists_ (fs w) f = true ->
  let w' := snd (process_patch o t w) in
  lookup (fs w') f = Some (Reg data mode) \/ lookup (fs w') (backup_name o f) = Some (Reg data mode).
Proof. exact Proofs_CrashRun.backup_run_keeps_original. Qed.
Print Assumptions backup_run_keeps_original.

(* ================= (3) a fatal error caused by the patch text leaves whole states ================= *)
Theorem text_abort_keeps_whole_states : forall o f t w st' s' w',
  format_from_options o = Ok f ->
  sections_done o f ds0 (stream_of t) w st' s' w' ->
  bad_section_text o f s' ->
  exists e w'', process_patch o t w = (Throw e, w'') /\ same_tree_after w' w''.
Proof. exact Proofs_CrashRun.text_abort_keeps_whole_states. Qed.
Print Assumptions text_abort_keeps_whole_states.

Theorem text_abort_run : forall o f stdin t w0 w st' s' w',
  patch_file_bytes o stdin w0 = (Ok t, w) ->
  format_from_options o = Ok f ->
  sections_done o f ds0 (stream_of t) w st' s' w' ->
  bad_section_text o f s' ->
  rr_exit (run_patch o stdin w0) = 2 /\ same_tree_after w' (rr_world (run_patch o stdin w0)).
Proof. exact Proofs_CrashRun.text_abort_run. Qed.
Print Assumptions text_abort_run.

Theorem text_abort_after_first_section : forall o f t t2 should p s1 found st1 w w1,
  format_from_options o = Ok f ->
  parse_patch_header_full (empty_patch f) (strip_size o) (stream_of t) = Ok (should, p, s1, found) ->
  (if negb found && should then FUnknown else pfmt p) <> FUnknown ->
  poper p <> OpBinary ->
  process_section o ds0 should p s1 w = (Ok (st1, stream_of t2), w1) ->
  bad_section_text o f (stream_of t2) ->
  exists e w2, process_patch o t w = (Throw e, w2) /\ same_tree_after w1 w2.
Proof. exact Proofs_CrashRun.text_abort_after_first_section. Qed.
Print Assumptions text_abort_after_first_section.

Theorem no_patch_text_abort : forall o f t w should p s1 found,
  format_from_options o = Ok f ->
  parse_patch_header_full (empty_patch f) (strip_size o) (stream_of t) = Ok (should, p, s1, found) ->
  (if negb found && should then FUnknown else pfmt p) = FUnknown ->
  process_patch o t w = (Throw EInvalidArgument, w).
Proof. exact Proofs_CrashRun.no_patch_text_abort. Qed.
Print Assumptions no_patch_text_abort.

(* ================= non-vacuity ================= *)
Local Open Scope string_scope.
Definition cr_nl : list N := [10%N].
(* plain options; the same with -b *)
Definition cr_o : options :=
  mkOptions false false [] [] false [] false false false [] (-1) 2 false [] [] false false false false false false false false
            OBUnset OBUnset MNative RFDefault ROWarn QSUnset [] [].
Definition cr_ob : options :=
  mkOptions true false [] [] false [] false false false [] (-1) 2 false [] [] false false false false false false false false
            OBUnset OBUnset MNative RFDefault ROWarn QSUnset [] [].
(* a unified section for f, a git change of f, a git rename of f to h with a change, a section for g whose hunk is cut short *)
Definition cr_sec_f := bs "--- f" ++ cr_nl ++ bs "+++ f" ++ cr_nl ++ bs "@@ -1 +1 @@" ++ cr_nl ++ bs "-a" ++ cr_nl ++ bs "+b" ++ cr_nl.
Definition cr_git_f := bs "diff --git a/f b/f" ++ cr_nl ++ bs "--- a/f" ++ cr_nl ++ bs "+++ b/f" ++ cr_nl ++ bs "@@ -1 +1 @@" ++ cr_nl ++ bs "-a" ++ cr_nl ++ bs "+b" ++ cr_nl.
Definition cr_git_ren := bs "diff --git a/f b/h" ++ cr_nl ++ bs "similarity index 50%" ++ cr_nl ++ bs "rename from f" ++ cr_nl ++ bs "rename to h" ++ cr_nl
   ++ bs "--- a/f" ++ cr_nl ++ bs "+++ b/h" ++ cr_nl ++ bs "@@ -1 +1 @@" ++ cr_nl ++ bs "-a" ++ cr_nl ++ bs "+b" ++ cr_nl.
Definition cr_bad_g := bs "--- g" ++ cr_nl ++ bs "+++ g" ++ cr_nl ++ bs "@@ -1 +1 @@" ++ cr_nl ++ bs "-c" ++ cr_nl.
Definition cr_w k := mkWorld [(bs "f", Reg (bs "a" ++ cr_nl) 420); (bs "g", Reg (bs "c" ++ cr_nl) 420)] 18 [] k [].
Definition cr_faults := [Some 0; Some 1; Some 2; Some 3; Some 4; Some 5; None].

Definition cr_hdr (t : list N) : bool * patch * stream * bool :=
  match parse_patch_header_full (empty_patch FUnknown) (-1) (stream_of t) with
  | Ok x => x
  | Throw _ => (false, empty_patch FUnknown, stream_of [], false)
  end.
Definition cr_should t := fst (fst (fst (cr_hdr t))).
Definition cr_p t := snd (fst (fst (cr_hdr t))).
Definition cr_s1 t := snd (fst (cr_hdr t)).
Definition cr_found t := snd (cr_hdr t).

(* ---- (1): git rename f -> h.  What the loop leaves: one deferred write (the complete new content of h), one removal ---- *)
Definition cr_d := mkDef (bs "b" ++ cr_nl) (bs "h") true false None (Some 420%N).
Definition cr_st := mkDS false [] [cr_d] [bs "f"] [].
Example cr_rename_loop : forall k,
  section_loop (S (S (length cr_git_ren))) cr_o FUnknown ds0 (stream_of cr_git_ren) true (cr_w (Some (S k))) =
  (Ok cr_st, mkWorld (fs (cr_w None)) 18 [OOpenRead (bs "f")] (Some k) []).
Proof. intros k. vm_compute. reflexivity. Qed.

(* the hypotheses of rename_source_or_destination hold for it, in every world with this tree, whatever the failure ... *)
Example cr_rename_state : forall k,
  let w' := snd (finish cr_o cr_st (cr_w k)) in
  lookup (fs w') (bs "f") = Some (Reg (bs "a" ++ cr_nl) 420) \/ exists mode, lookup (fs w') (bs "h") = Some (Reg (bs "b" ++ cr_nl) mode).
Proof.
  intros k. apply (rename_source_or_destination cr_o cr_st cr_d (cr_w k) (bs "f") (Reg (bs "a" ++ cr_nl) 420)).
  - reflexivity.
  - vm_compute. discriminate.
  - vm_compute. discriminate.
  - reflexivity.
  - intros t. vm_compute. discriminate.
  - intros t. vm_compute. discriminate.
Qed.

(* ... and this is what happens at each crash point of the whole run (failure at operation 0, 1, ..; none):
   (result, f, h, the operations) *)
Example cr_rename_each_fault :
  map (fun k => let r := process_patch cr_o cr_git_ren (cr_w k) in
                (match fst r with Ok _ => 0 | Throw _ => 2 end, lookup (fs (snd r)) (bs "f"), lookup (fs (snd r)) (bs "h"), trace (snd r)))
      [Some 0; Some 1; Some 2; Some 3; None]
  = [ (2, Some (Reg (bs "a" ++ cr_nl) 420), None, [OOpenRead (bs "f")]);
      (2, Some (Reg (bs "a" ++ cr_nl) 420), None, [OOpenRead (bs "f"); OWrite (bs "h") (bs "b" ++ cr_nl)]);
      (2, Some (Reg (bs "a" ++ cr_nl) 420), Some (Reg (bs "b" ++ cr_nl) 420), [OOpenRead (bs "f"); OWrite (bs "h") (bs "b" ++ cr_nl); OChmod (bs "h") 420]);
      (2, Some (Reg (bs "a" ++ cr_nl) 420), Some (Reg (bs "b" ++ cr_nl) 420), [OOpenRead (bs "f"); OWrite (bs "h") (bs "b" ++ cr_nl); OChmod (bs "h") 420; OUnlink (bs "f")]);
      (0, None, Some (Reg (bs "b" ++ cr_nl) 420), [OOpenRead (bs "f"); OWrite (bs "h") (bs "b" ++ cr_nl); OChmod (bs "h") 420; OUnlink (bs "f")]) ].
Proof. vm_compute. reflexivity. Qed.

(* the history of the finalisation without failure: the removal is its last entry, the successful write its first *)
Example cr_rename_history :
  Steps (cr_w None) [(OWrite (bs "h") (bs "b" ++ cr_nl), None); (OChmod (bs "h") 420, None); (OUnlink (bs "f"), None)]
        (snd (finish cr_o cr_st (cr_w None))).
Proof.
  eapply Steps_cons; [apply same_tree_refl|vm_compute; reflexivity|].
  eapply Steps_cons; [apply same_tree_refl|vm_compute; reflexivity|].
  eapply Steps_cons; [apply same_tree_refl|vm_compute; reflexivity|].
  apply Steps_nil. vm_compute. repeat split.
Qed.

(* ---- (2): -b, a unified section for f, and a git change of f (deferred), a failure at each operation ---- *)
Ltac cr_backup_hyps :=
  match goal with
  | |- format_from_options _ = _ => reflexivity
  | |- parse_patch_header_full _ _ _ = _ => vm_compute; reflexivity
  | |- _ <> _ => vm_compute; discriminate
  | |- forall st1 s2 w1, _ = _ -> _ => let E := fresh in intros ? ? ? E; vm_compute in E; first [discriminate E | inversion E; subst; vm_compute; reflexivity]
  | |- forall t0, _ <> _ => intros ?; vm_compute; discriminate
  | |- _ = _ => vm_compute; reflexivity
  end.

Example cr_backup_unified :
  Forall (fun k => let w' := snd (process_patch cr_ob cr_sec_f (cr_w k)) in
                   lookup (fs w') (bs "f") = Some (Reg (bs "a" ++ cr_nl) 420) \/
                   lookup (fs w') (bs "f.orig") = Some (Reg (bs "a" ++ cr_nl) 420)) cr_faults.
Proof.
  repeat constructor;
    apply (backup_run_keeps_original cr_ob FUnknown cr_sec_f (cr_should cr_sec_f) (cr_p cr_sec_f) (cr_s1 cr_sec_f) (cr_found cr_sec_f));
    cr_backup_hyps.
Qed.

Example cr_backup_git :
  Forall (fun k => let w' := snd (process_patch cr_ob cr_git_f (cr_w k)) in
                   lookup (fs w') (bs "f") = Some (Reg (bs "a" ++ cr_nl) 420) \/
                   lookup (fs w') (bs "f.orig") = Some (Reg (bs "a" ++ cr_nl) 420)) cr_faults.
Proof.
  repeat constructor;
    apply (backup_run_keeps_original cr_ob FUnknown cr_git_f (cr_should cr_git_f) (cr_p cr_git_f) (cr_s1 cr_git_f) (cr_found cr_git_f));
    cr_backup_hyps.
Qed.

(* what the tree is at each crash point: (f, f.orig) *)
Example cr_backup_each_fault :
  map (fun k => let w' := snd (process_patch cr_ob cr_git_f (cr_w k)) in (lookup (fs w') (bs "f"), lookup (fs w') (bs "f.orig")))
      [Some 0; Some 1; Some 2; Some 3; None]
  = [ (Some (Reg (bs "a" ++ cr_nl) 420), None);
      (Some (Reg (bs "a" ++ cr_nl) 420), None);
      (None, Some (Reg (bs "a" ++ cr_nl) 420));
      (Some (Reg (bs "b" ++ cr_nl) 420), Some (Reg (bs "a" ++ cr_nl) 420));
      (Some (Reg (bs "b" ++ cr_nl) 420), Some (Reg (bs "a" ++ cr_nl) 420)) ].
Proof. vm_compute. reflexivity. Qed.

(* ---- (3): a complete section for f followed by a section for g that is cut short ---- *)
Lemma cr_bad_body_unified p s e :
  pfmt p = FUnified -> parse_unified_patch s = Throw e ->
  forall p', pfmt p' = pfmt p -> hunks p' = hunks p -> parse_patch_body p' s = Throw e.
Proof. intros Hf Hb p' E1 _. unfold parse_patch_body. rewrite E1, Hf, Hb. reflexivity. Qed.

Example cr_bad_g_is_bad : bad_section_text cr_ob FUnknown (stream_of cr_bad_g).
Proof.
  split; [reflexivity|]. right. exists (cr_p cr_bad_g), (cr_s1 cr_bad_g), (cr_found cr_bad_g), EInvalidArgument.
  split; [vm_compute; reflexivity|]. split; [vm_compute; discriminate|]. split; [vm_compute; discriminate|].
  apply cr_bad_body_unified; vm_compute; reflexivity.
Qed.

Definition cr_run1 k := process_section cr_ob ds0 (cr_should (cr_sec_f ++ cr_bad_g)) (cr_p (cr_sec_f ++ cr_bad_g)) (cr_s1 (cr_sec_f ++ cr_bad_g)) (cr_w k).
Definition cr_st1 k : dstate := match fst (cr_run1 k) with Ok y => fst y | Throw _ => ds0 end.

(* with -b: whatever happens after the first section (no failure; a failure at the opening of g; a later one) the run ends with
   status 2 and the tree is exactly the tree the first section left: f patched, f.orig the original, g untouched *)
Example cr_text_abort :
  Forall (fun k =>
    exists e w'', process_patch cr_ob (cr_sec_f ++ cr_bad_g) (cr_w k) = (Throw e, w'') /\
                  same_tree_after (snd (cr_run1 k)) w'' /\
                  lookup (fs w'') (bs "f") = Some (Reg (bs "b" ++ cr_nl) 420) /\
                  lookup (fs w'') (bs "f.orig") = Some (Reg (bs "a" ++ cr_nl) 420) /\
                  lookup (fs w'') (bs "g") = Some (Reg (bs "c" ++ cr_nl) 420)) [Some 4; Some 5; None].
Proof.
  repeat constructor.
  all: match goal with |- exists e w'', process_patch _ _ (cr_w ?k) = _ /\ _ =>
         destruct (text_abort_after_first_section cr_ob FUnknown (cr_sec_f ++ cr_bad_g) cr_bad_g
                     (cr_should (cr_sec_f ++ cr_bad_g)) (cr_p (cr_sec_f ++ cr_bad_g)) (cr_s1 (cr_sec_f ++ cr_bad_g)) (cr_found (cr_sec_f ++ cr_bad_g))
                     (cr_st1 k) (cr_w k) (snd (cr_run1 k))) as (e & w'' & E & S);
           [reflexivity|vm_compute; reflexivity|vm_compute; discriminate|vm_compute; discriminate|vm_compute; reflexivity|exact cr_bad_g_is_bad|];
           exists e, w''; split; [exact E|]; split; [exact S|]; destruct S as (F & _); rewrite F; vm_compute; repeat split; reflexivity
       end.
Qed.

(* a git rename followed by the malformed section: the deferred write and removal are dropped, nothing has been touched *)
Example cr_text_abort_drops_deferred :
  exists w'', process_patch cr_o (cr_git_ren ++ cr_bad_g) (cr_w None) = (Throw EInvalidArgument, w'') /\
              fs w'' = fs (cr_w None) /\ trace w'' = [OOpenRead (bs "f"); OOpenRead (bs "g")].
Proof. eexists. split; [vm_compute; reflexivity|]. split; reflexivity. Qed.

(* the tree at every crash point of the -b run on "f, then malformed g": (status, f, f.orig, g) *)
Example cr_text_abort_each_fault :
  map (fun k => let r := process_patch cr_ob (cr_sec_f ++ cr_bad_g) (cr_w k) in
                (match fst r with Ok _ => 0 | Throw _ => 2 end,
                 lookup (fs (snd r)) (bs "f"), lookup (fs (snd r)) (bs "f.orig"), lookup (fs (snd r)) (bs "g")))
      [Some 0; Some 1; Some 2; Some 3; Some 4; None]
  = [ (2, Some (Reg (bs "a" ++ cr_nl) 420), None, Some (Reg (bs "c" ++ cr_nl) 420));
      (2, Some (Reg (bs "a" ++ cr_nl) 420), None, Some (Reg (bs "c" ++ cr_nl) 420));
      (2, None, Some (Reg (bs "a" ++ cr_nl) 420), Some (Reg (bs "c" ++ cr_nl) 420));
      (2, Some (Reg (bs "b" ++ cr_nl) 420), Some (Reg (bs "a" ++ cr_nl) 420), Some (Reg (bs "c" ++ cr_nl) 420));
      (2, Some (Reg (bs "b" ++ cr_nl) 420), Some (Reg (bs "a" ++ cr_nl) 420), Some (Reg (bs "c" ++ cr_nl) 420));
      (2, Some (Reg (bs "b" ++ cr_nl) 420), Some (Reg (bs "a" ++ cr_nl) 420), Some (Reg (bs "c" ++ cr_nl) 420)) ].
Proof. vm_compute. reflexivity. Qed.

(* ---- the hypotheses of (2) are needed ---- *)
(* `ftp <> backup_name o f`: a git rename of x.orig to x with -b when x exists.  The backup of x goes over the source of the
   rename, which is then removed as the source: the original of x is nowhere afterwards (exit status 0). *)
Definition cr_ren_orig := bs "diff --git a/x.orig b/x" ++ cr_nl ++ bs "similarity index 50%" ++ cr_nl ++ bs "rename from x.orig" ++ cr_nl ++ bs "rename to x" ++ cr_nl
   ++ bs "--- a/x.orig" ++ cr_nl ++ bs "+++ b/x" ++ cr_nl ++ bs "@@ -1 +1 @@" ++ cr_nl ++ bs "-a" ++ cr_nl ++ bs "+b" ++ cr_nl.
Example cr_backup_needs_source_not_backup :
  let w := mkWorld [(bs "x.orig", Reg (bs "a" ++ cr_nl) 420); (bs "x", Reg (bs "precious" ++ cr_nl) 420)] 18 [] None [] in
  let r := process_patch cr_ob cr_ren_orig w in
  fst r = Ok (0, []) /\ fs (snd r) = [(bs "x", Reg (bs "b" ++ cr_nl) 420)].
Proof. vm_compute. split; reflexivity. Qed.

(* `reject_path o f <> f` (-r f) and "the reject file is not a link" (f.rej -> f): the rejects are written before the backup
   is taken, over the original *)
Example cr_backup_needs_reject_elsewhere :
  let o_rf := mkOptions true false [] [] false [] false false false [] (-1) 2 false [] (bs "f") false false false false false false false false
                        OBUnset OBUnset MNative RFDefault ROWarn QSUnset [] [] in
  let w1 := mkWorld [(bs "f", Reg (bs "zzz" ++ cr_nl) 420)] 18 [] None [] in
  let w2 := mkWorld [(bs "f", Reg (bs "zzz" ++ cr_nl) 420); (bs "f.rej", Sym (bs "f"))] 18 [] None [] in
  let orig := Some (Reg (bs "zzz" ++ cr_nl) 420) in
  let r1 := snd (process_patch o_rf cr_sec_f w1) in
  let r2 := snd (process_patch cr_ob cr_sec_f w2) in
  lookup (fs r1) (bs "f.orig") <> orig /\ lookup (fs r2) (bs "f.orig") <> orig /\
  (* f holds "the original" again only because the failed hunk left the lines it read unchanged: they were written back *)
  trace r1 = [OOpenRead (bs "f"); OWrite (bs "f") (cr_sec_f); ORename (bs "f") (bs "f.orig"); OWrite (bs "f") (bs "zzz" ++ cr_nl); OChmod (bs "f") 420].
Proof. vm_compute. repeat split; discriminate. Qed.
