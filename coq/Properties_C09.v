(* Properties_C09.v — C09: aborts and crashes never destroy data.  Statements only; proofs in Proofs_Crash.v.
   Crash points are modelled by the injected failure of World.v (the failing operation leaves the tree as it was before it
   and aborts the run), so a statement for every world w, whatever its pending failure, is a statement about every prefix
   of the run's operations.  Granularity: one whole-file write is one operation (partial). *)
From PatchV Require Import Base Lines Hunk Options Parser World Driver Proofs_Driver Proofs_Crash.

(* --backup: whatever fails while a target is written, the original (bytes and mode) is afterwards at the target's path
   or at its backup path *)
Theorem write_keeps_original : forall o st d w data mode,
  d_backup d = true ->
  existsb (str_eqb (backup_name o (d_dest d))) (backed_up st) = false ->
  lookup (fs w) (d_dest d) = Some (Reg data mode) -> exists_ (fs w) (d_dest d) = true ->
  d_dest d <> backup_name o (d_dest d) ->
  let w' := snd (write_now o st d w) in
  lookup (fs w') (d_dest d) = Some (Reg data mode) \/ lookup (fs w') (backup_name o (d_dest d)) = Some (Reg data mode).
Proof. exact Proofs_Crash.write_keeps_original. Qed.
Print Assumptions write_keeps_original.

(* a section whose text is malformed performs no mutating operation at all (its files stay in the state the fully
   processed sections before it left them in) *)
Theorem bad_section_writes_nothing : forall o st p s e,
  (forall p', pfmt p' = pfmt p -> hunks p' = hunks p -> parse_patch_body p' s = Throw e) ->
  RO (process_section o st true p s) (fun _ => False).
Proof. exact Proofs_Crash.bad_section_writes_nothing. Qed.
Print Assumptions bad_section_writes_nothing.

(* git-style patches: when one of the deferred writes fails, no source of a rename is removed *)
Theorem failed_write_stops_removals : forall A o st ds ws rs (k : dstate -> M A) w e w1,
  finalize_writes o st ds w = (Throw e, w1) ->
  (let! st1 := finalize_writes o st ds in let! _ := finalize_removals ws rs in k st1) w = (Throw e, w1).
Proof. exact @Proofs_Crash.failed_write_stops_removals. Qed.
Print Assumptions failed_write_stops_removals.

Local Open Scope string_scope.
(* non-vacuity: -b on an existing file, a failure injected at each of its operations *)
Definition ex_o := mkOptions true false [] [] false [] false false false [] (-1) 2 false [] [] false false false false false false false false OBUnset OBUnset MNative RFDefault ROWarn QSUnset [] [].
Definition ex_d := mkDef (bs "new") (bs "f") false true None (Some 420%N).
Definition ex_w k := mkWorld [(bs "f", Reg (bs "old") 420)] 18 [] k [].
Example crash_nonvacuous :
  map (fun k => let w' := snd (write_now ex_o (mkDS false [] [] [] []) ex_d (ex_w k)) in
                (lookup (fs w') (bs "f"), lookup (fs w') (bs "f.orig")))
      [Some 0; Some 1; Some 2; None]
  = [ (Some (Reg (bs "old") 420), None);
      (None, Some (Reg (bs "old") 420));
      (Some (Reg (bs "new") 420), Some (Reg (bs "old") 420));
      (Some (Reg (bs "new") 420), Some (Reg (bs "old") 420)) ].
Proof. vm_compute. reflexivity. Qed.
