(* Proofs_DefineCount.v — C20, the clause "lines common to both versions appear once, outside any conditional", in
   the direction Proofs_DefineOutside.v leaves open: the -D output holds every original line once and every added
   line of an applied hunk once (a count), and so at least |new content| - |added lines| of its lines stand outside
   every conditional. *)
From PatchV Require Import Base Lines Hunk Locator Formatter Options Applier Spec_Locate Spec_Apply Spec_Define
     Proofs_Base Proofs_Locate Proofs_Apply Proofs_Define Proofs_DefineOutside.

(* number of lines that are not one of the four directives *)
Fixpoint texts (sym : list N) (ls : list line) : nat :=
  match ls with
  | [] => 0
  | l :: r => (match classify sym l with KText => 1 | _ => 0 end) + texts sym r
  end.

Definition adds (b : list pline) : nat := length (filter is_add b).
Definition adds_h (hs : list hunk) : nat := list_sum (map (fun h => adds (body h)) hs).

(* ---------- the evaluator alone: two complementary runs ---------- *)
Lemma all_active_compl b st : all_active (b :: st) = true -> all_active (map negb (b :: st)) = false.
Proof. cbn [all_active forallb map]. destruct b; cbn; [reflexivity|discriminate]. Qed.

Lemma cpp_run_both sym : forall ls st o1 s1 o2 s2,
  cpp_run sym true st ls = Some (o1, s1) ->
  cpp_run sym false (map negb st) ls = Some (o2, s2) ->
  length o1 + length o2 <= texts sym ls + length (outside sym (length st) ls).
Proof.
  induction ls as [|l r IH]; intros st o1 s1 o2 s2 H1 H2; cbn [cpp_run texts outside] in *.
  - inversion H1; inversion H2; subst. cbn. lia.
  - destruct (classify sym l).
    + apply (IH (true :: st) _ _ _ _ H1 H2).
    + apply (IH (false :: st) _ _ _ _ H1 H2).
    + destruct st as [|b st]; [discriminate|]. cbn [map] in H2.
      apply (IH (negb b :: st) o1 s1 o2 s2 H1 H2).
    + destruct st as [|b st]; [discriminate|]. cbn [map] in H2.
      apply (IH st o1 s1 o2 s2 H1 H2).
    + destruct (cpp_run sym true st r) as [[o1' s1']|] eqn:E1; [|discriminate].
      destruct (cpp_run sym false (map negb st) r) as [[o2' s2']|] eqn:E2; [|discriminate].
      inversion H1; inversion H2; subst. specialize (IH st _ _ _ _ E1 E2).
      destruct st as [|b st].
      * cbn [map all_active forallb length Nat.eqb] in *. cbn [length]. lia.
      * cbn [length Nat.eqb] in *. destruct (all_active (b :: st)) eqn:A1.
        -- rewrite (all_active_compl _ _ A1). cbn [length]. lia.
        -- destruct (all_active (map negb (b :: st))); cbn [length]; lia.
Qed.

Lemma cpp_eval_both sym ls o1 o2 :
  cpp_eval sym true ls = Some o1 -> cpp_eval sym false ls = Some o2 ->
  length o1 + length o2 <= texts sym ls + length (outside sym 0 ls).
Proof.
  unfold cpp_eval. intros H1 H2.
  destruct (cpp_run sym true [] ls) as [[a [|? ?]]|] eqn:E1; try discriminate.
  destruct (cpp_run sym false [] ls) as [[b [|? ?]]|] eqn:E2; try discriminate.
  inversion H1; inversion H2; subst. apply (cpp_run_both sym ls [] _ _ _ _ E1 E2).
Qed.

(* ---------- counting what -D writes ---------- *)
Lemma texts_app sym : forall a b, texts sym (a ++ b) = texts sym a + texts sym b.
Proof. induction a as [|l a IH]; intros b; cbn [app texts]; [reflexivity|]. rewrite IH. lia. Qed.

Lemma texts_plain sym : forall ls, Forall (plain sym) ls -> texts sym ls = length ls.
Proof.
  induction ls as [|l ls IH]; intros H; [reflexivity|]. inversion H as [|? ? Hl Hr]; subst.
  cbn [texts length]. unfold plain in Hl. rewrite Hl, IH by assumption. reflexivity.
Qed.

Lemma texts_le sym : forall ls, texts sym ls <= length ls.
Proof. induction ls as [|l ls IH]; cbn [texts length]; [lia|]. destruct (classify sym l); lia. Qed.

Section Count.
Variable sym : list N.
Variable f : list line.
Hypothesis f_ok : Forall (line_ok sym) f.

Lemma texts_wd_ifdef last n : last <> NoNL -> texts sym (write_directive last (bs "#ifdef ") sym n) = 0.
Proof. intros H. rewrite (wd_ok _ _ _ _ H). cbn [texts]. rewrite classify_ifdef. reflexivity. Qed.
Lemma texts_wd_ifndef last n : last <> NoNL -> texts sym (write_directive last (bs "#ifndef ") sym n) = 0.
Proof. intros H. rewrite (wd_ok _ _ _ _ H). cbn [texts]. rewrite classify_ifndef. reflexivity. Qed.
Lemma texts_wd_else last n : last <> NoNL -> texts sym (write_directive last (bs "#else") [] n) = 0.
Proof. intros H. rewrite (wd_ok _ _ _ _ H). cbn [texts]. rewrite classify_else. reflexivity. Qed.
Lemma texts_wd_endif last n : last <> NoNL -> texts sym (write_directive last (bs "#endif") [] n) = 0.
Proof. intros H. rewrite (wd_ok _ _ _ _ H). cbn [texts]. rewrite classify_endif. reflexivity. Qed.

Lemma texts_text l rest : plain sym l -> texts sym (l :: rest) = S (texts sym rest).
Proof. intros H. cbn [texts]. unfold plain in H. rewrite H. reflexivity. Qed.

Lemma texts_ifdef_line n rest : texts sym (mkLine (bs "#ifdef " ++ sym) n :: rest) = texts sym rest.
Proof. cbn [texts]. rewrite classify_ifdef. reflexivity. Qed.
Lemma texts_ifndef_line n rest : texts sym (mkLine (bs "#ifndef " ++ sym) n :: rest) = texts sym rest.
Proof. cbn [texts]. rewrite classify_ifndef. reflexivity. Qed.

Lemma adds_cons p r : adds (p :: r) = (if is_add p then 1 else 0) + adds r.
Proof. unfold adds. cbn [filter]. destruct (is_add p); reflexivity. Qed.

Lemma LF_ok : LF <> NoNL. Proof. discriminate. Qed.

Ltac count_dirs Hl :=
  rewrite ?texts_app;
  rewrite ?(texts_wd_ifdef _ _ Hl), ?(texts_wd_ifndef _ _ Hl), ?(texts_wd_else _ _ Hl), ?(texts_wd_endif _ _ Hl),
          ?(texts_wd_ifdef _ _ LF_ok), ?(texts_wd_ifndef _ _ LF_ok), ?(texts_wd_else _ _ LF_ok), ?(texts_wd_endif _ _ LF_ok).

(* the loop writes every original line it walks over once and every added line once; the rest are directives *)
Lemma loop_texts : forall b ln st last o e st' last',
  last <> NoNL -> body_ok sym b ->
  write_define_loop f sym b ln st last = Ok (o, e, st', last') ->
  texts sym o = length (old_walk f ln b) + adds b.
Proof.
  induction b as [|p r IH]; intros ln st last o e st' last' Hl Hb H.
  - cbn in H. inversion H; subst. reflexivity.
  - cbn [write_define_loop] in H. inversion Hb as [|? ? Hp Hr]; subst. destruct Hp as [Hpp Hpc].
    rewrite adds_cons. unfold is_add. cbn [old_walk].
    destruct (pop p) eqn:Ep.
    + (* context *)
      destruct (nth_opt f ln) as [l|] eqn:En.
      * destruct (nth_ok _ _ f_ok _ _ En) as [Lp Lc].
        destruct (write_define_loop f sym r (S ln) DOutside (nl l)) as [[[[o1 e1] st1] l1]|ex] eqn:R; cbn [rbind] in H; [|discriminate].
        injection H as <- _ _ _. apply (IH _ _ _ _ _ _ _ Lc Hr) in R.
        destruct st; cbn [dstate_outside]; count_dirs Hl; rewrite (texts_text _ _ Lp), R; cbn [app length texts]; lia.
      * apply (IH _ _ _ _ _ _ _ Hl Hr) in H. rewrite H. cbn [app length]. lia.
    + (* addition *)
      destruct st.
      * destruct (write_define_loop f sym r ln DIfdef (nl (pl p))) as [[[[o1 e1] st1] l1]|ex] eqn:R; cbn [rbind] in H; [|discriminate].
        injection H as <- _ _ _. apply (IH _ _ _ _ _ _ _ Hpc Hr) in R.
        count_dirs Hl. rewrite (texts_text _ _ Hpp), R. cbn [app length texts]. lia.
      * destruct (write_define_loop f sym r ln DElseNew (nl (pl p))) as [[[[o1 e1] st1] l1]|ex] eqn:R; cbn [rbind] in H; [|discriminate].
        injection H as <- _ _ _. apply (IH _ _ _ _ _ _ _ Hpc Hr) in R.
        count_dirs Hl. rewrite (texts_text _ _ Hpp), R. cbn [app length texts]. lia.
      * destruct (write_define_loop f sym r ln DIfdef (nl (pl p))) as [[[[o1 e1] st1] l1]|ex] eqn:R; cbn [rbind] in H; [|discriminate].
        injection H as <- _ _ _. apply (IH _ _ _ _ _ _ _ Hpc Hr) in R.
        count_dirs Hl. rewrite (texts_text _ _ Hpp), R. cbn [app length texts]. lia.
      * destruct (write_define_loop f sym r ln DElseNew (nl (pl p))) as [[[[o1 e1] st1] l1]|ex] eqn:R; cbn [rbind] in H; [|discriminate].
        injection H as <- _ _ _. apply (IH _ _ _ _ _ _ _ Hpc Hr) in R.
        count_dirs Hl. rewrite (texts_text _ _ Hpp), R. cbn [app length texts]. lia.
      * destruct (write_define_loop f sym r ln DIfdef (nl (pl p))) as [[[[o1 e1] st1] l1]|ex] eqn:R; cbn [rbind] in H; [|discriminate].
        injection H as <- _ _ _. apply (IH _ _ _ _ _ _ _ Hpc Hr) in R.
        count_dirs Hl.
        change (35%N :: 105%N :: 102%N :: 100%N :: 101%N :: 102%N :: 32%N :: sym) with (bs "#ifdef " ++ sym).
        rewrite texts_ifdef_line, (texts_text _ _ Hpp), R. cbn [app length texts]. lia.
    + (* removal *)
      destruct (nth_opt f ln) as [l|] eqn:En; [|discriminate].
      destruct (nth_ok _ _ f_ok _ _ En) as [Lp Lc].
      destruct st.
      * destruct (write_define_loop f sym r (S ln) DIfndef (nl l)) as [[[[o1 e1] st1] l1]|ex] eqn:R; cbn [rbind] in H; [|discriminate].
        injection H as <- _ _ _. apply (IH _ _ _ _ _ _ _ Lc Hr) in R.
        count_dirs Hl. rewrite (texts_text _ _ Lp), R. cbn [app length texts]. lia.
      * destruct (write_define_loop f sym r (S ln) DIfndef (nl l)) as [[[[o1 e1] st1] l1]|ex] eqn:R; cbn [rbind] in H; [|discriminate].
        injection H as <- _ _ _. apply (IH _ _ _ _ _ _ _ Lc Hr) in R.
        count_dirs Hl. rewrite (texts_text _ _ Lp), R. cbn [app length texts]. lia.
      * destruct (write_define_loop f sym r (S ln) DElseOld (nl l)) as [[[[o1 e1] st1] l1]|ex] eqn:R; cbn [rbind] in H; [|discriminate].
        injection H as <- _ _ _. apply (IH _ _ _ _ _ _ _ Lc Hr) in R.
        count_dirs Hl. rewrite (texts_text _ _ Lp), R. cbn [app length texts]. lia.
      * destruct (write_define_loop f sym r (S ln) DIfndef (nl l)) as [[[[o1 e1] st1] l1]|ex] eqn:R; cbn [rbind] in H; [|discriminate].
        injection H as <- _ _ _. apply (IH _ _ _ _ _ _ _ Lc Hr) in R.
        count_dirs Hl.
        change (35%N :: 105%N :: 102%N :: 110%N :: 100%N :: 101%N :: 102%N :: 32%N :: sym) with (bs "#ifndef " ++ sym).
        rewrite texts_ifndef_line, (texts_text _ _ Lp), R. cbn [app length texts]. lia.
      * destruct (write_define_loop f sym r (S ln) DElseOld (nl l)) as [[[[o1 e1] st1] l1]|ex] eqn:R; cbn [rbind] in H; [|discriminate].
        injection H as <- _ _ _. apply (IH _ _ _ _ _ _ _ Lc Hr) in R.
        count_dirs Hl. rewrite (texts_text _ _ Lp), R. cbn [app length texts]. lia.
Qed.

Lemma hunk_texts ln b o e :
  body_ok sym b -> write_define_hunk f sym ln b = Ok (o, e) ->
  texts sym o = length (old_walk f ln b) + adds b /\ e = ln + length (old_side b).
Proof.
  intros Hb W. destruct (hunk_eval sym f f_ok true ln b o e Hb W) as [_ He]. split; [|exact He].
  revert W. unfold write_define_hunk.
  destruct (write_define_loop f sym b ln DOutside LF) as [[[[o1 e1] st1] l1]|ex] eqn:R; cbn [rbind]; [|discriminate].
  destruct (loop_eval sym f f_ok true _ _ _ _ _ _ _ _ LF_ok Hb R) as (_ & _ & C).
  pose proof (loop_texts _ _ _ _ _ _ _ _ LF_ok Hb R) as T.
  destruct (dstate_outside st1); intros E; inversion E; subst; [exact T|].
  rewrite texts_app, (texts_wd_endif _ _ C), T. lia.
Qed.

(* ---------- the whole run ---------- *)
Definition cnt_rel (s : astate) : Prop :=
  texts sym (a_out s) <= length (firstn (a_ln s) f) + adds_h (a_hunks s).

Lemma adds_h_app a b : adds_h (a ++ b) = adds_h a + adds_h b.
Proof. unfold adds_h. rewrite map_app. apply list_sum_app. Qed.

Lemma adds_h_one h : adds_h [h] = adds (body h).
Proof. unfold adds_h. cbn. lia. Qed.

Variable o : options.
Hypothesis o_def : define_macro o = sym.
Hypothesis sym_ne : sym <> [].

Lemma apply_one_cnt p k s h loc s1 :
  cnt_rel s -> body_ok sym (body h) -> (forall l, loc = Some l -> a_ln s <= lline l) ->
  apply_one o p f k s h loc = Ok s1 -> cnt_rel s1.
Proof.
  intros R Hb Hle. unfold apply_one. rewrite o_def.
  assert (Hn : is_nil sym = false) by (destruct sym; [contradiction|reflexivity]). rewrite Hn.
  assert (Rej : forall s1,
    (do s1 <- (do t <- write_reject o p (a_rejected s) (shift_hunk h (a_o2n s));
       Ok (mkAS (a_out s) (a_rej s ++ t) (S (a_rejected s)) (a_ln s) (a_o2n s) (a_offerr s) (a_skip s) (a_perfect s) (a_msgs s)
                (a_hunks s ++ [shift_hunk h (a_o2n s)]), shift_hunk h (a_o2n s)));
     let '(s2, hcur) := s1 in
     let perfect_h := loc_perfect loc in
     let msgs := if verbose o || (negb perfect_h && negb (a_skip s2))
              then a_msgs s2 ++ print_hunk_statistics k (a_skip s2) loc hcur (a_o2n s2) (a_offerr s2) else a_msgs s2 in
     let o2n := if negb (a_skip s2) && loc_found loc then (a_o2n s2 + (rcount (newr hcur) - rcount (oldr hcur)))%Z else a_o2n s2 in
     Ok (mkAS (a_out s2) (a_rej s2) (a_rejected s2) (a_ln s2) o2n (a_offerr s2) (a_skip s2) (a_perfect s2 && perfect_h) msgs (a_hunks s2))) = Ok s1 ->
    cnt_rel s1).
  { intros s1'. destruct (write_reject o p (a_rejected s) (shift_hunk h (a_o2n s))) as [t|ex]; cbn [rbind]; [|discriminate].
    intros [= <-]. unfold cnt_rel in *. cbn [a_out a_ln a_hunks]. rewrite adds_h_app. lia. }
  destruct loc as [l|]; [|apply Rej].
  destruct (a_skip s) eqn:Hs; cbn [negb]; [apply Rej|].
  destruct (write_define_hunk f sym (lline l) (body h)) as [[wo e]|ex] eqn:W; cbn [rbind]; [|discriminate].
  destruct (hunk_texts _ _ _ _ Hb W) as [T Ee]. cbn [fst snd].
  intros [= <-]. unfold cnt_rel in *. cbn [a_out a_ln a_hunks].
  rewrite !texts_app, adds_h_app, adds_h_one, T.
  rewrite (texts_plain _ _ (copy_range_plain sym f f_ok _ _)).
  assert (L1 : a_ln s <= lline l) by (apply Hle; reflexivity).
  pose proof (f_equal (@length line) (firstn_copy f _ _ L1)) as F1. rewrite app_length in F1.
  assert (L2 : lline l <= e) by lia.
  pose proof (f_equal (@length line) (firstn_copy f _ _ L2)) as F2. rewrite app_length in F2.
  rewrite old_walk_range, <- Ee. lia.
Qed.

Lemma apply_rest_cnt p : forall hs k s s',
  cnt_rel s -> Forall (fun h => body_ok sym (body h)) hs ->
  apply_rest o p f k s hs = Ok s' -> cnt_rel s'.
Proof.
  induction hs as [|h hs IH]; intros k s s' R Hb; cbn [apply_rest].
  - intros [= <-]. exact R.
  - inversion Hb as [|? ? Hh Hr]; subst.
    set (loc := locate_for p f h (ignore_whitespace o) (a_offerr s) (max_fuzz o) (a_ln s)).
    destruct (apply_one o p f k s h loc) as [s1|ex] eqn:E1; cbn [rbind]; [|discriminate].
    intros E2.
    pose proof (apply_one_cnt p k s h loc s1 R Hh (fun l H => cursor_le _ _ _ _ _ _ _ _ H) E1) as R1.
    apply (IH _ _ _ R1 Hr E2).
Qed.

Lemma apply_first_cnt p hs s s' q :
  cnt_rel s -> Forall (fun h => body_ok sym (body h)) hs ->
  apply_first o p f s hs = Ok (s', q) -> cnt_rel s'.
Proof.
  intros R Hb. destruct hs as [|h r]; cbn [apply_first].
  - intros [= <- <-]. exact R.
  - inversion Hb as [|? ? Hh Hr]; subst.
    set (loc := locate_for p f h (ignore_whitespace o) (a_offerr s) (max_fuzz o) (a_ln s)).
    assert (Plain : forall p s0 h0 loc0 r0 k, cnt_rel s0 -> body_ok sym (body h0) -> Forall (fun h => body_ok sym (body h)) r0 ->
               (forall l, loc0 = Some l -> a_ln s0 <= lline l) ->
               with_patch p (do s1 <- apply_one o p f 0 s0 h0 loc0; apply_rest o p f k s1 r0) = Ok (s', q) -> cnt_rel s').
    { clear loc. intros p0 s0 h0 loc0 r0 k R0 Hh0 Hr0 Hle. unfold with_patch.
      destruct (apply_one o p0 f 0 s0 h0 loc0) as [s1|ex] eqn:E1; cbn [rbind]; [|discriminate].
      destruct (apply_rest o p0 f k s1 r0) as [s2|ex] eqn:E2; cbn [rbind]; [|discriminate]. intros [= -> <-].
      pose proof (apply_one_cnt p0 0 s0 h0 loc0 s1 R0 Hh0 Hle E1) as R1.
      apply (apply_rest_cnt p0 _ _ _ _ R1 Hr0 E2). }
    destruct (should_check_if_patch_is_reversed loc o).
    + set (rloc := locate_hunk f (reverse_hunk h) (ignore_whitespace o) (a_offerr s) (max_fuzz o) (a_ln s)).
      destruct (if loc_perfect rloc || negb (loc_found loc) && loc_found rloc then handle_probably_reversed_patch o else Ok ([], RHApplyAnyway)) as [dd|ex];
        cbn [rbind]; [|discriminate].
      destruct (snd dd).
      * apply (Plain (reverse_patch p) (mkAS (a_out s) (a_rej s) (a_rejected s) (a_ln s) (a_o2n s) (a_offerr s) (a_skip s) (a_perfect s) (a_msgs s ++ fst dd) (a_hunks s))
                       (reverse_hunk h) rloc);
          [exact R|apply body_ok_reverse; exact Hh|apply hunks_ok_reverse; exact Hr|].
        intros l Hl. eapply locate_cursor_le. exact Hl.
      * apply (Plain p (mkAS (a_out s) (a_rej s) (a_rejected s) (a_ln s) (a_o2n s) (a_offerr s) true (a_perfect s) (a_msgs s ++ fst dd) (a_hunks s)));
          [exact R|exact Hh|exact Hr|]. intros l Hl. eapply cursor_le. exact Hl.
      * apply (Plain p (mkAS (a_out s) (a_rej s) (a_rejected s) (a_ln s) (a_o2n s) (a_offerr s) (a_skip s) (a_perfect s) (a_msgs s ++ fst dd) (a_hunks s)));
          [exact R|exact Hh|exact Hr|]. intros l Hl. eapply cursor_le. exact Hl.
    + apply Plain; [exact R|exact Hh|exact Hr|]. intros l Hl. eapply cursor_le. exact Hl.
Qed.

End Count.

(* The -D output holds no more text lines than the original file has lines plus the added lines of the hunks of the
   patch as the run leaves it (r_patch: reversed when the run reversed it; rejected hunks counted too, which only
   weakens the bound). *)
Lemma define_texts_bound o f p r :
  define_macro o <> [] ->
  Forall (line_ok (define_macro o)) f ->
  Forall (fun h => body_ok (define_macro o) (body h)) (hunks p) ->
  apply_patch o f p = Ok r ->
  texts (define_macro o) (r_out r) <= length f + adds_h (hunks (r_patch r)).
Proof.
  intros Hne Hf Hb. unfold apply_patch.
  set (p1 := if reverse_patch_opt o then reverse_patch p else p).
  assert (Hb1 : Forall (fun h => body_ok (define_macro o) (body h)) (hunks p1)).
  { unfold p1. destruct (reverse_patch_opt o); [|exact Hb]. cbn [reverse_patch hunks]. apply hunks_ok_reverse. exact Hb. }
  set (s0 := mkAS [] [] 0 0 0%Z 0%Z false true [] []).
  destruct (apply_first o p1 f s0 (hunks p1)) as [[s q]|ex] eqn:E; cbn [rbind]; [|discriminate].
  intros [= <-]. cbn [r_out r_patch fst snd set_hunks hunks].
  assert (R0 : cnt_rel (define_macro o) f s0) by (unfold cnt_rel; cbn; lia).
  pose proof (apply_first_cnt (define_macro o) f Hf o eq_refl Hne p1 (hunks p1) s0 s q R0 Hb1 E) as R.
  unfold cnt_rel in R. rewrite texts_app.
  pose proof (texts_le (define_macro o) (skipn (a_ln s) f)) as T.
  pose proof (f_equal (@length line) (firstn_skipn (a_ln s) f)) as L. rewrite app_length in L. lia.
Qed.

(* Of the new content (the same run without -D), all but the added lines stand outside every conditional: the count of
   unguarded lines is at least |new content| - |added lines|.  With outside_lines_common (every unguarded line is common
   to both versions, in order) this is the clause "common lines appear once, outside any conditional". *)
Lemma common_lines_unguarded o f p r :
  define_macro o <> [] ->
  Forall (line_ok (define_macro o)) f ->
  Forall (fun h => body_ok (define_macro o) (body h)) (hunks p) ->
  apply_patch o f p = Ok r ->
  exists r', apply_patch (no_define o) f p = Ok r' /\
             length (r_out r') <= length (outside (define_macro o) 0 (r_out r)) + adds_h (hunks (r_patch r)).
Proof.
  intros Hne Hf Hb Ha.
  destruct (define_eval o f p r Hne Hf Hb Ha) as (r' & Hr' & Ht & Hfalse & _).
  exists r'. split; [exact Hr'|].
  pose proof (cpp_eval_both _ _ _ _ Ht Hfalse) as B.
  pose proof (define_texts_bound o f p r Hne Hf Hb Ha) as T. lia.
Qed.
