(* Proofs_FaultsPrefix.v — C10: a run that did reach the injected failure has done, up to and including the failing
   operation, what the fault-free run does: its trace is a prefix of the fault-free trace. *)
From PatchV Require Import Base Lines Hunk Locator Formatter Options Applier LineParser Parser World Driver Proofs_Base Proofs_Faults Proofs_FaultsRun.
From Coq Require Import Lia.

Definition TG {A} (m : M A) : Prop := forall w, exists l, trace (snd (m w)) = trace w ++ l.

Definition PRE {A} (m : M A) : Prop :=
  forall w1 w2, same_but_fault w1 w2 -> fault w1 <> None -> fault w2 = None -> fault (snd (m w1)) = None ->
                exists l, trace (snd (m w2)) = trace (snd (m w1)) ++ l.

Definition B {A} (m : M A) : Prop := FF m /\ INV m /\ TG m /\ PRE m.

Lemma B_pure {A} (r : res A) : B (fun w => (r, w)).
Proof.
  split; [|split; [apply INV_pure|split]].
  - intros w. cbn [fst snd]. split; [intros H1 H2; contradiction|auto].
  - intros w. exists []. cbn [snd]. rewrite app_nil_r. reflexivity.
  - intros w1 w2 _ NN _ Z. cbn [snd] in Z. contradiction.
Qed.
Lemma B_ret {A} (a : A) : B (mret a). Proof. exact (B_pure (Ok a)). Qed.
Lemma B_throw {A} e : B (@mthrow A e). Proof. exact (B_pure (Throw e)). Qed.
Lemma B_lift {A} (r : res A) : B (mlift r). Proof. exact (B_pure r). Qed.
Lemma B_getfs : B get_fs.
Proof.
  split; [apply FF_getfs|split; [apply INV_getfs|split]].
  - intros w. exists []. cbn. rewrite app_nil_r. reflexivity.
  - intros w1 w2 _ NN _ Z. cbn in Z. contradiction.
Qed.
Lemma B_stdout {A} (a : A) data : B (fun w => (Ok a, mkWorld (fs w) (umask w) (trace w) (fault w) (stdout_data w ++ data))).
Proof.
  split; [apply FF_stdout|split; [apply INV_stdout|split]].
  - intros w. exists []. cbn. rewrite app_nil_r. reflexivity.
  - intros w1 w2 _ NN _ Z. cbn in Z. contradiction.
Qed.

Lemma TG_bind {A C} (m : M A) (f : A -> M C) : TG m -> (forall a, TG (f a)) -> TG (mbind m f).
Proof.
  intros Hm Hf w. unfold mbind. destruct (Hm w) as [l L]. destruct (m w) as [[a|e] w'] eqn:E; cbn [snd] in *.
  - destruct (Hf a w') as [l' L']. exists (l ++ l'). rewrite L', L, app_assoc. reflexivity.
  - exists l. exact L.
Qed.

Lemma PRE_bind {A C} (m : M A) (f : A -> M C) : B m -> (forall a, B (f a)) -> PRE (mbind m f).
Proof.
  intros (Fm & Im & Tm & Pm) Hf w1 w2 S12 NN1 N2 Z. unfold mbind in *.
  destruct (Fm w1) as [F1 _]. destruct (Im w1) as (_ & I2 & _). destruct (Im w2) as (I1' & _ & _). specialize (I1' N2).
  specialize (I2 w2 S12 N2). specialize (Pm w1 w2 S12 NN1 N2).
  destruct (m w1) as [r1 w1'] eqn:E1. destruct (m w2) as [r2 w2'] eqn:E2. cbn [fst snd] in *.
  destruct (fault w1') as [k|] eqn:K.
  - assert (NN : Some k <> None) by discriminate.
    destruct (I2 NN) as [R S']. subst r2.
    destruct r1 as [a|e]; cbn [snd] in *.
    + destruct (Hf a) as (_ & _ & _ & Pf). apply Pf; [exact S'|rewrite K; exact NN|exact I1'|exact Z].
    + rewrite K in Z. discriminate.
  - destruct (F1 NN1 eq_refl) as [e He]. subst r1. cbn [snd] in *.
    destruct (Pm eq_refl) as [l L].
    destruct r2 as [a|e2]; cbn [snd].
    + destruct (Hf a) as (_ & _ & Tf & _). destruct (Tf w2') as [l' L']. exists (l ++ l'). rewrite L', L, app_assoc. reflexivity.
    + exists l. exact L.
Qed.

Lemma B_bind {A C} (m : M A) (f : A -> M C) : B m -> (forall a, B (f a)) -> B (mbind m f).
Proof.
  intros Hm Hf. split; [|split; [|split]].
  - apply FF_bind; [apply Hm|intros a; apply Hf].
  - apply INV_bind; [apply Hm|intros a; apply Hf].
  - apply TG_bind; [apply Hm|intros a; apply Hf].
  - apply PRE_bind; assumption.
Qed.

Lemma TG_perform op : TG (perform op).
Proof.
  intros w. exists [op]. unfold perform.
  destruct (fault w) as [[|k]|]; [reflexivity| |]; destruct (exec_op (fs w) (umask w) op); reflexivity.
Qed.

Lemma PRE_perform_bind {C} op (f : option errno -> M C) :
  (forall r, B (f r)) -> (forall w, exists e, f (Some EIO) w = (Throw e, w)) -> PRE (mbind (perform op) f).
Proof.
  intros Hf Hio w1 w2 S12 NN1 N2 Z. unfold mbind in *.
  destruct (INV_perform op w1) as (_ & I2 & _). destruct (INV_perform op w2) as (I1' & _ & _). specialize (I1' N2).
  specialize (I2 w2 S12 N2).
  destruct (TG_perform op w2) as [l2 L2].
  assert (Hok : exists r w1', perform op w1 = (Ok r, w1')).
  { unfold perform. destruct (fault w1) as [[|k]|]; [eauto| |]; destruct (exec_op (fs w1) (umask w1) op); eauto. }
  assert (Hok2 : exists r w2', perform op w2 = (Ok r, w2')).
  { unfold perform. destruct (fault w2) as [[|k]|]; [eauto| |]; destruct (exec_op (fs w2) (umask w2) op); eauto. }
  destruct Hok as (r1 & w1' & E1). destruct Hok2 as (r2 & w2' & E2).
  destruct (fault w1) as [[|k]|] eqn:K1; [| |contradiction].
  - (* the failing operation is this one *)
    assert (E1' : perform op w1 = (Ok (Some EIO), mkWorld (fs w1) (umask w1) (trace w1 ++ [op]) None (stdout_data w1))).
    { unfold perform. rewrite K1. reflexivity. }
    rewrite E1', E2. destruct (Hio (mkWorld (fs w1) (umask w1) (trace w1 ++ [op]) None (stdout_data w1))) as [e He].
    rewrite He. cbn [snd trace].
    assert (T2 : trace w2' = trace w1 ++ [op]).
    { unfold perform in E2. rewrite N2 in E2. destruct S12 as (_ & _ & S3 & _). rewrite S3.
      destruct (exec_op (fs w2) (umask w2) op); inversion E2; reflexivity. }
    destruct (Hf r2) as (_ & _ & Tf & _). destruct (Tf w2') as [l' L']. exists l'. rewrite L', T2. reflexivity.
  - rewrite E1, E2 in *. cbn [fst snd] in *.
    assert (NN : fault w1' <> None).
    { unfold perform in E1. rewrite K1 in E1. destruct (exec_op (fs w1) (umask w1) op); inversion E1; cbn; discriminate. }
    destruct (I2 NN) as [R S']. inversion R; subst r2.
    destruct (Hf r1) as (_ & _ & _ & Pf). apply Pf; assumption.
Qed.

Lemma B_perform_bind {C} op (f : option errno -> M C) :
  (forall r, B (f r)) -> (forall w, exists e, f (Some EIO) w = (Throw e, w)) -> B (mbind (perform op) f).
Proof.
  intros Hf Hio. split; [|split; [|split]].
  - apply FF_perform_bind; [intros r; apply Hf|exact Hio].
  - apply INV_bind; [apply INV_perform|intros r; apply Hf].
  - apply TG_bind; [apply TG_perform|intros r; apply Hf].
  - apply PRE_perform_bind; assumption.
Qed.

Lemma B_checked op : B (checked op).
Proof.
  unfold checked. apply B_perform_bind.
  - intros [e|]; [apply B_throw|apply B_ret].
  - intros w. eexists. reflexivity.
Qed.

Ltac bb :=
  repeat first
    [ apply B_ret | apply B_throw | apply B_lift | apply B_getfs | apply B_stdout | apply B_checked
    | assumption
    | match goal with H : context [B _] |- B _ => apply H end
    | match goal with
      | |- B (mbind (perform _) _) => apply B_perform_bind; [intros ?|intros ?; eexists; reflexivity]
      | |- B (mbind _ _) => apply B_bind; [|intros ?]
      | |- B (if ?c then _ else _) => destruct c
      | |- B (match ?x with _ => _ end) => destruct x
      | |- B (let '(_, _) := ?x in _) => destruct x
      end ].

Lemma B_rmdir_parents : forall fuel p, B (rmdir_parents fuel p).
Proof. induction fuel as [|f IH]; intros p; cbn [rmdir_parents]; bb. Qed.
Lemma B_remove p : B (remove_file_and_empty_parent_folders p).
Proof. unfold remove_file_and_empty_parent_folders. pose proof B_rmdir_parents. bb. Qed.
Lemma B_mkdirs : forall ds, B (mkdirs ds).
Proof. induction ds as [|d r IH]; cbn [mkdirs]; bb. Qed.
Lemma B_ensure p : B (ensure_parent_directories p).
Proof. unfold ensure_parent_directories. pose proof B_mkdirs. bb. Qed.
Lemma B_backup o st p : B (make_backup_for o st p).
Proof. unfold make_backup_for, backup_core. pose proof B_ensure. bb. Qed.
Lemma B_write_now o st d : B (write_now o st d).
Proof. unfold write_now. pose proof B_backup. bb. Qed.
Lemma B_finalize_writes_from o all : forall ds st, B (finalize_writes_from o all st ds).
Proof. induction ds as [|d r IH]; intros st; cbn [finalize_writes_from]; pose proof B_write_now; pose proof B_ensure; bb. Qed.
Lemma B_finalize_writes o ds st : B (finalize_writes o st ds).
Proof. apply B_finalize_writes_from. Qed.
Lemma B_finalize_removals ws : forall rs, B (finalize_removals ws rs).
Proof. induction rs as [|p r IH]; cbn [finalize_removals]; pose proof B_remove; bb. Qed.
Lemma B_refuse o st out p : B (refuse_to_patch o st out p).
Proof. unfold refuse_to_patch. bb. Qed.
Lemma B_body_if should p s : B (body_if should p s).
Proof. unfold body_if. bb. Qed.
Lemma B_process_section o st should p s : B (process_section o st should p s).
Proof.
  unfold process_section, section_tail.
  pose proof B_refuse. pose proof B_body_if. pose proof B_ensure. pose proof B_backup. pose proof B_write_now. pose proof B_remove.
  bb.
Qed.
Lemma B_section_loop o f : forall fuel st s first, B (section_loop fuel o f st s first).
Proof. induction fuel as [|k IH]; intros st s first; cbn [section_loop]; pose proof B_process_section; bb. Qed.
Lemma B_process_patch o bytes : B (process_patch o bytes).
Proof. unfold process_patch. pose proof B_section_loop. pose proof B_finalize_writes. pose proof B_finalize_removals. bb. Qed.
Lemma B_patch_file_bytes o stdin : B (patch_file_bytes o stdin).
Proof. unfold patch_file_bytes. bb. Qed.
Lemma B_run o stdin : B (let! b := patch_file_bytes o stdin in process_patch o b).
Proof. apply B_bind; [apply B_patch_file_bytes|intros b; apply B_process_patch]. Qed.

(* a run that reached the injected failure: status 2, and the operations it performed (the failing one included, the last
   one it attempted being somewhere in the list) are the first operations of the fault-free run *)
Theorem reached_fault_trace_is_prefix o stdin w :
  fault w <> None -> fault (rr_world (run_patch o stdin w)) = None ->
  rr_exit (run_patch o stdin w) = 2 /\
  exists l, trace (rr_world (run_patch o stdin (clear_fault w))) = trace (rr_world (run_patch o stdin w)) ++ l.
Proof.
  intros NN Z. split; [apply fault_is_fatal; assumption|].
  rewrite !run_world in *. destruct (B_run o stdin) as (_ & _ & _ & P).
  apply P; [apply same_clear|exact NN|reflexivity|exact Z].
Qed.
