(* Properties_C14.v — C14: line endings and the final newline are written as promised.
   Statements only; proofs in Proofs_Lines.v. *)
From PatchV Require Import Base Lines Hunk Locator Options Applier Spec_Locate Spec_Apply Proofs_Lines.

(* reading a file into lines loses nothing: writing the lines with their own terminators gives the bytes back *)
Theorem split_lines_roundtrip : forall s, lines_bytes MKeep (split_lines s) = s.
Proof. exact Proofs_Lines.split_lines_roundtrip. Qed.
Print Assumptions split_lines_roundtrip.

(* the lines read contain no line feed, and only the last one can be without terminator (and is not empty then) *)
Theorem split_lines_wf : forall s, WfLines (split_lines s).
Proof. exact Proofs_Lines.split_lines_wf. Qed.
Print Assumptions split_lines_wf.

(* preserve: each line is written with its own terminator class *)
Theorem terminator_keep : forall l,
  line_bytes MKeep l = txt l ++ match nl l with LF => [10%N] | CRLF => [13%N; 10%N] | NoNL => [] end.
Proof. exact Proofs_Lines.terminator_keep. Qed.
Print Assumptions terminator_keep.

(* lf / native: every terminator written is LF, the content is unchanged *)
Theorem terminator_lf : forall l,
  line_bytes MLF l = txt l ++ (if has_nl l then [10%N] else []) /\
  line_bytes MNative l = txt l ++ (if has_nl l then [10%N] else []).
Proof. exact Proofs_Lines.terminator_lf. Qed.
Print Assumptions terminator_lf.

(* crlf: every terminator written is CRLF *)
Theorem terminator_crlf : forall l, line_bytes MCRLF l = txt l ++ (if has_nl l then [13%N; 10%N] else []).
Proof. exact Proofs_Lines.terminator_crlf. Qed.
Print Assumptions terminator_crlf.

(* in every mode the output ends without a newline exactly when its last line has none *)
Theorem final_newline_iff : forall m ls l,
  last_opt ls = Some l ->
  (nl l = NoNL -> txt l <> [] /\ no_lf (txt l)) ->
  ends_with_lf (lines_bytes m ls) = has_nl l.
Proof. exact Proofs_Lines.final_newline_iff. Qed.
Print Assumptions final_newline_iff.

(* the lines of the patched file are original lines (with the terminator class the file had) and added lines (with the
   class the patch gave them, including the missing-newline mark); nothing else is ever written *)
Theorem apply_output_lines : forall o f p r l,
  define_macro o = [] -> apply_patch o f p = Ok r -> In l (r_out r) ->
  In l f \/ added_line (hunks (r_patch r)) l.
Proof. exact Proofs_Lines.apply_output_lines. Qed.
Print Assumptions apply_output_lines.

Local Open Scope string_scope.
Example c14_nonvacuous :
  split_lines (bs "a" ++ [13%N; 10%N] ++ bs "b" ++ [10%N] ++ bs "c") = [mkLine (bs "a") CRLF; mkLine (bs "b") LF; mkLine (bs "c") NoNL] /\
  ends_with_lf (lines_bytes MCRLF [mkLine (bs "a") CRLF; mkLine (bs "c") NoNL]) = false /\
  lines_bytes MCRLF [mkLine (bs "a") LF; mkLine (bs "c") NoNL] = bs "a" ++ [13%N; 10%N] ++ bs "c".
Proof. vm_compute. auto. Qed.

(* ===== merged from Properties_LinesBack.v ===== *)
From PatchV Require Import Proofs_LinesBack.

(* preserve, at the level of bytes: what LineWriter writes, read again by File::get_line, is exactly the list of lines
   written - same contents, every line with the terminator class it was written with, the last one without a newline
   exactly when it was written without.  Hypotheses: the lines are well formed (WfLines, which split_lines_wf gives for
   every file read) and no LF-terminated line has content ending in a carriage return (nocr: such a line - only an added
   line of a patch can be one - reads back as a CRLF line, so the statement would be false for it). *)
Theorem split_lines_of_written : forall ls,
  WfLines ls -> Forall nocr ls -> split_lines (lines_bytes MKeep ls) = ls.
Proof. exact Proofs_LinesBack.split_lines_of_written. Qed.
Print Assumptions split_lines_of_written.

Example written_nonvacuous :
  let ls := [mkLine (bs "a") CRLF; mkLine [] LF; mkLine (bs "b") LF; mkLine (bs "c") NoNL] in
  WfLines ls /\ Forall nocr ls /\ split_lines (lines_bytes MKeep ls) = ls /\
  (* the excluded line: content ending in CR, terminated by LF *)
  split_lines (lines_bytes MKeep [mkLine (bs "a" ++ [13%N]) LF]) = [mkLine (bs "a") CRLF].
Proof.
  cbv zeta. split; [|split; [|split; reflexivity]].
  - repeat (apply Wf_cons; [unfold no_lf; cbn; intuition discriminate|discriminate|]).
    apply Wf_last; [unfold no_lf; cbn; intuition discriminate|intros _; discriminate].
  - repeat constructor; unfold nocr; cbn; intros; discriminate.
Qed.

(* lf (and native on Unix): the bytes written, read again, are the same contents with every terminated line LF and the
   last line still without a newline exactly when it was written without.  nocr_any: no terminated line has content ending
   in a carriage return (such a line reads back as CRLF with the CR gone - the byte is written, it is only classified
   differently by the next reader). *)
Theorem written_lf : forall m ls, m = MLF \/ m = MNative ->
  WfLines ls -> Forall nocr_any ls -> split_lines (lines_bytes m ls) = map (with_nl LF) ls.
Proof. exact Proofs_LinesBack.written_lf. Qed.
Print Assumptions written_lf.

(* crlf: the same with every terminated line CRLF; no condition on the contents *)
Theorem written_crlf : forall ls,
  WfLines ls -> split_lines (lines_bytes MCRLF ls) = map (with_nl CRLF) ls.
Proof. exact Proofs_LinesBack.written_crlf. Qed.
Print Assumptions written_crlf.

Example written_modes_nonvacuous :
  let ls := [mkLine (bs "a") CRLF; mkLine (bs "b") LF; mkLine (bs "c") NoNL] in
  split_lines (lines_bytes MLF ls) = [mkLine (bs "a") LF; mkLine (bs "b") LF; mkLine (bs "c") NoNL] /\
  split_lines (lines_bytes MCRLF ls) = [mkLine (bs "a") CRLF; mkLine (bs "b") CRLF; mkLine (bs "c") NoNL].
Proof. split; reflexivity. Qed.

(* every file read meets the content hypothesis of split_lines_of_written (with split_lines_wf: both hypotheses) *)
Theorem split_lines_nocr : forall s, Forall nocr (split_lines s).
Proof. exact Proofs_LinesBack.split_lines_nocr. Qed.
Print Assumptions split_lines_nocr.
