(* Properties_C12.v — C12: the file that gets patched is the one the headers name.
   Statements only; proofs in Proofs_Names.v; vocabulary in Spec_Names.v. *)
From PatchV Require Import Base Lines Hunk Options LineParser World Driver Spec_Names Proofs_Names.

(* -pN: exactly N leading components removed, runs of slashes counting once; a name with fewer components is not used *)
Theorem strip_path_spec : forall path amount, (0 <= amount)%Z -> strip_path path amount = strip_spec path (Z.to_nat amount).
Proof. exact Proofs_Names.strip_path_spec. Qed.
Print Assumptions strip_path_spec.

(* -p absent: the base name *)
Theorem strip_path_basename : forall path amount, (amount < 0)%Z ->
  strip_path path amount = basename path /\ is_basename path (basename path).
Proof. exact Proofs_Names.strip_path_basename. Qed.
Print Assumptions strip_path_basename.

(* any bytes, C-quoted, decode to exactly those bytes *)
Theorem unquote_quote : forall name tail,
  Forall (fun c => (c < 256)%N) name ->
  parse_quoted_string (cquote name ++ tail) = Ok (name, 34%N :: tail).
Proof. exact Proofs_Names.unquote_quote. Qed.
Print Assumptions unquote_quote.

(* header line with a plain name ended by a tab *)
Theorem file_line_plain : forall name ts strip,
  name <> [] -> ~ In 9%N name -> hd 0%N name <> 34%N ->
  parse_file_line strip (name ++ 9%N :: ts) = Ok (stripped name strip, match ts with [] => None | _ => Some ts end).
Proof. exact Proofs_Names.file_line_plain. Qed.
Print Assumptions file_line_plain.

(* header line with a C-quoted name; [stripped] leaves /dev/null alone *)
Theorem file_line_quoted : forall name tail strip,
  Forall (fun c => (c < 256)%N) name ->
  parse_file_line strip (cquote name ++ tail) = Ok (stripped name strip, match tail with [] => None | _ => Some tail end).
Proof. exact Proofs_Names.file_line_quoted. Qed.
Print Assumptions file_line_quoted.

(* among the old, new and Index names the first one that exists is chosen, in that order *)
Theorem guess_order : forall m p o,
  (usable m (old_path p) = true -> guess_filepath m [] p o = old_path p) /\
  (usable m (old_path p) = false -> usable m (new_path p) = true -> guess_filepath m [] p o = new_path p) /\
  (usable m (old_path p) = false -> usable m (new_path p) = false -> usable m (index_path p) = true ->
   guess_filepath m [] p o = index_path p).
Proof. exact Proofs_Names.guess_order. Qed.
Print Assumptions guess_order.

(* /dev/null is never the file to patch *)
Theorem guess_never_devnull : forall m pending p o, guess_filepath m pending p o <> devnull.
Proof. exact Proofs_Names.guess_never_devnull. Qed.
Print Assumptions guess_never_devnull.

Local Open Scope string_scope.
Example names_nonvacuous :
  strip_path (bs "a//b/c") 1 = bs "b/c" /\ strip_spec (bs "a//b/c") 2 = bs "c" /\ strip_path (bs "a/b") 2 = [] /\
  strip_path (bs "x/y/z") (-1) = bs "z".
Proof. vm_compute. auto. Qed.
Example quote_nonvacuous :
  parse_quoted_string (cquote [97; 9; 200; 34; 92; 10; 1]%N ++ bs " tail") = Ok ([97; 9; 200; 34; 92; 10; 1]%N, 34%N :: bs " tail").
Proof. vm_compute. reflexivity. Qed.

(* ===== merged from Properties_WholeNames.v ===== *)
From PatchV Require Import Base Lines Hunk Locator Formatter Options Applier LineParser Parser World Driver
     Spec_Locate Spec_Apply Spec_Names Proofs_Base Proofs_Lines Proofs_Unified Proofs_Filler
     Proofs_Names Proofs_Conf Proofs_World Proofs_EndToEnd Proofs_Reverse Proofs_Sections Proofs_Sections_Unified
     Proofs_Whole Proofs_WholeGit Proofs_WholeNames.

(* (1a) the header scan, both names C-quoted: any bytes, read back exactly, then stripped *)
Theorem unified_header_scan_quoted : forall strip f fl oldname tail1 newname tail2 h1 hs tail,
  f = FUnknown \/ f = FUnified ->
  Forall (Filler strip (empty_patch f)) fl -> Forall clean fl ->
  bytes oldname -> bytes newname -> clean tail1 -> clean tail2 ->
  Forall wf_hunk (h1 :: hs) ->
  parse_patch_header_full (empty_patch f) strip
    (strm (join_lines (fl ++ [bs "--- " ++ cquote oldname ++ tail1; bs "+++ " ++ cquote newname ++ tail2]) ++
           emit_hunks (h1 :: hs) ++ tail)) =
  Ok (true,
      mkPatch FUnified (decide_oper h1 (stripped oldname strip) (stripped newname strip)) [] []
              (stripped oldname strip) (stripped newname strip) (opt_or (qtime tail1) []) (opt_or (qtime tail2) []) 0 0 [],
      strm (emit_hunks (h1 :: hs) ++ tail), true).
Proof. exact Proofs_WholeNames.unified_header_scan_quoted. Qed.
Print Assumptions unified_header_scan_quoted.

(* (1b) names with blanks, ended by a TAB *)
Theorem unified_header_scan_blanks : forall strip f fl oldname t1 newname t2 h1 hs tail,
  f = FUnknown \/ f = FUnified ->
  Forall (Filler strip (empty_patch f)) fl -> Forall clean fl ->
  blank_name oldname -> blank_name newname -> clean (oldname ++ 9%N :: t1) -> clean (newname ++ 9%N :: t2) ->
  Forall wf_hunk (h1 :: hs) ->
  parse_patch_header_full (empty_patch f) strip
    (strm (join_lines (fl ++ [bs "--- " ++ oldname ++ 9%N :: t1; bs "+++ " ++ newname ++ 9%N :: t2]) ++
           emit_hunks (h1 :: hs) ++ tail)) =
  Ok (true,
      mkPatch FUnified (decide_oper h1 (stripped oldname strip) (stripped newname strip)) [] []
              (stripped oldname strip) (stripped newname strip) t1 t2 0 0 [],
      strm (emit_hunks (h1 :: hs) ++ tail), true).
Proof. exact Proofs_WholeNames.unified_header_scan_blanks. Qed.
Print Assumptions unified_header_scan_blanks.

(* what -pN makes of DIR/NAME *)
Theorem stripped_dir : forall d name k,
  d <> [] -> ~ In 47%N d -> hd 0%N name <> 47%N -> (0 <= k)%Z ->
  stripped (d ++ 47%N :: name) (k + 1) = strip_spec name (Z.to_nat k).
Proof. exact Proofs_WholeNames.stripped_dir. Qed.
Print Assumptions stripped_dir.

(* (2a) git header, plain names with directories, any -p *)
Theorem git_header_scan_names : forall strip f fl name ix h1 hs tail,
  Forall (Filler strip (empty_patch f)) fl -> Forall clean fl ->
  name <> [] -> ~ In 9%N name -> ~ In 32%N name -> clean name -> clean (bs "index " ++ ix) ->
  Forall wf_hunk (h1 :: hs) ->
  parse_patch_header_full (empty_patch f) strip
    (strm (join_lines (fl ++ git_lines name ix) ++ emit_hunks (h1 :: hs) ++ tail)) =
  Ok (true,
      mkPatch FGit (decide_oper h1 (stripped (bs "a/" ++ name) strip) (stripped (bs "b/" ++ name) strip)) [] []
              (stripped (bs "a/" ++ name) strip) (stripped (bs "b/" ++ name) strip) [] [] 0 0 [],
      strm (emit_hunks (h1 :: hs) ++ tail), true).
Proof. exact Proofs_WholeNames.git_header_scan_names. Qed.
Print Assumptions git_header_scan_names.

Theorem git_header_scan_pN : forall k f fl name ix h1 hs tail,
  (0 <= k)%Z ->
  Forall (Filler (k + 1) (empty_patch f)) fl -> Forall clean fl ->
  name <> [] -> hd 0%N name <> 47%N -> ~ In 9%N name -> ~ In 32%N name -> clean name -> clean (bs "index " ++ ix) ->
  Forall wf_hunk (h1 :: hs) ->
  parse_patch_header_full (empty_patch f) (k + 1)
    (strm (join_lines (fl ++ git_lines name ix) ++ emit_hunks (h1 :: hs) ++ tail)) =
  Ok (true,
      mkPatch FGit (decide_oper h1 (strip_spec name (Z.to_nat k)) (strip_spec name (Z.to_nat k))) [] []
              (strip_spec name (Z.to_nat k)) (strip_spec name (Z.to_nat k)) [] [] 0 0 [],
      strm (emit_hunks (h1 :: hs) ++ tail), true).
Proof. exact Proofs_WholeNames.git_header_scan_pN. Qed.
Print Assumptions git_header_scan_pN.

Theorem stripped_ab_zero : forall d name, stripped (d :: 47%N :: name) 0 = d :: 47%N :: name.
Proof. exact Proofs_WholeNames.stripped_ab_zero. Qed.
Print Assumptions stripped_ab_zero.
Theorem stripped_ab_default : forall d name strip, d <> 47%N -> (strip < 0)%Z ->
  stripped (d :: 47%N :: name) strip = basename name /\ is_basename name (basename name).
Proof. exact Proofs_WholeNames.stripped_ab_default. Qed.
Print Assumptions stripped_ab_default.

Theorem git_header_scan_quoted : forall strip f fl name ix h1 hs tail,
  Forall (Filler strip (empty_patch f)) fl -> Forall clean fl ->
  bytes name -> clean (bs "index " ++ ix) ->
  Forall wf_hunk (h1 :: hs) ->
  parse_patch_header_full (empty_patch f) strip
    (strm (join_lines (fl ++ [bs "diff --git " ++ cquote (bs "a/" ++ name) ++ bs " " ++ cquote (bs "b/" ++ name); bs "index " ++ ix;
                              bs "--- " ++ cquote (bs "a/" ++ name) ++ []; bs "+++ " ++ cquote (bs "b/" ++ name) ++ []]) ++
           emit_hunks (h1 :: hs) ++ tail)) =
  Ok (true,
      mkPatch FGit (decide_oper h1 (stripped (bs "a/" ++ name) strip) (stripped (bs "b/" ++ name) strip)) [] []
              (stripped (bs "a/" ++ name) strip) (stripped (bs "b/" ++ name) strip) [] [] 0 0 [],
      strm (emit_hunks (h1 :: hs) ++ tail), true).
Proof. exact Proofs_WholeNames.git_header_scan_quoted. Qed.
Print Assumptions git_header_scan_quoted.

(* (2b) a pure rename *)
Theorem ext_name_spec : forall strip prefix name,
  ((1 <= strip)%Z -> ext_name strip prefix name = strip_spec name (Z.to_nat (strip - 1))) /\
  (strip = 0%Z -> ext_name strip prefix name = prefix ++ strip_spec name 0) /\
  ((strip < 0)%Z -> is_basename name (ext_name strip prefix name)).
Proof. exact Proofs_WholeNames.ext_name_spec. Qed.
Print Assumptions ext_name_spec.

Theorem git_rename_plain : forall strip f fl oldn newn sim,
  Forall (Filler strip (empty_patch f)) fl -> Forall clean fl ->
  hd 0%N oldn <> 34%N -> hd 0%N newn <> 34%N -> clean oldn -> clean newn -> clean sim ->
  parse_patch_header_full (empty_patch f) strip
    (strm (join_lines (fl ++ rename_lines ((bs "a/" ++ oldn) ++ bs " b/" ++ newn) sim oldn newn))) =
  Ok (true, renamed FGit (ext_name strip (bs "a/") oldn) (ext_name strip (bs "b/") newn), strm [], true).
Proof. exact Proofs_WholeNames.git_rename_plain. Qed.
Print Assumptions git_rename_plain.

Theorem git_rename_quoted : forall strip f fl oldn newn sim,
  Forall (Filler strip (empty_patch f)) fl -> Forall clean fl ->
  bytes oldn -> bytes newn -> clean sim ->
  parse_patch_header_full (empty_patch f) strip
    (strm (join_lines (fl ++ rename_lines (cquote (bs "a/" ++ oldn) ++ bs " " ++ cquote (bs "b/" ++ newn)) sim (cquote oldn) (cquote newn)))) =
  Ok (true, renamed FGit (ext_name strip (bs "a/") oldn) (ext_name strip (bs "b/") newn), strm [], true).
Proof. exact Proofs_WholeNames.git_rename_quoted. Qed.
Print Assumptions git_rename_quoted.

Theorem git_rename_scan_next : forall strip f fl g gn sim rfrom oldn rto newn g2 more,
  Forall (Filler strip (empty_patch f)) fl -> Forall clean fl ->
  parse_git_header_name strip g = Ok gn ->
  git_ext_filename strip (bs "a/") rfrom = Ok oldn -> git_ext_filename strip (bs "b/") rto = Ok newn ->
  clean (bs "diff --git " ++ g) -> clean (bs "similarity index " ++ sim) -> clean (bs "rename from " ++ rfrom) -> clean (bs "rename to " ++ rto) ->
  clean (bs "diff --git " ++ g2) ->
  parse_patch_header_full (empty_patch f) strip
    (strm (join_lines (fl ++ rename_lines g sim rfrom rto) ++ (bs "diff --git " ++ g2) ++ 10%N :: more)) =
  Ok (false, renamed FGit oldn newn, strm ((bs "diff --git " ++ g2) ++ 10%N :: more), true).
Proof. exact Proofs_WholeNames.git_rename_scan_next. Qed.
Print Assumptions git_rename_scan_next.

(* (3) the file named -- and no other -- is patched *)
Theorem right_file_patched : forall o f0 fl oldname tail1 newname tail2 h1 hs tail fname A B w data mode,
  plain_options o -> reverse_patch_opt o = false ->
  format_from_options o = Ok f0 -> f0 = FUnknown \/ f0 = FUnified ->
  Forall (Filler (strip_size o) (empty_patch f0)) fl -> Forall clean fl ->
  bytes oldname -> bytes newname -> clean tail1 -> clean tail2 ->
  stripped oldname (strip_size o) = fname -> stripped newname (strip_size o) = fname ->
  fname <> [] /\ ~ In 47%N fname ->
  Forall wf_hunk (h1 :: hs) -> Conforming A B (h1 :: hs) ->
  remove_empty_files o <> OBYes \/ lines_bytes (newline_output o) B <> [] ->
  (Z.of_nat (length A) < MAXZ)%Z ->
  tail_ok tail -> ends_here o f0 (after tail) = true ->
  fault w = None -> lookup (fs w) fname = Some (Reg data mode) -> (mode < 4096)%N -> owner_r mode = true -> owner_w mode = true ->
  split_lines data = A ->
  exists w',
    process_patch o (join_lines (fl ++ [bs "--- " ++ cquote oldname ++ tail1; bs "+++ " ++ cquote newname ++ tail2]) ++
                     emit_hunks (h1 :: hs) ++ tail) w = (Ok (0, []), w') /\
    lookup (fs w') fname = Some (Reg (lines_bytes (newline_output o) B) mode) /\
    (forall q, q <> fname -> lookup (fs w') q = lookup (fs w) q) /\
    fault w' = None /\ umask w' = umask w.
Proof. exact Proofs_WholeNames.right_file_patched. Qed.
Print Assumptions right_file_patched.

Theorem right_file_patched_p1 : forall o f0 fl da db tail1 tail2 h1 hs tail fname A B w data mode,
  plain_options o -> reverse_patch_opt o = false -> strip_size o = 1%Z ->
  format_from_options o = Ok f0 -> f0 = FUnknown \/ f0 = FUnified ->
  Forall (Filler 1 (empty_patch f0)) fl -> Forall clean fl ->
  da <> [] -> ~ In 47%N da -> bytes da -> db <> [] -> ~ In 47%N db -> bytes db ->
  fname <> [] -> ~ In 47%N fname -> bytes fname ->
  clean tail1 -> clean tail2 ->
  Forall wf_hunk (h1 :: hs) -> Conforming A B (h1 :: hs) ->
  remove_empty_files o <> OBYes \/ lines_bytes (newline_output o) B <> [] ->
  (Z.of_nat (length A) < MAXZ)%Z ->
  tail_ok tail -> ends_here o f0 (after tail) = true ->
  fault w = None -> lookup (fs w) fname = Some (Reg data mode) -> (mode < 4096)%N -> owner_r mode = true -> owner_w mode = true ->
  split_lines data = A ->
  exists w',
    process_patch o (join_lines (fl ++ [bs "--- " ++ cquote (da ++ 47%N :: fname) ++ tail1;
                                        bs "+++ " ++ cquote (db ++ 47%N :: fname) ++ tail2]) ++
                     emit_hunks (h1 :: hs) ++ tail) w = (Ok (0, []), w') /\
    lookup (fs w') fname = Some (Reg (lines_bytes (newline_output o) B) mode) /\
    (forall q, q <> fname -> lookup (fs w') q = lookup (fs w) q) /\
    fault w' = None /\ umask w' = umask w.
Proof. exact Proofs_WholeNames.right_file_patched_p1. Qed.
Print Assumptions right_file_patched_p1.

Theorem right_file_patched_blanks : forall o f0 fl oldname t1 newname t2 h1 hs tail fname A B w data mode,
  plain_options o -> reverse_patch_opt o = false ->
  format_from_options o = Ok f0 -> f0 = FUnknown \/ f0 = FUnified ->
  Forall (Filler (strip_size o) (empty_patch f0)) fl -> Forall clean fl ->
  blank_name oldname -> blank_name newname -> clean (oldname ++ 9%N :: t1) -> clean (newname ++ 9%N :: t2) ->
  stripped oldname (strip_size o) = fname -> stripped newname (strip_size o) = fname ->
  fname <> [] /\ ~ In 47%N fname ->
  Forall wf_hunk (h1 :: hs) -> Conforming A B (h1 :: hs) ->
  remove_empty_files o <> OBYes \/ lines_bytes (newline_output o) B <> [] ->
  (Z.of_nat (length A) < MAXZ)%Z ->
  tail_ok tail -> ends_here o f0 (after tail) = true ->
  fault w = None -> lookup (fs w) fname = Some (Reg data mode) -> (mode < 4096)%N -> owner_r mode = true -> owner_w mode = true ->
  split_lines data = A ->
  exists w',
    process_patch o (join_lines (fl ++ [bs "--- " ++ oldname ++ 9%N :: t1; bs "+++ " ++ newname ++ 9%N :: t2]) ++
                     emit_hunks (h1 :: hs) ++ tail) w = (Ok (0, []), w') /\
    lookup (fs w') fname = Some (Reg (lines_bytes (newline_output o) B) mode) /\
    (forall q, q <> fname -> lookup (fs w') q = lookup (fs w) q) /\
    fault w' = None /\ umask w' = umask w.
Proof. exact Proofs_WholeNames.right_file_patched_blanks. Qed.
Print Assumptions right_file_patched_blanks.

Theorem right_file_patched_git : forall o f0 fl name ix h1 hs tail fname A B w data mode,
  plain_options o -> reverse_patch_opt o = false -> format_from_options o = Ok f0 ->
  Forall (Filler (strip_size o) (empty_patch f0)) fl -> Forall clean fl ->
  bytes name -> clean (bs "index " ++ ix) ->
  stripped (bs "a/" ++ name) (strip_size o) = fname -> stripped (bs "b/" ++ name) (strip_size o) = fname ->
  fname <> [] /\ ~ In 47%N fname ->
  Forall wf_hunk (h1 :: hs) -> Conforming A B (h1 :: hs) ->
  rstart (oldr h1) <> 0%Z /\ rstart (newr h1) <> 0%Z ->
  remove_empty_files o <> OBYes \/ lines_bytes (newline_output o) B <> [] ->
  (Z.of_nat (length A) < MAXZ)%Z ->
  tail_ok tail -> ends_here o f0 (after tail) = true ->
  fault w = None -> lookup (fs w) fname = Some (Reg data mode) -> (mode < 4096)%N -> owner_r mode = true -> owner_w mode = true ->
  split_lines data = A ->
  exists w',
    process_patch o (join_lines (fl ++ [bs "diff --git " ++ cquote (bs "a/" ++ name) ++ bs " " ++ cquote (bs "b/" ++ name); bs "index " ++ ix;
                                        bs "--- " ++ cquote (bs "a/" ++ name) ++ []; bs "+++ " ++ cquote (bs "b/" ++ name) ++ []]) ++
                     emit_hunks (h1 :: hs) ++ tail) w = (Ok (0, []), w') /\
    lookup (fs w') fname = Some (Reg (lines_bytes (newline_output o) B) mode) /\
    (forall q, q <> fname -> lookup (fs w') q = lookup (fs w) q) /\
    fault w' = None /\ umask w' = umask w.
Proof. exact Proofs_WholeNames.right_file_patched_git. Qed.
Print Assumptions right_file_patched_git.

(* ===== merged from Properties_WholeRename.v ===== *)
From PatchV Require Import Base Lines Hunk Locator Formatter Options Applier LineParser Parser World Driver
     Spec_Locate Spec_Apply Spec_Names Proofs_Base Proofs_Lines Proofs_Unified Proofs_Filler Proofs_Conf Proofs_World Proofs_Reverse
     Proofs_Sections Proofs_Sections_Unified Proofs_Touch Proofs_Whole Proofs_WholeGit Proofs_WholeNames Proofs_WholeRename.

(* the bytes a rename writes are the bytes read: always under --newline-output=preserve ... *)
Theorem rewritten_keep : forall o data,
  newline_output o = MKeep -> rewritten o data = data.
Proof. exact Proofs_WholeRename.rewritten_keep. Qed.
Print Assumptions rewritten_keep.

(* ... and under native / lf when no line of the file ends in CR LF *)
Theorem rewritten_no_crlf : forall o data,
  newline_output o <> MCRLF -> no_crlf (split_lines data) -> rewritten o data = data.
Proof. exact Proofs_WholeRename.rewritten_no_crlf. Qed.
Print Assumptions rewritten_no_crlf.

(* (0) the section of a pure rename: one open for reading, the directories of the new name; the write and the removal are
   put off.  Names with any number of directories; effective o p: the record with names and modes exchanged under -R *)
Theorem section_pure_rename : forall o p src dst st s w data mode,
  plain_options o ->
  pfmt p = FGit -> poper p = OpRename -> prereq p = [] -> hunks p = [] ->
  old_path (effective o p) = src -> new_path (effective o p) = dst -> new_mode (effective o p) = 0%N ->
  src <> dst -> src <> devnull -> src <> [] ->
  deferred_writes st = [] ->
  lookup (fs w) src = Some (Reg data mode) -> parent_ok (fs w) src false = true -> (mode < 4096)%N ->
  lookup (fs w) dst = None ->
  process_section o st false p s w = rename_section st src dst (rewritten o data) mode s w.
Proof. exact Proofs_WholeRename.section_pure_rename. Qed.
Print Assumptions section_pure_rename.

(* the header scan of a pure rename with text behind it (the signature of git format-patch) *)
Theorem git_rename_scan_trailing : forall strip f fl tl g gn sim rfrom oldn rto newn,
  Forall (Filler strip (empty_patch f)) fl -> Forall clean fl -> Forall (Trailing strip) tl ->
  parse_git_header_name strip g = Ok gn ->
  git_ext_filename strip (bs "a/") rfrom = Ok oldn -> git_ext_filename strip (bs "b/") rto = Ok newn ->
  clean (bs "diff --git " ++ g) -> clean (bs "similarity index " ++ sim) -> clean (bs "rename from " ++ rfrom) -> clean (bs "rename to " ++ rto) ->
  parse_patch_header_full (empty_patch f) strip (strm (join_lines (fl ++ rename_lines g sim rfrom rto ++ tl))) =
  Ok (true, renamed FGit oldn newn, strm (join_lines tl), true).
Proof. exact Proofs_WholeRename.git_rename_scan_trailing. Qed.
Print Assumptions git_rename_scan_trailing.

(* (0) the whole run on a pure rename IS rename_prog: open, mkdirs (twice), write, chmod, unlink, rmdirs -- whatever
   failure is pending in the world, whatever the permissions *)
Theorem pure_rename_program : forall o f0 fl tl g sim rfrom rto oldn newn w data mode,
  plain_options o -> format_from_options o = Ok f0 ->
  Forall (Filler (strip_size o) (empty_patch f0)) fl -> Forall clean fl -> Forall (Trailing (strip_size o)) tl ->
  rename_text (strip_size o) g sim rfrom rto oldn newn ->
  rename_ready (fs w) (rename_src o oldn newn) (rename_dst o oldn newn) data mode ->
  process_patch o (join_lines (fl ++ rename_lines g sim rfrom rto ++ tl)) w =
  rename_prog (rename_src o oldn newn) (rename_dst o oldn newn) (rewritten o data) mode w.
Proof. exact Proofs_WholeRename.pure_rename_program. Qed.
Print Assumptions pure_rename_program.

(* (1) rename_prog without a failure, when every operation is permitted: the tree afterwards is m4 *)
Theorem rename_prog_runs : forall src dst out mode w data m1 m4,
  fault w = None -> src <> dst -> dst <> [] ->
  lookup (fs w) src = Some (Reg data mode) -> parent_ok (fs w) src true = true -> owner_r mode = true ->
  lookup (fs w) dst = None ->
  mkdirs_fs (fs w) (umask w) (dir_prefixes dst []) = Some m1 ->
  parent_ok m1 dst true = true ->
  rmdirs_fs (length src) (moved m1 (umask w) src dst out mode) src = Some m4 ->
  exists w', rename_prog src dst out mode w = (Ok (0, []), w') /\ fs w' = m4 /\ fault w' = None /\ umask w' = umask w.
Proof. exact Proofs_WholeRename.rename_prog_runs. Qed.
Print Assumptions rename_prog_runs.

(* (1) what m4 is, entry by entry *)
Theorem moved_tree : forall m um src dst out mode m1 m4,
  src <> dst -> lookup m dst = None ->
  mkdirs_fs m um (dir_prefixes dst []) = Some m1 ->
  rmdirs_fs (length src) (moved m1 um src dst out mode) src = Some m4 ->
  lookup m4 dst = Some (Reg out mode) /\
  lookup m4 src = None /\
  (forall q, In q (dir_prefixes dst []) -> q <> src -> lookup m4 q = or_made um (lookup m q)) /\
  (forall q, q <> src -> q <> dst -> ~ In q (dir_prefixes dst []) -> ~ is_ancestor q src -> lookup m4 q = lookup m q) /\
  (forall q, q <> dst -> ~ In q (dir_prefixes dst []) -> is_ancestor q src -> untouched_or_emptied m m4 q).
Proof. exact Proofs_WholeRename.moved_tree. Qed.
Print Assumptions moved_tree.

(* (1) the usual case is permitted, and makes and removes no directory *)
Theorem permitted_same_dir : forall m um src dst out mode,
  src <> dst -> src <> [] -> dst <> [] -> lookup m dst = None ->
  parent src = parent dst ->
  parent_ok m src true = true -> owner_r mode = true ->
  (forall d, In d (dir_prefixes dst []) -> lookup m d <> None) ->
  (forall d, parent src = Some d -> parent_ok m d true = true) ->
  rename_permitted m um src dst out mode m (moved m um src dst out mode).
Proof. exact Proofs_WholeRename.permitted_same_dir. Qed.
Print Assumptions permitted_same_dir.

(* (1) end to end, any spelling of the names, forward or -R *)
Theorem pure_rename_end_to_end_gen : forall o f0 fl tl g sim rfrom rto oldn newn w data mode m1 m4,
  plain_options o -> format_from_options o = Ok f0 ->
  Forall (Filler (strip_size o) (empty_patch f0)) fl -> Forall clean fl -> Forall (Trailing (strip_size o)) tl ->
  rename_text (strip_size o) g sim rfrom rto oldn newn ->
  fault w = None ->
  rename_ready (fs w) (rename_src o oldn newn) (rename_dst o oldn newn) data mode ->
  rename_permitted (fs w) (umask w) (rename_src o oldn newn) (rename_dst o oldn newn) (rewritten o data) mode m1 m4 ->
  exists w',
    process_patch o (join_lines (fl ++ rename_lines g sim rfrom rto ++ tl)) w = (Ok (0, []), w') /\
    fs w' = m4 /\ fault w' = None /\ umask w' = umask w /\
    moved_to (fs w) (umask w) (rename_src o oldn newn) (rename_dst o oldn newn) (rewritten o data) mode (fs w').
Proof. exact Proofs_WholeRename.pure_rename_end_to_end_gen. Qed.
Print Assumptions pure_rename_end_to_end_gen.

(* (1) end to end, names written plainly, forward *)
Theorem pure_rename_end_to_end : forall o f0 fl tl oldn newn sim w data mode m1 m4,
  plain_options o -> reverse_patch_opt o = false -> format_from_options o = Ok f0 ->
  Forall (Filler (strip_size o) (empty_patch f0)) fl -> Forall clean fl -> Forall (Trailing (strip_size o)) tl ->
  hd 0%N oldn <> 34%N -> hd 0%N newn <> 34%N -> clean oldn -> clean newn -> clean sim ->
  fault w = None ->
  rename_ready (fs w) (ext_name (strip_size o) (bs "a/") oldn) (ext_name (strip_size o) (bs "b/") newn) data mode ->
  rename_permitted (fs w) (umask w) (ext_name (strip_size o) (bs "a/") oldn) (ext_name (strip_size o) (bs "b/") newn) data mode m1 m4 ->
  rewritten o data = data ->
  exists w',
    process_patch o (join_lines (fl ++ rename_lines ((bs "a/" ++ oldn) ++ bs " b/" ++ newn) sim oldn newn ++ tl)) w = (Ok (0, []), w') /\
    fs w' = m4 /\ fault w' = None /\ umask w' = umask w /\
    moved_to (fs w) (umask w) (ext_name (strip_size o) (bs "a/") oldn) (ext_name (strip_size o) (bs "b/") newn) data mode (fs w').
Proof. exact Proofs_WholeRename.pure_rename_end_to_end. Qed.
Print Assumptions pure_rename_end_to_end.

(* (1) end to end, names C-quoted (any bytes), forward *)
Theorem pure_rename_end_to_end_quoted : forall o f0 fl tl oldn newn sim w data mode m1 m4,
  plain_options o -> reverse_patch_opt o = false -> format_from_options o = Ok f0 ->
  Forall (Filler (strip_size o) (empty_patch f0)) fl -> Forall clean fl -> Forall (Trailing (strip_size o)) tl ->
  bytes oldn -> bytes newn -> clean sim ->
  fault w = None ->
  rename_ready (fs w) (ext_name (strip_size o) (bs "a/") oldn) (ext_name (strip_size o) (bs "b/") newn) data mode ->
  rename_permitted (fs w) (umask w) (ext_name (strip_size o) (bs "a/") oldn) (ext_name (strip_size o) (bs "b/") newn) data mode m1 m4 ->
  rewritten o data = data ->
  exists w',
    process_patch o (join_lines (fl ++ rename_lines (cquote (bs "a/" ++ oldn) ++ bs " " ++ cquote (bs "b/" ++ newn)) sim
                                                     (cquote oldn) (cquote newn) ++ tl)) w = (Ok (0, []), w') /\
    fs w' = m4 /\ fault w' = None /\ umask w' = umask w /\
    moved_to (fs w) (umask w) (ext_name (strip_size o) (bs "a/") oldn) (ext_name (strip_size o) (bs "b/") newn) data mode (fs w').
Proof. exact Proofs_WholeRename.pure_rename_end_to_end_quoted. Qed.
Print Assumptions pure_rename_end_to_end_quoted.

(* (1) end to end, the usual case: every entry other than the two names is as it was *)
Theorem pure_rename_same_dir : forall o f0 fl tl oldn newn sim w data mode,
  plain_options o -> reverse_patch_opt o = false -> format_from_options o = Ok f0 ->
  Forall (Filler (strip_size o) (empty_patch f0)) fl -> Forall clean fl -> Forall (Trailing (strip_size o)) tl ->
  hd 0%N oldn <> 34%N -> hd 0%N newn <> 34%N -> clean oldn -> clean newn -> clean sim ->
  let src := ext_name (strip_size o) (bs "a/") oldn in
  let dst := ext_name (strip_size o) (bs "b/") newn in
  fault w = None ->
  rename_ready (fs w) src dst data mode ->
  dst <> [] -> parent src = parent dst ->
  parent_ok (fs w) src true = true -> owner_r mode = true ->
  (forall d, In d (dir_prefixes dst []) -> lookup (fs w) d <> None) ->
  (forall d, parent src = Some d -> parent_ok (fs w) d true = true) ->
  rewritten o data = data ->
  exists w',
    process_patch o (join_lines (fl ++ rename_lines ((bs "a/" ++ oldn) ++ bs " b/" ++ newn) sim oldn newn ++ tl)) w = (Ok (0, []), w') /\
    lookup (fs w') dst = Some (Reg data mode) /\ lookup (fs w') src = None /\
    (forall q, q <> src -> q <> dst -> lookup (fs w') q = lookup (fs w) q) /\
    fault w' = None /\ umask w' = umask w.
Proof. exact Proofs_WholeRename.pure_rename_same_dir. Qed.
Print Assumptions pure_rename_same_dir.

(* (2) C09: no hypothesis on the pending failure nor on permissions *)
Theorem pure_rename_never_lost_gen : forall o f0 fl tl g sim rfrom rto oldn newn w data mode,
  plain_options o -> format_from_options o = Ok f0 ->
  Forall (Filler (strip_size o) (empty_patch f0)) fl -> Forall clean fl -> Forall (Trailing (strip_size o)) tl ->
  rename_text (strip_size o) g sim rfrom rto oldn newn ->
  rename_ready (fs w) (rename_src o oldn newn) (rename_dst o oldn newn) data mode ->
  match process_patch o (join_lines (fl ++ rename_lines g sim rfrom rto ++ tl)) w with
  | (Ok _, w') => lookup (fs w') (rename_src o oldn newn) = None /\
                  lookup (fs w') (rename_dst o oldn newn) = Some (Reg (rewritten o data) mode)
  | (Throw _, w') => lookup (fs w') (rename_src o oldn newn) = Some (Reg data mode) \/
                     lookup (fs w') (rename_dst o oldn newn) = Some (Reg (rewritten o data) mode)
  end.
Proof. exact Proofs_WholeRename.pure_rename_never_lost_gen. Qed.
Print Assumptions pure_rename_never_lost_gen.

(* (2) C09, names plain, forward: never neither *)
Theorem pure_rename_never_lost : forall o f0 fl tl oldn newn sim w data mode,
  plain_options o -> reverse_patch_opt o = false -> format_from_options o = Ok f0 ->
  Forall (Filler (strip_size o) (empty_patch f0)) fl -> Forall clean fl -> Forall (Trailing (strip_size o)) tl ->
  hd 0%N oldn <> 34%N -> hd 0%N newn <> 34%N -> clean oldn -> clean newn -> clean sim ->
  rename_ready (fs w) (ext_name (strip_size o) (bs "a/") oldn) (ext_name (strip_size o) (bs "b/") newn) data mode ->
  rewritten o data = data ->
  forall r w', process_patch o (join_lines (fl ++ rename_lines ((bs "a/" ++ oldn) ++ bs " b/" ++ newn) sim oldn newn ++ tl)) w = (r, w') ->
  lookup (fs w') (ext_name (strip_size o) (bs "a/") oldn) = Some (Reg data mode) \/
  lookup (fs w') (ext_name (strip_size o) (bs "b/") newn) = Some (Reg data mode).
Proof. exact Proofs_WholeRename.pure_rename_never_lost. Qed.
Print Assumptions pure_rename_never_lost.

(* (2) C09 to the letter: a failure at the k-th operation, any k *)
Theorem pure_rename_fault_at_any_operation : forall o f0 fl tl oldn newn sim w data mode k,
  plain_options o -> reverse_patch_opt o = false -> format_from_options o = Ok f0 ->
  Forall (Filler (strip_size o) (empty_patch f0)) fl -> Forall clean fl -> Forall (Trailing (strip_size o)) tl ->
  hd 0%N oldn <> 34%N -> hd 0%N newn <> 34%N -> clean oldn -> clean newn -> clean sim ->
  fault w = Some k ->
  rename_ready (fs w) (ext_name (strip_size o) (bs "a/") oldn) (ext_name (strip_size o) (bs "b/") newn) data mode ->
  rewritten o data = data ->
  let w' := snd (process_patch o (join_lines (fl ++ rename_lines ((bs "a/" ++ oldn) ++ bs " b/" ++ newn) sim oldn newn ++ tl)) w) in
  lookup (fs w') (ext_name (strip_size o) (bs "a/") oldn) = Some (Reg data mode) \/
  lookup (fs w') (ext_name (strip_size o) (bs "b/") newn) = Some (Reg data mode).
Proof. exact Proofs_WholeRename.pure_rename_fault_at_any_operation. Qed.
Print Assumptions pure_rename_fault_at_any_operation.

(* (3) C05: the same patch under -R on the tree that holds the new name *)
Theorem pure_rename_reverse : forall o f0 fl tl oldn newn sim w data mode m1 m4,
  plain_options o -> reverse_patch_opt o = true -> format_from_options o = Ok f0 ->
  Forall (Filler (strip_size o) (empty_patch f0)) fl -> Forall clean fl -> Forall (Trailing (strip_size o)) tl ->
  hd 0%N oldn <> 34%N -> hd 0%N newn <> 34%N -> clean oldn -> clean newn -> clean sim ->
  fault w = None ->
  rename_ready (fs w) (ext_name (strip_size o) (bs "b/") newn) (ext_name (strip_size o) (bs "a/") oldn) data mode ->
  rename_permitted (fs w) (umask w) (ext_name (strip_size o) (bs "b/") newn) (ext_name (strip_size o) (bs "a/") oldn) data mode m1 m4 ->
  rewritten o data = data ->
  exists w',
    process_patch o (join_lines (fl ++ rename_lines ((bs "a/" ++ oldn) ++ bs " b/" ++ newn) sim oldn newn ++ tl)) w = (Ok (0, []), w') /\
    fs w' = m4 /\ fault w' = None /\ umask w' = umask w /\
    moved_to (fs w) (umask w) (ext_name (strip_size o) (bs "b/") newn) (ext_name (strip_size o) (bs "a/") oldn) data mode (fs w').
Proof. exact Proofs_WholeRename.pure_rename_reverse. Qed.
Print Assumptions pure_rename_reverse.

(* (3) C05, names C-quoted *)
Theorem pure_rename_reverse_quoted : forall o f0 fl tl oldn newn sim w data mode m1 m4,
  plain_options o -> reverse_patch_opt o = true -> format_from_options o = Ok f0 ->
  Forall (Filler (strip_size o) (empty_patch f0)) fl -> Forall clean fl -> Forall (Trailing (strip_size o)) tl ->
  bytes oldn -> bytes newn -> clean sim ->
  fault w = None ->
  rename_ready (fs w) (ext_name (strip_size o) (bs "b/") newn) (ext_name (strip_size o) (bs "a/") oldn) data mode ->
  rename_permitted (fs w) (umask w) (ext_name (strip_size o) (bs "b/") newn) (ext_name (strip_size o) (bs "a/") oldn) data mode m1 m4 ->
  rewritten o data = data ->
  exists w',
    process_patch o (join_lines (fl ++ rename_lines (cquote (bs "a/" ++ oldn) ++ bs " " ++ cquote (bs "b/" ++ newn)) sim
                                                     (cquote oldn) (cquote newn) ++ tl)) w = (Ok (0, []), w') /\
    fs w' = m4 /\ fault w' = None /\ umask w' = umask w /\
    moved_to (fs w) (umask w) (ext_name (strip_size o) (bs "b/") newn) (ext_name (strip_size o) (bs "a/") oldn) data mode (fs w').
Proof. exact Proofs_WholeRename.pure_rename_reverse_quoted. Qed.
Print Assumptions pure_rename_reverse_quoted.

(* (3)+(2): under -R too the bytes are never lost *)
Theorem pure_rename_reverse_never_lost : forall o f0 fl tl oldn newn sim w data mode,
  plain_options o -> reverse_patch_opt o = true -> format_from_options o = Ok f0 ->
  Forall (Filler (strip_size o) (empty_patch f0)) fl -> Forall clean fl -> Forall (Trailing (strip_size o)) tl ->
  hd 0%N oldn <> 34%N -> hd 0%N newn <> 34%N -> clean oldn -> clean newn -> clean sim ->
  rename_ready (fs w) (ext_name (strip_size o) (bs "b/") newn) (ext_name (strip_size o) (bs "a/") oldn) data mode ->
  rewritten o data = data ->
  forall r w', process_patch o (join_lines (fl ++ rename_lines ((bs "a/" ++ oldn) ++ bs " b/" ++ newn) sim oldn newn ++ tl)) w = (r, w') ->
  lookup (fs w') (ext_name (strip_size o) (bs "b/") newn) = Some (Reg data mode) \/
  lookup (fs w') (ext_name (strip_size o) (bs "a/") oldn) = Some (Reg data mode).
Proof. exact Proofs_WholeRename.pure_rename_reverse_never_lost. Qed.
Print Assumptions pure_rename_reverse_never_lost.

(* a pure rename followed by another diff --git section: the step of the loop *)
Theorem pure_rename_then_next : forall o f0 fl g sim rfrom rto oldn newn g2 more st first k w data mode,
  plain_options o ->
  Forall (Filler (strip_size o) (empty_patch f0)) fl -> Forall clean fl ->
  rename_text (strip_size o) g sim rfrom rto oldn newn -> clean (bs "diff --git " ++ g2) ->
  deferred_writes st = [] ->
  rename_ready (fs w) (rename_src o oldn newn) (rename_dst o oldn newn) data mode ->
  section_loop (S k) o f0 st (strm (join_lines (fl ++ rename_lines g sim rfrom rto) ++ (bs "diff --git " ++ g2) ++ 10%N :: more)) first w =
  (let! y := rename_section st (rename_src o oldn newn) (rename_dst o oldn newn) (rewritten o data) mode
                            (strm ((bs "diff --git " ++ g2) ++ 10%N :: more)) in
   section_loop k o f0 (fst y) (snd y) false) w.
Proof. exact Proofs_WholeRename.pure_rename_then_next. Qed.
Print Assumptions pure_rename_then_next.

(* (2) on the program itself: from a tree where src holds the bytes and dst is not there, rename_prog ends normally with
   the file at dst and src gone, or with an exception and the bytes at src or at dst *)
Theorem rename_prog_safe : forall src dst data out mode, src <> dst ->
  Tri (held src dst data mode) (rename_prog src dst out mode) (fun _ => arrived src dst out mode) (not_lost src dst data out mode).
Proof. exact Proofs_WholeRename.rename_prog_safe. Qed.
Print Assumptions rename_prog_safe.

(* a rename between names written with a leading "./": the walk over emptied parent directories stops at "." (repair 3c70272) *)
Theorem rename_prog_dot : forall a b out mode w data md,
  fault w = None -> a <> b -> ~ In 47%N a -> ~ In 47%N b ->
  lookup (fs w) (dot_name a) = Some (Reg data mode) -> owner_r mode = true -> lookup (fs w) (dot_name b) = None ->
  lookup (fs w) [46%N] = Some (Dir md) -> owner_x md = true -> owner_w md = true ->
  exists w',
    rename_prog (dot_name a) (dot_name b) out mode w = (Ok (0, []), w') /\
    fs w' = moved (fs w) (umask w) (dot_name a) (dot_name b) out mode /\
    lookup (fs w') (dot_name b) = Some (Reg out mode) /\ lookup (fs w') (dot_name a) = None /\
    (forall q, q <> dot_name a -> q <> dot_name b -> lookup (fs w') q = lookup (fs w) q) /\
    fault w' = None /\ umask w' = umask w.
Proof. exact Proofs_WholeRename.rename_prog_dot. Qed.
Print Assumptions rename_prog_dot.
