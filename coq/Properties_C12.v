(* Properties_C12.v — C12: the file that gets patched is the one the headers name.
   Statements only; proofs in Proofs_Names.v; vocabulary in Spec_Names.v. *)
From PatchV Require Import Base Lines Hunk Options LineParser World Driver Spec_Names Proofs_Names.

(* -pN: exactly N leading components removed, runs of slashes counting once; a name with fewer components is not used *)
Theorem strip_path_spec : forall path amount, (0 <= amount)%Z -> strip_path path amount = strip_spec path (Z.to_nat amount).
Proof. exact Proofs_Names.strip_path_spec. Qed.
Print Assumptions strip_path_spec.

(* -p absent: the base name *)
Theorem strip_path_basename : forall path amount, (amount < 0)%Z ->
  strip_path path amount = basename path /\ is_basename path (basename path).
Proof. exact Proofs_Names.strip_path_basename. Qed.
Print Assumptions strip_path_basename.

(* any bytes, C-quoted, decode to exactly those bytes *)
Theorem unquote_quote : forall name tail,
  Forall (fun c => (c < 256)%N) name ->
  parse_quoted_string (cquote name ++ tail) = Ok (name, 34%N :: tail).
Proof. exact Proofs_Names.unquote_quote. Qed.
Print Assumptions unquote_quote.

(* header line with a plain name ended by a tab *)
Theorem file_line_plain : forall name ts strip,
  name <> [] -> ~ In 9%N name -> hd 0%N name <> 34%N ->
  parse_file_line strip (name ++ 9%N :: ts) = Ok (stripped name strip, match ts with [] => None | _ => Some ts end).
Proof. exact Proofs_Names.file_line_plain. Qed.
Print Assumptions file_line_plain.

(* header line with a C-quoted name; [stripped] leaves /dev/null alone *)
Theorem file_line_quoted : forall name tail strip,
  Forall (fun c => (c < 256)%N) name ->
  parse_file_line strip (cquote name ++ tail) = Ok (stripped name strip, match tail with [] => None | _ => Some tail end).
Proof. exact Proofs_Names.file_line_quoted. Qed.
Print Assumptions file_line_quoted.

(* among the old, new and Index names the first one that exists is chosen, in that order *)
Theorem guess_order : forall m p o,
  (usable m (old_path p) = true -> guess_filepath m [] p o = old_path p) /\
  (usable m (old_path p) = false -> usable m (new_path p) = true -> guess_filepath m [] p o = new_path p) /\
  (usable m (old_path p) = false -> usable m (new_path p) = false -> usable m (index_path p) = true ->
   guess_filepath m [] p o = index_path p).
Proof. exact Proofs_Names.guess_order. Qed.
Print Assumptions guess_order.

(* /dev/null is never the file to patch *)
Theorem guess_never_devnull : forall m pending p o, guess_filepath m pending p o <> devnull.
Proof. exact Proofs_Names.guess_never_devnull. Qed.
Print Assumptions guess_never_devnull.

Local Open Scope string_scope.
Example names_nonvacuous :
  strip_path (bs "a//b/c") 1 = bs "b/c" /\ strip_spec (bs "a//b/c") 2 = bs "c" /\ strip_path (bs "a/b") 2 = [] /\
  strip_path (bs "x/y/z") (-1) = bs "z".
Proof. vm_compute. auto. Qed.
Example quote_nonvacuous :
  parse_quoted_string (cquote [97; 9; 200; 34; 92; 10; 1]%N ++ bs " tail") = Ok ([97; 9; 200; 34; 92; 10; 1]%N, 34%N :: bs " tail").
Proof. vm_compute. reflexivity. Qed.
