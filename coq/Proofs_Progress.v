(* Proofs_Progress.v — C08: each pass of the loop over the sections of a patch stream consumes at least one line, so the run
   never exhausts the fuel "bytes + 2" of section_loop. *)
From PatchV Require Import Base Lines Hunk Locator Formatter Options Applier LineParser Parser World Driver
     Proofs_Base Proofs_Lines Proofs_Fuel.

(* ---------- what the header scan knows when it stops ---------- *)
Definition HInv (st : hstate) : Prop :=
  (h_body st = false -> h_git st = true) /\
  (poper (h_patch st) = OpBinary -> h_git st = true) /\
  (h_git st = true -> 2 <= h_first st /\ 1 <= h_lines st).

Ltac hs_crunch :=
  repeat match goal with
         | H : Ok _ = Ok _ |- _ => inversion H; clear H; subst
         | H : Throw _ = Ok _ |- _ => discriminate H
         | H : (_, _) = (_, _) |- _ => inversion H; clear H; subst
         | H : Some _ = Some _ |- _ => inversion H; clear H; subst
         | H : None = Some _ |- _ => discriminate H
         | H : Some _ = None |- _ => discriminate H
         | H : rbind ?m _ = Ok _ |- _ => destruct m eqn:?; cbn [rbind] in H
         | H : context [match ?x with Some _ => _ | None => _ end] |- _ => destruct x eqn:?
         | H : context [if ?c then _ else _] |- _ => destruct c eqn:?
         | H : context [let '(_, _) := ?x in _] |- _ => destruct x eqn:?
         end.

Lemma header_step_inv strip st line r :
  header_step strip st line = Ok r -> HInv st ->
  match r with inl st' => HInv st' | inr st' => HInv st' end.
Proof.
  intros H [I1 [I2 I3]]. unfold header_step in H.
  hs_crunch; unfold HInv; cbn [h_body h_git h_first h_lines h_patch poper set_paths set_index set_prereq set_fmt set_oper];
    repeat split; intros; try discriminate; try tauto; try lia;
    try (match goal with X : h_git st = true |- _ => destruct (I3 X); lia end).
Qed.

Lemma header_loop_inv : forall fuel strip st s st' s', header_loop fuel strip st s = Ok (st', s') -> HInv st -> HInv st'.
Proof.
  induction fuel as [|f IH]; intros strip st s st' s' H I; [discriminate|]. cbn [header_loop] in H.
  destruct (sget_line s) as [[[line n]|] s1]; [|inversion H; subst; exact I].
  destruct (header_step strip st line) as [r|e] eqn:E; cbn [rbind] in H; [|discriminate].
  pose proof (header_step_inv _ _ _ _ E I) as I'. destruct r as [st1|st1]; [eapply IH; eauto|inversion H; subst; exact I'].
Qed.

Lemma header_loop_le : forall fuel strip st s st' s', header_loop fuel strip st s = Ok (st', s') -> length (rest s') <= length (rest s).
Proof.
  induction fuel as [|f IH]; intros strip st s st' s' H; [discriminate|]. cbn [header_loop] in H.
  destruct (sget_line s) as [[[line n]|] s1] eqn:G.
  - pose proof (sget_line_some _ _ _ G). destruct (header_step strip st line) as [r|e]; cbn [rbind] in H; [|discriminate].
    destruct r as [st1|st1]; [apply IH in H; lia|inversion H; subst; lia].
  - pose proof (sget_line_le _ _ _ G). inversion H; subst. lia.
Qed.

Lemma HInv_init p : poper p <> OpBinary -> HInv (mkHS p LKUnknown 0 false true empty_hunk 0).
Proof. intros H. unfold HInv. cbn. repeat split; intros; try discriminate; contradiction. Qed.

Lemma skip_lines_le : forall n s s', skip_lines n s = Ok s' -> length (rest s') <= length (rest s) /\ (1 <= n -> length (rest s') < length (rest s)).
Proof.
  induction n as [|k IH]; intros s s' H; cbn [skip_lines] in H; [inversion H; subst; split; [lia|lia]|].
  destruct (sget_line s) as [[x|] s1] eqn:G; [|discriminate]. pose proof (sget_line_some _ _ _ G). destruct (IH _ _ H). split; lia.
Qed.

Lemma skip_lines_flags : forall n s s', skip_lines n s = Ok s' -> 1 <= n \/ s' = s.
Proof. intros [|k] s s' H; [right; inversion H; reflexivity|left; lia]. Qed.

(* what the header scan hands to the loop over sections *)
Lemma header_full_spec f strip s should p s1 found :
  parse_patch_header_full (empty_patch f) strip s = Ok (should, p, s1, found) ->
  length (rest s1) <= length (rest s) /\
  (found = false -> should = true) /\
  (found = true -> length (rest s1) < length (rest s) \/ (should = true /\ poper p <> OpBinary /\ s1 = mkStream (rest s) false false)) /\
  (found = true -> should = false -> length (rest s1) < length (rest s)) /\
  (found = true -> poper p = OpBinary -> length (rest s1) < length (rest s)).
Proof.
  unfold parse_patch_header_full.
  destruct (header_loop (S (length (rest s))) strip (mkHS (empty_patch f) LKUnknown 0 false true empty_hunk 0) s) as [[st s0]|e] eqn:HL; cbn [rbind]; [|discriminate].
  assert (I : HInv st) by (eapply header_loop_inv; [exact HL|apply HInv_init; discriminate]).
  destruct I as [I1 [I2 I3]].
  destruct (skip_lines (h_first st - 1) (sseek (sclear s0) (rest s))) as [s3|e] eqn:SK; cbn [rbind]; [|discriminate].
  intros [= <- <- <- <-].
  destruct (skip_lines_le _ _ _ SK) as [L1 L2]. cbn [sseek sclear rest] in L1, L2.
  set (p1 := if h_git st then set_fmt (h_patch st) FGit else h_patch st).
  assert (Pb : forall q : unit, poper (match poper p1 with
                       | OpChange => if (rstart (newr (h_hunk st)) =? 0)%Z || str_eqb (new_path p1) devnull_path then set_oper p1 OpDelete
                                     else if (rstart (oldr (h_hunk st)) =? 0)%Z || str_eqb (old_path p1) devnull_path then set_oper p1 OpAdd else p1
                       | _ => p1 end) = OpBinary -> poper (h_patch st) = OpBinary).
  { intros _. unfold p1. destruct (h_git st); cbn [poper set_fmt];
      destruct (poper (h_patch st)) eqn:E; try discriminate; try reflexivity;
      repeat match goal with |- context [if ?c then _ else _] => destruct c end; cbn [poper set_oper set_fmt]; try discriminate; try rewrite E; try discriminate. }
  split; [exact L1|]. split.
  - intros Hf. apply negb_false_iff, Nat.eqb_eq in Hf. destruct (h_body st) eqn:B; [reflexivity|]. destruct (I3 (I1 eq_refl)). lia.
  - split; [|split].
    + intros Hf. apply negb_true_iff, Nat.eqb_neq in Hf.
      destruct (Nat.eq_dec (h_first st) 1) as [E1|E1].
      * right. destruct (h_body st) eqn:B; [|destruct (I3 (I1 eq_refl)); lia].
        split; [reflexivity|]. split.
        -- intros Hb. specialize (Pb tt Hb). destruct (I3 (I2 Pb)). lia.
        -- rewrite E1 in SK. cbn in SK. inversion SK. reflexivity.
      * left. apply L2. lia.
    + intros Hf Hs. apply negb_true_iff, Nat.eqb_neq in Hf. apply L2. destruct (I3 (I1 Hs)). lia.
    + intros Hf Hb. apply L2. specialize (Pb tt Hb). destruct (I3 (I2 Pb)). lia.
Qed.

(* ---------- the body parsers consume at least one line ---------- *)
Lemma sget_line_nonempty s : seof s = false -> sbad s = false -> rest s <> [] -> exists x s', sget_line s = (Some x, s').
Proof.
  intros E B R. unfold sget_line. rewrite E, B. unfold get_line.
  destruct (get_line_aux (rest s) []) as [[[[t n] r] e]|] eqn:G; [eauto|].
  apply Proofs_Lines.get_line_aux_none in G. destruct G as [G _]. contradiction.
Qed.

Lemma unified_loop_le : forall fuel s acc cur le hs s', unified_loop fuel s acc cur le = Ok (hs, s') -> length (rest s') <= length (rest s).
Proof.
  induction fuel as [|f IH]; intros s acc cur le hs s' H; [discriminate|]. cbn [unified_loop] in H.
  destruct (sget_line s) as [[[line n]|] s1] eqn:G.
  - pose proof (sget_line_some _ _ _ G) as L1.
    destruct cur as [[[h oe] ne]|].
    + destruct (match line with [] => [32%N] | _ :: _ => line end) as [|what content]; [discriminate|].
      destruct (op_of_char what) as [o|]; [|discriminate].
      set (ls0 := body h ++ [mkPL o (mkLine content n)]) in *.
      set (ne1 := match o with Del => ne | _ => (ne - 1)%Z end) in *.
      destruct (match o with Del => (ls0, s1) | _ => eat_marker (ne1 =? 0)%Z ls0 s1 end) as [ls1 s2] eqn:E1.
      assert (L2 : length (rest s2) <= length (rest s1)).
      { destruct o; try (inversion E1; lia); pose proof (eat_marker_le (ne1 =? 0)%Z ls0 s1) as X; rewrite E1 in X; exact X. }
      set (oe1 := match o with Add => oe | _ => (oe - 1)%Z end) in *.
      destruct (match o with Add => (ls1, s2) | _ => eat_marker (oe1 =? 0)%Z ls1 s2 end) as [ls2 s3] eqn:E2.
      assert (L3 : length (rest s3) <= length (rest s2)).
      { destruct o; try (inversion E2; lia); pose proof (eat_marker_le (oe1 =? 0)%Z ls1 s2) as X; rewrite E2 in X; exact X. }
      destruct ((oe1 =? 0)%Z && (ne1 =? 0)%Z).
      * destruct (sget_line s3) as [[[l2 n2]|] s4] eqn:G2.
        -- pose proof (sget_line_some _ _ _ G2) as L4.
           destruct (parse_unified_range (mkHunk (oldr h) (newr h) []) l2) as [ok h2]. destruct ok.
           ++ apply IH in H. lia.
           ++ inversion H; subst. cbn [sseek rest]. lia.
        -- pose proof (sget_line_le _ _ _ G2). inversion H; subst. lia.
      * apply IH in H. lia.
    + destruct (parse_unified_range empty_hunk line) as [ok h]. destruct ok; apply IH in H; lia.
  - pose proof (sget_line_le _ _ _ G) as L1.
    destruct cur as [[[h oe] ne]|].
    + destruct (negb (ne =? 0)%Z); [discriminate|]. destruct (negb (oe =? 0)%Z); [discriminate|]. inversion H; subst. lia.
    + destruct (is_nil acc); [inversion H; subst; lia|]. destruct (negb (snd le =? 0)%Z); [discriminate|]. destruct (negb (fst le =? 0)%Z); [discriminate|].
      inversion H; subst. lia.
Qed.

Lemma normal_loop_le : forall fuel s acc hs s', normal_loop fuel s acc = Ok (hs, s') -> length (rest s') <= length (rest s).
Proof.
  induction fuel as [|f IH]; intros s acc hs s' H; [discriminate|]. cbn [normal_loop] in H.
  destruct (sget_line s) as [[[line n]|] s1] eqn:G; [|pose proof (sget_line_le _ _ _ G); inversion H; subst; lia].
  pose proof (sget_line_some _ _ _ G) as L1.
  destruct (seof s1 || is_nil line); [inversion H; subst; lia|].
  destruct (parse_normal_range empty_hunk line) as [ok h]. destruct ok; cbn [negb] in H.
  - destruct (normal_read (S (length (rest s1))) (rcount (oldr h)) 60 Del s1 []) as [x|e] eqn:R1; cbn [rbind] in H; [|discriminate].
    pose proof (normal_read_le _ _ _ _ _ _ _ R1) as L2.
    destruct (normal_check_nonl (fst x) (snd x)) as [ls1 s2] eqn:E1.
    assert (L3 : length (rest s2) <= length (rest (snd x))) by (pose proof (normal_check_nonl_le (fst x) (snd x)) as X; rewrite E1 in X; exact X).
    set (s3 := if peek_is s2 45 then match sget_line s2 with (Some (l, _), s'0) => if str_eqb l (bs "---") then s'0 else sseek s'0 (rest s2) | (None, s'0) => s'0 end else s2) in *.
    assert (L4 : length (rest s3) <= length (rest s2)).
    { unfold s3. destruct (peek_is s2 45); [|lia]. destruct (sget_line s2) as [[[l nn]|] s0] eqn:G1.
      - pose proof (sget_line_some _ _ _ G1). destruct (str_eqb l (bs "---")); [lia|cbn; lia].
      - pose proof (sget_line_le _ _ _ G1). lia. }
    destruct (normal_read (S (length (rest s1))) (rcount (newr h)) 62 Add s3 ls1) as [y|e] eqn:R2; cbn [rbind] in H; [|discriminate].
    pose proof (normal_read_le _ _ _ _ _ _ _ R2) as L5.
    destruct (normal_check_nonl (fst y) (snd y)) as [ls2 s4] eqn:E3.
    assert (L6 : length (rest s4) <= length (rest (snd y))) by (pose proof (normal_check_nonl_le (fst y) (snd y)) as X; rewrite E3 in X; exact X).
    apply IH in H. lia.
  - destruct (is_nil acc); [discriminate|]. inversion H; subst. cbn [sseek rest]. lia.
Qed.

Lemma context_loop_lt : forall fuel s acc hs s', context_loop fuel s acc = Ok (hs, s') -> length (rest s') < length (rest s).
Proof.
  induction fuel as [|f IH]; intros s acc hs s' H; [discriminate|]. cbn [context_loop] in H.
  destruct (parse_context_hunk_spec s) as [_ P].
  destruct (parse_context_hunk s) as [[[[[ol ostart] nl_] nstart] s1]|e]; cbn [rbind] in H; [|discriminate].
  specialize (P _ eq_refl). cbn [snd] in P.
  destruct (hunk_from_context_parts ostart ol nstart nl_) as [h|e]; cbn [rbind] in H; [|discriminate].
  destruct (sget_line s1) as [l s2] eqn:G.
  destruct (starts_with (fst (line_or_empty l)) (bs "***************") || is_old_range_line (fst (line_or_empty l))).
  - apply IH in H. cbn [sseek rest] in H. lia.
  - inversion H; subst. cbn [sseek rest]. lia.
Qed.

Theorem body_progress p s p' s' :
  parse_patch_body p s = Ok (p', s') -> seof s = false -> sbad s = false -> rest s <> [] ->
  length (rest s') < length (rest s).
Proof.
  intros H E B R. destruct (sget_line_nonempty s E B R) as (x & s1 & G). pose proof (sget_line_some _ _ _ G) as L1.
  unfold parse_patch_body in H.
  assert (U : forall hs s2, parse_unified_patch s = Ok (hs, s2) -> length (rest s2) < length (rest s)).
  { intros hs s2 HU. unfold parse_unified_patch in HU. cbn [unified_loop] in HU. rewrite G in HU. destruct x as [line n].
    destruct (parse_unified_range empty_hunk line) as [ok h]. destruct ok; apply unified_loop_le in HU; lia. }
  destruct (pfmt p); try discriminate.
  - destruct (parse_context_patch s) as [[hs s2]|e] eqn:C; cbn [rbind] in H; [|discriminate]. inversion H; subst. cbn [snd].
    unfold parse_context_patch in C. apply context_loop_lt in C. exact C.
  - destruct (parse_unified_patch s) as [[hs s2]|e] eqn:C; cbn [rbind] in H; [|discriminate]. inversion H; subst. cbn [snd]. eapply U; eauto.
  - destruct (parse_unified_patch s) as [[hs s2]|e] eqn:C; cbn [rbind] in H; [|discriminate]. inversion H; subst. cbn [snd]. eapply U; eauto.
  - destruct (parse_normal_patch s) as [[hs s2]|e] eqn:C; cbn [rbind] in H; [|discriminate]. inversion H; subst. cbn [snd].
    unfold parse_normal_patch in C. cbn [normal_loop] in C. rewrite G in C. destruct x as [line n].
    destruct (seof s1 || is_nil line); [inversion C; subst; exact L1|].
    destruct (parse_normal_range empty_hunk line) as [ok h]. destruct ok; cbn [negb] in C; [|cbn [is_nil] in C; discriminate].
    destruct (normal_read (S (length (rest s1))) (rcount (oldr h)) 60 Del s1 []) as [x1|e] eqn:R1; cbn [rbind] in C; [|discriminate].
    pose proof (normal_read_le _ _ _ _ _ _ _ R1) as L2.
    destruct (normal_check_nonl (fst x1) (snd x1)) as [ls1 s3] eqn:E1.
    assert (L3 : length (rest s3) <= length (rest (snd x1))) by (pose proof (normal_check_nonl_le (fst x1) (snd x1)) as X; rewrite E1 in X; exact X).
    set (s4 := if peek_is s3 45 then match sget_line s3 with (Some (l, _), s'0) => if str_eqb l (bs "---") then s'0 else sseek s'0 (rest s3) | (None, s'0) => s'0 end else s3) in *.
    assert (L4 : length (rest s4) <= length (rest s3)).
    { unfold s4. destruct (peek_is s3 45); [|lia]. destruct (sget_line s3) as [[[l nn]|] s0] eqn:G1.
      - pose proof (sget_line_some _ _ _ G1). destruct (str_eqb l (bs "---")); [lia|cbn; lia].
      - pose proof (sget_line_le _ _ _ G1). lia. }
    destruct (normal_read (S (length (rest s1))) (rcount (newr h)) 62 Add s4 ls1) as [y|e] eqn:R2; cbn [rbind] in C; [|discriminate].
    pose proof (normal_read_le _ _ _ _ _ _ _ R2) as L5.
    destruct (normal_check_nonl (fst y) (snd y)) as [ls2 s5] eqn:E3.
    assert (L6 : length (rest s5) <= length (rest (snd y))) by (pose proof (normal_check_nonl_le (fst y) (snd y)) as X; rewrite E3 in X; exact X).
    apply normal_loop_le in C. lia.
Qed.

(* ---------- where process_section leaves the stream ---------- *)
Definition Post {A} (m : M A) (Q : A -> Prop) : Prop := forall w a w', m w = (Ok a, w') -> Q a.

Lemma Post_true {A} (m : M A) : Post m (fun _ => True). Proof. intros w a w' _. exact I. Qed.
Lemma Post_ret {A} (a : A) (Q : A -> Prop) : Q a -> Post (mret a) Q. Proof. intros H w b w' E. inversion E; subst. exact H. Qed.
Lemma Post_throw {A} e (Q : A -> Prop) : Post (mthrow e) Q. Proof. intros w a w' E. discriminate. Qed.
Lemma Post_bind {A B} (m : M A) (f : A -> M B) (Q : A -> Prop) (R : B -> Prop) :
  Post m Q -> (forall a, Q a -> Post (f a) R) -> Post (mbind m f) R.
Proof.
  intros Hm Hf w b w' E. unfold mbind in E. destruct (m w) as [[a|e] w1] eqn:M1; [|discriminate].
  eapply Hf; [eapply Hm; exact M1|exact E].
Qed.
Lemma Post_stdout {A} (a : A) (Q : A -> Prop) data :
  Q a -> Post (fun w => (Ok a, mkWorld (fs w) (umask w) (trace w) (fault w) (stdout_data w ++ data))) Q.
Proof. intros H w b w' E. inversion E; subst. exact H. Qed.

Definition BQ (should : bool) (s s2 : stream) : Prop :=
  if should then exists p1 p2, parse_patch_body p1 s = Ok (p2, s2) else s2 = s.

Lemma Post_body_if should p s : Post (body_if should p s) (fun ps => BQ should s (snd ps)).
Proof.
  unfold body_if, BQ. destruct should.
  - intros w [p2 s2] w' E. unfold mlift in E. inversion E as [[E1 E2]]. cbn [snd]. eauto.
  - apply Post_ret. reflexivity.
Qed.

Lemma Post_process_section o st should p s : Post (process_section o st should p s) (fun y => BQ should s (snd y)).
Proof.
  unfold process_section.
  eapply Post_bind; [apply Post_true|intros m _].
  set (ftp := if is_nil (file_to_patch o) then guess_filepath m (map d_dest (deferred_writes st)) p o else file_to_patch o).
  destruct (is_nil ftp); [apply Post_throw|].
  destruct (exists_ m ftp && negb (is_regular_file m ftp)).
  { eapply Post_bind; [apply Post_body_if|intros ps H]. eapply Post_bind; [apply Post_true|intros st' _]. apply Post_ret. exact H. }
  destruct (_ && _).
  { eapply Post_bind; [apply Post_body_if|intros ps H]. eapply Post_bind; [apply Post_true|intros st' _]. apply Post_ret. exact H. }
  eapply Post_bind; [apply Post_true|intros input_lines _].
  eapply Post_bind; [apply Post_true|intros _ _].
  eapply Post_bind; [apply Post_body_if|intros [p2 s2] H]. cbn [snd] in H.
  eapply Post_bind; [apply Post_true|intros ar _].
  eapply Post_bind; [apply Post_true|intros st2 _].
  destruct (str_eqb (out_file_path o) (bs "-")); [apply Post_stdout; exact H|].
  eapply Post_bind; [apply Post_true|intros [st4 wtf] _].
  eapply Post_bind; [apply Post_true|intros st5 _].
  eapply Post_bind; [apply Post_true|intros st6 _].
  apply Post_ret. exact H.
Qed.

(* ---------- nothing below the section loop answers "out of fuel" ---------- *)
Ltac rf :=
  repeat first
    [ apply fueled_ok
    | (apply fueled_throw; discriminate)
    | assumption
    | match goal with H : context [fueled _] |- fueled _ => apply H end
    | match goal with
      | |- fueled (rbind _ _) => apply fueled_bind; [|intros ? _]
      | |- fueled (if ?c then _ else _) => destruct c
      | |- fueled (match ?x with _ => _ end) => destruct x
      | |- fueled (let '(_, _) := ?x in _) => destruct x
      end ].

Lemma ctx_step_fueled oc nc s p : fueled (Formatter.ctx_step oc nc s p).
Proof. unfold Formatter.ctx_step. rf. Qed.

Lemma ctx_fold_fueled oc nc : forall b s, fueled (Formatter.ctx_fold oc nc s b).
Proof. induction b as [|p r IH]; intros s; cbn [Formatter.ctx_fold]; pose proof ctx_step_fueled; rf. Qed.

Lemma write_hunk_as_context_fueled h : fueled (write_hunk_as_context h).
Proof. unfold write_hunk_as_context. pose proof ctx_fold_fueled. rf. Qed.

Lemma write_reject_fueled o p n h : fueled (write_reject o p n h).
Proof. unfold write_reject. pose proof write_hunk_as_context_fueled. rf. Qed.

Lemma write_define_loop_fueled lines define : forall b ln st last, fueled (write_define_loop lines define b ln st last).
Proof.
  induction b as [|p r IH]; intros ln st last; cbn [write_define_loop]; [apply fueled_ok|].
  destruct (pop p).
  - destruct (nth_opt lines ln); [|apply IH]. apply fueled_bind; [apply IH|]. intros [[[o e] st'] ln'] _. apply fueled_ok.
  - destruct st; cbn; (apply fueled_bind; [apply IH|]); intros [[[o e] st'] ln'] _; apply fueled_ok.
  - destruct (nth_opt lines ln); [|apply fueled_throw; discriminate].
    destruct st; cbn; (apply fueled_bind; [apply IH|]); intros [[[o e] st'] ln'] _; apply fueled_ok.
Qed.

Lemma write_define_hunk_fueled lines define ln b : fueled (write_define_hunk lines define ln b).
Proof.
  unfold write_define_hunk. apply fueled_bind; [apply write_define_loop_fueled|]. intros [[[o e] st] last] _. destruct (dstate_outside st); apply fueled_ok.
Qed.

Lemma apply_one_fueled o p lines k s h loc : fueled (apply_one o p lines k s h loc).
Proof.
  unfold apply_one. pose proof write_reject_fueled. pose proof write_define_hunk_fueled.
  apply fueled_bind; [|intros [s2 hcur] _; apply fueled_ok]. rf.
Qed.

Lemma apply_rest_fueled o p lines : forall hs k s, fueled (apply_rest o p lines k s hs).
Proof. induction hs as [|h r IH]; intros k s; cbn [apply_rest]; pose proof apply_one_fueled; rf. Qed.

Lemma apply_first_fueled o p lines s hs : fueled (apply_first o p lines s hs).
Proof.
  assert (W : forall q m, fueled m -> fueled (with_patch q m)).
  { intros q m Hm. unfold with_patch. apply fueled_bind; [exact Hm|intros; apply fueled_ok]. }
  unfold apply_first. pose proof apply_one_fueled. pose proof apply_rest_fueled.
  destruct hs as [|h r]; [apply fueled_ok|].
  destruct (should_check_if_patch_is_reversed _ o); [|apply W; rf].
  apply fueled_bind.
  - destruct (_ || _); [|apply fueled_ok]. unfold handle_probably_reversed_patch, check_how_to_handle_reversed_patch. rf.
  - intros d _. destruct (snd d); apply W; rf.
Qed.

Lemma apply_patch_fueled o lines p : fueled (apply_patch o lines p).
Proof. unfold apply_patch. apply fueled_bind; [apply apply_first_fueled|intros; apply fueled_ok]. Qed.

Lemma reject_all_fueled o p : forall hs n, fueled (reject_all o p hs n).
Proof. induction hs as [|h r IH]; intros n; cbn [reject_all]; pose proof write_reject_fueled; rf. Qed.

Definition Never {A} (m : M A) : Prop := forall w, fueled (fst (m w)).

Lemma Never_ret {A} (a : A) : Never (mret a). Proof. intros w. apply fueled_ok. Qed.
Lemma Never_throw {A} e : e <> EOutOfFuel -> Never (@mthrow A e). Proof. intros H w. apply fueled_throw. exact H. Qed.
Lemma Never_lift {A} (r : res A) : fueled r -> Never (mlift r). Proof. intros H w. exact H. Qed.
Lemma Never_getfs : Never get_fs. Proof. intros w. apply fueled_ok. Qed.
Lemma Never_stdout {A} (a : A) data : Never (fun w => (Ok a, mkWorld (fs w) (umask w) (trace w) (fault w) (stdout_data w ++ data))).
Proof. intros w. apply fueled_ok. Qed.
Lemma Never_bind {A B} (m : M A) (f : A -> M B) : Never m -> (forall a, Never (f a)) -> Never (mbind m f).
Proof.
  intros Hm Hf w. unfold mbind. specialize (Hm w). destruct (m w) as [[a|e] w1]; cbn [fst] in *; [apply Hf|].
  exact (fueled_retype _ Hm).
Qed.
Lemma Never_perform op : Never (perform op).
Proof. intros w. unfold perform. destruct (fault w) as [[|k]|]; [apply fueled_ok| |]; destruct (exec_op (fs w) (umask w) op); apply fueled_ok. Qed.

Ltac nf :=
  repeat first
    [ apply Never_ret | (apply Never_throw; discriminate) | apply Never_getfs | apply Never_stdout | apply Never_perform
    | assumption
    | match goal with H : context [Never _] |- Never _ => apply H end
    | match goal with H : context [fueled _] |- fueled _ => apply H end
    | match goal with
      | |- Never (mlift _) => apply Never_lift
      | |- Never (mbind _ _) => apply Never_bind; [|intros ?]
      | |- Never (if ?c then _ else _) => destruct c
      | |- Never (match ?x with _ => _ end) => destruct x
      | |- Never (let '(_, _) := ?x in _) => destruct x
      end ].

Lemma Never_checked op : Never (checked op). Proof. unfold checked. nf. Qed.
Lemma Never_rmdir : forall fuel p, Never (rmdir_parents fuel p).
Proof. induction fuel as [|f IH]; intros p; cbn [rmdir_parents]; nf. Qed.
Lemma Never_remove p : Never (remove_file_and_empty_parent_folders p).
Proof. unfold remove_file_and_empty_parent_folders. pose proof Never_checked. pose proof Never_rmdir. nf. Qed.
Lemma Never_mkdirs : forall ds, Never (mkdirs ds).
Proof. induction ds as [|d r IH]; cbn [mkdirs]; nf. Qed.
Lemma Never_ensure p : Never (ensure_parent_directories p).
Proof. unfold ensure_parent_directories. pose proof Never_mkdirs. nf. Qed.
Lemma Never_backup o st p : Never (make_backup_for o st p).
Proof. unfold make_backup_for, backup_core. pose proof Never_checked. pose proof Never_ensure. nf. Qed.
Lemma Never_write_now o st d : Never (write_now o st d).
Proof. unfold write_now. pose proof Never_checked. pose proof Never_backup. nf. Qed.
Lemma Never_refuse o st out p : Never (refuse_to_patch o st out p).
Proof. unfold refuse_to_patch. pose proof Never_checked. pose proof (reject_all_fueled o p). nf. Qed.
Lemma Never_body_if should p s : Never (body_if should p s).
Proof. unfold body_if. pose proof (parse_patch_body_fueled p s). nf. Qed.

Lemma Never_process_section o st should p s : Never (process_section o st should p s).
Proof.
  unfold process_section, section_tail.
  pose proof Never_checked. pose proof Never_refuse. pose proof Never_body_if. pose proof Never_ensure. pose proof Never_backup.
  pose proof Never_write_now. pose proof Never_remove. pose proof apply_patch_fueled.
  nf.
Qed.

(* ---------- the loop over sections ---------- *)
Lemma header_loop_nothing_read strip st s f : rest s = [] -> header_loop (S f) strip st s = Ok (st, snd (sget_line s)).
Proof.
  intros R. cbn [header_loop]. unfold sget_line. rewrite R. destruct (seof s); [reflexivity|]. destruct (sbad s); reflexivity.
Qed.

Lemma found_nonempty f strip s should p s1 :
  parse_patch_header_full (empty_patch f) strip s = Ok (should, p, s1, true) -> rest s <> [].
Proof.
  intros H R. unfold parse_patch_header_full in H. rewrite R in H. cbn [length] in H.
  rewrite (header_loop_nothing_read strip _ s 0 R) in H. cbn [rbind h_git h_patch h_first Nat.sub skip_lines h_body Nat.eqb negb] in H.
  inversion H.
Qed.

Lemma Never_bind_post {A B} (m : M A) (f : A -> M B) (Q : A -> Prop) :
  Never m -> Post m Q -> (forall a, Q a -> Never (f a)) -> Never (mbind m f).
Proof.
  intros Hm Hp Hf w. unfold mbind. specialize (Hm w). destruct (m w) as [[a|e] w1] eqn:E; cbn [fst] in *.
  - apply Hf. eapply Hp. exact E.
  - exact (fueled_retype _ Hm).
Qed.

Lemma Post_lift {A} (r : res A) : Post (mlift r) (fun a => r = Ok a).
Proof. intros w a w' E. unfold mlift in E. inversion E. reflexivity. Qed.

(* Each pass of the loop over the sections of the patch either ends the loop or goes on with strictly less input; with the
   fuel process_patch gives it (bytes + 2) the loop is never cut short. *)
Theorem section_loop_fueled o f : forall fuel st s first,
  length (rest s) + 1 < fuel -> Never (section_loop fuel o f st s first).
Proof.
  induction fuel as [|k IH]; intros st s first L; [lia|]. cbn [section_loop].
  destruct (seof s) eqn:Es; [apply Never_ret|].
  eapply Never_bind_post; [apply Never_lift; apply parse_patch_header_fueled|apply Post_lift|].
  intros [[[should p] s1] found] HF.
  destruct (header_full_spec _ _ _ _ _ _ _ HF) as (L1 & F0 & F1 & F2 & F3).
  destruct found.
  - (* a hunk start was found *)
    cbn [negb andb].
    assert (Go : Never (match poper p with
                        | OpBinary => section_loop k o f (set_failure st) s1 false
                        | _ => let! y := process_section o st should p s1 in section_loop k o f (fst y) (snd y) false
                        end)).
    { assert (A : Never (let! y := process_section o st should p s1 in section_loop k o f (fst y) (snd y) false)).
      { eapply Never_bind_post; [apply Never_process_section|apply Post_process_section|]. intros [st' s2] HB. cbn [fst snd] in *.
        apply IH. unfold BQ in HB. destruct should.
        - destruct HB as (p1 & p2 & HB).
          destruct (F1 eq_refl) as [Lt|(_ & _ & E1)].
          + (* the scan itself moved on; the body parser never moves back *)
            assert (length (rest s2) <= length (rest s1)); [|lia].
            unfold parse_patch_body in HB.
            destruct (pfmt p1); try discriminate;
              match type of HB with rbind ?m _ = _ => destruct m as [[hs sx]|e] eqn:C; cbn [rbind] in HB; [|discriminate] end;
              inversion HB; subst; cbn [snd].
            * unfold parse_context_patch in C. apply context_loop_lt in C. lia.
            * unfold parse_unified_patch in C. apply unified_loop_le in C. exact C.
            * unfold parse_unified_patch in C. apply unified_loop_le in C. exact C.
            * unfold parse_normal_patch in C. apply normal_loop_le in C. exact C.
          + (* the first hunk is on the first line: the body parser consumes it *)
            subst s1. pose proof (found_nonempty _ _ _ _ _ _ HF) as Ne.
            pose proof (body_progress _ _ _ _ HB eq_refl eq_refl Ne) as Lt. cbn [rest] in Lt. lia.
        - subst s2. specialize (F2 eq_refl eq_refl). lia. }
      destruct (poper p) eqn:Ep; try exact A. apply IH. specialize (F3 eq_refl eq_refl). lia. }
    destruct (pfmt p); try exact Go. destruct first; [apply Never_throw; discriminate|apply Never_ret].
  - (* nothing that looks like the start of a hunk: the loop ends *)
    rewrite (F0 eq_refl). cbn [negb andb]. destruct first; [apply Never_throw; discriminate|apply Never_ret].
Qed.

Lemma Never_finalize_writes_from o all : forall ds st, Never (finalize_writes_from o all st ds).
Proof. induction ds as [|d r IH]; intros st; cbn [finalize_writes_from]; pose proof Never_write_now; pose proof Never_ensure; nf. Qed.
Lemma Never_finalize_writes o ds st : Never (finalize_writes o st ds).
Proof. apply Never_finalize_writes_from. Qed.
Lemma Never_finalize_removals ws : forall rs, Never (finalize_removals ws rs).
Proof. induction rs as [|p r IH]; cbn [finalize_removals]; pose proof Never_remove; nf. Qed.

(* the whole run: the model never gives up for lack of fuel, on any patch text, tree and option record *)
Theorem process_patch_fueled o bytes : Never (process_patch o bytes).
Proof.
  unfold process_patch.
  apply Never_bind; [apply Never_lift; unfold format_from_options; rf|]. intros f.
  apply Never_bind; [apply section_loop_fueled; cbn [stream_of rest]; lia|]. intros st.
  apply Never_bind; [apply Never_finalize_writes|]. intros st1.
  apply Never_bind; [apply Never_finalize_removals|]. intros _. apply Never_ret.
Qed.
