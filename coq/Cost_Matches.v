(* Cost_Matches.v — the cost of one line comparison, in character steps, and with it the cost of the locator in
   character steps (Cost_Locate.v counts each call of [Locator.matches] as one; here that call is charged what it does).

   [matches_cost c p ws] is an instrumented copy of [Locator.matches]: 1 for the comparison of the terminators, one
   per pair of characters compared by [str_eqb], and for [matches_ignoring_whitespace] one per pass of its loop and one
   per character looked at by [drop_ws].  Its first component is [matches c p ws]; its second is at most
   2 * (length of c + length of p) + 2.

   With [char_charge ws c p = snd (matches_cost c p ws)] as the charge of Cost_Locate.v the cost of locate_hunk and of the
   loop of apply_patch is bounded by the bound on the number of comparisons times
   2 * (longest line of the file + longest line of the hunks) + 2;
   for a file read with [split_lines] both the number of lines and the longest line are at most the number of bytes. *)
From PatchV Require Import Base Lines Hunk Locator Options Applier Proofs_Ws Proofs_Lines Cost_Locate.

(* ================================================================================================================ *)
(* the instrumented comparison                                                                                      *)
(* ================================================================================================================ *)
Fixpoint str_eqb_cost (a b : list N) : bool * nat :=
  match a, b with
  | [], [] => (true, 0)
  | x :: a', y :: b' => if N.eqb x y then (fst (str_eqb_cost a' b'), S (snd (str_eqb_cost a' b'))) else (false, 1)
  | _, _ => (false, 0)
  end.

Fixpoint drop_ws_cost (s : list N) : list N * nat :=
  match s with
  | c :: r => if is_whitespace c then (fst (drop_ws_cost r), S (snd (drop_ws_cost r))) else (s, 1)
  | [] => ([], 0)
  end.

Definition mws_step_cost (a b : list N) : (bool + (list N * list N)) * nat :=
  match b with
  | [] =>
      match a with
      | [] => (inl true, 1)
      | ca :: ra => if is_whitespace ca then (inl (is_nil (fst (drop_ws_cost ra))), 1 + snd (drop_ws_cost ra))
                    else (inl false, 1)
      end
  | cb :: rb =>
      if is_whitespace cb then
        let b' := drop_ws_cost rb in
        match a with
        | [] => (inl (is_nil (fst b')), 1 + snd b')
        | ca :: ra =>
            if negb (is_whitespace ca) then (inl false, 1 + snd b')
            else let a' := drop_ws_cost ra in
                 (if is_nil (fst a') then inl (is_nil (fst b'))
                  else if is_nil (fst b') then inl false
                  else inr (fst a', fst b'),
                  1 + snd b' + snd a')
        end
      else
        match a with
        | [] => (inl false, 1)
        | ca :: ra => (if N.eqb ca cb then inr (ra, rb) else inl false, 1)
        end
  end.

Fixpoint mws_loop_cost (fuel : nat) (a b : list N) : bool * nat :=
  match fuel with
  | O => (false, 0)
  | S f => match fst (mws_step_cost a b) with
           | inl r => (r, snd (mws_step_cost a b))
           | inr (a', b') => (fst (mws_loop_cost f a' b'), snd (mws_step_cost a b) + snd (mws_loop_cost f a' b'))
           end
  end.
Definition mws_cost (a b : list N) : bool * nat := mws_loop_cost (S (length b)) a b.

Definition matches_cost (l1 l2 : line) (ignore_ws : bool) : bool * nat :=
  let newline_match := newline_eqb (nl l1) (nl l2) in
  let cm := str_eqb_cost (txt l1) (txt l2) in
  if newline_match && fst cm then (true, 1 + snd cm)
  else if negb ignore_ws then (false, 1 + snd cm)
  else if fst cm then (true, 1 + snd cm)
  else (fst (mws_cost (txt l1) (txt l2)), 1 + snd cm + snd (mws_cost (txt l1) (txt l2))).

(* ---- same results ---- *)
Lemma str_eqb_cost_fst : forall a b, fst (str_eqb_cost a b) = str_eqb a b.
Proof.
  induction a as [|x a IH]; intros b; destruct b as [|y b]; cbn [str_eqb_cost str_eqb]; try reflexivity.
  destruct (N.eqb x y); cbn [andb fst]; [apply IH|reflexivity].
Qed.

Lemma drop_ws_cost_fst : forall s, fst (drop_ws_cost s) = drop_ws s.
Proof.
  induction s as [|c r IH]; cbn [drop_ws_cost drop_ws]; [reflexivity|].
  destruct (is_whitespace c); cbn [fst]; [exact IH|reflexivity].
Qed.

Lemma mws_step_cost_fst a b : fst (mws_step_cost a b) = mws_step a b.
Proof.
  unfold mws_step_cost, mws_step. destruct b as [|cb rb].
  - destruct a as [|ca ra]; [reflexivity|]. destruct (is_whitespace ca); cbn [fst]; [rewrite drop_ws_cost_fst|]; reflexivity.
  - destruct (is_whitespace cb).
    + destruct a as [|ca ra]; cbn [fst]; [rewrite drop_ws_cost_fst; reflexivity|].
      destruct (negb (is_whitespace ca)); cbn [fst]; [reflexivity|]. rewrite !drop_ws_cost_fst. reflexivity.
    + destruct a as [|ca ra]; reflexivity.
Qed.

Lemma mws_loop_cost_fst : forall fuel a b, fst (mws_loop_cost fuel a b) = mws_loop fuel a b.
Proof.
  induction fuel as [|f IH]; intros a b; cbn [mws_loop_cost mws_loop]; [reflexivity|].
  rewrite mws_step_cost_fst. destruct (mws_step a b) as [r|[a' b']]; cbn [fst]; [reflexivity|apply IH].
Qed.

Lemma mws_cost_fst a b : fst (mws_cost a b) = matches_ignoring_whitespace a b.
Proof. apply mws_loop_cost_fst. Qed.

Theorem matches_cost_fst c p ws : fst (matches_cost c p ws) = matches c p ws.
Proof.
  unfold matches_cost, matches. rewrite str_eqb_cost_fst.
  destruct (newline_eqb (nl c) (nl p) && str_eqb (txt c) (txt p)); [reflexivity|].
  destruct (negb ws); [reflexivity|].
  destruct (str_eqb (txt c) (txt p)); [reflexivity|]. cbn [fst]. apply mws_cost_fst.
Qed.

(* ---- bounds ---- *)
Lemma str_eqb_cost_le : forall a b, snd (str_eqb_cost a b) <= Nat.min (length a) (length b).
Proof.
  induction a as [|x a IH]; intros b; destruct b as [|y b]; cbn [str_eqb_cost length]; try (cbn [snd]; lia).
  specialize (IH b). destruct (N.eqb x y); cbn [snd]; lia.
Qed.

Lemma drop_ws_cost_le : forall s,
  snd (drop_ws_cost s) <= length s /\ snd (drop_ws_cost s) + length (fst (drop_ws_cost s)) <= length s + 1.
Proof.
  induction s as [|c r IH]; cbn [drop_ws_cost]; [cbn; lia|].
  destruct (is_whitespace c); cbn [fst snd length]; lia.
Qed.

Lemma drop_ws_cost_shorter s : length (fst (drop_ws_cost s)) <= length s.
Proof.
  induction s as [|c r IH]; cbn [drop_ws_cost]; [cbn; lia|].
  destruct (is_whitespace c); cbn [fst length]; lia.
Qed.

(* a pass that ends the loop *)
Lemma mws_step_cost_le a b : snd (mws_step_cost a b) <= length a + length b + 1.
Proof.
  unfold mws_step_cost. destruct b as [|cb rb].
  - destruct a as [|ca ra]; [cbn; lia|].
    pose proof (drop_ws_cost_le ra) as [H _]. destruct (is_whitespace ca); cbn [snd length]; lia.
  - pose proof (drop_ws_cost_le rb) as [Hb _].
    destruct (is_whitespace cb).
    + destruct a as [|ca ra]; [cbn [snd length]; lia|].
      pose proof (drop_ws_cost_le ra) as [Ha _].
      destruct (negb (is_whitespace ca)); cbn [snd length]; lia.
    + destruct a as [|ca ra]; cbn [snd length]; lia.
Qed.

(* a pass that goes on: what it costs is paid for by what it takes off the two strings *)
Lemma mws_step_cost_inr a b a' b' :
  fst (mws_step_cost a b) = inr (a', b') ->
  snd (mws_step_cost a b) + (length a' + 2 * length b') <= length a + 2 * length b.
Proof.
  unfold mws_step_cost. destruct b as [|cb rb].
  - destruct a as [|ca ra]; [discriminate|]. destruct (is_whitespace ca); discriminate.
  - destruct (is_whitespace cb).
    + destruct a as [|ca ra]; [discriminate|].
      destruct (negb (is_whitespace ca)); [discriminate|]. cbn [fst snd].
      pose proof (drop_ws_cost_le ra) as [_ Ha]. pose proof (drop_ws_cost_le rb) as [_ Hb].
      pose proof (drop_ws_cost_shorter rb) as Hs.
      destruct (is_nil (fst (drop_ws_cost ra))); [discriminate|].
      destruct (is_nil (fst (drop_ws_cost rb))); [discriminate|].
      intros [= <- <-]. cbn [length]. lia.
    + destruct a as [|ca ra]; [discriminate|]. cbn [fst snd].
      destruct (N.eqb ca cb); [|discriminate]. intros [= <- <-]. cbn [length]. lia.
Qed.

Lemma mws_loop_cost_le : forall fuel a b, snd (mws_loop_cost fuel a b) <= length a + 2 * length b + 1.
Proof.
  induction fuel as [|f IH]; intros a b; cbn [mws_loop_cost]; [cbn [snd]; lia|].
  pose proof (mws_step_cost_le a b) as Hs.
  destruct (fst (mws_step_cost a b)) as [r|[a' b']] eqn:E; cbn [snd]; [lia|].
  apply mws_step_cost_inr in E. specialize (IH a' b'). lia.
Qed.

Theorem matches_cost_le c p ws :
  snd (matches_cost c p ws) <= 2 * (length (txt c) + length (txt p)) + 2.
Proof.
  unfold matches_cost.
  pose proof (str_eqb_cost_le (txt c) (txt p)) as Hs.
  pose proof (mws_loop_cost_le (S (length (txt p))) (txt c) (txt p)) as Hm. fold (mws_cost (txt c) (txt p)) in Hm.
  destruct (newline_eqb (nl c) (nl p) && fst (str_eqb_cost (txt c) (txt p))); [cbn [snd]; lia|].
  destruct (negb ws); [cbn [snd]; lia|].
  destruct (fst (str_eqb_cost (txt c) (txt p))); cbn [snd]; lia.
Qed.

(* ================================================================================================================ *)
(* the locator in character steps                                                                                   *)
(* ================================================================================================================ *)
Definition char_charge (ws : bool) (c p : line) : nat := snd (matches_cost c p ws).

Definition locate_hunk_chars (content : list line) (h : hunk) (ws : bool) (offset max_fuzz : Z) (lo : nat)
  : option location * nat :=
  locate_hunk_costw (char_charge ws) content h ws offset max_fuzz lo.

Definition apply_patch_chars (o : options) (lines : list line) (p : patch) : res aresult * nat :=
  apply_patch_costw (char_charge (ignore_whitespace o)) o lines p.

(* the longest line *)
Definition maxlen (ls : list line) : nat := fold_right (fun l m => Nat.max (length (txt l)) m) 0 ls.
Definition maxlen_body (b : list pline) : nat := maxlen (map pl b).
Definition maxlen_hunks (hs : list hunk) : nat := fold_right (fun h m => Nat.max (maxlen_body (body h)) m) 0 hs.

Lemma maxlen_In ls : forall c, In c ls -> length (txt c) <= maxlen ls.
Proof.
  induction ls as [|l r IH]; intros c H; [destruct H|].
  cbn [maxlen fold_right]. fold (maxlen r). destruct H as [<-|H]; [lia|]. specialize (IH c H). lia.
Qed.

Lemma maxlen_body_In b p : In p b -> length (txt (pl p)) <= maxlen_body b.
Proof. intros H. unfold maxlen_body. apply maxlen_In. apply in_map. exact H. Qed.

Lemma maxlen_hunks_In hs : forall h, In h hs -> maxlen_body (body h) <= maxlen_hunks hs.
Proof.
  induction hs as [|x r IH]; intros h H; [destruct H|].
  cbn [maxlen_hunks fold_right]. fold (maxlen_hunks r). destruct H as [<-|H]; [lia|]. specialize (IH h H). lia.
Qed.

(* the charge of one comparison between a line of the file and a line of the hunk *)
Definition char_bound (A B : nat) : nat := 2 * (A + B) + 2.

Lemma char_charge_le ws content h :
  forall c p, In c content -> In p (body h) ->
  char_charge ws c (pl p) <= char_bound (maxlen content) (maxlen_body (body h)).
Proof.
  intros c p Hc Hp. unfold char_charge, char_bound.
  pose proof (matches_cost_le c (pl p) ws) as H.
  pose proof (maxlen_In content c Hc) as H1. pose proof (maxlen_body_In (body h) p Hp) as H2. lia.
Qed.

Lemma char_charge_le_hunks ws lines hs :
  charge_le (char_charge ws) (char_bound (maxlen lines) (maxlen_hunks hs)) lines hs.
Proof.
  intros c h p Hc Hh Hp. unfold char_charge, char_bound.
  pose proof (matches_cost_le c (pl p) ws) as H.
  pose proof (maxlen_In lines c Hc) as H1. pose proof (maxlen_body_In (body h) p Hp) as H2.
  pose proof (maxlen_hunks_In hs h Hh) as H3. lia.
Qed.

Theorem locate_hunk_chars_fst content h ws offset max_fuzz lo :
  fst (locate_hunk_chars content h ws offset max_fuzz lo) = locate_hunk content h ws offset max_fuzz lo.
Proof. apply locate_hunk_costw_fst. Qed.

Theorem locate_hunk_chars_le content h ws offset max_fuzz lo :
  snd (locate_hunk_chars content h ws offset max_fuzz lo)
  <= fuzz_levels h max_fuzz *
     ((length content - lo) * (length (old_side (body h)) * char_bound (maxlen content) (maxlen_body (body h)))).
Proof. apply locate_hunk_costw_le_sharp. apply char_charge_le. Qed.

Theorem locate_hunk_chars_le_anyF content h ws offset max_fuzz lo :
  snd (locate_hunk_chars content h ws offset max_fuzz lo)
  <= char_bound (maxlen content) (maxlen_body (body h)) * (length content * ((length (body h) + 1) * length (body h))).
Proof.
  eapply Nat.le_trans; [apply (locate_hunk_costw_le_weight _ _ content h ws offset max_fuzz lo (char_charge_le ws content h))|].
  apply Nat.mul_le_mono_l. apply Nat.mul_le_mono_l. apply hunk_weight_le_sq.
Qed.

Theorem apply_patch_chars_fst o lines p : fst (apply_patch_chars o lines p) = apply_patch o lines p.
Proof. apply apply_patch_costw_fst. Qed.

Theorem apply_patch_chars_le o lines p :
  snd (apply_patch_chars o lines p)
  <= char_bound (maxlen lines) (maxlen_hunks (hunks p))
     * (Z.to_nat (max_fuzz o + 1)%Z * (2 * length lines + 2) * total_lines (hunks p)).
Proof. apply apply_patch_costw_le. apply char_charge_le_hunks. Qed.

Theorem apply_patch_chars_le_anyF o lines p :
  snd (apply_patch_chars o lines p)
  <= char_bound (maxlen lines) (maxlen_hunks (hunks p))
     * (length lines * (2 * ((total_lines (hunks p) + 1) * total_lines (hunks p)))).
Proof. apply apply_patch_costw_le_anyF. apply char_charge_le_hunks. Qed.

(* ================================================================================================================ *)
(* a file read from bytes: as many lines, and as long a line, as bytes at most                                      *)
(* ================================================================================================================ *)
Definition sum_txt (ls : list line) : nat := list_sum (map (fun l => length (txt l)) ls).

Lemma maxlen_cons l r : maxlen (l :: r) = Nat.max (length (txt l)) (maxlen r).
Proof. reflexivity. Qed.

Lemma sum_txt_cons l r : sum_txt (l :: r) = length (txt l) + sum_txt r.
Proof. reflexivity. Qed.

Lemma maxlen_le_sum ls : maxlen ls <= sum_txt ls.
Proof.
  induction ls as [|l r IH]; [cbn; lia|].
  rewrite maxlen_cons, sum_txt_cons. lia.
Qed.

Lemma line_bytes_keep_length l : length (line_bytes MKeep l) = length (txt l) + length (nl_bytes MKeep (nl l)).
Proof. unfold line_bytes. apply app_length. Qed.

Lemma nl_bytes_keep_pos n : n <> NoNL -> 1 <= length (nl_bytes MKeep n).
Proof. destruct n; cbn; intros H; try lia. congruence. Qed.

Lemma lines_bytes_sum_txt ls : sum_txt ls <= length (lines_bytes MKeep ls).
Proof.
  induction ls as [|l r IH]; [cbn; lia|].
  rewrite lines_bytes_cons, app_length, line_bytes_keep_length, sum_txt_cons. lia.
Qed.

Lemma wf_lines_count ls : WfLines ls -> length ls <= length (lines_bytes MKeep ls).
Proof.
  induction 1 as [|l Hl Hn|l l' r Hl Hn Hw IH].
  - cbn. lia.
  - rewrite lines_bytes_cons. cbn [lines_bytes flat_map]. rewrite app_nil_r, line_bytes_keep_length.
    cbn [length].
    destruct (nl l) eqn:En.
    + cbn. lia.
    + cbn. lia.
    + assert (Ht : txt l <> []) by (apply Hn; reflexivity).
      destruct (txt l) as [|x t]; [congruence|]. cbn [length nl_bytes]. lia.
  - rewrite lines_bytes_cons, app_length, line_bytes_keep_length.
    pose proof (nl_bytes_keep_pos (nl l) Hn) as Hp.
    change (length (l :: l' :: r)) with (S (length (l' :: r))). lia.
Qed.

Theorem split_lines_sizes bytes :
  length (split_lines bytes) <= length bytes /\ maxlen (split_lines bytes) <= length bytes.
Proof.
  pose proof (wf_lines_count (split_lines bytes) (split_lines_wf bytes)) as H.
  pose proof (lines_bytes_sum_txt (split_lines bytes)) as Hs.
  rewrite split_lines_roundtrip in H, Hs. pose proof (maxlen_le_sum (split_lines bytes)) as Hm. lia.
Qed.

(* the locator on a file of n bytes, in terms of n and of the hunk alone *)
Theorem locate_hunk_chars_bytes bytes h ws offset max_fuzz lo :
  snd (locate_hunk_chars (split_lines bytes) h ws offset max_fuzz lo)
  <= fuzz_levels h max_fuzz *
     (length bytes * (length (body h) * char_bound (length bytes) (maxlen_body (body h)))).
Proof.
  eapply Nat.le_trans; [apply locate_hunk_chars_le|].
  destruct (split_lines_sizes bytes) as [H1 H2].
  pose proof (old_side_length_le (body h)) as Ho.
  apply Nat.mul_le_mono_l. apply Nat.mul_le_mono; [lia|]. apply Nat.mul_le_mono; [exact Ho|].
  unfold char_bound. lia.
Qed.

Theorem apply_patch_chars_bytes o bytes p :
  snd (apply_patch_chars o (split_lines bytes) p)
  <= char_bound (length bytes) (maxlen_hunks (hunks p))
     * (Z.to_nat (max_fuzz o + 1)%Z * (2 * length bytes + 2) * total_lines (hunks p)).
Proof.
  eapply Nat.le_trans; [apply apply_patch_chars_le|].
  destruct (split_lines_sizes bytes) as [H1 H2].
  apply Nat.mul_le_mono; [unfold char_bound; lia|].
  apply Nat.mul_le_mono_r. apply Nat.mul_le_mono_l. lia.
Qed.
