(* Proofs_Oracle.v — the model satisfies the executable oracles (so an oracle failure on the
   implementation is a departure from proved behaviour, never an artefact of the oracle). *)
From PatchV Require Import Base Lines Hunk Locator Spec_Locate Oracle Proofs_Base Proofs_Ws Proofs_Locate.

Definition obs_of (l : option location) : obs_loc :=
  match l with Some x => Some (lline x, lfuzz x, loffset x) | None => None end.

Lemma adm_any_spec ws f b lo n :
  adm_any ws f b lo n = true <->
  exists fz pos, fz < n /\ lo <= pos < length f /\ Admissible ws f b lo pos fz.
Proof.
  unfold adm_any. rewrite existsb_exists. split.
  - intros (fz & Hfz & H). apply existsb_exists in H. destruct H as (pos & Hpos & H).
    apply in_seq in Hfz, Hpos. apply admissibleb_spec in H. exists fz, pos. split; [lia|split; [lia|exact H]].
  - intros (fz & pos & Hfz & Hpos & H). exists fz. split; [apply in_seq; lia|].
    apply existsb_exists. exists pos. split; [apply in_seq; lia|]. apply admissibleb_spec. exact H.
Qed.

Lemma adm_any_false ws f b lo n :
  (forall fz pos, fz < n -> lo <= pos < length f -> ~ Admissible ws f b lo pos fz) -> adm_any ws f b lo n = false.
Proof.
  intros H. destruct (adm_any ws f b lo n) eqn:E; [|reflexivity]. exfalso.
  apply adm_any_spec in E. destruct E as (fz & pos & A & B & C). exact (H fz pos A B C).
Qed.

Theorem model_meets_spec_C02 ws f h off F lo :
  spec_C02_locate ws f h off F lo (obs_of (locate_hunk f h ws off F lo)) = true.
Proof.
  destruct (locate_hunk f h ws off F lo) as [loc|] eqn:E; [|reflexivity].
  cbn [obs_of spec_C02_locate]. destruct (Z.eqb (rcount (oldr h)) 0) eqn:Hc.
  - apply Z.eqb_eq in Hc. destruct (locate_insertion _ _ _ _ _ _ _ E Hc) as (H1 & H2 & H3 & H4).
    rewrite H2, H3, H4. rewrite !Z.eqb_refl. rewrite Nat.eqb_refl.
    rewrite !andb_true_iff, !Nat.leb_le. repeat split; lia.
  - apply Z.eqb_neq in Hc. destruct (locate_sound _ _ _ _ _ _ _ E Hc) as (H1 & H2 & H3 & H4).
    apply admissibleb_spec in H1. rewrite H1, H4, Z.eqb_refl. cbn [andb].
    rewrite !andb_true_iff, Z.leb_le, Nat.ltb_lt. repeat split; lia.
Qed.

Theorem model_meets_spec_C03 ws f h off F lo :
  spec_C03_locate ws f h off F lo (obs_of (locate_hunk f h ws off F lo)) = true.
Proof.
  unfold spec_C03_locate. destruct (Z.eqb (rcount (oldr h)) 0) eqn:Hc.
  - apply Z.eqb_eq in Hc.
    destruct (insertion_ok f h off lo) eqn:Hi.
    + unfold insertion_ok in Hi. rewrite !andb_true_iff, !Z.leb_le in Hi. destruct Hi as [H1 H2].
      rewrite (locate_insertion_complete f h ws off F lo Hc); [|lia].
      cbn [obs_of lline lfuzz loffset]. rewrite Z2Nat.id by lia. rewrite Z.eqb_refl. reflexivity.
    + destruct (locate_hunk f h ws off F lo) as [loc|] eqn:E; [|reflexivity]. exfalso.
      destruct (locate_insertion _ _ _ _ _ _ _ E Hc) as (H1 & _ & _ & H4).
      unfold insertion_ok in Hi. apply andb_false_iff in Hi. destruct Hi as [Hi|Hi]; apply Z.leb_gt in Hi; lia.
  - apply Z.eqb_neq in Hc.
    destruct (locate_hunk f h ws off F lo) as [loc|] eqn:E; cbn [obs_of].
    + apply andb_true_iff. split.
      * apply negb_true_iff. apply adm_any_false. intros fz pos Hfz Hpos A.
        pose proof (locate_min_fuzz _ _ _ _ _ _ _ _ _ E Hc A ltac:(lia)). lia.
      * cbv zeta. destruct (_ && _) eqn:G; [|reflexivity].
        rewrite !andb_true_iff, !Z.leb_le, Z.ltb_lt in G. destruct G as [[[G1 G2] G3] G4].
        apply admissibleb_spec in G4.
        rewrite (locate_exact_at_stated f h ws off F lo (Z.to_nat (stated_pos h off)) Hc G4) in E; [|lia|lia|lia].
        injection E as <-. cbn. rewrite Nat.eqb_refl. reflexivity.
    + apply negb_true_iff. apply adm_any_false. intros fz pos Hfz Hpos A.
      apply (locate_complete f h ws off F lo pos fz Hc A); [|lia|exact E].
      unfold levels_of in Hfz. lia.
Qed.
