(* Properties_DriverMore.v — driver-level statements for C06 (-N), C18 (the one backup of a series of deferred writes) and
   C17 (modes across a series of git sections for one file).  Statements only; proofs in Proofs_DriverMore.v. *)
From PatchV Require Import Base Lines Hunk Locator Formatter Options Applier LineParser Parser World Driver
     Spec_Locate Spec_Apply Proofs_Conf Proofs_Reverse Proofs_Reapply Proofs_DriverMore.

(* ================= (A) C06 through the driver: -N on an already applied patch ================= *)

(* apply level, total: under -N (no -f, no -D, not --verbose, rejects written in unified format) a patch whose first hunk looks
   reversed cannot make apply_patch fail; the lines come out unchanged, every hunk is counted as failed, the run is marked
   skipped, the message and the reject bytes are exactly these *)
Theorem apply_ignored_total : forall o f p h hs,
  define_macro o = [] -> verbose o = false -> force o = false -> ignore_reversed o = true ->
  should_write_as_unified o p = true ->
  hunks (effective o p) = h :: hs ->
  looks_reversed o (effective o p) f h ->
  exists r, apply_patch o f p = Ok r /\ r_out r = f /\ r_failed r = length (hunks p) /\ r_skipped r = true /\
            r_msgs r = skipping_msg o /\
            r_rej r = skipped_rejects (effective o p) (h :: hs) /\
            length (hunks (r_patch r)) = length (hunks p).
Proof. exact Proofs_DriverMore.apply_ignored_total. Qed.
Print Assumptions apply_ignored_total.

(* One change section for a regular file f of the working directory which already holds the patched content, run with -N
   (ignoring_options: file chosen from the patch, no -o, no -r, no --dry-run, no -D, not --verbose, no -f, -N; -b and
   --backup-if-mismatch are free), no reject file there: the section performs exactly two operations, the opening of f for
   reading and the creation of f.rej; the tree afterwards is the tree before with f.rej added (permissions 0666 & ~umask);
   the state has the failure flag set (exit status 1) and the two messages. *)
Theorem section_ignored_N : forall o p f h hs st s w data mode,
  ignoring_options o -> should_write_as_unified o p = true ->
  poper p = OpChange -> prereq p = [] -> old_path p = f -> new_path p = f -> f <> devnull -> f <> [] -> ~ In 47%N f ->
  hunks (effective o p) = h :: hs -> looks_reversed o (effective o p) (split_lines data) h ->
  fault w = None -> deferred_writes st = [] ->
  lookup (fs w) f = Some (Reg data mode) -> (mode < 4096)%N -> owner_r mode = true ->
  (N.land mode write_mask <> 0%N \/ read_only o <> ROFail) ->
  lookup (fs w) (f ++ bs ".rej") = None ->
  let rej := skipped_rejects (effective o p) (h :: hs) in
  let st' := ignored_state st (skipping_msg o) (length (hunks p)) (length (hunks p)) in
  exists w',
    process_section o st false p s w = (Ok (st', s), w') /\
    fs w' = upd (fs w) (f ++ bs ".rej") (Reg rej (created_mode (umask w))) /\
    trace w' = trace w ++ [OOpenRead f; OWrite (f ++ bs ".rej") rej] /\
    fault w' = None /\ umask w' = umask w /\ stdout_data w' = stdout_data w.
Proof. exact Proofs_DriverMore.section_ignored_N. Qed.
Print Assumptions section_ignored_N.

(* the same when a writable regular reject file is there already: it is overwritten and keeps its mode *)
Theorem section_ignored_N_over : forall o p f h hs st s w data mode rdata rmode,
  ignoring_options o -> should_write_as_unified o p = true ->
  poper p = OpChange -> prereq p = [] -> old_path p = f -> new_path p = f -> f <> devnull -> f <> [] -> ~ In 47%N f ->
  hunks (effective o p) = h :: hs -> looks_reversed o (effective o p) (split_lines data) h ->
  fault w = None -> deferred_writes st = [] ->
  lookup (fs w) f = Some (Reg data mode) -> (mode < 4096)%N -> owner_r mode = true ->
  (N.land mode write_mask <> 0%N \/ read_only o <> ROFail) ->
  lookup (fs w) (f ++ bs ".rej") = Some (Reg rdata rmode) -> owner_w rmode = true ->
  let rej := skipped_rejects (effective o p) (h :: hs) in
  let st' := ignored_state st (skipping_msg o) (length (hunks p)) (length (hunks p)) in
  exists w',
    process_section o st false p s w = (Ok (st', s), w') /\
    fs w' = upd (fs w) (f ++ bs ".rej") (Reg rej rmode) /\
    trace w' = trace w ++ [OOpenRead f; OWrite (f ++ bs ".rej") rej] /\
    fault w' = None /\ umask w' = umask w /\ stdout_data w' = stdout_data w.
Proof. exact Proofs_DriverMore.section_ignored_N_over. Qed.
Print Assumptions section_ignored_N_over.

(* in the words of the claim: f is byte-identical (and keeps its mode), nothing is at its backup name that was not there,
   every entry but f.rej is what it was, f.rej starts with the reject header, the operations are one read of f and one write
   of f.rej, the failure flag is set, "n out of n hunks ignored" is reported after the "Skipping patch." message *)
Theorem section_ignored_N_frame : forall o p f h hs st s w data mode,
  ignoring_options o -> should_write_as_unified o p = true ->
  poper p = OpChange -> prereq p = [] -> old_path p = f -> new_path p = f -> f <> devnull -> f <> [] -> ~ In 47%N f ->
  hunks (effective o p) = h :: hs -> looks_reversed o (effective o p) (split_lines data) h ->
  fault w = None -> deferred_writes st = [] ->
  lookup (fs w) f = Some (Reg data mode) -> (mode < 4096)%N -> owner_r mode = true ->
  (N.land mode write_mask <> 0%N \/ read_only o <> ROFail) ->
  lookup (fs w) (f ++ bs ".rej") = None ->
  exists st' w' rest,
    process_section o st false p s w = (Ok (st', s), w') /\
    lookup (fs w') f = Some (Reg data mode) /\
    (backup_name o f <> f ++ bs ".rej" -> lookup (fs w') (backup_name o f) = lookup (fs w) (backup_name o f)) /\
    (forall q, q <> f ++ bs ".rej" -> lookup (fs w') q = lookup (fs w) q) /\
    lookup (fs w') (f ++ bs ".rej") =
      Some (Reg (write_patch_header_as_unified (effective o p) ++ rest) (created_mode (umask w))) /\
    Forall (fun op => op = OOpenRead f \/ exists d, op = OWrite (f ++ bs ".rej") d) (skipn (length (trace w)) (trace w')) /\
    had_failure st' = true /\ backed_up st' = backed_up st /\ deferred_writes st' = [] /\
    deferred_removals st' = deferred_removals st /\
    events st' = events st ++ skipping_msg o
                 ++ inform_hunks_failed (bs "ignored") (length (hunks p)) (length (hunks p)) ++ [10%N] /\
    fault w' = None.
Proof. exact Proofs_DriverMore.section_ignored_N_frame. Qed.
Print Assumptions section_ignored_N_frame.

(* ================= (C) C18: the one backup of a series of deferred writes ================= *)

(* two deferred writes to one regular file f of the working directory, at least one of which asks for the backup, none
   taken for f yet in this run, nothing at the backup name: the backup holds the ORIGINAL bytes and mode (not what the
   first write left), f holds the data of the second write, everything else is untouched *)
Theorem series_backup_two_gen : forall o st w f c0 mode0 data1 data2 nn1 nn2 bk1 bk2 cf1 cf2 pa1 pa2,
  let d1 := mkDef data1 f nn1 bk1 cf1 pa1 in
  let d2 := mkDef data2 f nn2 bk2 cf2 pa2 in
  let m1 := mode_after_write pa1 (created_mode (umask w)) in
  bk1 || bk2 = true ->
  fault w = None -> f <> [] -> ~ In 47%N f -> ~ In 47%N (backup_name o f) ->
  lookup (fs w) f = Some (Reg c0 mode0) -> lookup (fs w) (backup_name o f) = None ->
  existsb (str_eqb (backup_name o f)) (backed_up st) = false ->
  owner_w (mode_before_write cf2 m1) = true ->
  exists w',
    finalize_writes o st [d1; d2] w = (Ok (with_backed_up st (backup_name o f)), w') /\
    lookup (fs w') (backup_name o f) = Some (Reg c0 mode0) /\
    lookup (fs w') f = Some (Reg data2 (mode_after_write pa2 (mode_before_write cf2 m1))) /\
    (forall q, q <> f -> q <> backup_name o f -> lookup (fs w') q = lookup (fs w) q) /\
    fault w' = None /\ umask w' = umask w.
Proof. exact Proofs_DriverMore.series_backup_two_gen. Qed.
Print Assumptions series_backup_two_gen.

(* the case of the claim: only the SECOND write asks for the backup *)
Theorem series_backup_two : forall o st w f c0 mode0 data1 data2 nn1 nn2 cf1 cf2 pa1 pa2,
  let d1 := mkDef data1 f nn1 false cf1 pa1 in
  let d2 := mkDef data2 f nn2 true cf2 pa2 in
  let m1 := mode_after_write pa1 (created_mode (umask w)) in
  fault w = None -> f <> [] -> ~ In 47%N f -> ~ In 47%N (backup_name o f) ->
  lookup (fs w) f = Some (Reg c0 mode0) -> lookup (fs w) (backup_name o f) = None ->
  existsb (str_eqb (backup_name o f)) (backed_up st) = false ->
  owner_w (mode_before_write cf2 m1) = true ->
  exists w',
    finalize_writes o st [d1; d2] w = (Ok (with_backed_up st (backup_name o f)), w') /\
    lookup (fs w') (backup_name o f) = Some (Reg c0 mode0) /\
    lookup (fs w') f = Some (Reg data2 (mode_after_write pa2 (mode_before_write cf2 m1))) /\
    (forall q, q <> f -> q <> backup_name o f -> lookup (fs w') q = lookup (fs w) q) /\
    fault w' = None /\ umask w' = umask w.
Proof. exact Proofs_DriverMore.series_backup_two. Qed.
Print Assumptions series_backup_two.

(* any series, any world, any injected failure: when some deferred write to f asks for a backup, the backup of f has not been
   taken yet in this run, and f is not itself the backup name of a destination of the series, every write to f that
   finalize_writes performs comes after the operation that takes the backup of f (the rename of f to its backup name, or,
   when f is not there, the creation of the empty backup file) *)
Theorem backup_before_first_write : forall o st ds f w,
  (exists d, In d ds /\ d_dest d = f /\ d_backup d = true) ->
  (forall d, In d ds -> backup_name o (d_dest d) <> f) ->
  existsb (str_eqb (backup_name o f)) (backed_up st) = false ->
  exists ext, trace (snd (finalize_writes o st ds w)) = trace w ++ ext /\
    forall pre data post, ext = pre ++ OWrite f data :: post -> Exists (is_backup_of o f) pre.
Proof. exact Proofs_DriverMore.backup_before_first_write. Qed.
Print Assumptions backup_before_first_write.

(* ================= (B) C17: modes across git sections ================= *)

(* one git change section and the end of the run: the new content, and the permissions of the mode header when there is one,
   else those the file had *)
Theorem git_section_mode : forall o p f A B st s w data mode,
  plain_options o -> reverse_patch_opt o = false ->
  pfmt p = FGit -> poper p = OpChange -> prereq p = [] -> old_path p = f -> new_path p = f ->
  is_symlink_mode (new_mode p) = false ->
  f <> devnull -> f <> [] -> ~ In 47%N f ->
  Conforming A B (hunks p) ->
  (remove_empty_files o <> OBYes \/ lines_bytes (newline_output o) B <> []) ->
  (Z.of_nat (length A) < MAXZ)%Z ->
  fault w = None -> deferred_writes st = [] -> deferred_removals st = [] ->
  lookup (fs w) f = Some (Reg data mode) -> (mode < 4096)%N -> owner_r mode = true -> owner_w mode = true ->
  split_lines data = A ->
  exists st1 w1 st2 w2 w3,
    process_section o st false p s w = (Ok (st1, s), w1) /\ fs w1 = fs w /\
    finalize_writes o st1 (deferred_writes st1) w1 = (Ok st2, w2) /\
    finalize_removals (deferred_writes st1) (deferred_removals st1) w2 = (Ok tt, w3) /\
    lookup (fs w3) f = Some (Reg (lines_bytes (newline_output o) B)
                                 (if N.eqb (new_mode p) 0 then mode else N.land (new_mode p) 4095)) /\
    (forall q, q <> f -> lookup (fs w3) q = lookup (fs w) q) /\
    had_failure st2 = had_failure st /\ events st2 = events st /\ fault w3 = None /\ umask w3 = umask w.
Proof. exact Proofs_DriverMore.git_section_mode. Qed.
Print Assumptions git_section_mode.

(* what a later section of the run sees of a file with a write pending: content and permissions of the pending write *)
Theorem section_git_next : forall o p f X Y st s w d pm ndata nmode,
  git_options o ->
  pfmt p = FGit -> poper p = OpChange -> prereq p = [] -> old_path p = f -> new_path p = f ->
  is_symlink_mode (new_mode (effective o p)) = false ->
  f <> devnull -> f <> [] -> ~ In 47%N f ->
  Conforming X Y (hunks (effective o p)) ->
  (remove_empty_files o <> OBYes \/ lines_bytes (newline_output o) Y <> []) ->
  (Z.of_nat (length X) < MAXZ)%Z ->
  find (fun x => str_eqb (d_dest x) f) (rev (deferred_writes st)) = Some d ->
  d_newname d = false -> d_perm_after d = Some pm -> (pm < 4096)%N ->
  (N.land pm write_mask <> 0%N \/ read_only o <> ROFail) ->
  lookup (fs w) f = Some (Reg ndata nmode) ->
  split_lines (d_data d) = X ->
  process_section o st false p s w =
  (Ok (deferring_state st (mkDef (lines_bytes (newline_output o) Y) f false (save_backup o)
                                 (if N.eqb (N.land pm write_mask) 0 then Some (N.lor pm write_mask) else None)
                                 (perm_after_of (new_mode (effective o p)) pm)), s), w).
Proof. exact Proofs_DriverMore.section_git_next. Qed.
Print Assumptions section_git_next.

(* the series: "new mode" in the first section, none in the second; the second section's deferred write sets the mode of
   the header again (not the mode on disk while the sections ran), and that is the mode at the end of the run *)
Theorem git_series_mode : forall o p1 p2 f A0 A1 A2 st s1 s2 w data m0,
  plain_options o -> reverse_patch_opt o = false ->
  pfmt p1 = FGit -> poper p1 = OpChange -> prereq p1 = [] -> old_path p1 = f -> new_path p1 = f ->
  new_mode p1 <> 0%N -> is_symlink_mode (new_mode p1) = false -> owner_w (N.land (new_mode p1) 4095) = true ->
  pfmt p2 = FGit -> poper p2 = OpChange -> prereq p2 = [] -> old_path p2 = f -> new_path p2 = f ->
  new_mode p2 = 0%N ->
  f <> devnull -> f <> [] -> ~ In 47%N f ->
  Conforming A0 A1 (hunks p1) -> Conforming A1 A2 (hunks p2) ->
  split_lines (lines_bytes (newline_output o) A1) = A1 ->
  (remove_empty_files o <> OBYes \/
   (lines_bytes (newline_output o) A1 <> [] /\ lines_bytes (newline_output o) A2 <> [])) ->
  (Z.of_nat (length A0) < MAXZ)%Z -> (Z.of_nat (length A1) < MAXZ)%Z ->
  fault w = None -> deferred_writes st = [] -> deferred_removals st = [] ->
  lookup (fs w) f = Some (Reg data m0) -> (m0 < 4096)%N -> owner_r m0 = true -> owner_w m0 = true ->
  split_lines data = A0 ->
  let pm1 := N.land (new_mode p1) 4095 in
  exists st1 w1 st2 w2 st3 w3 w4 d1 d2,
    process_section o st false p1 s1 w = (Ok (st1, s1), w1) /\ fs w1 = fs w /\
    process_section o st1 false p2 s2 w1 = (Ok (st2, s2), w2) /\ fs w2 = fs w /\
    deferred_writes st2 = [d1; d2] /\ d_perm_after d1 = Some pm1 /\ d_perm_after d2 = Some pm1 /\
    finalize_writes o st2 (deferred_writes st2) w2 = (Ok st3, w3) /\
    finalize_removals (deferred_writes st2) (deferred_removals st2) w3 = (Ok tt, w4) /\
    lookup (fs w4) f = Some (Reg (lines_bytes (newline_output o) A2) pm1) /\
    (forall q, q <> f -> lookup (fs w4) q = lookup (fs w) q) /\
    had_failure st3 = had_failure st /\ events st3 = events st /\ fault w4 = None /\ umask w4 = umask w.
Proof. exact Proofs_DriverMore.git_series_mode. Qed.
Print Assumptions git_series_mode.

(* the same series under -b (C18 and C17 together): one backup, taken before the first of the two deferred writes; it holds
   the content and the mode f had before the run *)
Theorem git_series_backup : forall o p1 p2 f A0 A1 A2 st s1 s2 w data m0,
  git_options o -> save_backup o = true -> reverse_patch_opt o = false ->
  pfmt p1 = FGit -> poper p1 = OpChange -> prereq p1 = [] -> old_path p1 = f -> new_path p1 = f ->
  new_mode p1 <> 0%N -> is_symlink_mode (new_mode p1) = false -> owner_w (N.land (new_mode p1) 4095) = true ->
  pfmt p2 = FGit -> poper p2 = OpChange -> prereq p2 = [] -> old_path p2 = f -> new_path p2 = f ->
  new_mode p2 = 0%N ->
  f <> devnull -> f <> [] -> ~ In 47%N f -> ~ In 47%N (backup_name o f) ->
  Conforming A0 A1 (hunks p1) -> Conforming A1 A2 (hunks p2) ->
  split_lines (lines_bytes (newline_output o) A1) = A1 ->
  (remove_empty_files o <> OBYes \/
   (lines_bytes (newline_output o) A1 <> [] /\ lines_bytes (newline_output o) A2 <> [])) ->
  (Z.of_nat (length A0) < MAXZ)%Z -> (Z.of_nat (length A1) < MAXZ)%Z ->
  fault w = None -> deferred_writes st = [] -> deferred_removals st = [] ->
  existsb (str_eqb (backup_name o f)) (backed_up st) = false ->
  lookup (fs w) f = Some (Reg data m0) -> (m0 < 4096)%N -> owner_r m0 = true ->
  (N.land m0 write_mask <> 0%N \/ read_only o <> ROFail) ->
  lookup (fs w) (backup_name o f) = None ->
  split_lines data = A0 ->
  let pm1 := N.land (new_mode p1) 4095 in
  exists st1 w1 st2 w2 st3 w3 w4,
    process_section o st false p1 s1 w = (Ok (st1, s1), w1) /\ fs w1 = fs w /\
    process_section o st1 false p2 s2 w1 = (Ok (st2, s2), w2) /\ fs w2 = fs w /\
    finalize_writes o st2 (deferred_writes st2) w2 = (Ok st3, w3) /\
    finalize_removals (deferred_writes st2) (deferred_removals st2) w3 = (Ok tt, w4) /\
    lookup (fs w4) (backup_name o f) = Some (Reg data m0) /\
    lookup (fs w4) f = Some (Reg (lines_bytes (newline_output o) A2) pm1) /\
    (forall q, q <> f -> q <> backup_name o f -> lookup (fs w4) q = lookup (fs w) q) /\
    had_failure st3 = had_failure st /\ events st3 = events st /\ backed_up st3 = backup_name o f :: backed_up st /\
    fault w4 = None /\ umask w4 = umask w.
Proof. exact Proofs_DriverMore.git_series_backup. Qed.
Print Assumptions git_series_backup.

(* ---------- non-vacuity: the hypotheses hold on concrete instances, and the runs evaluate to what is stated ---------- *)
Local Open Scope string_scope.
Definition dm_nl : list N := [10%N].
Definition dm_l (s : String.string) := mkLine (bs s) LF.
(* b = -b, n = -N; the patch is read from p.diff in the whole-program runs *)
Definition dm_o (b n : bool) :=
  mkOptions b false [] [] false (bs "p.diff") false false n [] (-1) 2 false [] [] false false false false false false false false
            OBUnset OBUnset MNative RFDefault ROWarn QSUnset [] [].
Definition dm_st := mkDS false [] [] [] [].
Definition dm_s := stream_of [].
Definition dm_A0 := [dm_l "a"; dm_l "b"].
Definition dm_A1 := [dm_l "a"; dm_l "B"; dm_l "c"].
Definition dm_A2 := [dm_l "a"; dm_l "B"; dm_l "C"].
Definition dm_data0 := bs "a" ++ dm_nl ++ bs "b" ++ dm_nl.
Definition dm_data1 := bs "a" ++ dm_nl ++ bs "B" ++ dm_nl ++ bs "c" ++ dm_nl.
Definition dm_data2 := bs "a" ++ dm_nl ++ bs "B" ++ dm_nl ++ bs "C" ++ dm_nl.
Definition dm_h1 := mkHunk (mkRange 1 2) (mkRange 1 3)
  [mkPL Ctx (dm_l "a"); mkPL Del (dm_l "b"); mkPL Add (dm_l "B"); mkPL Add (dm_l "c")].
Definition dm_h2 := mkHunk (mkRange 1 3) (mkRange 1 3)
  [mkPL Ctx (dm_l "a"); mkPL Ctx (dm_l "B"); mkPL Del (dm_l "c"); mkPL Add (dm_l "C")].
Definition dm_other : list N * node := (bs "other", Reg (bs "x") 256).
Definition dm_w (data : list N) := mkWorld [dm_other; (bs "f", Reg data 420)] 18 [] None [].

Lemma dm_conf1 : Conforming dm_A0 dm_A1 [dm_h1].
Proof. unfold Conforming. apply (Conf_cons 0 0 [] dm_h1 [] [] []); try reflexivity; [discriminate|constructor]. Qed.
Lemma dm_conf2 : Conforming dm_A1 dm_A2 [dm_h2].
Proof. unfold Conforming. apply (Conf_cons 0 0 [] dm_h2 [] [] []); try reflexivity; [discriminate|constructor]. Qed.

Ltac dm_noslash := let H := fresh "H" in vm_compute; intros H; repeat (destruct H as [H|H]; [discriminate H|]); exact H.
Ltac dm_side := first [ reflexivity | discriminate | exact dm_conf1 | exact dm_conf2
                      | (vm_compute; reflexivity) | (vm_compute; discriminate) | dm_noslash
                      | (left; discriminate) | (right; discriminate)
                      | (left; vm_compute; discriminate) | (right; vm_compute; discriminate)
                      | (left; reflexivity) | (right; vm_compute; reflexivity) ].

(* (A): f already holds the patched content; -N *)
Definition dm_pu := mkPatch FUnified OpChange [] [] (bs "f") (bs "f") [] [] 0 0 [dm_h1].

Lemma dm_ignoring : ignoring_options (dm_o false true).
Proof. unfold ignoring_options. repeat split; reflexivity. Qed.

Lemma dm_looks_reversed : looks_reversed (dm_o false true) (effective (dm_o false true) dm_pu) (split_lines dm_data1) dm_h1.
Proof. split; [vm_compute; reflexivity|left; vm_compute; reflexivity]. Qed.

Example section_ignored_N_nonvacuous :
  exists st' w' rest,
    process_section (dm_o false true) dm_st false dm_pu dm_s (dm_w dm_data1) = (Ok (st', dm_s), w') /\
    lookup (fs w') (bs "f") = Some (Reg dm_data1 420) /\
    (backup_name (dm_o false true) (bs "f") <> bs "f" ++ bs ".rej" ->
     lookup (fs w') (backup_name (dm_o false true) (bs "f")) = lookup (fs (dm_w dm_data1)) (backup_name (dm_o false true) (bs "f"))) /\
    (forall q, q <> bs "f" ++ bs ".rej" -> lookup (fs w') q = lookup (fs (dm_w dm_data1)) q) /\
    lookup (fs w') (bs "f" ++ bs ".rej") =
      Some (Reg (write_patch_header_as_unified (effective (dm_o false true) dm_pu) ++ rest) (created_mode (umask (dm_w dm_data1)))) /\
    Forall (fun op => op = OOpenRead (bs "f") \/ exists d, op = OWrite (bs "f" ++ bs ".rej") d)
           (skipn (length (trace (dm_w dm_data1))) (trace w')) /\
    had_failure st' = true /\ backed_up st' = backed_up dm_st /\ deferred_writes st' = [] /\
    deferred_removals st' = deferred_removals dm_st /\
    events st' = events dm_st ++ skipping_msg (dm_o false true)
                 ++ inform_hunks_failed (bs "ignored") (length (hunks dm_pu)) (length (hunks dm_pu)) ++ [10%N] /\
    fault w' = None.
Proof.
  apply (section_ignored_N_frame (dm_o false true) dm_pu (bs "f") dm_h1 [] dm_st dm_s (dm_w dm_data1) dm_data1 420);
    try exact dm_ignoring; try exact dm_looks_reversed; dm_side.
Qed.

Definition dm_rej := bs "--- f" ++ dm_nl ++ bs "+++ f" ++ dm_nl ++ bs "@@ -1,2 +1,3 @@" ++ dm_nl
  ++ bs " a" ++ dm_nl ++ bs "-b" ++ dm_nl ++ bs "+B" ++ dm_nl ++ bs "+c" ++ dm_nl.

Example section_ignored_N_run :
  let r := process_section (dm_o true true) dm_st false dm_pu dm_s (dm_w dm_data1) in
  (exists st', fst r = Ok (st', dm_s) /\ had_failure st' = true /\
               events st' = bs "Reversed (or previously applied) patch detected!  Skipping patch." ++ dm_nl
                            ++ bs "1 out of 1 hunk ignored" ++ dm_nl) /\
  fs (snd r) = [(bs "f.rej", Reg dm_rej 420); dm_other; (bs "f", Reg dm_data1 420)] /\
  trace (snd r) = [OOpenRead (bs "f"); OWrite (bs "f.rej") dm_rej].
Proof. vm_compute. split; [eexists; repeat split; reflexivity|split; reflexivity]. Qed.

(* the whole program (run_patch: options as parsed, patch text read from p.diff and parsed by the model's parser), with -b -N *)
Definition dm_udiff := dm_rej.
Example whole_program_ignored :
  let w := mkWorld [(bs "p.diff", Reg dm_udiff 420); (bs "f", Reg dm_data1 384)] 18 [] None [] in
  let r := run_patch (dm_o true true) [] w in
  rr_exit r = 1 /\ lookup (fs (rr_world r)) (bs "f") = Some (Reg dm_data1 384) /\
  lookup (fs (rr_world r)) (bs "f.orig") = None /\ lookup (fs (rr_world r)) (bs "f.rej") = Some (Reg dm_rej 420) /\
  trace (rr_world r) = [OOpenRead (bs "p.diff"); OOpenRead (bs "f"); OWrite (bs "f.rej") dm_rej].
Proof. vm_compute. repeat split; reflexivity. Qed.

(* (C): two deferred writes to f, only the second asks for the backup *)
Example series_backup_two_nonvacuous :
  let d1 := mkDef (bs "one") (bs "f") false false None (Some 420%N) in
  let d2 := mkDef (bs "two") (bs "f") false true None (Some 493%N) in
  exists w',
    finalize_writes (dm_o false false) dm_st [d1; d2] (dm_w dm_data0)
      = (Ok (with_backed_up dm_st (backup_name (dm_o false false) (bs "f"))), w') /\
    lookup (fs w') (backup_name (dm_o false false) (bs "f")) = Some (Reg dm_data0 420) /\
    lookup (fs w') (bs "f") = Some (Reg (bs "two") 493) /\
    (forall q, q <> bs "f" -> q <> backup_name (dm_o false false) (bs "f") -> lookup (fs w') q = lookup (fs (dm_w dm_data0)) q) /\
    fault w' = None /\ umask w' = umask (dm_w dm_data0).
Proof.
  cbv zeta.
  apply (series_backup_two (dm_o false false) dm_st (dm_w dm_data0) (bs "f") dm_data0 420 (bs "one") (bs "two") false false
                           None None (Some 420%N) (Some 493%N)); dm_side.
Qed.

Example series_backup_two_run :
  let d1 := mkDef (bs "one") (bs "f") false false None (Some 420%N) in
  let d2 := mkDef (bs "two") (bs "f") false true None (Some 493%N) in
  let r := finalize_writes (dm_o false false) dm_st [d1; d2] (dm_w dm_data0) in
  lookup (fs (snd r)) (bs "f.orig") = Some (Reg dm_data0 420) /\ lookup (fs (snd r)) (bs "f") = Some (Reg (bs "two") 493) /\
  trace (snd r) = [ORename (bs "f") (bs "f.orig"); OWrite (bs "f") (bs "one"); OChmod (bs "f") 420;
                   OWrite (bs "f") (bs "two"); OChmod (bs "f") 493].
Proof. vm_compute. repeat split; reflexivity. Qed.

(* the trace statement on a series over three names; the two writes to f are not adjacent, and only the second asks for
   the backup: it is taken before the first *)
Example backup_before_first_write_nonvacuous :
  let ds := [mkDef (bs "G") (bs "g") false false None None; mkDef (bs "one") (bs "f") false false None None;
             mkDef (bs "H") (bs "h") false true None None; mkDef (bs "two") (bs "f") false true None None] in
  let w := mkWorld [(bs "f", Reg dm_data0 420)] 18 [] None [] in
  (exists ext, trace (snd (finalize_writes (dm_o false false) dm_st ds w)) = trace w ++ ext /\
     forall pre data post, ext = pre ++ OWrite (bs "f") data :: post -> Exists (is_backup_of (dm_o false false) (bs "f")) pre) /\
  trace (snd (finalize_writes (dm_o false false) dm_st ds w)) =
    [OWrite (bs "g") (bs "G"); ORename (bs "f") (bs "f.orig"); OWrite (bs "f") (bs "one");
     OWrite (bs "h.orig") []; OWrite (bs "h") (bs "H"); OWrite (bs "f") (bs "two")].
Proof.
  cbv zeta. split; [|vm_compute; reflexivity].
  apply backup_before_first_write.
  - eexists. split; [right; right; right; left; reflexivity|]. split; reflexivity.
  - intros d [<-|[<-|[<-|[<-|[]]]]]; vm_compute; discriminate.
  - reflexivity.
Qed.

(* the side condition of backup_before_first_write is needed: when f is the backup name of another destination (x, absent,
   whose backup is therefore an empty file created at x.orig = f), that creation is a write to f which precedes the backup
   of f; what had been in f is lost and the backup of f holds nothing *)
Example backup_name_collision :
  let ds := [mkDef (bs "X") (bs "x") false true None None; mkDef (bs "Y") (bs "x.orig") false true None None] in
  let w := mkWorld [(bs "x.orig", Reg (bs "precious") 420)] 18 [] None [] in
  let r := finalize_writes (dm_o false false) dm_st ds w in
  trace (snd r) = [OWrite (bs "x.orig") []; OWrite (bs "x") (bs "X"); ORename (bs "x.orig") (bs "x.orig.orig");
                   OWrite (bs "x.orig") (bs "Y")] /\
  lookup (fs (snd r)) (bs "x.orig.orig") = Some (Reg [] 420).
Proof. vm_compute. split; reflexivity. Qed.

(* (B): "new mode 100755" in the first section, none in the second *)
Definition dm_p1 := mkPatch FGit OpChange [] [] (bs "f") (bs "f") [] [] 33188 33261 [dm_h1].
Definition dm_p2 := mkPatch FGit OpChange [] [] (bs "f") (bs "f") [] [] 0 0 [dm_h2].

Lemma dm_plain : plain_options (dm_o false false).
Proof. unfold plain_options. repeat split; try reflexivity. cbn. discriminate. Qed.
Lemma dm_git b : git_options (dm_o b false).
Proof. unfold git_options. repeat split; try reflexivity. cbn. discriminate. Qed.

Example git_section_mode_nonvacuous :
  exists st1 w1 st2 w2 w3,
    process_section (dm_o false false) dm_st false dm_p1 dm_s (dm_w dm_data0) = (Ok (st1, dm_s), w1) /\ fs w1 = fs (dm_w dm_data0) /\
    finalize_writes (dm_o false false) st1 (deferred_writes st1) w1 = (Ok st2, w2) /\
    finalize_removals (deferred_writes st1) (deferred_removals st1) w2 = (Ok tt, w3) /\
    lookup (fs w3) (bs "f") = Some (Reg (lines_bytes (newline_output (dm_o false false)) dm_A1)
                                 (if N.eqb (new_mode dm_p1) 0 then 420%N else N.land (new_mode dm_p1) 4095)) /\
    (forall q, q <> bs "f" -> lookup (fs w3) q = lookup (fs (dm_w dm_data0)) q) /\
    had_failure st2 = had_failure dm_st /\ events st2 = events dm_st /\ fault w3 = None /\ umask w3 = umask (dm_w dm_data0).
Proof.
  apply (git_section_mode (dm_o false false) dm_p1 (bs "f") dm_A0 dm_A1 dm_st dm_s (dm_w dm_data0) dm_data0 420);
    try exact dm_plain; dm_side.
Qed.

Example git_series_mode_nonvacuous :
  exists st1 w1 st2 w2 st3 w3 w4 d1 d2,
    process_section (dm_o false false) dm_st false dm_p1 dm_s (dm_w dm_data0) = (Ok (st1, dm_s), w1) /\ fs w1 = fs (dm_w dm_data0) /\
    process_section (dm_o false false) st1 false dm_p2 dm_s w1 = (Ok (st2, dm_s), w2) /\ fs w2 = fs (dm_w dm_data0) /\
    deferred_writes st2 = [d1; d2] /\ d_perm_after d1 = Some 493%N /\ d_perm_after d2 = Some 493%N /\
    finalize_writes (dm_o false false) st2 (deferred_writes st2) w2 = (Ok st3, w3) /\
    finalize_removals (deferred_writes st2) (deferred_removals st2) w3 = (Ok tt, w4) /\
    lookup (fs w4) (bs "f") = Some (Reg (lines_bytes (newline_output (dm_o false false)) dm_A2) 493) /\
    (forall q, q <> bs "f" -> lookup (fs w4) q = lookup (fs (dm_w dm_data0)) q) /\
    had_failure st3 = had_failure dm_st /\ events st3 = events dm_st /\ fault w4 = None /\ umask w4 = umask (dm_w dm_data0).
Proof.
  apply (git_series_mode (dm_o false false) dm_p1 dm_p2 (bs "f") dm_A0 dm_A1 dm_A2 dm_st dm_s dm_s (dm_w dm_data0) dm_data0 420);
    try exact dm_plain; dm_side.
Qed.

Example git_series_backup_nonvacuous :
  exists st1 w1 st2 w2 st3 w3 w4,
    process_section (dm_o true false) dm_st false dm_p1 dm_s (dm_w dm_data0) = (Ok (st1, dm_s), w1) /\ fs w1 = fs (dm_w dm_data0) /\
    process_section (dm_o true false) st1 false dm_p2 dm_s w1 = (Ok (st2, dm_s), w2) /\ fs w2 = fs (dm_w dm_data0) /\
    finalize_writes (dm_o true false) st2 (deferred_writes st2) w2 = (Ok st3, w3) /\
    finalize_removals (deferred_writes st2) (deferred_removals st2) w3 = (Ok tt, w4) /\
    lookup (fs w4) (backup_name (dm_o true false) (bs "f")) = Some (Reg dm_data0 420) /\
    lookup (fs w4) (bs "f") = Some (Reg (lines_bytes (newline_output (dm_o true false)) dm_A2) 493) /\
    (forall q, q <> bs "f" -> q <> backup_name (dm_o true false) (bs "f") -> lookup (fs w4) q = lookup (fs (dm_w dm_data0)) q) /\
    had_failure st3 = had_failure dm_st /\ events st3 = events dm_st /\
    backed_up st3 = backup_name (dm_o true false) (bs "f") :: backed_up dm_st /\
    fault w4 = None /\ umask w4 = umask (dm_w dm_data0).
Proof.
  apply (git_series_backup (dm_o true false) dm_p1 dm_p2 (bs "f") dm_A0 dm_A1 dm_A2 dm_st dm_s dm_s (dm_w dm_data0) dm_data0 420);
    try apply dm_git; dm_side.
Qed.

(* the whole program on the text of such a series, without and with -b *)
Definition dm_gitdiff := bs "diff --git a/f b/f" ++ dm_nl ++ bs "old mode 100644" ++ dm_nl ++ bs "new mode 100755" ++ dm_nl
  ++ bs "--- a/f" ++ dm_nl ++ bs "+++ b/f" ++ dm_nl ++ bs "@@ -1,2 +1,3 @@" ++ dm_nl
  ++ bs " a" ++ dm_nl ++ bs "-b" ++ dm_nl ++ bs "+B" ++ dm_nl ++ bs "+c" ++ dm_nl
  ++ bs "diff --git a/f b/f" ++ dm_nl
  ++ bs "--- a/f" ++ dm_nl ++ bs "+++ b/f" ++ dm_nl ++ bs "@@ -1,3 +1,3 @@" ++ dm_nl
  ++ bs " a" ++ dm_nl ++ bs " B" ++ dm_nl ++ bs "-c" ++ dm_nl ++ bs "+C" ++ dm_nl.

Example whole_program_git_series :
  let w := mkWorld [(bs "p.diff", Reg dm_gitdiff 420); (bs "f", Reg dm_data0 420)] 18 [] None [] in
  let r := run_patch (dm_o false false) [] w in
  let rb := run_patch (dm_o true false) [] w in
  rr_exit r = 0 /\ lookup (fs (rr_world r)) (bs "f") = Some (Reg dm_data2 493) /\
  trace (rr_world r) = [OOpenRead (bs "p.diff"); OOpenRead (bs "f"); OWrite (bs "f") dm_data1; OChmod (bs "f") 493;
                        OWrite (bs "f") dm_data2; OChmod (bs "f") 493] /\
  rr_exit rb = 0 /\ lookup (fs (rr_world rb)) (bs "f") = Some (Reg dm_data2 493) /\
  lookup (fs (rr_world rb)) (bs "f.orig") = Some (Reg dm_data0 420) /\
  trace (rr_world rb) = [OOpenRead (bs "p.diff"); OOpenRead (bs "f"); ORename (bs "f") (bs "f.orig");
                         OWrite (bs "f") dm_data1; OChmod (bs "f") 493; OWrite (bs "f") dm_data2; OChmod (bs "f") 493].
Proof. vm_compute. repeat split; reflexivity. Qed.
