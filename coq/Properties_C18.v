(* Properties_C18.v — C18: backups hold exactly the pre-patch bytes.  Statements only; proofs in Proofs_World.v. *)
From PatchV Require Import Base Lines Hunk Options Parser World Driver Proofs_World.

(* the name: prefix + path + suffix per -B / -z, '.orig' appended when neither is given *)
Theorem backup_name_spec : forall o p,
  backup_name o p = backup_prefix o ++ p ++ (if is_nil (backup_prefix o) && is_nil (backup_suffix o) then bs ".orig" else backup_suffix o).
Proof. exact Proofs_World.backup_name_spec. Qed.
Print Assumptions backup_name_spec.

(* the first backup of a path in a run = remember the name, make the directory it goes to (which only adds directories:
   every entry that was there stays as it was), then [backup_core] *)
Theorem make_backup_for_shape : forall o st p,
  existsb (str_eqb (backup_name o p)) (backed_up st) = false ->
  make_backup_for o st p =
  (let! _ := ensure_parent_directories (backup_name o p) in
   backup_core (mkDS (had_failure st) (backup_name o p :: backed_up st) (deferred_writes st) (deferred_removals st) (events st)) p (backup_name o p)).
Proof. exact Proofs_World.make_backup_for_shape. Qed.
Print Assumptions make_backup_for_shape.

Theorem ensure_extends : forall p w r w', ensure_parent_directories p w = (r, w') -> extends (fs w) (fs w').
Proof. exact Proofs_World.ensure_extends. Qed.
Print Assumptions ensure_extends.

(* backup_core: an existing target is moved to the backup name as it is (bytes and mode); a target that did not exist
   yields an empty file *)
Theorem backup_holds_original : forall st' p b w st1 w',
  backup_core st' p b w = (Ok st1, w') ->
  st1 = st' /\
  (exists_ (fs w) p = true ->
     exists n, lookup (fs w) p = Some n /\ lookup (fs w') b = Some n /\
               (p <> b -> lookup (fs w') p = None)) /\
  (exists_ (fs w) p = false ->
     match lookup (fs w) b with
     | Some (Sym _) => True
     | _ => exists mode, lookup (fs w') b = Some (Reg [] mode)
     end).
Proof. exact Proofs_World.backup_holds_original. Qed.
Print Assumptions backup_holds_original.

(* several patches in one run hitting the same file: the backup reflects the state before the first of them *)
Theorem backup_only_once : forall o st p,
  existsb (str_eqb (backup_name o p)) (backed_up st) = true -> make_backup_for o st p = mret st.
Proof. exact Proofs_World.backup_only_once. Qed.
Print Assumptions backup_only_once.

Local Open Scope string_scope.
Example backup_nonvacuous :
  let o := mkOptions true false [] [] false [] false false false [] (-1) 2 false [] [] false false false false false false false false OBUnset OBUnset MNative RFDefault ROWarn QSUnset [] (bs "pre.") in
  backup_name o (bs "f") = bs "pre.f" /\
  match make_backup_for o (mkDS false [] [] [] []) (bs "f") (mkWorld [(bs "f", Reg (bs "data") 384)] 18 [] None []) with
  | (Ok st', w') => lookup (fs w') (bs "pre.f") = Some (Reg (bs "data") 384) /\ lookup (fs w') (bs "f") = None
  | _ => False
  end.
Proof. vm_compute. repeat split; reflexivity. Qed.
