(* Properties_C18.v — C18: backups hold exactly the pre-patch bytes.  Statements only; proofs in Proofs_World.v. *)
From PatchV Require Import Base Lines Hunk Options Parser World Driver Proofs_World Locator Formatter Applier LineParser Spec_Locate Spec_Apply Proofs_Conf Proofs_Reapply Proofs_Touch Proofs_Reverse Proofs_DriverMore.

(* the name: prefix + path + suffix per -B / -z, '.orig' appended when neither is given *)
Theorem backup_name_spec : forall o p,
  backup_name o p = backup_prefix o ++ p ++ (if is_nil (backup_prefix o) && is_nil (backup_suffix o) then bs ".orig" else backup_suffix o).
Proof. exact Proofs_World.backup_name_spec. Qed.
Print Assumptions backup_name_spec.

(* the first backup of a path in a run = remember the name, make the directory it goes to (which only adds directories:
   every entry that was there stays as it was), then [backup_core] *)
Theorem make_backup_for_shape : forall o st p,
  existsb (str_eqb (backup_name o p)) (backed_up st) = false ->
  make_backup_for o st p =
  (let! _ := ensure_parent_directories (backup_name o p) in
   backup_core (mkDS (had_failure st) (backup_name o p :: backed_up st) (deferred_writes st) (deferred_removals st) (events st)) p (backup_name o p)).
Proof. exact Proofs_World.make_backup_for_shape. Qed.
Print Assumptions make_backup_for_shape.

Theorem ensure_extends : forall p w r w', ensure_parent_directories p w = (r, w') -> extends (fs w) (fs w').
Proof. exact Proofs_World.ensure_extends. Qed.
Print Assumptions ensure_extends.

(* backup_core: an existing target is moved to the backup name as it is (bytes and mode); a target that did not exist
   yields an empty file *)
Theorem backup_holds_original : forall st' p b w st1 w',
  backup_core st' p b w = (Ok st1, w') ->
  st1 = st' /\
  (exists_ (fs w) p = true ->
     exists n, lookup (fs w) p = Some n /\ lookup (fs w') b = Some n /\
               (p <> b -> lookup (fs w') p = None)) /\
  (exists_ (fs w) p = false ->
     match lookup (fs w) b with
     | Some (Sym _) => True
     | _ => exists mode, lookup (fs w') b = Some (Reg [] mode)
     end).
Proof. exact Proofs_World.backup_holds_original. Qed.
Print Assumptions backup_holds_original.

(* several patches in one run hitting the same file: the backup reflects the state before the first of them *)
Theorem backup_only_once : forall o st p,
  existsb (str_eqb (backup_name o p)) (backed_up st) = true -> make_backup_for o st p = mret st.
Proof. exact Proofs_World.backup_only_once. Qed.
Print Assumptions backup_only_once.

Local Open Scope string_scope.
Example backup_nonvacuous :
  let o := mkOptions true false [] [] false [] false false false [] (-1) 2 false [] [] false false false false false false false false OBUnset OBUnset MNative RFDefault ROWarn QSUnset [] (bs "pre.") in
  backup_name o (bs "f") = bs "pre.f" /\
  match make_backup_for o (mkDS false [] [] [] []) (bs "f") (mkWorld [(bs "f", Reg (bs "data") 384)] 18 [] None []) with
  | (Ok st', w') => lookup (fs w') (bs "pre.f") = Some (Reg (bs "data") 384) /\ lookup (fs w') (bs "f") = None
  | _ => False
  end.
Proof. vm_compute. repeat split; reflexivity. Qed.

(* ---------------------------------------------------------------------------------------------------------------
   C18 at driver level (process_section, finalize_writes); proofs in Proofs_DriverMore.v, non-vacuity Examples and
   whole-program vm_compute runs in Properties_DriverMore.v. *)
(* two deferred writes to one regular file f of the working directory, at least one of which asks for the backup, none
   taken for f yet in this run, nothing at the backup name: the backup holds the ORIGINAL bytes and mode (not what the
   first write left), f holds the data of the second write, everything else is untouched *)
Theorem series_backup_two_gen : forall o st w f c0 mode0 data1 data2 nn1 nn2 bk1 bk2 cf1 cf2 pa1 pa2,
  let d1 := mkDef data1 f nn1 bk1 cf1 pa1 in
  let d2 := mkDef data2 f nn2 bk2 cf2 pa2 in
  let m1 := mode_after_write pa1 (created_mode (umask w)) in
  bk1 || bk2 = true ->
  fault w = None -> f <> [] -> ~ In 47%N f -> ~ In 47%N (backup_name o f) ->
  lookup (fs w) f = Some (Reg c0 mode0) -> lookup (fs w) (backup_name o f) = None ->
  existsb (str_eqb (backup_name o f)) (backed_up st) = false ->
  owner_w (mode_before_write cf2 m1) = true ->
  exists w',
    finalize_writes o st [d1; d2] w = (Ok (with_backed_up st (backup_name o f)), w') /\
    lookup (fs w') (backup_name o f) = Some (Reg c0 mode0) /\
    lookup (fs w') f = Some (Reg data2 (mode_after_write pa2 (mode_before_write cf2 m1))) /\
    (forall q, q <> f -> q <> backup_name o f -> lookup (fs w') q = lookup (fs w) q) /\
    fault w' = None /\ umask w' = umask w.
Proof. exact Proofs_DriverMore.series_backup_two_gen. Qed.
Print Assumptions series_backup_two_gen.

(* the case of the claim: only the SECOND write asks for the backup *)
Theorem series_backup_two : forall o st w f c0 mode0 data1 data2 nn1 nn2 cf1 cf2 pa1 pa2,
  let d1 := mkDef data1 f nn1 false cf1 pa1 in
  let d2 := mkDef data2 f nn2 true cf2 pa2 in
  let m1 := mode_after_write pa1 (created_mode (umask w)) in
  fault w = None -> f <> [] -> ~ In 47%N f -> ~ In 47%N (backup_name o f) ->
  lookup (fs w) f = Some (Reg c0 mode0) -> lookup (fs w) (backup_name o f) = None ->
  existsb (str_eqb (backup_name o f)) (backed_up st) = false ->
  owner_w (mode_before_write cf2 m1) = true ->
  exists w',
    finalize_writes o st [d1; d2] w = (Ok (with_backed_up st (backup_name o f)), w') /\
    lookup (fs w') (backup_name o f) = Some (Reg c0 mode0) /\
    lookup (fs w') f = Some (Reg data2 (mode_after_write pa2 (mode_before_write cf2 m1))) /\
    (forall q, q <> f -> q <> backup_name o f -> lookup (fs w') q = lookup (fs w) q) /\
    fault w' = None /\ umask w' = umask w.
Proof. exact Proofs_DriverMore.series_backup_two. Qed.
Print Assumptions series_backup_two.

(* any series, any world, any injected failure: when some deferred write to f asks for a backup, the backup of f has not been
   taken yet in this run, and f is not itself the backup name of a destination of the series, every write to f that
   finalize_writes performs comes after the operation that takes the backup of f (the rename of f to its backup name, or,
   when f is not there, the creation of the empty backup file) *)
Theorem backup_before_first_write : forall o st ds f w,
  (exists d, In d ds /\ d_dest d = f /\ d_backup d = true) ->
  (forall d, In d ds -> backup_name o (d_dest d) <> f) ->
  existsb (str_eqb (backup_name o f)) (backed_up st) = false ->
  exists ext, trace (snd (finalize_writes o st ds w)) = trace w ++ ext /\
    forall pre data post, ext = pre ++ OWrite f data :: post -> Exists (is_backup_of o f) pre.
Proof. exact Proofs_DriverMore.backup_before_first_write. Qed.
Print Assumptions backup_before_first_write.

(* the same series under -b (C18 and C17 together): one backup, taken before the first of the two deferred writes; it holds
   the content and the mode f had before the run *)
Theorem git_series_backup : forall o p1 p2 f A0 A1 A2 st s1 s2 w data m0,
  git_options o -> save_backup o = true -> reverse_patch_opt o = false ->
  pfmt p1 = FGit -> poper p1 = OpChange -> prereq p1 = [] -> old_path p1 = f -> new_path p1 = f ->
  new_mode p1 <> 0%N -> is_symlink_mode (new_mode p1) = false -> owner_w (N.land (new_mode p1) 4095) = true ->
  pfmt p2 = FGit -> poper p2 = OpChange -> prereq p2 = [] -> old_path p2 = f -> new_path p2 = f ->
  new_mode p2 = 0%N ->
  f <> devnull -> f <> [] -> ~ In 47%N f -> ~ In 47%N (backup_name o f) ->
  Conforming A0 A1 (hunks p1) -> Conforming A1 A2 (hunks p2) ->
  split_lines (lines_bytes (newline_output o) A1) = A1 ->
  (remove_empty_files o <> OBYes \/
   (lines_bytes (newline_output o) A1 <> [] /\ lines_bytes (newline_output o) A2 <> [])) ->
  (Z.of_nat (length A0) < MAXZ)%Z -> (Z.of_nat (length A1) < MAXZ)%Z ->
  fault w = None -> deferred_writes st = [] -> deferred_removals st = [] ->
  existsb (str_eqb (backup_name o f)) (backed_up st) = false ->
  lookup (fs w) f = Some (Reg data m0) -> (m0 < 4096)%N -> owner_r m0 = true ->
  (N.land m0 write_mask <> 0%N \/ read_only o <> ROFail) ->
  lookup (fs w) (backup_name o f) = None ->
  split_lines data = A0 ->
  let pm1 := N.land (new_mode p1) 4095 in
  exists st1 w1 st2 w2 st3 w3 w4,
    process_section o st false p1 s1 w = (Ok (st1, s1), w1) /\ fs w1 = fs w /\
    process_section o st1 false p2 s2 w1 = (Ok (st2, s2), w2) /\ fs w2 = fs w /\
    finalize_writes o st2 (deferred_writes st2) w2 = (Ok st3, w3) /\
    finalize_removals (deferred_writes st2) (deferred_removals st2) w3 = (Ok tt, w4) /\
    lookup (fs w4) (backup_name o f) = Some (Reg data m0) /\
    lookup (fs w4) f = Some (Reg (lines_bytes (newline_output o) A2) pm1) /\
    (forall q, q <> f -> q <> backup_name o f -> lookup (fs w4) q = lookup (fs w) q) /\
    had_failure st3 = had_failure st /\ events st3 = events st /\ backed_up st3 = backup_name o f :: backed_up st /\
    fault w4 = None /\ umask w4 = umask w.
Proof. exact Proofs_DriverMore.git_series_backup. Qed.
Print Assumptions git_series_backup.


(* ===== the known finding K-C18-late-backup-plain-series, as a statement about the model ===== *)
From PatchV Require Import Base Lines Hunk Options Parser World Driver.
Local Open Scope string_scope.
Definition nl1 : list N := [10%N].
Definition rf_opts :=
  mkOptions false false [] [] false (bs "p.diff") false false false [] (-1) 2 false [] [] false false false false false false false false OBYes OBYes MNative RFDefault ROWarn QSUnset [] [].
Fixpoint seqlines (k n : nat) : list N :=
  match n with O => [] | S m => bs (String.string_of_list_ascii (List.map Ascii.ascii_of_nat (if Nat.ltb k 10 then [48 + k] else [48 + k / 10; 48 + Nat.modulo k 10])%nat)) ++ nl1 ++ seqlines (S k) m end.
Definition rf_a : list N := seqlines 1 20.
Definition rf_patch : list N :=
  bs "--- a" ++ nl1 ++ bs "+++ a" ++ nl1 ++ bs "@@ -1,3 +1,3 @@" ++ nl1 ++ bs " 1" ++ nl1 ++ bs "-2" ++ nl1 ++ bs "+two" ++ nl1 ++ bs " 3" ++ nl1 ++
  bs "--- a" ++ nl1 ++ bs "+++ a" ++ nl1 ++ bs "@@ -12,3 +12,3 @@" ++ nl1 ++ bs " 14" ++ nl1 ++ bs "-15" ++ nl1 ++ bs "+fifteen" ++ nl1 ++ bs " 16" ++ nl1.
Definition rf_world := mkWorld [(bs "a", Reg rf_a 420); (bs "p.diff", Reg rf_patch 420)] 18 [] None [].
(* K-C18-late-backup-plain-series as a theorem about the model: the statement "the backup holds what the target held before the
   run" is refuted by this run - two plain sections for one file, the first exact, the second two lines off *)
Theorem late_backup_plain_series_refuted :
  let r := run_patch rf_opts [] rf_world in
  rr_exit r = 0 /\
  exists d m, lookup (fs (rr_world r)) (bs "a.orig") = Some (Reg d m) /\ d <> rf_a /\
              firstn 6 d = bs "1" ++ nl1 ++ bs "two" ++ nl1.
Proof.
  vm_compute. split; [reflexivity|]. eexists. eexists. split; [reflexivity|]. split; [discriminate|reflexivity].
Qed.
Print Assumptions late_backup_plain_series_refuted.
