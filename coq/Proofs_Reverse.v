(* Proofs_Reverse.v — C05 through the driver: sections run with -R.  The walk through Driver.process_section is cut in
   three: the head (choice of the file, reading it), apply_patch (Proofs_Conf.apply_conforming_gen_full, which covers -R),
   and section_tail, which for the patches considered here is one write_now or one remove_file_and_empty_parent_folders. *)
From PatchV Require Import Base Lines Hunk Locator Formatter Options Applier LineParser Parser World Driver
     Spec_Locate Spec_Apply Proofs_Base Proofs_Apply Proofs_Conf Proofs_World Proofs_Crash Proofs_Lines Proofs_EndToEnd.

(* ---------- small facts ---------- *)
Lemma noslash_parent f : ~ In 47%N f -> parent f = None.
Proof. intros H. unfold parent. apply no_slash_parent_aux. exact H. Qed.

Lemma ensure_noslash f : f <> [] -> ~ In 47%N f -> ensure_parent_directories f = mret tt.
Proof.
  intros Hn Hs. unfold ensure_parent_directories. destruct f as [|c r]; [congruence|]. cbn [is_nil].
  rewrite (no_slash_prefixes (c :: r) [] Hs). reflexivity.
Qed.

Lemma remove_key_absent m p : lookup m p = None -> remove_key m p = m.
Proof.
  induction m as [|[q n] r IH]; intros H; [reflexivity|]. cbn [lookup] in H. cbn [remove_key].
  destruct (str_eqb q p); [discriminate|]. rewrite (IH H). reflexivity.
Qed.

Lemma remove_key_upd m p n : remove_key (upd m p n) p = remove_key m p.
Proof.
  unfold upd. cbn [remove_key]. rewrite str_eqb_refl.
  induction m as [|[q x] r IH]; [reflexivity|]. cbn [remove_key]. destruct (str_eqb q p) eqn:E; [exact IH|].
  cbn [remove_key]. rewrite E, IH. reflexivity.
Qed.

Lemma stat_noslash m f : ~ In 47%N f ->
  stat m f = match lookup m f with
             | Some (Sym t) => (match lookup m (link_target f t) with Some (Sym _) => None | x => x end)
             | x => x
             end.
Proof. intros H. unfold stat, parent_ok. rewrite (noslash_parent f H). reflexivity. Qed.

Lemma stat_reg m f d mode : ~ In 47%N f -> lookup m f = Some (Reg d mode) -> stat m f = Some (Reg d mode).
Proof. intros H L. rewrite (stat_noslash m f H), L. reflexivity. Qed.

Lemma stat_absent m f : lookup m f = None -> stat m f = None.
Proof. intros L. unfold stat. destruct (negb (parent_ok m f false)); [reflexivity|]. rewrite L. reflexivity. Qed.

Lemma unknown_not_needed : N.eqb (N.land perms_unknown write_mask) 0 = false.
Proof. reflexivity. Qed.

(* the patch record apply_patch works with, field by field *)
Lemma eff_pfmt o p : pfmt (effective o p) = pfmt p.
Proof. unfold effective. destruct (reverse_patch_opt o); reflexivity. Qed.

Lemma adding_iff o p : is_adding_file p o = match poper (effective o p) with OpAdd => true | _ => false end.
Proof. unfold is_adding_file, effective. destruct (reverse_patch_opt o); cbn [reverse_patch poper]; destruct (poper p); reflexivity. Qed.

(* ---------- the two elementary endings ---------- *)
(* write_now without backup on a file of the working directory which is there: write, then chmod *)
Lemma write_existing o st f bytes pm w data mode :
  fault w = None -> ~ In 47%N f -> lookup (fs w) f = Some (Reg data mode) -> owner_w mode = true ->
  exists w', write_now o st (mkDef bytes f false false None (Some pm)) w = (Ok st, w') /\
             fs w' = upd (upd (fs w) f (Reg bytes mode)) f (Reg bytes pm) /\ fault w' = None /\ umask w' = umask w.
Proof.
  intros Fw Hs Lf Hw. pose proof (noslash_parent f Hs) as Par.
  unfold write_now. cbn [d_backup d_dest d_chmod_first d_data d_perm_after].
  rewrite mbind_eq. cbn [mret]. rewrite mbind_eq. cbn [get_fs]. rewrite mbind_eq. cbn [mret].
  set (w2 := mkWorld (upd (fs w) f (Reg bytes mode)) (umask w) (trace w ++ [OWrite f bytes]) None (stdout_data w)).
  assert (Wr : checked (OWrite f bytes) w = (Ok tt, w2)).
  { apply (checked_ok_run _ w); [exact Fw|]. cbn [exec_op]. rewrite Lf. unfold parent_ok. rewrite Par, Hw. reflexivity. }
  rewrite mbind_eq, Wr.
  set (w3 := mkWorld (upd (upd (fs w) f (Reg bytes mode)) f (Reg bytes pm)) (umask w) (trace w2 ++ [OChmod f pm]) None (stdout_data w)).
  assert (Ch : checked (OChmod f pm) w2 = (Ok tt, w3)).
  { apply (checked_ok_run _ w2); [reflexivity|]. cbn [exec_op fs w2]. unfold parent_ok. rewrite Par. cbn [negb]. rewrite lookup_upd_same. reflexivity. }
  rewrite mbind_eq, Ch. cbn [mret].
  exists w3. repeat split; reflexivity.
Qed.

(* write_now on a name of the working directory which is not there: the file comes into being with 0666 & ~umask *)
Definition created_mode (um : N) : N := N.land 438 (N.lxor 4095 (N.land um 4095)).

Lemma write_absent o st f bytes w :
  fault w = None -> ~ In 47%N f -> lookup (fs w) f = None ->
  exists w', write_now o st (mkDef bytes f false false None None) w = (Ok st, w') /\
             fs w' = upd (fs w) f (Reg bytes (created_mode (umask w))) /\ fault w' = None /\ umask w' = umask w.
Proof.
  intros Fw Hs Lf. pose proof (noslash_parent f Hs) as Par.
  unfold write_now. cbn [d_backup d_dest d_chmod_first d_data d_perm_after].
  rewrite mbind_eq. cbn [mret]. rewrite mbind_eq. cbn [get_fs]. rewrite mbind_eq. cbn [mret].
  set (w2 := mkWorld (upd (fs w) f (Reg bytes (created_mode (umask w)))) (umask w) (trace w ++ [OWrite f bytes]) None (stdout_data w)).
  assert (Wr : checked (OWrite f bytes) w = (Ok tt, w2)).
  { apply (checked_ok_run _ w); [exact Fw|]. cbn [exec_op]. rewrite Lf. unfold parent_ok. rewrite Par. reflexivity. }
  rewrite mbind_eq, Wr. rewrite mbind_eq. cbn [mret].
  exists w2. repeat split; reflexivity.
Qed.

(* remove_file_and_empty_parent_folders on a file of the working directory: one unlink, no directory to look at *)
Lemma remove_existing f w data mode :
  fault w = None -> f <> [] -> ~ In 47%N f -> lookup (fs w) f = Some (Reg data mode) ->
  exists w', remove_file_and_empty_parent_folders f w = (Ok tt, w') /\
             fs w' = remove_key (fs w) f /\ fault w' = None /\ umask w' = umask w.
Proof.
  intros Fw Hn Hs Lf. pose proof (noslash_parent f Hs) as Par.
  unfold remove_file_and_empty_parent_folders.
  set (w2 := mkWorld (remove_key (fs w) f) (umask w) (trace w ++ [OUnlink f]) None (stdout_data w)).
  assert (Un : checked (OUnlink f) w = (Ok tt, w2)).
  { apply (checked_ok_run _ w); [exact Fw|]. cbn [exec_op]. unfold parent_ok. rewrite Par, Lf. reflexivity. }
  rewrite mbind_eq, Un. destruct f as [|c r]; [congruence|]. cbn [length rmdir_parents]. rewrite Par. cbn [mret].
  exists w2. repeat split; reflexivity.
Qed.

(* ---------- section_tail for a run that applied perfectly ---------- *)
(* ... and whose patch, as apply_patch left it, neither deletes nor renames: exactly one write_now *)
Lemma tail_write o st ftp f operms pm (ar : aresult) s2 w :
  out_file_path o = [] -> dry_run o = false -> save_backup o = false ->
  r_failed ar = 0 -> r_skipped ar = false -> r_perfect ar = true -> r_msgs ar = [] ->
  pfmt (r_patch ar) <> FGit ->
  (poper (r_patch ar) = OpChange \/ poper (r_patch ar) = OpAdd \/ poper (r_patch ar) = OpDelete) ->
  new_mode (r_patch ar) = 0%N ->
  (poper (r_patch ar) = OpAdd \/ remove_empty_files o <> OBYes \/
   (new_path (r_patch ar) <> devnull /\ poper (r_patch ar) = OpChange /\ lines_bytes (newline_output o) (r_out ar) <> [])) ->
  f <> [] -> ~ In 47%N f ->
  section_tail o st ftp f operms pm false ar s2 w =
  (let! st' := write_now o (add_event st [])
                 (mkDef (lines_bytes (newline_output o) (r_out ar)) f false false None
                        (if N.eqb pm perms_unknown then None else Some pm)) in mret (st', s2)) w.
Proof.
  intros O2 O3 O4 Rf Rs Rp Rm Pf Pop Pm Nd Hn Hs.
  unfold section_tail. rewrite Rf, Rs, Rp, Rm, Pm, O2, O3, O4.
  assert (Git : match pfmt (r_patch ar) with FGit => true | _ => false end = false) by (destruct (pfmt (r_patch ar)); congruence).
  rewrite Git. cbn [Nat.eqb negb andb orb is_nil].
  change (str_eqb [] (bs "-")) with false. cbv iota.
  rewrite mbind_eq. cbn [mret].
  rewrite (ensure_noslash f Hn Hs).
  match goal with |- context [if ?c then (if is_nil ?b then ?x else ?y) else ?z] =>
    assert (X : (if c then (if is_nil b then x else y) else z) = z) end.
  { destruct Pop as [Pc|[Pa|Pd]].
    - rewrite Pc. destruct (remove_empty_files o) eqn:Re; try reflexivity.
      destruct Nd as [Na|[Nr|(Pn & _ & Nb)]]; [congruence|congruence|].
      apply str_eqb_neq in Pn. rewrite Pn.
      destruct (lines_bytes (newline_output o) (r_out ar)); [congruence|]. cbn [is_nil].
      destruct (hunks (r_patch ar)) as [|h hs]; [reflexivity|].
      destruct ((rstart (newr h) =? 0)%Z && (rcount (newr h) =? 0)%Z); reflexivity.
    - rewrite Pa. destruct (remove_empty_files o); reflexivity.
    - rewrite Pd. destruct (remove_empty_files o) eqn:Re; try reflexivity.
      destruct Nd as [Na|[Nr|(_ & Pc & _)]]; congruence. }
  rewrite X. clear X.
  assert (Rn : match poper (r_patch ar) with OpRename => true | _ => false end = false)
    by (destruct Pop as [Pc|[Pa|Pd]]; [rewrite Pc|rewrite Pa|rewrite Pd]; reflexivity).
  rewrite Rn. change (negb (0 =? 0)%N) with false. cbv iota.
  rewrite mbind_eq. cbn [mret andb]. rewrite mbind_eq. rewrite mbind_eq. cbn [mret].
  rewrite (mbind_eq (write_now _ _ _)).
  match goal with |- context [write_now ?a ?b ?c w] => destruct (write_now a b c w) as [[st'|e] w'] end.
  - rewrite mbind_eq. reflexivity.
  - reflexivity.
Qed.

(* ... and whose patch, as apply_patch left it, deletes the file, with --remove-empty-files in force and nothing left:
   exactly one remove_file_and_empty_parent_folders *)
Lemma tail_remove o st ftp f operms pm needed (ar : aresult) s2 w :
  out_file_path o = [] -> dry_run o = false -> save_backup o = false -> remove_empty_files o = OBYes ->
  r_failed ar = 0 -> r_skipped ar = false -> r_perfect ar = true -> r_msgs ar = [] -> r_out ar = [] ->
  poper (r_patch ar) = OpDelete -> exists_ (fs w) f = true ->
  section_tail o st ftp f operms pm needed ar s2 w =
  (let! _ := remove_file_and_empty_parent_folders f in mret (add_event st [], s2)) w.
Proof.
  intros O2 O3 O4 Re Rf Rs Rp Rm Ro Pop Ex.
  unfold section_tail. rewrite Rf, Rs, Rp, Rm, Ro, O2, O3, O4, Re, Pop.
  cbn [Nat.eqb negb andb orb is_nil lines_bytes flat_map].
  change (str_eqb [] (bs "-")) with false. cbv iota.
  rewrite mbind_eq. cbn [mret].
  rewrite mbind_eq. rewrite mbind_eq. rewrite mbind_eq. cbn [mret].
  rewrite (mbind_eq get_fs). cbn [get_fs]. rewrite Ex.
  rewrite !(mbind_eq (remove_file_and_empty_parent_folders f)).
  destruct (remove_file_and_empty_parent_folders f w) as [[[]|e] w'].
  - cbn [mret andb]. rewrite mbind_eq. cbn [mret]. rewrite mbind_eq. cbn [mret]. reflexivity.
  - reflexivity.
Qed.

(* ---------- the head of a section: which file, which permissions, its lines ---------- *)
(* the file chosen is a readable regular file of the working directory, and it is also the file written *)
Lemma head_existing o st p s w f data mode :
  file_to_patch o = [] ->
  guess_filepath (fs w) (map d_dest (deferred_writes st)) p o = f -> output_path o p f = f ->
  deferred_writes st = [] -> fault w = None ->
  lookup (fs w) f = Some (Reg data mode) -> (mode < 4096)%N -> owner_r mode = true ->
  (N.land mode write_mask <> 0%N \/ read_only o <> ROFail) ->
  prereq p = [] -> poper p <> OpRename -> f <> [] -> ~ In 47%N f ->
  process_section o st false p s w =
  (let! ar := mlift (apply_patch o (split_lines data) p) in
   section_tail o st f f mode mode (N.eqb (N.land mode write_mask) 0) ar s)
    (mkWorld (fs w) (umask w) (trace w ++ [OOpenRead f]) None (stdout_data w)).
Proof.
  intros O1 G Out Dw Fw Lf Hm Hr Hw P3 Pop Hn Hs.
  pose proof (stat_reg _ _ _ _ Hs Lf) as St.
  assert (Ex : exists_ (fs w) f = true) by (unfold exists_; rewrite St; reflexivity).
  assert (Rg : is_regular_file (fs w) f = true) by (unfold is_regular_file; rewrite St; reflexivity).
  unfold process_section. rewrite mbind_eq. cbn [get_fs]. rewrite O1. cbn [is_nil]. rewrite G.
  assert (Nn : is_nil f = false) by (destruct f; [congruence|reflexivity]). rewrite Nn.
  rewrite Ex, Rg. cbn [negb andb]. rewrite Out.
  assert (GP : get_permissions (fs w) f = mode) by (unfold get_permissions; rewrite St; apply land_small; exact Hm).
  assert (EP : effective_perms st (fs w) f = mode) by (unfold effective_perms; rewrite Dw; cbn [rev find]; exact GP).
  rewrite EP.
  assert (Ref : (N.eqb (N.land mode write_mask) 0 && match read_only o with ROFail => true | _ => false end) = false).
  { destruct Hw as [Hw|Hw].
    - apply N.eqb_neq in Hw. rewrite Hw. reflexivity.
    - destruct (read_only o); try congruence; apply andb_false_r. }
  rewrite Ref.
  assert (Unk : N.eqb mode perms_unknown = false) by (apply N.eqb_neq; unfold perms_unknown; lia).
  rewrite Unk. cbn [andb].
  assert (PC : pending_content st (fs w) f f = None) by (unfold pending_content; rewrite Dw; cbn [rev find]; destruct (str_eqb f f); reflexivity).
  rewrite PC.
  set (w1 := mkWorld (fs w) (umask w) (trace w ++ [OOpenRead f]) None (stdout_data w)).
  assert (Rd : perform (OOpenRead f) w = (Ok None, w1)).
  { apply perform_ok_run; [exact Fw|]. cbn [exec_op]. rewrite St, Hr. reflexivity. }
  rewrite mbind_eq. rewrite mbind_eq. rewrite Rd. rewrite St. cbn [mret].
  rewrite mbind_eq. rewrite P3. cbn [is_nil negb andb mret].
  assert (P1 : match poper p with OpRename => if str_eqb f f then set_oper p OpChange else p | _ => p end = p)
    by (destruct (poper p); try reflexivity; congruence).
  rewrite P1. unfold body_if. rewrite mbind_eq. cbn [mret]. reflexivity.
Qed.

(* the file chosen is a name of the working directory which is not there, and the patch is one that adds it *)
Lemma head_absent o st p s w f :
  file_to_patch o = [] ->
  guess_filepath (fs w) (map d_dest (deferred_writes st)) p o = f -> output_path o p f = f ->
  deferred_writes st = [] -> fault w = None ->
  lookup (fs w) f = None -> is_adding_file p o = true ->
  prereq p = [] -> f <> [] ->
  process_section o st false p s w =
  (let! ar := mlift (apply_patch o [] p) in
   section_tail o st f f perms_unknown perms_unknown false ar s)
    (mkWorld (fs w) (umask w) (trace w ++ [OOpenRead f]) None (stdout_data w)).
Proof.
  intros O1 G Out Dw Fw Lf Ad P3 Hn.
  pose proof (stat_absent _ _ Lf) as St.
  assert (Ex : exists_ (fs w) f = false) by (unfold exists_; rewrite St; reflexivity).
  unfold process_section. rewrite mbind_eq. cbn [get_fs]. rewrite O1. cbn [is_nil]. rewrite G.
  assert (Nn : is_nil f = false) by (destruct f; [congruence|reflexivity]). rewrite Nn.
  rewrite Ex. cbn [negb andb]. rewrite Out.
  assert (GP : get_permissions (fs w) f = perms_unknown) by (unfold get_permissions; rewrite St; reflexivity).
  assert (EP : effective_perms st (fs w) f = perms_unknown) by (unfold effective_perms; rewrite Dw; cbn [rev find]; exact GP).
  rewrite EP. rewrite unknown_not_needed. cbn [andb].
  assert (Nr : match poper p with OpRename | OpCopy => true | _ => false end = false).
  { unfold is_adding_file in Ad. destruct (poper p); try reflexivity; destruct (reverse_patch_opt o); discriminate. }
  rewrite Nr. change (N.eqb perms_unknown perms_unknown) with true. cbn [andb].
  assert (PC : pending_content st (fs w) f f = None) by (unfold pending_content; rewrite Dw; cbn [rev find]; destruct (str_eqb f f); reflexivity).
  rewrite PC.
  set (w1 := mkWorld (fs w) (umask w) (trace w ++ [OOpenRead f]) None (stdout_data w)).
  assert (Rd : perform (OOpenRead f) w = (Ok (Some ENOENT), w1)).
  { unfold perform. rewrite Fw. cbn [exec_op]. rewrite St. reflexivity. }
  rewrite mbind_eq. rewrite mbind_eq. rewrite Rd. rewrite Ad. cbn [mret].
  rewrite mbind_eq. rewrite P3. cbn [is_nil negb andb mret].
  assert (P1 : match poper p with OpRename => if str_eqb f f then set_oper p OpChange else p | _ => p end = p).
  { destruct (poper p); try reflexivity; discriminate. }
  rewrite P1. unfold body_if. rewrite mbind_eq. cbn [mret]. reflexivity.
Qed.

Lemma owner_w_write_mask mode : owner_w mode = true -> N.land mode write_mask <> 0%N.
Proof.
  unfold owner_w, write_mask. intros H E.
  assert (X : N.land mode 128 = N.land (N.land mode 146) 128) by (rewrite <- N.land_assoc; reflexivity).
  rewrite E in X. cbn [N.land] in X. rewrite X in H. discriminate.
Qed.

Definition plain_options (o : options) : Prop :=
  file_to_patch o = [] /\ out_file_path o = [] /\ dry_run o = false /\ save_backup o = false /\ define_macro o = [] /\
  verbose o = false /\ (0 <= max_fuzz o)%Z.

Definition same_state (st st' : dstate) : Prop :=
  had_failure st' = had_failure st /\ backed_up st' = backed_up st /\ deferred_writes st' = deferred_writes st /\
  deferred_removals st' = deferred_removals st /\ events st' = events st.

Lemma same_state_add_event st : same_state st (add_event st []).
Proof. unfold same_state, add_event. cbn. rewrite app_nil_r. repeat split; reflexivity. Qed.

(* ---------- the three kinds of run, over the patch record as apply_patch sees it (effective o p: reversed under -R) ---------- *)
(* a change of an existing file from X to Y *)
Lemma section_change_gen o p f X Y st s w data mode :
  plain_options o ->
  pfmt p <> FGit -> poper p = OpChange -> prereq p = [] -> old_path p = f -> new_path p = f ->
  new_mode (effective o p) = 0%N -> f <> devnull -> f <> [] -> ~ In 47%N f ->
  Conforming X Y (hunks (effective o p)) ->
  (remove_empty_files o <> OBYes \/ lines_bytes (newline_output o) Y <> []) ->
  (Z.of_nat (length X) < MAXZ)%Z ->
  fault w = None -> deferred_writes st = [] ->
  lookup (fs w) f = Some (Reg data mode) -> (mode < 4096)%N -> owner_r mode = true -> owner_w mode = true ->
  split_lines data = X ->
  exists st' w',
    process_section o st false p s w = (Ok (st', s), w') /\
    fs w' = upd (upd (fs w) f (Reg (lines_bytes (newline_output o) Y) mode)) f (Reg (lines_bytes (newline_output o) Y) mode) /\
    same_state st st' /\ fault w' = None /\ umask w' = umask w.
Proof.
  intros (O1 & O2 & O3 & O4 & O5 & O6 & O8) Pf Pop P3 Po Pn Pm Hd Hn Hs HC Ne Hx Fw Dw Lf Hm Hr Hw HX.
  pose proof (owner_w_write_mask _ Hw) as Hw2.
  assert (Ex : exists_ (fs w) f = true) by (unfold exists_; rewrite (stat_reg _ _ _ _ Hs Lf); reflexivity).
  assert (G : guess_filepath (fs w) (map d_dest (deferred_writes st)) p o = f).
  { unfold guess_filepath. rewrite Po. apply str_eqb_neq in Hd. rewrite Hd. cbn [negb andb]. rewrite Ex. reflexivity. }
  assert (Out : output_path o p f = f) by (unfold output_path; rewrite O2, Pop; reflexivity).
  rewrite (head_existing o st p s w f data mode O1 G Out Dw Fw Lf Hm Hr (or_introl Hw2) P3).
  2:{ rewrite Pop. discriminate. } 2: exact Hn. 2: exact Hs.
  rewrite HX.
  assert (Guard : creation_guard (effective o p) X).
  { intros E. exfalso. unfold creates_file, effective in E. destruct (reverse_patch_opt o); cbn [reverse_patch old_path] in E;
      [rewrite Pn in E|rewrite Po in E]; apply str_eqb_eq in E; contradiction. }
  destruct (apply_conforming_gen_full o p X Y O5 O6 O8 HC Hx Guard) as (r & Er & Ro & Rf & Rr & Rs & Rp & Rm & hs & Hp3).
  rewrite mbind_eq. unfold mlift. rewrite Er.
  apply N.eqb_neq in Hw2. rewrite Hw2.
  assert (Q1 : pfmt (r_patch r) <> FGit) by (rewrite Hp3; cbn [set_hunks pfmt]; rewrite eff_pfmt; exact Pf).
  assert (Q2 : poper (r_patch r) = OpChange).
  { rewrite Hp3. cbn [set_hunks poper]. unfold effective. destruct (reverse_patch_opt o); cbn [reverse_patch poper]; rewrite Pop; reflexivity. }
  assert (Q3 : new_mode (r_patch r) = 0%N) by (rewrite Hp3; exact Pm).
  assert (Q4 : new_path (r_patch r) <> devnull).
  { rewrite Hp3. cbn [set_hunks new_path]. unfold effective. destruct (reverse_patch_opt o); cbn [reverse_patch new_path]; congruence. }
  rewrite (tail_write o st f f mode mode r s _ O2 O3 O4 Rf Rs Rp Rm Q1 (or_introl Q2) Q3).
  2:{ right. rewrite Ro. destruct Ne as [Ne|Ne]; [left; exact Ne|right; repeat split; assumption]. } 2: exact Hn. 2: exact Hs.
  assert (Unk : N.eqb mode perms_unknown = false) by (apply N.eqb_neq; unfold perms_unknown; lia).
  rewrite Unk, Ro.
  set (w1 := mkWorld (fs w) (umask w) (trace w ++ [OOpenRead f]) None (stdout_data w)).
  destruct (write_existing o (add_event st []) f (lines_bytes (newline_output o) Y) mode w1 data mode eq_refl Hs Lf Hw)
    as (w' & Ew & Fs' & Fa' & Um').
  rewrite mbind_eq, Ew. cbn [mret].
  eexists. exists w'. split; [reflexivity|]. split; [exact Fs'|]. split; [apply same_state_add_event|]. split; [exact Fa'|exact Um'].
Qed.

Lemma guess_adding o p f m :
  is_adding_file p o = true -> old_path (effective o p) = devnull -> new_path (effective o p) = f ->
  f <> devnull -> exists_ m f = false ->
  (index_path p = devnull \/ exists_ m (index_path p) = false) ->
  guess_filepath m [] p o = f.
Proof.
  intros Ad Po Pn Hd Ex Ix. unfold guess_filepath. rewrite Ad. cbn [existsb]. rewrite !orb_false_r.
  assert (I : negb (str_eqb (index_path p) devnull) && exists_ m (index_path p) = false).
  { destruct Ix as [Ix|Ix]; [rewrite Ix, str_eqb_refl; reflexivity|rewrite Ix; apply andb_false_r]. }
  rewrite I. apply str_eqb_neq in Hd.
  unfold effective in Po, Pn. destruct (reverse_patch_opt o); cbn [reverse_patch old_path new_path] in Po, Pn; rewrite Po, Pn.
  - rewrite Ex, andb_false_r. rewrite str_eqb_refl. cbn [negb andb]. rewrite Hd. reflexivity.
  - rewrite str_eqb_refl. cbn [negb andb]. rewrite Ex, andb_false_r. rewrite Hd. reflexivity.
Qed.

Lemma guess_existing o p f m :
  (old_path p = f /\ new_path p = devnull \/ old_path p = devnull /\ new_path p = f) ->
  f <> devnull -> exists_ m f = true ->
  guess_filepath m [] p o = f.
Proof.
  intros Pn Hd Ex. unfold guess_filepath. cbn [existsb]. rewrite !orb_false_r. apply str_eqb_neq in Hd.
  destruct Pn as [[Po Pn]|[Po Pn]]; rewrite Po, Pn.
  - rewrite Hd, Ex. reflexivity.
  - rewrite str_eqb_refl. cbn [negb andb]. rewrite Hd, Ex. reflexivity.
Qed.

Lemma output_add_delete o p f : out_file_path o = [] -> (poper p = OpAdd \/ poper p = OpDelete) -> output_path o p f = f.
Proof. intros O2 [E|E]; unfold output_path; rewrite O2, E; reflexivity. Qed.

Lemma adding_oper o p : is_adding_file p o = true -> poper p = OpAdd \/ poper p = OpDelete.
Proof. unfold is_adding_file. destruct (poper p); try discriminate; auto. Qed.

(* a patch that, as apply_patch sees it, creates the file f with content Y; f is not there *)
Lemma section_add_gen o p f Y st s w :
  plain_options o ->
  pfmt p <> FGit -> prereq p = [] ->
  poper (effective o p) = OpAdd -> old_path (effective o p) = devnull -> new_path (effective o p) = f ->
  new_mode (effective o p) = 0%N ->
  (index_path p = devnull \/ exists_ (fs w) (index_path p) = false) ->
  f <> devnull -> f <> [] -> ~ In 47%N f ->
  Conforming [] Y (hunks (effective o p)) ->
  fault w = None -> deferred_writes st = [] -> lookup (fs w) f = None ->
  exists st' w',
    process_section o st false p s w = (Ok (st', s), w') /\
    fs w' = upd (fs w) f (Reg (lines_bytes (newline_output o) Y) (created_mode (umask w))) /\
    same_state st st' /\ fault w' = None /\ umask w' = umask w.
Proof.
  intros (O1 & O2 & O3 & O4 & O5 & O6 & O8) Pf P3 Pop Po Pn Pm Ix Hd Hn Hs HC Fw Dw Lf.
  assert (Ad : is_adding_file p o = true) by (rewrite adding_iff, Pop; reflexivity).
  assert (Ex : exists_ (fs w) f = false) by (apply exists_none; exact Lf).
  assert (G : guess_filepath (fs w) (map d_dest (deferred_writes st)) p o = f).
  { rewrite Dw. cbn [map]. apply guess_adding; assumption. }
  assert (Out : output_path o p f = f) by (apply output_add_delete; [exact O2|apply (adding_oper o); exact Ad]).
  rewrite (head_absent o st p s w f O1 G Out Dw Fw Lf Ad P3 Hn).
  assert (Guard : creation_guard (effective o p) []) by (intros _; reflexivity).
  assert (Hx : (Z.of_nat (length (@nil line)) < MAXZ)%Z) by (cbn; unfold MAXZ; lia).
  destruct (apply_conforming_gen_full o p [] Y O5 O6 O8 HC Hx Guard) as (r & Er & Ro & Rf & Rr & Rs & Rp & Rm & hs & Hp3).
  rewrite mbind_eq. unfold mlift. rewrite Er.
  assert (Q1 : pfmt (r_patch r) <> FGit) by (rewrite Hp3; cbn [set_hunks pfmt]; rewrite eff_pfmt; exact Pf).
  assert (Q2 : poper (r_patch r) = OpAdd) by (rewrite Hp3; exact Pop).
  assert (Q3 : new_mode (r_patch r) = 0%N) by (rewrite Hp3; exact Pm).
  rewrite (tail_write o st f f perms_unknown perms_unknown r s _ O2 O3 O4 Rf Rs Rp Rm Q1 (or_intror (or_introl Q2)) Q3 (or_introl Q2) Hn Hs).
  change (N.eqb perms_unknown perms_unknown) with true. cbv iota. rewrite Ro.
  set (w1 := mkWorld (fs w) (umask w) (trace w ++ [OOpenRead f]) None (stdout_data w)).
  destruct (write_absent o (add_event st []) f (lines_bytes (newline_output o) Y) w1 eq_refl Hs Lf) as (w' & Ew & Fs' & Fa' & Um').
  rewrite mbind_eq, Ew. cbn [mret].
  eexists. exists w'. split; [reflexivity|]. split; [exact Fs'|]. split; [apply same_state_add_event|]. split; [exact Fa'|exact Um'].
Qed.

(* a patch that, as apply_patch sees it, deletes the file f which holds X, with --remove-empty-files in force *)
Lemma section_remove_gen o p f X st s w data mode :
  plain_options o -> remove_empty_files o = OBYes ->
  prereq p = [] ->
  poper (effective o p) = OpDelete -> old_path (effective o p) = f -> new_path (effective o p) = devnull ->
  f <> devnull -> f <> [] -> ~ In 47%N f ->
  Conforming X [] (hunks (effective o p)) ->
  (Z.of_nat (length X) < MAXZ)%Z ->
  fault w = None -> deferred_writes st = [] ->
  lookup (fs w) f = Some (Reg data mode) -> (mode < 4096)%N -> owner_r mode = true ->
  (N.land mode write_mask <> 0%N \/ read_only o <> ROFail) ->
  split_lines data = X ->
  exists st' w',
    process_section o st false p s w = (Ok (st', s), w') /\
    fs w' = remove_key (fs w) f /\
    same_state st st' /\ fault w' = None /\ umask w' = umask w.
Proof.
  intros (O1 & O2 & O3 & O4 & O5 & O6 & O8) Re P3 Pop Po Pn Hd Hn Hs HC Hx Fw Dw Lf Hm Hr Hw HX.
  assert (Ex : exists_ (fs w) f = true) by (unfold exists_; rewrite (stat_reg _ _ _ _ Hs Lf); reflexivity).
  assert (Names : (old_path p = f /\ new_path p = devnull \/ old_path p = devnull /\ new_path p = f) /\
                  (poper p = OpAdd \/ poper p = OpDelete)).
  { unfold effective in Pop, Po, Pn. destruct (reverse_patch_opt o); cbn [reverse_patch old_path new_path poper] in Pop, Po, Pn.
    - split; [right; split; assumption|]. destruct (poper p); try discriminate; auto.
    - split; [left; split; assumption|]. right. exact Pop. }
  destruct Names as [Nm Op].
  assert (G : guess_filepath (fs w) (map d_dest (deferred_writes st)) p o = f).
  { rewrite Dw. cbn [map]. apply guess_existing; assumption. }
  assert (Out : output_path o p f = f) by (apply output_add_delete; assumption).
  rewrite (head_existing o st p s w f data mode O1 G Out Dw Fw Lf Hm Hr Hw P3).
  2:{ destruct Op as [E|E]; rewrite E; discriminate. } 2: exact Hn. 2: exact Hs.
  rewrite HX.
  assert (Guard : creation_guard (effective o p) X).
  { intros E. exfalso. unfold creates_file in E. rewrite Po in E. apply str_eqb_eq in E. contradiction. }
  destruct (apply_conforming_gen_full o p X [] O5 O6 O8 HC Hx Guard) as (r & Er & Ro & Rf & Rr & Rs & Rp & Rm & hs & Hp3).
  rewrite mbind_eq. unfold mlift. rewrite Er.
  assert (Q2 : poper (r_patch r) = OpDelete) by (rewrite Hp3; exact Pop).
  set (w1 := mkWorld (fs w) (umask w) (trace w ++ [OOpenRead f]) None (stdout_data w)).
  rewrite (tail_remove o st f f mode mode _ r s w1 O2 O3 O4 Re Rf Rs Rp Rm Ro Q2 Ex).
  destruct (remove_existing f w1 data mode eq_refl Hn Hs Lf) as (w' & Ew & Fs' & Fa' & Um').
  rewrite mbind_eq, Ew. cbn [mret].
  eexists. exists w'. split; [reflexivity|]. split; [exact Fs'|]. split; [apply same_state_add_event|]. split; [exact Fa'|exact Um'].
Qed.

(* ---------- frame facts in the form the statements use ---------- *)
Lemma upd_upd_lookup m f n1 n2 :
  lookup (upd (upd m f n1) f n2) f = Some n2 /\ (forall q, q <> f -> lookup (upd (upd m f n1) f n2) q = lookup m q).
Proof.
  split; [apply lookup_upd_same|]. intros q Hq.
  rewrite !lookup_upd_other by (intros E; apply Hq; symmetry; exact E). reflexivity.
Qed.

Lemma upd_lookup m f n :
  lookup (upd m f n) f = Some n /\ (forall q, q <> f -> lookup (upd m f n) q = lookup m q).
Proof.
  split; [apply lookup_upd_same|]. intros q Hq. apply lookup_upd_other. intros E; apply Hq; symmetry; exact E.
Qed.

Lemma remove_lookup m f :
  lookup (remove_key m f) f = None /\ (forall q, q <> f -> lookup (remove_key m f) q = lookup m q).
Proof.
  split; [apply lookup_remove_same|]. intros q Hq. apply lookup_remove_other. intros E; apply Hq; symmetry; exact E.
Qed.

Lemma created_mode_small um : (created_mode um < 4096)%N.
Proof.
  unfold created_mode. set (x := N.lxor 4095 (N.land um 4095)).
  assert (E : N.land (N.land 438 x) 4095 = N.land 438 x).
  { rewrite <- N.land_assoc, (N.land_comm x 4095), N.land_assoc. reflexivity. }
  rewrite <- E. change 4095%N with (N.ones 12). rewrite N.land_ones. apply N.mod_lt. discriminate.
Qed.

(* ================= (1) a change section under -R ================= *)
(* the forward direction in the same shape (Proofs_EndToEnd.section_writes_new_version with the hypotheses on the format,
   the emptiness of the result and the write bits weakened) *)
Theorem section_forward_writes o p f A B st s w data mode :
  plain_options o -> reverse_patch_opt o = false ->
  pfmt p <> FGit -> poper p = OpChange -> prereq p = [] -> old_path p = f -> new_path p = f -> new_mode p = 0%N ->
  f <> devnull -> f <> [] -> ~ In 47%N f ->
  Conforming A B (hunks p) ->
  (remove_empty_files o <> OBYes \/ lines_bytes (newline_output o) B <> []) ->
  (Z.of_nat (length A) < MAXZ)%Z ->
  fault w = None -> deferred_writes st = [] ->
  lookup (fs w) f = Some (Reg data mode) -> (mode < 4096)%N -> owner_r mode = true -> owner_w mode = true ->
  split_lines data = A ->
  exists st' w',
    process_section o st false p s w = (Ok (st', s), w') /\
    lookup (fs w') f = Some (Reg (lines_bytes (newline_output o) B) mode) /\
    (forall q, q <> f -> lookup (fs w') q = lookup (fs w) q) /\
    same_state st st' /\ fault w' = None /\ umask w' = umask w.
Proof.
  intros Op Rv Pf Pop P3 Po Pn Pm Hd Hn Hs HC Ne Hx Fw Dw Lf Hm Hr Hw HA.
  destruct (section_change_gen o p f A B st s w data mode Op Pf Pop P3 Po Pn) as (st' & w' & E & Fs' & Ss & Fa & Um); try assumption.
  - unfold effective. rewrite Rv. exact Pm.
  - unfold effective. rewrite Rv. exact HC.
  - exists st', w'. split; [exact E|]. rewrite Fs'. destruct (upd_upd_lookup (fs w) f (Reg (lines_bytes (newline_output o) B) mode) (Reg (lines_bytes (newline_output o) B) mode)) as [L1 L2].
    repeat split; try assumption; apply Ss.
Qed.

(* C05 at driver level: one section of a diff of A to B whose names are a file in the working directory, run with -R when
   that file is a regular file holding B, readable and writable, and nothing fails: the section ends with exactly A in it
   (written with the terminators --newline-output asks for), its mode unchanged, every other entry of the tree untouched,
   no failure recorded, no message, nothing deferred. *)
Theorem section_reverse_restores o p f A B st s w data mode :
  plain_options o -> reverse_patch_opt o = true ->
  pfmt p <> FGit -> poper p = OpChange -> prereq p = [] -> old_path p = f -> new_path p = f -> old_mode p = 0%N ->
  f <> devnull -> f <> [] -> ~ In 47%N f ->
  Conforming A B (hunks p) ->
  (remove_empty_files o <> OBYes \/ lines_bytes (newline_output o) A <> []) ->
  (Z.of_nat (length B) < MAXZ)%Z ->
  fault w = None -> deferred_writes st = [] ->
  lookup (fs w) f = Some (Reg data mode) -> (mode < 4096)%N -> owner_r mode = true -> owner_w mode = true ->
  split_lines data = B ->
  exists st' w',
    process_section o st false p s w = (Ok (st', s), w') /\
    lookup (fs w') f = Some (Reg (lines_bytes (newline_output o) A) mode) /\
    (forall q, q <> f -> lookup (fs w') q = lookup (fs w) q) /\
    same_state st st' /\ fault w' = None /\ umask w' = umask w.
Proof.
  intros Op Rv Pf Pop P3 Po Pn Pm Hd Hn Hs HC Ne Hx Fw Dw Lf Hm Hr Hw HB.
  destruct (section_change_gen o p f B A st s w data mode Op Pf Pop P3 Po Pn) as (st' & w' & E & Fs' & Ss & Fa & Um); try assumption.
  - unfold effective. rewrite Rv. exact Pm.
  - unfold effective. rewrite Rv. cbn [reverse_patch hunks]. apply conforming_reverse. exact HC.
  - exists st', w'. split; [exact E|]. rewrite Fs'. destruct (upd_upd_lookup (fs w) f (Reg (lines_bytes (newline_output o) A) mode) (Reg (lines_bytes (newline_output o) A) mode)) as [L1 L2].
    repeat split; try assumption; apply Ss.
Qed.

(* apply, then apply the same patch with -R (a second run: its own options, its own driver state, any stream).  B must be
   what reading the file the first run wrote gives back: split_lines (lines_bytes .. B) = B. *)
Theorem section_roundtrip oF oR p f A B st s st2 s2 w data mode :
  plain_options oF -> reverse_patch_opt oF = false -> plain_options oR -> reverse_patch_opt oR = true ->
  pfmt p <> FGit -> poper p = OpChange -> prereq p = [] -> old_path p = f -> new_path p = f ->
  old_mode p = 0%N -> new_mode p = 0%N ->
  f <> devnull -> f <> [] -> ~ In 47%N f ->
  Conforming A B (hunks p) ->
  (remove_empty_files oF <> OBYes \/ lines_bytes (newline_output oF) B <> []) ->
  (remove_empty_files oR <> OBYes \/ lines_bytes (newline_output oR) A <> []) ->
  (Z.of_nat (length A) < MAXZ)%Z -> (Z.of_nat (length B) < MAXZ)%Z ->
  split_lines (lines_bytes (newline_output oF) B) = B ->
  fault w = None -> deferred_writes st = [] -> deferred_writes st2 = [] ->
  lookup (fs w) f = Some (Reg data mode) -> (mode < 4096)%N -> owner_r mode = true -> owner_w mode = true ->
  split_lines data = A ->
  exists st1 w1 st3 w2,
    process_section oF st false p s w = (Ok (st1, s), w1) /\
    process_section oR st2 false p s2 w1 = (Ok (st3, s2), w2) /\
    lookup (fs w2) f = Some (Reg (lines_bytes (newline_output oR) A) mode) /\
    (forall q, q <> f -> lookup (fs w2) q = lookup (fs w) q) /\
    same_state st st1 /\ same_state st2 st3 /\ fault w2 = None /\ umask w2 = umask w.
Proof.
  intros OpF RvF OpR RvR Pf Pop P3 Po Pn Pmo Pmn Hd Hn Hs HC NeB NeA HxA HxB Can Fw Dw Dw2 Lf Hm Hr Hw HA.
  destruct (section_forward_writes oF p f A B st s w data mode OpF RvF Pf Pop P3 Po Pn Pmn Hd Hn Hs HC NeB HxA Fw Dw Lf Hm Hr Hw HA)
    as (st1 & w1 & E1 & L1 & O1 & S1 & F1 & U1).
  destruct (section_reverse_restores oR p f A B st2 s2 w1 (lines_bytes (newline_output oF) B) mode OpR RvR Pf Pop P3 Po Pn Pmo Hd Hn Hs HC NeA HxB F1 Dw2 L1 Hm Hr Hw Can)
    as (st3 & w2 & E2 & L2 & O2 & S2 & F2 & U2).
  exists st1, w1, st3, w2. split; [exact E1|]. split; [exact E2|]. split; [exact L2|]. split.
  - intros q Hq. rewrite (O2 q Hq). apply O1. exact Hq.
  - split; [exact S1|]. split; [exact S2|]. split; [exact F2|]. rewrite U2. exact U1.
Qed.

(* lines without CR LF terminators are written the same way by every newline mode except crlf *)
Definition no_crlf (ls : list line) : Prop := Forall (fun l => nl l <> CRLF) ls.

Lemma lines_bytes_no_crlf m ls : m <> MCRLF -> no_crlf ls -> lines_bytes m ls = lines_bytes MKeep ls.
Proof.
  intros Hm H. induction H as [|l r Hl Hr IH]; [reflexivity|]. rewrite !lines_bytes_cons, IH. f_equal.
  unfold line_bytes. f_equal. destruct (nl l), m; try reflexivity; congruence.
Qed.

(* byte for byte: with the files given as bytes (A and B are the lines they are read into), and terminators that survive the
   writing (--newline-output=preserve, or any mode but crlf when neither file has a CR LF line end), the two runs leave
   in f exactly the bytes it started with *)
Theorem section_roundtrip_bytes oF oR p f dataA dataB st s st2 s2 w mode :
  plain_options oF -> reverse_patch_opt oF = false -> plain_options oR -> reverse_patch_opt oR = true ->
  pfmt p <> FGit -> poper p = OpChange -> prereq p = [] -> old_path p = f -> new_path p = f ->
  old_mode p = 0%N -> new_mode p = 0%N ->
  f <> devnull -> f <> [] -> ~ In 47%N f ->
  Conforming (split_lines dataA) (split_lines dataB) (hunks p) ->
  (newline_output oF = MKeep \/ newline_output oF <> MCRLF /\ no_crlf (split_lines dataB)) ->
  (newline_output oR = MKeep \/ newline_output oR <> MCRLF /\ no_crlf (split_lines dataA)) ->
  (remove_empty_files oF <> OBYes \/ dataB <> []) ->
  (remove_empty_files oR <> OBYes \/ dataA <> []) ->
  (Z.of_nat (length (split_lines dataA)) < MAXZ)%Z -> (Z.of_nat (length (split_lines dataB)) < MAXZ)%Z ->
  fault w = None -> deferred_writes st = [] -> deferred_writes st2 = [] ->
  lookup (fs w) f = Some (Reg dataA mode) -> (mode < 4096)%N -> owner_r mode = true -> owner_w mode = true ->
  exists st1 w1 st3 w2,
    process_section oF st false p s w = (Ok (st1, s), w1) /\
    lookup (fs w1) f = Some (Reg dataB mode) /\
    process_section oR st2 false p s2 w1 = (Ok (st3, s2), w2) /\
    lookup (fs w2) f = Some (Reg dataA mode) /\
    (forall q, q <> f -> lookup (fs w2) q = lookup (fs w) q) /\
    had_failure st1 = had_failure st /\ had_failure st3 = had_failure st2 /\ fault w2 = None.
Proof.
  intros OpF RvF OpR RvR Pf Pop P3 Po Pn Pmo Pmn Hd Hn Hs HC NlF NlR NeB NeA HxA HxB Fw Dw Dw2 Lf Hm Hr Hw.
  assert (WB : lines_bytes (newline_output oF) (split_lines dataB) = dataB).
  { destruct NlF as [E|[E1 E2]]; [rewrite E|rewrite (lines_bytes_no_crlf _ _ E1 E2)]; apply split_lines_roundtrip. }
  assert (WA : lines_bytes (newline_output oR) (split_lines dataA) = dataA).
  { destruct NlR as [E|[E1 E2]]; [rewrite E|rewrite (lines_bytes_no_crlf _ _ E1 E2)]; apply split_lines_roundtrip. }
  assert (NeB' : remove_empty_files oF <> OBYes \/ lines_bytes (newline_output oF) (split_lines dataB) <> []) by (rewrite WB; exact NeB).
  assert (NeA' : remove_empty_files oR <> OBYes \/ lines_bytes (newline_output oR) (split_lines dataA) <> []) by (rewrite WA; exact NeA).
  assert (Can : split_lines (lines_bytes (newline_output oF) (split_lines dataB)) = split_lines dataB) by (rewrite WB; reflexivity).
  destruct (section_forward_writes oF p f _ _ st s w dataA mode OpF RvF Pf Pop P3 Po Pn Pmn Hd Hn Hs HC NeB' HxA Fw Dw Lf Hm Hr Hw eq_refl)
    as (st1 & w1 & E1 & L1 & O1 & S1 & F1 & U1).
  destruct (section_reverse_restores oR p f _ _ st2 s2 w1 _ mode OpR RvR Pf Pop P3 Po Pn Pmo Hd Hn Hs HC NeA' HxB F1 Dw2 L1 Hm Hr Hw Can)
    as (st3 & w2 & E2 & L2 & O2 & S2 & F2 & U2).
  exists st1, w1, st3, w2. rewrite WB in L1. rewrite WA in L2.
  split; [exact E1|]. split; [exact L1|]. split; [exact E2|]. split; [exact L2|]. split.
  - intros q Hq. rewrite (O2 q Hq). apply O1. exact Hq.
  - split; [apply S1|]. split; [apply S2|exact F2].
Qed.

(* ================= (2) creation and deletion change places under -R ================= *)
(* a patch that creates f (old name /dev/null, operation add), f not there: the section creates it with B and the
   permissions 0666 & ~umask *)
Theorem section_creates o p f B st s w :
  plain_options o -> reverse_patch_opt o = false ->
  pfmt p <> FGit -> poper p = OpAdd -> prereq p = [] -> old_path p = devnull -> new_path p = f -> new_mode p = 0%N ->
  (index_path p = devnull \/ exists_ (fs w) (index_path p) = false) ->
  f <> devnull -> f <> [] -> ~ In 47%N f ->
  Conforming [] B (hunks p) ->
  fault w = None -> deferred_writes st = [] -> lookup (fs w) f = None ->
  exists st' w',
    process_section o st false p s w = (Ok (st', s), w') /\
    fs w' = upd (fs w) f (Reg (lines_bytes (newline_output o) B) (created_mode (umask w))) /\
    lookup (fs w') f = Some (Reg (lines_bytes (newline_output o) B) (created_mode (umask w))) /\
    (forall q, q <> f -> lookup (fs w') q = lookup (fs w) q) /\
    same_state st st' /\ fault w' = None /\ umask w' = umask w.
Proof.
  intros Op Rv Pf Pop P3 Po Pn Pm Ix Hd Hn Hs HC Fw Dw Lf.
  destruct (section_add_gen o p f B st s w Op Pf P3) as (st' & w' & E & Fs' & Ss & Fa & Um); try assumption;
    try (unfold effective; rewrite Rv; assumption).
  exists st', w'. split; [exact E|]. split; [exact Fs'|]. rewrite Fs'.
  destruct (upd_lookup (fs w) f (Reg (lines_bytes (newline_output o) B) (created_mode (umask w)))) as [L1 L2].
  split; [exact L1|]. split; [exact L2|]. split; [exact Ss|]. split; [exact Fa|exact Um].
Qed.

(* the same patch with -R (and --remove-empty-files in force) when f holds B: the section removes f *)
Theorem section_reverse_of_creation_removes o p f B st s w data mode :
  plain_options o -> reverse_patch_opt o = true -> remove_empty_files o = OBYes ->
  poper p = OpAdd -> prereq p = [] -> old_path p = devnull -> new_path p = f ->
  f <> devnull -> f <> [] -> ~ In 47%N f ->
  Conforming [] B (hunks p) -> (Z.of_nat (length B) < MAXZ)%Z ->
  fault w = None -> deferred_writes st = [] ->
  lookup (fs w) f = Some (Reg data mode) -> (mode < 4096)%N -> owner_r mode = true ->
  (N.land mode write_mask <> 0%N \/ read_only o <> ROFail) ->
  split_lines data = B ->
  exists st' w',
    process_section o st false p s w = (Ok (st', s), w') /\
    fs w' = remove_key (fs w) f /\
    lookup (fs w') f = None /\
    (forall q, q <> f -> lookup (fs w') q = lookup (fs w) q) /\
    same_state st st' /\ fault w' = None /\ umask w' = umask w.
Proof.
  intros Op Rv Re Pop P3 Po Pn Hd Hn Hs HC Hx Fw Dw Lf Hm Hr Hw HB.
  destruct (section_remove_gen o p f B st s w data mode Op Re P3) as (st' & w' & E & Fs' & Ss & Fa & Um); try assumption;
    try (unfold effective; rewrite Rv; cbn [reverse_patch poper old_path new_path]; try rewrite Pop; try assumption; reflexivity).
  - unfold effective. rewrite Rv. cbn [reverse_patch hunks]. apply conforming_reverse. exact HC.
  - exists st', w'. split; [exact E|]. split; [exact Fs'|]. rewrite Fs'. destruct (remove_lookup (fs w) f) as [L1 L2].
    split; [exact L1|]. split; [exact L2|]. split; [exact Ss|]. split; [exact Fa|exact Um].
Qed.

(* a patch that deletes f (new name /dev/null, operation delete), f holding A, --remove-empty-files in force: removed *)
Theorem section_deletes o p f A st s w data mode :
  plain_options o -> reverse_patch_opt o = false -> remove_empty_files o = OBYes ->
  poper p = OpDelete -> prereq p = [] -> old_path p = f -> new_path p = devnull ->
  f <> devnull -> f <> [] -> ~ In 47%N f ->
  Conforming A [] (hunks p) -> (Z.of_nat (length A) < MAXZ)%Z ->
  fault w = None -> deferred_writes st = [] ->
  lookup (fs w) f = Some (Reg data mode) -> (mode < 4096)%N -> owner_r mode = true ->
  (N.land mode write_mask <> 0%N \/ read_only o <> ROFail) ->
  split_lines data = A ->
  exists st' w',
    process_section o st false p s w = (Ok (st', s), w') /\
    fs w' = remove_key (fs w) f /\
    lookup (fs w') f = None /\
    (forall q, q <> f -> lookup (fs w') q = lookup (fs w) q) /\
    same_state st st' /\ fault w' = None /\ umask w' = umask w.
Proof.
  intros Op Rv Re Pop P3 Po Pn Hd Hn Hs HC Hx Fw Dw Lf Hm Hr Hw HA.
  destruct (section_remove_gen o p f A st s w data mode Op Re P3) as (st' & w' & E & Fs' & Ss & Fa & Um); try assumption;
    try (unfold effective; rewrite Rv; assumption).
  exists st', w'. split; [exact E|]. split; [exact Fs'|]. rewrite Fs'. destruct (remove_lookup (fs w) f) as [L1 L2].
  split; [exact L1|]. split; [exact L2|]. split; [exact Ss|]. split; [exact Fa|exact Um].
Qed.

(* the same patch with -R when f is not there: the section recreates it with A (permissions 0666 & ~umask) *)
Theorem section_reverse_of_deletion_recreates o p f A st s w :
  plain_options o -> reverse_patch_opt o = true ->
  pfmt p <> FGit -> poper p = OpDelete -> prereq p = [] -> old_path p = f -> new_path p = devnull -> old_mode p = 0%N ->
  (index_path p = devnull \/ exists_ (fs w) (index_path p) = false) ->
  f <> devnull -> f <> [] -> ~ In 47%N f ->
  Conforming A [] (hunks p) ->
  fault w = None -> deferred_writes st = [] -> lookup (fs w) f = None ->
  exists st' w',
    process_section o st false p s w = (Ok (st', s), w') /\
    fs w' = upd (fs w) f (Reg (lines_bytes (newline_output o) A) (created_mode (umask w))) /\
    lookup (fs w') f = Some (Reg (lines_bytes (newline_output o) A) (created_mode (umask w))) /\
    (forall q, q <> f -> lookup (fs w') q = lookup (fs w) q) /\
    same_state st st' /\ fault w' = None /\ umask w' = umask w.
Proof.
  intros Op Rv Pf Pop P3 Po Pn Pm Ix Hd Hn Hs HC Fw Dw Lf.
  destruct (section_add_gen o p f A st s w Op Pf P3) as (st' & w' & E & Fs' & Ss & Fa & Um); try assumption;
    try (unfold effective; rewrite Rv; cbn [reverse_patch poper old_path new_path new_mode]; try rewrite Pop; try assumption; reflexivity).
  - unfold effective. rewrite Rv. cbn [reverse_patch hunks]. apply conforming_reverse. exact HC.
  - exists st', w'. split; [exact E|]. split; [exact Fs'|]. rewrite Fs'.
    destruct (upd_lookup (fs w) f (Reg (lines_bytes (newline_output o) A) (created_mode (umask w)))) as [L1 L2].
    split; [exact L1|]. split; [exact L2|]. split; [exact Ss|]. split; [exact Fa|exact Um].
Qed.

(* create, then the same patch with -R: the tree is, entry for entry and in the same order, the tree before the creation *)
Theorem creation_roundtrip oF oR p f B st s st2 s2 w :
  plain_options oF -> reverse_patch_opt oF = false ->
  plain_options oR -> reverse_patch_opt oR = true -> remove_empty_files oR = OBYes ->
  pfmt p <> FGit -> poper p = OpAdd -> prereq p = [] -> old_path p = devnull -> new_path p = f -> new_mode p = 0%N ->
  (index_path p = devnull \/ exists_ (fs w) (index_path p) = false) ->
  f <> devnull -> f <> [] -> ~ In 47%N f ->
  Conforming [] B (hunks p) -> (Z.of_nat (length B) < MAXZ)%Z ->
  split_lines (lines_bytes (newline_output oF) B) = B ->
  fault w = None -> deferred_writes st = [] -> deferred_writes st2 = [] -> lookup (fs w) f = None ->
  owner_r (created_mode (umask w)) = true ->
  (N.land (created_mode (umask w)) write_mask <> 0%N \/ read_only oR <> ROFail) ->
  exists st1 w1 st3 w2,
    process_section oF st false p s w = (Ok (st1, s), w1) /\
    lookup (fs w1) f = Some (Reg (lines_bytes (newline_output oF) B) (created_mode (umask w))) /\
    process_section oR st2 false p s2 w1 = (Ok (st3, s2), w2) /\
    fs w2 = fs w /\
    same_state st st1 /\ same_state st2 st3 /\ fault w2 = None /\ umask w2 = umask w.
Proof.
  intros OpF RvF OpR RvR Re Pf Pop P3 Po Pn Pm Ix Hd Hn Hs HC Hx Can Fw Dw Dw2 Lf Hr Hw.
  destruct (section_creates oF p f B st s w OpF RvF Pf Pop P3 Po Pn Pm Ix Hd Hn Hs HC Fw Dw Lf)
    as (st1 & w1 & E1 & Fs1 & L1 & O1 & S1 & F1 & U1).
  destruct (section_reverse_of_creation_removes oR p f B st2 s2 w1 _ _ OpR RvR Re Pop P3 Po Pn Hd Hn Hs HC Hx F1 Dw2 L1
              (created_mode_small _) Hr Hw Can)
    as (st3 & w2 & E2 & Fs2 & L2 & O2 & S2 & F2 & U2).
  exists st1, w1, st3, w2. split; [exact E1|]. split; [exact L1|]. split; [exact E2|]. split.
  - rewrite Fs2, Fs1, remove_key_upd. apply remove_key_absent. exact Lf.
  - split; [exact S1|]. split; [exact S2|]. split; [exact F2|]. rewrite U2. exact U1.
Qed.

(* delete, then the same patch with -R: the file is back with its content (as --newline-output writes it) and the
   permissions of a new file; every other entry as at the start *)
Theorem deletion_roundtrip oF oR p f A st s st2 s2 w data mode :
  plain_options oF -> reverse_patch_opt oF = false -> remove_empty_files oF = OBYes ->
  plain_options oR -> reverse_patch_opt oR = true ->
  pfmt p <> FGit -> poper p = OpDelete -> prereq p = [] -> old_path p = f -> new_path p = devnull -> old_mode p = 0%N ->
  (index_path p = devnull \/ exists_ (remove_key (fs w) f) (index_path p) = false) ->
  f <> devnull -> f <> [] -> ~ In 47%N f ->
  Conforming A [] (hunks p) -> (Z.of_nat (length A) < MAXZ)%Z ->
  fault w = None -> deferred_writes st = [] -> deferred_writes st2 = [] ->
  lookup (fs w) f = Some (Reg data mode) -> (mode < 4096)%N -> owner_r mode = true ->
  (N.land mode write_mask <> 0%N \/ read_only oF <> ROFail) ->
  split_lines data = A ->
  exists st1 w1 st3 w2,
    process_section oF st false p s w = (Ok (st1, s), w1) /\
    lookup (fs w1) f = None /\
    process_section oR st2 false p s2 w1 = (Ok (st3, s2), w2) /\
    lookup (fs w2) f = Some (Reg (lines_bytes (newline_output oR) A) (created_mode (umask w))) /\
    (forall q, q <> f -> lookup (fs w2) q = lookup (fs w) q) /\
    same_state st st1 /\ same_state st2 st3 /\ fault w2 = None /\ umask w2 = umask w.
Proof.
  intros OpF RvF Re OpR RvR Pf Pop P3 Po Pn Pm Ix Hd Hn Hs HC Hx Fw Dw Dw2 Lf Hm Hr Hw HA.
  destruct (section_deletes oF p f A st s w data mode OpF RvF Re Pop P3 Po Pn Hd Hn Hs HC Hx Fw Dw Lf Hm Hr Hw HA)
    as (st1 & w1 & E1 & Fs1 & L1 & O1 & S1 & F1 & U1).
  assert (Ix1 : index_path p = devnull \/ exists_ (fs w1) (index_path p) = false) by (rewrite Fs1; exact Ix).
  destruct (section_reverse_of_deletion_recreates oR p f A st2 s2 w1 OpR RvR Pf Pop P3 Po Pn Pm Ix1 Hd Hn Hs HC F1 Dw2 L1)
    as (st3 & w2 & E2 & Fs2 & L2 & O2 & S2 & F2 & U2).
  exists st1, w1, st3, w2. split; [exact E1|]. split; [exact L1|]. split; [exact E2|]. split; [rewrite <- U1; exact L2|]. split.
  - intros q Hq. rewrite (O2 q Hq). apply O1. exact Hq.
  - split; [exact S1|]. split; [exact S2|]. split; [exact F2|]. rewrite U2. exact U1.
Qed.

(* ================= (3) a git rename and its reversal ================= *)
(* the head of a section that reads src and is going to write dst, another name, which is not there *)
Lemma head_rename o st p s w src dst data mode :
  file_to_patch o = [] ->
  guess_filepath (fs w) (map d_dest (deferred_writes st)) p o = src -> output_path o p src = dst ->
  deferred_writes st = [] -> fault w = None ->
  lookup (fs w) src = Some (Reg data mode) -> (mode < 4096)%N -> owner_r mode = true ->
  lookup (fs w) dst = None -> src <> dst ->
  prereq p = [] -> poper p = OpRename -> src <> [] -> ~ In 47%N src ->
  process_section o st false p s w =
  (let! ar := mlift (apply_patch o (split_lines data) p) in
   section_tail o st src dst perms_unknown mode false ar s)
    (mkWorld (fs w) (umask w) (trace w ++ [OOpenRead src]) None (stdout_data w)).
Proof.
  intros O1 G Out Dw Fw Lf Hm Hr Lg Hne P3 Pop Hn Hs.
  pose proof (stat_reg _ _ _ _ Hs Lf) as St. pose proof (stat_absent _ _ Lg) as Sg.
  assert (Ex : exists_ (fs w) src = true) by (unfold exists_; rewrite St; reflexivity).
  assert (Rg : is_regular_file (fs w) src = true) by (unfold is_regular_file; rewrite St; reflexivity).
  unfold process_section. rewrite mbind_eq. cbn [get_fs]. rewrite O1. cbn [is_nil]. rewrite G.
  assert (Nn : is_nil src = false) by (destruct src; [congruence|reflexivity]). rewrite Nn.
  rewrite Ex, Rg. cbn [negb andb]. rewrite Out.
  assert (GP : get_permissions (fs w) src = mode) by (unfold get_permissions; rewrite St; apply land_small; exact Hm).
  assert (GQ : get_permissions (fs w) dst = perms_unknown) by (unfold get_permissions; rewrite Sg; reflexivity).
  assert (EP : effective_perms st (fs w) dst = perms_unknown) by (unfold effective_perms; rewrite Dw; cbn [rev find]; exact GQ).
  rewrite EP, unknown_not_needed. cbn [andb]. rewrite Pop. change (N.eqb perms_unknown perms_unknown) with true. cbn [andb].
  rewrite GP.
  assert (Ne : str_eqb src dst = false) by (apply str_eqb_neq; exact Hne).
  assert (PC : pending_content st (fs w) src dst = None) by (unfold pending_content; rewrite Ne; reflexivity).
  rewrite PC, Ne.
  set (w1 := mkWorld (fs w) (umask w) (trace w ++ [OOpenRead src]) None (stdout_data w)).
  assert (Rd : perform (OOpenRead src) w = (Ok None, w1)).
  { apply perform_ok_run; [exact Fw|]. cbn [exec_op]. rewrite St, Hr. reflexivity. }
  rewrite mbind_eq. rewrite mbind_eq. rewrite Rd. rewrite St. cbn [mret].
  rewrite mbind_eq. rewrite P3. cbn [is_nil negb andb mret].
  unfold body_if. rewrite mbind_eq. cbn [mret]. reflexivity.
Qed.

(* section_tail of a perfectly applied git rename: nothing is done yet; the write of the new name (with the permissions
   of the old one) and the removal of the old name are put off to the end of the run *)
Definition rename_state (st : dstate) (bytes src dst : list N) (mode : N) : dstate :=
  mkDS (had_failure st) (backed_up st)
       (deferred_writes st ++ [mkDef bytes dst true false None (Some mode)])
       (deferred_removals st ++ [src]) (events st ++ []).

Lemma tail_rename o st src dst mode (ar : aresult) s2 w :
  out_file_path o = [] -> dry_run o = false -> save_backup o = false ->
  r_failed ar = 0 -> r_skipped ar = false -> r_perfect ar = true -> r_msgs ar = [] ->
  pfmt (r_patch ar) = FGit -> poper (r_patch ar) = OpRename -> new_mode (r_patch ar) = 0%N ->
  (mode < 4096)%N -> dst <> [] -> ~ In 47%N dst ->
  section_tail o st src dst perms_unknown mode false ar s2 w =
  (Ok (rename_state st (lines_bytes (newline_output o) (r_out ar)) src dst mode, s2), w).
Proof.
  intros O2 O3 O4 Rf Rs Rp Rm Pf Pop Pm Hm Hn Hs.
  unfold section_tail. rewrite Rf, Rs, Rp, Rm, Pm, O2, O3, O4, Pf, Pop.
  cbn [Nat.eqb negb andb orb is_nil].
  change (str_eqb [] (bs "-")) with false. cbv iota.
  rewrite mbind_eq. cbn [mret].
  rewrite (ensure_noslash dst Hn Hs).
  assert (X : match remove_empty_files o with OBYes => false | _ => false end = false) by (destruct (remove_empty_files o); reflexivity).
  rewrite X. rewrite mbind_eq. cbn [mret].
  assert (Unk : N.eqb mode perms_unknown = false) by (apply N.eqb_neq; unfold perms_unknown; lia).
  change (is_symlink_mode 0) with false. change (negb (0 =? 0)%N) with false. cbv iota. rewrite Unk.
  rewrite mbind_eq. rewrite mbind_eq. cbn [mret]. rewrite mbind_eq. cbn [andb deferred_writes add_event].
  rewrite existsb_app. cbn [existsb d_dest]. rewrite str_eqb_refl, orb_true_r. cbn [mret].
  reflexivity.
Qed.

(* the deferred write of a new name of the working directory: create, then set the permissions *)
Lemma write_absent_chmod o st f bytes nn pm w :
  fault w = None -> ~ In 47%N f -> lookup (fs w) f = None ->
  exists w', write_now o st (mkDef bytes f nn false None (Some pm)) w = (Ok st, w') /\
             fs w' = upd (upd (fs w) f (Reg bytes (created_mode (umask w)))) f (Reg bytes pm) /\ fault w' = None /\ umask w' = umask w.
Proof.
  intros Fw Hs Lf. pose proof (noslash_parent f Hs) as Par.
  unfold write_now. cbn [d_backup d_dest d_chmod_first d_data d_perm_after].
  rewrite mbind_eq. cbn [mret]. rewrite mbind_eq. cbn [get_fs]. rewrite mbind_eq. cbn [mret].
  set (w2 := mkWorld (upd (fs w) f (Reg bytes (created_mode (umask w)))) (umask w) (trace w ++ [OWrite f bytes]) None (stdout_data w)).
  assert (Wr : checked (OWrite f bytes) w = (Ok tt, w2)).
  { apply (checked_ok_run _ w); [exact Fw|]. cbn [exec_op]. rewrite Lf. unfold parent_ok. rewrite Par. reflexivity. }
  rewrite mbind_eq, Wr.
  set (w3 := mkWorld (upd (upd (fs w) f (Reg bytes (created_mode (umask w)))) f (Reg bytes pm)) (umask w) (trace w2 ++ [OChmod f pm]) None (stdout_data w)).
  assert (Ch : checked (OChmod f pm) w2 = (Ok tt, w3)).
  { apply (checked_ok_run _ w2); [reflexivity|]. cbn [exec_op fs w2]. unfold parent_ok. rewrite Par. cbn [negb]. rewrite lookup_upd_same. reflexivity. }
  rewrite mbind_eq, Ch. cbn [mret].
  exists w3. repeat split; reflexivity.
Qed.

(* a git rename as apply_patch sees it (effective o p): src holds X, dst is not there.  The section itself leaves the tree
   alone; the end of the run (process_patch: finalize_writes, then finalize_removals) writes dst with Y and the permissions
   of src, then removes src. *)
Lemma section_rename_gen o p src dst X Y st s w data mode :
  plain_options o ->
  pfmt p = FGit -> poper p = OpRename -> prereq p = [] ->
  old_path (effective o p) = src -> new_path (effective o p) = dst -> new_mode (effective o p) = 0%N ->
  src <> dst -> src <> devnull -> src <> [] -> ~ In 47%N src -> dst <> [] -> ~ In 47%N dst ->
  Conforming X Y (hunks (effective o p)) -> (Z.of_nat (length X) < MAXZ)%Z ->
  fault w = None -> deferred_writes st = [] -> deferred_removals st = [] ->
  lookup (fs w) src = Some (Reg data mode) -> (mode < 4096)%N -> owner_r mode = true ->
  lookup (fs w) dst = None ->
  split_lines data = X ->
  exists st1 w1 st2 w2 w3,
    process_section o st false p s w = (Ok (st1, s), w1) /\ fs w1 = fs w /\
    finalize_writes o st1 (deferred_writes st1) w1 = (Ok st2, w2) /\
    finalize_removals (deferred_writes st1) (deferred_removals st1) w2 = (Ok tt, w3) /\
    lookup (fs w3) dst = Some (Reg (lines_bytes (newline_output o) Y) mode) /\
    lookup (fs w3) src = None /\
    (forall q, q <> src -> q <> dst -> lookup (fs w3) q = lookup (fs w) q) /\
    had_failure st2 = had_failure st /\ events st2 = events st /\ fault w3 = None /\ umask w3 = umask w.
Proof.
  intros (O1 & O2 & O3 & O4 & O5 & O6 & O8) Pf Pop P3 Po Pn Pm Hne Hd Hn Hs Hn2 Hs2 HC Hx Fw Dw Dr Lf Hm Hr Lg HX.
  assert (Ex : exists_ (fs w) src = true) by (unfold exists_; rewrite (stat_reg _ _ _ _ Hs Lf); reflexivity).
  assert (Eg : exists_ (fs w) dst = false) by (apply exists_none; exact Lg).
  assert (G : guess_filepath (fs w) (map d_dest (deferred_writes st)) p o = src).
  { rewrite Dw. cbn [map]. unfold guess_filepath. cbn [existsb]. rewrite !orb_false_r. apply str_eqb_neq in Hd.
    unfold effective in Po, Pn. destruct (reverse_patch_opt o); cbn [reverse_patch old_path new_path] in Po, Pn; rewrite Po, Pn.
    - rewrite Eg, andb_false_r, Hd, Ex. reflexivity.
    - rewrite Hd, Ex. reflexivity. }
  assert (Out : output_path o p src = dst).
  { unfold output_path. rewrite O2, Pop. cbn [is_nil negb]. unfold effective in Pn. destruct (reverse_patch_opt o); exact Pn. }
  rewrite (head_rename o st p s w src dst data mode O1 G Out Dw Fw Lf Hm Hr Lg Hne P3 Pop Hn Hs).
  rewrite HX.
  assert (Guard : creation_guard (effective o p) X).
  { intros E. exfalso. unfold creates_file in E. rewrite Po in E. apply str_eqb_eq in E. contradiction. }
  destruct (apply_conforming_gen_full o p X Y O5 O6 O8 HC Hx Guard) as (r & Er & Ro & Rf & Rr & Rs & Rp & Rm & hs & Hp3).
  rewrite mbind_eq. unfold mlift. rewrite Er.
  assert (Q1 : pfmt (r_patch r) = FGit) by (rewrite Hp3; cbn [set_hunks pfmt]; rewrite eff_pfmt; exact Pf).
  assert (Q2 : poper (r_patch r) = OpRename).
  { rewrite Hp3. cbn [set_hunks poper]. unfold effective. destruct (reverse_patch_opt o); cbn [reverse_patch poper]; rewrite Pop; reflexivity. }
  assert (Q3 : new_mode (r_patch r) = 0%N) by (rewrite Hp3; exact Pm).
  rewrite (tail_rename o st src dst mode r s _ O2 O3 O4 Rf Rs Rp Rm Q1 Q2 Q3 Hm Hn2 Hs2). rewrite Ro.
  set (w1 := mkWorld (fs w) (umask w) (trace w ++ [OOpenRead src]) None (stdout_data w)).
  set (bytes := lines_bytes (newline_output o) Y).
  set (st1 := rename_state st bytes src dst mode).
  assert (D1 : deferred_writes st1 = [mkDef bytes dst true false None (Some mode)]) by (unfold st1, rename_state; cbn [deferred_writes]; rewrite Dw; reflexivity).
  assert (R1 : deferred_removals st1 = [src]) by (unfold st1, rename_state; cbn [deferred_removals]; rewrite Dr; reflexivity).
  destruct (write_absent_chmod o st1 dst bytes true mode w1 eq_refl Hs2 Lg) as (w2 & Ew & Fs2 & Fa2 & Um2).
  assert (Ls2 : lookup (fs w2) src = Some (Reg data mode)).
  { rewrite Fs2. rewrite !lookup_upd_other by (intros E; apply Hne; symmetry; exact E). exact Lf. }
  destruct (remove_existing src w2 data mode Fa2 Hn Hs Ls2) as (w3 & Eu & Fs3 & Fa3 & Um3).
  exists st1, w1, st1, w2, w3. split; [reflexivity|]. split; [reflexivity|]. split.
  { rewrite D1. unfold finalize_writes. cbn [finalize_writes_from d_dest]. unfold with_backup_of.
    cbn [d_data d_dest d_newname d_backup d_chmod_first d_perm_after existsb orb]. rewrite andb_false_r. cbn [orb].
    rewrite (ensure_noslash dst Hn2 Hs2). rewrite mbind_eq. cbn [mret].
    rewrite mbind_eq, Ew. reflexivity. }
  split.
  { rewrite D1, R1. cbn [finalize_removals existsb d_dest].
    assert (Ne : str_eqb dst src = false) by (apply str_eqb_neq; intros E; apply Hne; symmetry; exact E).
    rewrite Ne. cbn [orb]. rewrite mbind_eq, Eu. reflexivity. }
  rewrite Fs3, Fs2. split.
  { rewrite lookup_remove_other by exact Hne. apply lookup_upd_same. }
  split; [apply lookup_remove_same|]. split.
  { intros q H1 H2. rewrite lookup_remove_other by (intros E; apply H1; symmetry; exact E).
    rewrite !lookup_upd_other by (intros E; apply H2; symmetry; exact E). reflexivity. }
  split; [reflexivity|]. split; [unfold st1, rename_state; cbn [events]; apply app_nil_r|]. split; [exact Fa3|]. rewrite Um3. exact Um2.
Qed.

(* a git rename of f to g with a diff of A to B, f holding A, g not there: at the end of the run g holds B with the
   permissions f had, f is gone, every other entry untouched *)
Theorem rename_forward o p f g A B st s w data mode :
  plain_options o -> reverse_patch_opt o = false ->
  pfmt p = FGit -> poper p = OpRename -> prereq p = [] -> old_path p = f -> new_path p = g -> new_mode p = 0%N ->
  f <> g -> f <> devnull -> f <> [] -> ~ In 47%N f -> g <> [] -> ~ In 47%N g ->
  Conforming A B (hunks p) -> (Z.of_nat (length A) < MAXZ)%Z ->
  fault w = None -> deferred_writes st = [] -> deferred_removals st = [] ->
  lookup (fs w) f = Some (Reg data mode) -> (mode < 4096)%N -> owner_r mode = true ->
  lookup (fs w) g = None ->
  split_lines data = A ->
  exists st1 w1 st2 w2 w3,
    process_section o st false p s w = (Ok (st1, s), w1) /\ fs w1 = fs w /\
    finalize_writes o st1 (deferred_writes st1) w1 = (Ok st2, w2) /\
    finalize_removals (deferred_writes st1) (deferred_removals st1) w2 = (Ok tt, w3) /\
    lookup (fs w3) g = Some (Reg (lines_bytes (newline_output o) B) mode) /\
    lookup (fs w3) f = None /\
    (forall q, q <> f -> q <> g -> lookup (fs w3) q = lookup (fs w) q) /\
    had_failure st2 = had_failure st /\ events st2 = events st /\ fault w3 = None /\ umask w3 = umask w.
Proof.
  intros Op Rv Pf Pop P3 Po Pn Pm Hne Hd Hn Hs Hn2 Hs2 HC Hx Fw Dw Dr Lf Hm Hr Lg HA.
  apply (section_rename_gen o p f g A B st s w data mode Op Pf Pop P3); try assumption;
    unfold effective; rewrite Rv; assumption.
Qed.

(* the same patch with -R when g holds B and f is not there: the file is moved back, f holds A with the permissions g had *)
Theorem rename_reverse o p f g A B st s w data mode :
  plain_options o -> reverse_patch_opt o = true ->
  pfmt p = FGit -> poper p = OpRename -> prereq p = [] -> old_path p = f -> new_path p = g -> old_mode p = 0%N ->
  f <> g -> g <> devnull -> f <> [] -> ~ In 47%N f -> g <> [] -> ~ In 47%N g ->
  Conforming A B (hunks p) -> (Z.of_nat (length B) < MAXZ)%Z ->
  fault w = None -> deferred_writes st = [] -> deferred_removals st = [] ->
  lookup (fs w) g = Some (Reg data mode) -> (mode < 4096)%N -> owner_r mode = true ->
  lookup (fs w) f = None ->
  split_lines data = B ->
  exists st1 w1 st2 w2 w3,
    process_section o st false p s w = (Ok (st1, s), w1) /\ fs w1 = fs w /\
    finalize_writes o st1 (deferred_writes st1) w1 = (Ok st2, w2) /\
    finalize_removals (deferred_writes st1) (deferred_removals st1) w2 = (Ok tt, w3) /\
    lookup (fs w3) f = Some (Reg (lines_bytes (newline_output o) A) mode) /\
    lookup (fs w3) g = None /\
    (forall q, q <> g -> q <> f -> lookup (fs w3) q = lookup (fs w) q) /\
    had_failure st2 = had_failure st /\ events st2 = events st /\ fault w3 = None /\ umask w3 = umask w.
Proof.
  intros Op Rv Pf Pop P3 Po Pn Pm Hne Hd Hn Hs Hn2 Hs2 HC Hx Fw Dw Dr Lg Hm Hr Lf HB.
  apply (section_rename_gen o p g f B A st s w data mode Op Pf Pop P3); try assumption;
    try (unfold effective; rewrite Rv; cbn [reverse_patch old_path new_path new_mode]; assumption).
  - intros E. apply Hne. symmetry. exact E.
  - unfold effective. rewrite Rv. cbn [reverse_patch hunks]. apply conforming_reverse. exact HC.
Qed.

(* rename, then the same patch with -R in a second run: f is back, with content A as --newline-output writes it and its
   permissions; g is gone again; every other entry as at the start *)
Theorem rename_roundtrip oF oR p f g A B st s st' s' w data mode :
  plain_options oF -> reverse_patch_opt oF = false -> plain_options oR -> reverse_patch_opt oR = true ->
  pfmt p = FGit -> poper p = OpRename -> prereq p = [] -> old_path p = f -> new_path p = g ->
  old_mode p = 0%N -> new_mode p = 0%N ->
  f <> g -> f <> devnull -> g <> devnull -> f <> [] -> ~ In 47%N f -> g <> [] -> ~ In 47%N g ->
  Conforming A B (hunks p) -> (Z.of_nat (length A) < MAXZ)%Z -> (Z.of_nat (length B) < MAXZ)%Z ->
  split_lines (lines_bytes (newline_output oF) B) = B ->
  fault w = None -> deferred_writes st = [] -> deferred_removals st = [] ->
  deferred_writes st' = [] -> deferred_removals st' = [] ->
  lookup (fs w) f = Some (Reg data mode) -> (mode < 4096)%N -> owner_r mode = true ->
  lookup (fs w) g = None ->
  split_lines data = A ->
  exists st1 w1 st2 w2 w3 st4 w4 st5 w5 w6,
    process_section oF st false p s w = (Ok (st1, s), w1) /\
    finalize_writes oF st1 (deferred_writes st1) w1 = (Ok st2, w2) /\
    finalize_removals (deferred_writes st1) (deferred_removals st1) w2 = (Ok tt, w3) /\
    lookup (fs w3) g = Some (Reg (lines_bytes (newline_output oF) B) mode) /\ lookup (fs w3) f = None /\
    process_section oR st' false p s' w3 = (Ok (st4, s'), w4) /\
    finalize_writes oR st4 (deferred_writes st4) w4 = (Ok st5, w5) /\
    finalize_removals (deferred_writes st4) (deferred_removals st4) w5 = (Ok tt, w6) /\
    lookup (fs w6) f = Some (Reg (lines_bytes (newline_output oR) A) mode) /\ lookup (fs w6) g = None /\
    (forall q, q <> f -> q <> g -> lookup (fs w6) q = lookup (fs w) q) /\
    had_failure st2 = had_failure st /\ had_failure st5 = had_failure st' /\ fault w6 = None.
Proof.
  intros OpF RvF OpR RvR Pf Pop P3 Po Pn Pmo Pmn Hne Hdf Hdg Hn Hs Hn2 Hs2 HC HxA HxB Can Fw Dw Dr Dw' Dr' Lf Hm Hr Lg HA.
  destruct (rename_forward oF p f g A B st s w data mode OpF RvF Pf Pop P3 Po Pn Pmn Hne Hdf Hn Hs Hn2 Hs2 HC HxA Fw Dw Dr Lf Hm Hr Lg HA)
    as (st1 & w1 & st2 & w2 & w3 & E1 & _ & E2 & E3 & L3g & L3f & O3 & H3 & _ & F3 & U3).
  destruct (rename_reverse oR p f g A B st' s' w3 _ mode OpR RvR Pf Pop P3 Po Pn Pmo Hne Hdg Hn Hs Hn2 Hs2 HC HxB F3 Dw' Dr' L3g Hm Hr L3f Can)
    as (st4 & w4 & st5 & w5 & w6 & E4 & _ & E5 & E6 & L6f & L6g & O6 & H6 & _ & F6 & U6).
  exists st1, w1, st2, w2, w3, st4, w4, st5, w5, w6.
  split; [exact E1|]. split; [exact E2|]. split; [exact E3|]. split; [exact L3g|]. split; [exact L3f|].
  split; [exact E4|]. split; [exact E5|]. split; [exact E6|]. split; [exact L6f|]. split; [exact L6g|]. split.
  - intros q H1 H2. rewrite (O6 q H2 H1). apply O3; assumption.
  - split; [exact H3|]. split; [exact H6|exact F6].
Qed.

(* ================= (2b) the side condition of (2): without --remove-empty-files the file stays, empty ================= *)
(* a patch that, as apply_patch sees it, deletes the file f which holds X, when --remove-empty-files is NOT in force
   (--posix, or -E not given under POSIXLY_CORRECT): the file is written back with nothing in it *)
Lemma section_delete_kept_gen o p f X st s w data mode :
  plain_options o -> remove_empty_files o <> OBYes ->
  pfmt p <> FGit -> prereq p = [] ->
  poper (effective o p) = OpDelete -> old_path (effective o p) = f -> new_path (effective o p) = devnull ->
  new_mode (effective o p) = 0%N ->
  f <> devnull -> f <> [] -> ~ In 47%N f ->
  Conforming X [] (hunks (effective o p)) ->
  (Z.of_nat (length X) < MAXZ)%Z ->
  fault w = None -> deferred_writes st = [] ->
  lookup (fs w) f = Some (Reg data mode) -> (mode < 4096)%N -> owner_r mode = true -> owner_w mode = true ->
  split_lines data = X ->
  exists st' w',
    process_section o st false p s w = (Ok (st', s), w') /\
    fs w' = upd (upd (fs w) f (Reg [] mode)) f (Reg [] mode) /\
    same_state st st' /\ fault w' = None /\ umask w' = umask w.
Proof.
  intros (O1 & O2 & O3 & O4 & O5 & O6 & O8) Re Pf P3 Pop Po Pn Pm Hd Hn Hs HC Hx Fw Dw Lf Hm Hr Hw HX.
  pose proof (owner_w_write_mask _ Hw) as Hw2.
  assert (Ex : exists_ (fs w) f = true) by (unfold exists_; rewrite (stat_reg _ _ _ _ Hs Lf); reflexivity).
  assert (Names : (old_path p = f /\ new_path p = devnull \/ old_path p = devnull /\ new_path p = f) /\
                  (poper p = OpAdd \/ poper p = OpDelete)).
  { unfold effective in Pop, Po, Pn. destruct (reverse_patch_opt o); cbn [reverse_patch old_path new_path poper] in Pop, Po, Pn.
    - split; [right; split; assumption|]. destruct (poper p); try discriminate; auto.
    - split; [left; split; assumption|]. right. exact Pop. }
  destruct Names as [Nm Op].
  assert (G : guess_filepath (fs w) (map d_dest (deferred_writes st)) p o = f).
  { rewrite Dw. cbn [map]. apply guess_existing; assumption. }
  assert (Out : output_path o p f = f) by (apply output_add_delete; assumption).
  rewrite (head_existing o st p s w f data mode O1 G Out Dw Fw Lf Hm Hr (or_introl Hw2) P3).
  2:{ destruct Op as [E|E]; rewrite E; discriminate. } 2: exact Hn. 2: exact Hs.
  rewrite HX.
  assert (Guard : creation_guard (effective o p) X).
  { intros E. exfalso. unfold creates_file in E. rewrite Po in E. apply str_eqb_eq in E. contradiction. }
  destruct (apply_conforming_gen_full o p X [] O5 O6 O8 HC Hx Guard) as (r & Er & Ro & Rf & Rr & Rs & Rp & Rm & hs & Hp3).
  rewrite mbind_eq. unfold mlift. rewrite Er.
  apply N.eqb_neq in Hw2. rewrite Hw2.
  assert (Q1 : pfmt (r_patch r) <> FGit) by (rewrite Hp3; cbn [set_hunks pfmt]; rewrite eff_pfmt; exact Pf).
  assert (Q2 : poper (r_patch r) = OpDelete) by (rewrite Hp3; exact Pop).
  assert (Q3 : new_mode (r_patch r) = 0%N) by (rewrite Hp3; exact Pm).
  rewrite (tail_write o st f f mode mode r s _ O2 O3 O4 Rf Rs Rp Rm Q1 (or_intror (or_intror Q2)) Q3 (or_intror (or_introl Re)) Hn Hs).
  assert (Unk : N.eqb mode perms_unknown = false) by (apply N.eqb_neq; unfold perms_unknown; lia).
  rewrite Unk, Ro. cbn [lines_bytes flat_map].
  set (w1 := mkWorld (fs w) (umask w) (trace w ++ [OOpenRead f]) None (stdout_data w)).
  destruct (write_existing o (add_event st []) f [] mode w1 data mode eq_refl Hs Lf Hw) as (w' & Ew & Fs' & Fa' & Um').
  rewrite mbind_eq, Ew. cbn [mret].
  eexists. exists w'. split; [reflexivity|]. split; [exact Fs'|]. split; [apply same_state_add_event|]. split; [exact Fa'|exact Um'].
Qed.

(* -R of a creating patch without --remove-empty-files: f is NOT removed; it is left there with no content *)
Theorem section_reverse_of_creation_without_E o p f B st s w data mode :
  plain_options o -> reverse_patch_opt o = true -> remove_empty_files o <> OBYes ->
  pfmt p <> FGit -> poper p = OpAdd -> prereq p = [] -> old_path p = devnull -> new_path p = f -> old_mode p = 0%N ->
  f <> devnull -> f <> [] -> ~ In 47%N f ->
  Conforming [] B (hunks p) -> (Z.of_nat (length B) < MAXZ)%Z ->
  fault w = None -> deferred_writes st = [] ->
  lookup (fs w) f = Some (Reg data mode) -> (mode < 4096)%N -> owner_r mode = true -> owner_w mode = true ->
  split_lines data = B ->
  exists st' w',
    process_section o st false p s w = (Ok (st', s), w') /\
    lookup (fs w') f = Some (Reg [] mode) /\
    (forall q, q <> f -> lookup (fs w') q = lookup (fs w) q) /\
    same_state st st' /\ fault w' = None /\ umask w' = umask w.
Proof.
  intros Op Rv Re Pf Pop P3 Po Pn Pm Hd Hn Hs HC Hx Fw Dw Lf Hm Hr Hw HB.
  destruct (section_delete_kept_gen o p f B st s w data mode Op Re Pf P3) as (st' & w' & E & Fs' & Ss & Fa & Um); try assumption;
    try (unfold effective; rewrite Rv; cbn [reverse_patch poper old_path new_path new_mode]; try rewrite Pop; try assumption; reflexivity).
  - unfold effective. rewrite Rv. cbn [reverse_patch hunks]. apply conforming_reverse. exact HC.
  - exists st', w'. split; [exact E|]. rewrite Fs'. destruct (upd_upd_lookup (fs w) f (Reg [] mode) (Reg [] mode)) as [L1 L2].
    split; [exact L1|]. split; [exact L2|]. split; [exact Ss|]. split; [exact Fa|exact Um].
Qed.
