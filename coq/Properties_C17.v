(* Properties_C17.v — C17: file modes are preserved; refusals leave files untouched.  Statements only. *)
From PatchV Require Import Base Lines Hunk Options Parser World Driver Proofs_World Proofs_Touch.

(* whenever the write of a target succeeds, the file ends with exactly the mode that was to be set after writing (in
   process_section: the new mode of a git header when there is one, else the permission bits the file had), with or
   without a backup having moved the original away *)
Theorem write_now_sets_mode : forall o st d w st' w' mode,
  write_now o st d w = (Ok st', w') -> d_perm_after d = Some mode ->
  (forall t, lookup (fs w') (d_dest d) <> Some (Sym t)) ->
  node_mode (lookup (fs w') (d_dest d)) = Some mode.
Proof. exact Proofs_World.write_now_sets_mode. Qed.
Print Assumptions write_now_sets_mode.

(* a refusal performs nothing but the write of the reject file: the target's bytes and mode are not touched *)
Theorem refusal_writes_only_rejects : forall o st outf p,
  TP (fun op => exists data, op = OWrite (reject_path o outf) data) (refuse_to_patch o st outf p).
Proof. exact Proofs_Touch.refusal_writes_only_rejects. Qed.
Print Assumptions refusal_writes_only_rejects.
