(* Properties_C17.v — C17: file modes are preserved; refusals leave files untouched.  Statements only. *)
From PatchV Require Import Base Lines Hunk Options Parser World Driver Proofs_World Proofs_Touch Locator Formatter Applier LineParser Spec_Locate Spec_Apply Proofs_Conf Proofs_Reapply Proofs_Reverse Proofs_DriverMore.

(* whenever the write of a target succeeds, the file ends with exactly the mode that was to be set after writing (in
   process_section: the new mode of a git header when there is one, else the permission bits the file had), with or
   without a backup having moved the original away *)
Theorem write_now_sets_mode : forall o st d w st' w' mode,
  write_now o st d w = (Ok st', w') -> d_perm_after d = Some mode ->
  (forall t, lookup (fs w') (d_dest d) <> Some (Sym t)) ->
  node_mode (lookup (fs w') (d_dest d)) = Some mode.
Proof. exact Proofs_World.write_now_sets_mode. Qed.
Print Assumptions write_now_sets_mode.

(* a refusal performs nothing but the write of the reject file: the target's bytes and mode are not touched *)
Theorem refusal_writes_only_rejects : forall o st outf p,
  TP (fun op => exists data, op = OWrite (reject_path o outf) data) (refuse_to_patch o st outf p).
Proof. exact Proofs_Touch.refusal_writes_only_rejects. Qed.
Print Assumptions refusal_writes_only_rejects.

(* ---------------------------------------------------------------------------------------------------------------
   C17 at driver level (process_section, finalize_writes); proofs in Proofs_DriverMore.v, non-vacuity Examples and
   whole-program vm_compute runs in Properties_DriverMore.v. *)
(* one git change section and the end of the run: the new content, and the permissions of the mode header when there is one,
   else those the file had *)
Theorem git_section_mode : forall o p f A B st s w data mode,
  plain_options o -> reverse_patch_opt o = false ->
  pfmt p = FGit -> poper p = OpChange -> prereq p = [] -> old_path p = f -> new_path p = f ->
  is_symlink_mode (new_mode p) = false ->
  f <> devnull -> f <> [] -> ~ In 47%N f ->
  Conforming A B (hunks p) ->
  (remove_empty_files o <> OBYes \/ lines_bytes (newline_output o) B <> []) ->
  (Z.of_nat (length A) < MAXZ)%Z ->
  fault w = None -> deferred_writes st = [] -> deferred_removals st = [] ->
  lookup (fs w) f = Some (Reg data mode) -> (mode < 4096)%N -> owner_r mode = true -> owner_w mode = true ->
  split_lines data = A ->
  exists st1 w1 st2 w2 w3,
    process_section o st false p s w = (Ok (st1, s), w1) /\ fs w1 = fs w /\
    finalize_writes o st1 (deferred_writes st1) w1 = (Ok st2, w2) /\
    finalize_removals (deferred_writes st1) (deferred_removals st1) w2 = (Ok tt, w3) /\
    lookup (fs w3) f = Some (Reg (lines_bytes (newline_output o) B)
                                 (if N.eqb (new_mode p) 0 then mode else N.land (new_mode p) 4095)) /\
    (forall q, q <> f -> lookup (fs w3) q = lookup (fs w) q) /\
    had_failure st2 = had_failure st /\ events st2 = events st /\ fault w3 = None /\ umask w3 = umask w.
Proof. exact Proofs_DriverMore.git_section_mode. Qed.
Print Assumptions git_section_mode.

(* what a later section of the run sees of a file with a write pending: content and permissions of the pending write *)
Theorem section_git_next : forall o p f X Y st s w d pm ndata nmode,
  git_options o ->
  pfmt p = FGit -> poper p = OpChange -> prereq p = [] -> old_path p = f -> new_path p = f ->
  is_symlink_mode (new_mode (effective o p)) = false ->
  f <> devnull -> f <> [] -> ~ In 47%N f ->
  Conforming X Y (hunks (effective o p)) ->
  (remove_empty_files o <> OBYes \/ lines_bytes (newline_output o) Y <> []) ->
  (Z.of_nat (length X) < MAXZ)%Z ->
  find (fun x => str_eqb (d_dest x) f) (rev (deferred_writes st)) = Some d ->
  d_newname d = false -> d_perm_after d = Some pm -> (pm < 4096)%N ->
  (N.land pm write_mask <> 0%N \/ read_only o <> ROFail) ->
  lookup (fs w) f = Some (Reg ndata nmode) ->
  split_lines (d_data d) = X ->
  process_section o st false p s w =
  (Ok (deferring_state st (mkDef (lines_bytes (newline_output o) Y) f false (save_backup o)
                                 (if N.eqb (N.land pm write_mask) 0 then Some (N.lor pm write_mask) else None)
                                 (perm_after_of (new_mode (effective o p)) pm)), s), w).
Proof. exact Proofs_DriverMore.section_git_next. Qed.
Print Assumptions section_git_next.

(* the series: "new mode" in the first section, none in the second; the second section's deferred write sets the mode of
   the header again (not the mode on disk while the sections ran), and that is the mode at the end of the run *)
Theorem git_series_mode : forall o p1 p2 f A0 A1 A2 st s1 s2 w data m0,
  plain_options o -> reverse_patch_opt o = false ->
  pfmt p1 = FGit -> poper p1 = OpChange -> prereq p1 = [] -> old_path p1 = f -> new_path p1 = f ->
  new_mode p1 <> 0%N -> is_symlink_mode (new_mode p1) = false -> owner_w (N.land (new_mode p1) 4095) = true ->
  pfmt p2 = FGit -> poper p2 = OpChange -> prereq p2 = [] -> old_path p2 = f -> new_path p2 = f ->
  new_mode p2 = 0%N ->
  f <> devnull -> f <> [] -> ~ In 47%N f ->
  Conforming A0 A1 (hunks p1) -> Conforming A1 A2 (hunks p2) ->
  split_lines (lines_bytes (newline_output o) A1) = A1 ->
  (remove_empty_files o <> OBYes \/
   (lines_bytes (newline_output o) A1 <> [] /\ lines_bytes (newline_output o) A2 <> [])) ->
  (Z.of_nat (length A0) < MAXZ)%Z -> (Z.of_nat (length A1) < MAXZ)%Z ->
  fault w = None -> deferred_writes st = [] -> deferred_removals st = [] ->
  lookup (fs w) f = Some (Reg data m0) -> (m0 < 4096)%N -> owner_r m0 = true -> owner_w m0 = true ->
  split_lines data = A0 ->
  let pm1 := N.land (new_mode p1) 4095 in
  exists st1 w1 st2 w2 st3 w3 w4 d1 d2,
    process_section o st false p1 s1 w = (Ok (st1, s1), w1) /\ fs w1 = fs w /\
    process_section o st1 false p2 s2 w1 = (Ok (st2, s2), w2) /\ fs w2 = fs w /\
    deferred_writes st2 = [d1; d2] /\ d_perm_after d1 = Some pm1 /\ d_perm_after d2 = Some pm1 /\
    finalize_writes o st2 (deferred_writes st2) w2 = (Ok st3, w3) /\
    finalize_removals (deferred_writes st2) (deferred_removals st2) w3 = (Ok tt, w4) /\
    lookup (fs w4) f = Some (Reg (lines_bytes (newline_output o) A2) pm1) /\
    (forall q, q <> f -> lookup (fs w4) q = lookup (fs w) q) /\
    had_failure st3 = had_failure st /\ events st3 = events st /\ fault w4 = None /\ umask w4 = umask w.
Proof. exact Proofs_DriverMore.git_series_mode. Qed.
Print Assumptions git_series_mode.

