(* Properties_C17.v — C17: file modes are preserved; refusals leave files untouched.  Statements only. *)
From PatchV Require Import Base Lines Hunk Options Parser World Driver Proofs_World Proofs_Touch Locator Formatter Applier LineParser Spec_Locate Spec_Apply Proofs_Conf Proofs_Reapply Proofs_Reverse Proofs_DriverMore.

(* whenever the write of a target succeeds, the file ends with exactly the mode that was to be set after writing (in
   process_section: the new mode of a git header when there is one, else the permission bits the file had), with or
   without a backup having moved the original away *)
Theorem write_now_sets_mode : forall o st d w st' w' mode,
  write_now o st d w = (Ok st', w') -> d_perm_after d = Some mode ->
  (forall t, lookup (fs w') (d_dest d) <> Some (Sym t)) ->
  node_mode (lookup (fs w') (d_dest d)) = Some mode.
Proof. exact Proofs_World.write_now_sets_mode. Qed.
Print Assumptions write_now_sets_mode.

(* a refusal performs nothing but the write of the reject file: the target's bytes and mode are not touched *)
Theorem refusal_writes_only_rejects : forall o st outf p,
  TP (fun op => exists data, op = OWrite (reject_path o outf) data) (refuse_to_patch o st outf p).
Proof. exact Proofs_Touch.refusal_writes_only_rejects. Qed.
Print Assumptions refusal_writes_only_rejects.

(* ---------------------------------------------------------------------------------------------------------------
   C17 at driver level (process_section, finalize_writes); proofs in Proofs_DriverMore.v, non-vacuity Examples and
   whole-program vm_compute runs in Properties_DriverMore.v. *)
(* one git change section and the end of the run: the new content, and the permissions of the mode header when there is one,
   else those the file had *)
Theorem git_section_mode : forall o p f A B st s w data mode,
  plain_options o -> reverse_patch_opt o = false ->
  pfmt p = FGit -> poper p = OpChange -> prereq p = [] -> old_path p = f -> new_path p = f ->
  is_symlink_mode (new_mode p) = false ->
  f <> devnull -> f <> [] -> ~ In 47%N f ->
  Conforming A B (hunks p) ->
  (remove_empty_files o <> OBYes \/ lines_bytes (newline_output o) B <> []) ->
  (Z.of_nat (length A) < MAXZ)%Z ->
  fault w = None -> deferred_writes st = [] -> deferred_removals st = [] ->
  lookup (fs w) f = Some (Reg data mode) -> (mode < 4096)%N -> owner_r mode = true -> owner_w mode = true ->
  split_lines data = A ->
  exists st1 w1 st2 w2 w3,
    process_section o st false p s w = (Ok (st1, s), w1) /\ fs w1 = fs w /\
    finalize_writes o st1 (deferred_writes st1) w1 = (Ok st2, w2) /\
    finalize_removals (deferred_writes st1) (deferred_removals st1) w2 = (Ok tt, w3) /\
    lookup (fs w3) f = Some (Reg (lines_bytes (newline_output o) B)
                                 (if N.eqb (new_mode p) 0 then mode else N.land (new_mode p) 4095)) /\
    (forall q, q <> f -> lookup (fs w3) q = lookup (fs w) q) /\
    had_failure st2 = had_failure st /\ events st2 = events st /\ fault w3 = None /\ umask w3 = umask w.
Proof. exact Proofs_DriverMore.git_section_mode. Qed.
Print Assumptions git_section_mode.

(* what a later section of the run sees of a file with a write pending: content and permissions of the pending write *)
Theorem section_git_next : forall o p f X Y st s w d pm ndata nmode,
  git_options o ->
  pfmt p = FGit -> poper p = OpChange -> prereq p = [] -> old_path p = f -> new_path p = f ->
  is_symlink_mode (new_mode (effective o p)) = false ->
  f <> devnull -> f <> [] -> ~ In 47%N f ->
  Conforming X Y (hunks (effective o p)) ->
  (remove_empty_files o <> OBYes \/ lines_bytes (newline_output o) Y <> []) ->
  (Z.of_nat (length X) < MAXZ)%Z ->
  find (fun x => str_eqb (d_dest x) f) (rev (deferred_writes st)) = Some d ->
  d_newname d = false -> d_perm_after d = Some pm -> (pm < 4096)%N ->
  (N.land pm write_mask <> 0%N \/ read_only o <> ROFail) ->
  lookup (fs w) f = Some (Reg ndata nmode) ->
  split_lines (d_data d) = X ->
  process_section o st false p s w =
  (Ok (deferring_state st (mkDef (lines_bytes (newline_output o) Y) f false (save_backup o)
                                 (if N.eqb (N.land pm write_mask) 0 then Some (N.lor pm write_mask) else None)
                                 (perm_after_of (new_mode (effective o p)) pm)), s), w).
Proof. exact Proofs_DriverMore.section_git_next. Qed.
Print Assumptions section_git_next.

(* the series: "new mode" in the first section, none in the second; the second section's deferred write sets the mode of
   the header again (not the mode on disk while the sections ran), and that is the mode at the end of the run *)
Theorem git_series_mode : forall o p1 p2 f A0 A1 A2 st s1 s2 w data m0,
  plain_options o -> reverse_patch_opt o = false ->
  pfmt p1 = FGit -> poper p1 = OpChange -> prereq p1 = [] -> old_path p1 = f -> new_path p1 = f ->
  new_mode p1 <> 0%N -> is_symlink_mode (new_mode p1) = false -> owner_w (N.land (new_mode p1) 4095) = true ->
  pfmt p2 = FGit -> poper p2 = OpChange -> prereq p2 = [] -> old_path p2 = f -> new_path p2 = f ->
  new_mode p2 = 0%N ->
  f <> devnull -> f <> [] -> ~ In 47%N f ->
  Conforming A0 A1 (hunks p1) -> Conforming A1 A2 (hunks p2) ->
  split_lines (lines_bytes (newline_output o) A1) = A1 ->
  (remove_empty_files o <> OBYes \/
   (lines_bytes (newline_output o) A1 <> [] /\ lines_bytes (newline_output o) A2 <> [])) ->
  (Z.of_nat (length A0) < MAXZ)%Z -> (Z.of_nat (length A1) < MAXZ)%Z ->
  fault w = None -> deferred_writes st = [] -> deferred_removals st = [] ->
  lookup (fs w) f = Some (Reg data m0) -> (m0 < 4096)%N -> owner_r m0 = true -> owner_w m0 = true ->
  split_lines data = A0 ->
  let pm1 := N.land (new_mode p1) 4095 in
  exists st1 w1 st2 w2 st3 w3 w4 d1 d2,
    process_section o st false p1 s1 w = (Ok (st1, s1), w1) /\ fs w1 = fs w /\
    process_section o st1 false p2 s2 w1 = (Ok (st2, s2), w2) /\ fs w2 = fs w /\
    deferred_writes st2 = [d1; d2] /\ d_perm_after d1 = Some pm1 /\ d_perm_after d2 = Some pm1 /\
    finalize_writes o st2 (deferred_writes st2) w2 = (Ok st3, w3) /\
    finalize_removals (deferred_writes st2) (deferred_removals st2) w3 = (Ok tt, w4) /\
    lookup (fs w4) f = Some (Reg (lines_bytes (newline_output o) A2) pm1) /\
    (forall q, q <> f -> lookup (fs w4) q = lookup (fs w) q) /\
    had_failure st3 = had_failure st /\ events st3 = events st /\ fault w4 = None /\ umask w4 = umask w.
Proof. exact Proofs_DriverMore.git_series_mode. Qed.
Print Assumptions git_series_mode.


(* ===== merged from Properties_RefuseRun.v ===== *)
From PatchV Require Import Base Lines Hunk Locator Formatter Options Applier LineParser Parser World Driver
     Proofs_Reverse Proofs_DriverMore Spec_Names Proofs_Names Proofs_Fuel Proofs_Unified Proofs_Filler Proofs_Sections
     Proofs_Sections_Unified Proofs_Whole Proofs_DriverBatch Proofs_RefuseRun.

(* the section: either refusal of process_section (stat says: a regular file without any write bit under --read-only=fail; a
   directory or another kind of node) performs exactly one operation, the creation of f.rej with the header and every hunk *)
Theorem section_refused_gen : forall o p f h hs st s w n,
  refusing_options o -> should_write_as_unified o p = true ->
  (poper p = OpChange \/ poper p = OpAdd \/ poper p = OpDelete) ->
  old_path p = f -> f <> Driver.devnull -> f <> [] -> ~ In 47%N f ->
  hunks p = h :: hs ->
  fault w = None -> deferred_writes st = [] ->
  lookup (fs w) f = Some n -> refused_node o n ->
  lookup (fs w) (f ++ bs ".rej") = None ->
  let rej := write_patch_header_as_unified p ++ emit_hunks (h :: hs) in
  process_section o st false p s w =
  (Ok (refused_state st (S (length hs)), s),
   wstep w (upd (fs w) (f ++ bs ".rej") (Reg rej (created_mode (umask w)))) (OWrite (f ++ bs ".rej") rej)).
Proof. exact Proofs_RefuseRun.section_refused_gen. Qed.
Print Assumptions section_refused_gen.

(* process_patch on the text of a unified patch for one file, refused for either reason: the result as an equation *)
Theorem process_patch_refused : forall o f0 fl oldname t1 newname t2 h1 hs tail fname w n,
  refusing_options o -> reject_format_opt o <> RFContext ->
  format_from_options o = Ok f0 -> f0 = FUnknown \/ f0 = FUnified ->
  Forall (Filler (strip_size o) (empty_patch f0)) fl -> Forall clean fl ->
  plain_name oldname -> plain_name newname -> clean (oldname ++ tab_time t1) -> clean (newname ++ tab_time t2) ->
  stripped oldname (strip_size o) = fname -> stripped newname (strip_size o) = fname ->
  fname <> [] /\ ~ In 47%N fname ->
  Forall wf_hunk (h1 :: hs) ->
  tail_ok tail -> ends_here o f0 (after tail) = true ->
  fault w = None -> lookup (fs w) fname = Some n -> refused_node o n ->
  lookup (fs w) (fname ++ bs ".rej") = None ->
  process_patch o (unified_text fl oldname t1 newname t2 (h1 :: hs) tail) w =
  (Ok (1, refused_report (S (length hs))), refused_world w fname (unified_rejects fname t1 t2 (h1 :: hs))).
Proof. exact Proofs_RefuseRun.process_patch_refused. Qed.
Print Assumptions process_patch_refused.

(* C17, --read-only=fail *)
Theorem read_only_refused_run : forall o f0 fl oldname t1 newname t2 h1 hs tail fname w data mode,
  refusing_options o -> read_only o = ROFail -> reject_format_opt o <> RFContext ->
  format_from_options o = Ok f0 -> f0 = FUnknown \/ f0 = FUnified ->
  Forall (Filler (strip_size o) (empty_patch f0)) fl -> Forall clean fl ->
  plain_name oldname -> plain_name newname -> clean (oldname ++ tab_time t1) -> clean (newname ++ tab_time t2) ->
  stripped oldname (strip_size o) = fname -> stripped newname (strip_size o) = fname ->
  fname <> [] /\ ~ In 47%N fname ->
  Forall wf_hunk (h1 :: hs) ->
  tail_ok tail -> ends_here o f0 (after tail) = true ->
  fault w = None -> lookup (fs w) fname = Some (Reg data mode) -> N.land mode write_mask = 0%N ->
  lookup (fs w) (fname ++ bs ".rej") = None ->
  let rej := unified_rejects fname t1 t2 (h1 :: hs) in
  exists w',
    process_patch o (unified_text fl oldname t1 newname t2 (h1 :: hs) tail) w = (Ok (1, refused_report (S (length hs))), w') /\
    lookup (fs w') fname = Some (Reg data mode) /\
    lookup (fs w') (fname ++ bs ".rej") = Some (Reg rej (created_mode (umask w))) /\
    (forall q, q <> fname ++ bs ".rej" -> lookup (fs w') q = lookup (fs w) q) /\
    trace w' = trace w ++ [OWrite (fname ++ bs ".rej") rej] /\
    fault w' = None /\ umask w' = umask w /\ stdout_data w' = stdout_data w.
Proof. exact Proofs_RefuseRun.read_only_refused_run. Qed.
Print Assumptions read_only_refused_run.

(* the hypothesis on the mode is "none of the three write bits", which is more than "no owner write permission" *)
Theorem no_write_bits_owner : forall mode, N.land mode write_mask = 0%N -> owner_w mode = false.
Proof. exact Proofs_RefuseRun.no_write_bits_owner. Qed.
Print Assumptions no_write_bits_owner.

(* C17, target not a regular file *)
Theorem not_regular_refused_run : forall o f0 fl oldname t1 newname t2 h1 hs tail fname w n,
  refusing_options o -> reject_format_opt o <> RFContext ->
  format_from_options o = Ok f0 -> f0 = FUnknown \/ f0 = FUnified ->
  Forall (Filler (strip_size o) (empty_patch f0)) fl -> Forall clean fl ->
  plain_name oldname -> plain_name newname -> clean (oldname ++ tab_time t1) -> clean (newname ++ tab_time t2) ->
  stripped oldname (strip_size o) = fname -> stripped newname (strip_size o) = fname ->
  fname <> [] /\ ~ In 47%N fname ->
  Forall wf_hunk (h1 :: hs) ->
  tail_ok tail -> ends_here o f0 (after tail) = true ->
  fault w = None -> lookup (fs w) fname = Some n -> (exists m, n = Dir m \/ n = Other m) ->
  lookup (fs w) (fname ++ bs ".rej") = None ->
  let rej := unified_rejects fname t1 t2 (h1 :: hs) in
  exists w',
    process_patch o (unified_text fl oldname t1 newname t2 (h1 :: hs) tail) w = (Ok (1, refused_report (S (length hs))), w') /\
    lookup (fs w') fname = Some n /\
    lookup (fs w') (fname ++ bs ".rej") = Some (Reg rej (created_mode (umask w))) /\
    (forall q, q <> fname ++ bs ".rej" -> lookup (fs w') q = lookup (fs w) q) /\
    trace w' = trace w ++ [OWrite (fname ++ bs ".rej") rej] /\
    fault w' = None /\ umask w' = umask w /\ stdout_data w' = stdout_data w.
Proof. exact Proofs_RefuseRun.not_regular_refused_run. Qed.
Print Assumptions not_regular_refused_run.

(* the whole program: patch on standard input; patch in a file named with -i *)
Theorem run_patch_refused : forall o f0 fl oldname t1 newname t2 h1 hs tail fname w n,
  (patch_file_path o = [] \/ patch_file_path o = bs "-") ->
  refusing_options o -> reject_format_opt o <> RFContext ->
  format_from_options o = Ok f0 -> f0 = FUnknown \/ f0 = FUnified ->
  Forall (Filler (strip_size o) (empty_patch f0)) fl -> Forall clean fl ->
  plain_name oldname -> plain_name newname -> clean (oldname ++ tab_time t1) -> clean (newname ++ tab_time t2) ->
  stripped oldname (strip_size o) = fname -> stripped newname (strip_size o) = fname ->
  fname <> [] /\ ~ In 47%N fname ->
  Forall wf_hunk (h1 :: hs) ->
  tail_ok tail -> ends_here o f0 (after tail) = true ->
  fault w = None -> lookup (fs w) fname = Some n -> refused_node o n ->
  lookup (fs w) (fname ++ bs ".rej") = None ->
  run_patch o (unified_text fl oldname t1 newname t2 (h1 :: hs) tail) w =
  mkRR 1 (refused_report (S (length hs))) (refused_world w fname (unified_rejects fname t1 t2 (h1 :: hs))).
Proof. exact Proofs_RefuseRun.run_patch_refused. Qed.
Print Assumptions run_patch_refused.

Theorem run_patch_file_refused : forall o f0 fl oldname t1 newname t2 h1 hs tail fname w n pf pm stdin,
  patch_file_path o = pf -> pf <> [] -> pf <> bs "-" -> ~ In 47%N pf ->
  lookup (fs w) pf = Some (Reg (unified_text fl oldname t1 newname t2 (h1 :: hs) tail) pm) -> owner_r pm = true ->
  refusing_options o -> reject_format_opt o <> RFContext ->
  format_from_options o = Ok f0 -> f0 = FUnknown \/ f0 = FUnified ->
  Forall (Filler (strip_size o) (empty_patch f0)) fl -> Forall clean fl ->
  plain_name oldname -> plain_name newname -> clean (oldname ++ tab_time t1) -> clean (newname ++ tab_time t2) ->
  stripped oldname (strip_size o) = fname -> stripped newname (strip_size o) = fname ->
  fname <> [] /\ ~ In 47%N fname ->
  Forall wf_hunk (h1 :: hs) ->
  tail_ok tail -> ends_here o f0 (after tail) = true ->
  fault w = None -> lookup (fs w) fname = Some n -> refused_node o n ->
  lookup (fs w) (fname ++ bs ".rej") = None ->
  let rej := unified_rejects fname t1 t2 (h1 :: hs) in
  run_patch o stdin w =
  mkRR 1 (refused_report (S (length hs)))
       (mkWorld (upd (fs w) (fname ++ bs ".rej") (Reg rej (created_mode (umask w)))) (umask w)
                (trace w ++ [OOpenRead pf; OWrite (fname ++ bs ".rej") rej]) None (stdout_data w)).
Proof. exact Proofs_RefuseRun.run_patch_file_refused. Qed.
Print Assumptions run_patch_file_refused.

(* ---------- non-vacuity: f = a,b,c with mode 0444, --read-only=fail, patch in p.diff (-i p.diff) ---------- *)
Local Open Scope string_scope.
Definition rr_nl : list N := [10%N].
Definition rr_l (s : String.string) := mkLine (bs s) LF.
Definition rr_o (ro : read_only_handling) :=
  mkOptions false false [] [] false (bs "p.diff") false false false [] (-1) 2 false [] [] false false false false false false false false
            OBUnset OBUnset MNative RFDefault ro QSUnset [] [].
Definition rr_data := bs "a" ++ rr_nl ++ bs "b" ++ rr_nl ++ bs "c" ++ rr_nl.
Definition rr_h := mkHunk (mkRange 1 3) (mkRange 1 3)
  [mkPL Ctx (rr_l "a"); mkPL Del (rr_l "b"); mkPL Add (rr_l "B"); mkPL Ctx (rr_l "c")].
Definition rr_text := bs "diff -u a/f b/f" ++ rr_nl ++ bs "--- a/f" ++ rr_nl ++ bs "+++ b/f" ++ rr_nl ++ bs "@@ -1,3 +1,3 @@" ++ rr_nl
  ++ bs " a" ++ rr_nl ++ bs "-b" ++ rr_nl ++ bs "+B" ++ rr_nl ++ bs " c" ++ rr_nl.
Definition rr_rej := bs "--- f" ++ rr_nl ++ bs "+++ f" ++ rr_nl ++ bs "@@ -1,3 +1,3 @@" ++ rr_nl
  ++ bs " a" ++ rr_nl ++ bs "-b" ++ rr_nl ++ bs "+B" ++ rr_nl ++ bs " c" ++ rr_nl.
Definition rr_other : list N * node := (bs "other", Reg (bs "x") 256).
Definition rr_pfile : list N * node := (bs "p.diff", Reg rr_text 420).
(* 292 = 0444 *)
Definition rr_w (n : node) := mkWorld [rr_pfile; rr_other; (bs "f", n)] 18 [] None [].

Lemma rr_text_shape : rr_text = unified_text [bs "diff -u a/f b/f"] (bs "a/f") None (bs "b/f") None [rr_h] [].
Proof. vm_compute. reflexivity. Qed.
Lemma rr_wfs : Forall wf_hunk [rr_h].
Proof. constructor; [wf_hunk_tac|constructor]. Qed.
Lemma rr_filler ro : Forall (Filler (strip_size (rr_o ro)) (empty_patch FUnknown)) [bs "diff -u a/f b/f"].
Proof. constructor; [vm_compute; reflexivity|constructor]. Qed.
Lemma rr_refusing ro : refusing_options (rr_o ro).
Proof. unfold refusing_options. repeat split; reflexivity. Qed.
Ltac rr_noslash := let H := fresh "H" in vm_compute; intros H; repeat (destruct H as [H|H]; [discriminate H|]); exact H.
Ltac rr_side := first [ exact rr_wfs | apply rr_filler | apply rr_refusing
                      | reflexivity | discriminate
                      | (vm_compute; reflexivity) | (vm_compute; discriminate) | rr_noslash
                      | (left; discriminate) | (right; discriminate)
                      | (left; reflexivity) | (right; vm_compute; reflexivity)
                      | (vm_compute; split; reflexivity) | exact I
                      | (repeat split; vm_compute; intuition discriminate)
                      | (constructor; [repeat split; vm_compute; intuition discriminate|constructor]) ].

(* the theorem, instantiated: mode 0444, --read-only=fail *)
Example run_patch_read_only_nonvacuous :
  run_patch (rr_o ROFail) [] (rr_w (Reg rr_data 292)) =
  mkRR 1 (bs "1 out of 1 hunk ignored" ++ rr_nl)
       (mkWorld [(bs "f.rej", Reg rr_rej 420); rr_pfile; rr_other; (bs "f", Reg rr_data 292)] 18
                [OOpenRead (bs "p.diff"); OWrite (bs "f.rej") rr_rej] None []).
Proof.
  rewrite (run_patch_file_refused (rr_o ROFail) FUnknown [bs "diff -u a/f b/f"] (bs "a/f") None (bs "b/f") None
             rr_h [] [] (bs "f") (rr_w (Reg rr_data 292)) (Reg rr_data 292) (bs "p.diff") 420 []);
    rr_side.
Qed.

(* read_only_refused_run with its hypotheses discharged (process_patch on the text) *)
Example read_only_refused_run_nonvacuous :
  exists w',
    process_patch (rr_o ROFail) rr_text (rr_w (Reg rr_data 292)) = (Ok (1, bs "1 out of 1 hunk ignored" ++ rr_nl), w') /\
    lookup (fs w') (bs "f") = Some (Reg rr_data 292) /\
    lookup (fs w') (bs "f.rej") = Some (Reg rr_rej 420) /\
    (forall q, q <> bs "f.rej" -> lookup (fs w') q = lookup (fs (rr_w (Reg rr_data 292))) q) /\
    trace w' = [OWrite (bs "f.rej") rr_rej].
Proof.
  eassert (X : _).
  { apply (read_only_refused_run (rr_o ROFail) FUnknown [bs "diff -u a/f b/f"] (bs "a/f") None (bs "b/f") None
             rr_h [] [] (bs "f") (rr_w (Reg rr_data 292)) rr_data 292); rr_side. }
  cbv zeta in X. destruct X as (w' & E & A & B & C & D & _).
  exists w'. rewrite rr_text_shape. split; [exact E|]. split; [exact A|]. split; [exact B|]. split; [exact C|exact D].
Qed.

(* the target is a directory: the theorem, instantiated (--read-only left at its default) *)
Example run_patch_directory_nonvacuous :
  run_patch (rr_o ROWarn) [] (rr_w (Dir 493)) =
  mkRR 1 (bs "1 out of 1 hunk ignored" ++ rr_nl)
       (mkWorld [(bs "f.rej", Reg rr_rej 420); rr_pfile; rr_other; (bs "f", Dir 493)] 18
                [OOpenRead (bs "p.diff"); OWrite (bs "f.rej") rr_rej] None []).
Proof.
  rewrite (run_patch_file_refused (rr_o ROWarn) FUnknown [bs "diff -u a/f b/f"] (bs "a/f") None (bs "b/f") None
             rr_h [] [] (bs "f") (rr_w (Dir 493)) (Dir 493) (bs "p.diff") 420 []);
    rr_side.
Qed.

(* cross-check by plain computation of the model: exit status 1, bytes and mode of f untouched, f.rej created, no backup *)
Example whole_program_read_only_fail :
  let r := run_patch (rr_o ROFail) [] (rr_w (Reg rr_data 292)) in
  rr_exit r = 1 /\ rr_events r = bs "1 out of 1 hunk ignored" ++ rr_nl /\
  lookup (fs (rr_world r)) (bs "f") = Some (Reg rr_data 292) /\
  lookup (fs (rr_world r)) (bs "f.orig") = None /\ lookup (fs (rr_world r)) (bs "f.rej") = Some (Reg rr_rej 420) /\
  lookup (fs (rr_world r)) (bs "other") = Some (Reg (bs "x") 256) /\
  trace (rr_world r) = [OOpenRead (bs "p.diff"); OWrite (bs "f.rej") rr_rej].
Proof. vm_compute. repeat split; reflexivity. Qed.

Example whole_program_directory :
  let r := run_patch (rr_o ROWarn) [] (rr_w (Dir 493)) in
  rr_exit r = 1 /\ rr_events r = bs "1 out of 1 hunk ignored" ++ rr_nl /\
  lookup (fs (rr_world r)) (bs "f") = Some (Dir 493) /\ lookup (fs (rr_world r)) (bs "f.rej") = Some (Reg rr_rej 420) /\
  trace (rr_world r) = [OOpenRead (bs "p.diff"); OWrite (bs "f.rej") rr_rej].
Proof. vm_compute. repeat split; reflexivity. Qed.

(* the quirk: only the three write bits together make a file read-only.  Mode 0464 (no owner write permission, group write
   permission) is NOT refused under --read-only=fail: the program reads the file and tries to write it without making it
   writable first; the write fails (the model's process is the owner: EACCES) and the run ends with exit status 2, not 1.
   The file is untouched all the same, but there is neither a reject file nor a report. *)
Example whole_program_group_writable_not_refused :
  let r := run_patch (rr_o ROFail) [] (rr_w (Reg rr_data 308)) in
  owner_w 308 = false /\ rr_exit r = 2 /\ rr_events r = [] /\
  lookup (fs (rr_world r)) (bs "f") = Some (Reg rr_data 308) /\
  lookup (fs (rr_world r)) (bs "f.rej") = None /\
  trace (rr_world r) = [OOpenRead (bs "p.diff"); OOpenRead (bs "f"); OWrite (bs "f") (bs "a" ++ rr_nl ++ bs "B" ++ rr_nl ++ bs "c" ++ rr_nl)].
Proof. vm_compute. repeat split; reflexivity. Qed.
