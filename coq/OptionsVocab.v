(* OptionsVocab.v — the vocabulary the generated option table (OptionsTable.v) is written in. *)
From PatchV Require Import Base.

Inductive field :=
| FBackupPrefix | FDefineMacro | FRemoveEmptyFiles | FMaxFuzz | FIgnoreReversed | FReversePatch | FSaveBackup
| FInterpretAsContext | FPatchDirectoryPath | FInterpretAsEd | FForce | FShowHelp | FPatchFilePath | FIgnoreWhitespace
| FInterpretAsNormal | FOutFilePath | FStripSize | FRejectFilePath | FBatch | FInterpretAsUnified | FShowVersion
| FBackupSuffix | FVerbose | FDryRun | FBackupIfMismatch | FPosix.

Inductive handler := HNewline | HReadOnly | HRejectFormat | HQuotingStyle.

Inductive setter :=
| SetStr (f : field)              (* m_options.f = option *)
| SetTrue (f : field)             (* m_options.f = true *)
| SetInt (f : field)              (* m_options.f = stoi(option, ...) *)
| SetOB (f : field) (yes : bool)  (* m_options.f = OptionalBool::Yes / No *)
| Handle (h : handler).           (* handle_xxx(option) *)
