(* Proofs_WholeGit.v — C01 end to end for a section written by git diff: "diff --git a/f b/f", "index ..", "--- a/f", "+++ b/f",
   the hunks.  The write is deferred to the end of the run (finalize_writes); the result is the same. *)
From PatchV Require Import Base Lines Hunk Locator Formatter Options Applier LineParser Parser World Driver
     Spec_Locate Spec_Apply Spec_Names Proofs_Base Proofs_Lines Proofs_Fuel Proofs_Unified Proofs_Filler Proofs_Progress
     Proofs_Names Proofs_Conf Proofs_World Proofs_Crash Proofs_EndToEnd Proofs_Reverse Proofs_Sections Proofs_Sections_Unified
     Proofs_Whole.

(* ---------- the header scan once "diff --git" has been seen ---------- *)
Definition gs_at (p : patch) (n first : nat) : hstate := mkHS p LKUnknown n true true empty_hunk first.

Lemma git_name_loop_spec : forall a acc more, ~ In 32%N a -> git_name_loop (a ++ bs " b/" ++ more) acc = rev acc ++ a.
Proof.
  induction a as [|c a IH]; intros acc more H.
  - cbn [app]. change (bs " b/" ++ more) with (32%N :: 98%N :: 47%N :: more). cbn [git_name_loop].
    change (32%N :: 98%N :: 47%N :: more) with (bs " b/" ++ more). rewrite consume_str_app. rewrite app_nil_r. reflexivity.
  - cbn [app git_name_loop].
    assert (X : consume_str (bs " b/") (c :: a ++ bs " b/" ++ more) = None).
    { change (bs " b/") with (32%N :: bs "b/"). cbn [consume_str consume_char].
      destruct (N.eqb_spec c 32) as [->|_]; [exfalso; apply H; left; reflexivity|reflexivity]. }
    rewrite X. rewrite IH by (intros I; apply H; right; exact I). cbn [rev]. rewrite <- app_assoc. reflexivity.
Qed.

Lemma git_header_name strip a more :
  ~ In 32%N a -> hd 0%N a <> 34%N -> parse_git_header_name strip (a ++ bs " b/" ++ more) = Ok (strip_path a strip).
Proof.
  intros H Hq. unfold parse_git_header_name.
  assert (X : match a ++ bs " b/" ++ more with
              | 34%N :: _ => do x <- parse_quoted_string (a ++ bs " b/" ++ more); Ok (fst x)
              | _ => Ok (git_name_loop (a ++ bs " b/" ++ more) [])
              end = Ok (git_name_loop (a ++ bs " b/" ++ more) [])).
  { destruct a as [|c a]; [reflexivity|]. cbn [app hd] in *. destruct c as [|q]; [reflexivity|].
    destruct (N.eqb_spec (N.pos q) 34) as [E|E]; [contradiction|].
    do 6 (destruct q as [q|q|]; try reflexivity). all: try (exfalso; apply E; reflexivity). }
  rewrite X. cbn [rbind]. rewrite (git_name_loop_spec a [] more H). reflexivity.
Qed.

Lemma step_git_diff strip p n r name :
  parse_git_header_name strip r = Ok name ->
  header_step strip (hs_at p n) (bs "diff --git " ++ r) =
  Ok (inl (gs_at (set_fmt (set_paths p name name (old_time p) (new_time p)) FUnified) (S n) (S (S n)))).
Proof.
  intros H. unfold header_step, hs_at. cbn [h_looks h_patch h_lines h_git h_body h_hunk h_first looks_eqb andb negb].
  change (consume_str (bs "*** ") (bs "diff --git " ++ r)) with (@None (list N)).
  change (consume_str (bs "+++ ") (bs "diff --git " ++ r)) with (@None (list N)).
  change (consume_str (bs "--- ") (bs "diff --git " ++ r)) with (@None (list N)).
  change (consume_str (bs "Index: ") (bs "diff --git " ++ r)) with (@None (list N)).
  change (consume_str (bs "Prereq: ") (bs "diff --git " ++ r)) with (@None (list N)).
  rewrite consume_str_app. rewrite H. reflexivity.
Qed.

Lemma step_git_index strip p n first x :
  header_step strip (gs_at p n first) (bs "index " ++ x) = Ok (inl (gs_at p (S n) (S (S n)))).
Proof.
  unfold header_step, gs_at. cbn [h_looks h_patch h_lines h_git h_body h_hunk h_first looks_eqb andb negb].
  change (consume_str (bs "*** ") (bs "index " ++ x)) with (@None (list N)).
  change (consume_str (bs "+++ ") (bs "index " ++ x)) with (@None (list N)).
  change (consume_str (bs "--- ") (bs "index " ++ x)) with (@None (list N)).
  change (consume_str (bs "Index: ") (bs "index " ++ x)) with (@None (list N)).
  change (consume_str (bs "Prereq: ") (bs "index " ++ x)) with (@None (list N)).
  change (consume_str (bs "diff --git ") (bs "index " ++ x)) with (@None (list N)).
  change (parse_git_extended_info p strip (bs "index " ++ x)) with (Ok (true, p)).
  reflexivity.
Qed.

Lemma step_minus_git strip p n first r x :
  parse_file_line strip r = Ok x ->
  header_step strip (gs_at p n first) (bs "--- " ++ r) =
  Ok (inl (gs_at (set_paths p (old_path p) (fst x) (old_time p) (opt_or (snd x) (new_time p))) (S n) first)).
Proof.
  intros H. unfold header_step, gs_at. cbn [h_looks h_patch h_lines h_git h_body h_hunk h_first looks_eqb andb negb].
  change (consume_str (bs "*** ") (bs "--- " ++ r)) with (@None (list N)).
  change (consume_str (bs "+++ ") (bs "--- " ++ r)) with (@None (list N)).
  rewrite consume_str_app. rewrite H. reflexivity.
Qed.

Lemma step_plus_git strip p n first r x :
  parse_file_line strip r = Ok x ->
  header_step strip (gs_at p n first) (bs "+++ " ++ r) =
  Ok (inl (gs_at (set_paths p (fst x) (new_path p) (opt_or (snd x) (old_time p)) (new_time p)) (S n) first)).
Proof.
  intros H. unfold header_step, gs_at. cbn [h_looks h_patch h_lines h_git h_body h_hunk h_first looks_eqb andb negb].
  change (consume_str (bs "*** ") (bs "+++ " ++ r)) with (@None (list N)).
  rewrite consume_str_app. rewrite H. reflexivity.
Qed.

Lemma step_range_git strip p n first o nr :
  fmt_unknown_or p FUnified = true -> wf_range o -> wf_range nr ->
  header_step strip (gs_at p n first) (unified_header o nr) = Ok (inl (mkHS p LKUnified (S n) true true (mkHunk o nr []) (S n))).
Proof.
  intros Hf Ho Hn. pose proof (parse_unified_header empty_hunk o nr Ho Hn) as HP. cbn [body empty_hunk] in HP.
  unfold header_step, gs_at. cbn [h_looks h_patch h_lines h_git h_body h_hunk h_first looks_eqb andb negb].
  rewrite HP. unfold unified_header.
  set (x := fmt_range_unified o ++ bs " +" ++ fmt_range_unified nr ++ bs " @@").
  change (consume_str (bs "*** ") (bs "@@ -" ++ x)) with (@None (list N)).
  change (consume_str (bs "+++ ") (bs "@@ -" ++ x)) with (@None (list N)).
  change (consume_str (bs "--- ") (bs "@@ -" ++ x)) with (@None (list N)).
  change (consume_str (bs "Index: ") (bs "@@ -" ++ x)) with (@None (list N)).
  change (consume_str (bs "Prereq: ") (bs "@@ -" ++ x)) with (@None (list N)).
  change (consume_str (bs "diff --git ") (bs "@@ -" ++ x)) with (@None (list N)).
  change (parse_git_extended_info p strip (bs "@@ -" ++ x)) with (Ok (false, p)).
  cbn [rbind fst snd]. rewrite Hf. reflexivity.
Qed.

Lemma step_first_git strip p k hk first o t :
  fmt_unknown_or p FUnified = true ->
  header_step strip (mkHS p LKUnified k true true hk first) (op_char o :: t) =
  Ok (inr (mkHS (set_fmt (set_paths p (new_path p) (old_path p) (new_time p) (old_time p)) FUnified) LKUnknown (S k) true true hk first)).
Proof.
  intros Hf.
  assert (S1 : (starts_with (op_char o :: t) [43%N] || starts_with (op_char o :: t) [45%N] || starts_with (op_char o :: t) [32%N]) = true)
    by (destruct o; cbn [op_char starts_with]; rewrite starts_with_nil; reflexivity).
  assert (C1 : consume_str (bs "Index: ") (op_char o :: t) = None) by (destruct o; reflexivity).
  assert (C2 : consume_str (bs "Prereq: ") (op_char o :: t) = None) by (destruct o; reflexivity).
  assert (C3 : consume_str (bs "diff --git ") (op_char o :: t) = None) by (destruct o; reflexivity).
  assert (C4 : parse_git_extended_info p strip (op_char o :: t) = Ok (false, p)) by (destruct o; reflexivity).
  unfold header_step. cbn [h_looks h_patch h_lines h_git h_body h_hunk h_first looks_eqb andb negb].
  rewrite Hf, S1, C1, C2, C3, C4. cbn [andb rbind fst snd]. rewrite Hf. cbn [is_nil andb orb]. rewrite S1. reflexivity.
Qed.

(* ---------- the scan over the lines git diff writes ---------- *)
Lemma scan_core_git strip p0 n ga gb ix oldname t1 newname t2 o nr opc t :
  ~ In 32%N ga -> hd 0%N ga <> 34%N ->
  plain_name oldname -> plain_name newname -> wf_range o -> wf_range nr ->
  scan strip (hs_at p0 n)
       [bs "diff --git " ++ ga ++ bs " b/" ++ gb; bs "index " ++ ix;
        bs "--- " ++ oldname ++ tab_time t1; bs "+++ " ++ newname ++ tab_time t2; unified_header o nr; op_char opc :: t] =
  Some (mkHS (named p0 (stripped oldname strip) (stripped newname strip) t1 t2) LKUnknown (S (S (S (S (S (S n)))))) true true
             (mkHunk o nr []) (S (S (S (S (S n)))))).
Proof.
  intros Hg1 Hg2 Ho Hn Wo Wn.
  rewrite (scan_inl _ _ _ _ _ (step_git_diff strip p0 n _ _ (git_header_name strip ga gb Hg1 Hg2))).
  rewrite (scan_inl _ _ _ _ _ (step_git_index strip _ (S n) _ ix)).
  rewrite (scan_inl _ _ _ _ _ (step_minus_git strip _ (S (S n)) _ _ _ (file_line_name oldname t1 strip Ho))). cbn [fst snd].
  rewrite (scan_inl _ _ _ _ _ (step_plus_git strip _ (S (S (S n))) _ _ _ (file_line_name newname t2 strip Hn))). cbn [fst snd].
  match goal with |- scan _ (gs_at ?q _ _) _ = _ => set (p2 := q) end.
  assert (Hf2 : fmt_unknown_or p2 FUnified = true) by reflexivity.
  rewrite (scan_inl _ _ _ _ _ (step_range_git strip p2 _ _ o nr Hf2 Wo Wn)).
  cbn [scan]. rewrite (step_first_git strip p2 _ _ _ opc t Hf2). cbn [is_nil].
  destruct p0; reflexivity.
Qed.

Lemma header_patch_git p0 oldp newp t1 t2 k o nr first h1 :
  poper p0 = OpChange -> oldr h1 = o -> newr h1 = nr ->
  header_patch (mkHS (named p0 oldp newp t1 t2) LKUnknown k true true (mkHunk o nr []) first) =
  set_oper (set_fmt (named p0 oldp newp t1 t2) FGit) (decide_oper h1 oldp newp).
Proof.
  intros Hop <- <-. unfold header_patch, decide_oper. cbn [h_git h_patch h_hunk named set_fmt poper newr oldr new_path old_path].
  rewrite Hop. destruct (_ || _); [reflexivity|]. destruct (_ || _); [reflexivity|].
  destruct p0. cbn in Hop. subst. reflexivity.
Qed.

(* ---------- section_tail for a git section that applied perfectly: the write is put off ---------- *)
Lemma tail_defer o st ftp f operms pm (ar : aresult) s2 w :
  out_file_path o = [] -> dry_run o = false -> save_backup o = false ->
  r_failed ar = 0 -> r_skipped ar = false -> r_perfect ar = true -> r_msgs ar = [] ->
  pfmt (r_patch ar) = FGit -> poper (r_patch ar) = OpChange -> new_mode (r_patch ar) = 0%N ->
  (remove_empty_files o <> OBYes \/ (new_path (r_patch ar) <> devnull /\ lines_bytes (newline_output o) (r_out ar) <> [])) ->
  f <> [] -> ~ In 47%N f ->
  section_tail o st ftp f operms pm false ar s2 w =
  (Ok (mkDS (had_failure st) (backed_up st)
            (deferred_writes st ++ [mkDef (lines_bytes (newline_output o) (r_out ar)) f false false None
                                          (if N.eqb pm perms_unknown then None else Some pm)])
            (deferred_removals st) (events st ++ []), s2), w).
Proof.
  intros O2 O3 O4 Rf Rs Rp Rm Pf Pop Pm Nd Hn Hs.
  unfold section_tail. rewrite Rf, Rs, Rp, Rm, Pm, O2, O3, O4, Pf, Pop.
  cbn [Nat.eqb negb andb orb is_nil].
  change (str_eqb [] (bs "-")) with false. cbv iota.
  rewrite mbind_eq. cbn [mret].
  rewrite (ensure_noslash f Hn Hs).
  match goal with |- context [if ?c then (if is_nil ?b then ?x else ?y) else ?z] =>
    assert (X : (if c then (if is_nil b then x else y) else z) = z) end.
  { destruct (remove_empty_files o) eqn:Re; try reflexivity.
    destruct Nd as [Nr|(Pn & Nb)]; [congruence|].
    apply str_eqb_neq in Pn. rewrite Pn.
    destruct (lines_bytes (newline_output o) (r_out ar)); [congruence|]. cbn [is_nil].
    destruct (hunks (r_patch ar)) as [|h hs]; [reflexivity|].
    destruct ((rstart (newr h) =? 0)%Z && (rcount (newr h) =? 0)%Z); reflexivity. }
  rewrite X. clear X.
  change (negb (0 =? 0)%N) with false. cbv iota.
  change (is_symlink_mode 0) with false. cbv iota.
  rewrite mbind_eq. cbn [mret andb]. rewrite mbind_eq. rewrite mbind_eq. cbn [mret].
  rewrite mbind_eq. cbn [mret]. reflexivity.
Qed.

(* a git change section over an existing file of the working directory: the file is read, nothing is written yet *)
Lemma git_section_defers o p f X Y st s w data mode :
  plain_options o -> reverse_patch_opt o = false ->
  pfmt p = FGit -> poper p = OpChange -> prereq p = [] -> old_path p = f -> new_path p = f -> new_mode p = 0%N ->
  f <> Driver.devnull -> f <> [] -> ~ In 47%N f ->
  Conforming X Y (hunks p) ->
  (remove_empty_files o <> OBYes \/ lines_bytes (newline_output o) Y <> []) ->
  (Z.of_nat (length X) < MAXZ)%Z ->
  fault w = None -> deferred_writes st = [] ->
  lookup (fs w) f = Some (Reg data mode) -> (mode < 4096)%N -> owner_r mode = true -> owner_w mode = true ->
  split_lines data = X ->
  process_section o st false p s w =
  (Ok (mkDS (had_failure st) (backed_up st) [mkDef (lines_bytes (newline_output o) Y) f false false None (Some mode)]
            (deferred_removals st) (events st ++ []), s),
   mkWorld (fs w) (umask w) (trace w ++ [OOpenRead f]) None (stdout_data w)).
Proof.
  intros (O1 & O2 & O3 & O4 & O5 & O6 & O8) Rv Pf Pop P3 Po Pn Pm Hd Hn Hs HC Ne Hx Fw Dw Lf Hm Hr Hw HX.
  pose proof (owner_w_write_mask _ Hw) as Hw2.
  assert (Ex : exists_ (fs w) f = true) by (unfold exists_; rewrite (stat_reg _ _ _ _ Hs Lf); reflexivity).
  assert (G : guess_filepath (fs w) (map d_dest (deferred_writes st)) p o = f).
  { unfold guess_filepath. rewrite Po. apply str_eqb_neq in Hd. rewrite Hd. cbn [negb andb]. rewrite Ex. reflexivity. }
  assert (Out : output_path o p f = f) by (unfold output_path; rewrite O2, Pop; reflexivity).
  rewrite (head_existing o st p s w f data mode O1 G Out Dw Fw Lf Hm Hr (or_introl Hw2) P3).
  2:{ rewrite Pop. discriminate. } 2: exact Hn. 2: exact Hs.
  rewrite HX.
  assert (Eff : effective o p = p) by (unfold effective; rewrite Rv; reflexivity).
  assert (Guard : creation_guard (effective o p) X).
  { rewrite Eff. intros E. exfalso. unfold creates_file in E. rewrite Po in E. apply str_eqb_eq in E. contradiction. }
  assert (HC' : Conforming X Y (hunks (effective o p))) by (rewrite Eff; exact HC).
  destruct (apply_conforming_gen_full o p X Y O5 O6 O8 HC' Hx Guard) as (r & Er & Ro & Rf & Rr & Rs & Rp & Rm & hs & Hp3).
  rewrite Eff in Hp3.
  rewrite mbind_eq. unfold mlift. rewrite Er.
  apply N.eqb_neq in Hw2. rewrite Hw2.
  assert (Q1 : pfmt (r_patch r) = FGit) by (rewrite Hp3; exact Pf).
  assert (Q2 : poper (r_patch r) = OpChange) by (rewrite Hp3; exact Pop).
  assert (Q3 : new_mode (r_patch r) = 0%N) by (rewrite Hp3; exact Pm).
  assert (Q4 : new_path (r_patch r) <> Driver.devnull) by (rewrite Hp3; cbn [set_hunks new_path]; congruence).
  rewrite (tail_defer o st f f mode mode r s _ O2 O3 O4 Rf Rs Rp Rm Q1 Q2 Q3).
  2:{ rewrite Ro. destruct Ne as [Ne|Ne]; [left; exact Ne|right; split; assumption]. } 2: exact Hn. 2: exact Hs.
  assert (Unk : N.eqb mode perms_unknown = false) by (apply N.eqb_neq; unfold perms_unknown; lia).
  rewrite Unk, Ro, Dw. reflexivity.
Qed.

(* the run on a patch that consists of one section, whatever it leaves to be done at the end *)
Lemma process_patch_one_section o f t should p s1 found st1 s2 w w1 :
  format_from_options o = Ok f ->
  parse_patch_header_full (empty_patch f) (strip_size o) (stream_of t) = Ok (should, p, s1, found) ->
  (if negb found && should then FUnknown else pfmt p) <> FUnknown ->
  poper p <> OpBinary ->
  process_section o ds0 should p s1 w = (Ok (st1, s2), w1) ->
  ends_here o f s2 = true ->
  process_patch o t w = finish o st1 w1.
Proof.
  intros Hfo Hh Hf Hop Hps He.
  rewrite process_patch_unfold, bind_lift, Hfo. unfold mbind.
  assert (L : section_loop (S (S (length t))) o f ds0 (stream_of t) true w = (Ok st1, w1)).
  { cbn [section_loop]. change (seof (stream_of t)) with false. cbv iota. rewrite bind_lift, Hh.
    assert (E : (let! y := process_section o ds0 should p s1 in section_loop (S (length t)) o f (fst y) (snd y) false) w = (Ok st1, w1)).
    { unfold mbind. rewrite Hps. cbn [fst snd]. apply section_loop_ends. exact He. }
    destruct (if negb found && should then FUnknown else pfmt p); try congruence; destruct (poper p); try congruence; exact E. }
  rewrite L. reflexivity.
Qed.

(* the end of a run that has one write, to an existing file of the working directory, put off *)
Lemma finish_one_write o bytes f pm w data mode :
  fault w = None -> f <> [] -> ~ In 47%N f -> lookup (fs w) f = Some (Reg data mode) -> owner_w mode = true ->
  exists w',
    finish o (mkDS false [] [mkDef bytes f false false None (Some pm)] [] []) w = (Ok (0, []), w') /\
    fs w' = upd (upd (fs w) f (Reg bytes mode)) f (Reg bytes pm) /\ fault w' = None /\ umask w' = umask w.
Proof.
  intros Fw Hn Hs Lf Hw. unfold finish. cbn [deferred_writes deferred_removals finalize_removals].
  unfold finalize_writes. cbn [finalize_writes_from d_dest].
  rewrite (ensure_noslash f Hn Hs).
  assert (WB : with_backup_of [mkDef bytes f false false None (Some pm)] (mkDef bytes f false false None (Some pm)) =
               mkDef bytes f false false None (Some pm)).
  { unfold with_backup_of. cbn [d_data d_dest d_newname d_backup d_chmod_first d_perm_after existsb orb]. rewrite andb_false_r. reflexivity. }
  rewrite WB.
  destruct (write_existing o (mkDS false [] [mkDef bytes f false false None (Some pm)] [] []) f bytes pm w data mode Fw Hs Lf Hw)
    as (w' & Ew & Fs' & Fa' & Um').
  exists w'. split; [|repeat split; assumption].
  rewrite mbind_eq. rewrite mbind_eq. cbn [mret]. rewrite mbind_eq, Ew. cbn [mret]. rewrite mbind_eq. cbn [mret]. reflexivity.
Qed.

(* ---------- C01 end to end for a git section ---------- *)
Theorem git_patch_applies o f0 fl ga gb ix oldname t1 newname t2 h1 hs tail fname A B w data mode :
  plain_options o -> reverse_patch_opt o = false ->
  format_from_options o = Ok f0 -> f0 = FUnknown \/ f0 = FUnified ->
  Forall (Filler (strip_size o) (empty_patch f0)) fl -> Forall clean fl ->
  ~ In 32%N ga -> hd 0%N ga <> 34%N -> clean (bs "diff --git " ++ ga ++ bs " b/" ++ gb) -> clean (bs "index " ++ ix) ->
  plain_name oldname -> plain_name newname -> clean (oldname ++ tab_time t1) -> clean (newname ++ tab_time t2) ->
  stripped oldname (strip_size o) = fname -> stripped newname (strip_size o) = fname ->
  fname <> [] /\ ~ In 47%N fname ->
  Forall wf_hunk (h1 :: hs) -> Conforming A B (h1 :: hs) ->
  rstart (oldr h1) <> 0%Z /\ rstart (newr h1) <> 0%Z ->
  remove_empty_files o <> OBYes \/ lines_bytes (newline_output o) B <> [] ->
  (Z.of_nat (length A) < MAXZ)%Z ->
  tail_ok tail -> ends_here o f0 (after tail) = true ->
  fault w = None -> lookup (fs w) fname = Some (Reg data mode) -> (mode < 4096)%N -> owner_r mode = true -> owner_w mode = true ->
  split_lines data = A ->
  exists w',
    process_patch o (join_lines (fl ++ [bs "diff --git " ++ ga ++ bs " b/" ++ gb; bs "index " ++ ix;
                                        bs "--- " ++ oldname ++ tab_time t1; bs "+++ " ++ newname ++ tab_time t2]) ++
                     emit_hunks (h1 :: hs) ++ tail) w = (Ok (0, []), w') /\
    lookup (fs w') fname = Some (Reg (lines_bytes (newline_output o) B) mode) /\
    (forall q, q <> fname -> lookup (fs w') q = lookup (fs w) q) /\
    fault w' = None /\ umask w' = umask w.
Proof.
  intros Hplain Hfwd Hfo Hf0 HF HC Hg1 Hg2 Hdc Hic Hold Hnew Holdc Hnewc Holdf Hnewf (F1 & F2) Hwf Hconf (S1 & S2) HB HA Htail Hends
         Fw Lf Hm Hr Hw HS.
  set (pre := fl ++ [bs "diff --git " ++ ga ++ bs " b/" ++ gb; bs "index " ++ ix;
                     bs "--- " ++ oldname ++ tab_time t1; bs "+++ " ++ newname ++ tab_time t2]).
  set (st' := mkHS (named (empty_patch f0) (stripped oldname (strip_size o)) (stripped newname (strip_size o)) t1 t2) LKUnknown
                   (S (S (S (S (S (S (length fl + 0))))))) true true (mkHunk (oldr h1) (newr h1) []) (S (S (S (S (S (length fl + 0))))))).
  set (p := set_fmt (named (empty_patch f0) fname fname t1 t2) FGit).
  pose proof (Forall_inv Hwf) as Hw1. destruct Hw1 as (Hne & _ & Wo & Wn & _).
  assert (Hscan : scan (strip_size o) (st0 (empty_patch f0)) (pre ++ [unified_header (oldr h1) (newr h1); first_line h1]) = Some st').
  { destruct (first_line_op h1 Hne) as (opc & t & ->). unfold pre. rewrite <- app_assoc.
    change (st0 (empty_patch f0)) with (hs_at (empty_patch f0) 0). rewrite (scan_fillers _ _ fl 0 _ HF).
    cbn [app]. apply scan_core_git; assumption. }
  assert (Hpre : Forall clean pre).
  { apply Forall_app. split; [exact HC|]. destruct Hold as (N1 & _). destruct Hnew as (N2 & _).
    constructor; [exact Hdc|]. constructor; [exact Hic|].
    constructor; [|constructor; [|constructor]]; apply file_line_clean; try assumption; vm_compute; intuition discriminate. }
  assert (Hlen : h_first st' = S (length pre)).
  { unfold st', pre. cbn [h_first]. rewrite app_length. cbn [length]. f_equal. lia. }
  assert (HP : header_patch st' = p).
  { unfold st'. rewrite (header_patch_git (empty_patch f0) _ _ t1 t2 _ _ _ _ h1 eq_refl eq_refl eq_refl).
    rewrite Holdf, Hnewf. unfold decide_oper. apply Z.eqb_neq in S1, S2. rewrite S1, S2.
    rewrite (not_devnull_noslash fname F2). reflexivity. }
  pose proof (header_of_section o f0 pre h1 hs st' Hpre Hwf Hscan Hlen eq_refl tail) as Hh. rewrite HP, <- app_assoc in Hh.
  assert (Hne2 : h1 :: hs <> []) by discriminate.
  assert (E1 : process_section o ds0 true p (strm (emit_hunks (h1 :: hs) ++ tail)) w =
               process_section o ds0 false (set_hunks p (h1 :: hs)) (after tail) w).
  { apply process_section_parsed; [reflexivity|]. intros q Q1 Q2. apply unified_body_fresh; try assumption. right. rewrite Q1. reflexivity. }
  assert (Dn : fname <> Driver.devnull) by (intros ->; apply F2; left; reflexivity).
  pose proof (git_section_defers o (set_hunks p (h1 :: hs)) fname A B ds0 (after tail) w data mode Hplain Hfwd eq_refl eq_refl eq_refl eq_refl
                eq_refl eq_refl Dn F1 F2 Hconf HB HA Fw eq_refl Lf Hm Hr Hw HS) as E2.
  cbn [ds0 had_failure backed_up deferred_removals events app] in E2.
  set (w1 := mkWorld (fs w) (umask w) (trace w ++ [OOpenRead fname]) None (stdout_data w)) in *.
  destruct (finish_one_write o (lines_bytes (newline_output o) B) fname mode w1 data mode eq_refl F1 F2 Lf Hw)
    as (w' & E3 & Fs' & Fa' & Um').
  exists w'. split.
  - set (st1 := mkDS false [] [mkDef (lines_bytes (newline_output o) B) fname false false None (Some mode)] [] []) in *.
    rewrite (process_patch_one_section o f0 _ true p (strm (emit_hunks (h1 :: hs) ++ tail)) true st1 (after tail) w w1 Hfo Hh).
    + exact E3.
    + discriminate.
    + discriminate.
    + rewrite E1. exact E2.
    + exact Hends.
  - rewrite Fs'. destruct (upd_upd_lookup (fs w) fname (Reg (lines_bytes (newline_output o) B) mode) (Reg (lines_bytes (newline_output o) B) mode))
      as [L1 L2].
    split; [exact L1|]. split; [exact L2|]. split; [exact Fa'|exact Um'].
Qed.
Print Assumptions git_patch_applies.

(* ---------- non-vacuity: the output of "git diff" for the change of Proofs_Whole.v, given to patch -p1 ---------- *)
Local Open Scope string_scope.
Definition exg_text : list N :=
  bs "diff --git a/f b/f" ++ nlb ++
  bs "index 8a1218a..5b6e7c6 100644" ++ nlb ++
  bs "--- a/f" ++ nlb ++
  bs "+++ b/f" ++ nlb ++
  bs "@@ -1,5 +1,5 @@" ++ nlb ++
  bs " a" ++ nlb ++ bs "-b" ++ nlb ++ bs "+B" ++ nlb ++ bs " c" ++ nlb ++ bs " d" ++ nlb ++ bs " e" ++ nlb ++
  bs "@@ -8,5 +8,6 @@" ++ nlb ++
  bs " h" ++ nlb ++ bs " i" ++ nlb ++ bs " j" ++ nlb ++ bs "-k" ++ nlb ++ bs "+K" ++ nlb ++ bs "+k2" ++ nlb ++
  bs "-l" ++ nlb ++ bs "+l" ++ nlb ++ bs "\ No newline at end of file" ++ nlb.

Example git_patch_applies_nonvacuous :
  exists w',
    process_patch ex_p1 exg_text ex_world = (Ok (0, []), w') /\
    lookup (fs w') (bs "f") = Some (Reg ex_dataB 420) /\
    (forall q, q <> bs "f" -> lookup (fs w') q = lookup (fs ex_world) q) /\
    fault w' = None /\ umask w' = umask ex_world.
Proof.
  assert (E : exg_text = join_lines ([] ++ [bs "diff --git " ++ bs "a/f" ++ bs " b/" ++ bs "f"; bs "index " ++ bs "8a1218a..5b6e7c6 100644";
                                            bs "--- " ++ bs "a/f" ++ tab_time None; bs "+++ " ++ bs "b/f" ++ tab_time None]) ++
                          emit_hunks [ex_hunk1; ex_hunk2] ++ []) by (vm_compute; reflexivity).
  assert (EB : ex_dataB = lines_bytes (newline_output ex_p1) ex_B) by (vm_compute; reflexivity).
  rewrite E, EB.
  apply (git_patch_applies ex_p1 FUnknown [] (bs "a/f") (bs "f") _ (bs "a/f") None (bs "b/f") None ex_hunk1 [ex_hunk2] [] (bs "f") ex_A ex_B
                           ex_world ex_dataA 420).
  - repeat split; try reflexivity. vm_compute. discriminate.
  - reflexivity.
  - reflexivity.
  - left. reflexivity.
  - constructor.
  - constructor.
  - vm_compute. intuition discriminate.
  - vm_compute. discriminate.
  - split; vm_compute; intuition discriminate.
  - split; vm_compute; intuition discriminate.
  - repeat split; vm_compute; intuition discriminate.
  - repeat split; vm_compute; intuition discriminate.
  - split; vm_compute; intuition discriminate.
  - split; vm_compute; intuition discriminate.
  - vm_compute. reflexivity.
  - vm_compute. reflexivity.
  - split; vm_compute; intuition discriminate.
  - constructor; [exact ex_wf1|constructor; [exact ex_wf2|constructor]].
  - exact ex_conf.
  - split; discriminate.
  - left. discriminate.
  - vm_compute. reflexivity.
  - left. reflexivity.
  - reflexivity.
  - reflexivity.
  - reflexivity.
  - reflexivity.
  - reflexivity.
  - reflexivity.
  - vm_compute. reflexivity.
Qed.

Example git_run_patch_same :
  let r := run_patch ex_p1 exg_text ex_world in
  rr_exit r = 0 /\ rr_events r = [] /\ rr_world r = snd (process_patch ex_p1 exg_text ex_world) /\
  fs (rr_world r) = [(bs "f", Reg ex_dataB 420); (bs "g", Reg (bs "other" ++ nlb) 384); (bs "sub", Dir 493); (bs "sub/f", Reg ex_dataA 420)] /\
  trace (rr_world r) = [OOpenRead (bs "f"); OWrite (bs "f") ex_dataB; OChmod (bs "f") 420].
Proof. vm_compute. repeat split; reflexivity. Qed.
